/-
  GoBk.Proofs.TableProof — the pre-computed byte-point table `GoBk.Gen.Table` (REGENERATED on every
  run from the base64+zlib constant of /repo/bec/secp256k1.go) is correct:

      entry (i, b) is a Jacobian representation of (b · 256^(31-i)) • G,   i < 32, b < 256,

  every coordinate is a canonical (normalised, `Canon`) field value, and the entries for `b = 0`
  are the all-zero words (X = Y = Z = 0, the table's encoding of infinity).

  Method.  Because the table is regenerated, nothing about its contents is assumed: a Boolean checker
  `rowOK i` is evaluated by the KERNEL (`decide +kernel`, one lemma per row), and the checker is proved
  sound once.  The checker is inversion-free:

    * row 31:  T[31][1] ~ (Gx, Gy, 1);      row i < 31:  T[i][1] ~ T[i+1][255] + T[i+1][1]
    * T[i][b+1] ~ T[i][b] + T[i][1]   for b = 1 .. 254      (sum by `Fast.jadd`)
    * all Z ≢ 0 (mod P) for b ≥ 1, all words canonical, T[i][0] = 0

  where `p ~ q` is cross-multiplied Jacobian equality X₁·Z₂² ≡ X₂·Z₁², Y₁·Z₂³ ≡ Y₂·Z₁³ (mod P).
  Soundness is by induction (down the rows, up the entries) with `jadd_rep` of `FastCurve`.
-/
import GoBk.Proofs.TableCheck
import GoBk.Proofs.FieldDefs
import GoBk.Proofs.FastCurve
import GoBk.Proofs.BytesLemmas

namespace GoBk.Proofs.Table
open GoBk.Spec GoBk.Proofs GoBk.Gen.Field GoBk.Gen.Table WeierstrassCurve.Affine

/-! ### soundness of the checker -/

theorem nth_cons_succ (a : Nat) (l : List Nat) (k : Nat) : nth (a :: l) (k + 1) = nth l k := rfl

theorem nth_eq_getD (l : List Nat) (k : Nat) : nth l k = l.getD k 0 := by
  induction l generalizing k with
  | nil => simp [nth]
  | cons a l ih => cases k with
    | zero => simp [nth]
    | succ k => simp [nth, ih]

theorem jeq_cast {x1 y1 z1 x2 y2 z2 : ℕ} (h : jeq (x1, y1, z1) (x2, y2, z2) = true) :
    (x1 : F) * (z2 : F) ^ 2 = x2 * (z1 : F) ^ 2 ∧ (y1 : F) * (z2 : F) ^ 3 = y2 * (z1 : F) ^ 3 := by
  simp only [jeq, Bool.and_eq_true, beq_iff_eq] at h
  obtain ⟨h1, h2⟩ := h
  have e1 := congrArg (Nat.cast : ℕ → F) h1
  have e2 := congrArg (Nat.cast : ℕ → F) h2
  simp only [ZMod.natCast_mod, Nat.cast_mul] at e1 e2
  constructor
  · linear_combination e1
  · linear_combination e2

theorem ne_zero_of_bne {z : ℕ} (h : (z % P != 0) = true) : (z : F) ≠ 0 := by
  intro h0
  have := (mod_eq_zero_iff z).2 h0
  simp only [bne, this, Bool.not_true] at h
  exact absurd h (by decide)

theorem mod_ne_zero_of_bne {z : ℕ} (h : (z % P != 0) = true) : z % P ≠ 0 := by
  intro h0
  rw [h0] at h
  exact absurd h (by decide)

/-- cross-multiplied equality transports the represented point -/
theorem jeq_sound {p q : Fast.J} {Q : E.Point} (hp : Rep p Q) (hpz : (p.2.2 : F) ≠ 0)
    (hqz : (q.2.2 : F) ≠ 0) (h : jeq p q = true) : Rep q Q := by
  obtain ⟨x1, y1, z1⟩ := p
  obtain ⟨x2, y2, z2⟩ := q
  obtain ⟨e1, e2⟩ := jeq_cast h
  simp only at hpz hqz
  rcases hp with ⟨hz, _⟩ | ⟨_, hns, rfl⟩
  · exact absurd hz hpz
  · right
    refine ⟨hqz, ?_⟩
    simp only [castJ] at hns ⊢
    refine some_congr hns ?_ ?_
    · field_simp
      linear_combination e1
    · field_simp
      linear_combination e2

theorem stepOK_sound {e1 p q : Fast.J} {Q R : E.Point} (he : Rep e1 R) (hp : Rep p Q)
    (h : stepOK e1 p q = true) : q.2.2 % P ≠ 0 ∧ Rep q (Q + R) := by
  simp only [stepOK, Bool.and_eq_true] at h
  obtain ⟨⟨hq, hs⟩, hj⟩ := h
  exact ⟨mod_ne_zero_of_bne hq,
    jeq_sound (jadd_rep hp he) (ne_zero_of_bne hs) (ne_zero_of_bne hq) hj⟩

/-- what the checker establishes about one entry -/
def EntOK (l : List Nat) (b : Nat) (Q : E.Point) : Prop :=
  (canonN (nth l (3 * b)) = true ∧ canonN (nth l (3 * b + 1)) = true ∧
    magN (nth l (3 * b + 2)) = true) ∧
  valN (nth l (3 * b + 2)) % P ≠ 0 ∧ Rep (ent l b) Q

theorem EntOK_cons3 {x y z : Nat} {l : List Nat} {m : Nat} {Q : E.Point} (h : EntOK l m Q) :
    EntOK (x :: y :: z :: l) (m + 1) Q := by
  unfold EntOK ent at *
  have e0 : 3 * (m + 1) = 3 * m + 1 + 1 + 1 := by omega
  have e1 : 3 * (m + 1) + 1 = 3 * m + 1 + 1 + 1 + 1 := by omega
  have e2 : 3 * (m + 1) + 2 = 3 * m + 2 + 1 + 1 + 1 := by omega
  rw [e1, e2, e0]
  simp only [nth_cons_succ]
  exact h

theorem chk_sound {e1 : Fast.J} {E1 : E.Point} (he1 : Rep e1 E1) :
    ∀ (n : Nat) (l : List Nat), l.length ≤ n → ∀ (p : Fast.J) (k : Nat), Rep p (k • E1) →
      chk e1 p l = true → ∀ m, 3 * m + 2 < l.length → EntOK l m ((k + 1 + m) • E1) := by
  intro n
  induction n with
  | zero =>
    intro l hl p k _ _ m hm
    omega
  | succ n ih =>
    intro l hl p k hp h m hm
    match l, hl, h, hm with
    | x :: y :: z :: rest, hl, h, hm =>
      simp only [chk, Bool.and_eq_true] at h
      obtain ⟨⟨⟨⟨cx, cy⟩, cz⟩, hs⟩, hr⟩ := h
      obtain ⟨hz, hq⟩ := stepOK_sound he1 hp hs
      rw [← succ_nsmul] at hq
      cases m with
      | zero =>
        refine ⟨⟨cx, cy, cz⟩, hz, ?_⟩
        simpa [ent, nth] using hq
      | succ m =>
        have hl' : rest.length ≤ n := by simp only [List.length_cons] at hl; omega
        have hm' : 3 * m + 2 < rest.length := by simp only [List.length_cons] at hm; omega
        have := ih rest hl' _ (k + 1) hq hr m hm'
        have e : k + 1 + (m + 1) = k + 1 + 1 + m := by omega
        rw [e]
        exact EntOK_cons3 this
    | [], _, _, hm => simp at hm
    | [_], _, _, hm => simp at hm
    | [_, _], _, _, hm => simp at hm

/-- what the checker establishes about a row whose first entry is claimed to represent `E1` -/
def RowOKP (l : List Nat) (E1 : E.Point) : Prop :=
  (nth l 0 = 0 ∧ nth l 1 = 0 ∧ nth l 2 = 0) ∧ ∀ b, 1 ≤ b → b < 256 → EntOK l b (b • E1)

theorem chkRow_sound {base : Fast.J} {E1 : E.Point} (hb : Rep base E1) {l : List Nat}
    (h : chkRow base l = true) : RowOKP l E1 := by
  match l, h with
  | z0 :: z1 :: z2 :: x :: y :: z :: rest, h =>
    simp only [chkRow, Bool.and_eq_true, beq_iff_eq] at h
    obtain ⟨⟨⟨⟨⟨⟨⟨⟨⟨⟨h0, h1⟩, h2⟩, cx⟩, cy⟩, cz⟩, hz⟩, hbz⟩, hj⟩, hlen⟩, hc⟩ := h
    have he1 : Rep (valN x, valN y, valN z) E1 :=
      jeq_sound hb (ne_zero_of_bne hbz) (ne_zero_of_bne hz) hj
    refine ⟨⟨h0, h1, h2⟩, fun b hb1 hb256 => ?_⟩
    have he1' : Rep (valN x, valN y, valN z) (1 • E1) := by rwa [one_nsmul]
    obtain ⟨b, rfl⟩ : ∃ c, b = c + 1 := ⟨b - 1, by omega⟩
    apply EntOK_cons3
    cases b with
    | zero =>
      refine ⟨⟨cx, cy, cz⟩, mod_ne_zero_of_bne hz, ?_⟩
      simpa [ent, nth] using he1'
    | succ m =>
      have := chk_sound he1 rest.length rest (Nat.le_refl _) _ 1 he1' hc m (by omega)
      have e : m + 1 + 1 = 1 + 1 + m := by omega
      rw [e]
      exact EntOK_cons3 this
  | [], h | [_], h | [_, _], h | [_, _, _], h | [_, _, _, _], h | [_, _, _, _, _], h =>
    simp [chkRow] at h

/-! ### induction down the rows -/

theorem G_rep : Rep (Gx, Gy, 1) Gpt := by
  have h := ofAffine_rep Gpt
  rw [enc_Gpt] at h
  exact h

theorem baseOf_rep : ∀ d i, i + d = 31 →
    Rep (baseOf i) ((256 ^ d) • Gpt) ∧ RowOKP (rowL i) ((256 ^ d) • Gpt) := by
  intro d
  induction d with
  | zero =>
    intro i hi
    have hi : i = 31 := by omega
    subst hi
    have hb : Rep (baseOf 31) ((256 ^ 0) • Gpt) := by
      rw [pow_zero, one_nsmul]; exact G_rep
    exact ⟨hb, chkRow_sound hb (rows_ok 31 (by omega))⟩
  | succ d ih =>
    intro i hi
    obtain ⟨_, ⟨_, hrow⟩⟩ := ih (i + 1) (by omega)
    have h255 := (hrow 255 (by omega) (by omega)).2.2
    have h1 := (hrow 1 (by omega) (by omega)).2.2
    have hb : Rep (baseOf i) ((256 ^ (d + 1)) • Gpt) := by
      have hne : i ≠ 31 := by omega
      unfold baseOf
      rw [if_neg hne]
      have := jadd_rep h255 h1
      rw [← add_nsmul, ← mul_nsmul] at this
      have e : 256 ^ d * (255 + 1) = 256 ^ (d + 1) := by rw [pow_succ]
      rwa [e] at this
    exact ⟨hb, chkRow_sound hb (rows_ok i (by omega))⟩

theorem row_rep (i : Nat) (hi : i < 32) : RowOKP (rowL i) ((256 ^ (31 - i)) • Gpt) :=
  (baseOf_rep (31 - i) i (by omega)).2

/-! ### from the checker's `Nat` view to `Gen.Table.get`, `FV.val`, `Canon`, `MagLe` -/

theorem fvNat_eq (f : FV) : fvNat f = f.val := rfl

theorem P_eq_spec : GoBk.Proofs.Field.P = GoBk.Spec.P := by decide

theorem get_eq (i b j : Nat) : Gen.Table.get i b j = unpack (nth (rowL i) (3 * b + j)) := by
  unfold Gen.Table.get rowL
  rw [nth_eq_getD, Array.getD_eq_getD_getElem?, List.getD_eq_getElem?_getD, Array.getElem?_toList]

theorem word_toNat (n k : Nat) : (word n k).toNat = wordN n k := by
  unfold word wordN
  rw [UInt32.toNat_ofNat']
  exact Nat.mod_mod _ _

theorem unpack_val (n : Nat) : (unpack n).val = valN n := by
  simp only [FV.val, unpack, word_toNat, valN]

theorem canon_unpack {n : Nat} (h : canonN n = true) : Field.Canon (unpack n) ∧ (unpack n).val < P := by
  simp only [canonN, Bool.and_eq_true, decide_eq_true_eq] at h
  refine ⟨?_, by rw [unpack_val]; omega⟩
  simp only [Field.Canon, unpack, word_toNat]
  omega

theorem mag_unpack {n : Nat} (h : magN n = true) :
    Field.MagLe 1 (unpack n) ∧ (unpack n).val < P := by
  simp only [magN, Bool.and_eq_true, decide_eq_true_eq] at h
  refine ⟨?_, by rw [unpack_val]; omega⟩
  simp only [Field.MagLe, unpack, word_toNat]
  omega

theorem unpack_zero : unpack 0 = ⟨0, 0, 0, 0, 0, 0, 0, 0, 0, 0⟩ := by decide

/-- the Jacobian triple (field values of the three word vectors) of table entry `(i, b)` -/
def entry (i b : Nat) : Fast.J := ((Gen.Table.get i b 0).val, (Gen.Table.get i b 1).val, (Gen.Table.get i b 2).val)

theorem entry_eq (i b : Nat) : entry i b = ent (rowL i) b := by
  simp only [entry, ent, get_eq, unpack_val, Nat.add_zero]

/-- **Correctness of one table entry** `bytePoints[i][b] = (X, Y, Z)` (word vectors `Gen.Table.get i b 0/1/2`):
* `X`, `Y` are canonical word vectors, `Z` has magnitude 1 (relaxed: word 2 may exceed `2^26` by less
  than `2^20`), and all three values are fully reduced (`< P`);
* for `b = 0` all thirty words are `0` (the table's encoding of the point at infinity);
* for `b ≠ 0`: `Z ≢ 0 (mod P)` and the affine point `(X/Z², Y/Z³)` is `(b · 256^(31-i)) • G`
  in the reference group law `Spec.smul`. -/
def TableRep (i b : Nat) : Prop :=
  (Field.Canon (Gen.Table.get i b 0) ∧ Field.Canon (Gen.Table.get i b 1) ∧ Field.MagLe 1 (Gen.Table.get i b 2)) ∧
  ((Gen.Table.get i b 0).val < Field.P ∧ (Gen.Table.get i b 1).val < Field.P ∧ (Gen.Table.get i b 2).val < Field.P) ∧
  (b = 0 → Gen.Table.get i b 0 = ⟨0, 0, 0, 0, 0, 0, 0, 0, 0, 0⟩ ∧ Gen.Table.get i b 1 = ⟨0, 0, 0, 0, 0, 0, 0, 0, 0, 0⟩ ∧
    Gen.Table.get i b 2 = ⟨0, 0, 0, 0, 0, 0, 0, 0, 0, 0⟩) ∧
  (b ≠ 0 → (Gen.Table.get i b 2).val % Field.P ≠ 0 ∧
    Fast.toAffine (entry i b) = Spec.smul (b * 256 ^ (31 - i)) Spec.G)

/-- every entry (also `b = 0`: `Z = 0`) is a Jacobian representation, in the sense of
`FastCurve.Rep`, of the Mathlib curve point `(b · 256^(31-i)) • G` -/
theorem table_rep (i : Nat) (hi : i < 32) (b : Nat) (hb : b < 256) :
    Rep (entry i b) ((b * 256 ^ (31 - i)) • Gpt) := by
  obtain ⟨⟨_, _, h2⟩, hrow⟩ := row_rep i hi
  rcases Nat.eq_zero_or_pos b with rfl | hpos
  · left
    refine ⟨?_, by rw [Nat.zero_mul, zero_nsmul]⟩
    have : (Gen.Table.get i 0 2).val = 0 := by
      rw [get_eq, show 3 * 0 + 2 = 2 from rfl, h2, unpack_zero]; rfl
    simp only [entry, castJ, this, Nat.cast_zero]
  · have := (hrow b hpos hb).2.2
    rw [← mul_nsmul] at this
    rw [entry_eq, Nat.mul_comm]
    exact this

theorem table_correct : ∀ i, i < 32 → ∀ b, b < 256 → TableRep i b := by
  intro i hi b hb
  obtain ⟨⟨h0, h1, h2⟩, hrow⟩ := row_rep i hi
  unfold TableRep
  simp only [P_eq_spec]
  rcases Nat.eq_zero_or_pos b with rfl | hpos
  · have e0 : Gen.Table.get i 0 0 = ⟨0, 0, 0, 0, 0, 0, 0, 0, 0, 0⟩ := by
      rw [get_eq, show 3 * 0 + 0 = 0 from rfl, h0, unpack_zero]
    have e1 : Gen.Table.get i 0 1 = ⟨0, 0, 0, 0, 0, 0, 0, 0, 0, 0⟩ := by
      rw [get_eq, show 3 * 0 + 1 = 1 from rfl, h1, unpack_zero]
    have e2 : Gen.Table.get i 0 2 = ⟨0, 0, 0, 0, 0, 0, 0, 0, 0, 0⟩ := by
      rw [get_eq, show 3 * 0 + 2 = 2 from rfl, h2, unpack_zero]
    rw [e0, e1, e2]
    refine ⟨⟨by decide, by decide, by decide⟩, ⟨by decide, by decide, by decide⟩,
      fun _ => ⟨rfl, rfl, rfl⟩, fun h => absurd rfl h⟩
  · obtain ⟨⟨cx, cy, cz⟩, hz, _⟩ := hrow b hpos hb
    have hx := canon_unpack cx
    have hy := canon_unpack cy
    have hzm := mag_unpack cz
    rw [← unpack_val] at hz
    rw [get_eq i b 0, get_eq i b 1, get_eq i b 2, Nat.add_zero]
    refine ⟨⟨hx.1, hy.1, hzm.1⟩, ⟨hx.2, hy.2, hzm.2⟩, fun h => absurd h (by omega), fun _ => ⟨hz, ?_⟩⟩
    rw [toAffine_rep (table_rep i hi b hb), ← enc_Gpt, smul_enc]

/-! ### the window sum of `ScalarBaseMult` -/

/-- the loop of `ScalarBaseMult` over a (reduced) scalar of at most 32 bytes, at the level of the
group law: `q := q + bytePoints[diff+i][k[i]]`, with `Fast.jadd` standing for `addJacobian` -/
def tableAcc (diff : Nat) : Fast.J → Nat → Bytes → Fast.J
  | q, _, [] => q
  | q, i, x :: xs => tableAcc diff (Fast.jadd q (entry (diff + i) x.toNat)) (i + 1) xs

/-- `Q = ∞` is the all-zero triple in the Go code -/
def tableMul (k : Bytes) : Fast.J := tableAcc (32 - k.length) (0, 0, 0) 0 k

theorem tableAcc_rep (diff : Nat) : ∀ (xs : Bytes) (q : Fast.J) (i : Nat) (Q : E.Point),
    Rep q Q → diff + i + xs.length = 32 →
      Rep (tableAcc diff q i xs) (Q + Bytes.beNat xs • Gpt) := by
  intro xs
  induction xs with
  | nil =>
    intro q i Q hq _
    simpa [tableAcc] using hq
  | cons x xs ih =>
    intro q i Q hq hlen
    simp only [List.length_cons] at hlen
    have hx : x.toNat < 256 := x.toNat_lt
    have he := table_rep (diff + i) (by omega) x.toNat hx
    have h31 : 31 - (diff + i) = xs.length := by omega
    rw [h31] at he
    have := ih _ (i + 1) _ (jadd_rep hq he) (by omega)
    rw [tableAcc, Bytes.beNat_cons, add_nsmul, ← add_assoc]
    exact this

/-- the sum of the table entries selected by the bytes of `k` represents `k • G` -/
theorem tableMul_rep (k : Bytes) (hk : k.length ≤ 32) : Rep (tableMul k) (Bytes.beNat k • Gpt) := by
  have h0 : Rep (0, 0, 0) (0 : E.Point) := Or.inl ⟨by simp [castJ], rfl⟩
  have := tableAcc_rep (32 - k.length) k (0, 0, 0) 0 0 h0 (by omega)
  rwa [zero_add] at this

end GoBk.Proofs.Table

#print axioms GoBk.Proofs.Table.table_correct
#print axioms GoBk.Proofs.Table.table_rep
