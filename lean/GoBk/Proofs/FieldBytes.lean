/-
  GoBk.Proofs.FieldBytes — C10, second half: `SetBytes` / `PutBytes` (generated
  `GoBk.Gen.Field.setBytes`, `putBytes`; `[32]byte` is the structure `B32`, b0 = most significant).

  * `setBytes_val`      : SetBytes loads exactly the big-endian integer of the 32 bytes, and the
                          result is canonical in shape (words 0..8 < 2^26, word 9 < 2^22);
  * `putBytes_setBytes` : PutBytes ∘ SetBytes is the identity on all 32-byte strings;
  * `putBytes_val`      : PutBytes of a canonical (e.g. normalised) value is its 32-byte big-endian
                          form.
  Method: every `|` in the generated code joins bit-disjoint pieces, so it is a `+`
  (`or_mul_*` lemmas, side conditions by `omega`); what remains is linear arithmetic with `/`, `%`.
  Core Lean only.
-/
import GoBk.Proofs.FieldDefs
import GoBk.Proofs.FieldTactics
import GoBk.Proofs.FieldNormalise

set_option linter.unusedSimpArgs false
set_option linter.unusedVariables false

namespace GoBk.Proofs.Field
open GoBk.Gen.Field

/-- big-endian value of a 32-byte array -/
def beNat (b : B32) : Nat :=
  b.b0.toNat * 452312848583266388373324160190187140051835877600158453279131187530910662656 +
  b.b1.toNat * 1766847064778384329583297500742918515827483896875618958121606201292619776 +
  b.b2.toNat * 6901746346790563787434755862277025452451108972170386555162524223799296 +
  b.b3.toNat * 26959946667150639794667015087019630673637144422540572481103610249216 +
  b.b4.toNat * 105312291668557186697918027683670432318895095400549111254310977536 +
  b.b5.toNat * 411376139330301510538742295639337626245683966408394965837152256 +
  b.b6.toNat * 1606938044258990275541962092341162602522202993782792835301376 +
  b.b7.toNat * 6277101735386680763835789423207666416102355444464034512896 +
  b.b8.toNat * 24519928653854221733733552434404946937899825954937634816 +
  b.b9.toNat * 95780971304118053647396689196894323976171195136475136 +
  b.b10.toNat * 374144419156711147060143317175368453031918731001856 +
  b.b11.toNat * 1461501637330902918203684832716283019655932542976 +
  b.b12.toNat * 5708990770823839524233143877797980545530986496 +
  b.b13.toNat * 22300745198530623141535718272648361505980416 +
  b.b14.toNat * 87112285931760246646623899502532662132736 +
  b.b15.toNat * 340282366920938463463374607431768211456 +
  b.b16.toNat * 1329227995784915872903807060280344576 +
  b.b17.toNat * 5192296858534827628530496329220096 +
  b.b18.toNat * 20282409603651670423947251286016 +
  b.b19.toNat * 79228162514264337593543950336 +
  b.b20.toNat * 309485009821345068724781056 +
  b.b21.toNat * 1208925819614629174706176 +
  b.b22.toNat * 4722366482869645213696 +
  b.b23.toNat * 18446744073709551616 +
  b.b24.toNat * 72057594037927936 +
  b.b25.toNat * 281474976710656 +
  b.b26.toNat * 1099511627776 +
  b.b27.toNat * 4294967296 +
  b.b28.toNat * 16777216 +
  b.b29.toNat * 65536 +
  b.b30.toNat * 256 +
  b.b31.toNat

/-- `beNat` is the usual left fold (`big.Int.SetBytes`) over the byte list. -/
theorem beNat_eq_foldl (b : B32) :
    beNat b = b.toList.foldl (fun acc x => acc * 256 + x.toNat) 0 := by
  simp only [beNat, B32.toList, List.foldl]
  omega

/-! ### `x ||| y·2^k = x + y·2^k` for `x < 2^k` (numeral instances) -/

theorem or_mul_pow {x : Nat} (y k : Nat) (h : x < 2 ^ k) : x ||| y * 2 ^ k = x + y * 2 ^ k := by
  rw [Nat.or_comm, ← Nat.shiftLeft_eq, ← Nat.shiftLeft_add_eq_or_of_lt h, Nat.add_comm]

theorem or_mul_4 {x : Nat} (y : Nat) (h : x < 4) : x ||| y * 4 = x + y * 4 := or_mul_pow y 2 h
theorem or_mul_16 {x : Nat} (y : Nat) (h : x < 16) : x ||| y * 16 = x + y * 16 := or_mul_pow y 4 h
theorem or_mul_64 {x : Nat} (y : Nat) (h : x < 64) : x ||| y * 64 = x + y * 64 := or_mul_pow y 6 h
theorem or_mul_256 {x : Nat} (y : Nat) (h : x < 256) : x ||| y * 256 = x + y * 256 := or_mul_pow y 8 h
theorem or_mul_1024 {x : Nat} (y : Nat) (h : x < 1024) : x ||| y * 1024 = x + y * 1024 := or_mul_pow y 10 h
theorem or_mul_4096 {x : Nat} (y : Nat) (h : x < 4096) : x ||| y * 4096 = x + y * 4096 := or_mul_pow y 12 h
theorem or_mul_16384 {x : Nat} (y : Nat) (h : x < 16384) : x ||| y * 16384 = x + y * 16384 := or_mul_pow y 14 h
theorem or_mul_65536 {x : Nat} (y : Nat) (h : x < 65536) : x ||| y * 65536 = x + y * 65536 := or_mul_pow y 16 h
theorem or_mul_262144 {x : Nat} (y : Nat) (h : x < 262144) : x ||| y * 262144 = x + y * 262144 := or_mul_pow y 18 h
theorem or_mul_1048576 {x : Nat} (y : Nat) (h : x < 1048576) : x ||| y * 1048576 = x + y * 1048576 := or_mul_pow y 20 h
theorem or_mul_4194304 {x : Nat} (y : Nat) (h : x < 4194304) : x ||| y * 4194304 = x + y * 4194304 := or_mul_pow y 22 h
theorem or_mul_16777216 {x : Nat} (y : Nat) (h : x < 16777216) : x ||| y * 16777216 = x + y * 16777216 := or_mul_pow y 24 h

/-- the rewriting set for both directions -/
macro "bytes_simp" " [" extra:Lean.Parser.Tactic.simpLemma,* "]" loc:(Lean.Parser.Tactic.location)? : tactic =>
  `(tactic| simp (disch := omega) only [UInt32.toNat_or, UInt32.toNat_and, UInt32.toNat_shiftLeft,
      UInt32.toNat_shiftRight, UInt32.toNat_ofNat, UInt8.toNat_toUInt32, UInt32.toNat_toUInt8,
      Nat.shiftLeft_eq, Nat.shiftRight_eq_div_pow, Nat.reducePow, Nat.reduceMod,
      and_mask8, and_mask6, and_mask4, and_mask2, Nat.mod_eq_of_lt,
      or_mul_4, or_mul_16, or_mul_64, or_mul_256, or_mul_1024, or_mul_4096, or_mul_16384, or_mul_65536, or_mul_262144, or_mul_1048576, or_mul_4194304, or_mul_16777216, $extra,*] $[$loc]?)

/-! ### SetBytes -/

/-- the ten words of `SetBytes b` as sums of byte pieces -/
theorem setBytes_words (b : B32) :
    (setBytes b).n0.toNat = b.b31.toNat + b.b30.toNat * 256 + b.b29.toNat * 65536 + b.b28.toNat % 4 * 16777216 ∧
    (setBytes b).n1.toNat = b.b28.toNat / 4 + b.b27.toNat * 64 + b.b26.toNat * 16384 + b.b25.toNat % 16 * 4194304 ∧
    (setBytes b).n2.toNat = b.b25.toNat / 16 + b.b24.toNat * 16 + b.b23.toNat * 4096 + b.b22.toNat % 64 * 1048576 ∧
    (setBytes b).n3.toNat = b.b22.toNat / 64 + b.b21.toNat * 4 + b.b20.toNat * 1024 + b.b19.toNat * 262144 ∧
    (setBytes b).n4.toNat = b.b18.toNat + b.b17.toNat * 256 + b.b16.toNat * 65536 + b.b15.toNat % 4 * 16777216 ∧
    (setBytes b).n5.toNat = b.b15.toNat / 4 + b.b14.toNat * 64 + b.b13.toNat * 16384 + b.b12.toNat % 16 * 4194304 ∧
    (setBytes b).n6.toNat = b.b12.toNat / 16 + b.b11.toNat * 16 + b.b10.toNat * 4096 + b.b9.toNat % 64 * 1048576 ∧
    (setBytes b).n7.toNat = b.b9.toNat / 64 + b.b8.toNat * 4 + b.b7.toNat * 1024 + b.b6.toNat * 262144 ∧
    (setBytes b).n8.toNat = b.b5.toNat + b.b4.toNat * 256 + b.b3.toNat * 65536 + b.b2.toNat % 4 * 16777216 ∧
    (setBytes b).n9.toNat = b.b2.toNat / 4 + b.b1.toNat * 64 + b.b0.toNat * 16384 := by
  rcases b with ⟨b0,b1,b2,b3,b4,b5,b6,b7,b8,b9,b10,b11,b12,b13,b14,b15,b16,b17,b18,b19,b20,b21,b22,b23,b24,b25,b26,b27,b28,b29,b30,b31⟩
  have h0 := b0.toNat_lt
  have h1 := b1.toNat_lt
  have h2 := b2.toNat_lt
  have h3 := b3.toNat_lt
  have h4 := b4.toNat_lt
  have h5 := b5.toNat_lt
  have h6 := b6.toNat_lt
  have h7 := b7.toNat_lt
  have h8 := b8.toNat_lt
  have h9 := b9.toNat_lt
  have h10 := b10.toNat_lt
  have h11 := b11.toNat_lt
  have h12 := b12.toNat_lt
  have h13 := b13.toNat_lt
  have h14 := b14.toNat_lt
  have h15 := b15.toNat_lt
  have h16 := b16.toNat_lt
  have h17 := b17.toNat_lt
  have h18 := b18.toNat_lt
  have h19 := b19.toNat_lt
  have h20 := b20.toNat_lt
  have h21 := b21.toNat_lt
  have h22 := b22.toNat_lt
  have h23 := b23.toNat_lt
  have h24 := b24.toNat_lt
  have h25 := b25.toNat_lt
  have h26 := b26.toNat_lt
  have h27 := b27.toNat_lt
  have h28 := b28.toNat_lt
  have h29 := b29.toNat_lt
  have h30 := b30.toNat_lt
  have h31 := b31.toNat_lt
  simp only [Nat.reducePow] at h0 h1 h2 h3 h4 h5 h6 h7 h8 h9 h10 h11 h12 h13 h14 h15 h16 h17 h18 h19 h20 h21 h22 h23 h24 h25 h26 h27 h28 h29 h30 h31
  simp only [setBytes]
  refine ⟨?_, ?_, ?_, ?_, ?_, ?_, ?_, ?_, ?_, ?_⟩ <;> bytes_simp []

/-- **C10, SetBytes.** -/
theorem setBytes_val (b : B32) : (setBytes b).val = beNat b ∧ Canon (setBytes b) := by
  obtain ⟨w0,w1,w2,w3,w4,w5,w6,w7,w8,w9⟩ := setBytes_words b
  have h0 := b.b0.toNat_lt
  have h1 := b.b1.toNat_lt
  have h2 := b.b2.toNat_lt
  have h3 := b.b3.toNat_lt
  have h4 := b.b4.toNat_lt
  have h5 := b.b5.toNat_lt
  have h6 := b.b6.toNat_lt
  have h7 := b.b7.toNat_lt
  have h8 := b.b8.toNat_lt
  have h9 := b.b9.toNat_lt
  have h10 := b.b10.toNat_lt
  have h11 := b.b11.toNat_lt
  have h12 := b.b12.toNat_lt
  have h13 := b.b13.toNat_lt
  have h14 := b.b14.toNat_lt
  have h15 := b.b15.toNat_lt
  have h16 := b.b16.toNat_lt
  have h17 := b.b17.toNat_lt
  have h18 := b.b18.toNat_lt
  have h19 := b.b19.toNat_lt
  have h20 := b.b20.toNat_lt
  have h21 := b.b21.toNat_lt
  have h22 := b.b22.toNat_lt
  have h23 := b.b23.toNat_lt
  have h24 := b.b24.toNat_lt
  have h25 := b.b25.toNat_lt
  have h26 := b.b26.toNat_lt
  have h27 := b.b27.toNat_lt
  have h28 := b.b28.toNat_lt
  have h29 := b.b29.toNat_lt
  have h30 := b.b30.toNat_lt
  have h31 := b.b31.toNat_lt
  simp only [Nat.reducePow] at h0 h1 h2 h3 h4 h5 h6 h7 h8 h9 h10 h11 h12 h13 h14 h15 h16 h17 h18 h19 h20 h21 h22 h23 h24 h25 h26 h27 h28 h29 h30 h31
  simp only [FV.val, Canon, beNat, Nat.reducePow, w0, w1, w2, w3, w4, w5, w6, w7, w8, w9]
  omega

/-! ### PutBytes -/

/-- the 32 bytes of `PutBytes f` in arithmetic form (no hypothesis on `f`) -/
theorem putBytes_bytes (f : FV) :
    (putBytes f).b0.toNat = f.n9.toNat / 16384 % 256 ∧
    (putBytes f).b1.toNat = f.n9.toNat / 64 % 256 ∧
    (putBytes f).b2.toNat = (f.n8.toNat / 16777216 % 4 + f.n9.toNat % 64 * 4) % 256 ∧
    (putBytes f).b3.toNat = f.n8.toNat / 65536 % 256 ∧
    (putBytes f).b4.toNat = f.n8.toNat / 256 % 256 ∧
    (putBytes f).b5.toNat = f.n8.toNat % 256 ∧
    (putBytes f).b6.toNat = f.n7.toNat / 262144 % 256 ∧
    (putBytes f).b7.toNat = f.n7.toNat / 1024 % 256 ∧
    (putBytes f).b8.toNat = f.n7.toNat / 4 % 256 ∧
    (putBytes f).b9.toNat = (f.n6.toNat / 1048576 % 64 + f.n7.toNat % 4 * 64) % 256 ∧
    (putBytes f).b10.toNat = f.n6.toNat / 4096 % 256 ∧
    (putBytes f).b11.toNat = f.n6.toNat / 16 % 256 ∧
    (putBytes f).b12.toNat = (f.n5.toNat / 4194304 % 16 + f.n6.toNat % 16 * 16) % 256 ∧
    (putBytes f).b13.toNat = f.n5.toNat / 16384 % 256 ∧
    (putBytes f).b14.toNat = f.n5.toNat / 64 % 256 ∧
    (putBytes f).b15.toNat = (f.n4.toNat / 16777216 % 4 + f.n5.toNat % 64 * 4) % 256 ∧
    (putBytes f).b16.toNat = f.n4.toNat / 65536 % 256 ∧
    (putBytes f).b17.toNat = f.n4.toNat / 256 % 256 ∧
    (putBytes f).b18.toNat = f.n4.toNat % 256 ∧
    (putBytes f).b19.toNat = f.n3.toNat / 262144 % 256 ∧
    (putBytes f).b20.toNat = f.n3.toNat / 1024 % 256 ∧
    (putBytes f).b21.toNat = f.n3.toNat / 4 % 256 ∧
    (putBytes f).b22.toNat = (f.n2.toNat / 1048576 % 64 + f.n3.toNat % 4 * 64) % 256 ∧
    (putBytes f).b23.toNat = f.n2.toNat / 4096 % 256 ∧
    (putBytes f).b24.toNat = f.n2.toNat / 16 % 256 ∧
    (putBytes f).b25.toNat = (f.n1.toNat / 4194304 % 16 + f.n2.toNat % 16 * 16) % 256 ∧
    (putBytes f).b26.toNat = f.n1.toNat / 16384 % 256 ∧
    (putBytes f).b27.toNat = f.n1.toNat / 64 % 256 ∧
    (putBytes f).b28.toNat = (f.n0.toNat / 16777216 % 4 + f.n1.toNat % 64 * 4) % 256 ∧
    (putBytes f).b29.toNat = f.n0.toNat / 65536 % 256 ∧
    (putBytes f).b30.toNat = f.n0.toNat / 256 % 256 ∧
    (putBytes f).b31.toNat = f.n0.toNat % 256 := by
  rcases f with ⟨a0,a1,a2,a3,a4,a5,a6,a7,a8,a9⟩
  simp only [putBytes]
  refine ⟨?_, ?_, ?_, ?_, ?_, ?_, ?_, ?_, ?_, ?_, ?_, ?_, ?_, ?_, ?_, ?_, ?_, ?_, ?_, ?_, ?_, ?_, ?_, ?_, ?_, ?_, ?_, ?_, ?_, ?_, ?_, ?_⟩ <;> bytes_simp [Nat.mod_mod]

set_option maxHeartbeats 1000000 in
/-- **C10, PutBytes.**  On a canonical value PutBytes writes its 32-byte big-endian form. -/
theorem putBytes_val (f : FV) (h : Canon f) : beNat (putBytes f) = f.val := by
  obtain ⟨c0,c1,c2,c3,c4,c5,c6,c7,c8,c9⟩ := h
  have r0 : f.n0.toNat = f.n0.toNat % 256 + f.n0.toNat / 256 % 256 * 256 + f.n0.toNat / 65536 % 256 * 65536 + f.n0.toNat / 16777216 * 16777216 := by omega
  have r1 : f.n1.toNat = f.n1.toNat % 64 + f.n1.toNat / 64 % 256 * 64 + f.n1.toNat / 16384 % 256 * 16384 + f.n1.toNat / 4194304 * 4194304 := by omega
  have r2 : f.n2.toNat = f.n2.toNat % 16 + f.n2.toNat / 16 % 256 * 16 + f.n2.toNat / 4096 % 256 * 4096 + f.n2.toNat / 1048576 * 1048576 := by omega
  have r3 : f.n3.toNat = f.n3.toNat % 4 + f.n3.toNat / 4 % 256 * 4 + f.n3.toNat / 1024 % 256 * 1024 + f.n3.toNat / 262144 * 262144 := by omega
  have r4 : f.n4.toNat = f.n4.toNat % 256 + f.n4.toNat / 256 % 256 * 256 + f.n4.toNat / 65536 % 256 * 65536 + f.n4.toNat / 16777216 * 16777216 := by omega
  have r5 : f.n5.toNat = f.n5.toNat % 64 + f.n5.toNat / 64 % 256 * 64 + f.n5.toNat / 16384 % 256 * 16384 + f.n5.toNat / 4194304 * 4194304 := by omega
  have r6 : f.n6.toNat = f.n6.toNat % 16 + f.n6.toNat / 16 % 256 * 16 + f.n6.toNat / 4096 % 256 * 4096 + f.n6.toNat / 1048576 * 1048576 := by omega
  have r7 : f.n7.toNat = f.n7.toNat % 4 + f.n7.toNat / 4 % 256 * 4 + f.n7.toNat / 1024 % 256 * 1024 + f.n7.toNat / 262144 * 262144 := by omega
  have r8 : f.n8.toNat = f.n8.toNat % 256 + f.n8.toNat / 256 % 256 * 256 + f.n8.toNat / 65536 % 256 * 65536 + f.n8.toNat / 16777216 * 16777216 := by omega
  have r9 : f.n9.toNat = f.n9.toNat % 64 + f.n9.toNat / 64 % 256 * 64 + f.n9.toNat / 16384 % 256 * 16384 + f.n9.toNat / 4194304 * 4194304 := by omega
  obtain ⟨e0,e1,e2,e3,e4,e5,e6,e7,e8,e9,e10,e11,e12,e13,e14,e15,e16,e17,e18,e19,e20,e21,e22,e23,e24,e25,e26,e27,e28,e29,e30,e31⟩ := putBytes_bytes f
  simp only [beNat, FV.val, Nat.reducePow, e0, e1, e2, e3, e4, e5, e6, e7, e8, e9, e10, e11, e12, e13, e14, e15, e16, e17, e18, e19, e20, e21, e22, e23, e24, e25, e26, e27, e28, e29, e30, e31]
  clear e0 e1 e2 e3 e4 e5 e6 e7 e8 e9 e10 e11 e12 e13 e14 e15 e16 e17 e18 e19 e20 e21 e22 e23 e24 e25 e26 e27 e28 e29 e30 e31
  omega

set_option maxHeartbeats 1000000 in
/-- **C10, round trip.**  PutBytes ∘ SetBytes is the identity on all 32-byte strings. -/
theorem putBytes_setBytes (b : B32) : putBytes (setBytes b) = b := by
  obtain ⟨w0,w1,w2,w3,w4,w5,w6,w7,w8,w9⟩ := setBytes_words b
  obtain ⟨e0,e1,e2,e3,e4,e5,e6,e7,e8,e9,e10,e11,e12,e13,e14,e15,e16,e17,e18,e19,e20,e21,e22,e23,e24,e25,e26,e27,e28,e29,e30,e31⟩ := putBytes_bytes (setBytes b)
  simp only [w0,w1,w2,w3,w4,w5,w6,w7,w8,w9] at e0 e1 e2 e3 e4 e5 e6 e7 e8 e9 e10 e11 e12 e13 e14 e15 e16 e17 e18 e19 e20 e21 e22 e23 e24 e25 e26 e27 e28 e29 e30 e31
  have h0 := b.b0.toNat_lt
  have h1 := b.b1.toNat_lt
  have h2 := b.b2.toNat_lt
  have h3 := b.b3.toNat_lt
  have h4 := b.b4.toNat_lt
  have h5 := b.b5.toNat_lt
  have h6 := b.b6.toNat_lt
  have h7 := b.b7.toNat_lt
  have h8 := b.b8.toNat_lt
  have h9 := b.b9.toNat_lt
  have h10 := b.b10.toNat_lt
  have h11 := b.b11.toNat_lt
  have h12 := b.b12.toNat_lt
  have h13 := b.b13.toNat_lt
  have h14 := b.b14.toNat_lt
  have h15 := b.b15.toNat_lt
  have h16 := b.b16.toNat_lt
  have h17 := b.b17.toNat_lt
  have h18 := b.b18.toNat_lt
  have h19 := b.b19.toNat_lt
  have h20 := b.b20.toNat_lt
  have h21 := b.b21.toNat_lt
  have h22 := b.b22.toNat_lt
  have h23 := b.b23.toNat_lt
  have h24 := b.b24.toNat_lt
  have h25 := b.b25.toNat_lt
  have h26 := b.b26.toNat_lt
  have h27 := b.b27.toNat_lt
  have h28 := b.b28.toNat_lt
  have h29 := b.b29.toNat_lt
  have h30 := b.b30.toNat_lt
  have h31 := b.b31.toNat_lt
  simp only [Nat.reducePow] at h0 h1 h2 h3 h4 h5 h6 h7 h8 h9 h10 h11 h12 h13 h14 h15 h16 h17 h18 h19 h20 h21 h22 h23 h24 h25 h26 h27 h28 h29 h30 h31
  have q0 : (putBytes (setBytes b)).b0 = b.b0 := UInt8.toNat_inj.mp (by rw [e0]; clear e0 e1 e2 e3 e4 e5 e6 e7 e8 e9 e10 e11 e12 e13 e14 e15 e16 e17 e18 e19 e20 e21 e22 e23 e24 e25 e26 e27 e28 e29 e30 e31 w0 w1 w2 w3 w4 w5 w6 w7 w8 w9; omega)
  have q1 : (putBytes (setBytes b)).b1 = b.b1 := UInt8.toNat_inj.mp (by rw [e1]; clear e0 e1 e2 e3 e4 e5 e6 e7 e8 e9 e10 e11 e12 e13 e14 e15 e16 e17 e18 e19 e20 e21 e22 e23 e24 e25 e26 e27 e28 e29 e30 e31 w0 w1 w2 w3 w4 w5 w6 w7 w8 w9; omega)
  have q2 : (putBytes (setBytes b)).b2 = b.b2 := UInt8.toNat_inj.mp (by rw [e2]; clear e0 e1 e2 e3 e4 e5 e6 e7 e8 e9 e10 e11 e12 e13 e14 e15 e16 e17 e18 e19 e20 e21 e22 e23 e24 e25 e26 e27 e28 e29 e30 e31 w0 w1 w2 w3 w4 w5 w6 w7 w8 w9; omega)
  have q3 : (putBytes (setBytes b)).b3 = b.b3 := UInt8.toNat_inj.mp (by rw [e3]; clear e0 e1 e2 e3 e4 e5 e6 e7 e8 e9 e10 e11 e12 e13 e14 e15 e16 e17 e18 e19 e20 e21 e22 e23 e24 e25 e26 e27 e28 e29 e30 e31 w0 w1 w2 w3 w4 w5 w6 w7 w8 w9; omega)
  have q4 : (putBytes (setBytes b)).b4 = b.b4 := UInt8.toNat_inj.mp (by rw [e4]; clear e0 e1 e2 e3 e4 e5 e6 e7 e8 e9 e10 e11 e12 e13 e14 e15 e16 e17 e18 e19 e20 e21 e22 e23 e24 e25 e26 e27 e28 e29 e30 e31 w0 w1 w2 w3 w4 w5 w6 w7 w8 w9; omega)
  have q5 : (putBytes (setBytes b)).b5 = b.b5 := UInt8.toNat_inj.mp (by rw [e5]; clear e0 e1 e2 e3 e4 e5 e6 e7 e8 e9 e10 e11 e12 e13 e14 e15 e16 e17 e18 e19 e20 e21 e22 e23 e24 e25 e26 e27 e28 e29 e30 e31 w0 w1 w2 w3 w4 w5 w6 w7 w8 w9; omega)
  have q6 : (putBytes (setBytes b)).b6 = b.b6 := UInt8.toNat_inj.mp (by rw [e6]; clear e0 e1 e2 e3 e4 e5 e6 e7 e8 e9 e10 e11 e12 e13 e14 e15 e16 e17 e18 e19 e20 e21 e22 e23 e24 e25 e26 e27 e28 e29 e30 e31 w0 w1 w2 w3 w4 w5 w6 w7 w8 w9; omega)
  have q7 : (putBytes (setBytes b)).b7 = b.b7 := UInt8.toNat_inj.mp (by rw [e7]; clear e0 e1 e2 e3 e4 e5 e6 e7 e8 e9 e10 e11 e12 e13 e14 e15 e16 e17 e18 e19 e20 e21 e22 e23 e24 e25 e26 e27 e28 e29 e30 e31 w0 w1 w2 w3 w4 w5 w6 w7 w8 w9; omega)
  have q8 : (putBytes (setBytes b)).b8 = b.b8 := UInt8.toNat_inj.mp (by rw [e8]; clear e0 e1 e2 e3 e4 e5 e6 e7 e8 e9 e10 e11 e12 e13 e14 e15 e16 e17 e18 e19 e20 e21 e22 e23 e24 e25 e26 e27 e28 e29 e30 e31 w0 w1 w2 w3 w4 w5 w6 w7 w8 w9; omega)
  have q9 : (putBytes (setBytes b)).b9 = b.b9 := UInt8.toNat_inj.mp (by rw [e9]; clear e0 e1 e2 e3 e4 e5 e6 e7 e8 e9 e10 e11 e12 e13 e14 e15 e16 e17 e18 e19 e20 e21 e22 e23 e24 e25 e26 e27 e28 e29 e30 e31 w0 w1 w2 w3 w4 w5 w6 w7 w8 w9; omega)
  have q10 : (putBytes (setBytes b)).b10 = b.b10 := UInt8.toNat_inj.mp (by rw [e10]; clear e0 e1 e2 e3 e4 e5 e6 e7 e8 e9 e10 e11 e12 e13 e14 e15 e16 e17 e18 e19 e20 e21 e22 e23 e24 e25 e26 e27 e28 e29 e30 e31 w0 w1 w2 w3 w4 w5 w6 w7 w8 w9; omega)
  have q11 : (putBytes (setBytes b)).b11 = b.b11 := UInt8.toNat_inj.mp (by rw [e11]; clear e0 e1 e2 e3 e4 e5 e6 e7 e8 e9 e10 e11 e12 e13 e14 e15 e16 e17 e18 e19 e20 e21 e22 e23 e24 e25 e26 e27 e28 e29 e30 e31 w0 w1 w2 w3 w4 w5 w6 w7 w8 w9; omega)
  have q12 : (putBytes (setBytes b)).b12 = b.b12 := UInt8.toNat_inj.mp (by rw [e12]; clear e0 e1 e2 e3 e4 e5 e6 e7 e8 e9 e10 e11 e12 e13 e14 e15 e16 e17 e18 e19 e20 e21 e22 e23 e24 e25 e26 e27 e28 e29 e30 e31 w0 w1 w2 w3 w4 w5 w6 w7 w8 w9; omega)
  have q13 : (putBytes (setBytes b)).b13 = b.b13 := UInt8.toNat_inj.mp (by rw [e13]; clear e0 e1 e2 e3 e4 e5 e6 e7 e8 e9 e10 e11 e12 e13 e14 e15 e16 e17 e18 e19 e20 e21 e22 e23 e24 e25 e26 e27 e28 e29 e30 e31 w0 w1 w2 w3 w4 w5 w6 w7 w8 w9; omega)
  have q14 : (putBytes (setBytes b)).b14 = b.b14 := UInt8.toNat_inj.mp (by rw [e14]; clear e0 e1 e2 e3 e4 e5 e6 e7 e8 e9 e10 e11 e12 e13 e14 e15 e16 e17 e18 e19 e20 e21 e22 e23 e24 e25 e26 e27 e28 e29 e30 e31 w0 w1 w2 w3 w4 w5 w6 w7 w8 w9; omega)
  have q15 : (putBytes (setBytes b)).b15 = b.b15 := UInt8.toNat_inj.mp (by rw [e15]; clear e0 e1 e2 e3 e4 e5 e6 e7 e8 e9 e10 e11 e12 e13 e14 e15 e16 e17 e18 e19 e20 e21 e22 e23 e24 e25 e26 e27 e28 e29 e30 e31 w0 w1 w2 w3 w4 w5 w6 w7 w8 w9; omega)
  have q16 : (putBytes (setBytes b)).b16 = b.b16 := UInt8.toNat_inj.mp (by rw [e16]; clear e0 e1 e2 e3 e4 e5 e6 e7 e8 e9 e10 e11 e12 e13 e14 e15 e16 e17 e18 e19 e20 e21 e22 e23 e24 e25 e26 e27 e28 e29 e30 e31 w0 w1 w2 w3 w4 w5 w6 w7 w8 w9; omega)
  have q17 : (putBytes (setBytes b)).b17 = b.b17 := UInt8.toNat_inj.mp (by rw [e17]; clear e0 e1 e2 e3 e4 e5 e6 e7 e8 e9 e10 e11 e12 e13 e14 e15 e16 e17 e18 e19 e20 e21 e22 e23 e24 e25 e26 e27 e28 e29 e30 e31 w0 w1 w2 w3 w4 w5 w6 w7 w8 w9; omega)
  have q18 : (putBytes (setBytes b)).b18 = b.b18 := UInt8.toNat_inj.mp (by rw [e18]; clear e0 e1 e2 e3 e4 e5 e6 e7 e8 e9 e10 e11 e12 e13 e14 e15 e16 e17 e18 e19 e20 e21 e22 e23 e24 e25 e26 e27 e28 e29 e30 e31 w0 w1 w2 w3 w4 w5 w6 w7 w8 w9; omega)
  have q19 : (putBytes (setBytes b)).b19 = b.b19 := UInt8.toNat_inj.mp (by rw [e19]; clear e0 e1 e2 e3 e4 e5 e6 e7 e8 e9 e10 e11 e12 e13 e14 e15 e16 e17 e18 e19 e20 e21 e22 e23 e24 e25 e26 e27 e28 e29 e30 e31 w0 w1 w2 w3 w4 w5 w6 w7 w8 w9; omega)
  have q20 : (putBytes (setBytes b)).b20 = b.b20 := UInt8.toNat_inj.mp (by rw [e20]; clear e0 e1 e2 e3 e4 e5 e6 e7 e8 e9 e10 e11 e12 e13 e14 e15 e16 e17 e18 e19 e20 e21 e22 e23 e24 e25 e26 e27 e28 e29 e30 e31 w0 w1 w2 w3 w4 w5 w6 w7 w8 w9; omega)
  have q21 : (putBytes (setBytes b)).b21 = b.b21 := UInt8.toNat_inj.mp (by rw [e21]; clear e0 e1 e2 e3 e4 e5 e6 e7 e8 e9 e10 e11 e12 e13 e14 e15 e16 e17 e18 e19 e20 e21 e22 e23 e24 e25 e26 e27 e28 e29 e30 e31 w0 w1 w2 w3 w4 w5 w6 w7 w8 w9; omega)
  have q22 : (putBytes (setBytes b)).b22 = b.b22 := UInt8.toNat_inj.mp (by rw [e22]; clear e0 e1 e2 e3 e4 e5 e6 e7 e8 e9 e10 e11 e12 e13 e14 e15 e16 e17 e18 e19 e20 e21 e22 e23 e24 e25 e26 e27 e28 e29 e30 e31 w0 w1 w2 w3 w4 w5 w6 w7 w8 w9; omega)
  have q23 : (putBytes (setBytes b)).b23 = b.b23 := UInt8.toNat_inj.mp (by rw [e23]; clear e0 e1 e2 e3 e4 e5 e6 e7 e8 e9 e10 e11 e12 e13 e14 e15 e16 e17 e18 e19 e20 e21 e22 e23 e24 e25 e26 e27 e28 e29 e30 e31 w0 w1 w2 w3 w4 w5 w6 w7 w8 w9; omega)
  have q24 : (putBytes (setBytes b)).b24 = b.b24 := UInt8.toNat_inj.mp (by rw [e24]; clear e0 e1 e2 e3 e4 e5 e6 e7 e8 e9 e10 e11 e12 e13 e14 e15 e16 e17 e18 e19 e20 e21 e22 e23 e24 e25 e26 e27 e28 e29 e30 e31 w0 w1 w2 w3 w4 w5 w6 w7 w8 w9; omega)
  have q25 : (putBytes (setBytes b)).b25 = b.b25 := UInt8.toNat_inj.mp (by rw [e25]; clear e0 e1 e2 e3 e4 e5 e6 e7 e8 e9 e10 e11 e12 e13 e14 e15 e16 e17 e18 e19 e20 e21 e22 e23 e24 e25 e26 e27 e28 e29 e30 e31 w0 w1 w2 w3 w4 w5 w6 w7 w8 w9; omega)
  have q26 : (putBytes (setBytes b)).b26 = b.b26 := UInt8.toNat_inj.mp (by rw [e26]; clear e0 e1 e2 e3 e4 e5 e6 e7 e8 e9 e10 e11 e12 e13 e14 e15 e16 e17 e18 e19 e20 e21 e22 e23 e24 e25 e26 e27 e28 e29 e30 e31 w0 w1 w2 w3 w4 w5 w6 w7 w8 w9; omega)
  have q27 : (putBytes (setBytes b)).b27 = b.b27 := UInt8.toNat_inj.mp (by rw [e27]; clear e0 e1 e2 e3 e4 e5 e6 e7 e8 e9 e10 e11 e12 e13 e14 e15 e16 e17 e18 e19 e20 e21 e22 e23 e24 e25 e26 e27 e28 e29 e30 e31 w0 w1 w2 w3 w4 w5 w6 w7 w8 w9; omega)
  have q28 : (putBytes (setBytes b)).b28 = b.b28 := UInt8.toNat_inj.mp (by rw [e28]; clear e0 e1 e2 e3 e4 e5 e6 e7 e8 e9 e10 e11 e12 e13 e14 e15 e16 e17 e18 e19 e20 e21 e22 e23 e24 e25 e26 e27 e28 e29 e30 e31 w0 w1 w2 w3 w4 w5 w6 w7 w8 w9; omega)
  have q29 : (putBytes (setBytes b)).b29 = b.b29 := UInt8.toNat_inj.mp (by rw [e29]; clear e0 e1 e2 e3 e4 e5 e6 e7 e8 e9 e10 e11 e12 e13 e14 e15 e16 e17 e18 e19 e20 e21 e22 e23 e24 e25 e26 e27 e28 e29 e30 e31 w0 w1 w2 w3 w4 w5 w6 w7 w8 w9; omega)
  have q30 : (putBytes (setBytes b)).b30 = b.b30 := UInt8.toNat_inj.mp (by rw [e30]; clear e0 e1 e2 e3 e4 e5 e6 e7 e8 e9 e10 e11 e12 e13 e14 e15 e16 e17 e18 e19 e20 e21 e22 e23 e24 e25 e26 e27 e28 e29 e30 e31 w0 w1 w2 w3 w4 w5 w6 w7 w8 w9; omega)
  have q31 : (putBytes (setBytes b)).b31 = b.b31 := UInt8.toNat_inj.mp (by rw [e31]; clear e0 e1 e2 e3 e4 e5 e6 e7 e8 e9 e10 e11 e12 e13 e14 e15 e16 e17 e18 e19 e20 e21 e22 e23 e24 e25 e26 e27 e28 e29 e30 e31 w0 w1 w2 w3 w4 w5 w6 w7 w8 w9; omega)
  rcases hb : putBytes (setBytes b) with ⟨c0,c1,c2,c3,c4,c5,c6,c7,c8,c9,c10,c11,c12,c13,c14,c15,c16,c17,c18,c19,c20,c21,c22,c23,c24,c25,c26,c27,c28,c29,c30,c31⟩
  rw [hb] at q0 q1 q2 q3 q4 q5 q6 q7 q8 q9 q10 q11 q12 q13 q14 q15 q16 q17 q18 q19 q20 q21 q22 q23 q24 q25 q26 q27 q28 q29 q30 q31
  simp only at q0 q1 q2 q3 q4 q5 q6 q7 q8 q9 q10 q11 q12 q13 q14 q15 q16 q17 q18 q19 q20 q21 q22 q23 q24 q25 q26 q27 q28 q29 q30 q31
  rcases b with ⟨b0,b1,b2,b3,b4,b5,b6,b7,b8,b9,b10,b11,b12,b13,b14,b15,b16,b17,b18,b19,b20,b21,b22,b23,b24,b25,b26,b27,b28,b29,b30,b31⟩
  simp only at q0 q1 q2 q3 q4 q5 q6 q7 q8 q9 q10 q11 q12 q13 q14 q15 q16 q17 q18 q19 q20 q21 q22 q23 q24 q25 q26 q27 q28 q29 q30 q31
  subst q0 q1 q2 q3 q4 q5 q6 q7 q8 q9 q10 q11 q12 q13 q14 q15 q16 q17 q18 q19 q20 q21 q22 q23 q24 q25 q26 q27 q28 q29 q30 q31
  rfl

/-- `Bytes()` is `PutBytes` into a fresh array. -/
theorem bytes_eq (f : FV) : bytes f = putBytes f := rfl

/-- SetBytes ∘ PutBytes is the identity on canonical values (so the two are mutually inverse
bijections between 32-byte strings and canonical representations). -/
theorem setBytes_putBytes (f : FV) (h : Canon f) : setBytes (putBytes f) = f := by
  have h1 := setBytes_val (putBytes f)
  exact canonical_unique h1.2 h (by rw [h1.1, putBytes_val f h])

/-! ### non-vacuity -/

def exBytes : B32 :=
  ⟨0xff, 0xff, 0xff, 0xfe, 0x01, 0x23, 0x45, 0x67, 0x89, 0xab, 0xcd, 0xef, 0x10, 0x32, 0x54, 0x76,
   0x98, 0xba, 0xdc, 0xfe, 0x00, 0x80, 0x7f, 0xc0, 0x3f, 0xf0, 0x0f, 0xfc, 0x03, 0xaa, 0x55, 0x01⟩

example : putBytes (setBytes exBytes) = exBytes := putBytes_setBytes exBytes
example : (setBytes exBytes).val = beNat exBytes := (setBytes_val exBytes).1
example : putBytes (setBytes exBytes) = exBytes := by decide
example : beNat (putBytes exA) = exA.val := putBytes_val exA (by decide)

#print axioms setBytes_val
#print axioms putBytes_setBytes
#print axioms putBytes_val

end GoBk.Proofs.Field
