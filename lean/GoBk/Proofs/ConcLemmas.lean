/-
  GoBk.Proofs.ConcLemmas — invariants of the interleaving semantics of `GoBk.Model.Conc`
  and their preservation by every step of every thread (induction over the interleaving).
  Core Lean only.
-/
import GoBk.Model.Conc

namespace GoBk.Model.Conc

/-! ### The step relation, as a specification of `stepThread` -/

inductive TStep (P : Prog) (s : State) (t : Tid) : Act → State → Prop where
  | onceEnd (f : Frame) (stk : List Frame) (o : OnceId) :
      s.thr t = f :: stk → f.rest = [] → f.own = some o →
      TStep P s t (.onceEnd o) { s with once := upd s.once o .done, thr := upd s.thr t stk }
  | read (f : Frame) (stk : List Frame) (l : Loc) (es : List Ev) :
      s.thr t = f :: stk → f.rest = .read l :: es →
      TStep P s t (.rd l (s.mem l) f.own)
        { s with thr := upd s.thr t ({ f with rest := es, regs := s.mem l :: f.regs } :: stk) }
  | write (f : Frame) (stk : List Frame) (l : Loc) (g : List Val → Val) (es : List Ev) :
      s.thr t = f :: stk → f.rest = .write l g :: es →
      TStep P s t (.wr l (g f.regs))
        { s with mem := upd s.mem l (g f.regs), thr := upd s.thr t ({ f with rest := es } :: stk) }
  | pass (f : Frame) (stk : List Frame) (o : OnceId) (es : List Ev) :
      s.thr t = f :: stk → f.rest = .doOnce o :: es → s.once o = .done →
      TStep P s t (.oncePass o) { s with thr := upd s.thr t ({ f with rest := es } :: stk) }
  | begin (f : Frame) (stk : List Frame) (o : OnceId) (es : List Ev) :
      s.thr t = f :: stk → f.rest = .doOnce o :: es → s.once o = .notStarted →
      TStep P s t (.onceBegin o)
        { s with once := upd s.once o (.running t),
                 thr := upd s.thr t ({ own := some o, rest := P.body o, regs := [] } ::
                          { f with rest := es } :: stk) }

theorem stepThread_spec {P : Prog} {s : State} {t : Tid} {a : Act} {s' : State}
    (h : stepThread P s t = some (a, s')) : TStep P s t a s' := by
  unfold stepThread at h
  cases hthr : s.thr t with
  | nil => simp [hthr] at h
  | cons f stk =>
    simp only [hthr] at h
    cases hrest : f.rest with
    | nil =>
      simp only [hrest] at h
      cases hown : f.own with
      | none => simp [hown] at h
      | some o =>
        simp only [hown, Option.some.injEq, Prod.mk.injEq] at h
        obtain ⟨rfl, rfl⟩ := h
        exact TStep.onceEnd f stk o hthr hrest hown
    | cons e es =>
      simp only [hrest] at h
      cases e with
      | read l =>
        simp only [Option.some.injEq, Prod.mk.injEq] at h
        obtain ⟨rfl, rfl⟩ := h
        exact TStep.read f stk l es hthr hrest
      | write l g =>
        simp only [Option.some.injEq, Prod.mk.injEq] at h
        obtain ⟨rfl, rfl⟩ := h
        exact TStep.write f stk l g es hthr hrest
      | doOnce o =>
        simp only at h
        cases hon : s.once o with
        | done =>
          simp only [hon, Option.some.injEq, Prod.mk.injEq] at h
          obtain ⟨rfl, rfl⟩ := h
          exact TStep.pass f stk o es hthr hrest hon
        | running t' => simp [hon] at h
        | notStarted =>
          simp only [hon, Option.some.injEq, Prod.mk.injEq] at h
          obtain ⟨rfl, rfl⟩ := h
          exact TStep.begin f stk o es hthr hrest hon

/-! ### Monotonicity of the discipline predicate -/

theorem okEvs_mono {P : Prog} {own : Option OnceId} :
    ∀ {es : List Ev} {Q Q' : OnceId → Prop}, (∀ o, Q o → Q' o) → okEvs P own Q es → okEvs P own Q' es
  | [], _, _, _, _ => trivial
  | .read l :: es, Q, Q', hq, h => by
      obtain ⟨h1, h2⟩ := h
      refine ⟨fun o ho => ?_, okEvs_mono hq h2⟩
      rcases h1 o ho with h' | h'
      · exact Or.inl h'
      · exact Or.inr (hq o h')
  | .write l g :: es, Q, Q', hq, h => by
      obtain ⟨h1, h2⟩ := h
      exact ⟨h1, okEvs_mono hq h2⟩
  | .doOnce o :: es, Q, Q', hq, h => by
      have h' : okEvs P own (fun o' => o' = o ∨ Q o') es := h
      have : okEvs P own (fun o' => o' = o ∨ Q' o') es :=
        okEvs_mono (fun o' ho' => ho'.elim Or.inl (fun x => Or.inr (hq o' x))) h'
      exact this

theorem okEvsB_sound {P : Prog} {own : Option OnceId} :
    ∀ (es : List Ev) (ps : List OnceId), okEvsB P own ps es = true → okEvs P own (fun o => o ∈ ps) es
  | [], _, _ => trivial
  | .read l :: es, ps, h => by
      simp only [okEvsB, Bool.and_eq_true] at h
      obtain ⟨h1, h2⟩ := h
      refine ⟨fun o ho => ?_, okEvsB_sound es ps h2⟩
      rw [ho] at h1
      simp only [Bool.or_eq_true, beq_iff_eq, List.contains_eq_mem, decide_eq_true_eq] at h1
      exact h1
  | .write l g :: es, ps, h => by
      simp only [okEvsB, Bool.and_eq_true] at h
      obtain ⟨h1, h2⟩ := h
      refine ⟨?_, okEvsB_sound es ps h2⟩
      cases hg : P.guard l with
      | none => simp [hg] at h1
      | some o =>
        cases own with
        | none => simp [hg] at h1
        | some o' =>
          simp only [hg, beq_iff_eq] at h1
          exact ⟨o', rfl, by rw [h1]⟩
  | .doOnce o :: es, ps, h => by
      have h' : okEvsB P own (o :: ps) es = true := h
      have := okEvsB_sound es (o :: ps) h'
      show okEvs P own (fun o' => o' = o ∨ o' ∈ ps) es
      exact okEvs_mono (fun o' ho' => List.mem_cons.1 ho') this

/-- a well-formed event list satisfies the discipline whatever has been passed already -/
theorem okEvs_of_wf {P : Prog} {own : Option OnceId} {es : List Ev}
    (h : okEvs P own (fun _ => False) es) (Q : OnceId → Prop) : okEvs P own Q es :=
  okEvs_mono (fun _ ho => ho.elim) h

theorem okEvs_of_bool {P : Prog} {own : Option OnceId} {es : List Ev} (h : okEvsB P own [] es = true) :
    okEvs P own (fun _ => False) es :=
  okEvs_mono (fun _ ho => by cases ho) (okEvsB_sound es [] h)

/-- the decidable check implies well-formedness -/
theorem WellFormed.ofBool {P : Prog} (ht : ∀ es ∈ P.threads, okEvsB P none [] es = true)
    (hb : ∀ o, okEvsB P (some o) [] (P.body o) = true) : WellFormed P :=
  ⟨fun es hes => okEvs_of_bool (ht es hes), fun o => okEvs_of_bool (hb o)⟩

/-- self-contained pieces of code (each does its own `Do` before it reads) can be concatenated -/
theorem okEvs_append {P : Prog} {own : Option OnceId} :
    ∀ {es1 es2 : List Ev} {Q : OnceId → Prop}, okEvs P own Q es1 → (∀ Q', okEvs P own Q' es2) →
      okEvs P own Q (es1 ++ es2)
  | [], _, _, _, h2 => h2 _
  | .read l :: es1, es2, Q, h1, h2 => ⟨h1.1, okEvs_append h1.2 h2⟩
  | .write l g :: es1, es2, Q, h1, h2 => ⟨h1.1, okEvs_append h1.2 h2⟩
  | .doOnce o :: es1, es2, Q, h1, h2 => by
      have h1' : okEvs P own (fun o' => o' = o ∨ Q o') es1 := h1
      exact (okEvs_append h1' h2 : okEvs P own (fun o' => o' = o ∨ Q o') (es1 ++ es2))

/-! ### Happens-before is monotone in the trace -/

theorem HB.mono {tr tr' : List Step} (hsub : ∀ x, x ∈ tr → x ∈ tr') {a b : Step} (h : HB tr a b) :
    HB tr' a b := by
  induction h with
  | po ha hb hlt htid => exact .po (hsub _ ha) (hsub _ hb) hlt htid
  | sync ha hb hlt he hp => exact .sync (hsub _ ha) (hsub _ hb) hlt he hp
  | trans _ _ ih1 ih2 => exact .trans ih1 ih2

theorem HB.seq_lt {tr : List Step} {a b : Step} (h : HB tr a b) : a.seq < b.seq := by
  induction h with
  | po _ _ hlt _ => exact hlt
  | sync _ _ hlt _ _ => exact hlt
  | trans _ _ ih1 ih2 => exact Nat.lt_trans ih1 ih2

/-! ### The trace invariant -/

/-- thread `t`'s `Do(o)` has returned -/
def passedBy (tr : List Step) (t : Tid) (o : OnceId) : Prop :=
  ∃ p ∈ tr, p.tid = t ∧ (p.act = .oncePass o ∨ p.act = .onceEnd o)

theorem passedBy.mono {tr tr' : List Step} (hsub : ∀ x, x ∈ tr → x ∈ tr') {t : Tid} {o : OnceId}
    (h : passedBy tr t o) : passedBy tr' t o := by
  obtain ⟨p, hp, h1, h2⟩ := h
  exact ⟨p, hsub p hp, h1, h2⟩

structure TraceInv (P : Prog) (once : OnceId → OnceSt) (tr : List Step) : Prop where
  seqLt : ∀ a ∈ tr, a.seq < tr.length
  uniq : ∀ a ∈ tr, ∀ b ∈ tr, a.seq = b.seq → a = b
  wr : ∀ a ∈ tr, ∀ l v, a.act = .wr l v → ∃ o, P.guard l = some o ∧
      (once o = .running a.tid ∨
        (once o = .done ∧ ∃ e ∈ tr, e.tid = a.tid ∧ e.act = .onceEnd o ∧ a.seq < e.seq))
  rdG : ∀ a ∈ tr, ∀ l v own o, a.act = .rd l v own → P.guard l = some o →
      once o = .running a.tid ∨ once o = .done
  passDone : ∀ p ∈ tr, ∀ o, (p.act = .oncePass o ∨ p.act = .onceEnd o) → once o = .done
  endTid : ∀ e ∈ tr, ∀ e' ∈ tr, ∀ o, e.act = .onceEnd o → e'.act = .onceEnd o → e.tid = e'.tid
  endBeforePass : ∀ e ∈ tr, ∀ p ∈ tr, ∀ o, e.act = .onceEnd o → p.act = .oncePass o → e.seq < p.seq
  begin0 : ∀ o, once o = .notStarted → beginCount o tr = 0
  begin1 : ∀ o, beginCount o tr ≤ 1
  ord : ∀ a ∈ tr, ∀ b ∈ tr, a.seq < b.seq → a.tid ≠ b.tid → Conflict a.act b.act → HB tr a b

/-- what a step of thread `t` with label `a` does to the once table, and what enabled it -/
structure StepOK (P : Prog) (once once' : OnceId → OnceSt) (tr : List Step) (t : Tid) (a : Act) :
    Prop where
  hdone : ∀ o, once o = .done → once' o = .done
  hrun : ∀ o t', once o = .running t' →
      once' o = .running t' ∨ (a = .onceEnd o ∧ t' = t ∧ once' o = .done)
  hnot : ∀ o, once' o = .notStarted → once o = .notStarted ∧ a ≠ .onceBegin o
  pPass : ∀ o, a = .oncePass o → once o = .done
  pEnd : ∀ o, a = .onceEnd o → once o = .running t ∧ once' o = .done
  pBegin : ∀ o, a = .onceBegin o → once o = .notStarted
  pWr : ∀ l v, a = .wr l v → ∃ o, P.guard l = some o ∧ once o = .running t
  pRd : ∀ l v own, a = .rd l v own → ∀ o, P.guard l = some o → once o = .running t ∨ passedBy tr t o

theorem beginCount_cons (o : OnceId) (s : Step) (tr : List Step) :
    beginCount o (s :: tr) = beginCount o tr + (if s.act = Act.onceBegin o then 1 else 0) := by
  unfold beginCount
  rw [List.countP_cons]
  by_cases h : s.act = Act.onceBegin o
  · simp [h]
  · simp [h]

theorem TraceInv.step {P : Prog} {once once' : OnceId → OnceSt} {tr : List Step} {t : Tid} {a : Act}
    (h : TraceInv P once tr) (ok : StepOK P once once' tr t a) :
    TraceInv P once' ({ seq := tr.length, tid := t, act := a } :: tr) := by
  have hsub : ∀ x, x ∈ tr → x ∈ ({ seq := tr.length, tid := t, act := a } : Step) :: tr :=
    fun x hx => List.mem_cons_of_mem _ hx
  have hself : ({ seq := tr.length, tid := t, act := a } : Step) ∈
      ({ seq := tr.length, tid := t, act := a } : Step) :: tr := List.mem_cons_self
  refine ⟨?_, ?_, ?_, ?_, ?_, ?_, ?_, ?_, ?_, ?_⟩
  · -- seqLt
    intro x hx
    rw [List.length_cons]
    rcases List.mem_cons.1 hx with rfl | hx
    · exact Nat.lt_succ_self _
    · exact Nat.lt_succ_of_lt (h.seqLt x hx)
  · -- uniq
    intro x hx y hy hxy
    rcases List.mem_cons.1 hx with rfl | hx
    · rcases List.mem_cons.1 hy with rfl | hy
      · rfl
      · have := h.seqLt y hy
        simp only at hxy
        omega
    · rcases List.mem_cons.1 hy with rfl | hy
      · have := h.seqLt x hx
        simp only at hxy
        omega
      · exact h.uniq x hx y hy hxy
  · -- wr
    intro x hx l v hact
    rcases List.mem_cons.1 hx with rfl | hx
    · simp only at hact
      obtain ⟨o, hg, hr⟩ := ok.pWr l v hact
      refine ⟨o, hg, ?_⟩
      rcases ok.hrun o t hr with h' | ⟨h', _, _⟩
      · exact Or.inl h'
      · rw [hact] at h'; cases h'
    · obtain ⟨o, hg, hcase⟩ := h.wr x hx l v hact
      refine ⟨o, hg, ?_⟩
      rcases hcase with hr | ⟨hd, e, he, hetid, heact, hlt⟩
      · rcases ok.hrun o x.tid hr with h' | ⟨ha, htid, hd'⟩
        · exact Or.inl h'
        · exact Or.inr ⟨hd', _, hself, htid.symm, ha, h.seqLt x hx⟩
      · exact Or.inr ⟨ok.hdone o hd, e, hsub e he, hetid, heact, hlt⟩
  · -- rdG
    intro x hx l v own o hact hg
    rcases List.mem_cons.1 hx with rfl | hx
    · simp only at hact
      rcases ok.pRd l v own hact o hg with hr | ⟨p, hp, _, hpa⟩
      · rcases ok.hrun o t hr with h' | ⟨h', _, _⟩
        · exact Or.inl h'
        · rw [hact] at h'; cases h'
      · exact Or.inr (ok.hdone o (h.passDone p hp o hpa))
    · rcases h.rdG x hx l v own o hact hg with hr | hd
      · rcases ok.hrun o x.tid hr with h' | ⟨_, _, hd'⟩
        · exact Or.inl h'
        · exact Or.inr hd'
      · exact Or.inr (ok.hdone o hd)
  · -- passDone
    intro x hx o hpa
    rcases List.mem_cons.1 hx with rfl | hx
    · simp only at hpa
      rcases hpa with h1 | h2
      · exact ok.hdone o (ok.pPass o h1)
      · exact (ok.pEnd o h2).2
    · exact ok.hdone o (h.passDone x hx o hpa)
  · -- endTid
    intro e he e' he' o hea hea'
    rcases List.mem_cons.1 he with rfl | he
    · rcases List.mem_cons.1 he' with rfl | he'
      · rfl
      · simp only at hea
        have h1 := (ok.pEnd o hea).1
        have h2 := h.passDone e' he' o (Or.inr hea')
        rw [h1] at h2; cases h2
    · rcases List.mem_cons.1 he' with rfl | he'
      · simp only at hea'
        have h1 := (ok.pEnd o hea').1
        have h2 := h.passDone e he o (Or.inr hea)
        rw [h1] at h2; cases h2
      · exact h.endTid e he e' he' o hea hea'
  · -- endBeforePass
    intro e he p hp o hea hpa
    rcases List.mem_cons.1 he with rfl | he
    · simp only at hea
      rcases List.mem_cons.1 hp with rfl | hp
      · simp only at hpa
        rw [hea] at hpa; cases hpa
      · have h1 := (ok.pEnd o hea).1
        have h2 := h.passDone p hp o (Or.inl hpa)
        rw [h1] at h2; cases h2
    · rcases List.mem_cons.1 hp with rfl | hp
      · exact h.seqLt e he
      · exact h.endBeforePass e he p hp o hea hpa
  · -- begin0
    intro o hn
    obtain ⟨hn0, hne⟩ := ok.hnot o hn
    rw [beginCount_cons, h.begin0 o hn0]
    simp [hne]
  · -- begin1
    intro o
    rw [beginCount_cons]
    by_cases hb : a = Act.onceBegin o
    · have := h.begin0 o (ok.pBegin o hb)
      simp [hb, this]
    · have := h.begin1 o
      simp [hb, this]
  · -- ord
    intro x hx y hy hlt hne hconf
    rcases List.mem_cons.1 hy with rfl | hy
    · rcases List.mem_cons.1 hx with rfl | hx'
      · exact absurd hlt (Nat.lt_irrefl _)
      · -- the new step against an earlier one
        clear hx
        have hx := hx'
        simp only at hne hconf
        obtain ⟨l, hxl, hal, hw⟩ := hconf
        cases a with
        | rd l' v own =>
          simp only [Act.loc, Option.some.injEq] at hal
          subst hal
          have hxw : ∃ v', x.act = .wr l' v' := by
            cases hxa : x.act with
            | wr l2 v2 =>
              rw [hxa] at hxl
              simp only [Act.loc, Option.some.injEq] at hxl
              subst hxl
              exact ⟨v2, rfl⟩
            | rd l2 v2 o2 => rw [hxa] at hw; simp [Act.isWrite] at hw
            | onceBegin o2 => rw [hxa] at hxl; simp [Act.loc] at hxl
            | onceEnd o2 => rw [hxa] at hxl; simp [Act.loc] at hxl
            | oncePass o2 => rw [hxa] at hxl; simp [Act.loc] at hxl
          obtain ⟨v', hxa⟩ := hxw
          obtain ⟨o, hg, hcase⟩ := h.wr x hx l' v' hxa
          rcases ok.pRd l' v own rfl o hg with hr | ⟨p, hp, hpt, hpa⟩
          · rcases hcase with hr' | ⟨hd, _⟩
            · rw [hr] at hr'
              injection hr' with hr'
              exact absurd hr'.symm hne
            · rw [hr] at hd; cases hd
          · have hdn := h.passDone p hp o hpa
            rcases hcase with hr' | ⟨_, e, he, hetid, heact, hlt'⟩
            · rw [hdn] at hr'; cases hr'
            · rcases hpa with hpass | hend
              · have hep := h.endBeforePass e he p hp o heact hpass
                exact HB.trans (HB.po (hsub x hx) (hsub e he) hlt' hetid.symm)
                  (HB.trans (HB.sync (hsub e he) (hsub p hp) hep heact hpass)
                    (HB.po (hsub p hp) hself (h.seqLt p hp) hpt))
              · have := h.endTid e he p hp o heact hend
                rw [hetid, hpt] at this
                exact absurd this hne
        | wr l' v =>
          simp only [Act.loc, Option.some.injEq] at hal
          subst hal
          obtain ⟨o, hg, hr⟩ := ok.pWr l' v rfl
          cases hxa : x.act with
          | wr l2 v2 =>
            rw [hxa] at hxl
            simp only [Act.loc, Option.some.injEq] at hxl
            subst hxl
            obtain ⟨o', hg', hcase⟩ := h.wr x hx l2 v2 hxa
            rw [hg] at hg'
            injection hg' with hg'
            subst hg'
            rcases hcase with hr' | ⟨hd, _⟩
            · rw [hr] at hr'
              injection hr' with hr'
              exact absurd hr'.symm hne
            · rw [hr] at hd; cases hd
          | rd l2 v2 o2 =>
            rw [hxa] at hxl
            simp only [Act.loc, Option.some.injEq] at hxl
            subst hxl
            rcases h.rdG x hx l2 v2 o2 o hxa hg with hr' | hd
            · rw [hr] at hr'
              injection hr' with hr'
              exact absurd hr'.symm hne
            · rw [hr] at hd; cases hd
          | onceBegin o2 => rw [hxa] at hxl; simp [Act.loc] at hxl
          | onceEnd o2 => rw [hxa] at hxl; simp [Act.loc] at hxl
          | oncePass o2 => rw [hxa] at hxl; simp [Act.loc] at hxl
        | onceBegin o2 => simp [Act.loc] at hal
        | onceEnd o2 => simp [Act.loc] at hal
        | oncePass o2 => simp [Act.loc] at hal
    · rcases List.mem_cons.1 hx with rfl | hx
      · have := h.seqLt y hy
        simp only at hlt
        omega
      · exact (h.ord x hx y hy hlt hne hconf).mono hsub

/-! ### The per-thread stack invariant -/

/-- `StackOK P once Q t pend stk`: every frame of thread `t`'s stack follows the discipline, given
that `Q` are the onces whose `Do` has returned in `t` and `pend` is the once the frame is
currently waiting for (the owner of the frame above); body frames belong to onces that `t` is
running, and no once owns two frames. -/
def StackOK (P : Prog) (once : OnceId → OnceSt) (Q : OnceId → Prop) (t : Tid) :
    Option OnceId → List Frame → Prop
  | _, [] => True
  | pend, f :: stk =>
      okEvs P f.own (fun o => some o = pend ∨ Q o) f.rest ∧
      (∀ o, f.own = some o → once o = .running t ∧ ∀ f' ∈ stk, f'.own ≠ some o) ∧
      StackOK P once Q t f.own stk

theorem StackOK.mono {P : Prog} {once once' : OnceId → OnceSt} {Q Q' : OnceId → Prop} {t : Tid} :
    ∀ {stk : List Frame} {pend pend' : Option OnceId},
      (∀ o, some o = pend ∨ Q o → some o = pend' ∨ Q' o) → (∀ o, Q o → Q' o) →
      (∀ f ∈ stk, ∀ o, f.own = some o → once o = .running t → once' o = .running t) →
      StackOK P once Q t pend stk → StackOK P once' Q' t pend' stk
  | [], _, _, _, _, _, _ => trivial
  | f :: stk, pend, pend', h1, h2, h3, h => by
      obtain ⟨ha, hb, hc⟩ := h
      refine ⟨okEvs_mono h1 ha, fun o ho => ?_, ?_⟩
      · obtain ⟨hb1, hb2⟩ := hb o ho
        exact ⟨h3 f List.mem_cons_self o ho hb1, hb2⟩
      · exact StackOK.mono (fun o ho => ho.elim Or.inl (fun x => Or.inr (h2 o x))) h2
          (fun f' hf' => h3 f' (List.mem_cons_of_mem _ hf')) hc

theorem StackOK.owners {P : Prog} {once : OnceId → OnceSt} {Q : OnceId → Prop} {t : Tid} :
    ∀ {stk : List Frame} {pend : Option OnceId}, StackOK P once Q t pend stk →
      ∀ f ∈ stk, ∀ o, f.own = some o → once o = .running t
  | [], _, _, f, hf, _, _ => by cases hf
  | f0 :: stk, _, h, f, hf, o, ho => by
      obtain ⟨_, hb, hc⟩ := h
      rcases List.mem_cons.1 hf with rfl | hf
      · exact (hb o ho).1
      · exact StackOK.owners hc f hf o ho

/-- in a stack, a frame below another one has a different owner -/
theorem StackOK.below_ne {P : Prog} {once : OnceId → OnceSt} {Q : OnceId → Prop} {t : Tid}
    {f : Frame} {stk : List Frame} {pend : Option OnceId} (h : StackOK P once Q t pend (f :: stk))
    {o : OnceId} (ho : f.own = some o) : ∀ f' ∈ stk, f'.own ≠ some o :=
  (h.2.1 o ho).2

/-! ### The first invariant: ordering facts and the discipline -/

structure Inv1 (P : Prog) (c : Cfg) : Prop where
  tinv : TraceInv P c.st.once c.tr
  stacks : ∀ t, StackOK P c.st.once (passedBy c.tr t) t none (c.st.thr t)

theorem initState_thr (P : Prog) (t : Tid) :
    (initState P).thr t = [] ∨ ∃ es ∈ P.threads, (initState P).thr t = [{ own := none, rest := es, regs := [] }] := by
  unfold initState
  simp only
  cases h : P.threads[t]? with
  | none => exact Or.inl rfl
  | some es => exact Or.inr ⟨es, List.mem_of_getElem? h, rfl⟩

theorem Inv1.init {P : Prog} (wf : WellFormed P) : Inv1 P (initCfg P) := by
  refine ⟨⟨?_, ?_, ?_, ?_, ?_, ?_, ?_, ?_, ?_, ?_⟩, ?_⟩
  · intro a ha; cases ha
  · intro a ha; cases ha
  · intro a ha; cases ha
  · intro a ha; cases ha
  · intro a ha; cases ha
  · intro a ha; cases ha
  · intro a ha; cases ha
  · intro o _; rfl
  · intro o; exact Nat.zero_le _
  · intro a ha; cases ha
  · intro t
    rcases initState_thr P t with h | ⟨es, hes, h⟩
    · show StackOK P _ _ t none ((initState P).thr t)
      rw [h]; trivial
    · show StackOK P _ _ t none ((initState P).thr t)
      rw [h]
      refine ⟨okEvs_of_wf (wf.threads es hes) _, ?_, trivial⟩
      intro o ho; cases ho

theorem upd_thr_self (f : Tid → List Frame) (t : Tid) (v : List Frame) : upd f t v t = v :=
  upd_same f t v

theorem Inv1.step {P : Prog} (wf : WellFormed P) {c : Cfg} (h : Inv1 P c) (t : Tid) :
    Inv1 P (stepCfg P c t) := by
  unfold stepCfg
  cases hs : stepThread P c.st t with
  | none => exact h
  | some r =>
    obtain ⟨a, s'⟩ := r
    have ts := stepThread_spec hs
    show Inv1 P { st := s', tr := { seq := c.tr.length, tid := t, act := a } :: c.tr }
    have hsub : ∀ x, x ∈ c.tr → x ∈ ({ seq := c.tr.length, tid := t, act := a } : Step) :: c.tr :=
      fun x hx => List.mem_cons_of_mem _ hx
    have hst := h.stacks t
    -- other threads: their stacks are untouched and stay fine
    have others : ∀ (once' : OnceId → OnceSt),
        (∀ t' o, t' ≠ t → c.st.once o = .running t' → once' o = .running t') →
        ∀ t', t' ≠ t → StackOK P once'
          (passedBy (({ seq := c.tr.length, tid := t, act := a } : Step) :: c.tr) t') t' none (c.st.thr t') := by
      intro once' hk t' hne
      exact StackOK.mono (fun o ho => ho.elim Or.inl (fun x => Or.inr (x.mono hsub)))
        (fun o ho => ho.mono hsub) (fun f _ o _ hr => hk t' o hne hr) (h.stacks t')
    cases ts with
    | onceEnd f stk o hthr hrest hown =>
      rw [hthr] at hst
      obtain ⟨_, hb, hc⟩ := hst
      obtain ⟨hrun, hbelow⟩ := hb o hown
      have ok : StepOK P c.st.once (upd c.st.once o .done) c.tr t (.onceEnd o) := by
        refine ⟨?_, ?_, ?_, ?_, ?_, ?_, ?_, ?_⟩
        · intro o' hd
          by_cases e : o' = o
          · subst e; exact upd_same _ _ _
          · rw [upd_other _ _ e]; exact hd
        · intro o' t' hr
          by_cases e : o' = o
          · subst e
            rw [hrun] at hr
            injection hr with hr
            exact Or.inr ⟨rfl, hr.symm, upd_same _ _ _⟩
          · rw [upd_other _ _ e]; exact Or.inl hr
        · intro o' hn
          by_cases e : o' = o
          · subst e; rw [upd_same] at hn; cases hn
          · rw [upd_other _ _ e] at hn
            exact ⟨hn, by intro hh; cases hh⟩
        · intro o' hh; cases hh
        · intro o' hh
          injection hh with hh
          subst hh
          exact ⟨hrun, upd_same _ _ _⟩
        · intro o' hh; cases hh
        · intro l v hh; cases hh
        · intro l v own hh; cases hh
      refine ⟨h.tinv.step ok, ?_⟩
      intro t'
      by_cases e : t' = t
      · subst e
        show StackOK P (upd c.st.once o .done) _ t' none (upd c.st.thr t' stk t')
        rw [upd_same]
        refine StackOK.mono ?_ (fun o' ho' => ho'.mono hsub) ?_ hc
        · intro o' ho'
          rcases ho' with ho' | ho'
          · rw [hown] at ho'
            injection ho' with ho'
            subst ho'
            exact Or.inr ⟨_, List.mem_cons_self, rfl, Or.inr rfl⟩
          · exact Or.inr (ho'.mono hsub)
        · intro f' hf' o' ho' hr
          have : o' ≠ o := by
            intro e'; subst e'; exact hbelow f' hf' ho'
          rw [upd_other _ _ this]; exact hr
      · show StackOK P (upd c.st.once o .done) _ t' none (upd c.st.thr t stk t')
        rw [upd_other _ _ e]
        refine others _ ?_ t' e
        intro t'' o' hne hr
        have : o' ≠ o := by
          intro e'; subst e'; rw [hrun] at hr; injection hr with hr; exact hne hr.symm
        rw [upd_other _ _ this]; exact hr
    | read f stk l es hthr hrest =>
      rw [hthr] at hst
      obtain ⟨ha, hb, hc⟩ := hst
      rw [hrest] at ha
      obtain ⟨ha1, ha2⟩ := ha
      have ok : StepOK P c.st.once c.st.once c.tr t (.rd l (c.st.mem l) f.own) := by
        refine ⟨fun _ hd => hd, fun _ _ hr => Or.inl hr, ?_, ?_, ?_, ?_, ?_, ?_⟩
        · intro o' hn; exact ⟨hn, by intro hh; cases hh⟩
        · intro o' hh; cases hh
        · intro o' hh; cases hh
        · intro o' hh; cases hh
        · intro l' v hh; cases hh
        · intro l' v own hh o' hg
          injection hh with h1 h2 h3
          subst h1
          rcases ha1 o' hg with h' | h' | h'
          · exact Or.inl (hb o' h').1
          · cases h'
          · exact Or.inr h'
      refine ⟨h.tinv.step ok, ?_⟩
      intro t'
      by_cases e : t' = t
      · subst e
        show StackOK P c.st.once _ t' none (upd c.st.thr t' _ t')
        rw [upd_same]
        refine ⟨okEvs_mono (fun o' ho' => ho'.elim Or.inl (fun x => Or.inr (x.mono hsub))) ha2, hb, ?_⟩
        exact StackOK.mono (fun o' ho' => ho'.elim Or.inl (fun x => Or.inr (x.mono hsub)))
          (fun o' ho' => ho'.mono hsub) (fun _ _ _ _ hr => hr) hc
      · show StackOK P c.st.once _ t' none (upd c.st.thr t _ t')
        rw [upd_other _ _ e]
        exact others _ (fun _ _ _ hr => hr) t' e
    | write f stk l g es hthr hrest =>
      rw [hthr] at hst
      obtain ⟨ha, hb, hc⟩ := hst
      rw [hrest] at ha
      obtain ⟨ha1, ha2⟩ := ha
      have ok : StepOK P c.st.once c.st.once c.tr t (.wr l (g f.regs)) := by
        refine ⟨fun _ hd => hd, fun _ _ hr => Or.inl hr, ?_, ?_, ?_, ?_, ?_, ?_⟩
        · intro o' hn; exact ⟨hn, by intro hh; cases hh⟩
        · intro o' hh; cases hh
        · intro o' hh; cases hh
        · intro o' hh; cases hh
        · intro l' v hh
          injection hh with h1 h2
          subst h1
          obtain ⟨o', ho', hg⟩ := ha1
          exact ⟨o', hg, (hb o' ho').1⟩
        · intro l' v own hh; cases hh
      refine ⟨h.tinv.step ok, ?_⟩
      intro t'
      by_cases e : t' = t
      · subst e
        show StackOK P c.st.once _ t' none (upd c.st.thr t' _ t')
        rw [upd_same]
        refine ⟨okEvs_mono (fun o' ho' => ho'.elim Or.inl (fun x => Or.inr (x.mono hsub))) ha2, hb, ?_⟩
        exact StackOK.mono (fun o' ho' => ho'.elim Or.inl (fun x => Or.inr (x.mono hsub)))
          (fun o' ho' => ho'.mono hsub) (fun _ _ _ _ hr => hr) hc
      · show StackOK P c.st.once _ t' none (upd c.st.thr t _ t')
        rw [upd_other _ _ e]
        exact others _ (fun _ _ _ hr => hr) t' e
    | pass f stk o es hthr hrest hon =>
      rw [hthr] at hst
      obtain ⟨ha, hb, hc⟩ := hst
      rw [hrest] at ha
      have ha' : okEvs P f.own (fun o' => o' = o ∨ (some o' = none ∨ passedBy c.tr t o')) es := ha
      have ok : StepOK P c.st.once c.st.once c.tr t (.oncePass o) := by
        refine ⟨fun _ hd => hd, fun _ _ hr => Or.inl hr, ?_, ?_, ?_, ?_, ?_, ?_⟩
        · intro o' hn; exact ⟨hn, by intro hh; cases hh⟩
        · intro o' hh
          injection hh with hh
          subst hh
          exact hon
        · intro o' hh; cases hh
        · intro o' hh; cases hh
        · intro l' v hh; cases hh
        · intro l' v own hh; cases hh
      refine ⟨h.tinv.step ok, ?_⟩
      intro t'
      by_cases e : t' = t
      · subst e
        show StackOK P c.st.once _ t' none (upd c.st.thr t' _ t')
        rw [upd_same]
        refine ⟨okEvs_mono ?_ ha', hb, ?_⟩
        · intro o' ho'
          rcases ho' with ho' | ho' | ho'
          · subst ho'
            exact Or.inr ⟨_, List.mem_cons_self, rfl, Or.inl rfl⟩
          · cases ho'
          · exact Or.inr (ho'.mono hsub)
        · exact StackOK.mono (fun o' ho' => ho'.elim Or.inl (fun x => Or.inr (x.mono hsub)))
            (fun o' ho' => ho'.mono hsub) (fun _ _ _ _ hr => hr) hc
      · show StackOK P c.st.once _ t' none (upd c.st.thr t _ t')
        rw [upd_other _ _ e]
        exact others _ (fun _ _ _ hr => hr) t' e
    | begin f stk o es hthr hrest hon =>
      have hall := StackOK.owners hst
      rw [hthr] at hst hall
      obtain ⟨ha, hb, hc⟩ := hst
      rw [hrest] at ha
      have ha' : okEvs P f.own (fun o' => o' = o ∨ (some o' = none ∨ passedBy c.tr t o')) es := ha
      have keep : ∀ o' t', c.st.once o' = .running t' → upd c.st.once o (.running t) o' = .running t' := by
        intro o' t' hr
        have : o' ≠ o := by intro e'; subst e'; rw [hon] at hr; cases hr
        rw [upd_other _ _ this]; exact hr
      have ok : StepOK P c.st.once (upd c.st.once o (.running t)) c.tr t (.onceBegin o) := by
        refine ⟨?_, ?_, ?_, ?_, ?_, ?_, ?_, ?_⟩
        · intro o' hd
          have : o' ≠ o := by intro e'; subst e'; rw [hon] at hd; cases hd
          rw [upd_other _ _ this]; exact hd
        · intro o' t' hr; exact Or.inl (keep o' t' hr)
        · intro o' hn
          by_cases e : o' = o
          · subst e; rw [upd_same] at hn; cases hn
          · rw [upd_other _ _ e] at hn
            refine ⟨hn, ?_⟩
            intro hh; injection hh with hh; exact e hh.symm
        · intro o' hh; cases hh
        · intro o' hh; cases hh
        · intro o' hh
          injection hh with hh
          subst hh
          exact hon
        · intro l' v hh; cases hh
        · intro l' v own hh; cases hh
      refine ⟨h.tinv.step ok, ?_⟩
      intro t'
      by_cases e : t' = t
      · subst e
        show StackOK P (upd c.st.once o (.running t')) _ t' none (upd c.st.thr t' _ t')
        rw [upd_same]
        refine ⟨okEvs_of_wf (wf.bodies o) _, ?_, ?_, ?_, ?_⟩
        · intro o' ho'
          injection ho' with ho'
          subst ho'
          refine ⟨upd_same _ _ _, ?_⟩
          intro f' hf' hf'o
          have hr : c.st.once o = .running t' := by
            rcases List.mem_cons.1 hf' with rfl | hf'
            · exact hall f List.mem_cons_self o hf'o
            · exact hall f' (List.mem_cons_of_mem _ hf') o hf'o
          rw [hon] at hr; cases hr
        · refine okEvs_mono ?_ ha'
          intro o' ho'
          rcases ho' with ho' | ho' | ho'
          · subst ho'; exact Or.inl rfl
          · cases ho'
          · exact Or.inr (ho'.mono hsub)
        · intro o' ho'
          obtain ⟨h1, h2⟩ := hb o' ho'
          exact ⟨keep o' t' h1, h2⟩
        · exact StackOK.mono (fun o' ho' => ho'.elim Or.inl (fun x => Or.inr (x.mono hsub)))
            (fun o' ho' => ho'.mono hsub) (fun _ _ o' _ hr => keep o' t' hr) hc
      · show StackOK P (upd c.st.once o (.running t)) _ t' none (upd c.st.thr t _ t')
        rw [upd_other _ _ e]
        exact others _ (fun t'' o' _ hr => keep o' t'' hr) t' e

theorem Inv1.exec {P : Prog} (wf : WellFormed P) :
    ∀ (sched : List Tid) {c : Cfg}, Inv1 P c → Inv1 P (exec P c sched)
  | [], _, h => h
  | t :: ts, _, h => Inv1.exec wf ts (h.step wf t)

/-! ### The second invariant: values -/

theorem seqEvs_congr {P : Prog} {fin : Loc → Val} {o : OnceId} :
    ∀ (es : List Ev) {m m' : Loc → Val} (rs : List Val),
      (∀ l, P.guard l = some o → m l = m' l) →
      ∀ l, P.guard l = some o → seqEvs P fin o m rs es l = seqEvs P fin o m' rs es l
  | [], _, _, _, h, l, hl => h l hl
  | .read l0 :: es, m, m', rs, h, l, hl => by
      show seqEvs P fin o m ((if P.guard l0 = some o then m l0 else fin l0) :: rs) es l =
        seqEvs P fin o m' ((if P.guard l0 = some o then m' l0 else fin l0) :: rs) es l
      have : (if P.guard l0 = some o then m l0 else fin l0) =
          (if P.guard l0 = some o then m' l0 else fin l0) := by
        by_cases hg : P.guard l0 = some o
        · rw [if_pos hg, if_pos hg]; exact h l0 hg
        · rw [if_neg hg, if_neg hg]
      rw [this]
      exact seqEvs_congr es _ h l hl
  | .write l0 g :: es, m, m', rs, h, l, hl => by
      show seqEvs P fin o (upd m l0 (g rs)) rs es l = seqEvs P fin o (upd m' l0 (g rs)) rs es l
      refine seqEvs_congr es rs ?_ l hl
      intro l1 hl1
      by_cases e : l1 = l0
      · subst e; rw [upd_same, upd_same]
      · rw [upd_other _ _ e, upd_other _ _ e]; exact h l1 hl1
  | .doOnce _ :: es, m, m', rs, h, l, hl => by
      show seqEvs P fin o m rs es l = seqEvs P fin o m' rs es l
      exact seqEvs_congr es rs h l hl

structure Inv2 (P : Prog) (fin : Loc → Val) (c : Cfg) : Prop where
  memU : ∀ l, P.guard l = none → c.st.mem l = P.mem0 l
  memN : ∀ o l, P.guard l = some o → c.st.once o = .notStarted → c.st.mem l = P.mem0 l
  memD : ∀ o l, P.guard l = some o → c.st.once o = .done → c.st.mem l = fin l
  frames : ∀ t, ∀ f ∈ c.st.thr t, ∀ o, f.own = some o → ∀ l, P.guard l = some o →
      seqEvs P fin o c.st.mem f.regs f.rest l = fin l
  reads : ∀ a ∈ c.tr, ∀ l v own, a.act = .rd l v own → ¬ InOwnBody own (P.guard l) → v = fin l

theorem Inv2.init {P : Prog} (fin : Loc → Val) : Inv2 P fin (initCfg P) := by
  refine ⟨fun _ _ => rfl, fun _ _ _ _ => rfl, ?_, ?_, ?_⟩
  · intro o l _ hd; cases hd
  · intro t f hf o ho
    rcases initState_thr P t with h | ⟨es, _, h⟩
    · have hf' : f ∈ (initState P).thr t := hf
      rw [h] at hf'; cases hf'
    · have hf' : f ∈ (initState P).thr t := hf
      rw [h] at hf'
      rcases List.mem_singleton.1 hf' with rfl
      cases ho
  · intro a ha; cases ha

theorem Inv2.step {P : Prog} {fin : Loc → Val} (cons : Consistent P fin) {c : Cfg}
    (h1 : Inv1 P c) (h2 : Inv2 P fin c) (t : Tid) : Inv2 P fin (stepCfg P c t) := by
  unfold stepCfg
  cases hs : stepThread P c.st t with
  | none => exact h2
  | some r =>
    obtain ⟨a, s'⟩ := r
    have ts := stepThread_spec hs
    show Inv2 P fin { st := s', tr := { seq := c.tr.length, tid := t, act := a } :: c.tr }
    have hst := h1.stacks t
    -- reads recorded earlier keep their justification
    have oldReads : ∀ x ∈ c.tr, ∀ l v own, x.act = .rd l v own → ¬ InOwnBody own (P.guard l) → v = fin l :=
      h2.reads
    cases ts with
    | onceEnd f stk o hthr hrest hown =>
      have hf : f ∈ c.st.thr t := by rw [hthr]; exact List.mem_cons_self
      refine ⟨h2.memU, ?_, ?_, ?_, ?_⟩
      · intro o' l hg hn
        have hn' : upd c.st.once o .done o' = .notStarted := hn
        have e : o' ≠ o := by intro e; subst e; rw [upd_same] at hn'; cases hn'
        rw [upd_other _ _ e] at hn'
        exact h2.memN o' l hg hn'
      · intro o' l hg hd
        have hd' : upd c.st.once o .done o' = .done := hd
        by_cases e : o' = o
        · subst e
          have := h2.frames t f hf o' hown l hg
          rw [hrest] at this
          exact this
        · rw [upd_other _ _ e] at hd'
          exact h2.memD o' l hg hd'
      · intro t' f' hf' o' ho' l hg
        have hf'' : f' ∈ upd c.st.thr t stk t' := hf'
        by_cases e : t' = t
        · subst e
          rw [upd_same] at hf''
          exact h2.frames t' f' (by rw [hthr]; exact List.mem_cons_of_mem _ hf'') o' ho' l hg
        · rw [upd_other _ _ e] at hf''
          exact h2.frames t' f' hf'' o' ho' l hg
      · intro x hx l v own hact
        rcases List.mem_cons.1 hx with rfl | hx
        · cases hact
        · exact oldReads x hx l v own hact
    | read f stk l es hthr hrest =>
      have hf : f ∈ c.st.thr t := by rw [hthr]; exact List.mem_cons_self
      rw [hthr] at hst
      obtain ⟨ha, hb, hc⟩ := hst
      rw [hrest] at ha
      obtain ⟨ha1, _⟩ := ha
      -- a read outside the body of the guarding once sees the final value
      have key : ¬ InOwnBody f.own (P.guard l) → c.st.mem l = fin l := by
        intro hno
        cases hg : P.guard l with
        | none => rw [h2.memU l hg, cons.unguarded l hg]
        | some o' =>
          rcases ha1 o' hg with h' | h' | ⟨p, hp, _, hpa⟩
          · exact absurd ⟨o', h', hg⟩ hno
          · cases h'
          · exact h2.memD o' l hg (h1.tinv.passDone p hp o' hpa)
      refine ⟨h2.memU, h2.memN, h2.memD, ?_, ?_⟩
      · intro t' f' hf' o' ho' l' hg'
        have hf'' : f' ∈ upd c.st.thr t ({ f with rest := es, regs := c.st.mem l :: f.regs } :: stk) t' := hf'
        by_cases e : t' = t
        · subst e
          rw [upd_same] at hf''
          rcases List.mem_cons.1 hf'' with rfl | hf''
          · have old := h2.frames t' f hf o' ho' l' hg'
            rw [hrest] at old
            have old' : seqEvs P fin o' c.st.mem
                ((if P.guard l = some o' then c.st.mem l else fin l) :: f.regs) es l' = fin l' := old
            have : (if P.guard l = some o' then c.st.mem l else fin l) = c.st.mem l := by
              by_cases hgl : P.guard l = some o'
              · rw [if_pos hgl]
              · rw [if_neg hgl]
                refine (key ?_).symm
                rintro ⟨o2, ho2, hg2⟩
                have ho'' : f.own = some o' := ho'
                rw [ho''] at ho2
                injection ho2 with ho2
                subst ho2
                exact hgl hg2
            rw [this] at old'
            exact old'
          · exact h2.frames t' f' (by rw [hthr]; exact List.mem_cons_of_mem _ hf'') o' ho' l' hg'
        · rw [upd_other _ _ e] at hf''
          exact h2.frames t' f' hf'' o' ho' l' hg'
      · intro x hx l' v own hact hno
        rcases List.mem_cons.1 hx with rfl | hx
        · injection hact with e1 e2 e3
          subst e1; subst e2; subst e3
          exact key hno
        · exact oldReads x hx l' v own hact hno
    | write f stk l g es hthr hrest =>
      have hf : f ∈ c.st.thr t := by rw [hthr]; exact List.mem_cons_self
      have hall := StackOK.owners hst
      rw [hthr] at hst
      have hbelow := fun o ho => StackOK.below_ne hst (o := o) ho
      obtain ⟨ha, hb, hc⟩ := hst
      rw [hrest] at ha
      obtain ⟨⟨ow, how, hgw⟩, _⟩ := ha
      have hrunw : c.st.once ow = .running t := (hb ow how).1
      -- the written location is guarded by `ow`, so memory of other onces is untouched
      have other : ∀ o', o' ≠ ow → ∀ l1, P.guard l1 = some o' →
          upd c.st.mem l (g f.regs) l1 = c.st.mem l1 := by
        intro o' hne l1 hl1
        have : l1 ≠ l := by
          intro e; subst e; rw [hgw] at hl1; injection hl1 with hl1; exact hne hl1.symm
        exact upd_other _ _ this
      refine ⟨?_, ?_, ?_, ?_, ?_⟩
      · intro l1 hl1
        have : l1 ≠ l := by intro e; subst e; rw [hgw] at hl1; cases hl1
        show upd c.st.mem l (g f.regs) l1 = _
        rw [upd_other _ _ this]; exact h2.memU l1 hl1
      · intro o' l1 hl1 hn
        have hn' : c.st.once o' = .notStarted := hn
        have hne : o' ≠ ow := by intro e; subst e; rw [hrunw] at hn'; cases hn'
        show upd c.st.mem l (g f.regs) l1 = _
        rw [other o' hne l1 hl1]; exact h2.memN o' l1 hl1 hn'
      · intro o' l1 hl1 hd
        have hd' : c.st.once o' = .done := hd
        have hne : o' ≠ ow := by intro e; subst e; rw [hrunw] at hd'; cases hd'
        show upd c.st.mem l (g f.regs) l1 = _
        rw [other o' hne l1 hl1]; exact h2.memD o' l1 hl1 hd'
      · intro t' f' hf' o' ho' l' hg'
        have hf'' : f' ∈ upd c.st.thr t ({ f with rest := es } :: stk) t' := hf'
        show seqEvs P fin o' (upd c.st.mem l (g f.regs)) f'.regs f'.rest l' = fin l'
        by_cases e : t' = t
        · subst e
          rw [upd_same] at hf''
          rcases List.mem_cons.1 hf'' with rfl | hf''
          · have old := h2.frames t' f hf o' ho' l' hg'
            rw [hrest] at old
            exact old
          · have hne : o' ≠ ow := by
              intro e; subst e; exact hbelow o' how f' hf'' ho'
            rw [seqEvs_congr f'.rest f'.regs (fun l1 hl1 => other o' hne l1 hl1) l' hg']
            exact h2.frames t' f' (by rw [hthr]; exact List.mem_cons_of_mem _ hf'') o' ho' l' hg'
        · rw [upd_other _ _ e] at hf''
          have hr' : c.st.once o' = .running t' := StackOK.owners (h1.stacks t') f' hf'' o' ho'
          have hne : o' ≠ ow := by
            intro e'; subst e'; rw [hrunw] at hr'; injection hr' with hr'; exact e hr'.symm
          rw [seqEvs_congr f'.rest f'.regs (fun l1 hl1 => other o' hne l1 hl1) l' hg']
          exact h2.frames t' f' hf'' o' ho' l' hg'
      · intro x hx l1 v own hact
        rcases List.mem_cons.1 hx with rfl | hx
        · cases hact
        · exact oldReads x hx l1 v own hact
    | pass f stk o es hthr hrest hon =>
      have hf : f ∈ c.st.thr t := by rw [hthr]; exact List.mem_cons_self
      refine ⟨h2.memU, h2.memN, h2.memD, ?_, ?_⟩
      · intro t' f' hf' o' ho' l' hg'
        have hf'' : f' ∈ upd c.st.thr t ({ f with rest := es } :: stk) t' := hf'
        by_cases e : t' = t
        · subst e
          rw [upd_same] at hf''
          rcases List.mem_cons.1 hf'' with rfl | hf''
          · have old := h2.frames t' f hf o' ho' l' hg'
            rw [hrest] at old
            exact old
          · exact h2.frames t' f' (by rw [hthr]; exact List.mem_cons_of_mem _ hf'') o' ho' l' hg'
        · rw [upd_other _ _ e] at hf''
          exact h2.frames t' f' hf'' o' ho' l' hg'
      · intro x hx l1 v own hact
        rcases List.mem_cons.1 hx with rfl | hx
        · cases hact
        · exact oldReads x hx l1 v own hact
    | begin f stk o es hthr hrest hon =>
      have hf : f ∈ c.st.thr t := by rw [hthr]; exact List.mem_cons_self
      refine ⟨h2.memU, ?_, ?_, ?_, ?_⟩
      · intro o' l hg hn
        have hn' : upd c.st.once o (.running t) o' = .notStarted := hn
        have e : o' ≠ o := by intro e; subst e; rw [upd_same] at hn'; cases hn'
        rw [upd_other _ _ e] at hn'
        exact h2.memN o' l hg hn'
      · intro o' l hg hd
        have hd' : upd c.st.once o (.running t) o' = .done := hd
        have e : o' ≠ o := by intro e; subst e; rw [upd_same] at hd'; cases hd'
        rw [upd_other _ _ e] at hd'
        exact h2.memD o' l hg hd'
      · intro t' f' hf' o' ho' l' hg'
        have hf'' : f' ∈ upd c.st.thr t ({ own := some o, rest := P.body o, regs := [] } ::
            { f with rest := es } :: stk) t' := hf'
        by_cases e : t' = t
        · subst e
          rw [upd_same] at hf''
          rcases List.mem_cons.1 hf'' with rfl | hf''
          · injection ho' with ho'
            subst ho'
            show seqEvs P fin o c.st.mem [] (P.body o) l' = fin l'
            rw [seqEvs_congr (P.body o) [] (fun l1 hl1 => h2.memN o l1 hl1 hon) l' hg']
            exact cons.guarded o l' hg'
          · rcases List.mem_cons.1 hf'' with rfl | hf''
            · have old := h2.frames t' f hf o' ho' l' hg'
              rw [hrest] at old
              exact old
            · exact h2.frames t' f' (by rw [hthr]; exact List.mem_cons_of_mem _ hf'') o' ho' l' hg'
        · rw [upd_other _ _ e] at hf''
          exact h2.frames t' f' hf'' o' ho' l' hg'
      · intro x hx l1 v own hact
        rcases List.mem_cons.1 hx with rfl | hx
        · cases hact
        · exact oldReads x hx l1 v own hact

theorem Inv2.exec {P : Prog} {fin : Loc → Val} (wf : WellFormed P) (cons : Consistent P fin) :
    ∀ (sched : List Tid) {c : Cfg}, Inv1 P c → Inv2 P fin c → Inv2 P fin (exec P c sched)
  | [], _, _, h2 => h2
  | t :: ts, _, h1, h2 => Inv2.exec wf cons ts (h1.step wf t) (h2.step cons h1 t)

/-! ### Consequences -/

theorem TraceInv.noRace {P : Prog} {once : OnceId → OnceSt} {tr : List Step} (h : TraceInv P once tr) :
    ¬ DataRace tr := by
  rintro ⟨a, b, ha, hb, hne, hconf, hab, hba⟩
  rcases Nat.lt_trichotomy a.seq b.seq with hlt | heq | hgt
  · exact hab (h.ord a ha b hb hlt hne hconf)
  · exact hne (by rw [h.uniq a ha b hb heq])
  · obtain ⟨l, h1, h2, h3⟩ := hconf
    exact hba (h.ord b hb a ha hgt (fun e => hne e.symm) ⟨l, h2, h1, h3.symm⟩)

/-- a happens-before edge between different threads needs a completed once -/
theorem HB.cross {tr : List Step} {a b : Step} (h : HB tr a b) :
    a.tid = b.tid ∨ ∃ e ∈ tr, ∃ o, e.act = .onceEnd o := by
  induction h with
  | po _ _ _ htid => exact Or.inl htid
  | sync ha _ _ he _ => exact Or.inr ⟨_, ha, _, he⟩
  | trans _ _ ih1 ih2 =>
    rcases ih1 with h1 | h1
    · rcases ih2 with h2 | h2
      · exact Or.inl (h1.trans h2)
      · exact Or.inr h2
    · exact Or.inr h1

/-- `HB` and `DataRace` only depend on the set of steps, not on the order of the list -/
theorem HB.perm {tr tr' : List Step} (hiff : ∀ x, x ∈ tr ↔ x ∈ tr') {a b : Step} :
    HB tr a b ↔ HB tr' a b :=
  ⟨fun h => h.mono (fun x hx => (hiff x).1 hx), fun h => h.mono (fun x hx => (hiff x).2 hx)⟩

theorem DataRace.perm {tr tr' : List Step} (hiff : ∀ x, x ∈ tr ↔ x ∈ tr') :
    DataRace tr ↔ DataRace tr' := by
  constructor
  · rintro ⟨a, b, ha, hb, h1, h2, h3, h4⟩
    exact ⟨a, b, (hiff a).1 ha, (hiff b).1 hb, h1, h2, fun h => h3 ((HB.perm hiff).2 h),
      fun h => h4 ((HB.perm hiff).2 h)⟩
  · rintro ⟨a, b, ha, hb, h1, h2, h3, h4⟩
    exact ⟨a, b, (hiff a).2 ha, (hiff b).2 hb, h1, h2, fun h => h3 ((HB.perm hiff).1 h),
      fun h => h4 ((HB.perm hiff).1 h)⟩

/-- sequence numbers are positions: the newest-first trace is numbered n-1, …, 1, 0 -/
def SeqPos (tr : List Step) : Prop := tr.map (·.seq) = (List.range tr.length).reverse

theorem SeqPos.step {P : Prog} {c : Cfg} (h : SeqPos c.tr) (t : Tid) : SeqPos (stepCfg P c t).tr := by
  unfold stepCfg
  cases hs : stepThread P c.st t with
  | none => exact h
  | some r =>
    obtain ⟨a, s'⟩ := r
    show SeqPos ({ seq := c.tr.length, tid := t, act := a } :: c.tr)
    unfold SeqPos at *
    rw [List.map_cons, List.length_cons, List.range_succ, List.reverse_append, h]
    rfl

theorem SeqPos.exec {P : Prog} : ∀ (sched : List Tid) {c : Cfg}, SeqPos c.tr → SeqPos (exec P c sched).tr
  | [], _, h => h
  | t :: ts, _, h => SeqPos.exec ts (h.step t)

/-- in execution order the `i`-th step carries sequence number `i` -/
theorem trace_seq (P : Prog) (sched : List Tid) :
    (trace P sched).map (·.seq) = List.range (trace P sched).length := by
  have h : SeqPos (run P sched).tr := SeqPos.exec sched (c := initCfg P) rfl
  unfold trace
  rw [List.map_reverse, h, List.reverse_reverse, List.length_reverse]

end GoBk.Model.Conc
