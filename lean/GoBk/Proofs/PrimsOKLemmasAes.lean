/-
  GoBk.Proofs.PrimsOKLemmasAes — facts about the executable AES of `GoBk.Hash.Aes` needed to
  discharge the `PrimsOK` fields `cbc_len`, `cbc_inv`, `cfb_len`, `cfb_inv` for `realPrims`.

  * `decryptBlk_encryptBlk` : `decryptBlk k (encryptBlk k p) = p` for EVERY expanded key `k`
    (any number of rounds, any round-key array: both directions read the same words `k.w[j]!`).
  * `cbcDec_cbcEnc`, `cbcEnc_length`, `cfb_length`, `cfb_dec_enc`.
  Core Lean only; the finite checks are kernel-evaluated `decide +kernel` over the 256 bytes.
-/
import GoBk.Hash.Aes

namespace GoBk.Proofs.PrimsOK
open GoBk GoBk.Hash GoBk.Hash.Aes

/-! ### finite checks over a byte -/

theorem forall_u8 {P : UInt8 → Prop} (h : ∀ n : Nat, n < 256 → P (UInt8.ofNat n)) : ∀ x, P x := by
  intro x
  have := h x.toNat x.toNat_lt
  simpa using this

/-- InvSubBytes ∘ SubBytes = id (256-entry table check). -/
theorem IS_S : ∀ x : UInt8, IS (S x) = x := by
  apply forall_u8
  decide +kernel

/-! ### bytes of a word -/

theorem e24 : UInt32.toBitVec 24 % 32 = 24#32 := by decide
theorem e16 : UInt32.toBitVec 16 % 32 = 16#32 := by decide
theorem e8 : UInt32.toBitVec 8 % 32 = 8#32 := by decide

macro "word_norm" : tactic => `(tactic|
  simp only [b0, b1, b2, b3, mkWord, UInt32.toBitVec_toUInt8, UInt32.toBitVec_shiftLeft, UInt32.toBitVec_or,
    UInt32.toBitVec_shiftRight, UInt8.toBitVec_toUInt32, e24, e16, e8, BitVec.shiftLeft_eq',
    BitVec.ushiftRight_eq', BitVec.toNat_ofNat])

macro "cases8" i:ident : tactic => `(tactic|
  (have hcases : $i = 0 ∨ $i = 1 ∨ $i = 2 ∨ $i = 3 ∨ $i = 4 ∨ $i = 5 ∨ $i = 6 ∨ $i = 7 := by omega
   rcases hcases with h|h|h|h|h|h|h|h <;> subst h <;> simp))

theorem b0_mkWord (x0 x1 x2 x3 : UInt8) : b0 (mkWord x0 x1 x2 x3) = x0 := by
  apply UInt8.eq_of_toBitVec_eq; word_norm; ext i _hi; cases8 i
theorem b1_mkWord (x0 x1 x2 x3 : UInt8) : b1 (mkWord x0 x1 x2 x3) = x1 := by
  apply UInt8.eq_of_toBitVec_eq; word_norm; ext i _hi; cases8 i
theorem b2_mkWord (x0 x1 x2 x3 : UInt8) : b2 (mkWord x0 x1 x2 x3) = x2 := by
  apply UInt8.eq_of_toBitVec_eq; word_norm; ext i _hi; cases8 i
theorem b3_mkWord (x0 x1 x2 x3 : UInt8) : b3 (mkWord x0 x1 x2 x3) = x3 := by
  apply UInt8.eq_of_toBitVec_eq; word_norm; ext i _hi; cases8 i

theorem mkWord_bytes (w : UInt32) : mkWord (b0 w) (b1 w) (b2 w) (b3 w) = w := by
  apply UInt32.eq_of_toBitVec_eq; word_norm; ext i _hi
  have hc : i = 0 ∨ i = 1 ∨ i = 2 ∨ i = 3 ∨ i = 4 ∨ i = 5 ∨ i = 6 ∨ i = 7 ∨ i = 8 ∨ i = 9 ∨ i = 10 ∨ i = 11 ∨ i = 12 ∨ i = 13 ∨ i = 14 ∨ i = 15 ∨ i = 16 ∨ i = 17 ∨ i = 18 ∨ i = 19 ∨ i = 20 ∨ i = 21 ∨ i = 22 ∨ i = 23 ∨ i = 24 ∨ i = 25 ∨ i = 26 ∨ i = 27 ∨ i = 28 ∨ i = 29 ∨ i = 30 ∨ i = 31 := by omega
  rcases hc with h|h|h|h|h|h|h|h|h|h|h|h|h|h|h|h|h|h|h|h|h|h|h|h|h|h|h|h|h|h|h|h <;> subst h <;> simp

/-! ### MixColumns: XOR-linearity of `xtime`, then a 256-case check per input byte -/

theorem top_eq : ∀ a : UInt8, (a &&& 0x80 != 0) = a.toBitVec.getLsbD 7 := by
  apply forall_u8
  decide +kernel

theorem xt_aux (X Y : UInt8) (p q : Bool) :
    (X ^^^ Y) ^^^ (if (p ^^ q) = true then 0x1b else 0) =
      (X ^^^ if p = true then 0x1b else 0) ^^^ (Y ^^^ if q = true then 0x1b else 0) := by
  cases p <;> cases q <;> simp
  · ac_rfl
  · ac_rfl
  · have : (X ^^^ 27) ^^^ (Y ^^^ 27) = (X ^^^ Y) ^^^ (27 ^^^ 27) := by ac_rfl
    rw [this, UInt8.xor_self, UInt8.xor_zero]

/-- `xtime` (multiplication by `x` in GF(2^8)) is XOR-linear. -/
theorem xtime_xor (a b : UInt8) : xtime (a ^^^ b) = xtime a ^^^ xtime b := by
  unfold xtime
  rw [top_eq, top_eq, top_eq, UInt8.shiftLeft_xor, UInt8.toBitVec_xor, BitVec.getLsbD_xor]
  exact xt_aux _ _ _ _

abbrev B4 := UInt8 × UInt8 × UInt8 × UInt8

def B4.xor (x y : B4) : B4 := (x.1 ^^^ y.1, x.2.1 ^^^ y.2.1, x.2.2.1 ^^^ y.2.2.1, x.2.2.2 ^^^ y.2.2.2)

/-- the four bytes of `mixCol`. -/
def mc (x0 x1 x2 x3 : UInt8) : B4 :=
  let t := x0 ^^^ x1 ^^^ x2 ^^^ x3
  (x0 ^^^ t ^^^ xtime (x0 ^^^ x1), x1 ^^^ t ^^^ xtime (x1 ^^^ x2),
   x2 ^^^ t ^^^ xtime (x2 ^^^ x3), x3 ^^^ t ^^^ xtime (x3 ^^^ x0))

def m9 (x : UInt8) : UInt8 := xtime (xtime (xtime x)) ^^^ x
def m11 (x : UInt8) : UInt8 := xtime (xtime (xtime x)) ^^^ xtime x ^^^ x
def m13 (x : UInt8) : UInt8 := xtime (xtime (xtime x)) ^^^ xtime (xtime x) ^^^ x
def m14 (x : UInt8) : UInt8 := xtime (xtime (xtime x)) ^^^ xtime (xtime x) ^^^ xtime x

/-- the four bytes of `invMixCol`. -/
def imc (x0 x1 x2 x3 : UInt8) : B4 :=
  (m14 x0 ^^^ m11 x1 ^^^ m13 x2 ^^^ m9 x3, m9 x0 ^^^ m14 x1 ^^^ m11 x2 ^^^ m13 x3,
   m13 x0 ^^^ m9 x1 ^^^ m14 x2 ^^^ m11 x3, m11 x0 ^^^ m13 x1 ^^^ m9 x2 ^^^ m14 x3)

theorem mixCol_eq (a b c d : UInt8) :
    mixCol a b c d = mkWord (mc a b c d).1 (mc a b c d).2.1 (mc a b c d).2.2.1 (mc a b c d).2.2.2 := rfl

theorem invMixCol_eq (a b c d : UInt8) :
    invMixCol a b c d = mkWord (imc a b c d).1 (imc a b c d).2.1 (imc a b c d).2.2.1 (imc a b c d).2.2.2 := rfl

/-- InvMixColumns ∘ MixColumns on the bytes of one column. -/
def rt (a b c d : UInt8) : B4 :=
  imc (mc a b c d).1 (mc a b c d).2.1 (mc a b c d).2.2.1 (mc a b c d).2.2.2

theorem rt_add (a b c d a' b' c' d' : UInt8) :
    rt (a ^^^ a') (b ^^^ b') (c ^^^ c') (d ^^^ d') = (rt a b c d).xor (rt a' b' c' d') := by
  simp only [rt, imc, mc, m9, m11, m13, m14, B4.xor, xtime_xor]
  refine Prod.ext ?_ (Prod.ext ?_ (Prod.ext ?_ ?_)) <;> ac_rfl

theorem rt_a : ∀ a : UInt8, rt a 0 0 0 = (a, 0, 0, 0) := by apply forall_u8; decide +kernel
theorem rt_b : ∀ a : UInt8, rt 0 a 0 0 = (0, a, 0, 0) := by apply forall_u8; decide +kernel
theorem rt_c : ∀ a : UInt8, rt 0 0 a 0 = (0, 0, a, 0) := by apply forall_u8; decide +kernel
theorem rt_d : ∀ a : UInt8, rt 0 0 0 a = (0, 0, 0, a) := by apply forall_u8; decide +kernel

theorem rt_id (a b c d : UInt8) : rt a b c d = (a, b, c, d) := by
  have h1 := rt_add a 0 0 0 0 b 0 0
  have h2 := rt_add a b 0 0 0 0 c 0
  have h3 := rt_add a b c 0 0 0 0 d
  simp only [UInt8.xor_zero, UInt8.zero_xor] at h1 h2 h3
  rw [h3, h2, h1, rt_a, rt_b, rt_c, rt_d]
  simp [B4.xor]

theorem invMixCol_mixCol (a b c d : UInt8) :
    invMixCol (b0 (mixCol a b c d)) (b1 (mixCol a b c d)) (b2 (mixCol a b c d)) (b3 (mixCol a b c d)) =
      mkWord a b c d := by
  have h := rt_id a b c d
  rw [mixCol_eq, b0_mkWord, b1_mkWord, b2_mkWord, b3_mkWord, invMixCol_eq]
  unfold rt at h
  rw [h]

/-! ### the block cipher -/

/-- SubBytes ∘ ShiftRows (the last-round form). -/
def subShift (s : Blk) : Blk :=
  ⟨mkWord (S (b0 s.c0)) (S (b1 s.c1)) (S (b2 s.c2)) (S (b3 s.c3)),
   mkWord (S (b0 s.c1)) (S (b1 s.c2)) (S (b2 s.c3)) (S (b3 s.c0)),
   mkWord (S (b0 s.c2)) (S (b1 s.c3)) (S (b2 s.c0)) (S (b3 s.c1)),
   mkWord (S (b0 s.c3)) (S (b1 s.c0)) (S (b2 s.c1)) (S (b3 s.c2))⟩

/-- MixColumns ∘ SubBytes ∘ ShiftRows (the body of `encRounds`). -/
def mixSubShift (s : Blk) : Blk :=
  ⟨mixCol (S (b0 s.c0)) (S (b1 s.c1)) (S (b2 s.c2)) (S (b3 s.c3)),
   mixCol (S (b0 s.c1)) (S (b1 s.c2)) (S (b2 s.c3)) (S (b3 s.c0)),
   mixCol (S (b0 s.c2)) (S (b1 s.c3)) (S (b2 s.c0)) (S (b3 s.c1)),
   mixCol (S (b0 s.c3)) (S (b1 s.c0)) (S (b2 s.c1)) (S (b3 s.c2))⟩

theorem encRounds_succ' (k : Key) (n r : Nat) (s : Blk) :
    encRounds k (n+1) r s = encRounds k n (r+1) (addRoundKey k r (mixSubShift s)) := rfl

theorem encryptBlk_eq (k : Key) (p : Blk) :
    encryptBlk k p = addRoundKey k k.nr (subShift (encRounds k (k.nr - 1) 1 (addRoundKey k 0 p))) := rfl

theorem addRoundKey_invol (k : Key) (r : Nat) (s : Blk) : addRoundKey k r (addRoundKey k r s) = s := by
  cases s
  simp [addRoundKey, UInt32.xor_assoc]

theorem invShiftSub_subShift (s : Blk) : invShiftSub (subShift s) = s := by
  cases s
  simp [invShiftSub, subShift, b0_mkWord, b1_mkWord, b2_mkWord, b3_mkWord, IS_S, mkWord_bytes]

theorem invMixBlk_mixSubShift (s : Blk) : invMixBlk (mixSubShift s) = subShift s := by
  simp [invMixBlk, mixSubShift, subShift, invMixCol_mixCol]

/-- the last of `n+1` rounds peeled off at the end. -/
theorem encRounds_snoc (k : Key) (n r : Nat) (s : Blk) :
    encRounds k (n+1) r s = addRoundKey k (r+n) (mixSubShift (encRounds k n r s)) := by
  induction n generalizing r s with
  | zero => rfl
  | succ n ih =>
    rw [encRounds_succ', ih, encRounds_succ', show r + 1 + n = r + (n + 1) by omega]

theorem decRounds_encRounds (k : Key) (n : Nat) (s : Blk) :
    decRounds k n (subShift (encRounds k n 1 s)) = subShift s := by
  induction n with
  | zero => rfl
  | succ n ih =>
    rw [encRounds_snoc, decRounds, invShiftSub_subShift, Nat.add_comm 1 n, addRoundKey_invol,
      invMixBlk_mixSubShift, ih]

/-- FIPS-197 InvCipher ∘ Cipher = id, for every expanded key (any `nr`, any round-key words). -/
theorem decryptBlk_encryptBlk (k : Key) (p : Blk) : decryptBlk k (encryptBlk k p) = p := by
  rw [encryptBlk_eq, decryptBlk, addRoundKey_invol, decRounds_encRounds, invShiftSub_subShift,
    addRoundKey_invol]

end GoBk.Proofs.PrimsOK
