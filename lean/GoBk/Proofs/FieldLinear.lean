/-
  GoBk.Proofs.FieldLinear — C09 for the carry-less operations of bec/field.go:
  Add, Add2, AddInt, MulInt, NegateVal/Negate (generated definitions in GoBk.Gen.Field).

  For each operation, under the `MagLe` precondition documented in FieldDefs:
    (i)   no 32-bit word wraps or underflows: the machine result, word by word, is the unbounded
          `_exact` twin applied to the operands' `toNat`s;
    (ii)  the value (`FV.val`) is the exact integer result (for negation: out + in = (m+1)·P);
    (iii) the magnitude of the result.
  Mathlib is used only for `ring` (in `mulInt_sound`).
-/
import GoBk.Proofs.FieldDefs
import GoBk.Proofs.FieldTactics
import Mathlib.Tactic.Ring

set_option linter.unusedSimpArgs false
set_option linter.unusedVariables false

namespace GoBk.Proofs.Field
open GoBk.Gen.Field

/-! ### Add -/

theorem add_sound (a b : FV) (ma mb : Nat) (ha : MagLe ma a) (hb : MagLe mb b) (hm : ma + mb ≤ 63) :
    (add a b).toN = add_exact a.toN b.toN ∧
    (add a b).val = a.val + b.val ∧
    MagLe (ma + mb) (add a b) := by
  rcases a with ⟨a0,a1,a2,a3,a4,a5,a6,a7,a8,a9⟩
  rcases b with ⟨b0,b1,b2,b3,b4,b5,b6,b7,b8,b9⟩
  simp only [MagLe] at ha hb
  simp only [add, add_exact, FV.toN, FV.val, MagLe, UInt32.toNat_add, FN.mk.injEq, Nat.reducePow]
  omega

/-- `f.Add(val)` as a congruence statement -/
theorem add_val_mod (a b : FV) (ma mb : Nat) (ha : MagLe ma a) (hb : MagLe mb b) (hm : ma + mb ≤ 63) :
    (add a b).val % P = (a.val + b.val) % P := by
  rw [(add_sound a b ma mb ha hb hm).2.1]

example : (add exA exB).val = exA.val + exB.val ∧ MagLe 3 (add exA exB) :=
  (add_sound exA exB 1 2 (by decide) (by decide) (by decide)).2

/-! ### Add2 -/

theorem add2_sound (a b : FV) (ma mb : Nat) (ha : MagLe ma a) (hb : MagLe mb b) (hm : ma + mb ≤ 63) :
    (add2 a b).toN = add2_exact a.toN b.toN ∧
    (add2 a b).val = a.val + b.val ∧
    MagLe (ma + mb) (add2 a b) := by
  rcases a with ⟨a0,a1,a2,a3,a4,a5,a6,a7,a8,a9⟩
  rcases b with ⟨b0,b1,b2,b3,b4,b5,b6,b7,b8,b9⟩
  simp only [MagLe] at ha hb
  simp only [add2, add2_exact, FV.toN, FV.val, MagLe, UInt32.toNat_add, FN.mk.injEq, Nat.reducePow]
  omega

example : (add2 exA exB).val = exA.val + exB.val ∧ MagLe 3 (add2 exA exB) :=
  (add2_sound exA exB 1 2 (by decide) (by decide) (by decide)).2

/-! ### AddInt -/

/-- `f.AddInt(ui)`: `ui ≤ 2^26 + 2^20` is one unit of magnitude. -/
theorem addInt_sound (f : FV) (ui m : Nat) (hf : MagLe m f) (hm : m + 1 ≤ 63) (hui : ui ≤ 68157440) :
    (addInt f ui).toN = addInt_exact f.toN ui ∧
    (addInt f ui).val = f.val + ui ∧
    MagLe (m + 1) (addInt f ui) := by
  rcases f with ⟨a0,a1,a2,a3,a4,a5,a6,a7,a8,a9⟩
  simp only [MagLe] at hf
  simp only [addInt, addInt_exact, FV.toN, FV.val, MagLe, UInt32.toNat_add, UInt32.toNat_ofNat',
    FN.mk.injEq, Nat.reducePow, and_true]
  omega

example : (addInt exA 7).val = exA.val + 7 ∧ MagLe 2 (addInt exA 7) :=
  (addInt_sound exA 7 1 (by decide) (by decide) (by decide)).2

/-! ### MulInt -/

theorem mulInt_sound (f : FV) (k m : Nat) (hf : MagLe m f) (hk : k * m ≤ 63) :
    (mulInt f k).toN = mulInt_exact f.toN k ∧
    (mulInt f k).val = k * f.val ∧
    MagLe (k * m) (mulInt f k) := by
  rcases f with ⟨a0,a1,a2,a3,a4,a5,a6,a7,a8,a9⟩
  simp only [MagLe] at hf
  obtain ⟨h0,h1,h2,h3,h4,h5,h6,h7,h8,h9⟩ := hf
  -- every product word is bounded by (k·m)·unit
  have key : ∀ (x u : Nat), x ≤ u * m → x * k ≤ u * (k * m) := by
    intro x u hx
    calc x * k ≤ (u * m) * k := Nat.mul_le_mul_right k hx
      _ = u * (k * m) := by rw [Nat.mul_assoc, Nat.mul_comm m k]
  have q0 := key _ _ h0; have q1 := key _ _ h1; have q2 := key _ _ h2; have q3 := key _ _ h3
  have q4 := key _ _ h4; have q5 := key _ _ h5; have q6 := key _ _ h6; have q7 := key _ _ h7
  have q8 := key _ _ h8; have q9 := key _ _ h9
  -- the `uint32(val)` conversion does not truncate on non-zero words
  have hkk : ∀ (x : Nat), x * (k % 4294967296) % 4294967296 = x * k ∨ x * k > 4294967295 := by
    intro x
    by_cases hk32 : k < 4294967296
    · rw [Nat.mod_eq_of_lt hk32]
      by_cases hx : x * k < 4294967296
      · left; exact Nat.mod_eq_of_lt hx
      · right; omega
    · by_cases hx0 : x = 0
      · left; subst hx0; simp
      · right
        have : 1 * k ≤ x * k := Nat.mul_le_mul_right k (by omega)
        omega
  have e : ∀ (x u : Nat), u ≤ 68157440 → x ≤ u * m →
      x * (k % 4294967296) % 4294967296 = x * k := by
    intro x u hu hx
    have hq := key x u hx
    have hq' : u * (k * m) ≤ 68157440 * (k * m) := Nat.mul_le_mul_right _ hu
    rcases hkk x with h | h
    · exact h
    · omega
  have e0 := e _ _ (Nat.le_refl _) h0; have e1 := e _ _ (Nat.le_refl _) h1
  have e2 := e _ _ (Nat.le_refl _) h2; have e3 := e _ _ (Nat.le_refl _) h3
  have e4 := e _ _ (Nat.le_refl _) h4; have e5 := e _ _ (Nat.le_refl _) h5
  have e6 := e _ _ (Nat.le_refl _) h6; have e7 := e _ _ (Nat.le_refl _) h7
  have e8 := e _ _ (Nat.le_refl _) h8; have e9 := e _ _ (by decide) h9
  simp only [mulInt, mulInt_exact, FV.toN, FV.val, MagLe, UInt32.toNat_mul, UInt32.toNat_ofNat',
    FN.mk.injEq, Nat.reducePow, e0, e1, e2, e3, e4, e5, e6, e7, e8, e9, and_self, true_and]
  refine ⟨by ring, q0, q1, q2, q3, q4, q5, q6, q7, q8, q9⟩

example : (mulInt exA 8).val = 8 * exA.val ∧ MagLe 8 (mulInt exA 8) :=
  (mulInt_sound exA 8 1 (by decide) (by decide)).2

/-! ### NegateVal / Negate -/

/-- `f.NegateVal(val, magnitude)`: for `MagLe m val`, `m ≤ 63` nothing underflows or overflows, the
result plus the operand is exactly `(m+1)·P` (so the result is `-val` mod P), and the result has
magnitude `m+1`.  63 is optimal (see `negateVal_64_wraps`). -/
theorem negateVal_sound (v : FV) (mag : UInt32) (hm : mag.toNat ≤ 63) (hv : MagLe mag.toNat v) :
    (negateVal v mag).toN = negateVal_exact v.toN mag.toNat ∧
    (negateVal v mag).val + v.val = (mag.toNat + 1) * P ∧
    MagLe (mag.toNat + 1) (negateVal v mag) := by
  rcases v with ⟨a0,a1,a2,a3,a4,a5,a6,a7,a8,a9⟩
  simp only [MagLe] at hv
  obtain ⟨h0,h1,h2,h3,h4,h5,h6,h7,h8,h9⟩ := hv
  generalize hmm : mag.toNat = m at *
  -- one word: `(m+1)*c - a` computed in uint32 neither overflows nor underflows
  have w0 : (4294967296 - a0.toNat + (m + 1) % 4294967296 * 67107887 % 4294967296) % 4294967296
      = (m + 1) * 67107887 - a0.toNat := by omega
  have w1 : (4294967296 - a1.toNat + (m + 1) % 4294967296 * 67108799 % 4294967296) % 4294967296
      = (m + 1) * 67108799 - a1.toNat := by omega
  have w (a : Nat) (ha : a ≤ 68157440 * m) :
      (4294967296 - a + (m + 1) % 4294967296 * 67108863 % 4294967296) % 4294967296
      = (m + 1) * 67108863 - a := by omega
  have w9 : (4294967296 - a9.toNat + (m + 1) % 4294967296 * 4194303 % 4294967296) % 4294967296
      = (m + 1) * 4194303 - a9.toNat := by omega
  simp only [negateVal, negateVal_exact, FV.toN, FV.val, MagLe, UInt32.toNat_sub, UInt32.toNat_mul,
    UInt32.toNat_add, UInt32.toNat_ofNat, FN.mk.injEq, Nat.reducePow, Nat.reduceMod, P_eq, hmm,
    w0, w1, w _ h2, w _ h3, w _ h4, w _ h5, w _ h6, w _ h7, w _ h8, w9, and_self, true_and]
  refine ⟨?_, ?_⟩
  · omega
  · omega

/-- `f.Negate(magnitude)` is `f.NegateVal(f, magnitude)` (alias-safe, checked by the translator). -/
theorem negate_eq (f : FV) (mag : UInt32) : negate f mag = negateVal f mag := rfl

example : ((negateVal exB 2).val + exB.val) % P = 0 ∧ MagLe 3 (negateVal exB 2) := by
  have h := negateVal_sound exB 2 (by decide) (by decide)
  refine ⟨?_, h.2.2⟩
  rw [h.2.1]; exact Nat.mul_mod_left _ _

/-- 63 is optimal: with magnitude 64 the very first product `(64+1)·fieldPrimeWordZero` already
exceeds 32 bits, so the machine result differs from the exact one. -/
theorem negateVal_64_wraps :
    (negateVal zero 64).toN ≠ negateVal_exact zero.toN 64 := by decide

#print axioms add_sound
#print axioms add2_sound
#print axioms addInt_sound
#print axioms mulInt_sound
#print axioms negateVal_sound

end GoBk.Proofs.Field
