import GoBk.Proofs.EcdsaLemmas
import GoBk.Spec.Rfc6979
/-
  The model `GoBk.Ecdsa.sign` (signRFC6979 of /repo/bec/signature.go) computes the function
  `GoBk.Spec.rfc6979Sign` transcribed from RFC 6979.
-/
namespace GoBk.Proofs
open GoBk GoBk.Spec GoBk.Bytes
open GoBk.Spec.Rfc6979 (bits2int int2octets bits2octets genT candLoop nonce)

/-! ### conversions -/

theorem beNat_shift_take (b : Bytes) (hl : 32 < b.length) :
    beNat b >>> (8 * b.length - 256) = beNat (b.take 32) := by
  have hb : b = b.take 32 ++ b.drop 32 := (List.take_append_drop 32 b).symm
  have hlen : (b.drop 32).length = b.length - 32 := List.length_drop
  have hpow : 2 ^ (8 * b.length - 256) = 256 ^ (b.length - 32) := by
    rw [show 8 * b.length - 256 = 8 * (b.length - 32) by omega, Nat.pow_mul]
  have hval : beNat b = beNat (b.take 32) * 256 ^ (b.length - 32) + beNat (b.drop 32) := by
    conv_lhs => rw [hb]
    rw [beNat_append, hlen]
  rw [Nat.shiftRight_eq_div_pow, hval, hpow]
  have hlt : beNat (b.drop 32) < 256 ^ (b.length - 32) := by
    have := beNat_lt (b.drop 32); rwa [hlen] at this
  have hpos : 0 < 256 ^ (b.length - 32) := Nat.pow_pos (by decide)
  rw [Nat.add_comm, Nat.add_mul_div_right _ _ hpos, Nat.div_eq_of_lt hlt, Nat.zero_add]

/-- RFC `bits2int` (leftmost 256 bits by shifting) = the code's `hashToInt`, for every length -/
theorem bits2int_eq_hashToInt (b : Bytes) : bits2int b = Ecdsa.hashToInt b := by
  rw [hashToInt_eq]
  unfold bits2int Rfc6979.qlen
  by_cases hl : 32 < b.length
  · simp only
    rw [if_pos (by omega), beNat_shift_take b hl]
  · simp only
    rw [if_neg (by omega), List.take_of_length_le (by omega)]

theorem rolen_eq : Rfc6979.rolen = 32 := by decide

theorem int2octets_eq {v : ℕ} (hv : v < 2 ^ 256) : Ecdsa.int2octets v 32 = int2octets v := by
  have hlen := natBE_length_le_32 hv
  unfold Ecdsa.int2octets int2octets
  simp only [rolen_eq]
  rw [Nat.mod_eq_of_lt (by simpa using hv), natBEpad_eq]
  by_cases h32 : (natBE v).length < 32
  · rw [if_pos h32]
  · rw [if_neg h32, if_neg (by omega)]
    have : 32 - (natBE v).length = 0 := by omega
    rw [this, List.replicate_zero, List.nil_append]

theorem bits2octets_eq (h : Bytes) : Ecdsa.bits2octets h 32 = bits2octets h := by
  unfold Ecdsa.bits2octets bits2octets Rfc6979.q
  simp only [EN, bits2int_eq_hashToInt]
  have hlt := hashToInt_lt h
  have h2 := pow_lt_two_N
  by_cases hz : Ecdsa.hashToInt h < N
  · rw [if_pos hz, Nat.mod_eq_of_lt hz, int2octets_eq hlt]
  · have e : Ecdsa.hashToInt h % N = Ecdsa.hashToInt h - N := by
      rw [Nat.mod_eq_sub_mod (by omega), Nat.mod_eq_of_lt (by omega)]
    rw [if_neg hz, int2octets_eq (by omega), e]

/-! ### the candidate loop -/

theorem genT_one (hmac : Bytes → Bytes → Bytes) (hlen : ∀ k m, (hmac k m).length = 32)
    (K V : Bytes) : genT hmac K Rfc6979.qlen V [] = (hmac K V, hmac K V) := by
  show genT hmac K (255 + 1) V [] = _
  unfold genT
  rw [if_pos (by decide)]
  simp only [List.nil_append]
  show genT hmac K (254 + 1) _ _ = _
  unfold genT
  rw [if_neg (by rw [hlen]; decide)]

theorem nonceLoop_eq (pr : Prims) (hlen : ∀ k m, (pr.hmac256 k m).length = 32) :
    ∀ (fuel : ℕ) (K V : Bytes), Ecdsa.nonceLoop pr fuel K V = candLoop pr.hmac256 fuel K V := by
  intro fuel
  induction fuel with
  | zero => intro K V; rfl
  | succ f ih =>
    intro K V
    unfold Ecdsa.nonceLoop candLoop
    simp only [genT_one _ hlen, bits2int_eq_hashToInt, EN, Rfc6979.q, ih]

theorem nonce_eq (pr : Prims) (hlen : ∀ k m, (pr.hmac256 k m).length = 32) (fuel : ℕ) {d : ℕ}
    (hd : d < N) (h : Bytes) :
    Ecdsa.nonceRFC6979 pr fuel d h = nonce pr.hmac256 fuel d h := by
  unfold Ecdsa.nonceRFC6979 nonce
  simp only [int2octets_eq (Nat.lt_trans hd N_lt_pow), bits2octets_eq, nonceLoop_eq pr hlen,
    List.append_assoc, Rfc6979.hlen]

/-! ### the signature -/

theorem s_formula_eq (d r e k : ℕ) :
    (invMod k N * (e % N + d * r)) % N = ((d * r + e) * invMod k N) % N := by
  rw [← castN_eq_iff]
  push_cast
  rw [ZMod.natCast_mod]
  ring

theorem sign_eq_rfc6979_aux (pr : Prims) (hlen : ∀ k m, (pr.hmac256 k m).length = 32)
    (fuel : ℕ) {d : ℕ} (hd : d < N) (h : Bytes) :
    Ecdsa.sign pr fuel d h = Spec.rfc6979Sign pr.hmac256 fuel d h := by
  unfold Spec.rfc6979Sign Rfc6979.sign Ecdsa.sign
  rw [← nonce_eq pr hlen fuel hd h]
  cases hk : Ecdsa.nonceRFC6979 pr fuel d h with
  | none => rfl
  | some k =>
    have hkr : 1 ≤ k ∧ k < N := nonceLoop_range pr _ _ _ _ hk
    have hk256 : k < 2 ^ 256 := Nat.lt_trans hkr.2 N_lt_pow
    simp only [EN, Ecdsa.halfOrder, scalarBaseMult_natBE hk256, Rfc6979.q, bits2int_eq_hashToInt,
      s_formula_eq]
    by_cases hr0 : (smul k G).1 % N = 0
    · rw [if_pos hr0, if_pos hr0]
    rw [if_neg hr0, if_neg hr0]
    generalize hs0 : (d * ((smul k G).1 % N) + Ecdsa.hashToInt h) * invMod k N % N = s0
    have hlt : s0 < N := by rw [← hs0]; exact Nat.mod_lt _ N_pos
    by_cases hz : s0 = 0
    · rw [if_pos hz, hz, if_neg (Nat.not_lt_zero _), if_pos rfl]
    · rw [if_neg hz, if_neg (by have := lowS_range hlt hz; omega)]

end GoBk.Proofs
