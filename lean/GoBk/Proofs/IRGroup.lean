/-
  GoBk.Proofs.IRGroup — the regenerated point-addition / doubling code (`Gen/CurveIR.lean`, run by
  `GoBk.IR.runFn` over the regenerated word-level field operations) implements the elliptic-curve
  group law: the FIELD-VALUE-level statements, obtained from
    * the kernel-evaluated magnitude checks of Props/C09b.lean (every run is `RunSafe`, final
      magnitudes),
    * the algebraic evaluator (Proofs/IRAlg.lean, sound on safe runs),
    * its evaluation on `prog` matched with the Jacobian group law (Proofs/IRGroupEval.lean).

  `RepJ (x,y,z) Q` — the representation invariant of the accumulator AND of the operands:
     magnitudes ≤ (1,2,1), and
       either the triple is the point at infinity THE WAY THE CODE TESTS IT
         (`(x.IsZero() && y.IsZero()) || z.IsZero()` on the literal words) and `Q = 0`,
       or `z ≢ 0 (mod P)` and `Q` is the affine point `(x/z², y/z³)` of the curve.
   A literally non-zero `z ≡ 0 (mod P)` is excluded by the invariant (second disjunct) and never
   produced: every `z3` written on a finite result is shown to be a unit mod P.

  Contents: `addAcc_rep`, `doubleAcc_rep` (accumulator pattern, `CurveImpl` level), `addJacobian_rep`,
  `addJacobian_acc_rep`, `doubleJacobian_rep`, `doubleJacobian_acc_rep` (`runFn` level, both aliasing
  patterns), `toBigAffine_rep`, `setByteSlice_natBE`, `isOnCurve_eq`, `formulaOK : FormulaOK`,
  `inputOK : valid B → B ≠ inf → InputOK formulaOK B`, `tableOK : TableOK formulaOK`, `add_eq`,
  `double_eq`; for the degenerate base point `(0,0)`: `ZeroJ`, `addAcc_zero`, `doubleAcc_zero`,
  `toBigAffine_zero`, `formulaOK_inf`, `inputOK_inf`.

  not yet proved: — (everything requested is proved).
-/
import GoBk.Proofs.IRGroupEval
import GoBk.Props.C09b
import GoBk.Proofs.ScalarLemmas
import GoBk.Proofs.TableProof
import GoBk.Proofs.FieldBytes

set_option linter.unusedSimpArgs false

namespace GoBk.IRGroup
open GoBk GoBk.Props GoBk.IR GoBk.IRA GoBk.IRAlg GoBk.Gen.Field GoBk.Gen.CurveIR GoBk.Proofs GoBk.Spec
open GoBk.Proofs.Field (MagLe Canon)
open WeierstrassCurve.Affine

/-! ## the representation invariant -/

def RepJ (q : CurveImpl.Jac) (Q : E.Point) : Prop :=
  MagLe 1 q.1 ∧ MagLe 2 q.2.1 ∧ MagLe 1 q.2.2 ∧
  ((((isZero q.1 && isZero q.2.1) || isZero q.2.2) = true ∧ Q = 0) ∨
   (fv q.2.2 ≠ 0 ∧ RepF (fv q.1, fv q.2.1, fv q.2.2) Q))

theorem fv_eq_zero_of_isZero {x : FV} (h : isZero x = true) : fv x = 0 := by
  unfold fv
  rw [(GoBk.Proofs.Field.isZero_iff x).1 h, Nat.cast_zero]

theorem RepJ.inRep {x y z : FV} {Q : E.Point} (h : RepJ (x, y, z) Q) :
    InRep (fv x) (fv y) (fv z) (isZero x) (isZero y) (isZero z) Q :=
  ⟨fv_eq_zero_of_isZero, fv_eq_zero_of_isZero, fv_eq_zero_of_isZero, h.2.2.2⟩

theorem repJ_of_arep {x y z : FV} {lx ly lz : Option Bool} {Q : E.Point}
    (mx : MagLe 1 x) (my : MagLe 2 y) (mz : MagLe 1 z)
    (kx : ∀ b, lx = some b → isZero x = b) (ky : ∀ b, ly = some b → isZero y = b)
    (kz : ∀ b, lz = some b → isZero z = b)
    (h : ARep (fv x) (fv y) (fv z) lx ly lz Q) : RepJ (x, y, z) Q := by
  refine ⟨mx, my, mz, ?_⟩
  rcases h with ⟨hQ, h⟩ | h
  · left
    refine ⟨?_, hQ⟩
    rcases h with ⟨h1, h2⟩ | h3
    · show ((isZero x && isZero y) || isZero z) = true
      rw [kx _ h1, ky _ h2]; rfl
    · show ((isZero x && isZero y) || isZero z) = true
      rw [kz _ h3]; simp
  · exact Or.inr h

theorem fv_one : fv (setInt 1) = 1 := by
  unfold fv
  have : (setInt 1).val = 1 := by decide
  rw [this, Nat.cast_one]

theorem consts_one : fv CurveImpl.consts.1 = 1 := fv_one

/-! ## addJacobian / doubleJacobian on field values -/

/-- **`addJacobian(q, p, q)`** (result overwrites the first operand, as in both scalar
multiplication loops) adds in the group. -/
theorem addAcc_rep {q p : CurveImpl.Jac} {Q R : E.Point} (hq : RepJ q Q) (hp : RepJ p R) :
    RepJ (CurveImpl.addAcc q p) (Q + R) := by
  obtain ⟨qx, qy, qz⟩ := q
  obtain ⟨px, py, pz⟩ := p
  obtain ⟨ev, hev, hrep⟩ := addJ_acc_alg (fv CurveImpl.consts.1) (fv CurveImpl.consts.2.1)
    (fv CurveImpl.consts.2.2) (fv qx) (fv qy) (fv qz) (fv px) (fv py) (fv pz)
    (isZero qx) (isZero qy) (isZero qz) (isZero px) (isZero py) (isZero pz) (fun _ => false) Q R
    consts_one hq.inRep hp.inRep
  obtain ⟨hsafe, m3, m4, m5, -⟩ := C09.addJacobian_acc_no_overflow C09.consts_norm qx qy qz px py pz
    hq.1 hq.2.1 hq.2.2.1 hp.1 hp.2.1 hp.2.2.1 (fun _ => false)
  have hev' : algBlock (algCall prog 8)
      (initAS CurveImpl.consts [qx, qy, qz, px, py, pz, qx, qy, qz] addJacobian.nlocals)
      (initFrame [qx, qy, qz, px, py, pz, qx, qy, qz].length C09.al9acc (fun _ => false))
      addJacobian.body = some ev := hev
  obtain ⟨habs, -, -⟩ := algFn_sound hev' hsafe
  have hres : CurveImpl.addAcc (qx, qy, qz) (px, py, pz) =
      ((runOut prog CurveImpl.consts addJacobian [qx, qy, qz, px, py, pz, qx, qy, qz] C09.al9acc
          (fun _ => false)).mem.get 3,
       (runOut prog CurveImpl.consts addJacobian [qx, qy, qz, px, py, pz, qx, qy, qz] C09.al9acc
          (fun _ => false)).mem.get 4,
       (runOut prog CurveImpl.consts addJacobian [qx, qy, qz, px, py, pz, qx, qy, qz] C09.al9acc
          (fun _ => false)).mem.get 5) := by
    unfold CurveImpl.addAcc
    rw [runFn_eq_runFnFull, runFnFull_eq C09.prog_addJacobian]
    rfl
  rw [hres]
  refine repJ_of_arep m3 m4 m5 (habs.lz 3) (habs.lz 4) (habs.lz 5) ?_
  rw [habs.val 3, habs.val 4, habs.val 5]
  exact hrep

/-- **`doubleJacobian(q, q)`** in place doubles in the group. -/
theorem doubleAcc_rep {q : CurveImpl.Jac} {Q : E.Point} (hq : RepJ q Q) :
    RepJ (CurveImpl.doubleAcc q) (Q + Q) := by
  obtain ⟨qx, qy, qz⟩ := q
  obtain ⟨ev, hev, hrep⟩ := dblJ_acc_alg (fv CurveImpl.consts.1) (fv CurveImpl.consts.2.1)
    (fv CurveImpl.consts.2.2) (fv qx) (fv qy) (fv qz) (isZero qx) (isZero qy) (isZero qz)
    (fun _ => false) Q consts_one hq.inRep
  obtain ⟨hsafe, n3, n4, n5⟩ := C09.doubleJacobian_acc_no_overflow C09.consts_norm qx qy qz
    hq.1 hq.2.1 hq.2.2.1 (fun _ => false)
  have hev' : algBlock (algCall prog 8)
      (initAS CurveImpl.consts [qx, qy, qz, qx, qy, qz] doubleJacobian.nlocals)
      (initFrame [qx, qy, qz, qx, qy, qz].length C09.al6acc (fun _ => false))
      doubleJacobian.body = some ev := hev
  obtain ⟨habs, -, -⟩ := algFn_sound hev' hsafe
  have hres : CurveImpl.doubleAcc (qx, qy, qz) =
      ((runOut prog CurveImpl.consts doubleJacobian [qx, qy, qz, qx, qy, qz] C09.al6acc
          (fun _ => false)).mem.get 3,
       (runOut prog CurveImpl.consts doubleJacobian [qx, qy, qz, qx, qy, qz] C09.al6acc
          (fun _ => false)).mem.get 4,
       (runOut prog CurveImpl.consts doubleJacobian [qx, qy, qz, qx, qy, qz] C09.al6acc
          (fun _ => false)).mem.get 5) := by
    unfold CurveImpl.doubleAcc
    rw [runFn_eq_runFnFull, runFnFull_eq C09.prog_doubleJacobian]
    rfl
  rw [hres]
  refine repJ_of_arep n3.magLe (n4.magLe.mono (by decide)) n5.magLe (habs.lz 3) (habs.lz 4) (habs.lz 5) ?_
  rw [habs.val 3, habs.val 4, habs.val 5]
  exact hrep

/-- **`addJacobian`, all nine pointers distinct** (as called by `Add`): arbitrary contents of the
output cells; the result is in the last three cells. -/
theorem addJacobian_rep (x1 y1 z1 x2 y2 z2 o1 o2 o3 : FV) {Q R : E.Point}
    (h1 : RepJ (x1, y1, z1) Q) (h2 : RepJ (x2, y2, z2) R) :
    ∃ a b c d e f x3 y3 z3,
      IR.runFn prog CurveImpl.consts fn_addJacobian [x1, y1, z1, x2, y2, z2, o1, o2, o3]
        [0, 1, 2, 3, 4, 5, 6, 7, 8] = [a, b, c, d, e, f, x3, y3, z3] ∧ RepJ (x3, y3, z3) (Q + R) := by
  obtain ⟨ev, hev, hrep⟩ := addJ_dist_alg (fv CurveImpl.consts.1) (fv CurveImpl.consts.2.1)
    (fv CurveImpl.consts.2.2) (fv x1) (fv y1) (fv z1) (fv x2) (fv y2) (fv z2)
    (isZero x1) (isZero y1) (isZero z1) (isZero x2) (isZero y2) (isZero z2)
    (fv o1) (fv o2) (fv o3) (isZero o1) (isZero o2) (isZero o3) (fun _ => false) Q R
    consts_one h1.inRep h2.inRep
  obtain ⟨hsafe, m9, m10, m11, -⟩ := C09.addJacobian_no_overflow C09.consts_norm x1 y1 z1 x2 y2 z2 o1 o2 o3
    h1.1 h1.2.1 h1.2.2.1 h2.1 h2.2.1 h2.2.2.1 (fun _ => false)
  have hev' : algBlock (algCall prog 8)
      (initAS CurveImpl.consts [x1, y1, z1, x2, y2, z2, o1, o2, o3] addJacobian.nlocals)
      (initFrame [x1, y1, z1, x2, y2, z2, o1, o2, o3].length C09.al9 (fun _ => false))
      addJacobian.body = some ev := hev
  obtain ⟨habs, -, -⟩ := algFn_sound hev' hsafe
  have hrun : IR.runFn prog CurveImpl.consts fn_addJacobian [x1, y1, z1, x2, y2, z2, o1, o2, o3]
      [0, 1, 2, 3, 4, 5, 6, 7, 8] =
      [3, 4, 5, 6, 7, 8, 9, 10, 11].map (runOut prog CurveImpl.consts addJacobian
        [x1, y1, z1, x2, y2, z2, o1, o2, o3] C09.al9 (fun _ => false)).mem.get := by
    rw [runFn_eq_runFnFull, runFnFull_eq C09.prog_addJacobian]
    rfl
  refine ⟨_, _, _, _, _, _, _, _, _, hrun, ?_⟩
  refine repJ_of_arep m9 m10 m11 (habs.lz 9) (habs.lz 10) (habs.lz 11) ?_
  rw [habs.val 9, habs.val 10, habs.val 11]
  exact hrep

/-- **`addJacobian(q, p, q)`**, at the level of `runFn` -/
theorem addJacobian_acc_rep (x1 y1 z1 x2 y2 z2 : FV) {Q R : E.Point}
    (h1 : RepJ (x1, y1, z1) Q) (h2 : RepJ (x2, y2, z2) R) :
    ∃ d e f x3 y3 z3,
      IR.runFn prog CurveImpl.consts fn_addJacobian [x1, y1, z1, x2, y2, z2, x1, y1, z1]
        [0, 1, 2, 3, 4, 5, 0, 1, 2] = [x3, y3, z3, d, e, f, x3, y3, z3] ∧ RepJ (x3, y3, z3) (Q + R) := by
  have h := addAcc_rep h1 h2
  have hrun : IR.runFn prog CurveImpl.consts fn_addJacobian [x1, y1, z1, x2, y2, z2, x1, y1, z1]
      [0, 1, 2, 3, 4, 5, 0, 1, 2] =
      [3, 4, 5, 6, 7, 8, 3, 4, 5].map (runOut prog CurveImpl.consts addJacobian
        [x1, y1, z1, x2, y2, z2, x1, y1, z1] C09.al9acc (fun _ => false)).mem.get := by
    rw [runFn_eq_runFnFull, runFnFull_eq C09.prog_addJacobian]
    rfl
  have hacc : CurveImpl.addAcc (x1, y1, z1) (x2, y2, z2) =
      ((runOut prog CurveImpl.consts addJacobian [x1, y1, z1, x2, y2, z2, x1, y1, z1] C09.al9acc
          (fun _ => false)).mem.get 3,
       (runOut prog CurveImpl.consts addJacobian [x1, y1, z1, x2, y2, z2, x1, y1, z1] C09.al9acc
          (fun _ => false)).mem.get 4,
       (runOut prog CurveImpl.consts addJacobian [x1, y1, z1, x2, y2, z2, x1, y1, z1] C09.al9acc
          (fun _ => false)).mem.get 5) := by
    unfold CurveImpl.addAcc
    rw [hrun]
    rfl
  rw [hacc] at h
  exact ⟨_, _, _, _, _, _, hrun, h⟩

/-- **`doubleJacobian`, distinct outputs** (as called by `Double`) -/
theorem doubleJacobian_rep (x1 y1 z1 o1 o2 o3 : FV) {Q : E.Point} (h1 : RepJ (x1, y1, z1) Q) :
    ∃ a b c x3 y3 z3,
      IR.runFn prog CurveImpl.consts fn_doubleJacobian [x1, y1, z1, o1, o2, o3]
        [0, 1, 2, 3, 4, 5] = [a, b, c, x3, y3, z3] ∧ RepJ (x3, y3, z3) (Q + Q) := by
  obtain ⟨ev, hev, hrep⟩ := dblJ_dist_alg (fv CurveImpl.consts.1) (fv CurveImpl.consts.2.1)
    (fv CurveImpl.consts.2.2) (fv x1) (fv y1) (fv z1) (isZero x1) (isZero y1) (isZero z1)
    (fv o1) (fv o2) (fv o3) (isZero o1) (isZero o2) (isZero o3) (fun _ => false) Q consts_one h1.inRep
  obtain ⟨hsafe, n6, n7, n8⟩ := C09.doubleJacobian_no_overflow C09.consts_norm x1 y1 z1 o1 o2 o3
    h1.1 h1.2.1 h1.2.2.1 (fun _ => false)
  have hev' : algBlock (algCall prog 8)
      (initAS CurveImpl.consts [x1, y1, z1, o1, o2, o3] doubleJacobian.nlocals)
      (initFrame [x1, y1, z1, o1, o2, o3].length C09.al6 (fun _ => false))
      doubleJacobian.body = some ev := hev
  obtain ⟨habs, -, -⟩ := algFn_sound hev' hsafe
  have hrun : IR.runFn prog CurveImpl.consts fn_doubleJacobian [x1, y1, z1, o1, o2, o3]
      [0, 1, 2, 3, 4, 5] =
      [3, 4, 5, 6, 7, 8].map (runOut prog CurveImpl.consts doubleJacobian
        [x1, y1, z1, o1, o2, o3] C09.al6 (fun _ => false)).mem.get := by
    rw [runFn_eq_runFnFull, runFnFull_eq C09.prog_doubleJacobian]
    rfl
  refine ⟨_, _, _, _, _, _, hrun, ?_⟩
  refine repJ_of_arep n6.magLe (n7.magLe.mono (by decide)) n8.magLe (habs.lz 6) (habs.lz 7) (habs.lz 8) ?_
  rw [habs.val 6, habs.val 7, habs.val 8]
  exact hrep

/-- **`doubleJacobian(q, q)`** in place, at the level of `runFn` -/
theorem doubleJacobian_acc_rep (x1 y1 z1 : FV) {Q : E.Point} (h1 : RepJ (x1, y1, z1) Q) :
    ∃ x3 y3 z3,
      IR.runFn prog CurveImpl.consts fn_doubleJacobian [x1, y1, z1, x1, y1, z1]
        [0, 1, 2, 0, 1, 2] = [x3, y3, z3, x3, y3, z3] ∧ RepJ (x3, y3, z3) (Q + Q) := by
  have h := doubleAcc_rep h1
  have hrun : IR.runFn prog CurveImpl.consts fn_doubleJacobian [x1, y1, z1, x1, y1, z1]
      [0, 1, 2, 0, 1, 2] =
      [3, 4, 5, 3, 4, 5].map (runOut prog CurveImpl.consts doubleJacobian
        [x1, y1, z1, x1, y1, z1] C09.al6acc (fun _ => false)).mem.get := by
    rw [runFn_eq_runFnFull, runFnFull_eq C09.prog_doubleJacobian]
    rfl
  have hacc : CurveImpl.doubleAcc (x1, y1, z1) =
      ((runOut prog CurveImpl.consts doubleJacobian [x1, y1, z1, x1, y1, z1] C09.al6acc
          (fun _ => false)).mem.get 3,
       (runOut prog CurveImpl.consts doubleJacobian [x1, y1, z1, x1, y1, z1] C09.al6acc
          (fun _ => false)).mem.get 4,
       (runOut prog CurveImpl.consts doubleJacobian [x1, y1, z1, x1, y1, z1] C09.al6acc
          (fun _ => false)).mem.get 5) := by
    unfold CurveImpl.doubleAcc
    rw [hrun]
    rfl
  rw [hacc] at h
  exact ⟨_, _, _, hrun, h⟩

/-! ## fieldJacobianToBigAffine -/

theorem fvNat_norm {f : FV} (h : Norm f) : CurveImpl.fvNat f = f.val := by
  rw [← GoBk.Proofs.Field.putBytes_val f h.1, GoBk.Proofs.Field.beNat_eq_foldl]
  rfl

theorem val_of_fv {f : FV} {X : F} (h : Norm f) (e : fv f = X) : f.val = X.val := by
  rw [← e]
  unfold fv
  rw [ZMod.val_natCast, Nat.mod_eq_of_lt]
  rw [← P_eq_spec]; exact h.2

/-- **`fieldJacobianToBigAffine`** returns the affine point represented by the triple -/
theorem toBigAffine_rep {q : CurveImpl.Jac} {Q : E.Point} (h : RepJ q Q) :
    CurveImpl.toBigAffine q = enc Q := by
  obtain ⟨x, y, z⟩ := q
  obtain ⟨ev, hev, hX, hY⟩ := toAff_alg (fv CurveImpl.consts.1) (fv CurveImpl.consts.2.1)
    (fv CurveImpl.consts.2.2) (fv x) (fv y) (fv z) (isZero x) (isZero y) (isZero z) (fun _ => false)
  obtain ⟨hsafe, n3, n4, -⟩ := C09.fieldJacobianToBigAffine_no_overflow C09.consts_norm x y z
    h.1 h.2.1 h.2.2.1 (fun _ => false)
  have hev' : algBlock (algCall prog 8)
      (initAS CurveImpl.consts [x, y, z] fieldJacobianToBigAffine.nlocals)
      (initFrame [x, y, z].length [0, 1, 2] (fun _ => false))
      fieldJacobianToBigAffine.body = some ev := hev
  obtain ⟨habs, -, -⟩ := algFn_sound hev' hsafe
  have hres : CurveImpl.toBigAffine (x, y, z) =
      (CurveImpl.fvNat ((runOut prog CurveImpl.consts fieldJacobianToBigAffine [x, y, z] [0, 1, 2]
          (fun _ => false)).mem.get 3),
       CurveImpl.fvNat ((runOut prog CurveImpl.consts fieldJacobianToBigAffine [x, y, z] [0, 1, 2]
          (fun _ => false)).mem.get 4)) := by
    unfold CurveImpl.toBigAffine
    rw [runFn_eq_runFnFull, runFnFull_eq C09.prog_fieldJacobianToBigAffine]
    rfl
  rw [hres, fvNat_norm n3, fvNat_norm n4,
    val_of_fv n3 ((habs.val 3).trans hX), val_of_fv n4 ((habs.val 4).trans hY)]
  rcases h.2.2.2 with ⟨hb, hQ⟩ | ⟨hz, hr⟩
  · subst hQ
    rw [enc_zero]
    have hb' : (isZero x = true ∧ isZero y = true) ∨ isZero z = true := by simpa using hb
    rcases hb' with ⟨bx, bY⟩ | bz
    · rw [fv_eq_zero_of_isZero bx, fv_eq_zero_of_isZero bY, zero_mul, zero_mul]
      rfl
    · rw [fv_eq_zero_of_isZero bz, inv_zero, mul_zero, mul_zero, mul_zero, mul_zero]
      rfl
  · obtain ⟨hns, rfl⟩ := repF_fin hr hz
    rw [enc_some]
    have e1 : fv x * ((fv z)⁻¹ * (fv z)⁻¹) = fv x / fv z ^ 2 := by field_simp
    have e2 : fv y * ((fv z)⁻¹ * (fv z)⁻¹ * (fv z)⁻¹) = fv y / fv z ^ 3 := by field_simp
    rw [e1, e2]

/-! ## `SetByteSlice` of a big-endian integer -/

theorem range_map_getD (l : List UInt8) : (List.range l.length).map (fun i => l.getD i 0) = l := by
  apply List.ext_getElem (by simp)
  intro i h1 h2
  simp [List.getD_eq_getElem?_getD, List.getElem?_eq_getElem h2]

theorem toList_b32OfList (l : List UInt8) (h : l.length = 32) : (CurveImpl.b32OfList l).toList = l := by
  have : (CurveImpl.b32OfList l).toList = (List.range 32).map (fun i => l.getD i 0) := rfl
  rw [this, ← h]
  exact range_map_getD l

/-- `SetByteSlice(n.Bytes())` for `n < 2^256`: the value is `n`, canonical words -/
theorem setByteSlice_natBE (n : Nat) (h : n < 2 ^ 256) :
    (CurveImpl.setByteSlice (Bytes.natBE n)).val = n ∧ Canon (CurveImpl.setByteSlice (Bytes.natBE n)) := by
  have hlen : (Bytes.natBE n).length ≤ 32 := Bytes.natBE_length_le n 32 (by
    calc n < 2 ^ 256 := h
      _ = 256 ^ 32 := by norm_num)
  have htake : (Bytes.natBE n).take 32 = Bytes.natBE n := List.take_of_length_le hlen
  have hpl : (Bytes.padLeft 32 (Bytes.natBE n)).length = 32 := Bytes.padLeft_length_of_le 32 _ hlen
  obtain ⟨hv, hc⟩ := GoBk.Proofs.Field.setBytes_val
    (CurveImpl.b32OfList (Bytes.padLeft 32 ((Bytes.natBE n).take 32)))
  refine ⟨?_, hc⟩
  unfold CurveImpl.setByteSlice
  rw [hv, GoBk.Proofs.Field.beNat_eq_foldl, htake, toList_b32OfList _ hpl]
  show Bytes.beNat (Bytes.padLeft 32 (Bytes.natBE n)) = n
  rw [Bytes.beNat_padLeft, Bytes.beNat_natBE]

theorem P_lt_2_256 : GoBk.Spec.P < 2 ^ 256 := by decide

theorem fv_setByteSlice (n : Nat) (h : n < 2 ^ 256) : fv (CurveImpl.setByteSlice (Bytes.natBE n)) = (n : F) := by
  unfold fv; rw [(setByteSlice_natBE n h).1]

/-! ## IsOnCurve -/

/-- **`IsOnCurve(x, y)`** for coordinates below `2^256` (`SetByteSlice` keeps the 32 leading bytes
of longer inputs, so larger integers are outside the domain) -/
theorem isOnCurve_eq (a : Pt) (hx : a.1 < 2 ^ 256) (hy : a.2 < 2 ^ 256) :
    CurveImpl.isOnCurve a = onCurve a := by
  obtain ⟨ax, ay⟩ := a
  simp only at hx hy
  obtain ⟨vx, cx⟩ := setByteSlice_natBE ax hx
  obtain ⟨vy, cy⟩ := setByteSlice_natBE ay hy
  generalize hfx : CurveImpl.setByteSlice (Bytes.natBE ax) = fx at vx cx
  generalize hfy : CurveImpl.setByteSlice (Bytes.natBE ay) = fy at vy cy
  obtain ⟨ev, hev, hfl⟩ := onCurve_alg (fv CurveImpl.consts.1) (fv CurveImpl.consts.2.1)
    (fv CurveImpl.consts.2.2) (fv fx) (fv fy) (isZero fx) (isZero fy) (fun _ => false)
  have hsafe := C09.isOnCurve_no_overflow C09.consts_norm fx fy cx.magLe cy.magLe (fun _ => false)
  have hev' : algBlock (algCall prog 8)
      (initAS CurveImpl.consts [fx, fy] isOnCurve.nlocals)
      (initFrame [fx, fy].length [0, 1] (fun _ => false))
      isOnCurve.body = some ev := hev
  obtain ⟨-, hfr, -⟩ := algFn_sound hev' hsafe
  have hres : CurveImpl.isOnCurve (ax, ay) =
      (runOut prog CurveImpl.consts isOnCurve [fx, fy] [0, 1] (fun _ => false)).fr.flags 0 := by
    unfold CurveImpl.isOnCurve CurveImpl.bigAffineToField
    simp only [hfx, hfy]
    rw [runFnFull_eq C09.prog_isOnCurve]
  rw [hres, hfr, hfl, Bool.eq_iff_iff, decide_eq_true_iff, onCurve_cast]
  unfold fv
  rw [vx, vy]
  constructor
  · intro h; rw [pow_two, h]; push_cast; ring
  · intro h; rw [pow_two] at h; rw [h]; push_cast; ring

/-! ## the instance of `FormulaOK`, the operands of `ScalarMult`, the byte-point table -/

/-- `q` represents the group element with affine encoding `A` (`(0,0)` = infinity) -/
def RepPt (q : CurveImpl.Jac) (A : Pt) : Prop := ∃ Q : E.Point, enc Q = A ∧ RepJ q Q

theorem repJ_zero : RepJ (zero, zero, zero) 0 :=
  ⟨by decide, by decide, by decide, Or.inl ⟨by decide, rfl⟩⟩

/-- **the regenerated formulas are correct** (instance of the hypothesis of Proofs/ScalarLemmas) -/
def formulaOK : FormulaOK where
  Rep := RepPt
  RepIn := RepPt
  H_zero := ⟨0, rfl, repJ_zero⟩
  H_add := by
    rintro q p _ _ - - ⟨Q, rfl, hq⟩ ⟨R, rfl, hp⟩
    exact ⟨Q + R, (padd_enc Q R).symm, addAcc_rep hq hp⟩
  H_dbl := by
    rintro q _ - ⟨Q, rfl, hq⟩
    exact ⟨Q + Q, (pdouble_enc Q).symm, doubleAcc_rep hq⟩
  H_aff := by
    rintro q _ - ⟨Q, rfl, hq⟩
    exact toBigAffine_rep hq

theorem repF_affine {x y : F} (h : E.Nonsingular x y) : RepF (x, y, 1) (Point.some x y h) :=
  Or.inr ⟨one_ne_zero, some_congr h (by simp) (by simp)⟩

theorem magLe_setInt1 : MagLe 1 (setInt 1) := by decide

/-- an affine operand `(SetByteSlice x, SetByteSlice y, 1)` (with any `y`-cell of magnitude ≤ 2 and
the right value) represents the finite point -/
theorem repJ_affine {x y : F} (h : E.Nonsingular x y) {fx fy : FV} (mx : MagLe 1 fx) (my : MagLe 2 fy)
    (ex : fv fx = x) (ey : fv fy = y) : RepJ (fx, fy, setInt 1) (Point.some x y h) := by
  refine ⟨mx, my, magLe_setInt1, Or.inr ⟨?_, ?_⟩⟩
  · show fv (setInt 1) ≠ 0
    rw [fv_one]; exact one_ne_zero
  · show RepF (fv fx, fv fy, fv (setInt 1)) _
    rw [ex, ey, fv_one]
    exact repF_affine h

theorem val_lt_2_256 (x : F) : x.val < 2 ^ 256 := lt_trans (ZMod.val_lt x) P_lt_2_256

theorem fv_field_of_val (x : F) : fv (CurveImpl.setByteSlice (Bytes.natBE x.val)) = x := by
  rw [fv_setByteSlice _ (val_lt_2_256 x), ZMod.natCast_zmod_val]

theorem fv_negateVal1 {f : FV} (h : MagLe 1 f) :
    fv (negateVal f 1) = - fv f ∧ MagLe 2 (negateVal f 1) := by
  obtain ⟨-, hv, hm⟩ := GoBk.Proofs.Field.negateVal_sound f 1 (by decide) h
  refine ⟨?_, hm⟩
  have : ((negateVal f 1).val : F) + (f.val : F) = 0 := by
    rw [← Nat.cast_add, hv, P_eq_spec, Nat.cast_mul, ZMod.natCast_self, mul_zero]
  exact eq_neg_of_add_eq_zero_left this

theorem beta_val : CurveImpl.beta.val = GoBk.Proofs.beta := by decide +kernel

theorem fv_mul2_beta {f : FV} (h : MagLe 1 f) :
    fv (mul2 f CurveImpl.beta) = (GoBk.Proofs.beta : F) * fv f ∧ MagLe 1 (mul2 f CurveImpl.beta) := by
  have hb : MagLe 1 CurveImpl.beta := C09.consts_norm.2.2.magLe
  obtain ⟨-, hv, hm⟩ := GoBk.Proofs.Field.mul2_sound f CurveImpl.beta (h.mono (by decide)) (hb.mono (by decide))
  refine ⟨?_, hm⟩
  calc fv (mul2 f CurveImpl.beta)
      = (((mul2 f CurveImpl.beta).val % GoBk.Proofs.Field.P : ℕ) : F) := (fv_mod _).symm
    _ = ((f.val * CurveImpl.beta.val % GoBk.Proofs.Field.P : ℕ) : F) := by rw [hv]
    _ = (GoBk.Proofs.beta : F) * fv f := by
      rw [P_eq_spec, ZMod.natCast_mod, Nat.cast_mul, beta_val, mul_comm]; rfl

/-- **the four prepared operands of `ScalarMult`** represent `±B`, `±φ(B)`, for every valid
`B ≠ (0,0)` -/
theorem inputOK {B : Pt} (hB : valid B = true) (hne : B ≠ inf) : InputOK formulaOK B := by
  obtain ⟨Bp, rfl⟩ := (valid_iff B).1 hB
  rcases Bp with _ | ⟨bx, bY, hns⟩
  · exact absurd rfl hne
  have efx : (CurveImpl.bigAffineToField (enc (Point.some bx bY hns))).1
      = CurveImpl.setByteSlice (Bytes.natBE bx.val) := rfl
  have efy : (CurveImpl.bigAffineToField (enc (Point.some bx bY hns))).2
      = CurveImpl.setByteSlice (Bytes.natBE bY.val) := rfl
  rw [show CurveImpl.bigAffineToField (enc (Point.some bx bY hns)) =
    (CurveImpl.setByteSlice (Bytes.natBE bx.val), CurveImpl.setByteSlice (Bytes.natBE bY.val)) from rfl] at *
  have mx := (setByteSlice_natBE bx.val (val_lt_2_256 bx)).2.magLe
  have my := (setByteSlice_natBE bY.val (val_lt_2_256 bY)).2.magLe
  have ex := fv_field_of_val bx
  have ey := fv_field_of_val bY
  obtain ⟨eny, mny⟩ := fv_negateVal1 my
  obtain ⟨ebx, mbx⟩ := fv_mul2_beta mx
  rw [ey] at eny
  rw [ex] at ebx
  have hneg : ∃ h', -(Point.some bx bY hns) = Point.some bx (-bY) h' := by
    rw [Point.neg_some]
    exact some_congr _ rfl (E_negY bx bY)
  obtain ⟨hn', eneg⟩ := hneg
  have hphi : phiPt (Point.some bx bY hns) = Point.some ((GoBk.Proofs.beta : F) * bx) bY (phi_nonsingular hns) := rfl
  have hphin : ∃ h', -(Point.some ((GoBk.Proofs.beta : F) * bx) bY (phi_nonsingular hns))
      = Point.some ((GoBk.Proofs.beta : F) * bx) (-bY) h' := by
    rw [Point.neg_some]
    exact some_congr _ rfl (E_negY _ bY)
  obtain ⟨hpn', ephin⟩ := hphin
  refine ⟨?_, ?_, ?_, ?_⟩
  · exact ⟨_, rfl, repJ_affine hns mx (my.mono (by decide)) ex ey⟩
  · refine ⟨-(Point.some bx bY hns), (pneg_enc _).symm, ?_⟩
    rw [eneg]
    exact repJ_affine hn' mx mny ex eny
  · refine ⟨phiPt (Point.some bx bY hns), enc_phiPt _, ?_⟩
    rw [hphi]
    exact repJ_affine _ mbx (my.mono (by decide)) ebx ey
  · refine ⟨-phiPt (Point.some bx bY hns), ?_, ?_⟩
    · rw [← pneg_enc, enc_phiPt]
    · rw [hphi, ephin]
      exact repJ_affine hpn' mbx mny ebx eny

/-- **the byte-point table** (`table_correct`): entry `[i][b]` represents `(b·256^(31-i))•G` -/
theorem tableOK : TableOK formulaOK := by
  constructor
  intro i hi b hb
  refine ⟨(b * 256 ^ (31 - i)) • Gpt, by rw [← enc_Gpt, smul_enc], ?_⟩
  obtain ⟨⟨cx, cy, mz⟩, -, h0, hnz⟩ := GoBk.Proofs.Table.table_correct i hi b hb
  have hrep : RepF (fv (Gen.Table.get i b 0), fv (Gen.Table.get i b 1), fv (Gen.Table.get i b 2))
      ((b * 256 ^ (31 - i)) • Gpt) := GoBk.Proofs.Table.table_rep i hi b hb
  refine ⟨cx.magLe, cy.magLe.mono (by decide), mz, ?_⟩
  rcases Nat.eq_zero_or_pos b with rfl | hpos
  · left
    obtain ⟨e0, e1, e2⟩ := h0 rfl
    refine ⟨?_, by rw [Nat.zero_mul, zero_nsmul]⟩
    show ((isZero (Gen.Table.get i 0 0) && isZero (Gen.Table.get i 0 1)) || isZero (Gen.Table.get i 0 2)) = true
    rw [e0, e1, e2]
    rfl
  · right
    refine ⟨?_, hrep⟩
    have hz := (hnz (by omega)).1
    show fv (Gen.Table.get i b 2) ≠ 0
    unfold fv
    rw [Ne, ZMod.natCast_eq_zero_iff, Nat.dvd_iff_mod_eq_zero, ← P_eq_spec]
    exact hz

/-! ## `Add`, `Double` -/

theorem isInf_iff' (a : Pt) : (decide (a.1 = 0) && decide (a.2 = 0)) = true ↔ a = inf := by
  obtain ⟨x, y⟩ := a
  simp [inf]

/-- an affine valid point `≠ (0,0)` prepared by `bigAffineToField`, with `z = 1` -/
theorem repJ_of_valid {a : Pt} (ha : valid a = true) (hne : a ≠ inf) :
    ∃ A : E.Point, enc A = a ∧
      RepJ ((CurveImpl.bigAffineToField a).1, (CurveImpl.bigAffineToField a).2, setInt 1) A := by
  obtain ⟨h1, -, -, -⟩ := inputOK ha hne
  exact h1

theorem add_eq (a b : Pt) (ha : valid a = true) (hb : valid b = true) :
    CurveImpl.add a b = Curve.add a b := by
  rw [Curve.add_def]
  unfold CurveImpl.add
  by_cases h1 : (decide (a.1 = 0) && decide (a.2 = 0)) = true
  · rw [if_pos h1, (isInf_iff' a).1 h1]; rfl
  rw [if_neg h1]
  have hane : a ≠ inf := fun h => h1 ((isInf_iff' a).2 h)
  by_cases h2 : (decide (b.1 = 0) && decide (b.2 = 0)) = true
  · rw [if_pos h2, (isInf_iff' b).1 h2, padd_inf]
  rw [if_neg h2]
  have hbne : b ≠ inf := fun h => h2 ((isInf_iff' b).2 h)
  obtain ⟨A, eA, rA⟩ := repJ_of_valid ha hane
  obtain ⟨B, eB, rB⟩ := repJ_of_valid hb hbne
  obtain ⟨_, _, _, _, _, _, x3, y3, z3, hrun, hrep⟩ :=
    addJacobian_rep _ _ _ _ _ _ zero zero zero rA rB
  show (match IR.runFn prog CurveImpl.consts fn_addJacobian
      [(CurveImpl.bigAffineToField a).1, (CurveImpl.bigAffineToField a).2, setInt 1,
       (CurveImpl.bigAffineToField b).1, (CurveImpl.bigAffineToField b).2, setInt 1, zero, zero, zero]
      [0, 1, 2, 3, 4, 5, 6, 7, 8] with
    | [_, _, _, _, _, _, x3, y3, z3] => CurveImpl.toBigAffine (x3, y3, z3)
    | _ => (0, 0)) = padd a b
  rw [hrun]
  show CurveImpl.toBigAffine (x3, y3, z3) = padd a b
  rw [toBigAffine_rep hrep, ← eA, ← eB, padd_enc]

theorem double_eq (a : Pt) (ha : valid a = true) : CurveImpl.double a = Curve.double a := by
  rw [Curve.double_def]
  unfold CurveImpl.double
  by_cases h1 : a.2 = 0
  · rw [if_pos h1]
    unfold pdouble
    rw [if_pos (by rw [h1]; simp)]
    rfl
  rw [if_neg h1]
  have hane : a ≠ inf := fun h => h1 (by rw [h]; rfl)
  obtain ⟨A, eA, rA⟩ := repJ_of_valid ha hane
  obtain ⟨_, _, _, x3, y3, z3, hrun, hrep⟩ := doubleJacobian_rep _ _ _ zero zero zero rA
  show (match IR.runFn prog CurveImpl.consts fn_doubleJacobian
      [(CurveImpl.bigAffineToField a).1, (CurveImpl.bigAffineToField a).2, setInt 1, zero, zero, zero]
      [0, 1, 2, 3, 4, 5] with
    | [_, _, _, x3, y3, z3] => CurveImpl.toBigAffine (x3, y3, z3)
    | _ => (0, 0)) = pdouble a
  rw [hrun]
  show CurveImpl.toBigAffine (x3, y3, z3) = pdouble a
  rw [toBigAffine_rep hrep, ← eA, pdouble_enc]

/-! ## `ScalarMult(0, 0, k)`: the degenerate base point

The Go code does not special-case `B = (0,0)`: the operands are `(0,0,1)` and `(0, NegateVal(0), 1)`
(whose `y` words are `2P`, literally non-zero).  These are not `RepJ` triples; but the weaker
invariant "x ≡ y ≡ 0 (mod P), magnitudes ≤ (1,2,1)" is preserved by `addJacobian`/`doubleJacobian`
and mapped to `(0,0)` by `fieldJacobianToBigAffine`. -/

def ZeroJ (q : CurveImpl.Jac) : Prop :=
  MagLe 1 q.1 ∧ MagLe 2 q.2.1 ∧ MagLe 1 q.2.2 ∧ fv q.1 = 0 ∧ fv q.2.1 = 0

theorem addAcc_zero {q p : CurveImpl.Jac} (hq : ZeroJ q) (hp : ZeroJ p) : ZeroJ (CurveImpl.addAcc q p) := by
  obtain ⟨qx, qy, qz⟩ := q
  obtain ⟨px, py, pz⟩ := p
  obtain ⟨mqx, mqy, mqz, eqx, eqy⟩ := hq
  obtain ⟨mpx, mpy, mpz, epx, epy⟩ := hp
  simp only at mqx mqy mqz eqx eqy mpx mpy mpz epx epy
  obtain ⟨ev, hev, h3, h4⟩ := addJ_acc_zero_alg (fv CurveImpl.consts.1) (fv CurveImpl.consts.2.1)
    (fv CurveImpl.consts.2.2) (fv qz) (fv pz)
    (isZero qx) (isZero qy) (isZero qz) (isZero px) (isZero py) (isZero pz) (fun _ => false)
  obtain ⟨hsafe, m3, m4, m5, -⟩ := C09.addJacobian_acc_no_overflow C09.consts_norm qx qy qz px py pz
    mqx mqy mqz mpx mpy mpz (fun _ => false)
  have hev' : algBlock (algCall prog 8)
      (initAS CurveImpl.consts [qx, qy, qz, px, py, pz, qx, qy, qz] addJacobian.nlocals)
      (initFrame [qx, qy, qz, px, py, pz, qx, qy, qz].length C09.al9acc (fun _ => false))
      addJacobian.body = some ev := by
    have e : initAS CurveImpl.consts [qx, qy, qz, px, py, pz, qx, qy, qz] addJacobian.nlocals =
        (⟨[fv CurveImpl.consts.1, fv CurveImpl.consts.2.1, fv CurveImpl.consts.2.2,
            fv qx, fv qy, fv qz, fv px, fv py, fv pz, fv qx, fv qy, fv qz],
          [none, none, none, some (isZero qx), some (isZero qy), some (isZero qz), some (isZero px),
            some (isZero py), some (isZero pz), some (isZero qx), some (isZero qy), some (isZero qz)]⟩ : AS) := rfl
    rw [e, eqx, eqy, epx, epy]
    exact hev
  obtain ⟨habs, -, -⟩ := algFn_sound hev' hsafe
  have hres : CurveImpl.addAcc (qx, qy, qz) (px, py, pz) =
      ((runOut prog CurveImpl.consts addJacobian [qx, qy, qz, px, py, pz, qx, qy, qz] C09.al9acc
          (fun _ => false)).mem.get 3,
       (runOut prog CurveImpl.consts addJacobian [qx, qy, qz, px, py, pz, qx, qy, qz] C09.al9acc
          (fun _ => false)).mem.get 4,
       (runOut prog CurveImpl.consts addJacobian [qx, qy, qz, px, py, pz, qx, qy, qz] C09.al9acc
          (fun _ => false)).mem.get 5) := by
    unfold CurveImpl.addAcc
    rw [runFn_eq_runFnFull, runFnFull_eq C09.prog_addJacobian]
    rfl
  rw [hres]
  exact ⟨m3, m4, m5, (habs.val 3).trans h3, (habs.val 4).trans h4⟩

theorem doubleAcc_zero {q : CurveImpl.Jac} (hq : ZeroJ q) : ZeroJ (CurveImpl.doubleAcc q) := by
  obtain ⟨qx, qy, qz⟩ := q
  obtain ⟨mqx, mqy, mqz, eqx, eqy⟩ := hq
  simp only at mqx mqy mqz eqx eqy
  obtain ⟨ev, hev, h3, h4⟩ := dblJ_acc_zero_alg (fv CurveImpl.consts.1) (fv CurveImpl.consts.2.1)
    (fv CurveImpl.consts.2.2) (fv qz) (isZero qx) (isZero qy) (isZero qz) (fun _ => false)
  obtain ⟨hsafe, n3, n4, n5⟩ := C09.doubleJacobian_acc_no_overflow C09.consts_norm qx qy qz
    mqx mqy mqz (fun _ => false)
  have hev' : algBlock (algCall prog 8)
      (initAS CurveImpl.consts [qx, qy, qz, qx, qy, qz] doubleJacobian.nlocals)
      (initFrame [qx, qy, qz, qx, qy, qz].length C09.al6acc (fun _ => false))
      doubleJacobian.body = some ev := by
    have e : initAS CurveImpl.consts [qx, qy, qz, qx, qy, qz] doubleJacobian.nlocals =
        (⟨[fv CurveImpl.consts.1, fv CurveImpl.consts.2.1, fv CurveImpl.consts.2.2,
            fv qx, fv qy, fv qz, fv qx, fv qy, fv qz],
          [none, none, none, some (isZero qx), some (isZero qy), some (isZero qz),
            some (isZero qx), some (isZero qy), some (isZero qz)]⟩ : AS) := rfl
    rw [e, eqx, eqy]
    exact hev
  obtain ⟨habs, -, -⟩ := algFn_sound hev' hsafe
  have hres : CurveImpl.doubleAcc (qx, qy, qz) =
      ((runOut prog CurveImpl.consts doubleJacobian [qx, qy, qz, qx, qy, qz] C09.al6acc
          (fun _ => false)).mem.get 3,
       (runOut prog CurveImpl.consts doubleJacobian [qx, qy, qz, qx, qy, qz] C09.al6acc
          (fun _ => false)).mem.get 4,
       (runOut prog CurveImpl.consts doubleJacobian [qx, qy, qz, qx, qy, qz] C09.al6acc
          (fun _ => false)).mem.get 5) := by
    unfold CurveImpl.doubleAcc
    rw [runFn_eq_runFnFull, runFnFull_eq C09.prog_doubleJacobian]
    rfl
  rw [hres]
  exact ⟨n3.magLe, n4.magLe.mono (by decide), n5.magLe, (habs.val 3).trans h3, (habs.val 4).trans h4⟩

/-- the value computed by `fieldJacobianToBigAffine` on any triple within the magnitude bounds -/
theorem toBigAffine_val {x y z : FV} (mx : MagLe 1 x) (my : MagLe 2 y) (mz : MagLe 1 z) :
    CurveImpl.toBigAffine (x, y, z) =
      ((fv x * ((fv z)⁻¹ * (fv z)⁻¹)).val, (fv y * ((fv z)⁻¹ * (fv z)⁻¹ * (fv z)⁻¹)).val) := by
  obtain ⟨ev, hev, hX, hY⟩ := toAff_alg (fv CurveImpl.consts.1) (fv CurveImpl.consts.2.1)
    (fv CurveImpl.consts.2.2) (fv x) (fv y) (fv z) (isZero x) (isZero y) (isZero z) (fun _ => false)
  obtain ⟨hsafe, n3, n4, -⟩ := C09.fieldJacobianToBigAffine_no_overflow C09.consts_norm x y z
    mx my mz (fun _ => false)
  have hev' : algBlock (algCall prog 8)
      (initAS CurveImpl.consts [x, y, z] fieldJacobianToBigAffine.nlocals)
      (initFrame [x, y, z].length [0, 1, 2] (fun _ => false))
      fieldJacobianToBigAffine.body = some ev := hev
  obtain ⟨habs, -, -⟩ := algFn_sound hev' hsafe
  have hres : CurveImpl.toBigAffine (x, y, z) =
      (CurveImpl.fvNat ((runOut prog CurveImpl.consts fieldJacobianToBigAffine [x, y, z] [0, 1, 2]
          (fun _ => false)).mem.get 3),
       CurveImpl.fvNat ((runOut prog CurveImpl.consts fieldJacobianToBigAffine [x, y, z] [0, 1, 2]
          (fun _ => false)).mem.get 4)) := by
    unfold CurveImpl.toBigAffine
    rw [runFn_eq_runFnFull, runFnFull_eq C09.prog_fieldJacobianToBigAffine]
    rfl
  rw [hres, fvNat_norm n3, fvNat_norm n4,
    val_of_fv n3 ((habs.val 3).trans hX), val_of_fv n4 ((habs.val 4).trans hY)]

theorem toBigAffine_zero {q : CurveImpl.Jac} (hq : ZeroJ q) : CurveImpl.toBigAffine q = inf := by
  obtain ⟨x, y, z⟩ := q
  obtain ⟨mx, my, mz, ex, ey⟩ := hq
  simp only at mx my mz ex ey
  rw [toBigAffine_val mx my mz, ex, ey, zero_mul, zero_mul]
  rfl

/-- the instance of `FormulaOK` for the degenerate base point -/
def formulaOK_inf : FormulaOK where
  Rep := fun q A => A = inf ∧ ZeroJ q
  RepIn := fun q A => A = inf ∧ ZeroJ q
  H_zero := ⟨rfl, by decide, by decide, by decide, fv_zero, fv_zero⟩
  H_add := by
    rintro q p _ _ - - ⟨rfl, hq⟩ ⟨rfl, hp⟩
    exact ⟨rfl, addAcc_zero hq hp⟩
  H_dbl := by
    rintro q _ - ⟨rfl, hq⟩
    exact ⟨rfl, doubleAcc_zero hq⟩
  H_aff := by
    rintro q _ - ⟨rfl, hq⟩
    exact toBigAffine_zero hq

theorem zeroJ_mk {x y z : FV} (mx : MagLe 1 x) (my : MagLe 2 y) (mz : MagLe 1 z)
    (ex : fv x = 0) (ey : fv y = 0) : ZeroJ (x, y, z) := ⟨mx, my, mz, ex, ey⟩

theorem inputOK_inf : InputOK formulaOK_inf inf := by
  have e0 : CurveImpl.bigAffineToField inf =
      (CurveImpl.setByteSlice (Bytes.natBE 0), CurveImpl.setByteSlice (Bytes.natBE 0)) := rfl
  have m0 := (setByteSlice_natBE 0 (by decide)).2.magLe
  have v0 : fv (CurveImpl.setByteSlice (Bytes.natBE 0)) = 0 := by
    rw [fv_setByteSlice 0 (by decide), Nat.cast_zero]
  obtain ⟨en, mn⟩ := fv_negateVal1 m0
  obtain ⟨eb, mb⟩ := fv_mul2_beta m0
  rw [v0, neg_zero] at en
  rw [v0, mul_zero] at eb
  have pn : pneg inf = inf := rfl
  constructor
  · rw [e0]; exact ⟨rfl, zeroJ_mk m0 (m0.mono (by decide)) magLe_setInt1 v0 v0⟩
  · rw [e0]; exact ⟨pn, zeroJ_mk m0 mn magLe_setInt1 v0 en⟩
  · rw [e0]; exact ⟨phi_inf, zeroJ_mk mb (m0.mono (by decide)) magLe_setInt1 eb v0⟩
  · rw [e0, phi_inf]; exact ⟨pn, zeroJ_mk mb mn magLe_setInt1 eb en⟩

end GoBk.IRGroup
