import GoBk.Proofs.GroupOrder
import GoBk.Proofs.ConstsEq
import GoBk.Proofs.BytesLemmas
import GoBk.Proofs.CurveDef
import GoBk.Model.Ecdsa
/-
  Lemmas for the ECDSA properties C02 / C03 / C12: arithmetic modulo the group order `N`
  (Fermat inverse), transport of congruences of scalars to equalities of points, and the
  elementary facts about the model functions `hashToInt`, `scalarBaseMult (natBE k)`,
  `decompressPoint`, `nonceLoop`, `recoverKey`, `compactLoop`.
-/
namespace GoBk.Proofs
open GoBk GoBk.Spec GoBk.Bytes WeierstrassCurve.Affine

/-! ### arithmetic modulo the group order -/

abbrev Fn := ZMod N

theorem N_pos : 0 < N := N_prime.pos
instance : NeZero N := ⟨N_prime.ne_zero⟩

theorem EN : Ecdsa.N = N := cN
theorem EP : Ecdsa.Pp = P := cP
theorem N_odd : N % 2 = 1 := by decide
theorem N_lt_pow : N < 2 ^ 256 := by decide
theorem pow_lt_two_N : 2 ^ 256 < 2 * N := by decide
theorem P_lt_two_N : P < 2 * N := by decide
theorem N_lt_P : N < P := by decide
theorem P_lt_pow : P < 2 ^ 256 := by decide
theorem pow256 : (256 : ℕ) ^ 32 = 2 ^ 256 := by decide

theorem cast_powModN (b e : ℕ) : ((powMod b e N : ℕ) : Fn) = (b : Fn) ^ e := by
  rw [powMod_eq, ZMod.natCast_mod, Nat.cast_pow]

theorem cast_invModN (a : ℕ) : ((invMod a N : ℕ) : Fn) = ((a : Fn))⁻¹ := by
  unfold invMod
  rw [cast_powModN]
  by_cases h : (a : Fn) = 0
  · rw [h, inv_zero, zero_pow]
    decide
  · have h1 := ZMod.pow_card_sub_one_eq_one h
    have hN : N - 1 = (N - 2) + 1 := by decide
    rw [hN, pow_succ] at h1
    exact eq_inv_of_mul_eq_one_left h1

theorem invModN_lt (a : ℕ) : invMod a N < N := by
  unfold invMod; rw [powMod_eq]; exact Nat.mod_lt _ N_pos

theorem castN_eq_iff (a b : ℕ) : (a : Fn) = (b : Fn) ↔ a % N = b % N :=
  ZMod.natCast_eq_natCast_iff' a b N

theorem castN_eq_zero_iff (a : ℕ) : (a : Fn) = 0 ↔ a % N = 0 := by
  rw [ZMod.natCast_eq_zero_iff, Nat.dvd_iff_mod_eq_zero]

theorem castN_ne_zero {a : ℕ} (h0 : 1 ≤ a) (h : a < N) : (a : Fn) ≠ 0 := by
  rw [Ne, castN_eq_zero_iff, Nat.mod_eq_of_lt h]; omega

/-- `invMod · N` is the inverse in the prime field of order `N` (Fermat). -/
theorem invModN_spec (a : ℕ) (h : a % N ≠ 0) : a * invMod a N % N = 1 := by
  have ha : (a : Fn) ≠ 0 := by rw [Ne, castN_eq_zero_iff]; exact h
  have : ((a * invMod a N : ℕ) : Fn) = ((1 : ℕ) : Fn) := by
    rw [Nat.cast_mul, cast_invModN, mul_inv_cancel₀ ha, Nat.cast_one]
  rw [castN_eq_iff] at this
  rw [this]; decide

/-- the inverse of `N - s` is the negated inverse -/
theorem cast_invModN_neg {s : ℕ} (hs : s ≤ N) :
    ((invMod (N - s) N : ℕ) : Fn) = -((invMod s N : ℕ) : Fn) := by
  rw [cast_invModN, cast_invModN, Nat.cast_sub hs, ZMod.natCast_self, zero_sub, inv_neg]

/-! ### congruent scalars give equal points -/

theorem nsmul_eq_of_cast (Q : E.Point) {j k : ℕ} (h : (j : Fn) = (k : Fn)) : j • Q = k • Q := by
  by_cases hQ : Q = 0
  · subst hQ; simp
  · rw [nsmul_eq_nsmul_iff hQ, ← castN_eq_iff]; exact h

theorem nsmul_eq_neg_of_cast (Q : E.Point) {j k : ℕ} (h : (j : Fn) = -(k : Fn)) :
    j • Q = -(k • Q) := by
  apply eq_neg_of_add_eq_zero_left
  rw [← add_nsmul]
  by_cases hQ : Q = 0
  · subst hQ; simp
  · rw [nsmul_eq_zero_iff hQ, ← ZMod.natCast_eq_zero_iff, Nat.cast_add, h, neg_add_cancel]

section PtLevel
variable {a : Pt}

theorem smul_eq_of_cast (ha : valid a = true) {j k : ℕ} (h : (j : Fn) = (k : Fn)) :
    smul j a = smul k a := by
  obtain ⟨Q, rfl⟩ := (valid_iff a).1 ha
  rw [smul_enc, smul_enc, nsmul_eq_of_cast Q h]

theorem smul_eq_pneg_of_cast (ha : valid a = true) {j k : ℕ} (h : (j : Fn) = -(k : Fn)) :
    smul j a = pneg (smul k a) := by
  obtain ⟨Q, rfl⟩ := (valid_iff a).1 ha
  rw [smul_enc, smul_enc, pneg_enc, nsmul_eq_neg_of_cast Q h]

theorem pneg_fst (a : Pt) : (pneg a).1 = a.1 := by
  unfold pneg
  split
  · rename_i h; rw [(isInf_iff a).1 h]
  · rfl

theorem pneg_eq_inf_iff (ha : valid a = true) : pneg a = inf ↔ a = inf := by
  constructor
  · intro h
    have := pneg_pneg ha
    rw [h] at this
    exact this.symm
  · intro h; subst h; rfl

theorem pt_eq_inf_iff (a : Pt) : (a.1 = 0 ∧ a.2 = 0) ↔ a = inf := by
  obtain ⟨x, y⟩ := a
  simp [inf]

end PtLevel

/-! ### the model's scalar multiplications on minimal big-endian scalars -/

theorem natBE_length_le_32 {k : ℕ} (hk : k < 2 ^ 256) : (natBE k).length ≤ 32 :=
  natBE_length_le k 32 (by rw [pow256]; exact hk)

theorem scalarBaseMult_natBE {k : ℕ} (hk : k < 2 ^ 256) :
    Curve.scalarBaseMult (natBE k) = smul k G := by
  have := natBE_length_le_32 hk
  rw [Curve.scalarBaseMult_def]
  unfold Curve.moduloReduce
  rw [if_neg (by omega), beNat_natBE]

theorem scalarMult_natBE (q : Pt) {k : ℕ} (hk : k < 2 ^ 256) :
    Curve.scalarMult q (natBE k) = smul k q := by
  have := natBE_length_le_32 hk
  rw [Curve.scalarMult_def]
  unfold Curve.moduloReduce
  rw [if_neg (by omega), beNat_natBE]

theorem mod_N_lt_pow (a : ℕ) : a % N < 2 ^ 256 :=
  Nat.lt_trans (Nat.mod_lt _ N_pos) N_lt_pow

/-! ### hashToInt -/

theorem hashToInt_eq (h : Bytes) : Ecdsa.hashToInt h = beNat (h.take 32) := by
  unfold Ecdsa.hashToInt
  by_cases hl : h.length > 32
  · have h32 : (List.take 32 h).length = 32 := by rw [List.length_take]; omega
    simp only [hl, if_true, h32]
    rw [if_neg (by decide)]
  · have ht : List.take 32 h = h := List.take_of_length_le (by omega)
    simp only [hl, if_false, ht]
    rw [if_neg (by omega)]

theorem hashToInt_lt (h : Bytes) : Ecdsa.hashToInt h < 2 ^ 256 := by
  rw [hashToInt_eq, ← pow256]
  refine Nat.lt_of_lt_of_le (beNat_lt _) (Nat.pow_le_pow_right (by decide) ?_)
  rw [List.length_take]; omega

/-! ### Verify -/

/-- the point whose x-coordinate `verify` compares with `r`: `(e/s)·G + (r/s)·Q` -/
def verifyPt (q : Pt) (h : Bytes) (r s : ℕ) : Pt :=
  padd (smul (Ecdsa.hashToInt h * invMod s N % N) G) (smul (r * invMod s N % N) q)

theorem verify_of_range (q : Pt) (h : Bytes) {r s : Int} (hr1 : 1 ≤ r) (hrN : r < N)
    (hs1 : 1 ≤ s) (hsN : s < N) :
    Ecdsa.verify q h r s = true ↔
      (verifyPt q h r.toNat s.toNat ≠ inf ∧ (verifyPt q h r.toNat s.toNat).1 % N = r.toNat) := by
  have h1 : ¬ (r ≤ 0) := by omega
  have h2 : ¬ (s ≤ 0) := by omega
  have h3 : ¬ (r.toNat ≥ N) := by omega
  have h4 : ¬ (s.toNat ≥ N) := by omega
  simp only [Ecdsa.verify, Curve.add_def, EN, scalarBaseMult_natBE (mod_N_lt_pow _),
    scalarMult_natBE _ (mod_N_lt_pow _), h1, h2, h3, h4, decide_false, Bool.or_self,
    Bool.false_eq_true, if_false]
  unfold verifyPt
  generalize padd _ _ = X
  obtain ⟨x, y⟩ := X
  simp [inf]
  intro _; tauto

theorem verify_out_of_range (q : Pt) (h : Bytes) {r s : Int}
    (hr : r ≤ 0 ∨ s ≤ 0 ∨ (N : Int) ≤ r ∨ (N : Int) ≤ s) : Ecdsa.verify q h r s = false := by
  unfold Ecdsa.verify
  by_cases h0 : r ≤ 0 ∨ s ≤ 0
  · rw [if_pos (by simpa using h0)]
  · rw [if_neg (by simpa using h0)]
    have : r.toNat ≥ N ∨ s.toNat ≥ N := by omega
    simp only [EN]
    rw [if_pos (by simpa using this)]

theorem verifyPt_twin {q : Pt} (hq : valid q = true) (h : Bytes) (r : ℕ) {s : ℕ} (hs : s ≤ N) :
    verifyPt q h r (N - s) = pneg (verifyPt q h r s) := by
  unfold verifyPt
  have hw := cast_invModN_neg hs
  have e1 : smul (Ecdsa.hashToInt h * invMod (N - s) N % N) G
      = pneg (smul (Ecdsa.hashToInt h * invMod s N % N) G) := by
    apply smul_eq_pneg_of_cast valid_G
    rw [ZMod.natCast_mod, ZMod.natCast_mod, Nat.cast_mul, Nat.cast_mul, hw, mul_neg]
  have e2 : smul (r * invMod (N - s) N % N) q = pneg (smul (r * invMod s N % N) q) := by
    apply smul_eq_pneg_of_cast hq
    rw [ZMod.natCast_mod, ZMod.natCast_mod, Nat.cast_mul, Nat.cast_mul, hw, mul_neg]
  rw [e1, e2, pneg_padd_distrib (valid_smul _ valid_G) (valid_smul _ hq)]

theorem valid_verifyPt {q : Pt} (hq : valid q = true) (h : Bytes) (r s : ℕ) :
    valid (verifyPt q h r s) = true :=
  valid_padd (valid_smul _ valid_G) (valid_smul _ hq)

/-! ### Sign -/

theorem nonceLoop_range (pr : Prims) : ∀ (fuel : ℕ) (k v : Bytes) (n : ℕ),
    Ecdsa.nonceLoop pr fuel k v = some n → 1 ≤ n ∧ n < N := by
  intro fuel
  induction fuel with
  | zero => intro k v n h; simp [Ecdsa.nonceLoop] at h
  | succ f ih =>
    intro k v n h
    unfold Ecdsa.nonceLoop at h
    simp only at h
    split at h
    · rename_i hc
      rw [EN] at hc
      cases h; exact hc
    · exact ih _ _ _ h

/-- what a successful `sign` computed -/
theorem sign_some {pr : Prims} {fuel d : ℕ} {h : Bytes} {r s : ℕ}
    (hs : Ecdsa.sign pr fuel d h = some (r, s)) :
    ∃ k, Ecdsa.nonceRFC6979 pr fuel d h = some k ∧ 1 ≤ k ∧ k < N ∧
      r = (smul k G).1 % N ∧ r ≠ 0 ∧
      ∃ s0, s0 = (d * r + Ecdsa.hashToInt h) * invMod k N % N ∧ s0 ≠ 0 ∧
        s = if s0 > N / 2 then N - s0 else s0 := by
  unfold Ecdsa.sign at hs
  split at hs
  · cases hs
  · rename_i k hk
    have hkr : 1 ≤ k ∧ k < N := nonceLoop_range pr _ _ _ _ hk
    have hk256 : k < 2 ^ 256 := Nat.lt_trans hkr.2 N_lt_pow
    simp only [EN, Ecdsa.halfOrder, scalarBaseMult_natBE hk256] at hs
    generalize hs0 : (d * ((smul k G).1 % N) + Ecdsa.hashToInt h) * invMod k N % N = s0 at hs
    by_cases hr0 : (smul k G).1 % N = 0
    · rw [if_pos hr0] at hs; cases hs
    rw [if_neg hr0] at hs
    by_cases hS : (if s0 > N / 2 then N - s0 else s0) = 0
    · rw [if_pos hS] at hs; cases hs
    rw [if_neg hS] at hs
    have hp := Option.some.inj hs
    have hr : _ = r := congrArg Prod.fst hp
    have hs' : _ = s := congrArg Prod.snd hp
    dsimp only at hr hs'
    subst hr
    refine ⟨k, hk, hkr.1, hkr.2, rfl, hr0, s0, hs0.symm, ?_, hs'.symm⟩
    intro h0
    apply hS
    rw [h0, if_neg (Nat.not_lt_zero _)]


theorem lowS_range {s0 : ℕ} (h : s0 < N) (h0 : s0 ≠ 0) :
    1 ≤ (if s0 > N / 2 then N - s0 else s0) ∧ (if s0 > N / 2 then N - s0 else s0) ≤ N / 2 := by
  have := N_odd
  split <;> omega

theorem sign_range_aux {pr : Prims} {fuel d : ℕ} {h : Bytes} {r s : ℕ}
    (hs : Ecdsa.sign pr fuel d h = some (r, s)) : 1 ≤ r ∧ r < N ∧ 1 ≤ s ∧ s ≤ N / 2 := by
  obtain ⟨k, _, _, _, hr, hr0, s0, hs0, hs0ne, hs⟩ := sign_some hs
  have hlt : s0 < N := by rw [hs0]; exact Nat.mod_lt _ N_pos
  have := lowS_range hlt hs0ne
  rw [← hs] at this
  refine ⟨by omega, ?_, this.1, this.2⟩
  rw [hr]; exact Nat.mod_lt _ N_pos

/-- the algebraic heart of "a signature verifies": `(e/s)·G + (r/s)·(d·G) = k·G` for `s = (d r + e)/k` -/
theorem verifyPt_sign {d k r : ℕ} (h : Bytes) (hk1 : 1 ≤ k) (hkN : k < N) {s0 : ℕ}
    (hs0 : s0 = (d * r + Ecdsa.hashToInt h) * invMod k N % N) (hne : s0 ≠ 0) :
    verifyPt (smul d G) h r s0 = smul k G := by
  unfold verifyPt
  rw [smul_smul _ _ valid_G, ← smul_add _ _ valid_G]
  apply smul_eq_of_cast valid_G
  have hkF : (k : Fn) ≠ 0 := castN_ne_zero hk1 hkN
  have hsF : (s0 : Fn) = ((d : Fn) * r + (Ecdsa.hashToInt h : Fn)) * (k : Fn)⁻¹ := by
    rw [hs0, ZMod.natCast_mod, Nat.cast_mul, Nat.cast_add, Nat.cast_mul, cast_invModN]
  have hs0F : (s0 : Fn) ≠ 0 := by
    apply castN_ne_zero (by omega)
    rw [hs0]; exact Nat.mod_lt _ N_pos
  have hnum : ((d : Fn) * r + (Ecdsa.hashToInt h : Fn)) ≠ 0 := by
    intro h0; rw [h0, zero_mul] at hsF; exact hs0F hsF
  rw [Nat.cast_add, Nat.cast_mul, ZMod.natCast_mod, ZMod.natCast_mod, Nat.cast_mul, Nat.cast_mul,
    cast_invModN, hsF]
  field_simp
  ring


theorem smul_G_ne_inf {k : ℕ} (hk1 : 1 ≤ k) (hkN : k < N) : smul k G ≠ inf := by
  rw [Ne, smul_G_eq_inf_iff]
  intro hd
  have := Nat.le_of_dvd (by omega) hd
  omega

theorem sign_verifies_aux {pr : Prims} {fuel d : ℕ} {h : Bytes} {r s : ℕ}
    (hs : Ecdsa.sign pr fuel d h = some (r, s)) :
    Ecdsa.verify (smul d G) h (r : Int) (s : Int) = true := by
  obtain ⟨hr1, hrN, hs1, hsN⟩ := sign_range_aux hs
  obtain ⟨k, _, hk1, hkN, hr, hr0, s0, hs0, hs0ne, hs⟩ := sign_some hs
  have hlt : s0 < N := by rw [hs0]; exact Nat.mod_lt _ N_pos
  have hvq : valid (smul d G) = true := valid_smul d valid_G
  rw [verify_of_range _ _ (by omega) (by omega) (by omega) (by omega), Int.toNat_natCast,
    Int.toNat_natCast]
  have hkey := verifyPt_sign (d := d) (r := r) h hk1 hkN hs0 hs0ne
  have hne := smul_G_ne_inf hk1 hkN
  by_cases hflip : s0 > N / 2
  · rw [if_pos hflip] at hs
    rw [hs, verifyPt_twin hvq h r hlt.le, hkey, pneg_fst, Ne, pneg_eq_inf_iff (valid_smul k valid_G)]
    exact ⟨hne, hr.symm⟩
  · rw [if_neg hflip] at hs
    rw [hs, hkey]
    exact ⟨hne, hr.symm⟩


end GoBk.Proofs
