import GoBk.Proofs.GroupOrder
import GoBk.Proofs.ConstsEq
import GoBk.Proofs.BytesLemmas
import GoBk.Proofs.CurveDef
import GoBk.Model.Ecdsa
/-
  Lemmas for the ECDSA properties C02 / C03 / C12: arithmetic modulo the group order `N`
  (Fermat inverse), transport of congruences of scalars to equalities of points, and the
  elementary facts about the model functions `hashToInt`, `scalarBaseMult (natBE k)`,
  `decompressPoint`, `nonceLoop`, `recoverKey`, `compactLoop`.
-/
namespace GoBk.Proofs
open GoBk GoBk.Spec GoBk.Bytes WeierstrassCurve.Affine

/-! ### arithmetic modulo the group order -/

abbrev Fn := ZMod N

theorem N_pos : 0 < N := N_prime.pos
instance : NeZero N := ⟨N_prime.ne_zero⟩

theorem EN : Ecdsa.N = N := cN
theorem EP : Ecdsa.Pp = P := cP
theorem N_odd : N % 2 = 1 := by decide
theorem N_lt_pow : N < 2 ^ 256 := by decide
theorem pow_lt_two_N : 2 ^ 256 < 2 * N := by decide
theorem P_lt_two_N : P < 2 * N := by decide
theorem N_lt_P : N < P := by decide
theorem P_lt_pow : P < 2 ^ 256 := by decide
theorem pow256 : (256 : ℕ) ^ 32 = 2 ^ 256 := by decide

theorem cast_powModN (b e : ℕ) : ((powMod b e N : ℕ) : Fn) = (b : Fn) ^ e := by
  rw [powMod_eq, ZMod.natCast_mod, Nat.cast_pow]

theorem cast_invModN (a : ℕ) : ((invMod a N : ℕ) : Fn) = ((a : Fn))⁻¹ := by
  unfold invMod
  rw [cast_powModN]
  by_cases h : (a : Fn) = 0
  · rw [h, inv_zero, zero_pow]
    decide
  · have h1 := ZMod.pow_card_sub_one_eq_one h
    have hN : N - 1 = (N - 2) + 1 := by decide
    rw [hN, pow_succ] at h1
    exact eq_inv_of_mul_eq_one_left h1

theorem invModN_lt (a : ℕ) : invMod a N < N := by
  unfold invMod; rw [powMod_eq]; exact Nat.mod_lt _ N_pos

theorem castN_eq_iff (a b : ℕ) : (a : Fn) = (b : Fn) ↔ a % N = b % N :=
  ZMod.natCast_eq_natCast_iff' a b N

theorem castN_eq_zero_iff (a : ℕ) : (a : Fn) = 0 ↔ a % N = 0 := by
  rw [ZMod.natCast_eq_zero_iff, Nat.dvd_iff_mod_eq_zero]

theorem castN_ne_zero {a : ℕ} (h0 : 1 ≤ a) (h : a < N) : (a : Fn) ≠ 0 := by
  rw [Ne, castN_eq_zero_iff, Nat.mod_eq_of_lt h]; omega

/-- `invMod · N` is the inverse in the prime field of order `N` (Fermat). -/
theorem invModN_spec (a : ℕ) (h : a % N ≠ 0) : a * invMod a N % N = 1 := by
  have ha : (a : Fn) ≠ 0 := by rw [Ne, castN_eq_zero_iff]; exact h
  have : ((a * invMod a N : ℕ) : Fn) = ((1 : ℕ) : Fn) := by
    rw [Nat.cast_mul, cast_invModN, mul_inv_cancel₀ ha, Nat.cast_one]
  rw [castN_eq_iff] at this
  rw [this]; decide

/-- the inverse of `N - s` is the negated inverse -/
theorem cast_invModN_neg {s : ℕ} (hs : s ≤ N) :
    ((invMod (N - s) N : ℕ) : Fn) = -((invMod s N : ℕ) : Fn) := by
  rw [cast_invModN, cast_invModN, Nat.cast_sub hs, ZMod.natCast_self, zero_sub, inv_neg]

/-! ### congruent scalars give equal points -/

theorem nsmul_eq_of_cast (Q : E.Point) {j k : ℕ} (h : (j : Fn) = (k : Fn)) : j • Q = k • Q := by
  by_cases hQ : Q = 0
  · subst hQ; simp
  · rw [nsmul_eq_nsmul_iff hQ, ← castN_eq_iff]; exact h

theorem nsmul_eq_neg_of_cast (Q : E.Point) {j k : ℕ} (h : (j : Fn) = -(k : Fn)) :
    j • Q = -(k • Q) := by
  apply eq_neg_of_add_eq_zero_left
  rw [← add_nsmul]
  by_cases hQ : Q = 0
  · subst hQ; simp
  · rw [nsmul_eq_zero_iff hQ, ← ZMod.natCast_eq_zero_iff, Nat.cast_add, h, neg_add_cancel]

section PtLevel
variable {a : Pt}

theorem smul_eq_of_cast (ha : valid a = true) {j k : ℕ} (h : (j : Fn) = (k : Fn)) :
    smul j a = smul k a := by
  obtain ⟨Q, rfl⟩ := (valid_iff a).1 ha
  rw [smul_enc, smul_enc, nsmul_eq_of_cast Q h]

theorem smul_eq_pneg_of_cast (ha : valid a = true) {j k : ℕ} (h : (j : Fn) = -(k : Fn)) :
    smul j a = pneg (smul k a) := by
  obtain ⟨Q, rfl⟩ := (valid_iff a).1 ha
  rw [smul_enc, smul_enc, pneg_enc, nsmul_eq_neg_of_cast Q h]

theorem pneg_fst (a : Pt) : (pneg a).1 = a.1 := by
  unfold pneg
  split
  · rename_i h; rw [(isInf_iff a).1 h]
  · rfl

theorem pneg_eq_inf_iff (ha : valid a = true) : pneg a = inf ↔ a = inf := by
  constructor
  · intro h
    have := pneg_pneg ha
    rw [h] at this
    exact this.symm
  · intro h; subst h; rfl

theorem pt_eq_inf_iff (a : Pt) : (a.1 = 0 ∧ a.2 = 0) ↔ a = inf := by
  obtain ⟨x, y⟩ := a
  simp [inf]

end PtLevel

/-! ### the model's scalar multiplications on minimal big-endian scalars -/

theorem natBE_length_le_32 {k : ℕ} (hk : k < 2 ^ 256) : (natBE k).length ≤ 32 :=
  natBE_length_le k 32 (by rw [pow256]; exact hk)

theorem scalarBaseMult_natBE {k : ℕ} (hk : k < 2 ^ 256) :
    Curve.scalarBaseMult (natBE k) = smul k G := by
  have := natBE_length_le_32 hk
  rw [Curve.scalarBaseMult_def]
  unfold Curve.moduloReduce
  rw [if_neg (by omega), beNat_natBE]

theorem scalarMult_natBE (q : Pt) {k : ℕ} (hk : k < 2 ^ 256) :
    Curve.scalarMult q (natBE k) = smul k q := by
  have := natBE_length_le_32 hk
  rw [Curve.scalarMult_def]
  unfold Curve.moduloReduce
  rw [if_neg (by omega), beNat_natBE]

theorem mod_N_lt_pow (a : ℕ) : a % N < 2 ^ 256 :=
  Nat.lt_trans (Nat.mod_lt _ N_pos) N_lt_pow

/-! ### hashToInt -/

theorem hashToInt_eq (h : Bytes) : Ecdsa.hashToInt h = beNat (h.take 32) := by
  unfold Ecdsa.hashToInt
  by_cases hl : h.length > 32
  · have h32 : (List.take 32 h).length = 32 := by rw [List.length_take]; omega
    simp only [hl, if_true, h32]
    rw [if_neg (by decide)]
  · have ht : List.take 32 h = h := List.take_of_length_le (by omega)
    simp only [hl, if_false, ht]
    rw [if_neg (by omega)]

theorem hashToInt_lt (h : Bytes) : Ecdsa.hashToInt h < 2 ^ 256 := by
  rw [hashToInt_eq, ← pow256]
  refine Nat.lt_of_lt_of_le (beNat_lt _) (Nat.pow_le_pow_right (by decide) ?_)
  rw [List.length_take]; omega

/-! ### Verify -/

/-- the point whose x-coordinate `verify` compares with `r`: `(e/s)·G + (r/s)·Q` -/
def verifyPt (q : Pt) (h : Bytes) (r s : ℕ) : Pt :=
  padd (smul (Ecdsa.hashToInt h * invMod s N % N) G) (smul (r * invMod s N % N) q)

theorem verify_of_range (q : Pt) (h : Bytes) {r s : Int} (hr1 : 1 ≤ r) (hrN : r < N)
    (hs1 : 1 ≤ s) (hsN : s < N) :
    Ecdsa.verify q h r s = true ↔
      (verifyPt q h r.toNat s.toNat ≠ inf ∧ (verifyPt q h r.toNat s.toNat).1 % N = r.toNat) := by
  have h1 : ¬ (r ≤ 0) := by omega
  have h2 : ¬ (s ≤ 0) := by omega
  have h3 : ¬ (r.toNat ≥ N) := by omega
  have h4 : ¬ (s.toNat ≥ N) := by omega
  simp only [Ecdsa.verify, Curve.add_def, EN, scalarBaseMult_natBE (mod_N_lt_pow _),
    scalarMult_natBE _ (mod_N_lt_pow _), h1, h2, h3, h4, decide_false, Bool.or_self,
    Bool.false_eq_true, if_false]
  unfold verifyPt
  generalize padd _ _ = X
  obtain ⟨x, y⟩ := X
  simp [inf]
  intro _; tauto

theorem verify_out_of_range (q : Pt) (h : Bytes) {r s : Int}
    (hr : r ≤ 0 ∨ s ≤ 0 ∨ (N : Int) ≤ r ∨ (N : Int) ≤ s) : Ecdsa.verify q h r s = false := by
  unfold Ecdsa.verify
  by_cases h0 : r ≤ 0 ∨ s ≤ 0
  · rw [if_pos (by simpa using h0)]
  · rw [if_neg (by simpa using h0)]
    have : r.toNat ≥ N ∨ s.toNat ≥ N := by omega
    simp only [EN]
    rw [if_pos (by simpa using this)]

theorem verifyPt_twin {q : Pt} (hq : valid q = true) (h : Bytes) (r : ℕ) {s : ℕ} (hs : s ≤ N) :
    verifyPt q h r (N - s) = pneg (verifyPt q h r s) := by
  unfold verifyPt
  have hw := cast_invModN_neg hs
  have e1 : smul (Ecdsa.hashToInt h * invMod (N - s) N % N) G
      = pneg (smul (Ecdsa.hashToInt h * invMod s N % N) G) := by
    apply smul_eq_pneg_of_cast valid_G
    rw [ZMod.natCast_mod, ZMod.natCast_mod, Nat.cast_mul, Nat.cast_mul, hw, mul_neg]
  have e2 : smul (r * invMod (N - s) N % N) q = pneg (smul (r * invMod s N % N) q) := by
    apply smul_eq_pneg_of_cast hq
    rw [ZMod.natCast_mod, ZMod.natCast_mod, Nat.cast_mul, Nat.cast_mul, hw, mul_neg]
  rw [e1, e2, pneg_padd_distrib (valid_smul _ valid_G) (valid_smul _ hq)]

theorem valid_verifyPt {q : Pt} (hq : valid q = true) (h : Bytes) (r s : ℕ) :
    valid (verifyPt q h r s) = true :=
  valid_padd (valid_smul _ valid_G) (valid_smul _ hq)

/-! ### Sign -/

theorem nonceLoop_range (pr : Prims) : ∀ (fuel : ℕ) (k v : Bytes) (n : ℕ),
    Ecdsa.nonceLoop pr fuel k v = some n → 1 ≤ n ∧ n < N := by
  intro fuel
  induction fuel with
  | zero => intro k v n h; simp [Ecdsa.nonceLoop] at h
  | succ f ih =>
    intro k v n h
    unfold Ecdsa.nonceLoop at h
    simp only at h
    split at h
    · rename_i hc
      rw [EN] at hc
      cases h; exact hc
    · exact ih _ _ _ h

/-- what a successful `sign` computed -/
theorem sign_some {pr : Prims} {fuel d : ℕ} {h : Bytes} {r s : ℕ}
    (hs : Ecdsa.sign pr fuel d h = some (r, s)) :
    ∃ k, Ecdsa.nonceRFC6979 pr fuel d h = some k ∧ 1 ≤ k ∧ k < N ∧
      r = (smul k G).1 % N ∧ r ≠ 0 ∧
      ∃ s0, s0 = (d * r + Ecdsa.hashToInt h) * invMod k N % N ∧ s0 ≠ 0 ∧
        s = if s0 > N / 2 then N - s0 else s0 := by
  unfold Ecdsa.sign at hs
  split at hs
  · cases hs
  · rename_i k hk
    have hkr : 1 ≤ k ∧ k < N := nonceLoop_range pr _ _ _ _ hk
    have hk256 : k < 2 ^ 256 := Nat.lt_trans hkr.2 N_lt_pow
    simp only [EN, Ecdsa.halfOrder, scalarBaseMult_natBE hk256] at hs
    generalize hs0 : (d * ((smul k G).1 % N) + Ecdsa.hashToInt h) * invMod k N % N = s0 at hs
    by_cases hr0 : (smul k G).1 % N = 0
    · rw [if_pos hr0] at hs; cases hs
    rw [if_neg hr0] at hs
    by_cases hS : (if s0 > N / 2 then N - s0 else s0) = 0
    · rw [if_pos hS] at hs; cases hs
    rw [if_neg hS] at hs
    have hp := Option.some.inj hs
    have hr : _ = r := congrArg Prod.fst hp
    have hs' : _ = s := congrArg Prod.snd hp
    dsimp only at hr hs'
    subst hr
    refine ⟨k, hk, hkr.1, hkr.2, rfl, hr0, s0, hs0.symm, ?_, hs'.symm⟩
    intro h0
    apply hS
    rw [h0, if_neg (Nat.not_lt_zero _)]


theorem lowS_range {s0 : ℕ} (h : s0 < N) (h0 : s0 ≠ 0) :
    1 ≤ (if s0 > N / 2 then N - s0 else s0) ∧ (if s0 > N / 2 then N - s0 else s0) ≤ N / 2 := by
  have := N_odd
  split <;> omega

theorem sign_range_aux {pr : Prims} {fuel d : ℕ} {h : Bytes} {r s : ℕ}
    (hs : Ecdsa.sign pr fuel d h = some (r, s)) : 1 ≤ r ∧ r < N ∧ 1 ≤ s ∧ s ≤ N / 2 := by
  obtain ⟨k, _, _, _, hr, hr0, s0, hs0, hs0ne, hs⟩ := sign_some hs
  have hlt : s0 < N := by rw [hs0]; exact Nat.mod_lt _ N_pos
  have := lowS_range hlt hs0ne
  rw [← hs] at this
  refine ⟨by omega, ?_, this.1, this.2⟩
  rw [hr]; exact Nat.mod_lt _ N_pos

/-- the algebraic heart of "a signature verifies": `(e/s)·G + (r/s)·(d·G) = k·G` for `s = (d r + e)/k` -/
theorem verifyPt_sign {d k r : ℕ} (h : Bytes) (hk1 : 1 ≤ k) (hkN : k < N) {s0 : ℕ}
    (hs0 : s0 = (d * r + Ecdsa.hashToInt h) * invMod k N % N) (hne : s0 ≠ 0) :
    verifyPt (smul d G) h r s0 = smul k G := by
  unfold verifyPt
  rw [smul_smul _ _ valid_G, ← smul_add _ _ valid_G]
  apply smul_eq_of_cast valid_G
  have hkF : (k : Fn) ≠ 0 := castN_ne_zero hk1 hkN
  have hsF : (s0 : Fn) = ((d : Fn) * r + (Ecdsa.hashToInt h : Fn)) * (k : Fn)⁻¹ := by
    rw [hs0, ZMod.natCast_mod, Nat.cast_mul, Nat.cast_add, Nat.cast_mul, cast_invModN]
  have hs0F : (s0 : Fn) ≠ 0 := by
    apply castN_ne_zero (by omega)
    rw [hs0]; exact Nat.mod_lt _ N_pos
  have hnum : ((d : Fn) * r + (Ecdsa.hashToInt h : Fn)) ≠ 0 := by
    intro h0; rw [h0, zero_mul] at hsF; exact hs0F hsF
  rw [Nat.cast_add, Nat.cast_mul, ZMod.natCast_mod, ZMod.natCast_mod, Nat.cast_mul, Nat.cast_mul,
    cast_invModN, hsF]
  field_simp
  ring


theorem smul_G_ne_inf {k : ℕ} (hk1 : 1 ≤ k) (hkN : k < N) : smul k G ≠ inf := by
  rw [Ne, smul_G_eq_inf_iff]
  intro hd
  have := Nat.le_of_dvd (by omega) hd
  omega

theorem sign_verifies_aux {pr : Prims} {fuel d : ℕ} {h : Bytes} {r s : ℕ}
    (hs : Ecdsa.sign pr fuel d h = some (r, s)) :
    Ecdsa.verify (smul d G) h (r : Int) (s : Int) = true := by
  obtain ⟨hr1, hrN, hs1, hsN⟩ := sign_range_aux hs
  obtain ⟨k, _, hk1, hkN, hr, hr0, s0, hs0, hs0ne, hs⟩ := sign_some hs
  have hlt : s0 < N := by rw [hs0]; exact Nat.mod_lt _ N_pos
  have hvq : valid (smul d G) = true := valid_smul d valid_G
  rw [verify_of_range _ _ (by omega) (by omega) (by omega) (by omega), Int.toNat_natCast,
    Int.toNat_natCast]
  have hkey := verifyPt_sign (d := d) (r := r) h hk1 hkN hs0 hs0ne
  have hne := smul_G_ne_inf hk1 hkN
  by_cases hflip : s0 > N / 2
  · rw [if_pos hflip] at hs
    rw [hs, verifyPt_twin hvq h r hlt.le, hkey, pneg_fst, Ne, pneg_eq_inf_iff (valid_smul k valid_G)]
    exact ⟨hne, hr.symm⟩
  · rw [if_neg hflip] at hs
    rw [hs, hkey]
    exact ⟨hne, hr.symm⟩


/-! ### point decompression and key recovery -/

theorem neg_sq_mod {y0 : ℕ} (hy : y0 < P) : (P - y0) % P * ((P - y0) % P) % P = y0 * y0 % P := by
  rw [sq_eq_iff]
  right
  rw [ZMod.natCast_mod, Nat.cast_sub hy.le, ZMod.natCast_self, zero_sub]

theorem decompressPoint_eq_liftX {x : ℕ} (hx : x < P) (b : Bool) :
    Ecdsa.decompressPoint x b = liftX x b := by
  have hx1 : x % 2 ^ 256 % P = x := by
    rw [Nat.mod_eq_of_lt (Nat.lt_trans hx P_lt_pow), Nat.mod_eq_of_lt hx]
  have hc : (x * x % P * x + 7) % P = (x * x * x + B) % P := by
    show _ = (x * x * x + 7) % P
    rw [Nat.add_mod, Nat.mul_mod, Nat.mod_mod, ← Nat.mul_mod, ← Nat.add_mod]
  unfold Ecdsa.decompressPoint liftX
  rw [if_neg (show ¬ x ≥ P by omega)]
  simp only [EP, hx1, hc]
  generalize (x * x * x + B) % P = c
  have hy0 : sqrtCand c < P := sqrtCand_lt c
  generalize sqrtCand c = y0 at *
  have hneg := neg_sq_mod hy0
  by_cases hpar : (y0 % 2 == 1) = b
  · subst hpar
    simp
  · have h1 : (b != (y0 % 2 == 1)) = true := by
      cases b <;> cases hq : (y0 % 2 == 1) <;> simp_all
    have h2 : ((y0 % 2 == 1) == b) = false := by
      cases b <;> cases hq : (y0 % 2 == 1) <;> simp_all
    simp only [h1, h2, if_true, hneg, Bool.false_eq_true, if_false]
    cases b <;> cases ((P - y0) % P % 2 == 1) <;> simp


/-- `decompressPoint` is SEC1 point decompression: sound and complete. -/
theorem decompressPoint_iff {x : ℕ} (hx : x < P) (b : Bool) (y : ℕ) :
    Ecdsa.decompressPoint x b = some y ↔ y < P ∧ onCurve (x, y) = true ∧ (y % 2 == 1) = b := by
  rw [decompressPoint_eq_liftX hx, liftX_spec]
  constructor
  · rintro ⟨_, h⟩; exact h
  · intro h; exact ⟨hx, h⟩

theorem valid_of_onCurve {x y : ℕ} (hx : x < P) (hy : y < P) (hc : onCurve (x, y) = true) :
    valid (x, y) = true := by
  simp [valid, hx, hy, hc]

/-- SEC1 4.1.6 public key recovery: `Q = r⁻¹(s·R − e·G)` -/
def recoverPt (R : Pt) (h : Bytes) (r s : ℕ) : Pt :=
  padd (smul (invMod r N * s % N) R) (smul ((N - Ecdsa.hashToInt h % N) % N * invMod r N % N) G)

theorem recoverKey_eq {r s : ℕ} (hr1 : 1 ≤ r) (hrN : r < N) (hs1 : 1 ≤ s) (hsN : s < N)
    {iter : ℕ} (hrx : N * (iter / 2) + r < P) {ry : ℕ}
    (hd : Ecdsa.decompressPoint (N * (iter / 2) + r) (iter % 2 == 1) = some ry)
    (msg : Bytes) (chk : Bool) :
    Ecdsa.recoverKey r s msg iter chk =
      if recoverPt (N * (iter / 2) + r, ry) msg r s = inf then none
      else some (recoverPt (N * (iter / 2) + r, ry) msg r s) := by
  obtain ⟨hry, hcurve, _⟩ := (decompressPoint_iff hrx _ _).1 hd
  have hv := valid_of_onCurve hrx hry hcurve
  unfold Ecdsa.recoverKey
  simp only [EN, EP]
  rw [if_neg (by omega), if_neg (by omega), if_neg (by omega), if_neg (by omega), if_neg (by omega)]
  simp only [hd, scalarMult_natBE _ N_lt_pow, smul_N_pt hv, scalarMult_natBE _ (mod_N_lt_pow _),
    scalarBaseMult_natBE (mod_N_lt_pow _), Curve.add_def]
  have : isInf inf = true := rfl
  simp only [this, Bool.not_true, Bool.and_false, Bool.false_eq_true, if_false]
  unfold recoverPt
  generalize padd _ _ = X
  obtain ⟨x, y⟩ := X
  simp [inf]

theorem recoverKey_some {r s : ℕ} {msg : Bytes} {iter : ℕ} {chk : Bool} {q : Pt}
    (h : Ecdsa.recoverKey r s msg iter chk = some q) :
    1 ≤ r ∧ r < N ∧ 1 ≤ s ∧ s < N ∧ N * (iter / 2) + r < P ∧
      ∃ ry, Ecdsa.decompressPoint (N * (iter / 2) + r) (iter % 2 == 1) = some ry ∧
        q = recoverPt (N * (iter / 2) + r, ry) msg r s ∧ q ≠ inf := by
  have h' := h
  unfold Ecdsa.recoverKey at h
  simp only [EN, EP] at h
  by_cases c1 : r ≥ N
  · rw [if_pos c1] at h; cases h
  rw [if_neg c1] at h
  by_cases c2 : r = 0
  · rw [if_pos c2] at h; cases h
  rw [if_neg c2] at h
  by_cases c3 : s ≥ N
  · rw [if_pos c3] at h; cases h
  rw [if_neg c3] at h
  by_cases c4 : s = 0
  · rw [if_pos c4] at h; cases h
  rw [if_neg c4] at h
  by_cases c5 : N * (iter / 2) + r ≥ P
  · rw [if_pos c5] at h; cases h
  rw [if_neg c5] at h
  cases hd : Ecdsa.decompressPoint (N * (iter / 2) + r) (iter % 2 == 1) with
  | none => simp only [hd] at h; cases h
  | some ry =>
    rw [recoverKey_eq (by omega) (by omega) (by omega) (by omega) (by omega) hd] at h'
    refine ⟨by omega, by omega, by omega, by omega, by omega, ry, rfl, ?_⟩
    by_cases hq : recoverPt (N * (iter / 2) + r, ry) msg r s = inf
    · rw [if_pos hq] at h'; cases h'
    · rw [if_neg hq] at h'
      have := Option.some.inj h'
      exact ⟨this.symm, this ▸ hq⟩


theorem cast_neg_mod (e : ℕ) : ((N - e % N : ℕ) : Fn) = -(e : Fn) := by
  rw [Nat.cast_sub (Nat.mod_lt _ N_pos).le, ZMod.natCast_self, ZMod.natCast_mod,
    zero_sub]

theorem valid_recoverPt {R : Pt} (hR : valid R = true) (h : Bytes) (r s : ℕ) :
    valid (recoverPt R h r s) = true :=
  valid_padd (valid_smul _ hR) (valid_smul _ valid_G)

/-- the recovered key makes `(r,s)` verify: `(e/s)·G + (r/s)·r⁻¹(s·R − e·G) = R` -/
theorem verifyPt_recoverPt {R : Pt} (hR : valid R = true) (h : Bytes) {r s : ℕ}
    (hr1 : 1 ≤ r) (hrN : r < N) (hs1 : 1 ≤ s) (hsN : s < N) :
    verifyPt (recoverPt R h r s) h r s = R := by
  obtain ⟨t, htN, rfl⟩ := exists_mul_G_pt hR
  have hrF : (r : Fn) ≠ 0 := castN_ne_zero hr1 hrN
  have hsF : (s : Fn) ≠ 0 := castN_ne_zero hs1 hsN
  unfold verifyPt recoverPt
  rw [smul_smul _ _ valid_G, ← smul_add _ _ valid_G, smul_smul _ _ valid_G, ← smul_add _ _ valid_G]
  apply smul_eq_of_cast valid_G
  simp only [Nat.cast_add, Nat.cast_mul, ZMod.natCast_mod, cast_invModN, cast_neg_mod]
  field_simp
  ring


/-! ### RecoverCompact -/

theorem bitlen_eq : (Gen.c_BitSize + 7) / 8 = 32 := by decide

theorem recoverCompact_length_aux {sig : Bytes} (h : Bytes) (hl : sig.length ≠ 65) :
    Ecdsa.recoverCompact sig h = none := by
  unfold Ecdsa.recoverCompact
  simp only [bitlen_eq]
  rw [if_pos (by simpa using hl)]

/-- the recovery id encoded in the header byte -/
def compactIter (sig : Bytes) : ℕ := ((sig.headD 0 - 27) &&& (~~~ (4 : UInt8))).toNat
def compactFlag (sig : Bytes) : Bool := ((sig.headD 0 - 27) &&& 4) == 4
def compactR (sig : Bytes) : ℕ := beNat ((sig.drop 1).take 32)
def compactS (sig : Bytes) : ℕ := beNat (sig.drop 33)

theorem recoverCompact_some {sig h : Bytes} {q : Pt} {c : Bool}
    (hrc : Ecdsa.recoverCompact sig h = some (q, c)) :
    sig.length = 65 ∧ c = compactFlag sig ∧
      Ecdsa.recoverKey (compactR sig) (compactS sig) h (compactIter sig) false = some q := by
  unfold Ecdsa.recoverCompact at hrc
  simp only [bitlen_eq] at hrc
  by_cases hl : sig.length = 65
  · rw [if_neg (by simpa using hl)] at hrc
    refine ⟨hl, ?_⟩
    show c = compactFlag sig ∧ Ecdsa.recoverKey (beNat ((sig.drop 1).take 32)) (beNat (sig.drop (32 + 1))) h
      ((sig.headD 0 - 27) &&& (~~~ (4 : UInt8))).toNat false = some q
    cases hk : Ecdsa.recoverKey (beNat ((sig.drop 1).take 32)) (beNat (sig.drop (32 + 1))) h
      ((sig.headD 0 - 27) &&& (~~~ (4 : UInt8))).toNat false with
    | none => simp only [hk] at hrc; cases hrc
    | some q' =>
      simp only [hk] at hrc
      have := Option.some.inj hrc
      have h1 : q' = q := congrArg Prod.fst this
      have h2 : _ = c := congrArg Prod.snd this
      exact ⟨h2.symm, by rw [h1]⟩
  · rw [if_pos (by simpa using hl)] at hrc; cases hrc

theorem recoverKey_sound {r s : ℕ} {msg : Bytes} {iter : ℕ} {chk : Bool} {q : Pt}
    (h : Ecdsa.recoverKey r s msg iter chk = some q) :
    valid q = true ∧ q ≠ inf ∧ Ecdsa.verify q msg (r : Int) (s : Int) = true := by
  obtain ⟨hr1, hrN, hs1, hsN, hrx, ry, hd, hq, hne⟩ := recoverKey_some h
  obtain ⟨hry, hcurve, _⟩ := (decompressPoint_iff hrx _ _).1 hd
  have hv := valid_of_onCurve hrx hry hcurve
  refine ⟨by rw [hq]; exact valid_recoverPt hv _ _ _, hne, ?_⟩
  rw [verify_of_range _ _ (by omega) (by omega) (by omega) (by omega), Int.toNat_natCast,
    Int.toNat_natCast, hq, verifyPt_recoverPt hv msg hr1 hrN hs1 hsN]
  constructor
  · intro he
    have : N * (iter / 2) + r = 0 := congrArg Prod.fst he
    omega
  · show (N * (iter / 2) + r) % N = r
    rw [Nat.mul_add_mod, Nat.mod_eq_of_lt hrN]


/-! ### SignCompact -/

theorem pt_beq_iff (a b : Pt) : (a.1 == b.1 && a.2 == b.2) = true ↔ a = b := by
  obtain ⟨a1, a2⟩ := a
  obtain ⟨b1, b2⟩ := b
  simp

theorem compactLoop_some {r s : ℕ} {h : Bytes} {pub : Pt} {c : Bool} :
    ∀ (fuel i0 : ℕ) (out : Bytes), Ecdsa.compactLoop r s h pub c fuel i0 = some out →
      ∃ i, i0 ≤ i ∧ i < i0 + fuel ∧ Ecdsa.recoverKey r s h i true = some pub ∧
        out = [UInt8.ofNat (27 + i + (if c then 4 else 0))] ++ natBEpad 32 r ++ natBEpad 32 s := by
  intro fuel
  induction fuel with
  | zero => intro i0 out h; simp [Ecdsa.compactLoop] at h
  | succ f ih =>
    intro i0 out hc
    unfold Ecdsa.compactLoop at hc
    cases hk : Ecdsa.recoverKey r s h i0 true with
    | none =>
      simp only [hk] at hc
      obtain ⟨i, h1, h2, h3⟩ := ih _ _ hc
      exact ⟨i, by omega, by omega, h3⟩
    | some pk =>
      simp only [hk] at hc
      by_cases heq : (pk.1 == pub.1 && pk.2 == pub.2) = true
      · rw [if_pos heq] at hc
        have hpk : pk = pub := (pt_beq_iff _ _).1 heq
        exact ⟨i0, le_refl _, by omega, by rw [hk, hpk], (Option.some.inj hc).symm⟩
      · rw [if_neg heq] at hc
        obtain ⟨i, h1, h2, h3⟩ := ih _ _ hc
        exact ⟨i, by omega, by omega, h3⟩

theorem compactLoop_isSome {r s : ℕ} {h : Bytes} {pub : Pt} {c : Bool} :
    ∀ (fuel i0 i : ℕ), i0 ≤ i → i < i0 + fuel → Ecdsa.recoverKey r s h i true = some pub →
      (Ecdsa.compactLoop r s h pub c fuel i0).isSome = true := by
  intro fuel
  induction fuel with
  | zero => intro i0 i h1 h2; omega
  | succ f ih =>
    intro i0 i h1 h2 hi
    unfold Ecdsa.compactLoop
    cases hk : Ecdsa.recoverKey r s h i0 true with
    | none =>
      simp only
      have : i ≠ i0 := by rintro rfl; rw [hk] at hi; cases hi
      exact ih (i0 + 1) i (by omega) (by omega) hi
    | some pk =>
      simp only
      by_cases heq : (pk.1 == pub.1 && pk.2 == pub.2) = true
      · rw [if_pos heq]; rfl
      · rw [if_neg heq]
        have : i ≠ i0 := by
          rintro rfl
          rw [hk] at hi
          exact heq ((pt_beq_iff _ _).2 (Option.some.inj hi))
        exact ih (i0 + 1) i (by omega) (by omega) hi

theorem valid_ne_inf {R : Pt} (hR : valid R = true) (hne : R ≠ inf) :
    R.1 < P ∧ R.2 < P ∧ onCurve R = true := by
  have hi : isInf R = false := by
    cases hc : isInf R
    · rfl
    · exact absurd ((isInf_iff R).1 hc) hne
  have : (R.1 < P ∧ R.2 < P) ∧ onCurve R = true := by simpa [valid, hi] using hR
  exact ⟨this.1.1, this.1.2, this.2⟩

/-- some recovery id below 4 reconstructs `R` and hence returns the SEC1 key for it -/
theorem exists_recoverKey_of_point {R : Pt} (hR : valid R = true) (hne : R ≠ inf) {r s : ℕ}
    (hr1 : 1 ≤ r) (hrN : r < N) (hs1 : 1 ≤ s) (hsN : s < N) (hx : R.1 % N = r) (h : Bytes)
    (hq : recoverPt R h r s ≠ inf) :
    ∃ i, i < 4 ∧ Ecdsa.recoverKey r s h i true = some (recoverPt R h r s) := by
  obtain ⟨hxP, hyP, hcurve⟩ := valid_ne_inf hR hne
  obtain ⟨x, y⟩ := R
  simp only at hxP hyP hx
  have h2N := P_lt_two_N
  have hj : x / N < 2 := by
    rw [Nat.div_lt_iff_lt_mul N_pos]; omega
  have hxe : N * (x / N) + r = x := by rw [← hx]; exact Nat.div_add_mod x N
  refine ⟨2 * (x / N) + y % 2, by omega, ?_⟩
  have hi2 : (2 * (x / N) + y % 2) / 2 = x / N := by omega
  have hpar : ((2 * (x / N) + y % 2) % 2 == 1) = (y % 2 == 1) := by
    congr 1; omega
  have hd : Ecdsa.decompressPoint (N * ((2 * (x / N) + y % 2) / 2) + r)
      ((2 * (x / N) + y % 2) % 2 == 1) = some y := by
    rw [hi2, hxe, hpar, decompressPoint_iff hxP]
    exact ⟨hyP, hcurve, rfl⟩
  rw [recoverKey_eq hr1 hrN hs1 hsN (by rw [hi2, hxe]; exact hxP) hd, hi2, hxe, if_neg hq]


/-- `r⁻¹(s·(t·G) − e·G) = d·G` whenever `s·t = d·r + e` in the scalar field -/
theorem recoverPt_sign {d r s t : ℕ} (h : Bytes) (hr1 : 1 ≤ r) (hrN : r < N)
    (hst : (s : Fn) * (t : Fn) = (d : Fn) * r + (Ecdsa.hashToInt h : Fn)) :
    recoverPt (smul t G) h r s = smul d G := by
  have hrF : (r : Fn) ≠ 0 := castN_ne_zero hr1 hrN
  unfold recoverPt
  rw [smul_smul _ _ valid_G, ← smul_add _ _ valid_G]
  apply smul_eq_of_cast valid_G
  simp only [Nat.cast_add, Nat.cast_mul, ZMod.natCast_mod, cast_invModN, cast_neg_mod]
  rw [mul_assoc, hst]
  field_simp
  ring

/-- for a signature produced by `sign` with a private key in range, some recovery id `< 4`
recovers the signer's public key -/
theorem sign_recoverable {pr : Prims} {fuel d : ℕ} {h : Bytes} {r s : ℕ} (hd1 : 1 ≤ d) (hdN : d < N)
    (hs : Ecdsa.sign pr fuel d h = some (r, s)) :
    ∃ i, i < 4 ∧ Ecdsa.recoverKey r s h i true = some (smul d G) := by
  obtain ⟨hr1, hrN, hs1, hsN⟩ := sign_range_aux hs
  obtain ⟨k, _, hk1, hkN, hr, hr0, s0, hs0, hs0ne, hs⟩ := sign_some hs
  have hlt : s0 < N := by rw [hs0]; exact Nat.mod_lt _ N_pos
  have hkF : (k : Fn) ≠ 0 := castN_ne_zero hk1 hkN
  have hs0F : (s0 : Fn) * (k : Fn) = (d : Fn) * r + (Ecdsa.hashToInt h : Fn) := by
    rw [hs0, ZMod.natCast_mod, Nat.cast_mul, Nat.cast_add, Nat.cast_mul, cast_invModN,
      mul_assoc, inv_mul_cancel₀ hkF, mul_one]
  have hdne : smul d G ≠ inf := smul_G_ne_inf hd1 hdN
  have hkne : smul k G ≠ inf := smul_G_ne_inf hk1 hkN
  have hN2 : N / 2 < N := by have := N_pos; omega
  by_cases hflip : s0 > N / 2
  · rw [if_pos hflip] at hs
    -- R = −k·G = (N−k)·G
    have hR : smul (N - k) G = pneg (smul k G) := by
      apply smul_eq_pneg_of_cast valid_G
      rw [Nat.cast_sub hkN.le, ZMod.natCast_self, zero_sub]
    have hst : (s : Fn) * ((N - k : ℕ) : Fn) = (d : Fn) * r + (Ecdsa.hashToInt h : Fn) := by
      rw [hs, Nat.cast_sub hlt.le, Nat.cast_sub hkN.le, ZMod.natCast_self, zero_sub, zero_sub,
        neg_mul_neg, hs0F]
    have hrec := recoverPt_sign (d := d) h hr1 hrN hst
    have hv : valid (smul (N - k) G) = true := valid_smul _ valid_G
    have hne : smul (N - k) G ≠ inf := by
      rw [hR, Ne, pneg_eq_inf_iff (valid_smul _ valid_G)]; exact hkne
    have hx : (smul (N - k) G).1 % N = r := by rw [hR, pneg_fst, hr]
    obtain ⟨i, hi, hk⟩ := exists_recoverKey_of_point hv hne hr1 hrN hs1 (by omega) hx h
      (by rw [hrec]; exact hdne)
    exact ⟨i, hi, by rw [hk, hrec]⟩
  · rw [if_neg hflip] at hs
    have hst : (s : Fn) * (k : Fn) = (d : Fn) * r + (Ecdsa.hashToInt h : Fn) := by rw [hs, hs0F]
    have hrec := recoverPt_sign (d := d) h hr1 hrN hst
    obtain ⟨i, hi, hk⟩ := exists_recoverKey_of_point (valid_smul k valid_G) hkne hr1 hrN hs1
      (by omega) hr.symm h (by rw [hrec]; exact hdne)
    exact ⟨i, hi, by rw [hk, hrec]⟩

theorem compactFuel_eq : (Gen.c_H + 1) * 2 = 4 := by decide

theorem signCompact_total_aux {pr : Prims} {fuel d : ℕ} {h : Bytes} {r s : ℕ} (c : Bool)
    (hd1 : 1 ≤ d) (hdN : d < N) (hs : Ecdsa.sign pr fuel d h = some (r, s)) :
    (Ecdsa.signCompact pr fuel d (smul d G) h c).isSome = true := by
  obtain ⟨i, hi, hk⟩ := sign_recoverable hd1 hdN hs
  unfold Ecdsa.signCompact
  rw [hs]
  simp only [compactFuel_eq]
  exact compactLoop_isSome 4 0 i (Nat.zero_le _) (by omega) hk

theorem signCompact_some {pr : Prims} {fuel d : ℕ} {pub : Pt} {h : Bytes} {c : Bool} {out : Bytes}
    (hsc : Ecdsa.signCompact pr fuel d pub h c = some out) :
    ∃ r s i, Ecdsa.sign pr fuel d h = some (r, s) ∧ i < 4 ∧
      Ecdsa.recoverKey r s h i true = some pub ∧
      out = [UInt8.ofNat (27 + i + (if c then 4 else 0))] ++ natBEpad 32 r ++ natBEpad 32 s ∧
      out.length = 65 := by
  unfold Ecdsa.signCompact at hsc
  cases hs : Ecdsa.sign pr fuel d h with
  | none => simp only [hs] at hsc; cases hsc
  | some rs =>
    obtain ⟨r, s⟩ := rs
    simp only [hs, compactFuel_eq] at hsc
    obtain ⟨i, _, hi, hk, hout⟩ := compactLoop_some _ _ _ hsc
    obtain ⟨hr1, hrN, hs1, hsN⟩ := sign_range_aux hs
    have hr256 : r < 256 ^ 32 := by rw [pow256]; exact Nat.lt_trans hrN N_lt_pow
    have hs256 : s < 256 ^ 32 := by
      rw [pow256]; have := N_lt_pow; have := N_pos; omega
    refine ⟨r, s, i, rfl, by omega, hk, hout, ?_⟩
    rw [hout, List.length_append, List.length_append, natBEpad_length _ _ hr256,
      natBEpad_length _ _ hs256]
    rfl


theorem recoverKey_chk {r s : ℕ} {msg : Bytes} {i : ℕ} {q : Pt}
    (h : Ecdsa.recoverKey r s msg i true = some q) : Ecdsa.recoverKey r s msg i false = some q := by
  obtain ⟨hr1, hrN, hs1, hsN, hrx, ry, hd, hq, hne⟩ := recoverKey_some h
  rw [recoverKey_eq hr1 hrN hs1 hsN hrx hd, ← hq, if_neg hne]

theorem header_decode : ∀ (i : Fin 4) (c : Bool),
    (((UInt8.ofNat (27 + i.val + (if c then 4 else 0)) - 27) &&& (~~~ (4 : UInt8))).toNat = i.val) ∧
    ((((UInt8.ofNat (27 + i.val + (if c then 4 else 0)) - 27) &&& 4) == 4) = c) := by decide

theorem recoverCompact_eq {sig : Bytes} (hl : sig.length = 65) (h : Bytes) :
    Ecdsa.recoverCompact sig h =
      match Ecdsa.recoverKey (compactR sig) (compactS sig) h (compactIter sig) false with
      | none => none
      | some q => some (q, compactFlag sig) := by
  unfold Ecdsa.recoverCompact
  simp only [bitlen_eq]
  rw [if_neg (by simp [hl])]
  rfl

theorem recover_signCompact_aux {pr : Prims} {fuel d : ℕ} {pub : Pt} {h : Bytes} {c : Bool}
    {out : Bytes} (hsc : Ecdsa.signCompact pr fuel d pub h c = some out) :
    Ecdsa.recoverCompact out h = some (pub, c) := by
  obtain ⟨r, s, i, hs, hi, hk, hout, hlen⟩ := signCompact_some hsc
  obtain ⟨hr1, hrN, hs1, hsN⟩ := sign_range_aux hs
  have hr256 : r < 256 ^ 32 := by rw [pow256]; exact Nat.lt_trans hrN N_lt_pow
  have hcons : out = UInt8.ofNat (27 + i + (if c then 4 else 0)) :: (natBEpad 32 r ++ natBEpad 32 s) := by
    rw [hout]; simp
  have hR : compactR out = r := by
    unfold compactR
    rw [hcons, List.drop_succ_cons, List.drop_zero, take_natBEpad_append _ _ _ hr256, beNat_natBEpad]
  have hS : compactS out = s := by
    unfold compactS
    rw [hcons, List.drop_succ_cons, drop_natBEpad_append _ _ _ hr256, beNat_natBEpad]
  have hdec := header_decode ⟨i, hi⟩ c
  have hI : compactIter out = i := by
    unfold compactIter
    rw [hcons, List.headD_cons]; exact hdec.1
  have hF : compactFlag out = c := by
    unfold compactFlag
    rw [hcons, List.headD_cons]; exact hdec.2
  rw [recoverCompact_eq hlen, hR, hS, hI, hF, recoverKey_chk hk]


end GoBk.Proofs
