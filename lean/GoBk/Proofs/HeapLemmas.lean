import GoBk.Model.HeapFns
/-
  GoBk.Proofs.HeapLemmas — lemmas about the slice/heap model (C16).  Core Lean only.

  `Ext n h0 h`: heap `h` has at least `n` arrays and agrees with `h0` on every array below `n`
  (over the array's WHOLE length).  With `n = h0.size` this is "no pre-existing array was modified".
  Primitive operations preserve `Ext n h0` when they allocate, or when they write through a slice whose
  array index is `≥ n` (an array allocated after the snapshot `h0`).
-/
namespace GoBk
open GoBk Bytes

namespace Heap

structure Ext (n : Nat) (h0 h : Heap) : Prop where
  size_le : n ≤ h.size
  same : ∀ a, a < n → h.arrays[a]? = h0.arrays[a]?

theorem Ext.refl (h : Heap) : Ext h.size h h := ⟨Nat.le_refl _, fun _ _ => rfl⟩

theorem Ext.trans {n m : Nat} {h0 h1 h2 : Heap} (e1 : Ext n h0 h1) (e2 : Ext m h1 h2) (hnm : n ≤ m) :
    Ext n h0 h2 :=
  ⟨Nat.le_trans hnm e2.size_le, fun a ha => (e2.same a (Nat.lt_of_lt_of_le ha hnm)).trans (e1.same a ha)⟩

/-! #### raw operations -/

@[simp] theorem size_push (h : Heap) (l : Bytes) : (h.push l).size = h.size + 1 := by
  simp [push, size]

@[simp] theorem size_write (h : Heap) (a p : Nat) (bs : Bytes) : (h.write a p bs).size = h.size := by
  simp [write, size]

/-- a new array leaves every old array alone -/
theorem push_get (h : Heap) (l : Bytes) (a : Nat) (ha : a < h.size) :
    (h.push l).arrays[a]? = h.arrays[a]? := by
  simp only [push, size] at *
  rw [Array.getElem?_push]
  have : a ≠ h.arrays.size := Nat.ne_of_lt ha
  simp [this]

/-- a write into array `a` changes no other array -/
theorem write_get_ne (h : Heap) (a p : Nat) (bs : Bytes) (b : Nat) (hne : b ≠ a) :
    (h.write a p bs).arrays[b]? = h.arrays[b]? := by
  simp only [write]
  rw [Array.getElem?_modify]
  have : a ≠ b := fun e => hne e.symm
  simp [this]

theorem writeAt_nil (l : Bytes) (p : Nat) : writeAt l p [] = l := by
  simp [writeAt]

/-- writing zero bytes is the identity -/
theorem write_nil (h : Heap) (a p : Nat) : h.write a p [] = h := by
  cases h with
  | mk arrs =>
    simp only [write, Heap.mk.injEq]
    apply Array.ext_getElem?
    intro i
    rw [Array.getElem?_modify]
    by_cases hai : a = i
    · subst hai; simp [writeAt_nil]
    · simp [hai]

theorem Ext.push {n : Nat} {h0 h : Heap} (e : Ext n h0 h) (l : Bytes) : Ext n h0 (h.push l) :=
  ⟨by have := e.size_le; simp; omega,
   fun a ha => (push_get h l a (Nat.lt_of_lt_of_le ha e.size_le)).trans (e.same a ha)⟩

/-- a write through an array allocated after the snapshot cannot touch a pre-existing array -/
theorem Ext.write {n : Nat} {h0 h : Heap} (e : Ext n h0 h) {a : Nat} (hf : n ≤ a) (p : Nat) (bs : Bytes) :
    Ext n h0 (h.write a p bs) :=
  ⟨by simpa using e.size_le,
   fun b hb => (write_get_ne h a p bs b (by omega)).trans (e.same b hb)⟩

/-! #### Go-level operations: heap part -/

@[simp] theorem alloc_arr (h : Heap) (l c : Nat) : (h.alloc l c).val.arr = h.size := rfl
@[simp] theorem allocBytes_arr (h : Heap) (bs : Bytes) : (h.allocBytes bs).val.arr = h.size := rfl
@[simp] theorem reslice_arr (s : Slice) (i j : Nat) : (reslice s i j).arr = s.arr := rfl

theorem append_arr (h : Heap) (s : Slice) (bs : Bytes) :
    (h.append s bs).val.arr = s.arr ∨ (h.append s bs).val.arr = h.size := by
  unfold append; split <;> simp

theorem Ext.alloc {n : Nat} {h0 h : Heap} (e : Ext n h0 h) (l c : Nat) : Ext n h0 (h.alloc l c).heap :=
  e.push _

theorem Ext.allocBytes {n : Nat} {h0 h : Heap} (e : Ext n h0 h) (bs : Bytes) :
    Ext n h0 (h.allocBytes bs).heap := e.push _

theorem Ext.fresh_alloc {n : Nat} {h0 h : Heap} (e : Ext n h0 h) (l c : Nat) :
    n ≤ (h.alloc l c).val.arr := e.size_le

theorem Ext.fresh_allocBytes {n : Nat} {h0 h : Heap} (e : Ext n h0 h) (bs : Bytes) :
    n ≤ (h.allocBytes bs).val.arr := e.size_le

theorem Ext.append {n : Nat} {h0 h : Heap} (e : Ext n h0 h) {s : Slice} (hf : n ≤ s.arr) (bs : Bytes) :
    Ext n h0 (h.append s bs).heap := by
  unfold Heap.append; split
  · exact e.write hf _ _
  · exact e.push _

theorem Ext.fresh_append {n : Nat} {h0 h : Heap} (e : Ext n h0 h) {s : Slice} (hf : n ≤ s.arr) (bs : Bytes) :
    n ≤ (h.append s bs).val.arr := by
  rcases append_arr h s bs with h1 | h1 <;> rw [h1]
  · exact hf
  · exact e.size_le

/-- appending to a FULL slice (`len = cap`, e.g. the nil slice, or a caller's slice without spare
capacity) never writes in place, whatever array the slice points to -/
theorem Ext.append_full {n : Nat} {h0 h : Heap} (e : Ext n h0 h) {s : Slice} (hfull : s.cap ≤ s.len)
    (bs : Bytes) : Ext n h0 (h.append s bs).heap := by
  unfold Heap.append; split
  · have : bs = [] := by
      cases bs with
      | nil => rfl
      | cons b t => simp at *; omega
    subst this
    simp only [write_nil]
    exact e
  · exact e.push _

theorem Ext.fresh_append_full {n : Nat} {h0 h : Heap} (e : Ext n h0 h) {s : Slice} (hfull : s.cap ≤ s.len)
    {bs : Bytes} (hne : bs ≠ []) : n ≤ (h.append s bs).val.arr := by
  unfold Heap.append; split
  · cases bs with
    | nil => exact absurd rfl hne
    | cons b t => simp at *; omega
  · exact e.size_le

theorem Ext.copyInto {n : Nat} {h0 h : Heap} (e : Ext n h0 h) {dst : Slice} (hf : n ≤ dst.arr) (src : Bytes) :
    Ext n h0 (h.copyInto dst src).heap := e.write hf _ _

theorem Ext.store {n : Nat} {h0 h : Heap} (e : Ext n h0 h) {s : Slice} (hf : n ≤ s.arr) (i : Nat) (v : UInt8) :
    Ext n h0 (h.store s i v) := by
  unfold Heap.store; split
  · exact e.write hf _ _
  · exact e

theorem Ext.xorInto {n : Nat} {h0 h : Heap} (e : Ext n h0 h) {dst : Slice} (hf : n ≤ dst.arr) (src ks : Bytes) :
    Ext n h0 (h.xorInto dst src ks) := e.write hf _ _

theorem Ext.cryptBlocks {n : Nat} {h0 h : Heap} (e : Ext n h0 h) {dst : Slice} (hf : n ≤ dst.arr) (out : Bytes) :
    Ext n h0 (h.cryptBlocks dst out) := e.write hf _ _

/-! #### "changes no other array" (the generic per-operation frame facts) -/

theorem alloc_other (h : Heap) (l c a : Nat) (ha : a < h.size) :
    (h.alloc l c).heap.arrays[a]? = h.arrays[a]? := push_get h _ a ha

theorem allocBytes_other (h : Heap) (bs : Bytes) (a : Nat) (ha : a < h.size) :
    (h.allocBytes bs).heap.arrays[a]? = h.arrays[a]? := push_get h _ a ha

theorem append_other (h : Heap) (s : Slice) (bs : Bytes) (a : Nat) (ha : a < h.size) (hne : a ≠ s.arr) :
    (h.append s bs).heap.arrays[a]? = h.arrays[a]? := by
  unfold Heap.append; split
  · exact write_get_ne h _ _ _ a hne
  · exact push_get h _ a ha

theorem copyInto_other (h : Heap) (dst : Slice) (src : Bytes) (a : Nat) (hne : a ≠ dst.arr) :
    (h.copyInto dst src).heap.arrays[a]? = h.arrays[a]? := write_get_ne h _ _ _ a hne

theorem store_other (h : Heap) (s : Slice) (i : Nat) (v : UInt8) (a : Nat) (hne : a ≠ s.arr) :
    (h.store s i v).arrays[a]? = h.arrays[a]? := by
  unfold Heap.store; split
  · exact write_get_ne h _ _ _ a hne
  · rfl

theorem xorInto_other (h : Heap) (dst : Slice) (src ks : Bytes) (a : Nat) (hne : a ≠ dst.arr) :
    (h.xorInto dst src ks).arrays[a]? = h.arrays[a]? := write_get_ne h _ _ _ a hne

theorem cryptBlocks_other (h : Heap) (dst : Slice) (out : Bytes) (a : Nat) (hne : a ≠ dst.arr) :
    (h.cryptBlocks dst out).arrays[a]? = h.arrays[a]? := write_get_ne h _ _ _ a hne

/-! #### contents of arrays after raw operations -/

theorem get_eq (h : Heap) (a : Nat) : h.get a = (h.arrays[a]?).getD [] := by
  simp [get, Array.getD_eq_getD_getElem?]
theorem get_push_lt (h : Heap) (l : Bytes) (a : Nat) (ha : a < h.size) : (h.push l).get a = h.get a := by
  rw [get_eq, get_eq, push_get h l a ha]
theorem get_push_size (h : Heap) (l : Bytes) : (h.push l).get h.size = l := by
  simp [get_eq, push, size]
theorem get_write_ne (h : Heap) (a p : Nat) (bs : Bytes) (b : Nat) (hne : b ≠ a) :
    (h.write a p bs).get b = h.get b := by
  rw [get_eq, get_eq, write_get_ne h a p bs b hne]
theorem get_write_same (h : Heap) (a p : Nat) (bs : Bytes) (ha : a < h.size) :
    (h.write a p bs).get a = writeAt (h.get a) p bs := by
  simp only [get_eq, write, size] at *
  rw [Array.getElem?_modify]
  simp [ha]
theorem length_writeAt (l : Bytes) (p : Nat) (bs : Bytes) (hp : p + bs.length ≤ l.length) :
    (writeAt l p bs).length = l.length := by
  simp [writeAt]; omega
theorem window_writeAt (l : Bytes) (off len : Nat) (bs : Bytes) (hp : off + len ≤ l.length) :
    ((writeAt l (off + len) bs).drop off).take (len + bs.length) = (l.drop off).take len ++ bs := by
  have h1 : writeAt l (off + len) bs = l.take (off + len) ++ (bs ++ l.drop (off + len + bs.length)) := by
    simp [writeAt]
  have hA : (l.take (off + len)).drop off = (l.drop off).take len := by
    rw [List.drop_take]; congr 1; omega
  rw [h1, List.drop_append_of_le_length (by simp; omega), hA, ← List.append_assoc]
  exact List.take_left' (by simp; omega)

/-! #### contents: what a slice denotes after an operation -/

theorem length_read (h : Heap) (s : Slice) (wf : s.WF h) : (h.read s).length = s.len := by
  obtain ⟨_, h2, h3⟩ := wf
  simp [read]; omega

theorem read_reslice (h : Heap) (s : Slice) (i j : Nat) (hj : j ≤ s.len) :
    h.read (reslice s i j) = ((h.read s).drop i).take (j - i) := by
  simp only [read, reslice, List.drop_take, List.drop_drop, List.take_take]
  congr 1
  · omega

theorem read_push (h : Heap) (l : Bytes) (s : Slice) (hs : s.arr < h.size) : (h.push l).read s = h.read s := by
  simp only [read, get_push_lt h l s.arr hs]

theorem read_write_ne (h : Heap) (a p : Nat) (bs : Bytes) (s : Slice) (hne : s.arr ≠ a) :
    (h.write a p bs).read s = h.read s := by
  simp only [read, get_write_ne h a p bs s.arr hne]

theorem WF_push (h : Heap) (l : Bytes) (s : Slice) (wf : s.WF h) : s.WF (h.push l) := by
  obtain ⟨h1, h2, h3⟩ := wf
  refine ⟨by simp; omega, h2, ?_⟩
  rw [get_push_lt h l s.arr h1]; exact h3

theorem WF_write (h : Heap) (a p : Nat) (bs : Bytes) (s : Slice) (wf : s.WF h)
    (hp : p + bs.length ≤ (h.get a).length) : s.WF (h.write a p bs) := by
  obtain ⟨h1, h2, h3⟩ := wf
  refine ⟨by simpa using h1, h2, ?_⟩
  by_cases hne : s.arr = a
  · subst hne
    rw [get_write_same h _ p bs h1, length_writeAt _ _ _ hp]; exact h3
  · rw [get_write_ne h a p bs s.arr hne]; exact h3

theorem WF_alloc (h : Heap) (l c : Nat) (hlc : l ≤ c) : (h.alloc l c).val.WF (h.alloc l c).heap := by
  refine ⟨by simp [alloc], hlc, ?_⟩
  simp only [alloc, get_push_size]; simp

theorem read_alloc (h : Heap) (l c : Nat) (hlc : l ≤ c) :
    (h.alloc l c).heap.read (h.alloc l c).val = List.replicate l 0 := by
  simp only [alloc, read, get_push_size]
  simp [List.take_replicate, Nat.min_eq_left hlc]

theorem WF_allocBytes (h : Heap) (bs : Bytes) : (h.allocBytes bs).val.WF (h.allocBytes bs).heap := by
  refine ⟨by simp [allocBytes], Nat.le_refl _, ?_⟩
  simp only [allocBytes, get_push_size]; simp

theorem read_allocBytes (h : Heap) (bs : Bytes) : (h.allocBytes bs).heap.read (h.allocBytes bs).val = bs := by
  simp only [allocBytes, read, get_push_size]; simp

/-- `append` denotes concatenation, whether it wrote in place or re-allocated -/
theorem read_append (h : Heap) (s : Slice) (bs : Bytes) (wf : s.WF h) :
    (h.append s bs).heap.read (h.append s bs).val = h.read s ++ bs := by
  obtain ⟨h1, h2, h3⟩ := wf
  unfold Heap.append; split
  · simp only [read, get_write_same h _ _ bs h1]
    exact window_writeAt _ _ _ _ (by omega)
  · simp only [read, get_push_size, List.drop_zero]
    apply List.take_of_length_le
    simp; omega

theorem WF_append (h : Heap) (s : Slice) (bs : Bytes) (wf : s.WF h) :
    (h.append s bs).val.WF (h.append s bs).heap := by
  have wf' := wf
  obtain ⟨h1, h2, h3⟩ := wf
  unfold Heap.append; split
  · rename_i hc
    have := WF_write h s.arr (s.off + s.len) bs s wf' (by omega)
    exact ⟨this.1, hc, this.2.2⟩
  · refine ⟨by simp, Nat.le_refl _, ?_⟩
    have := length_read h s wf'
    simp only [get_push_size]; simp; omega

/-- an older slice `t` (e.g. an argument) living in a different array than the buffer `s` -/
theorem read_append_other (h : Heap) (s t : Slice) (bs : Bytes) (ht : t.arr < h.size) (hne : t.arr ≠ s.arr) :
    (h.append s bs).heap.read t = h.read t := by
  unfold Heap.append; split
  · exact read_write_ne h _ _ _ t hne
  · exact read_push h _ t ht

theorem WF_append_other (h : Heap) (s t : Slice) (bs : Bytes) (ws : s.WF h) (wt : t.WF h) :
    t.WF (h.append s bs).heap := by
  unfold Heap.append; split
  · exact WF_write h _ _ _ t wt (by have := ws.2.2; omega)
  · exact WF_push h _ t wt


/-- an argument slice `t` and a buffer `b` in different arrays, both well-formed -/
structure Sep (h : Heap) (t b : Slice) : Prop where
  twf : t.WF h
  bwf : b.WF h
  ne : t.arr ≠ b.arr

theorem read_alloc_arg (h : Heap) (l c : Nat) (t : Slice) (twf : t.WF h) :
    (h.alloc l c).heap.read t = h.read t := read_push h _ t twf.1

theorem read_allocBytes_arg (h : Heap) (bs : Bytes) (t : Slice) (twf : t.WF h) :
    (h.allocBytes bs).heap.read t = h.read t := read_push h _ t twf.1

theorem Sep.alloc {h : Heap} {t : Slice} (twf : t.WF h) {l c : Nat} (hlc : l ≤ c) :
    Sep (h.alloc l c).heap t (h.alloc l c).val :=
  ⟨WF_push h _ t twf, WF_alloc h l c hlc, by have := twf.1; simp; omega⟩

theorem Sep.append {h : Heap} {t b : Slice} (sp : Sep h t b) (bs : Bytes) :
    Sep (h.append b bs).heap t (h.append b bs).val := by
  refine ⟨WF_append_other h b t bs sp.bwf sp.twf, WF_append h b bs sp.bwf, ?_⟩
  rcases append_arr h b bs with h1 | h1 <;> rw [h1]
  · exact sp.ne
  · have := sp.twf.1; omega

theorem Sep.read_arg {h : Heap} {t b : Slice} (sp : Sep h t b) (bs : Bytes) :
    (h.append b bs).heap.read t = h.read t := read_append_other h b t bs sp.twf.1 sp.ne

theorem Sep.read_buf {h : Heap} {t b : Slice} (sp : Sep h t b) (bs : Bytes) :
    (h.append b bs).heap.read (h.append b bs).val = h.read b ++ bs := read_append h b bs sp.bwf

theorem xorBytes_cancel : ∀ (a b : Bytes), a.length = b.length → xorBytes a (xorBytes a b) = b
  | [], [], _ => rfl
  | [], _ :: _, h => by simp at h
  | _ :: _, [], h => by simp at h
  | x :: a, y :: b, h => by
    have ih := xorBytes_cancel a b (by simpa using h)
    simp only [xorBytes, List.zipWith_cons_cons] at *
    rw [ih, ← UInt8.xor_assoc, UInt8.xor_self, UInt8.zero_xor]

/-- a full overwrite of a fresh zeroed buffer by `out` of the buffer's length reads back as `out` -/
theorem read_write_fresh (h : Heap) (n : Nat) (out : Bytes) (hn : out.length = n) :
    ((h.alloc n n).heap.write (h.alloc n n).val.arr (h.alloc n n).val.off out).read (h.alloc n n).val = out := by
  have hsz : h.size < (h.alloc n n).heap.size := by simp [alloc]
  simp only [read, alloc_arr, get_write_same _ _ _ _ hsz]
  simp only [alloc, get_push_size, writeAt]
  subst hn
  simp

theorem WF_alloc_other (h : Heap) (l c : Nat) (s : Slice) (wf : s.WF h) : s.WF (h.alloc l c).heap :=
  WF_push h _ s wf

theorem WF_allocBytes_other (h : Heap) (bs : Bytes) (s : Slice) (wf : s.WF h) : s.WF (h.allocBytes bs).heap :=
  WF_push h _ s wf

@[simp] theorem size_alloc (h : Heap) (l c : Nat) : (h.alloc l c).heap.size = h.size + 1 := size_push h _
@[simp] theorem size_allocBytes (h : Heap) (bs : Bytes) : (h.allocBytes bs).heap.size = h.size + 1 := size_push h _

theorem read_alloc_of_lt (h : Heap) (l c : Nat) (t : Slice) (ht : t.arr < h.size) :
    (h.alloc l c).heap.read t = h.read t := read_push h _ t ht

theorem xorInto_eq (h : Heap) (dst : Slice) (src ks : Bytes) :
    h.xorInto dst src ks = h.write dst.arr dst.off (xorBytes src ks) := rfl

/-- a heap that kept all arrays of `h` denotes the same bytes for every slice of `h` -/
theorem Ext.read {h h' : Heap} (e : Ext h.size h h') (s : Slice) (hs : s.arr < h.size) :
    h'.read s = h.read s := by
  simp only [Heap.read, get_eq, e.same s.arr hs]

theorem Ext.WF {h h' : Heap} (e : Ext h.size h h') (s : Slice) (wf : s.WF h) : s.WF h' := by
  obtain ⟨h1, h2, h3⟩ := wf
  refine ⟨Nat.lt_of_lt_of_le h1 e.size_le, h2, ?_⟩
  simp only [get_eq, e.same s.arr h1] at *
  exact h3

theorem append_heap_of_fits (h : Heap) (s : Slice) (bs : Bytes) (hc : s.len + bs.length ≤ s.cap) :
    (h.append s bs).heap = h.write s.arr (s.off + s.len) bs := by
  unfold Heap.append; rw [if_pos hc]

theorem drop_writeAt (l : Bytes) (p : Nat) (bs : Bytes) (hp : p ≤ l.length) :
    (writeAt l p bs).drop p = bs ++ l.drop (p + bs.length) := by
  simp [writeAt, Nat.min_eq_left hp]

end Heap

/-- discharge `Ext n h0 (…)` and `n ≤ (…).arr` goals for straight-line heap code -/
macro "heap_frame" : tactic =>
  `(tactic| repeat' (first
      | assumption
      | exact Heap.Ext.refl _
      | apply Heap.Ext.alloc
      | apply Heap.Ext.allocBytes
      | apply Heap.Ext.append
      | apply Heap.Ext.copyInto
      | apply Heap.Ext.store
      | apply Heap.Ext.xorInto
      | apply Heap.Ext.cryptBlocks
      | apply Heap.Ext.fresh_alloc
      | apply Heap.Ext.fresh_allocBytes
      | apply Heap.Ext.fresh_append
      | split))

namespace HeapFns
open Heap

-- keep the unifier from unfolding the primitives while it matches goals against the `Ext` lemmas
attribute [local irreducible] Heap.alloc Heap.allocBytes Heap.append Heap.copyInto Heap.store
  Heap.xorInto Heap.cryptBlocks Heap.write Heap.push Heap.read Heap.readAt

/-! ### `Ext`-preservation of every modelled function (composable form) -/

theorem addPKCSPadding_ext {n : Nat} {h0 h : Heap} (e : Ext n h0 h) (src : Slice) :
    Ext n h0 (addPKCSPadding h src).heap := by
  simp only [addPKCSPadding]
  heap_frame

theorem removePKCSPadding_ext {n : Nat} {h0 h : Heap} (e : Ext n h0 h) (src : Slice) :
    Ext n h0 (removePKCSPadding h src).heap := by
  simp only [removePKCSPadding]
  heap_frame

theorem encrypt_ext {n : Nat} {h0 h : Heap} (e : Ext n h0 h) (pr : Prims) (pub : Spec.Pt) (inp : Slice)
    (t : Rng.Tape) : Ext n h0 (encrypt pr h pub inp t).heap := by
  have ep := addPKCSPadding_ext e inp
  simp only [encrypt, encryptWith]
  heap_frame

theorem decrypt_ext {n : Nat} {h0 h : Heap} (e : Ext n h0 h) (pr : Prims) (d : Nat) (inp : Slice) :
    Ext n h0 (decrypt pr h d inp).heap := by
  simp only [decrypt]
  repeat' (first | apply removePKCSPadding_ext | heap_frame)

theorem mnemonicEntropy_ext {n : Nat} {h0 h : Heap} (e : Ext n h0 h) (pr : Prims) (entropy : Slice) :
    Ext n h0 (mnemonicEntropy pr h entropy).heap := by
  simp only [mnemonicEntropy]
  heap_frame

theorem mnemonic_ext {n : Nat} {h0 h : Heap} (e : Ext n h0 h) (pr : Prims) (entropy : Slice) (pass : Bytes) :
    Ext n h0 (mnemonic pr h entropy pass).heap := by
  have e1 := mnemonicEntropy_ext e pr entropy
  simp only [mnemonic, mnemonicWith, Bool.false_eq_true, if_false]
  split <;> exact e1

theorem cryptoDecrypt_ext {n : Nat} {h0 h : Heap} (e : Ext n h0 h) (pr : Prims) (key : Bytes) (ct : Slice) :
    Ext n h0 (cryptoDecrypt pr h key ct).heap := by
  simp only [cryptoDecrypt]
  heap_frame

theorem cryptoEncrypt_ext {n : Nat} {h0 h : Heap} (e : Ext n h0 h) (pr : Prims) (key : Bytes) (text : Slice)
    (t : Rng.Tape) : Ext n h0 (cryptoEncrypt pr h key text t).heap := by
  simp only [cryptoEncrypt]
  heap_frame

theorem checkEncode_ext {n : Nat} {h0 h : Heap} (e : Ext n h0 h) (pr : Prims) (input : Slice) (v : UInt8) :
    Ext n h0 (checkEncode pr h input v).heap := by
  simp only [checkEncode]
  heap_frame

theorem checkDecode_ext {n : Nat} {h0 h : Heap} (e : Ext n h0 h) (pr : Prims) (input : Bytes) :
    Ext n h0 (checkDecode pr h input).heap := by
  simp only [checkDecode]
  split
  · exact e.allocBytes _
  · split
    · exact e.allocBytes _
    · exact (e.allocBytes _).append_full (by simp [Slice.nil]) _

theorem appendZeros_ext {n : Nat} {h0 : Heap} (k : Nat) : ∀ {h : Heap} {dst : Slice}, Ext n h0 h → n ≤ dst.arr →
    Ext n h0 (appendZeros h dst k).heap ∧ n ≤ (appendZeros h dst k).val.arr := by
  induction k with
  | zero => intro h dst e hf; exact ⟨e, hf⟩
  | succ k ih =>
    intro h dst e hf
    simp only [appendZeros]
    exact ih (e.append hf _) (e.fresh_append hf _)

theorem paddedAppend_ext {n : Nat} {h0 h : Heap} (e : Ext n h0 h) {dst : Slice} (hf : n ≤ dst.arr)
    (size : Nat) (src : Slice) : Ext n h0 (paddedAppend h size dst src).heap := by
  have := appendZeros_ext (size - src.len) e hf
  simp only [paddedAppend]
  exact this.1.append this.2 _

theorem paddedAppend_fresh {n : Nat} {h0 h : Heap} (e : Ext n h0 h) {dst : Slice} (hf : n ≤ dst.arr)
    (size : Nat) (src : Slice) : n ≤ (paddedAppend h size dst src).val.arr := by
  have := appendZeros_ext (size - src.len) e hf
  simp only [paddedAppend]
  exact this.1.fresh_append this.2 _

/-- `paddedAppend` changes no array other than `dst`'s -/
theorem appendZeros_other (k : Nat) : ∀ (h : Heap) (dst : Slice) (a : Nat), a < h.size → a ≠ dst.arr →
    (appendZeros h dst k).heap.arrays[a]? = h.arrays[a]? ∧ a < (appendZeros h dst k).heap.size ∧
      a ≠ (appendZeros h dst k).val.arr := by
  induction k with
  | zero => intro h dst a ha hne; exact ⟨rfl, ha, hne⟩
  | succ k ih =>
    intro h dst a ha hne
    simp only [appendZeros]
    have hsz : a < (h.append dst [0]).heap.size := by
      unfold Heap.append; split <;> simp <;> omega
    have hne' : a ≠ (h.append dst [0]).val.arr := by
      rcases append_arr h dst [0] with h1 | h1 <;> rw [h1] <;> omega
    have := ih _ _ a hsz hne'
    exact ⟨this.1.trans (append_other h dst _ a ha hne), this.2⟩

theorem paddedAppend_other (h : Heap) (size : Nat) (dst src : Slice) (a : Nat) (ha : a < h.size)
    (hne : a ≠ dst.arr) : (paddedAppend h size dst src).heap.arrays[a]? = h.arrays[a]? := by
  have := appendZeros_other (size - src.len) h dst a ha hne
  simp only [paddedAppend]
  exact (append_other _ _ _ a this.2.1 this.2.2).trans this.1

/-- `b = paddedAppend(32, b, v.Bytes())` with the big integer's fresh byte slice -/
theorem paddedAppendBytes_ext {n : Nat} {h0 h : Heap} (e : Ext n h0 h) {dst : Slice} (hf : n ≤ dst.arr)
    (size : Nat) (bs : Bytes) :
    Ext n h0 (paddedAppend (h.allocBytes bs).heap size dst (h.allocBytes bs).val).heap ∧
      n ≤ (paddedAppend (h.allocBytes bs).heap size dst (h.allocBytes bs).val).val.arr :=
  ⟨paddedAppend_ext (e.allocBytes bs) hf size _, paddedAppend_fresh (e.allocBytes bs) hf size _⟩

theorem serialiseXY_ext {n : Nat} {h0 h : Heap} (e : Ext n h0 h) (format : UInt8) (q : Spec.Pt) :
    Ext n h0 (serialiseXY h format q).heap ∧ n ≤ (serialiseXY h format q).val.arr := by
  simp only [serialiseXY]
  have e1 : Ext n h0 ((h.alloc 0 65).heap.append (h.alloc 0 65).val [format]).heap := by heap_frame
  have f1 : n ≤ ((h.alloc 0 65).heap.append (h.alloc 0 65).val [format]).val.arr := by heap_frame
  have p2 := paddedAppendBytes_ext e1 f1 32 (natBE q.1)
  exact paddedAppendBytes_ext p2.1 p2.2 32 (natBE q.2)

theorem serialiseUncompressed_ext {n : Nat} {h0 h : Heap} (e : Ext n h0 h) (q : Spec.Pt) :
    Ext n h0 (serialiseUncompressed h q).heap := (serialiseXY_ext e _ q).1

theorem serialiseHybrid_ext {n : Nat} {h0 h : Heap} (e : Ext n h0 h) (q : Spec.Pt) :
    Ext n h0 (serialiseHybrid h q).heap := (serialiseXY_ext e _ q).1

theorem serialiseCompressed_ext {n : Nat} {h0 h : Heap} (e : Ext n h0 h) (q : Spec.Pt) :
    Ext n h0 (serialiseCompressed h q).heap ∧ n ≤ (serialiseCompressed h q).val.arr := by
  simp only [serialiseCompressed]
  generalize (if q.2 % 2 == 1 then (0x03 : UInt8) else 0x02) = fmt
  have e1 : Ext n h0 ((h.alloc 0 33).heap.append (h.alloc 0 33).val [fmt]).heap := by heap_frame
  have f1 : n ≤ ((h.alloc 0 33).heap.append (h.alloc 0 33).val [fmt]).val.arr := by heap_frame
  exact ⟨paddedAppend_ext (e1.allocBytes _) f1 32 _, paddedAppend_fresh (e1.allocBytes _) f1 32 _⟩

theorem privSerialise_ext {n : Nat} {h0 h : Heap} (e : Ext n h0 h) (d : Nat) :
    Ext n h0 (privSerialise h d).heap := by
  simp only [privSerialise]
  exact paddedAppend_ext ((e.alloc 0 32).allocBytes _) (e.fresh_alloc 0 32) 32 _

theorem wifString_ext {n : Nat} {h0 h : Heap} (e : Ext n h0 h) (pr : Prims) (d : Nat) (compress : Bool)
    (netID : UInt8) : Ext n h0 (wifString pr h d compress netID).heap := by
  simp only [wifString]
  generalize (1 + 32 + 4 + (if compress then 1 else 0)) = len
  have e1 : Ext n h0 ((h.alloc 0 len).heap.append (h.alloc 0 len).val [netID]).heap := by heap_frame
  have f1 : n ≤ ((h.alloc 0 len).heap.append (h.alloc 0 len).val [netID]).val.arr := by heap_frame
  have p2 := paddedAppendBytes_ext e1 f1 32 (natBE d)
  apply Ext.append
  · split
    · exact p2.1.append p2.2 _
    · exact p2.1
  · split
    · exact p2.1.fresh_append p2.2 _
    · exact p2.2

theorem pubKeyBytes_ext {n : Nat} {h0 h : Heap} (e : Ext n h0 h) (k : XKeyH) :
    Ext n h0 (pubKeyBytes h k).heap := by
  simp only [pubKeyBytes]
  split
  · exact e
  · exact (serialiseCompressed_ext e _).1

theorem xkeyString_ext {n : Nat} {h0 h : Heap} (e : Ext n h0 h) (pr : Prims) (k : XKeyH) :
    Ext n h0 (xkeyString pr h k).heap := by
  simp only [xkeyString]
  split
  · exact e
  · -- r5: five appends into the function's own buffer
    generalize hr5 : Heap.append _ _ (Heap.read _ k.chainCode) = r5
    have e5 : Ext n h0 r5.heap ∧ n ≤ r5.val.arr := by
      subst hr5; constructor <;> heap_frame
    apply Ext.append
    · split
      · exact paddedAppend_ext (e5.1.append e5.2 _) (e5.1.fresh_append e5.2 _) 32 _
      · exact (pubKeyBytes_ext e5.1 k).append e5.2 _
    · split
      · exact paddedAppend_fresh (e5.1.append e5.2 _) (e5.1.fresh_append e5.2 _) 32 _
      · exact (pubKeyBytes_ext e5.1 k).fresh_append e5.2 _

theorem xkeyAddress_ext {n : Nat} {h0 h : Heap} (e : Ext n h0 h) (pr : Prims) (k : XKeyH) (addrID : UInt8) :
    Ext n h0 (xkeyAddress pr h k addrID).heap := by
  have ep := pubKeyBytes_ext e k
  simp only [xkeyAddress]
  heap_frame

theorem childData_ext {n : Nat} {h0 h : Heap} (e : Ext n h0 h) (k : XKeyH) (i : Nat) :
    Ext n h0 (childData h k i).heap := by
  simp only [childData]
  apply Ext.copyInto
  · split
    · heap_frame
    · exact (pubKeyBytes_ext (e.alloc (33 + 4) (33 + 4)) k).copyInto (e.fresh_alloc (33 + 4) (33 + 4)) _
  · exact e.fresh_alloc (33 + 4) (33 + 4)

theorem childHmac_ext {n : Nat} {h0 h : Heap} (e : Ext n h0 h) (pr : Prims) (k : XKeyH) (i : Nat) :
    Ext n h0 (childHmac pr h k i).heap := by
  simp only [childHmac]
  split
  · exact e
  · split
    · exact e
    · exact childData_ext e k i

theorem sigSerialise_ext {n : Nat} {h0 h : Heap} (e : Ext n h0 h) (r s : Nat) :
    Ext n h0 (sigSerialise h r s).heap := by
  simp only [sigSerialise]
  heap_frame

theorem hashToInt_ext {n : Nat} {h0 h : Heap} (e : Ext n h0 h) (hash : Slice) :
    Ext n h0 (hashToInt h hash).heap := e

theorem compactResult_ext {n : Nat} {h0 h : Heap} (e : Ext n h0 h) (r s i : Nat) (c : Bool) :
    Ext n h0 (compactResult h r s i c).heap := by
  simp only [compactResult]
  heap_frame

theorem compactLoopH_ext {n : Nat} {h0 h : Heap} (e : Ext n h0 h) (r s : Nat) (hash : Slice) (pub : Spec.Pt)
    (c : Bool) (fuel : Nat) : ∀ i, Ext n h0 (compactLoopH h r s hash pub c fuel i).heap := by
  induction fuel with
  | zero => intro i; exact e
  | succ fuel ih =>
    intro i
    simp only [compactLoopH]
    split
    · split
      · exact compactResult_ext e _ _ _ _
      · exact ih _
    · exact ih _

theorem signCompact_ext {n : Nat} {h0 h : Heap} (e : Ext n h0 h) (pr : Prims) (fuel d : Nat) (pub : Spec.Pt)
    (hash : Slice) (c : Bool) : Ext n h0 (signCompact pr fuel h d pub hash c).heap := by
  simp only [signCompact]
  split
  · exact e
  · exact compactLoopH_ext e _ _ _ _ _ _ _

theorem nafBit_ext {n : Nat} {h0 : Heap} {retPos retNeg : Slice} (hp : n ≤ retPos.arr) (hn : n ≤ retNeg.arr)
    (k : Slice) (i : Nat) (st : NafSt) (e : Ext n h0 st.heap) (j : Nat) :
    Ext n h0 (nafBit retPos retNeg k i st j).heap := by
  simp only [nafBit]
  heap_frame

theorem foldl_nafBit_ext {n : Nat} {h0 : Heap} {retPos retNeg : Slice} (hp : n ≤ retPos.arr)
    (hn : n ≤ retNeg.arr) (k : Slice) (i : Nat) (l : List Nat) :
    ∀ st : NafSt, Ext n h0 st.heap → Ext n h0 (l.foldl (nafBit retPos retNeg k i) st).heap := by
  induction l with
  | nil => intro st e; exact e
  | cons j l ih => intro st e; exact ih _ (nafBit_ext hp hn k i st e j)

theorem nafLoop_ext {n : Nat} {h0 : Heap} {retPos retNeg : Slice} (hp : n ≤ retPos.arr) (hn : n ≤ retNeg.arr)
    (k : Slice) (i : Nat) : ∀ (h : Heap) (carry : Bool), Ext n h0 h →
      Ext n h0 (nafLoop retPos retNeg k i h carry).1 := by
  induction i with
  | zero => intro h c e; exact e
  | succ i ih =>
    intro h c e
    simp only [nafLoop]
    exact ih _ _ (foldl_nafBit_ext hp hn k i _ _ e)

theorem naf_ext {n : Nat} {h0 h : Heap} (e : Ext n h0 h) (k : Slice) : Ext n h0 (naf h k).heap := by
  have e2 : Ext n h0 ((h.alloc (k.len + 1) (k.len + 1)).heap.alloc (k.len + 1) (k.len + 1)).heap := by heap_frame
  have hp : n ≤ (h.alloc (k.len + 1) (k.len + 1)).val.arr := e.fresh_alloc _ _
  have hn : n ≤ ((h.alloc (k.len + 1) (k.len + 1)).heap.alloc (k.len + 1) (k.len + 1)).val.arr := by heap_frame
  have := nafLoop_ext hp hn k k.len _ false e2
  simp only [naf]
  split
  · exact this.store hp 0 1
  · exact this

theorem readOnly_ext {n : Nat} {h0 h : Heap} (e : Ext n h0 h) {α : Type} (f : Bytes → α) (s : Slice) :
    Ext n h0 (readOnly f h s).heap := e

/-! ### value theorems: the heap-level models compute the value-level models -/

theorem addPKCSPadding_value (h : Heap) (src : Slice) (wf : src.WF h) :
    (addPKCSPadding h src).heap.read (addPKCSPadding h src).val = Ecies.addPKCSPadding (h.read src) := by
  have hl := length_read h src wf
  have s0 := Sep.alloc (h := h) wf (Nat.zero_le (src.len + (16 - src.len % 16)))
  have s1 := s0.append ((h.alloc 0 (src.len + (16 - src.len % 16))).heap.read src)
  simp only [addPKCSPadding, Ecies.addPKCSPadding]
  rw [s1.read_buf, s0.read_buf, read_alloc _ _ _ (Nat.zero_le _), read_alloc_arg _ _ _ _ wf, hl]
  simp

theorem mnemonicEntropy_value (pr : Prims) (h : Heap) (e : Slice) (wf : e.WF h) :
    (mnemonicEntropy pr h e).val.map (mnemonicEntropy pr h e).heap.read =
      (let ent := (h.read e).length * 8
       if ent % 32 != 0 || ent < 128 || ent > 256 then none
       else some (h.read e ++ [(pr.sha256 (h.read e)).headD 0])) := by
  have hl := length_read h e wf
  have s0 := Sep.alloc (h := h) wf (Nat.zero_le (e.len + 1))
  have s1 := s0.append ((h.alloc 0 (e.len + 1)).heap.read e)
  simp only [mnemonicEntropy, hl]
  split
  · rfl
  · simp only [Option.map_some]
    rw [s1.read_buf, s0.read_buf, s0.read_arg, read_alloc _ _ _ (Nat.zero_le _), read_alloc_arg _ _ _ _ wf]
    simp

theorem mnemonic_value (pr : Prims) (h : Heap) (e : Slice) (pass : Bytes) (wf : e.WF h) :
    (mnemonic pr h e pass).val = Bip39.mnemonic pr (h.read e) pass := by
  have hv := mnemonicEntropy_value pr h e wf
  have hl := length_read h e wf
  simp only [mnemonic, mnemonicWith, Bool.false_eq_true, if_false, Bip39.mnemonic, hl] at *
  split at hv
  · rename_i hc
    simp only [hc, if_true]
    cases hm : (mnemonicEntropy pr h e).val with
    | none => rfl
    | some x => rw [hm] at hv; simp at hv
  · rename_i hc
    simp only [hc]
    cases hm : (mnemonicEntropy pr h e).val with
    | none => rw [hm] at hv; simp at hv
    | some x =>
      rw [hm] at hv
      simp only [Option.map_some, Option.some.injEq] at hv
      simp [hv, sentenceOf]

theorem cryptoDecrypt_value (pr : Prims) (hlen : ∀ k iv d, (pr.cfbDec k iv d).length = d.length)
    (h : Heap) (key : Bytes) (ct : Slice) (wf : ct.WF h) :
    (cryptoDecrypt pr h key ct).val = Ecies.cfbDecrypt pr key (h.read ct) := by
  have hl := length_read h ct wf
  simp only [cryptoDecrypt, Ecies.cfbDecrypt, hl]
  split
  · rfl
  · rename_i hc
    have h16 : 16 ≤ ct.len := by omega
    have hiv : h.read (reslice ct 0 16) = (h.read ct).take 16 := by
      rw [read_reslice h ct 0 16 h16]; simp
    have hsrc : h.read (reslice ct 16 ct.len) = (h.read ct).drop 16 := by
      rw [read_reslice h ct 16 ct.len (Nat.le_refl _)]
      apply List.take_of_length_le; simp [hl]
    have hsl : ((h.read ct).drop 16).length = ct.len - 16 := by simp [hl]
    rw [read_alloc_of_lt _ _ _ _ (by exact wf.1), hiv, hsrc, xorInto_eq, cfbDecStream,
      xorBytes_cancel _ _ ((hlen _ _ _).symm), read_write_fresh _ _ _ ((hlen _ _ _).trans hsl)]

theorem appendZeros_value (k : Nat) : ∀ (h : Heap) (dst src : Slice), Sep h src dst →
    Sep (appendZeros h dst k).heap src (appendZeros h dst k).val ∧
    (appendZeros h dst k).heap.read (appendZeros h dst k).val = h.read dst ++ List.replicate k 0 ∧
    (appendZeros h dst k).heap.read src = h.read src := by
  induction k with
  | zero => intro h dst src sp; exact ⟨sp, by simp [appendZeros], rfl⟩
  | succ k ih =>
    intro h dst src sp
    simp only [appendZeros]
    obtain ⟨a, b, c⟩ := ih _ _ src (sp.append [0])
    refine ⟨a, ?_, ?_⟩
    · rw [b, sp.read_buf, List.append_assoc]; rfl
    · rw [c, sp.read_arg]

/-- `paddedAppend` denotes `dst ‖ 0…0 ‖ src` with the value-level `padLeft` -/
theorem paddedAppend_value (h : Heap) (size : Nat) (dst src : Slice) (sp : Sep h src dst) :
    (paddedAppend h size dst src).heap.read (paddedAppend h size dst src).val =
      h.read dst ++ padLeft size (h.read src) := by
  obtain ⟨a, b, c⟩ := appendZeros_value (size - src.len) h dst src sp
  simp only [paddedAppend]
  rw [a.read_buf, b, c, padLeft, length_read h src sp.twf, List.append_assoc]

theorem privSerialise_value (h : Heap) (d : Nat) :
    (privSerialise h d).heap.read (privSerialise h d).val = Ecdsa.privSerialise d := by
  have sp : Sep ((h.alloc 0 32).heap.allocBytes (natBE d)).heap ((h.alloc 0 32).heap.allocBytes (natBE d)).val
      (h.alloc 0 32).val :=
    ⟨WF_allocBytes _ _, WF_allocBytes_other _ _ _ (WF_alloc h 0 32 (Nat.zero_le _)), by simp⟩
  simp only [privSerialise, Ecdsa.privSerialise, natBEpad]
  rw [paddedAppend_value _ _ _ _ sp, read_allocBytes, read_allocBytes_arg _ _ _ (WF_alloc h 0 32 (Nat.zero_le _)),
    read_alloc _ _ _ (Nat.zero_le _)]
  simp

theorem checkEncode_value (pr : Prims) (h : Heap) (input : Slice) (v : UInt8) (wf : input.WF h) :
    (checkEncode pr h input v).val = Base58.checkEncode pr (h.read input) v := by
  have s0 := Sep.alloc (h := h) wf (Nat.zero_le (1 + input.len + 4))
  have s1 := s0.append [v]
  have s2 := s1.append (((h.alloc 0 (1 + input.len + 4)).heap.append (h.alloc 0 (1 + input.len + 4)).val [v]).heap.read input)
  simp only [checkEncode, Base58.checkEncode]
  rw [s2.read_buf, s1.read_buf, s0.read_buf, s0.read_arg, read_alloc _ _ _ (Nat.zero_le _),
    read_alloc_arg _ _ _ _ wf]
  simp

end HeapFns

namespace HeapFns
open Heap

/-! ### what the pre-fix code wrote into the caller's array -/

theorem addPKCSPadding_old_writes (h : Heap) (src : Slice) (wf : src.WF h)
    (hsp : 16 - src.len % 16 ≤ src.cap - src.len) :
    (addPKCSPadding_old h src).heap.get src.arr =
      writeAt (h.get src.arr) (src.off + src.len)
        (List.replicate (16 - src.len % 16) (UInt8.ofNat (16 - src.len % 16))) := by
  simp only [addPKCSPadding_old]
  rw [append_heap_of_fits _ _ _ (by have := wf.2.1; simp; omega), get_write_same _ _ _ _ wf.1]

theorem mnemonicEntropy_old_writes (pr : Prims) (h : Heap) (e : Slice) (wf : e.WF h)
    (hvalid : ((e.len * 8) % 32 != 0 || e.len * 8 < 128 || e.len * 8 > 256) = false)
    (hsp : 1 ≤ e.cap - e.len) :
    (mnemonicEntropy_old pr h e).heap.get e.arr =
      writeAt (h.get e.arr) (e.off + e.len) [(pr.sha256 (h.read e)).headD 0] := by
  simp only [mnemonicEntropy_old, hvalid, Bool.false_eq_true, if_false]
  rw [append_heap_of_fits _ _ _ (by have := wf.2.1; simp; omega), get_write_same _ _ _ _ wf.1]

theorem cryptoDecrypt_old_writes (pr : Prims) (h : Heap) (key : Bytes) (ct : Slice) (wf : ct.WF h)
    (h16 : 16 ≤ ct.len) :
    (cryptoDecrypt_old pr h key ct).heap.get ct.arr =
      writeAt (h.get ct.arr) (ct.off + 16)
        (xorBytes (h.read (reslice ct 16 ct.len))
          (cfbDecStream pr key (h.read (reslice ct 0 16)) (h.read (reslice ct 16 ct.len)))) := by
  have : ¬ ct.len < 16 := by omega
  simp only [cryptoDecrypt_old, this, if_false, xorInto_eq, reslice_arr]
  rw [get_write_same _ _ _ _ wf.1]
  rfl

/-- the pre-fix `crypto.Decrypt` changes the caller's array whenever CFB decryption is not the
identity on the ciphertext body -/
theorem cryptoDecrypt_old_not_frame_all (pr : Prims) (hlen : ∀ k iv d, (pr.cfbDec k iv d).length = d.length)
    (h : Heap) (key : Bytes) (ct : Slice) (wf : ct.WF h) (h16 : 16 ≤ ct.len)
    (hne : pr.cfbDec key (h.read (reslice ct 0 16)) (h.read (reslice ct 16 ct.len)) ≠
      h.read (reslice ct 16 ct.len)) :
    (cryptoDecrypt_old pr h key ct).heap.arrays[ct.arr]? ≠ h.arrays[ct.arr]? := by
  intro heq
  have hw := cryptoDecrypt_old_writes pr h key ct wf h16
  rw [get_eq, heq, ← get_eq, cfbDecStream, xorBytes_cancel _ _ ((hlen _ _ _).symm)] at hw
  obtain ⟨w1, w2, w3⟩ := wf
  generalize hsrc : h.read (reslice ct 16 ct.len) = src at *
  generalize hout : pr.cfbDec key (h.read (reslice ct 0 16)) src = out at *
  have hsrc' : src = ((h.get ct.arr).drop (ct.off + 16)).take (ct.len - 16) := by rw [← hsrc]; rfl
  have hsl : src.length = ct.len - 16 := by rw [hsrc']; simp; omega
  have hol : out.length = ct.len - 16 := by rw [← hout, hlen, hsl]
  have h2 : ((h.get ct.arr).drop (ct.off + 16)).take (ct.len - 16) =
      ((writeAt (h.get ct.arr) (ct.off + 16) out).drop (ct.off + 16)).take (ct.len - 16) :=
    congrArg (fun l => (l.drop (ct.off + 16)).take (ct.len - 16)) hw
  rw [drop_writeAt _ _ _ (by omega), ← hsrc', List.take_left' hol] at h2
  exact hne h2.symm

/-- for EVERY hash function there is a heap in which the pre-fix `Mnemonic` changes the caller's array -/
theorem mnemonicEntropy_old_not_frame_all (pr : Prims) :
    ∃ (h : Heap) (e : Slice), e.WF h ∧ 0 < e.spare ∧
      (mnemonicEntropy_old pr h e).heap.arrays[e.arr]? ≠ h.arrays[e.arr]? := by
  generalize hc : (pr.sha256 (List.replicate 16 0)).headD 0 = c
  have wf : Slice.WF ⟨#[List.replicate 16 0 ++ [c + 1]]⟩ ⟨0, 0, 16, 17⟩ := by
    simp [Slice.WF, Heap.size, Heap.get]
  refine ⟨⟨#[List.replicate 16 0 ++ [c + 1]]⟩, ⟨0, 0, 16, 17⟩, wf, by decide, ?_⟩
  intro heq
  have hw := mnemonicEntropy_old_writes pr ⟨#[List.replicate 16 0 ++ [c + 1]]⟩ ⟨0, 0, 16, 17⟩
    wf (by decide) (by decide)
  rw [get_eq, get_eq, heq] at hw
  have h2 := congrArg (fun l => l.getD 16 0) hw
  simp [writeAt, Heap.read, Heap.get] at h2
  have hc' : (List.head? (pr.sha256 [0, 0, 0, 0, 0, 0, 0, 0, 0, 0, 0, 0, 0, 0, 0, 0])).getD 0 = c := by
    rw [← hc, List.headD_eq_head?_getD]; rfl
  rw [hc'] at h2
  have h3 := congrArg UInt8.toNat h2
  simp only [UInt8.toNat_add] at h3
  have := c.toNat_lt
  simp at h3
  omega

end HeapFns
end GoBk
