import GoBk.Proofs.EnvelopeLemmas
import GoBk.Proofs.JsonStringLemmas
/-
  Glue between the envelope lemmas and the UTF-8 / JSON string lemmas, for C20b:
  hex strings are ASCII, `newEnvelopeRaw` in terms of `newEnvelope`.
-/
namespace GoBk.Proofs.EnvelopeJsonL
open GoBk Bytes Spec Envelope JsonString GoBk.Proofs GoBk.Proofs.EnvelopeL GoBk.Proofs.Utf8L

theorem hexByte_ascii : ∀ n, n < 16 → hexByte n < 0x80 := by decide

theorem hexEncode_ascii (b : Bytes) : ∀ x ∈ hexEncode b, x < 0x80 := by
  rw [hexEncode_eq]
  intro x hx
  rw [List.mem_flatMap] at hx
  obtain ⟨y, _, hy⟩ := hx
  have h1 : y.toNat / 16 < 16 := by have := y.toNat_lt; omega
  have h2 : y.toNat % 16 < 16 := Nat.mod_lt _ (by decide)
  simp only [List.mem_cons, List.not_mem_nil, or_false] at hy
  rcases hy with rfl | rfl
  · exact hexByte_ascii _ h1
  · exact hexByte_ascii _ h2

theorem hexEncode_wellFormed (b : Bytes) : WellFormed (hexEncode b) := wellFormed_of_ascii (hexEncode_ascii b)

theorem mimeJSON_wellFormed : WellFormed mimeJSON := by decide +kernel

theorem newEnvelopeRaw_some {pr : Prims} {fuel : Nat} {raw pl sg pk : Bytes} {t : Rng.Tape}
    (h : newEnvelopeRaw pr fuel raw t = some (pl, sg, pk)) :
    pl = sanitizeUtf8 raw ∧ newEnvelope pr fuel pl t = some (sg, pk) := by
  unfold newEnvelopeRaw at h
  dsimp only at h
  cases hn : newEnvelope pr fuel (sanitizeUtf8 raw) t with
  | none => rw [hn] at h; cases h
  | some x =>
    obtain ⟨sg', pk'⟩ := x
    rw [hn] at h
    simp only [Option.map_some, Option.some.injEq, Prod.mk.injEq] at h
    obtain ⟨rfl, rfl, rfl⟩ := h
    exact ⟨rfl, hn⟩

theorem newEnvelopeRaw_of {pr : Prims} {fuel : Nat} {raw sg pk : Bytes} {t : Rng.Tape}
    (h : newEnvelope pr fuel (sanitizeUtf8 raw) t = some (sg, pk)) :
    newEnvelopeRaw pr fuel raw t = some (sanitizeUtf8 raw, sg, pk) := by
  unfold newEnvelopeRaw; dsimp only; rw [h]; rfl

end GoBk.Proofs.EnvelopeJsonL
