import GoBk.Model.Bip32
import GoBk.Spec.Bip32
/-
  Lemmas for C08 (derivation paths): decimal printing/parsing, `splitOn`, the path grammar,
  `DeriveChildFromPath` as a fold of `Child`, and the 64-bit identity behind
  `DeriveNumber ∘ DerivePath`.  Core Lean only.
-/
namespace GoBk.Bip32
open GoBk Bytes

/-! ### `String.toUTF8.toList` of a decimal numeral -/

theorem ByteArray_size_eq (bs : ByteArray) : bs.size = bs.data.toList.length := by
  cases bs; rfl

theorem ByteArray_toList_loop (bs : ByteArray) (i : Nat) (r : List UInt8) :
    ByteArray.toList.loop bs i r = r.reverse ++ bs.data.toList.drop i := by
  induction h : bs.size - i generalizing i r with
  | zero =>
    rw [ByteArray.toList.loop.eq_1, if_neg (by omega)]
    have : bs.data.toList.length ≤ i := by rw [← ByteArray_size_eq]; omega
    rw [List.drop_of_length_le this, List.append_nil]
  | succ k ih =>
    have hi : i < bs.size := by omega
    rw [ByteArray.toList.loop.eq_1, if_pos hi, ih _ _ (by omega)]
    have hi' : i < bs.data.toList.length := by rw [← ByteArray_size_eq]; exact hi
    rw [List.drop_eq_getElem_cons hi']
    simp [ByteArray.get!, hi]

theorem toByteArray_toList (l : List UInt8) : l.toByteArray.toList = l := by
  simp [ByteArray.toList, ByteArray_toList_loop, List.data_toByteArray]

theorem decStr_eq (n : Nat) : decStr n = (Nat.toDigits 10 n).flatMap String.utf8EncodeChar := by
  simp [decStr, Nat.repr, String.toUTF8, String.toByteArray_ofList, List.utf8Encode, toByteArray_toList]

theorem utf8_digitChar (d : Nat) (h : d < 10) :
    String.utf8EncodeChar (Nat.digitChar d) = [UInt8.ofNat (48 + d)] := by
  have : d = 0 ∨ d = 1 ∨ d = 2 ∨ d = 3 ∨ d = 4 ∨ d = 5 ∨ d = 6 ∨ d = 7 ∨ d = 8 ∨ d = 9 := by omega
  rcases this with h|h|h|h|h|h|h|h|h|h <;> subst h <;> decide

theorem decStr_lt (d : Nat) (h : d < 10) : decStr d = [UInt8.ofNat (48 + d)] := by
  rw [decStr_eq, Nat.toDigits_of_lt_base h]; simp [utf8_digitChar d h]

theorem decStr_step (n d : Nat) (hn : 0 < n) (h : d < 10) :
    decStr (10 * n + d) = decStr n ++ [UInt8.ofNat (48 + d)] := by
  rw [decStr_eq, ← Nat.toDigits_append_toDigits (by omega) hn h, List.flatMap_append, ← decStr_eq,
    Nat.toDigits_of_lt_base h]
  simp [utf8_digitChar d h]

theorem parseDec_append (a : Bytes) (x : UInt8) : parseDec (a ++ [x]) = parseDec a * 10 + (x.toNat - 48) := by
  simp [parseDec, List.foldl_append]

theorem digit_facts (d : Nat) (h : d < 10) :
    isDigit (UInt8.ofNat (48 + d)) = true ∧ (UInt8.ofNat (48 + d)).toNat - 48 = d ∧ UInt8.ofNat (48 + d) ≠ 47 := by
  have : d = 0 ∨ d = 1 ∨ d = 2 ∨ d = 3 ∨ d = 4 ∨ d = 5 ∨ d = 6 ∨ d = 7 ∨ d = 8 ∨ d = 9 := by omega
  rcases this with h|h|h|h|h|h|h|h|h|h <;> subst h <;> decide

/-- `decStr n` is a non-empty string of decimal digits whose value is `n` -/
theorem decStr_spec (n : Nat) :
    decStr n ≠ [] ∧ (decStr n).all isDigit = true ∧ parseDec (decStr n) = n := by
  induction n using Nat.strongRecOn with
  | _ n ih =>
    by_cases hn : n < 10
    · obtain ⟨h1, h2, _⟩ := digit_facts n hn
      rw [decStr_lt n hn]
      generalize UInt8.ofNat (48 + n) = x at *
      refine ⟨by simp, by simp [h1], ?_⟩
      simp [parseDec, h2]
    · have e : n = 10 * (n / 10) + n % 10 := by omega
      obtain ⟨h1, h2, _⟩ := digit_facts (n % 10) (by omega)
      obtain ⟨i1, i2, i3⟩ := ih (n / 10) (by omega)
      rw [e, decStr_step _ _ (by omega) (by omega)]
      generalize UInt8.ofNat (48 + n % 10) = x at *
      refine ⟨by simp, by simp [i2, h1], ?_⟩
      rw [parseDec_append, i3, h2]; omega

theorem isDigit_ne_sep {c : UInt8} (h : isDigit c = true) : c ≠ 47 := by
  rintro rfl; revert h; decide

theorem decStr_no_sep (n : Nat) : (47 : UInt8) ∉ decStr n := by
  intro hm
  have := (decStr_spec n).2.1
  rw [List.all_eq_true] at this
  exact isDigit_ne_sep (this _ hm) rfl

theorem parseUint32_decStr (n : Nat) (h : n < 2^32) : parseUint32 (decStr n) = some n := by
  obtain ⟨h1, h2, h3⟩ := decStr_spec n
  unfold parseUint32
  have : (decStr n).isEmpty = false := by cases hd : decStr n <;> simp_all
  simp [this, h2, h3]; omega

/-! ### splitOn -/

def splitAux (sep : UInt8) (s : Bytes) : Bytes × List Bytes :=
  s.foldr (fun c (acc : Bytes × List Bytes) => if c == sep then ([], acc.1 :: acc.2) else (c :: acc.1, acc.2)) ([], [])

theorem splitOn_eq (sep : UInt8) (s : Bytes) : splitOn sep s = (splitAux sep s).1 :: (splitAux sep s).2 := rfl

theorem splitOn_nil (sep : UInt8) : splitOn sep [] = [[]] := rfl

theorem splitOn_cons_sep (sep : UInt8) (s : Bytes) : splitOn sep (sep :: s) = [] :: splitOn sep s := by
  simp [splitOn]

theorem splitOn_cons_ne (sep c : UInt8) (s : Bytes) (h : c ≠ sep) :
    splitOn sep (c :: s) = (c :: (splitAux sep s).1) :: (splitAux sep s).2 := by
  simp [splitOn, splitAux, h]

theorem splitOn_no_sep (sep : UInt8) (s : Bytes) (h : sep ∉ s) : splitOn sep s = [s] := by
  induction s with
  | nil => rfl
  | cons c s ih =>
    have hc : c ≠ sep := fun e => h (by simp [e])
    have ih' := ih (fun hm => h (List.mem_cons_of_mem _ hm))
    rw [splitOn_eq] at ih'
    injection ih' with e1 e2
    rw [splitOn_cons_ne _ _ _ hc, e1, e2]

theorem splitOn_append_sep (sep : UInt8) (a rest : Bytes) (h : sep ∉ a) :
    splitOn sep (a ++ sep :: rest) = a :: splitOn sep rest := by
  induction a with
  | nil => exact splitOn_cons_sep sep rest
  | cons c a ih =>
    have hc : c ≠ sep := fun e => h (by simp [e])
    have ih' := ih (fun hm => h (List.mem_cons_of_mem _ hm))
    rw [splitOn_eq] at ih'
    injection ih' with e1 e2
    rw [List.cons_append, splitOn_cons_ne _ _ _ hc, e1, e2]

theorem parseDec_foldl (ds : Bytes) (acc : Nat) :
    ds.foldl (fun acc c => acc * 10 + (c.toNat - 48)) acc = acc * 10 ^ ds.length + Spec.decValue ds := by
  induction ds generalizing acc with
  | nil => simp [Spec.decValue]
  | cons d ds ih =>
    rw [List.foldl_cons, ih, Spec.decValue, List.length_cons, Nat.pow_succ, Nat.add_mul]
    rw [Nat.mul_assoc, Nat.mul_comm 10, Nat.add_assoc]

theorem parseDec_eq_decValue (ds : Bytes) : parseDec ds = Spec.decValue ds := by
  rw [parseDec, parseDec_foldl]; simp

theorem isDigit_iff (c : UInt8) : isDigit c = true ↔ 48 ≤ c.toNat ∧ c.toNat ≤ 57 := by
  simp [isDigit, UInt8.le_iff_toNat_le]

theorem isDecimal_iff (ds : Bytes) : Spec.IsDecimal ds ↔ (ds.isEmpty || !ds.all isDigit) = false := by
  unfold Spec.IsDecimal
  simp only [Bool.or_eq_false_iff, Bool.not_eq_false', List.all_eq_true, isDigit_iff, List.isEmpty_eq_false_iff]

theorem childIndex_eq_spec (c : Bytes) : childIndex c = Spec.pathComponent c := by
  unfold childIndex Spec.pathComponent parseUint32
  simp only [parseDec_eq_decValue]
  have hK : Gen.k_hardenedKeyStart = 2 ^ 31 := rfl
  generalize Gen.k_hardenedKeyStart = K at *
  subst hK
  by_cases ht : c.getLast? = some 39
  · simp only [ht, beq_self_eq_true, if_true]
    by_cases hd : Spec.IsDecimal c.dropLast
    · have hd' := (isDecimal_iff _).1 hd
      simp only [hd', hd, Bool.false_eq_true, if_false, true_and]
      by_cases h1 : Spec.decValue c.dropLast < 2 ^ 31
      · rw [if_neg (by omega), if_pos h1]; simp only []; rw [if_neg (by omega)]
      · rw [if_neg h1]
        by_cases h2 : Spec.decValue c.dropLast ≥ 2 ^ 32
        · rw [if_pos h2]
        · rw [if_neg h2]; simp only []; rw [if_pos (by omega)]
    · have hd' : (c.dropLast.isEmpty || !c.dropLast.all isDigit) = true := by
        cases h : (c.dropLast.isEmpty || !c.dropLast.all isDigit)
        · exact absurd ((isDecimal_iff _).2 h) hd
        · rfl
      simp only [hd', hd, if_true, false_and, if_false]
  · have ht' : (c.getLast? == some 39) = false := by simpa using ht
    simp only [ht, ht', Bool.false_eq_true, if_false]
    by_cases hd : Spec.IsDecimal c
    · have hd' := (isDecimal_iff _).1 hd
      simp only [hd', hd, Bool.false_eq_true, if_false, true_and]
      by_cases h2 : Spec.decValue c ≥ 2 ^ 32
      · rw [if_pos h2, if_neg (by omega)]
      · rw [if_neg h2, if_pos (by omega)]
    · have hd' : (c.isEmpty || !c.all isDigit) = true := by
        cases h : (c.isEmpty || !c.all isDigit)
        · exact absurd ((isDecimal_iff _).2 h) hd
        · rfl
      simp only [hd', hd, if_true, false_and, if_false]

open Spec in
theorem pathComponent_iff (c : Bytes) (n : Nat) :
    Spec.pathComponent c = some n ↔ Spec.IsPathComponent c n := by
  unfold Spec.pathComponent Spec.IsPathComponent
  constructor
  · intro h
    split at h
    · rename_i ht
      split at h
      · rename_i hd
        injection h with h
        refine ⟨c.dropLast, hd.1, Or.inr ⟨?_, hd.2, h.symm⟩⟩
        obtain ⟨ys, rfl⟩ := List.getLast?_eq_some_iff.1 ht
        simp
      · cases h
    · split at h
      · rename_i hd
        injection h with h
        exact ⟨c, hd.1, Or.inl ⟨rfl, h.symm, h ▸ hd.2⟩⟩
      · cases h
  · rintro ⟨ds, hd, ⟨rfl, rfl, hlt⟩ | ⟨rfl, hlt, rfl⟩⟩
    · have : c.getLast? ≠ some 39 := by
        intro e
        have hm := List.mem_of_getLast? e
        have := hd.2 _ hm
        revert this; decide
      rw [if_neg this, if_pos ⟨hd, hlt⟩]
    · have : (ds ++ [39]).getLast? = some 39 := by simp
      rw [if_pos this]
      simp only [List.dropLast_concat]
      rw [if_pos ⟨hd, hlt⟩]

theorem isPathComponent_no_sep {c : Bytes} {n : Nat} (h : Spec.IsPathComponent c n) : (47 : UInt8) ∉ c := by
  obtain ⟨ds, hd, ⟨rfl, _, _⟩ | ⟨rfl, _, _⟩⟩ := h
  · intro hm; have := hd.2 _ hm; revert this; decide
  · intro hm
    rcases List.mem_append.1 hm with hm | hm
    · have := hd.2 _ hm; revert this; decide
    · simp at hm

/-! ### `splitOn` is the inverse of joining with the separator -/

theorem joinPath_cons_cons (c d : Bytes) (cs : List Bytes) :
    Spec.joinPath (c :: d :: cs) = c ++ 47 :: Spec.joinPath (d :: cs) := rfl

theorem splitOn_joinPath (cs : List Bytes) (hne : cs ≠ []) (h : ∀ c ∈ cs, (47 : UInt8) ∉ c) :
    splitOn 47 (Spec.joinPath cs) = cs := by
  induction cs with
  | nil => exact absurd rfl hne
  | cons c cs ih =>
    cases cs with
    | nil => exact splitOn_no_sep 47 c (h c (by simp))
    | cons d cs =>
      rw [joinPath_cons_cons, splitOn_append_sep _ _ _ (h c (by simp)),
        ih (by simp) (fun x hx => h x (List.mem_cons_of_mem _ hx))]

theorem splitOn_ne_nil (sep : UInt8) (s : Bytes) : splitOn sep s ≠ [] := by rw [splitOn_eq]; simp

theorem joinPath_splitOn (s : Bytes) : Spec.joinPath (splitOn 47 s) = s := by
  induction s with
  | nil => rfl
  | cons c s ih =>
    by_cases hc : c = 47
    · subst hc
      rw [splitOn_cons_sep]
      rw [splitOn_eq] at ih ⊢
      rw [joinPath_cons_cons, ih]; rfl
    · rw [splitOn_cons_ne _ _ _ hc]
      rw [splitOn_eq] at ih
      cases h2 : (splitAux 47 s).2 with
      | nil => rw [h2] at ih; simp only [Spec.joinPath] at ih ⊢; rw [ih]
      | cons d ds =>
        rw [h2] at ih
        rw [joinPath_cons_cons] at ih ⊢
        rw [List.cons_append, ih]

theorem mapM_some_iff {α β} (f : α → Option β) (l : List α) (is : List β) :
    l.mapM f = some is ↔
      ∃ comps : List (α × β), l = comps.map (·.1) ∧ is = comps.map (·.2) ∧ ∀ cn ∈ comps, f cn.1 = some cn.2 := by
  induction l generalizing is with
  | nil =>
    simp only [List.mapM_nil]
    constructor
    · intro h; injection h with h; subst h; exact ⟨[], rfl, rfl, by simp⟩
    · rintro ⟨comps, h1, h2, _⟩
      cases comps with
      | nil => subst h2; rfl
      | cons a b => simp at h1
  | cons a l ih =>
    rw [List.mapM_cons]
    constructor
    · intro h
      cases hf : f a with
      | none => rw [hf] at h; simp at h
      | some b =>
        rw [hf] at h
        cases hm : l.mapM f with
        | none => rw [hm] at h; simp at h
        | some bs =>
          rw [hm] at h
          simp at h
          subst h
          obtain ⟨comps, h1, h2, h3⟩ := (ih bs).1 hm
          refine ⟨(a, b) :: comps, by simp [h1], by simp [h2], ?_⟩
          intro cn hcn
          rcases List.mem_cons.1 hcn with rfl | hcn
          · exact hf
          · exact h3 _ hcn
    · rintro ⟨comps, h1, h2, h3⟩
      cases comps with
      | nil => simp at h1
      | cons cn comps =>
        simp only [List.map_cons, List.cons.injEq] at h1
        obtain ⟨rfl, h1⟩ := h1
        have := (ih (comps.map (·.2))).2 ⟨comps, h1, rfl, fun x hx => h3 x (List.mem_cons_of_mem _ hx)⟩
        rw [h3 cn (by simp), this, h2]; rfl

/-- the model's path parser accepts exactly the path grammar, with the specified denotation -/
theorem parsePath_iff (p : Bytes) (is : List Nat) : parsePath p = some is ↔ Spec.IsPath p is := by
  unfold parsePath Spec.IsPath
  cases p with
  | nil =>
    simp only [List.isEmpty_nil, if_true, Option.some.injEq, true_and, ne_eq, not_true_eq_false, false_and, or_false]
    exact eq_comm
  | cons x p =>
    simp only [List.isEmpty_cons, Bool.false_eq_true, if_false, reduceCtorEq, false_and, false_or, ne_eq,
      not_false_eq_true, true_and]
    rw [mapM_some_iff]
    constructor
    · rintro ⟨comps, h1, h2, h3⟩
      refine ⟨comps, ?_, h2, fun cn hcn => ?_⟩
      · rw [← h1, joinPath_splitOn]
      · rw [← pathComponent_iff, ← childIndex_eq_spec]; exact h3 cn hcn
    · rintro ⟨comps, h1, h2, h3⟩
      refine ⟨comps, ?_, h2, fun cn hcn => ?_⟩
      · rw [h1]
        apply splitOn_joinPath
        · intro e
          rw [e] at h1; simp [Spec.joinPath] at h1
        · intro c hc
          obtain ⟨cn, hcn, rfl⟩ := List.mem_map.1 hc
          exact isPathComponent_no_sep (h3 cn hcn)
      · rw [childIndex_eq_spec, pathComponent_iff]; exact h3 cn hcn


/-! ### `DeriveChildFromPath` is the fold of `Child` over the denoted indices -/

theorem derivePathAux_toOption (pr : Prims) (k : XKey) (cs : List Bytes) :
    (derivePathAux pr k cs).toOption =
      (cs.mapM childIndex).bind (fun is => (is.foldlM (child pr) k).toOption) := by
  induction cs generalizing k with
  | nil => rfl
  | cons c cs ih =>
    rw [derivePathAux, List.mapM_cons]
    cases hc : childIndex c with
    | none => rfl
    | some i =>
      simp only []
      cases hk : child pr k i with
      | error e =>
        simp only []
        cases hm : cs.mapM childIndex with
        | none => rfl
        | some is =>
          show _ = ((i :: is).foldlM (child pr) k).toOption
          rw [List.foldlM_cons, hk]; rfl
      | ok k' =>
        simp only []
        rw [ih]
        cases hm : cs.mapM childIndex with
        | none => rfl
        | some is =>
          show _ = ((i :: is).foldlM (child pr) k).toOption
          rw [List.foldlM_cons, hk]; rfl

theorem deriveChildFromPath_toOption (pr : Prims) (k : XKey) (p : Bytes) :
    (deriveChildFromPath pr k p).toOption =
      (parsePath p).bind (fun is => (is.foldlM (child pr) k).toOption) := by
  unfold deriveChildFromPath parsePath
  split
  · rfl
  · exact derivePathAux_toOption pr k _

/-! ### the 64-bit identity of `DeriveNumber ∘ DerivePath` -/

theorem or31 (x : Nat) (h : x < 2^31) : x ||| 2^31 = x + 2^31 := by
  rw [Nat.or_comm, ← Nat.two_pow_add_eq_or_of_lt h 1]; omega

theorem a_toNat (i : UInt64) : ((i >>> 33) ||| ((1 : UInt64) <<< 31)).toNat = i.toNat / 2^33 + 2^31 := by
  have hi := i.toNat_lt
  have h1 : ((1 : UInt64) <<< 31).toNat = 2^31 := by decide
  rw [UInt64.toNat_or, h1, UInt64.toNat_shiftRight]
  have : (33 : UInt64).toNat % 64 = 33 := by decide
  rw [this, Nat.shiftRight_eq_div_pow, or31]
  omega

theorem b_toNat (i : UInt64) : (((i <<< 31) >>> 33) ||| ((1 : UInt64) <<< 31)).toNat = i.toNat % 2^33 / 4 + 2^31 := by
  have hi := i.toNat_lt
  have h1 : ((1 : UInt64) <<< 31).toNat = 2^31 := by decide
  rw [UInt64.toNat_or, h1, UInt64.toNat_shiftRight, UInt64.toNat_shiftLeft]
  have : (33 : UInt64).toNat % 64 = 33 := by decide
  rw [this]
  have : (31 : UInt64).toNat % 64 = 31 := by decide
  rw [this, Nat.shiftRight_eq_div_pow, Nat.shiftLeft_eq]
  have e : i.toNat * 2 ^ 31 % 2 ^ 64 / 2 ^ 33 = i.toNat % 2^33 / 4 := by omega
  rw [e, or31]
  omega

theorem c_toNat (i : UInt64) : ((i &&& (3 : UInt64)) ||| ((1 : UInt64) <<< 31)).toNat = i.toNat % 4 + 2^31 := by
  have h1 : ((1 : UInt64) <<< 31).toNat = 2^31 := by decide
  rw [UInt64.toNat_or, h1, UInt64.toNat_and]
  have : (3 : UInt64).toNat = 2^2 - 1 := by decide
  rw [this, Nat.and_two_pow_sub_one_eq_mod, or31]
  omega

theorem recombine (i a b c : UInt64) (ha : a.toNat = i.toNat / 2^33 + 2^31)
    (hb : b.toNat = i.toNat % 2^33 / 4 + 2^31) (hc : c.toNat = i.toNat % 4 + 2^31) :
    ((a - ((1 : UInt64) <<< 31)) <<< 33) + ((b - ((1 : UInt64) <<< 31)) <<< 2) + (c - ((1 : UInt64) <<< 31)) = i := by
  have hi := i.toNat_lt
  have h1 : ((1 : UInt64) <<< 31).toNat = 2^31 := by decide
  have h1' : ((1 : UInt64) <<< 31) = 2147483648 := by decide
  apply UInt64.toNat_inj.mp
  have e33 : (33 : UInt64).toNat % 64 = 33 := by decide
  have e2 : (2 : UInt64).toNat % 64 = 2 := by decide
  have sa : (a - ((1 : UInt64) <<< 31)).toNat = i.toNat / 2^33 := by
    rw [UInt64.toNat_sub_of_le _ _ (by rw [UInt64.le_iff_toNat_le, h1, ha]; omega), h1, ha]; omega
  have sb : (b - ((1 : UInt64) <<< 31)).toNat = i.toNat % 2^33 / 4 := by
    rw [UInt64.toNat_sub_of_le _ _ (by rw [UInt64.le_iff_toNat_le, h1, hb]; omega), h1, hb]; omega
  have sc : (c - ((1 : UInt64) <<< 31)).toNat = i.toNat % 4 := by
    rw [UInt64.toNat_sub_of_le _ _ (by rw [UInt64.le_iff_toNat_le, h1, hc]; omega), h1, hc]; omega
  rw [UInt64.toNat_add, UInt64.toNat_add, UInt64.toNat_shiftLeft, UInt64.toNat_shiftLeft, sa, sb, sc, e33, e2,
    Nat.shiftLeft_eq, Nat.shiftLeft_eq]
  omega

theorem ofNat_toNat64 (a : UInt64) : UInt64.ofNat a.toNat = a := by simp

theorem deriveNumber_derivePath (i : UInt64) : deriveNumber (derivePath i) = some i := by
  have ha := a_toNat i
  have hb := b_toNat i
  have hc := c_toNat i
  have hi := i.toNat_lt
  unfold derivePath deriveNumber
  simp only []
  generalize ((i >>> 33) ||| ((1 : UInt64) <<< 31)) = a at *
  generalize (((i <<< 31) >>> 33) ||| ((1 : UInt64) <<< 31)) = b at *
  generalize ((i &&& (3 : UInt64)) ||| ((1 : UInt64) <<< 31)) = c at *
  have e : decStr a.toNat ++ [47] ++ decStr b.toNat ++ [47] ++ decStr c.toNat
      = decStr a.toNat ++ 47 :: (decStr b.toNat ++ 47 :: decStr c.toNat) := by simp
  rw [e, splitOn_append_sep _ _ _ (decStr_no_sep _), splitOn_append_sep _ _ _ (decStr_no_sep _),
    splitOn_no_sep _ _ (decStr_no_sep _)]
  simp only []
  rw [parseUint32_decStr _ (by omega), parseUint32_decStr _ (by omega), parseUint32_decStr _ (by omega)]
  simp only [ofNat_toNat64]
  rw [recombine i a b c ha hb hc]

end GoBk.Bip32

#print axioms GoBk.Bip32.deriveNumber_derivePath
#print axioms GoBk.Bip32.parsePath_iff
#print axioms GoBk.Bip32.deriveChildFromPath_toOption
#print axioms GoBk.Bip32.childIndex_eq_spec
