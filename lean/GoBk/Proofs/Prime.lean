/-
  GoBk.Proofs.Prime — primality of the secp256k1 field prime `P` and group order `N`
  by Pratt certificates checked in the kernel (`decide +kernel`) against Mathlib's
  `lucas_primality`.  Also `powMod_eq : powMod b e m = b ^ e % m`.
  Certificates generated with sympy (factorint of p-1, recursively, down to 2).
-/
import Mathlib.NumberTheory.LucasPrimality
import GoBk.Spec.Secp

namespace GoBk.Proofs
open GoBk.Spec

/-! ### `powMod` is modular exponentiation -/

theorem powModAux_eq (m : Nat) : ∀ (fuel b e acc : Nat), acc % m = acc → e < 2 ^ fuel →
    powModAux m fuel b e acc = acc * b ^ e % m := by
  intro fuel
  induction fuel with
  | zero =>
    intro b e acc hacc he
    have : e = 0 := by omega
    subst this
    simp [powModAux, hacc]
  | succ fuel ih =>
    intro b e acc hacc he
    unfold powModAux
    by_cases h0 : e = 0
    · subst h0; simp [hacc]
    · rw [if_neg h0]
      have he2 : e / 2 < 2 ^ fuel := by
        rw [Nat.pow_succ] at he; omega
      have hsplit : b ^ e = (b * b) ^ (e / 2) * b ^ (e % 2) := by
        rw [← Nat.pow_two, ← Nat.pow_mul, ← Nat.pow_add, Nat.div_add_mod]
      by_cases h1 : e % 2 = 1
      · rw [if_pos h1, ih _ _ _ (Nat.mod_mod _ _) he2, hsplit, h1, Nat.pow_one]
        conv_lhs => rw [Nat.mul_mod, Nat.mod_mod, ← Nat.pow_mod, ← Nat.mul_mod]
        congr 1
        ring
      · have h1' : e % 2 = 0 := by omega
        rw [if_neg h1, ih _ _ _ hacc he2, hsplit, h1', Nat.pow_zero, Nat.mul_one]
        conv_lhs => rw [Nat.mul_mod, ← Nat.pow_mod, ← Nat.mul_mod]

theorem powMod_eq (b e m : Nat) : powMod b e m = b ^ e % m := by
  unfold powMod
  rw [powModAux_eq m _ _ _ _ (Nat.mod_mod _ _) Nat.lt_log2_self]
  rw [Nat.mul_mod, Nat.mod_mod, ← Nat.pow_mod, ← Nat.mul_mod, Nat.one_mul]

/-! ### Pratt certificates -/

/-- `(p, a, [(q₁,e₁),…])`: `a` is a primitive root mod `p` and `p - 1 = ∏ qᵢ^eᵢ`. -/
abbrev Entry := Nat × Nat × List (Nat × Nat)

def prodPow : List (Nat × Nat) → Nat
  | [] => 1
  | (q, e) :: l => q ^ e * prodPow l

/-- check one entry, given a list `known` of numbers already established prime (2 is built in) -/
def checkEntry (known : List Nat) (en : Entry) : Bool :=
  let p := en.1
  let a := en.2.1
  let fs := en.2.2
  decide (2 ≤ p) && (prodPow fs == p - 1) && (powMod a (p - 1) p == 1) &&
    fs.all (fun qe => (qe.1 == 2 || known.contains qe.1) && (powMod a ((p - 1) / qe.1) p != 1))

/-- each entry may rely on the entries after it -/
def checkAll : List Entry → Bool
  | [] => true
  | en :: l => checkAll l && checkEntry (l.map (·.1)) en

theorem dvd_prodPow {r : Nat} (hr : r.Prime) : ∀ (l : List (Nat × Nat)),
    (∀ qe ∈ l, Nat.Prime qe.1) → r ∣ prodPow l → ∃ qe ∈ l, r = qe.1 := by
  intro l
  induction l with
  | nil => intro _ h; exact absurd (Nat.dvd_one.1 h) hr.ne_one
  | cons qe l ih =>
    intro hl h
    obtain ⟨q, e⟩ := qe
    simp only [prodPow] at h
    rcases (Nat.Prime.dvd_mul hr).1 h with h | h
    · have := hr.dvd_of_dvd_pow h
      have hq : Nat.Prime q := hl (q, e) (List.mem_cons_self)
      exact ⟨(q, e), List.mem_cons_self, (Nat.prime_dvd_prime_iff_eq hr hq).1 this⟩
    · obtain ⟨qe, hm, he⟩ := ih (fun x hx => hl x (List.mem_cons_of_mem _ hx)) h
      exact ⟨qe, List.mem_cons_of_mem _ hm, he⟩

theorem checkEntry_sound (known : List Nat) (hk : ∀ k ∈ known, Nat.Prime k) (en : Entry)
    (h : checkEntry known en = true) : Nat.Prime en.1 := by
  obtain ⟨p, a, fs⟩ := en
  simp only [checkEntry, Bool.and_eq_true, decide_eq_true_eq, beq_iff_eq, List.all_eq_true,
    Bool.or_eq_true, List.contains_iff_mem, bne_iff_ne, ne_eq] at h
  obtain ⟨⟨⟨hp, hprod⟩, hpow⟩, hall⟩ := h
  show Nat.Prime p
  have hfs : ∀ qe ∈ fs, Nat.Prime qe.1 := by
    intro qe hqe
    rcases (hall qe hqe).1 with h2 | hk'
    · rw [h2]; exact Nat.prime_two
    · exact hk _ hk'
  have cast_pow : ∀ e : Nat, ((a : ZMod p)) ^ e = 1 ↔ powMod a e p = 1 := by
    intro e
    rw [powMod_eq, ← Nat.cast_pow, ← Nat.cast_one (R := ZMod p), ZMod.natCast_eq_natCast_iff',
      Nat.mod_eq_of_lt (show 1 < p by omega)]
  refine lucas_primality p (a : ZMod p) ((cast_pow _).2 hpow) ?_
  intro q hq hdvd
  rw [← hprod] at hdvd
  obtain ⟨qe, hm, rfl⟩ := dvd_prodPow hq fs hfs hdvd
  rw [Ne, cast_pow]
  exact (hall qe hm).2

theorem checkAll_sound : ∀ (l : List Entry), checkAll l = true → ∀ en ∈ l, Nat.Prime en.1 := by
  intro l
  induction l with
  | nil => intro _ en h; cases h
  | cons e0 l ih =>
    intro h en hen
    simp only [checkAll, Bool.and_eq_true] at h
    have hl := ih h.1
    rcases List.mem_cons.1 hen with rfl | hm
    · refine checkEntry_sound _ ?_ _ h.2
      intro k hk
      obtain ⟨e', he', rfl⟩ := List.mem_map.1 hk
      exact hl e' he'
    · exact hl en hm

def certP : List Entry := [
  (P, 3, [(2, 1), (3, 1), (7, 1), (13441, 1), (205115282021455665897114700593932402728804164701536103180137503955397371, 1)]),
  (205115282021455665897114700593932402728804164701536103180137503955397371, 10, [(2, 1), (3, 1), (5, 1), (29, 2), (31, 1), (7723, 1), (132896956044521568488119, 1), (255515944373312847190720520512484175977, 1)]),
  (255515944373312847190720520512484175977, 3, [(2, 3), (7, 2), (11, 1), (1627, 1), (2657, 1), (4423, 1), (41201, 1), (96557, 1), (7240687, 1), (107590001, 1)]),
  (7240687, 3, [(2, 1), (3, 1), (1206781, 1)]),
  (1206781, 10, [(2, 2), (3, 1), (5, 1), (20113, 1)]),
  (20113, 10, [(2, 4), (3, 1), (419, 1)]),
  (419, 2, [(2, 1), (11, 1), (19, 1)]),
  (19, 2, [(2, 1), (3, 2)]),
  (107590001, 3, [(2, 4), (5, 4), (7, 1), (29, 1), (53, 1)]),
  (53, 2, [(2, 2), (13, 1)]),
  (41201, 3, [(2, 4), (5, 2), (103, 1)]),
  (103, 5, [(2, 1), (3, 1), (17, 1)]),
  (96557, 2, [(2, 2), (101, 1), (239, 1)]),
  (239, 7, [(2, 1), (7, 1), (17, 1)]),
  (101, 2, [(2, 2), (5, 2)]),
  (4423, 3, [(2, 1), (3, 1), (11, 1), (67, 1)]),
  (67, 2, [(2, 1), (3, 1), (11, 1)]),
  (2657, 3, [(2, 5), (83, 1)]),
  (83, 2, [(2, 1), (41, 1)]),
  (41, 6, [(2, 3), (5, 1)]),
  (1627, 3, [(2, 1), (3, 1), (271, 1)]),
  (271, 6, [(2, 1), (3, 3), (5, 1)]),
  (132896956044521568488119, 6, [(2, 1), (3, 1), (22149492674086928081353, 1)]),
  (22149492674086928081353, 5, [(2, 3), (3, 1), (5323, 1), (173378833005251801, 1)]),
  (173378833005251801, 6, [(2, 3), (5, 2), (2621, 1), (24809, 1), (13331831, 1)]),
  (13331831, 13, [(2, 1), (5, 1), (971, 1), (1373, 1)]),
  (1373, 2, [(2, 2), (7, 3)]),
  (971, 6, [(2, 1), (5, 1), (97, 1)]),
  (97, 5, [(2, 5), (3, 1)]),
  (24809, 6, [(2, 3), (7, 1), (443, 1)]),
  (2621, 2, [(2, 2), (5, 1), (131, 1)]),
  (131, 2, [(2, 1), (5, 1), (13, 1)]),
  (5323, 5, [(2, 1), (3, 1), (887, 1)]),
  (887, 5, [(2, 1), (443, 1)]),
  (443, 2, [(2, 1), (13, 1), (17, 1)]),
  (17, 3, [(2, 4)]),
  (7723, 3, [(2, 1), (3, 3), (11, 1), (13, 1)]),
  (13, 2, [(2, 2), (3, 1)]),
  (11, 2, [(2, 1), (5, 1)]),
  (31, 3, [(2, 1), (3, 1), (5, 1)]),
  (29, 2, [(2, 2), (7, 1)]),
  (13441, 11, [(2, 7), (3, 1), (5, 1), (7, 1)]),
  (5, 2, [(2, 2)]),
  (7, 3, [(2, 1), (3, 1)]),
  (3, 2, [(2, 1)])]

def certN : List Entry := [
  (N, 7, [(2, 6), (3, 1), (149, 1), (631, 1), (107361793816595537, 1), (174723607534414371449, 1), (341948486974166000522343609283189, 1)]),
  (341948486974166000522343609283189, 2, [(2, 2), (3, 3), (109, 1), (29047611873442575647497758179, 1)]),
  (29047611873442575647497758179, 2, [(2, 1), (293, 1), (305873, 1), (545358713, 1), (297159362677, 1)]),
  (297159362677, 2, [(2, 2), (3, 2), (11, 1), (461, 1), (1627771, 1)]),
  (1627771, 3, [(2, 1), (3, 1), (5, 1), (29, 1), (1871, 1)]),
  (1871, 14, [(2, 1), (5, 1), (11, 1), (17, 1)]),
  (461, 2, [(2, 2), (5, 1), (23, 1)]),
  (545358713, 5, [(2, 3), (41, 1), (59, 1), (28181, 1)]),
  (28181, 2, [(2, 2), (5, 1), (1409, 1)]),
  (1409, 3, [(2, 7), (11, 1)]),
  (305873, 3, [(2, 4), (7, 1), (2731, 1)]),
  (2731, 3, [(2, 1), (3, 1), (5, 1), (7, 1), (13, 1)]),
  (293, 2, [(2, 2), (73, 1)]),
  (73, 5, [(2, 3), (3, 2)]),
  (109, 6, [(2, 2), (3, 3)]),
  (174723607534414371449, 3, [(2, 3), (17, 1), (59, 1), (4051, 1), (120233, 1), (44706919, 1)]),
  (44706919, 6, [(2, 1), (3, 1), (797, 1), (9349, 1)]),
  (9349, 2, [(2, 2), (3, 1), (19, 1), (41, 1)]),
  (41, 6, [(2, 3), (5, 1)]),
  (797, 2, [(2, 2), (199, 1)]),
  (199, 3, [(2, 1), (3, 2), (11, 1)]),
  (120233, 3, [(2, 3), (7, 1), (19, 1), (113, 1)]),
  (113, 3, [(2, 4), (7, 1)]),
  (19, 2, [(2, 1), (3, 2)]),
  (4051, 10, [(2, 1), (3, 4), (5, 2)]),
  (59, 2, [(2, 1), (29, 1)]),
  (29, 2, [(2, 2), (7, 1)]),
  (17, 3, [(2, 4)]),
  (107361793816595537, 3, [(2, 4), (16699, 1), (85831, 1), (4681609, 1)]),
  (4681609, 23, [(2, 3), (3, 1), (97, 1), (2011, 1)]),
  (2011, 3, [(2, 1), (3, 1), (5, 1), (67, 1)]),
  (67, 2, [(2, 1), (3, 1), (11, 1)]),
  (97, 5, [(2, 5), (3, 1)]),
  (85831, 3, [(2, 1), (3, 1), (5, 1), (2861, 1)]),
  (2861, 2, [(2, 2), (5, 1), (11, 1), (13, 1)]),
  (13, 2, [(2, 2), (3, 1)]),
  (16699, 3, [(2, 1), (3, 1), (11, 2), (23, 1)]),
  (23, 5, [(2, 1), (11, 1)]),
  (11, 2, [(2, 1), (5, 1)]),
  (631, 3, [(2, 1), (3, 2), (5, 1), (7, 1)]),
  (7, 3, [(2, 1), (3, 1)]),
  (5, 2, [(2, 2)]),
  (149, 2, [(2, 2), (37, 1)]),
  (37, 2, [(2, 2), (3, 2)]),
  (3, 2, [(2, 1)])]

theorem certP_ok : checkAll certP = true := by decide +kernel
theorem certN_ok : checkAll certN = true := by decide +kernel

theorem P_prime : Nat.Prime GoBk.Spec.P :=
  checkAll_sound certP certP_ok _ List.mem_cons_self

theorem N_prime : Nat.Prime GoBk.Spec.N :=
  checkAll_sound certN certN_ok _ List.mem_cons_self

instance fact_P_prime : Fact (Nat.Prime GoBk.Spec.P) := ⟨P_prime⟩
instance fact_N_prime : Fact (Nat.Prime GoBk.Spec.N) := ⟨N_prime⟩

end GoBk.Proofs

#print axioms GoBk.Proofs.powMod_eq
#print axioms GoBk.Proofs.P_prime
#print axioms GoBk.Proofs.N_prime
