import GoBk.Props.Prims
import GoBk.Proofs.CheckedLemmas
/-
  GoBk.Proofs.PrimsExtra — facts about the executable primitives `realPrims` that are NOT fields of
  `PrimsOK` but occur as hypotheses of property theorems (C15), plus the PBKDF2 output length.

    * `real_pbkdf2_len`     — PBKDF2-HMAC-SHA512 returns exactly `dkLen` bytes.
    * `real_cbcDec_len'`    — CBC decryption emits 16 bytes per WHOLE input block;
      `real_cbcDec_len`     — hence preserves the length of block-aligned input;
      `real_cbcDec_len_unaligned_false` — but NOT of arbitrary input: the hypothesis
      `∀ k iv x, (pr.cbcDec k iv x).length = x.length` of `C15.eciesDecryptC_agrees` is FALSE of
      `realPrims` (like Go's `CryptBlocks`, a trailing partial block is not processed).
    * `decrypt_fitPrims`    — `Ecies.decrypt` only ever hands block-aligned data to `cbcDec`, so for
      primitives whose `cbcDec` preserves the length of ALIGNED input the model is unchanged by
      `fitPrims`; `real_decrypt_fitPrims` is the instance for `realPrims`.  This gives the conclusion
      of `eciesDecryptC_agrees` for `realPrims` although its hypothesis does not hold.
-/
namespace GoBk.Proofs.PrimsExtra
open GoBk GoBk.Hash GoBk.Hash.Aes GoBk.Proofs.PrimsOK GoBk.Checked

theorem real_pbkdf2_len (password salt : Bytes) (iter dkLen : Nat) :
    (realPrims.pbkdf2_512 password salt iter dkLen).length = dkLen :=
  pbkdf2HmacSha512_length password salt iter dkLen

theorem cbcDec_length (k : Key) (n : Nat) (prev : Blk) (data : Bytes) :
    (cbcDec k n prev data).length = 16 * n := by
  induction n generalizing prev data with
  | zero => rfl
  | succ n ih => rw [cbcDec_succ, List.length_append, Blk.toBytes_length, ih]; omega

/-- CBC decryption output length: 16 bytes per WHOLE input block, whatever the alignment. -/
theorem real_cbcDec_len' (k iv x : Bytes) : (realPrims.cbcDec k iv x).length = 16 * (x.length / 16) :=
  cbcDec_length _ _ _ _

theorem real_cbcDec_len (k iv x : Bytes) (h : x.length % 16 = 0) :
    (realPrims.cbcDec k iv x).length = x.length := by
  rw [real_cbcDec_len']; omega

/-- the unconditional length hypothesis of `C15.eciesDecryptC_agrees` does not hold of `realPrims`. -/
theorem real_cbcDec_len_unaligned_false : ¬ ∀ k iv x, (realPrims.cbcDec k iv x).length = x.length := by
  intro h
  have := h [] [] [0]
  rw [real_cbcDec_len'] at this
  revert this
  decide

/-- `Ecies.decrypt` applies `cbcDec` to block-aligned data only: if `cbcDec` preserves the length of
aligned input, replacing it by "the destination buffer afterwards" (`fitPrims`) changes nothing. -/
theorem decrypt_fitPrims (pr : Prims)
    (hdec : ∀ k iv x, x.length % 16 = 0 → (pr.cbcDec k iv x).length = x.length) (d : Nat) (inp : Bytes) :
    Ecies.decrypt (fitPrims pr) d inp = Ecies.decrypt pr d inp := by
  unfold Ecies.decrypt
  dsimp only
  by_cases hlen : inp.length < 16 + 70 + 16 + 32
  · rw [if_pos hlen, if_pos hlen]
  · rw [if_neg hlen, if_neg hlen]
    by_cases h1 : ((inp.drop 16).take 2 != Gen.ciphCurveBytes) = true
    · rw [if_pos h1, if_pos h1]
    · rw [if_neg h1, if_neg h1]
      by_cases h2 : ((inp.drop 18).take 2 != Gen.ciphCoordLength) = true
      · rw [if_pos h2, if_pos h2]
      · rw [if_neg h2, if_neg h2]
        by_cases h3 : ((inp.drop 52).take 2 != Gen.ciphCoordLength) = true
        · rw [if_pos h3, if_pos h3]
        · rw [if_neg h3, if_neg h3]
          cases hpk : Ecdsa.parsePubKey ([0x04] ++ (inp.drop 20).take 32 ++ (inp.drop 54).take 32) with
          | none => rfl
          | some pub =>
            dsimp only
            by_cases h4 : (Int.tmod ((inp.length : Int) - 16 - ((86 : Nat) : Int) - 32) 16 != 0) = true
            · rw [if_pos h4, if_pos h4]
            · rw [if_neg h4, if_neg h4]
              have hs : (fitPrims pr).sha512 = pr.sha512 := rfl
              have hm : (fitPrims pr).hmac256 = pr.hmac256 := rfl
              rw [hs, hm]
              by_cases h5 : (inp.drop (inp.length - 32) !=
                  pr.hmac256 ((pr.sha512 (Ecies.sharedSecret d pub)).drop 32) (inp.take (inp.length - 32))) = true
              · rw [if_pos h5, if_pos h5]
              · rw [if_neg h5, if_neg h5]
                have hsl : ((inp.take (inp.length - 32)).drop 86).length = inp.length - 32 - 86 := by
                  simp
                have hmod : ((inp.take (inp.length - 32)).drop 86).length % 16 = 0 := by
                  rw [hsl]
                  simp only [bne_iff_ne, ne_eq, Decidable.not_not] at h4
                  rw [Int.tmod_eq_emod_of_nonneg (by omega)] at h4
                  omega
                show Ecies.removePKCSPadding (fit _ (pr.cbcDec _ _ _)) = _
                rw [fit_of_length _ _ (hdec _ _ _ hmod)]

theorem real_decrypt_fitPrims (d : Nat) (inp : Bytes) :
    Ecies.decrypt (fitPrims realPrims) d inp = Ecies.decrypt realPrims d inp :=
  decrypt_fitPrims realPrims real_cbcDec_len d inp

end GoBk.Proofs.PrimsExtra

#print axioms GoBk.Proofs.PrimsExtra.real_pbkdf2_len
#print axioms GoBk.Proofs.PrimsExtra.cbcDec_length
#print axioms GoBk.Proofs.PrimsExtra.real_cbcDec_len'
#print axioms GoBk.Proofs.PrimsExtra.real_cbcDec_len
#print axioms GoBk.Proofs.PrimsExtra.real_cbcDec_len_unaligned_false
#print axioms GoBk.Proofs.PrimsExtra.decrypt_fitPrims
#print axioms GoBk.Proofs.PrimsExtra.real_decrypt_fitPrims
