/-
  GoBk.Proofs.PrimsOKLemmasModes — CBC and CFB-128 over the executable AES: lengths and
  decrypt ∘ encrypt = id.  Core Lean only.
-/
import GoBk.Proofs.PrimsOKLemmasAes

namespace GoBk.Proofs.PrimsOK
open GoBk GoBk.Hash GoBk.Hash.Aes

/-! ### blocks ↔ bytes -/

theorem Blk.next_toBytes (b : Blk) (rest : Bytes) : Blk.next (b.toBytes ++ rest) = (b, rest) := by
  cases b
  simp [Blk.next, Blk.toBytes, wordBytes, nextWord, next, mkWord_bytes]

theorem cons_of_len (d : Bytes) (n : Nat) (h : n + 1 ≤ d.length) :
    ∃ x d', d = x :: d' ∧ n ≤ d'.length := by
  cases d with
  | nil => simp at h
  | cons x d' => exact ⟨x, d', rfl, by simpa using h⟩

/-- a block read from at least 16 bytes consumes exactly the first 16. -/
theorem Blk.toBytes_next (d : Bytes) (h : 16 ≤ d.length) :
    (Blk.next d).1.toBytes ++ (Blk.next d).2 = d := by
  obtain ⟨x0, d, rfl, h0⟩ := cons_of_len d _ h
  obtain ⟨x1, d, rfl, h1⟩ := cons_of_len d _ h0
  obtain ⟨x2, d, rfl, h2⟩ := cons_of_len d _ h1
  obtain ⟨x3, d, rfl, h3⟩ := cons_of_len d _ h2
  obtain ⟨x4, d, rfl, h4⟩ := cons_of_len d _ h3
  obtain ⟨x5, d, rfl, h5⟩ := cons_of_len d _ h4
  obtain ⟨x6, d, rfl, h6⟩ := cons_of_len d _ h5
  obtain ⟨x7, d, rfl, h7⟩ := cons_of_len d _ h6
  obtain ⟨x8, d, rfl, h8⟩ := cons_of_len d _ h7
  obtain ⟨x9, d, rfl, h9⟩ := cons_of_len d _ h8
  obtain ⟨x10, d, rfl, h10⟩ := cons_of_len d _ h9
  obtain ⟨x11, d, rfl, h11⟩ := cons_of_len d _ h10
  obtain ⟨x12, d, rfl, h12⟩ := cons_of_len d _ h11
  obtain ⟨x13, d, rfl, h13⟩ := cons_of_len d _ h12
  obtain ⟨x14, d, rfl, h14⟩ := cons_of_len d _ h13
  obtain ⟨x15, d, rfl, h15⟩ := cons_of_len d _ h14
  simp [Blk.next, Blk.toBytes, wordBytes, nextWord, next, b0_mkWord, b1_mkWord, b2_mkWord, b3_mkWord]

theorem Blk.next_snd_length (d : Bytes) : (Blk.next d).2.length = d.length - 16 := by
  have hn : ∀ l : Bytes, (next l).2.length = l.length - 1 := by
    intro l; cases l <;> simp [next]
  have hw : ∀ l : Bytes, (nextWord l).2.length = l.length - 4 := by
    intro l; simp only [nextWord, hn]; omega
  simp only [Blk.next, hw]; omega

theorem Blk.xor_xor (p q : Blk) : (p.xor q).xor q = p := by
  cases p; cases q
  simp [Blk.xor, UInt32.xor_assoc]

theorem take_append_add (a b : Bytes) (m : Nat) : (a ++ b).take (a.length + m) = a ++ b.take m := by
  rw [List.take_append, List.take_of_length_le (Nat.le_add_right _ _), Nat.add_sub_cancel_left]

/-! ### CBC -/

theorem cbcEnc_succ (k : Key) (n : Nat) (prev : Blk) (data : Bytes) :
    cbcEnc k (n+1) prev data =
      (encryptBlk k ((Blk.next data).1.xor prev)).toBytes ++
        cbcEnc k n (encryptBlk k ((Blk.next data).1.xor prev)) (Blk.next data).2 := rfl

theorem cbcDec_succ (k : Key) (n : Nat) (prev : Blk) (data : Bytes) :
    cbcDec k (n+1) prev data =
      ((decryptBlk k (Blk.next data).1).xor prev).toBytes ++
        cbcDec k n (Blk.next data).1 (Blk.next data).2 := rfl

theorem cbcEnc_length (k : Key) (n : Nat) (prev : Blk) (data : Bytes) :
    (cbcEnc k n prev data).length = 16 * n := by
  induction n generalizing prev data with
  | zero => rfl
  | succ n ih => rw [cbcEnc_succ, List.length_append, Blk.toBytes_length, ih]; omega

theorem cbcDec_cbcEnc (k : Key) (n : Nat) (prev : Blk) (data : Bytes) (h : 16 * n ≤ data.length) :
    cbcDec k n prev (cbcEnc k n prev data) = data.take (16 * n) := by
  induction n generalizing prev data with
  | zero => simp [cbcDec]
  | succ n ih =>
    have hd := Blk.toBytes_next data (by omega)
    have hl := Blk.next_snd_length data
    rw [cbcEnc_succ, cbcDec_succ, Blk.next_toBytes]
    simp only
    rw [decryptBlk_encryptBlk, Blk.xor_xor, ih _ _ (by omega)]
    conv => rhs; rw [← hd, show 16 * (n + 1) = (Blk.next data).1.toBytes.length + 16 * n by
      rw [Blk.toBytes_length]; omega, take_append_add]

/-! ### CFB-128 -/

theorem xorBytes_length (x y : Bytes) : (xorBytes x y).length = min x.length y.length := by
  simp [xorBytes]

theorem xorBytes_cancel (x y : Bytes) (h : x.length ≤ y.length) : xorBytes (xorBytes x y) y = x := by
  induction x generalizing y with
  | nil => simp [xorBytes]
  | cons a x ih =>
    cases y with
    | nil => simp at h
    | cons b y =>
      have := ih y (by simpa using h)
      simp only [xorBytes] at this ⊢
      simp [this, UInt8.xor_assoc]

theorem cfb_succ (k : Key) (dec : Bool) (n : Nat) (prev : Blk) (data : Bytes) :
    cfb k dec (n+1) prev data =
      xorBytes (data.take 16) (encryptBlk k prev).toBytes ++
        cfb k dec n (Blk.ofBytes (if dec then data.take 16 else
          xorBytes (data.take 16) (encryptBlk k prev).toBytes)) (data.drop 16) := rfl

theorem cfb_nil (k : Key) (dec : Bool) (n : Nat) (prev : Blk) : cfb k dec n prev [] = [] := by
  induction n generalizing prev with
  | zero => rfl
  | succ n ih => rw [cfb_succ]; simp [xorBytes, ih]

theorem cfb_length (k : Key) (dec : Bool) (n : Nat) (prev : Blk) (data : Bytes) :
    (cfb k dec n prev data).length = min (16 * n) data.length := by
  induction n generalizing prev data with
  | zero => simp [cfb]
  | succ n ih =>
    rw [cfb_succ, List.length_append, ih, xorBytes_length, Blk.toBytes_length, List.length_take,
      List.length_drop]
    omega

theorem cfb_dec_enc (k : Key) (n : Nat) (prev : Blk) (data : Bytes) :
    cfb k true n prev (cfb k false n prev data) = data.take (16 * n) := by
  induction n generalizing prev data with
  | zero => simp [cfb]
  | succ n ih =>
    rw [cfb_succ k false]
    simp only [Bool.false_eq_true, if_false]
    generalize hks : (encryptBlk k prev).toBytes = ks
    have hksl : ks.length = 16 := by rw [← hks, Blk.toBytes_length]
    generalize hout : xorBytes (data.take 16) ks = out
    have houtl : out.length = min data.length 16 := by
      rw [← hout, xorBytes_length, List.length_take, hksl]; omega
    have hcancel : xorBytes out ks = data.take 16 := by
      rw [← hout]; exact xorBytes_cancel _ _ (by rw [List.length_take, hksl]; omega)
    rw [cfb_succ k true]
    simp only [if_true]
    by_cases hlen : 16 ≤ data.length
    · have h16 : out.length = 16 := by omega
      have e1 : (out ++ cfb k false n (Blk.ofBytes out) (data.drop 16)).take 16 = out := by
        rw [List.take_append, List.take_of_length_le (by omega), h16]; simp
      have e2 : (out ++ cfb k false n (Blk.ofBytes out) (data.drop 16)).drop 16 =
          cfb k false n (Blk.ofBytes out) (data.drop 16) := by
        rw [List.drop_append, List.drop_of_length_le (by omega), h16]; simp
      rw [e1, e2, hks, hcancel, ih]
      conv => rhs; rw [← List.take_append_drop 16 data, show 16 * (n + 1) = (data.take 16).length + 16 * n by
        rw [List.length_take]; omega, take_append_add]
    · have hdrop : data.drop 16 = [] := List.drop_of_length_le (by omega)
      rw [hdrop, cfb_nil, List.append_nil, List.take_of_length_le (by omega : out.length ≤ 16), hks,
        hcancel, List.drop_of_length_le (by omega : out.length ≤ 16), cfb_nil, List.append_nil,
        List.take_of_length_le (by omega), List.take_of_length_le (by omega)]

end GoBk.Proofs.PrimsOK
