import GoBk.Model.Ecdsa
import GoBk.Proofs.GroupOrder
import GoBk.Proofs.CurveDef
import GoBk.Proofs.BytesLemmas
import GoBk.Spec.Sec1
/-
  Lemmas for C01 (API level) and C05: constants, `moduloReduce`, the format byte of
  `ParsePubKey`, `decompressPoint = Spec.liftX`, a closed form of `parsePubKey`.
-/
namespace GoBk.Proofs.KeyBytes
open GoBk Bytes Spec GoBk.Proofs

/-! ### regenerated constants -/

theorem c_N_eq : Gen.c_N = Spec.N := by decide
theorem c_P_eq : Gen.c_P = Spec.P := by decide
theorem Pp_eq : Ecdsa.Pp = Spec.P := c_P_eq
theorem N_eq : Ecdsa.N = Spec.N := c_N_eq

theorem P_lt_pow : Spec.P < 256 ^ 32 := by decide
theorem N_lt_pow : Spec.N < 256 ^ 32 := by decide
theorem P_lt_two_pow : Spec.P < 2 ^ 256 := by decide
theorem N_pos : 0 < Spec.N := by decide

/-! ### validity in coordinates -/

theorem valid_lt {a : Pt} (h : valid a = true) : a.1 < P ∧ a.2 < P := by
  obtain ⟨Q, rfl⟩ := (valid_iff a).1 h
  rcases Q with _ | ⟨x, y, hn⟩
  · exact ⟨P_pos, P_pos⟩
  · exact ⟨ZMod.val_lt x, ZMod.val_lt y⟩

theorem valid_of_onCurve {a : Pt} (h1 : a.1 < P) (h2 : a.2 < P) (h : onCurve a = true) :
    valid a = true := by
  simp [valid, h1, h2, h]

theorem onCurve_of_valid {a : Pt} (h : valid a = true) (hne : a ≠ inf) : onCurve a = true := by
  have hi : isInf a = false := by
    rw [Bool.eq_false_iff, Ne, isInf_iff]; exact hne
  simp only [valid, hi, Bool.false_or, Bool.and_eq_true] at h
  exact h.2

theorem not_onCurve_inf : onCurve inf = false := by decide

theorem ne_inf_of_onCurve {a : Pt} (h : onCurve a = true) : a ≠ inf := by
  rintro rfl; rw [not_onCurve_inf] at h; cases h

theorem natBEpad32_length_of_lt_P {n : Nat} (h : n < P) : (natBEpad 32 n).length = 32 :=
  natBEpad_length 32 n (Nat.lt_trans h P_lt_pow)

/-! ### `moduloReduce` -/

theorem beNat_moduloReduce (k : Bytes) : beNat (Curve.moduloReduce k) % N = beNat k % N := by
  unfold Curve.moduloReduce
  split
  · rw [beNat_natBE, c_N_eq, Nat.mod_mod]
  · rfl

theorem moduloReduce_of_le (k : Bytes) (h : k.length ≤ 32) : Curve.moduloReduce k = k := by
  unfold Curve.moduloReduce
  rw [if_neg (by omega)]

theorem smul_moduloReduce (k : Bytes) {a : Pt} (ha : valid a = true) :
    smul (beNat (Curve.moduloReduce k)) a = smul (beNat k) a := by
  rw [← smul_mod_N _ ha, beNat_moduloReduce, smul_mod_N _ ha]

theorem scalarMult_eq (k : Bytes) {a : Pt} (ha : valid a = true) :
    Curve.scalarMult a k = smul (beNat k) a := by
  rw [Curve.scalarMult_def]; exact smul_moduloReduce k ha

theorem scalarBaseMult_eq (k : Bytes) : Curve.scalarBaseMult k = smul (beNat k) G := by
  rw [Curve.scalarBaseMult_def]; exact smul_moduloReduce k valid_G

theorem scalarMult_natBE (n : Nat) {a : Pt} (ha : valid a = true) :
    Curve.scalarMult a (natBE n) = smul n a := by
  rw [scalarMult_eq _ ha, beNat_natBE]

theorem scalarBaseMult_natBE (n : Nat) : Curve.scalarBaseMult (natBE n) = smul n G := by
  rw [scalarBaseMult_eq, beNat_natBE]

/-! ### the format byte of `ParsePubKey` -/

theorem forall_uint8 (p : UInt8 → Prop) (h : ∀ n, n < 256 → p (UInt8.ofNat n)) : ∀ f, p f := by
  intro f
  have := h f.toNat f.toNat_lt
  simpa using this

theorem fmt_facts : ∀ f : UInt8,
    ((f &&& (~~~ (0x1 : UInt8))).toNat = 4 ↔ (f = 4 ∨ f = 5)) ∧
    ((f &&& (~~~ (0x1 : UInt8))).toNat = 6 ↔ (f = 6 ∨ f = 7)) ∧
    ((f &&& (~~~ (0x1 : UInt8))).toNat = 2 ↔ (f = 2 ∨ f = 3)) ∧
    (((f &&& 0x1) == 0x1) = (f.toNat % 2 == 1)) ∧
    (f = 4 ↔ ((f &&& (~~~ (0x1 : UInt8))).toNat = 4 ∧ (f.toNat % 2 == 1) = false)) := by
  apply forall_uint8
  decide +kernel

theorem parsePubKey_nil : Ecdsa.parsePubKey [] = none := rfl

theorem parsePubKey_cons (f : UInt8) (rest : Bytes) :
    Ecdsa.parsePubKey (f :: rest) =
      if rest.length = 64 then
        if (f = 4 ∨ ((f = 6 ∨ f = 7) ∧
              (f.toNat % 2 == 1) = (beNat (rest.drop 32) % 2 == 1))) ∧
            beNat (rest.take 32) < P ∧ beNat (rest.drop 32) < P ∧
            onCurve (beNat (rest.take 32), beNat (rest.drop 32)) = true
        then some (beNat (rest.take 32), beNat (rest.drop 32)) else none
      else if rest.length = 32 then
        if (f = 2 ∨ f = 3) ∧ beNat rest < P then
          (Ecdsa.decompressPoint (beNat rest) (f.toNat % 2 == 1)).map (fun y => (beNat rest, y))
        else none
      else none := by
  obtain ⟨h4, h6, h2, hbit, h4'⟩ := fmt_facts f
  unfold Ecdsa.parsePubKey
  simp only [List.isEmpty_cons, Bool.false_eq_true, if_false, List.headD_cons, List.length_cons,
    Gen.k_pubKeyBytesLenUncompressed, Gen.k_pubKeyBytesLenCompressed, Gen.k_pubkeyUncompressed,
    Gen.k_pubkeyHybrid, Gen.k_pubkeyCompressed, List.drop_succ_cons, List.drop_zero, hbit, Pp_eq,
    Curve.isOnCurve]
  simp only [h4', ← h6, ← h2]
  clear h4 h4' h6 h2 hbit
  generalize (f &&& ~~~1).toNat = fmt
  generalize (f.toNat % 2 == 1) = fb
  by_cases hl : rest.length = 64
  · simp only [hl, if_true]
    generalize beNat (rest.take 32) = x
    generalize beNat (rest.drop 32) = y
    generalize (y % 2 == 1) = yb
    by_cases c4 : fmt = 4 <;> by_cases c6 : fmt = 6 <;> by_cases cx : x < P <;> by_cases cy : y < P <;>
      cases hc : onCurve (x, y) <;> cases fb <;> cases yb <;> simp [*]
  · have hl' : ¬ (rest.length + 1 = 65) := by omega
    simp only [hl, hl', if_false, beq_iff_eq]
    by_cases hl2 : rest.length = 32
    · have ht : rest.take 32 = rest := List.take_of_length_le (by omega)
      simp only [hl2, if_true, ht]
      generalize beNat rest = x
      by_cases c2 : fmt = 2 <;> by_cases cx : x < P <;> simp [*]
      · rw [if_neg (by omega)]; cases Ecdsa.decompressPoint x fb <;> rfl
    · have hl2' : ¬ (rest.length + 1 = 33) := by omega
      simp only [hl2, hl2', if_false]

theorem negY_sq (y0 : Nat) (hy0 : y0 < P) : (P - y0) % P * ((P - y0) % P) % P = y0 * y0 % P := by
  rw [sq_eq_iff, ← neg_sqrt_val hy0, ZMod.natCast_zmod_val]
  exact Or.inr rfl

theorem decompress_eq_liftX (x : Nat) (hx : x < P) (odd : Bool) :
    Ecdsa.decompressPoint x odd = liftX x odd := by
  unfold Ecdsa.decompressPoint liftX
  have h1 : x % 2 ^ 256 % P = x := by
    rw [Nat.mod_eq_of_lt (Nat.lt_trans hx P_lt_two_pow), Nat.mod_eq_of_lt hx]
  have h2 : (x * x % P * x + 7) % P = (x * x * x + B) % P := by
    show _ = (x * x * x + 7) % P
    rw [Nat.add_mod, Nat.mod_mul_mod]
    rw [← Nat.add_mod]
  simp only [Pp_eq, h1, h2, if_neg (Nat.not_le.2 hx)]
  generalize (x * x * x + B) % P = c
  have hy0 : sqrtCand c < P := sqrtCand_lt c
  generalize sqrtCand c = y0 at *
  have hn := negY_sq y0 hy0
  by_cases hp : (y0 % 2 == 1) = odd
  · have e1 : (odd != (y0 % 2 == 1)) = false := by subst hp; simp
    simp [hp]
  · have e1 : (odd != (y0 % 2 == 1)) = true := by
      cases odd <;> cases h : (y0 % 2 == 1) <;> simp_all
    have e2 : ((y0 % 2 == 1) == odd) = false := by
      cases odd <;> cases h : (y0 % 2 == 1) <;> simp_all
    simp only [e1, e2, if_true, hn, Bool.false_eq_true, if_false]
    by_cases hs : y0 * y0 % P = c
    · simp [hs]
      cases odd <;> cases h : ((P - y0) % P % 2 == 1) <;> simp_all
    · simp [hs]

theorem decompress_spec (x : Nat) (hx : x < P) (ybit : Bool) (y : Nat) :
    Ecdsa.decompressPoint x ybit = some y ↔
      y < P ∧ onCurve (x, y) = true ∧ (y % 2 == 1) = ybit := by
  rw [decompress_eq_liftX x hx, liftX_spec]
  exact ⟨fun h => h.2, fun h => ⟨hx, h⟩⟩

/-! ### fixed-width fields -/

theorem lt_pow_of_lt_P {n : Nat} (h : n < P) : n < 256 ^ 32 := Nat.lt_trans h P_lt_pow

theorem rest_split (rest : Bytes) (h : rest.length = 64) :
    rest = natBEpad 32 (beNat (rest.take 32)) ++ natBEpad 32 (beNat (rest.drop 32)) := by
  have h1 : (rest.take 32).length = 32 := by rw [List.length_take]; omega
  have h2 : (rest.drop 32).length = 32 := by rw [List.length_drop]; omega
  have e1 := natBEpad_beNat (rest.take 32)
  have e2 := natBEpad_beNat (rest.drop 32)
  rw [h1] at e1; rw [h2] at e2
  rw [e1, e2, List.take_append_drop]

theorem pad_pair (x y : Nat) (hx : x < 256 ^ 32) (hy : y < 256 ^ 32) :
    (natBEpad 32 x ++ natBEpad 32 y).length = 64 ∧
    beNat ((natBEpad 32 x ++ natBEpad 32 y).take 32) = x ∧
    beNat ((natBEpad 32 x ++ natBEpad 32 y).drop 32) = y := by
  refine ⟨?_, ?_, ?_⟩
  · rw [List.length_append, natBEpad_length _ _ hx, natBEpad_length _ _ hy]
  · rw [take_natBEpad_append _ _ _ hx, beNat_natBEpad]
  · rw [drop_natBEpad_append _ _ _ hx, beNat_natBEpad]

theorem parity_odd {y : Nat} (h : y % 2 = 1) : parity y = 1 := by simp [parity, h]
theorem parity_even {y : Nat} (h : ¬ y % 2 = 1) : parity y = 0 := by simp [parity, h]

/-- the characterisation of `ParsePubKey` by the SEC1 language -/
theorem parsePubKey_iff_sec1 (b : Bytes) (q : Pt) : Ecdsa.parsePubKey b = some q ↔ sec1 b q := by
  obtain ⟨qx, qy⟩ := q
  cases b with
  | nil =>
    rw [parsePubKey_nil]
    constructor
    · intro h; cases h
    · rintro ⟨_, _, _, h | h | h⟩ <;> simp at h
  | cons f rest =>
    rw [parsePubKey_cons]
    constructor
    · intro h
      split at h
      · rename_i hl
        split at h
        · rename_i hc
          obtain ⟨hf, hx, hy, hon⟩ := hc
          have hs := rest_split rest hl
          simp only [Option.some.injEq, Prod.mk.injEq] at h
          obtain ⟨rfl, rfl⟩ := h
          refine ⟨hx, hy, hon, ?_⟩
          rcases hf with rfl | ⟨rfl | rfl, hp⟩
          · left; simp only [List.cons_append, List.nil_append]; rw [← hs]
          · right; left
            have : ¬ beNat (rest.drop 32) % 2 = 1 := by
              intro e; rw [e] at hp; revert hp; decide
            rw [parity_even this]
            simp only [List.cons_append, List.nil_append]; rw [← hs]; rfl
          · right; left
            have : beNat (rest.drop 32) % 2 = 1 := by
              have : (beNat (rest.drop 32) % 2 == 1) = true := by rw [← hp]; decide
              simpa using this
            rw [parity_odd this]
            simp only [List.cons_append, List.nil_append]; rw [← hs]; rfl
        · cases h
      · split at h
        · rename_i hl
          split at h
          · rename_i hc
            obtain ⟨hf, hx⟩ := hc
            cases hd : Ecdsa.decompressPoint (beNat rest) (f.toNat % 2 == 1) with
            | none => rw [hd] at h; cases h
            | some y =>
              rw [hd] at h
              simp only [Option.map_some, Option.some.injEq, Prod.mk.injEq] at h
              obtain ⟨rfl, rfl⟩ := h
              obtain ⟨hy, hon, hpar⟩ := (decompress_spec _ hx _ _).1 hd
              refine ⟨hx, hy, hon, Or.inr (Or.inr ?_)⟩
              have hr := natBEpad_beNat rest
              rw [hl] at hr
              rcases hf with rfl | rfl
              · have : ¬ y % 2 = 1 := by
                  intro e; rw [e] at hpar; revert hpar; decide
                rw [parity_even this, hr]; rfl
              · have : y % 2 = 1 := by
                  have : (y % 2 == 1) = true := by rw [hpar]; decide
                  simpa using this
                rw [parity_odd this, hr]; rfl
          · cases h
        · cases h
    · rintro ⟨hx, hy, hon, h | h | h⟩
      · simp only [List.cons_append, List.nil_append, List.cons.injEq] at h
        obtain ⟨rfl, rfl⟩ := h
        obtain ⟨hl, e1, e2⟩ := pad_pair qx qy (lt_pow_of_lt_P hx) (lt_pow_of_lt_P hy)
        rw [if_pos hl, e1, e2, if_pos ⟨Or.inl rfl, hx, hy, hon⟩]
      · simp only [List.cons_append, List.nil_append, List.cons.injEq] at h
        obtain ⟨rfl, rfl⟩ := h
        obtain ⟨hl, e1, e2⟩ := pad_pair qx qy (lt_pow_of_lt_P hx) (lt_pow_of_lt_P hy)
        rw [if_pos hl, e1, e2, if_pos]
        refine ⟨Or.inr ?_, hx, hy, hon⟩
        by_cases hp : qy % 2 = 1
        · rw [parity_odd hp]; simp [hp]
        · rw [parity_even hp]; simp [hp]
      · simp only [List.singleton_append, List.cons.injEq] at h
        obtain ⟨rfl, rfl⟩ := h
        have hl : (natBEpad 32 qx).length = 32 := natBEpad_length _ _ (lt_pow_of_lt_P hx)
        rw [if_neg (by omega), if_pos hl, beNat_natBEpad]
        by_cases hp : qy % 2 = 1
        · rw [parity_odd hp, if_pos ⟨Or.inr (by decide), hx⟩]
          have : Ecdsa.decompressPoint qx (((2:UInt8) + 1).toNat % 2 == 1) = some qy :=
            (decompress_spec _ hx _ _).2 ⟨hy, hon, by simp [hp]⟩
          rw [this]; rfl
        · rw [parity_even hp, if_pos ⟨Or.inl (by decide), hx⟩]
          have : Ecdsa.decompressPoint qx (((2:UInt8) + 0).toNat % 2 == 1) = some qy :=
            (decompress_spec _ hx _ _).2 ⟨hy, hon, by simp [hp]⟩
          rw [this]; rfl

end GoBk.Proofs.KeyBytes
