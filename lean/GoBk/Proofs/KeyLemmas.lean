import GoBk.Model.Ecdsa
import GoBk.Proofs.GroupOrder
import GoBk.Proofs.BytesLemmas
/-
  Lemmas for C01 (API level) and C05: constants, `moduloReduce`, the format byte of
  `ParsePubKey`, `decompressPoint = Spec.liftX`, a closed form of `parsePubKey`.
-/
namespace GoBk.Proofs.KeyBytes
open GoBk Bytes Spec GoBk.Proofs

/-! ### regenerated constants -/

theorem c_N_eq : Gen.c_N = Spec.N := by decide
theorem c_P_eq : Gen.c_P = Spec.P := by decide
theorem Pp_eq : Ecdsa.Pp = Spec.P := c_P_eq
theorem N_eq : Ecdsa.N = Spec.N := c_N_eq

theorem P_lt_pow : Spec.P < 256 ^ 32 := by decide
theorem N_lt_pow : Spec.N < 256 ^ 32 := by decide
theorem P_lt_two_pow : Spec.P < 2 ^ 256 := by decide
theorem N_pos : 0 < Spec.N := by decide

/-! ### validity in coordinates -/

theorem valid_lt {a : Pt} (h : valid a = true) : a.1 < P ∧ a.2 < P := by
  obtain ⟨Q, rfl⟩ := (valid_iff a).1 h
  rcases Q with _ | ⟨x, y, hn⟩
  · exact ⟨P_pos, P_pos⟩
  · exact ⟨ZMod.val_lt x, ZMod.val_lt y⟩

theorem valid_of_onCurve {a : Pt} (h1 : a.1 < P) (h2 : a.2 < P) (h : onCurve a = true) :
    valid a = true := by
  simp [valid, h1, h2, h]

theorem onCurve_of_valid {a : Pt} (h : valid a = true) (hne : a ≠ inf) : onCurve a = true := by
  have hi : isInf a = false := by
    rw [Bool.eq_false_iff, Ne, isInf_iff]; exact hne
  simp only [valid, hi, Bool.false_or, Bool.and_eq_true] at h
  exact h.2

theorem not_onCurve_inf : onCurve inf = false := by decide

theorem ne_inf_of_onCurve {a : Pt} (h : onCurve a = true) : a ≠ inf := by
  rintro rfl; rw [not_onCurve_inf] at h; cases h

theorem natBEpad32_length_of_lt_P {n : Nat} (h : n < P) : (natBEpad 32 n).length = 32 :=
  natBEpad_length 32 n (Nat.lt_trans h P_lt_pow)

/-! ### `moduloReduce` -/

theorem beNat_moduloReduce (k : Bytes) : beNat (Curve.moduloReduce k) % N = beNat k % N := by
  unfold Curve.moduloReduce
  split
  · rw [beNat_natBE, c_N_eq, Nat.mod_mod]
  · rfl

theorem moduloReduce_of_le (k : Bytes) (h : k.length ≤ 32) : Curve.moduloReduce k = k := by
  unfold Curve.moduloReduce
  rw [if_neg (by omega)]

theorem smul_moduloReduce (k : Bytes) {a : Pt} (ha : valid a = true) :
    smul (beNat (Curve.moduloReduce k)) a = smul (beNat k) a := by
  rw [← smul_mod_N _ ha, beNat_moduloReduce, smul_mod_N _ ha]

theorem scalarMult_eq (k : Bytes) {a : Pt} (ha : valid a = true) :
    Curve.scalarMult a k = smul (beNat k) a := smul_moduloReduce k ha

theorem scalarBaseMult_eq (k : Bytes) : Curve.scalarBaseMult k = smul (beNat k) G :=
  smul_moduloReduce k valid_G

theorem scalarMult_natBE (n : Nat) {a : Pt} (ha : valid a = true) :
    Curve.scalarMult a (natBE n) = smul n a := by
  rw [scalarMult_eq _ ha, beNat_natBE]

theorem scalarBaseMult_natBE (n : Nat) : Curve.scalarBaseMult (natBE n) = smul n G := by
  rw [scalarBaseMult_eq, beNat_natBE]

end GoBk.Proofs.KeyBytes
