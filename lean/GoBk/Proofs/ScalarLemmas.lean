import GoBk.Proofs.Endo
import GoBk.Proofs.CurveDef
import GoBk.Proofs.ConstsEq
import GoBk.Proofs.BytesLemmas
import GoBk.Model.CurveImpl
import Mathlib.Tactic.Ring
import Mathlib.Tactic.Abel
import Mathlib.Tactic.Module
import Mathlib.Tactic.LinearCombination
import Mathlib.Tactic.Linarith
import Mathlib.Data.Int.ModEq

/-
  GoBk.Proofs.ScalarLemmas — everything of "CurveImpl.scalarMult = Curve.scalarMult" (and the same
  for ScalarBaseMult) EXCEPT the correctness of the regenerated Jacobian formulas, which is the
  explicit hypothesis `FormulaOK` (+ `InputOK F B`, `TableOK F`).

  1. GLV: `c_lambda_eq`, `glv_basis1/2`, `glv_det` (kernel computations on Gen.c_*), `splitK1/2`
     (signed halves), `splitK_eq`, `splitK_signed`, `splitK_spec`, `splitK_bounds`, `splitK_natAbs_lt`,
     `splitK_length_le`, `splitK_zero1`, `implModuloReduce_eq`, `implModuloReduce_spec`.
  2. bits/NAF: `bval`, `byteBits`, `beNat_eq_bval`, `bitsLE_eq`, `noBoth`, `stVal`, `nafStep_spec`,
     `nafGo_spec`, `bitsBE_packBitsBE`, `naf_eq`, `nafSt_spec`, `naf_spec`, `noBoth_getElem?`;
  3. loops: `FormulaOK`, `InputOK`, `TableOK`, `dig`, `loopPt`, `smulLoop_spec`, `loopPt_eq`, `V_zip`,
     `loop_core`, `scalarMult_impl_eq`, `tableFold_spec`, `scalarBaseMult_impl_eq`.

  Kernel note: `CurveImpl.scalarMult` must never be unfolded by `unfold`/`delta`/`simp`/`rfl`: the
  kernel then weak-head-normalises matchers whose discriminant is the closed term
  `if Int.sign (splitK1 …) == -1 …` and runs away (deep recursion).  It is unfolded with
  `scalarMult_fun : scalarMult = valueOf% scalarMult := rfl` (one δ-step, pointer equality) and the
  closed discriminants are bound by real λ's (`obtain ⟨z, hz⟩ : ∃ z, e = z`) before any `split`.

     non-adjacency (not used by the loop proofs): `nonAdjB`, `naf_nonAdj`, `nonAdjB_getElem?`.

  not yet proved: — (all requested statements are proved).
-/
open Lean Elab Term in
/-- the definitional value of a constant (so that `c = valueOf% c` is checked by the kernel by
one δ-step and pointer equality, without normalising the body) -/
elab "valueOf% " id:ident : term => do
  let c ← realizeGlobalConstNoOverloadWithInfo id
  let some v := ((← getEnv).find? c).bind (·.value?) | throwError "no value"
  return v

namespace GoBk.Proofs
open GoBk Bytes Spec WeierstrassCurve.Affine

/-! ## 1. GLV decomposition (`splitK`) and `moduloReduce` -/

theorem c_lambda_eq : Gen.c_lambda = lambda := by decide
theorem c_beta_eq : Gen.c_beta = beta := by decide

theorem glv_basis1 : (Gen.c_a1 + Gen.c_b1 * (Gen.c_lambda : Int)) % (Gen.c_N : Int) = 0 := by decide +kernel
theorem glv_basis2 : (Gen.c_a2 + Gen.c_b2 * (Gen.c_lambda : Int)) % (Gen.c_N : Int) = 0 := by decide +kernel
theorem glv_det : Gen.c_a1 * Gen.c_b2 - Gen.c_a2 * Gen.c_b1 = (Gen.c_N : Int) := by decide +kernel

/-- signed halves of the GLV decomposition computed by `splitK` -/
def splitK1 (k : Bytes) : Int :=
  (beNat k : Int) - ((Gen.c_b2 * (beNat k : Int)).ediv (Gen.c_N : Int)) * Gen.c_a1
    + ((Gen.c_b1 * (beNat k : Int)).ediv (Gen.c_N : Int)) * Gen.c_a2
def splitK2 (k : Bytes) : Int :=
  ((Gen.c_b1 * (beNat k : Int)).ediv (Gen.c_N : Int)) * Gen.c_b2
    - ((Gen.c_b2 * (beNat k : Int)).ediv (Gen.c_N : Int)) * Gen.c_b1

theorem splitK_eq (k : Bytes) : CurveImpl.splitK k =
    (natBE (splitK1 k).natAbs, natBE (splitK2 k).natAbs, Int.sign (splitK1 k), Int.sign (splitK2 k)) := rfl

/-- `k1 + k2·λ ≡ k (mod N)` for the signed halves -/
theorem splitK_signed (k : Bytes) :
    splitK1 k + splitK2 k * (lambda : Int) ≡ (beNat k : Int) [ZMOD (N : Int)] := by
  obtain ⟨q1, h1⟩ := Int.dvd_of_emod_eq_zero glv_basis1
  obtain ⟨q2, h2⟩ := Int.dvd_of_emod_eq_zero glv_basis2
  unfold splitK1 splitK2
  rw [← c_lambda_eq, ← cN, Int.modEq_iff_dvd]
  generalize (Gen.c_b2 * (beNat k : Int)).ediv (Gen.c_N : Int) = c1
  generalize (Gen.c_b1 * (beNat k : Int)).ediv (Gen.c_N : Int) = c2
  refine ⟨c1 * q1 - c2 * q2, ?_⟩
  linear_combination c1 * h1 - c2 * h2

/-- the statement on the four outputs of `splitK`: signs times magnitudes -/
theorem splitK_spec (k : Bytes) :
    ((CurveImpl.splitK k).2.2.1 * (beNat (CurveImpl.splitK k).1 : Int)
      + (CurveImpl.splitK k).2.2.2 * (beNat (CurveImpl.splitK k).2.1 : Int) * (lambda : Int))
      ≡ (beNat k : Int) [ZMOD (N : Int)] := by
  have h := splitK_signed k
  simp only [splitK_eq, beNat_natBE, Int.natCast_natAbs, Int.sign_mul_abs]
  exact h

theorem glv_lin1 (K a1 a2 b1 b2 n c1 c2 r1 r2 : Int) (hd : a1*b2 - a2*b1 = n)
    (e1 : r1 + n * c1 = b2 * K) (e2 : r2 + n * c2 = b1 * K) :
    n * (K - c1*a1 + c2*a2) = r1*a1 - r2*a2 := by
  linear_combination (-K) * hd - a1 * e1 + a2 * e2

theorem glv_lin2 (K b1 b2 n c1 c2 r1 r2 : Int)
    (e1 : r1 + n * c1 = b2 * K) (e2 : r2 + n * c2 = b1 * K) :
    n * (c2 * b2 - c1 * b1) = r1*b1 - r2*b2 := by
  linear_combination (-b1) * e1 + b2 * e2

theorem glv_num1 (k1 r1 r2 : Int) (h0 : 0 ≤ r1) (h1 : r1 < 0xfffffffffffffffffffffffffffffffebaaedce6af48a03bbfd25e8cd0364141)
    (h2 : 0 ≤ r2) (h3 : r2 < 0xfffffffffffffffffffffffffffffffebaaedce6af48a03bbfd25e8cd0364141)
    (h : 0xfffffffffffffffffffffffffffffffebaaedce6af48a03bbfd25e8cd0364141 * k1 = r1 * 0x3086d221a7d46bcde86c90e49284eb15 - r2 * 0x114ca50f7a8e2f3f657c1108d9d44cfd8) :
    -2^129 < k1 ∧ k1 < 2^129 := by
  constructor <;> linarith

theorem glv_num2 (k2 r1 r2 : Int) (h0 : 0 ≤ r1) (h1 : r1 < 0xfffffffffffffffffffffffffffffffebaaedce6af48a03bbfd25e8cd0364141)
    (h2 : 0 ≤ r2) (h3 : r2 < 0xfffffffffffffffffffffffffffffffebaaedce6af48a03bbfd25e8cd0364141)
    (h : 0xfffffffffffffffffffffffffffffffebaaedce6af48a03bbfd25e8cd0364141 * k2 = r1 * (-0xe4437ed6010e88286f547fa90abfe4c3) - r2 * 0x3086d221a7d46bcde86c90e49284eb15) :
    -2^129 < k2 ∧ k2 < 2^129 := by
  constructor <;> linarith

/-- both halves are shorter than 130 bits, for EVERY input (no `k < N` needed) -/
theorem splitK_bounds (k : Bytes) :
    (-2^129 < splitK1 k ∧ splitK1 k < 2^129) ∧ (-2^129 < splitK2 k ∧ splitK2 k < 2^129) := by
  have hN : (0 : Int) < (Gen.c_N : Int) := by decide
  have e1 := Int.emod_add_mul_ediv (Gen.c_b2 * (beNat k : Int)) (Gen.c_N : Int)
  have e2 := Int.emod_add_mul_ediv (Gen.c_b1 * (beNat k : Int)) (Gen.c_N : Int)
  have r1a := Int.emod_nonneg (Gen.c_b2 * (beNat k : Int)) (ne_of_gt hN)
  have r1b := Int.emod_lt_of_pos (Gen.c_b2 * (beNat k : Int)) hN
  have r2a := Int.emod_nonneg (Gen.c_b1 * (beNat k : Int)) (ne_of_gt hN)
  have r2b := Int.emod_lt_of_pos (Gen.c_b1 * (beNat k : Int)) hN
  have i1 := glv_lin1 _ _ _ _ _ _ _ _ _ _ glv_det e1 e2
  have i2 := glv_lin2 _ _ _ _ _ _ _ _ e1 e2
  exact ⟨glv_num1 _ _ _ r1a r1b r2a r2b i1, glv_num2 _ _ _ r1a r1b r2a r2b i2⟩

theorem splitK_natAbs_lt (k : Bytes) :
    (splitK1 k).natAbs < 2 ^ 129 ∧ (splitK2 k).natAbs < 2 ^ 129 := by
  obtain ⟨⟨a, b⟩, c, d⟩ := splitK_bounds k
  constructor <;> omega

/-- magnitudes have at most 17 bytes -/
theorem splitK_length_le (k : Bytes) :
    (CurveImpl.splitK k).1.length ≤ 17 ∧ (CurveImpl.splitK k).2.1.length ≤ 17 := by
  obtain ⟨a, b⟩ := splitK_natAbs_lt k
  rw [splitK_eq]
  exact ⟨natBE_length_le _ 17 (lt_trans a (by decide)), natBE_length_le _ 17 (lt_trans b (by decide))⟩

/-- a zero half has sign 0 and empty bytes -/
theorem splitK_zero1 (k : Bytes) :
    ((CurveImpl.splitK k).2.2.1 = 0 ↔ (CurveImpl.splitK k).1 = []) ∧
    ((CurveImpl.splitK k).2.2.2 = 0 ↔ (CurveImpl.splitK k).2.1 = []) := by
  rw [splitK_eq]
  simp only [natBE_eq_nil_iff, Int.sign_eq_zero_iff_zero, Int.natAbs_eq_zero, and_self]

theorem implModuloReduce_eq (k : Bytes) : CurveImpl.moduloReduce k = Curve.moduloReduce k := rfl

theorem implModuloReduce_spec (k : Bytes) :
    beNat (CurveImpl.moduloReduce k) ≡ beNat k [MOD N] ∧
    (k.length ≤ 32 → CurveImpl.moduloReduce k = k) ∧
    (CurveImpl.moduloReduce k).length ≤ 32 := by
  unfold CurveImpl.moduloReduce
  rw [cBitSize, cN]
  refine ⟨?_, ?_, ?_⟩
  · split
    · rw [beNat_natBE]; exact Nat.mod_modEq _ _
    · rfl
  · intro h; rw [if_neg (by omega)]
  · split
    · exact natBE_length_le _ 32 (lt_trans (Nat.mod_lt _ (by decide)) (by decide))
    · omega

/-! ## 2. bits and NAF -/

/-- value of a bit list, most significant first -/
def bval (l : List Bool) : Nat := l.foldl (fun acc b => 2 * acc + b.toNat) 0

theorem bval_foldl (l : List Bool) (a : Nat) :
    l.foldl (fun acc b => 2 * acc + b.toNat) a = a * 2 ^ l.length + bval l := by
  induction l generalizing a with
  | nil => simp [bval]
  | cons x l ih =>
    simp only [List.foldl_cons, List.length_cons, bval]
    rw [ih, ih (2 * 0 + x.toNat)]; ring

theorem bval_nil : bval [] = 0 := rfl
theorem bval_cons (b : Bool) (l : List Bool) : bval (b :: l) = b.toNat * 2 ^ l.length + bval l := by
  simp only [bval, List.foldl_cons]; rw [bval_foldl]; simp [bval]
theorem bval_append (a b : List Bool) : bval (a ++ b) = bval a * 2 ^ b.length + bval b := by
  simp only [bval, List.foldl_append]; rw [bval_foldl]; rfl
theorem bval_replicate_false (n : Nat) : bval (List.replicate n false) = 0 := by
  induction n with
  | zero => rfl
  | succ n ih => rw [List.replicate_succ, bval_cons, ih]; simp
theorem bval_lt (l : List Bool) : bval l < 2 ^ l.length := by
  induction l with
  | nil => simp [bval]
  | cons b l ih => rw [bval_cons, List.length_cons, pow_succ]; cases b <;> simp <;> omega

/-- bits of one byte, most significant first -/
def byteBits (b : UInt8) : List Bool := (List.range 8).reverse.map (CurveImpl.bit b)

theorem byteBits_length (b : UInt8) : (byteBits b).length = 8 := by simp [byteBits]

theorem bval_byteBits (b : UInt8) : bval (byteBits b) = b.toNat := by
  have h : ∀ n, n < 256 → bval (byteBits (UInt8.ofNat n)) = (UInt8.ofNat n).toNat := by decide +kernel
  have := h b.toNat (UInt8.toNat_lt b)
  simpa using this

theorem bitsBE_nil : CurveImpl.bitsBE [] = [] := rfl
theorem bitsBE_cons (b : UInt8) (k : Bytes) : CurveImpl.bitsBE (b :: k) = byteBits b ++ CurveImpl.bitsBE k := by
  simp [CurveImpl.bitsBE, byteBits]
theorem bitsBE_append (a b : Bytes) : CurveImpl.bitsBE (a ++ b) = CurveImpl.bitsBE a ++ CurveImpl.bitsBE b := by
  simp [CurveImpl.bitsBE]
theorem bitsBE_length (k : Bytes) : (CurveImpl.bitsBE k).length = 8 * k.length := by
  induction k with
  | nil => rfl
  | cons b k ih => rw [bitsBE_cons, List.length_append, byteBits_length, ih, List.length_cons]; ring
theorem bitsBE_replicate_zero (n : Nat) :
    CurveImpl.bitsBE (List.replicate n (0 : UInt8)) = List.replicate (8 * n) false := by
  induction n with
  | zero => rfl
  | succ n ih =>
    rw [List.replicate_succ, bitsBE_cons, ih]
    have : byteBits 0 = List.replicate 8 false := by decide
    rw [this, List.replicate_append_replicate]; congr 1; ring

theorem beNat_eq_bval (k : Bytes) : beNat k = bval (CurveImpl.bitsBE k) := by
  induction k with
  | nil => rfl
  | cons b k ih =>
    rw [beNat_cons, bitsBE_cons, bval_append, bval_byteBits, bitsBE_length, ← ih, pow_mul]; rfl

theorem bitsLE_eq (k : Bytes) : CurveImpl.bitsLE k = (CurveImpl.bitsBE k).reverse := by
  induction k with
  | nil => rfl
  | cons b k ih =>
    rw [bitsBE_cons, List.reverse_append, ← ih]
    simp [CurveImpl.bitsLE, byteBits, List.map_reverse]

/-- value of a bit list, least significant first -/
def lval : List Bool → Nat
  | [] => 0
  | b :: l => b.toNat + 2 * lval l

theorem lval_eq (l : List Bool) : lval l = bval l.reverse := by
  induction l with
  | nil => rfl
  | cons b l ih => rw [List.reverse_cons, bval_append, ← ih, lval]; simp [bval]; ring


/-- no position carries both a `+1` and a `-1` digit -/
def noBoth (p n : List Bool) : Bool := (List.zip p n).all fun x => !(x.1 && x.2)

theorem noBoth_cons (a b : Bool) (p n : List Bool) :
    noBoth (a :: p) (b :: n) = (!(a && b) && noBoth p n) := by simp [noBoth]

theorem noBoth_append (p1 n1 p2 n2 : List Bool) (h : p1.length = n1.length) :
    noBoth (p1 ++ p2) (n1 ++ n2) = (noBoth p1 n1 && noBoth p2 n2) := by
  simp [noBoth, List.zip_append h]

theorem noBoth_replicate_false (m : Nat) (n : List Bool) : noBoth (List.replicate m false) n = true := by
  simp only [noBoth, List.all_eq_true]
  intro x hx
  have := (List.of_mem_zip hx).1
  rw [List.mem_replicate] at this
  simp [this.2]

/-- signed value of the automaton state: emitted digits plus the pending carry -/
def stVal (st : CurveImpl.NafSt) : Int :=
  (bval st.pos : Int) - bval st.neg + (if st.carry then 2 ^ st.pos.length else 0)

theorem nafStep_spec (st : CurveImpl.NafSt) (c n : Bool) (hl : st.neg.length = st.pos.length) :
    (CurveImpl.nafStep st c n).pos.length = st.pos.length + 1 ∧
    (CurveImpl.nafStep st c n).neg.length = st.pos.length + 1 ∧
    stVal (CurveImpl.nafStep st c n) = stVal st + 2 ^ st.pos.length * (c.toNat : Int) ∧
    (noBoth st.pos st.neg = true → noBoth (CurveImpl.nafStep st c n).pos (CurveImpl.nafStep st c n).neg = true) := by
  obtain ⟨carry, pos, neg⟩ := st
  simp only at hl
  cases carry <;> cases c <;> cases n <;>
    simp [CurveImpl.nafStep, stVal, bval_cons, noBoth_cons, hl, pow_succ] <;> ring

theorem nafGo_spec (bits : List Bool) (st : CurveImpl.NafSt) (hl : st.neg.length = st.pos.length) :
    (CurveImpl.naf.go bits st).pos.length = st.pos.length + bits.length ∧
    (CurveImpl.naf.go bits st).neg.length = st.pos.length + bits.length ∧
    stVal (CurveImpl.naf.go bits st) = stVal st + 2 ^ st.pos.length * (lval bits : Int) ∧
    (noBoth st.pos st.neg = true →
      noBoth (CurveImpl.naf.go bits st).pos (CurveImpl.naf.go bits st).neg = true) := by
  induction bits generalizing st with
  | nil => simp [CurveImpl.naf.go, lval, hl]
  | cons c rest ih =>
    cases rest with
    | nil =>
      have h := nafStep_spec st c false hl
      simp only [CurveImpl.naf.go, lval, List.length_cons, List.length_nil]
      refine ⟨h.1, h.2.1, ?_, h.2.2.2⟩
      rw [h.2.2.1]; simp
    | cons n rest =>
      have h := nafStep_spec st c n hl
      obtain ⟨i1, i2, i3, i4⟩ := ih (CurveImpl.nafStep st c n) (by rw [h.1, h.2.1])
      simp only [CurveImpl.naf.go]
      refine ⟨?_, ?_, ?_, fun hb => i4 (h.2.2.2 hb)⟩
      · rw [i1, h.1]; simp only [List.length_cons]; ring
      · rw [i2, h.1]; simp only [List.length_cons]; ring
      · rw [i3, h.2.2.1, h.1, lval, lval, lval]; push_cast; ring


/-! ### `packBitsBE` round trip -/

theorem byteBits_pack : ∀ b7 b6 b5 b4 b3 b2 b1 b0 : Bool,
    byteBits (UInt8.ofNat ([b7, b6, b5, b4, b3, b2, b1, b0].foldl
      (fun acc b => acc * 2 + (if b then 1 else 0)) (0 : Nat))) = [b7, b6, b5, b4, b3, b2, b1, b0] := by
  decide

theorem packBitsAux_nil (fuel : Nat) : CurveImpl.packBitsAux fuel [] = [] := by
  cases fuel <;> rfl

theorem bitsBE_packBitsAux (n : Nat) : ∀ (l : List Bool) (fuel : Nat), l.length = 8 * n → n ≤ fuel →
    CurveImpl.bitsBE (CurveImpl.packBitsAux fuel l) = l := by
  induction n with
  | zero =>
    intro l fuel hl _
    have : l = [] := List.length_eq_zero_iff.mp (by omega)
    subst this; rw [packBitsAux_nil]; rfl
  | succ n ih =>
    intro l fuel hl hf
    obtain ⟨fuel, rfl⟩ : ∃ f, fuel = f + 1 := ⟨fuel - 1, by omega⟩
    match l, hl with
    | b7 :: b6 :: b5 :: b4 :: b3 :: b2 :: b1 :: b0 :: rest, hl =>
      have hr : rest.length = 8 * n := by simp only [List.length_cons] at hl; omega
      simp only [CurveImpl.packBitsAux, List.take_succ_cons, List.take_zero, List.drop_succ_cons, List.drop_zero]
      rw [bitsBE_cons, byteBits_pack, ih rest fuel hr (by omega)]
      rfl

theorem bitsBE_packBitsBE (l : List Bool) (n : Nat) (hl : l.length = 8 * n) :
    CurveImpl.bitsBE (CurveImpl.packBitsBE l) = l :=
  bitsBE_packBitsAux n l l.length hl (by omega)

theorem packBitsBE_length (l : List Bool) (n : Nat) (hl : l.length = 8 * n) :
    (CurveImpl.packBitsBE l).length = n := by
  have := bitsBE_length (CurveImpl.packBitsBE l)
  rw [bitsBE_packBitsBE l n hl] at this; omega

theorem beNat_packBitsBE (l : List Bool) (n : Nat) (hl : l.length = 8 * n) :
    beNat (CurveImpl.packBitsBE l) = bval l := by
  rw [beNat_eq_bval, bitsBE_packBitsBE l n hl]

/-! ### `NAF` -/

/-- final automaton state of `NAF(k)` -/
def nafSt (k : Bytes) : CurveImpl.NafSt :=
  CurveImpl.naf.go (CurveImpl.bitsLE k) { carry := false, pos := [], neg := [] }

theorem naf_eq (k : Bytes) : CurveImpl.naf k =
    if (nafSt k).carry then
      ([1] ++ CurveImpl.packBitsBE (nafSt k).pos, [0] ++ CurveImpl.packBitsBE (nafSt k).neg)
    else (CurveImpl.packBitsBE (nafSt k).pos, CurveImpl.packBitsBE (nafSt k).neg) := rfl

theorem nafSt_spec (k : Bytes) :
    (nafSt k).pos.length = 8 * k.length ∧ (nafSt k).neg.length = 8 * k.length ∧
    stVal (nafSt k) = (beNat k : Int) ∧ noBoth (nafSt k).pos (nafSt k).neg = true := by
  have h := nafGo_spec (CurveImpl.bitsLE k) { carry := false, pos := [], neg := [] } rfl
  have hlen : (CurveImpl.bitsLE k).length = 8 * k.length := by
    rw [bitsLE_eq, List.length_reverse, bitsBE_length]
  obtain ⟨h1, h2, h3, h4⟩ := h
  refine ⟨?_, ?_, ?_, h4 rfl⟩
  · rw [nafSt, h1, hlen]; simp
  · rw [nafSt, h2, hlen]; simp
  · rw [nafSt, h3, lval_eq, bitsLE_eq, List.reverse_reverse, ← beNat_eq_bval]
    simp [stVal, bval]

/-- `NAF(k)`: value, lengths (one byte longer exactly when the carry leaves the top), and no
position holds both a `+1` and a `-1`. -/
theorem naf_spec (k : Bytes) :
    (beNat (CurveImpl.naf k).1 : Int) - beNat (CurveImpl.naf k).2 = beNat k ∧
    (CurveImpl.naf k).1.length = (CurveImpl.naf k).2.length ∧
    ((CurveImpl.naf k).1.length = k.length ∨ (CurveImpl.naf k).1.length = k.length + 1) ∧
    noBoth (CurveImpl.bitsBE (CurveImpl.naf k).1) (CurveImpl.bitsBE (CurveImpl.naf k).2) = true := by
  obtain ⟨hp, hn, hv, hb⟩ := nafSt_spec k
  have lp := packBitsBE_length _ _ hp
  have ln := packBitsBE_length _ _ hn
  have vp := beNat_packBitsBE _ _ hp
  have vn := beNat_packBitsBE _ _ hn
  have bp := bitsBE_packBitsBE _ _ hp
  have bn := bitsBE_packBitsBE _ _ hn
  rw [naf_eq]
  unfold stVal at hv
  split
  · rename_i hc
    rw [hc, if_pos rfl, hp] at hv
    refine ⟨?_, ?_, ?_, ?_⟩
    · simp only [beNat_append, lp, ln, vp, vn, beNat_singleton]
      rw [← hv, pow_mul, show UInt8.toNat 1 = 1 from rfl, show UInt8.toNat 0 = 0 from rfl]; push_cast; ring
    · simp [lp, ln]
    · right; simp [lp]
    · rw [bitsBE_append, bitsBE_append, bp, bn, noBoth_append _ _ _ _ (by simp [bitsBE_length]), hb]
      decide
  · rename_i hc
    rw [if_neg hc] at hv
    refine ⟨?_, ?_, ?_, ?_⟩
    · simp only [vp, vn]; rw [← hv]; simp
    · simp [lp, ln]
    · left; simp [lp]
    · simp only [bp, bn, hb]

/-! ### non-adjacency of the NAF digits (optional; not used by the loop proofs) -/

/-- the most significant digit is non-zero -/
def hdNZ (p n : List Bool) : Bool := p.headD false || n.headD false

/-- no two neighbouring positions both carry a non-zero digit (lists most significant first) -/
def nonAdjB : List Bool → List Bool → Bool
  | a :: p, b :: n => (!(a || b) || !(hdNZ p n)) && nonAdjB p n
  | _, _ => true

theorem nafStep_nonAdj (st : CurveImpl.NafSt) (c n : Bool)
    (h1 : nonAdjB st.pos st.neg = true) (h2 : hdNZ st.pos st.neg = true → st.carry = c) :
    nonAdjB (CurveImpl.nafStep st c n).pos (CurveImpl.nafStep st c n).neg = true ∧
    (hdNZ (CurveImpl.nafStep st c n).pos (CurveImpl.nafStep st c n).neg = true →
      (CurveImpl.nafStep st c n).carry = n) := by
  obtain ⟨carry, pos, neg⟩ := st
  simp only at h1 h2
  cases carry <;> cases c <;> cases n <;>
    simp_all [CurveImpl.nafStep, nonAdjB, hdNZ]

theorem nafGo_nonAdj (bits : List Bool) (st : CurveImpl.NafSt)
    (h1 : nonAdjB st.pos st.neg = true)
    (h2 : hdNZ st.pos st.neg = true → ∀ c rest, bits = c :: rest → st.carry = c) :
    nonAdjB (CurveImpl.naf.go bits st).pos (CurveImpl.naf.go bits st).neg = true ∧
    (bits ≠ [] → hdNZ (CurveImpl.naf.go bits st).pos (CurveImpl.naf.go bits st).neg = true →
      (CurveImpl.naf.go bits st).carry = false) := by
  induction bits generalizing st with
  | nil => simp [CurveImpl.naf.go, h1]
  | cons c rest ih =>
    cases rest with
    | nil =>
      have h := nafStep_nonAdj st c false h1 (fun hz => h2 hz c [] rfl)
      simp only [CurveImpl.naf.go]
      exact ⟨h.1, fun _ => h.2⟩
    | cons n rest =>
      have h := nafStep_nonAdj st c n h1 (fun hz => h2 hz c (n :: rest) rfl)
      simp only [CurveImpl.naf.go]
      have := ih (CurveImpl.nafStep st c n) h.1 (fun hz c' rest' e => by
        simp only [List.cons.injEq] at e; rw [← e.1]; exact h.2 hz)
      exact ⟨this.1, fun _ => this.2 (by simp)⟩

/-- the NAF digits of `NAF(k)` are non-adjacent -/
theorem naf_nonAdj (k : Bytes) :
    nonAdjB (CurveImpl.bitsBE (CurveImpl.naf k).1) (CurveImpl.bitsBE (CurveImpl.naf k).2) = true := by
  obtain ⟨hp, hn, -, -⟩ := nafSt_spec k
  have bp := bitsBE_packBitsBE _ _ hp
  have bn := bitsBE_packBitsBE _ _ hn
  have h := nafGo_nonAdj (CurveImpl.bitsLE k) { carry := false, pos := [], neg := [] } rfl
    (by simp [hdNZ])
  rw [naf_eq]
  split
  · rename_i hc
    have hz : hdNZ (nafSt k).pos (nafSt k).neg = false := by
      by_cases hb : CurveImpl.bitsLE k = []
      · have : nafSt k = { carry := false, pos := [], neg := [] } := by
          simp [nafSt, hb, CurveImpl.naf.go]
        rw [this] at hc; simp at hc
      · have := h.2 hb
        cases hh : hdNZ (nafSt k).pos (nafSt k).neg
        · rfl
        · have := this hh; rw [show (CurveImpl.naf.go (CurveImpl.bitsLE k) _).carry = (nafSt k).carry from rfl, hc] at this
          simp at this
    rw [bitsBE_append, bitsBE_append, bp, bn]
    have e1 : CurveImpl.bitsBE [1] = [false, false, false, false, false, false, false, true] := by decide
    have e0 : CurveImpl.bitsBE [0] = [false, false, false, false, false, false, false, false] := by decide
    rw [e1, e0]
    simp only [hdNZ, Bool.or_eq_false_iff] at hz
    simp [nonAdjB, hdNZ]
    exact ⟨by simpa using hz, h.1⟩
  · simp only [bp, bn]; exact h.1


/-- index form of `nonAdjB` (equal lengths) -/
theorem nonAdjB_getElem? (p n : List Bool) (hl : p.length = n.length) (h : nonAdjB p n = true) (i : Nat) :
    ¬((p[i]? = some true ∨ n[i]? = some true) ∧ (p[i+1]? = some true ∨ n[i+1]? = some true)) := by
  induction p generalizing n i with
  | nil =>
    have : n = [] := List.length_eq_zero_iff.mp hl.symm
    subst this; simp
  | cons a p ih =>
    cases n with
    | nil => simp at hl
    | cons b n =>
      simp only [List.length_cons, Nat.add_right_cancel_iff] at hl
      simp only [nonAdjB, Bool.and_eq_true, Bool.or_eq_true, Bool.not_eq_true'] at h
      cases i with
      | zero =>
        simp only [List.getElem?_cons_zero, Option.some.injEq, List.getElem?_cons_succ]
        rintro ⟨h0, h1⟩
        have hz : hdNZ p n = true := by
          cases p <;> cases n <;> simp_all [hdNZ]
        rcases h.1 with hh | hh
        · rcases h0 with rfl | rfl <;> simp at hh
        · rw [hz] at hh; simp at hh
      | succ i => simpa using ih n hl h.2 i


/-! ## 3. the double-and-add loops under abstract formula correctness -/

/-- Correctness of the regenerated Jacobian formulas, as an explicit hypothesis: `Rep q Q` says the
accumulator `q` (three field values) represents the group element `Q`; `RepIn p R` says the
(`z = 1`) operand `p` represents `R`. -/
structure FormulaOK where
  Rep : CurveImpl.Jac → Pt → Prop
  RepIn : CurveImpl.Jac → Pt → Prop
  H_zero : Rep (Gen.Field.zero, Gen.Field.zero, Gen.Field.zero) inf
  H_add : ∀ q p Q R, valid Q = true → valid R = true → Rep q Q → RepIn p R →
    Rep (CurveImpl.addAcc q p) (padd Q R)
  H_dbl : ∀ q Q, valid Q = true → Rep q Q → Rep (CurveImpl.doubleAcc q) (pdouble Q)
  H_aff : ∀ q Q, valid Q = true → Rep q Q → CurveImpl.toBigAffine q = Q

/-- the four prepared operands of `ScalarMult` represent `±B` and `±φ(B)` -/
structure InputOK (F : FormulaOK) (B : Pt) : Prop where
  H_p1 : F.RepIn ((CurveImpl.bigAffineToField B).1, (CurveImpl.bigAffineToField B).2, Gen.Field.setInt 1) B
  H_p1n : F.RepIn ((CurveImpl.bigAffineToField B).1,
      Gen.Field.negateVal (CurveImpl.bigAffineToField B).2 1, Gen.Field.setInt 1) (pneg B)
  H_p2 : F.RepIn (Gen.Field.mul2 (CurveImpl.bigAffineToField B).1 CurveImpl.beta,
      (CurveImpl.bigAffineToField B).2, Gen.Field.setInt 1) (phi B)
  H_p2n : F.RepIn (Gen.Field.mul2 (CurveImpl.bigAffineToField B).1 CurveImpl.beta,
      Gen.Field.negateVal (CurveImpl.bigAffineToField B).2 1, Gen.Field.setInt 1) (pneg (phi B))

/-- NAF digit of a column: `+1`, `-1` or `0` (the `if … else if …` of the loop body) -/
def dig (a b : Bool) : Int := if a then 1 else if b then -1 else 0

/-- what the loop computes in the group -/
def loopPt (P1 P2 : E.Point) (steps : List (Bool × Bool × Bool × Bool)) (A : E.Point) : E.Point :=
  steps.foldl (fun A s => (A + A) + dig s.1 s.2.1 • P1 + dig s.2.2.1 s.2.2.2 • P2) A

theorem smulLoop_spec (F : FormulaOK) (P1 P2 : E.Point) (p1 p1n p2 p2n : CurveImpl.Jac)
    (h1 : F.RepIn p1 (enc P1)) (h1n : F.RepIn p1n (enc (-P1)))
    (h2 : F.RepIn p2 (enc P2)) (h2n : F.RepIn p2n (enc (-P2))) :
    ∀ (steps : List (Bool × Bool × Bool × Bool)) (q : CurveImpl.Jac) (A : E.Point), F.Rep q (enc A) →
      F.Rep (CurveImpl.smulLoop p1 p1n p2 p2n steps q) (enc (loopPt P1 P2 steps A)) := by
  intro steps
  induction steps with
  | nil => intro q A h; exact h
  | cons s rest ih =>
    intro q A h
    obtain ⟨a, b, c, d⟩ := s
    simp only [CurveImpl.smulLoop, loopPt, List.foldl_cons]
    apply ih
    have hd := F.H_dbl q _ (valid_enc A) h
    rw [pdouble_enc] at hd
    have s1 : F.Rep (if a then CurveImpl.addAcc (CurveImpl.doubleAcc q) p1
        else if b then CurveImpl.addAcc (CurveImpl.doubleAcc q) p1n else CurveImpl.doubleAcc q)
        (enc (A + A + dig a b • P1)) := by
      cases a
      · cases b
        · simpa [dig] using hd
        · have := F.H_add _ _ _ _ (valid_enc _) (valid_enc _) hd h1n
          rw [padd_enc] at this; simpa [dig] using this
      · have := F.H_add _ _ _ _ (valid_enc _) (valid_enc _) hd h1
        rw [padd_enc] at this; simpa [dig] using this
    cases c
    · cases d
      · simpa [dig] using s1
      · have := F.H_add _ _ _ _ (valid_enc _) (valid_enc _) s1 h2n
        rw [padd_enc] at this; simpa [dig] using this
    · have := F.H_add _ _ _ _ (valid_enc _) (valid_enc _) s1 h2
      rw [padd_enc] at this; simpa [dig] using this

def V1 (steps : List (Bool × Bool × Bool × Bool)) (u : Int) : Int :=
  steps.foldl (fun u s => 2 * u + dig s.1 s.2.1) u
def V2 (steps : List (Bool × Bool × Bool × Bool)) (v : Int) : Int :=
  steps.foldl (fun v s => 2 * v + dig s.2.2.1 s.2.2.2) v

theorem loopPt_eq (P1 P2 : E.Point) (steps : List (Bool × Bool × Bool × Bool)) (u v : Int) :
    loopPt P1 P2 steps (u • P1 + v • P2) = V1 steps u • P1 + V2 steps v • P2 := by
  induction steps generalizing u v with
  | nil => rfl
  | cons s rest ih =>
    simp only [loopPt, V1, V2, List.foldl_cons]
    have := ih (2 * u + dig s.1 s.2.1) (2 * v + dig s.2.2.1 s.2.2.2)
    simp only [loopPt, V1, V2] at this
    rw [← this]; congr 1; module


theorem dig_eq (a b : Bool) (h : (!(a && b)) = true) : dig a b = (a.toNat : Int) - b.toNat := by
  cases a <;> cases b <;> simp_all [dig]

theorem V_zip : ∀ (as bs cs ds : List Bool) (u v : Int), as.length = bs.length → bs.length = cs.length →
    cs.length = ds.length → noBoth as bs = true → noBoth cs ds = true →
    V1 (List.zip as (List.zip bs (List.zip cs ds))) u = u * 2 ^ as.length + bval as - bval bs ∧
    V2 (List.zip as (List.zip bs (List.zip cs ds))) v = v * 2 ^ as.length + bval cs - bval ds := by
  intro as
  induction as with
  | nil =>
    intro bs cs ds u v h1 h2 h3 _ _
    have hb : bs = [] := List.length_eq_zero_iff.mp h1.symm
    subst hb
    have hc : cs = [] := List.length_eq_zero_iff.mp h2.symm
    subst hc
    have hd : ds = [] := List.length_eq_zero_iff.mp h3.symm
    subst hd
    simp [V1, V2, bval]
  | cons a as ih =>
    intro bs cs ds u v h1 h2 h3 n1 n2
    match bs, cs, ds, h1, h2, h3 with
    | b :: bs, c :: cs, d :: ds, h1, h2, h3 =>
      simp only [List.length_cons, Nat.add_right_cancel_iff] at h1 h2 h3
      rw [noBoth_cons, Bool.and_eq_true] at n1 n2
      obtain ⟨e1, e2⟩ := ih bs cs ds (2 * u + dig a b) (2 * v + dig c d) h1 h2 h3 n1.2 n2.2
      simp only [List.zip_cons_cons, V1, V2, List.foldl_cons] at e1 e2 ⊢
      rw [e1, e2, dig_eq a b n1.1, dig_eq c d n2.1]
      simp only [bval_cons, List.length_cons, pow_succ, h1, h2, h3]
      push_cast
      constructor <;> ring

theorem zsmul_congr_mod {Q : E.Point} {a b : Int} (h : a ≡ b [ZMOD (N : Int)]) : a • Q = b • Q := by
  obtain ⟨c, hc⟩ := Int.modEq_iff_dvd.mp h
  have : b = a + c * (N : Int) := by linarith
  rw [this, add_zsmul, mul_comm, mul_zsmul, natCast_zsmul, smul_N, add_zero]

theorem natAbs_zsmul_sign (k : Int) (Q : E.Point) :
    ((k.natAbs : Int)) • (if (Int.sign k == -1) = true then -Q else Q) = k • Q := by
  rcases lt_trichotomy k 0 with h | h | h
  · rw [Int.sign_eq_neg_one_of_neg h]; simp only [beq_self_eq_true, if_true]
    rw [zsmul_neg, ← neg_zsmul]; congr 1; omega
  · subst h; simp
  · rw [Int.sign_eq_one_of_pos h]
    rw [if_neg (by decide)]; congr 1; omega




theorem pad_bits (m : Nat) (x : Bytes) (hm : x.length ≤ m) :
    CurveImpl.bitsBE (List.replicate (m - x.length) (0 : UInt8) ++ x) =
      List.replicate (8 * (m - x.length)) false ++ CurveImpl.bitsBE x ∧
    (CurveImpl.bitsBE (List.replicate (m - x.length) (0 : UInt8) ++ x)).length = 8 * m ∧
    bval (CurveImpl.bitsBE (List.replicate (m - x.length) (0 : UInt8) ++ x)) = beNat x := by
  refine ⟨by rw [bitsBE_append, bitsBE_replicate_zero], ?_, ?_⟩
  · rw [bitsBE_length, List.length_append, List.length_replicate]; omega
  · rw [← beNat_eq_bval, beNat_replicate_zero_append]

theorem pad_noBoth (m : Nat) (x y : Bytes) (hl : x.length = y.length)
    (h : noBoth (CurveImpl.bitsBE x) (CurveImpl.bitsBE y) = true) :
    noBoth (CurveImpl.bitsBE (List.replicate (m - x.length) (0 : UInt8) ++ x))
      (CurveImpl.bitsBE (List.replicate (m - y.length) (0 : UInt8) ++ y)) = true := by
  rw [bitsBE_append, bitsBE_append, bitsBE_replicate_zero, bitsBE_replicate_zero,
    noBoth_append _ _ _ _ (by simp [hl]), h, noBoth_replicate_false]; rfl


/-- the interleaved NAF loop computes `(z1 + z2·λ)•B` -/
theorem loop_core (F : FormulaOK) (Bp : E.Point) (z1 z2 : Int) (p1 p1n p2 p2n : CurveImpl.Jac)
    (h1 : F.RepIn p1 (enc (if (z1.sign == -1) = true then -Bp else Bp)))
    (h1n : F.RepIn p1n (enc (-(if (z1.sign == -1) = true then -Bp else Bp))))
    (h2 : F.RepIn p2 (enc (if (z2.sign == -1) = true then -(phiPt Bp) else phiPt Bp)))
    (h2n : F.RepIn p2n (enc (-(if (z2.sign == -1) = true then -(phiPt Bp) else phiPt Bp))))
    (k1p k1n k2p k2n : Bytes)
    (v1 : (beNat k1p : Int) - beNat k1n = z1.natAbs) (l1 : k1p.length = k1n.length)
    (nb1 : noBoth (CurveImpl.bitsBE k1p) (CurveImpl.bitsBE k1n) = true)
    (v2 : (beNat k2p : Int) - beNat k2n = z2.natAbs) (l2 : k2p.length = k2n.length)
    (nb2 : noBoth (CurveImpl.bitsBE k2p) (CurveImpl.bitsBE k2n) = true) (m : Nat)
    (hm : m = max k1p.length k2p.length) :
    CurveImpl.toBigAffine (CurveImpl.smulLoop p1 p1n p2 p2n
      (List.zip (CurveImpl.bitsBE (List.replicate (m - k1p.length) (0 : UInt8) ++ k1p))
        (List.zip (CurveImpl.bitsBE (List.replicate (m - k1n.length) (0 : UInt8) ++ k1n))
          (List.zip (CurveImpl.bitsBE (List.replicate (m - k2p.length) (0 : UInt8) ++ k2p))
            (CurveImpl.bitsBE (List.replicate (m - k2n.length) (0 : UInt8) ++ k2n)))))
      (Gen.Field.zero, Gen.Field.zero, Gen.Field.zero)) = enc ((z1 + z2 * (lambda : Int)) • Bp) := by
  have hz : F.Rep (Gen.Field.zero, Gen.Field.zero, Gen.Field.zero) (enc 0) := by
    rw [enc_zero]; exact F.H_zero
  have hrep := smulLoop_spec F _ _ p1 p1n p2 p2n h1 h1n h2 h2n
    (List.zip (CurveImpl.bitsBE (List.replicate (m - k1p.length) (0 : UInt8) ++ k1p))
        (List.zip (CurveImpl.bitsBE (List.replicate (m - k1n.length) (0 : UInt8) ++ k1n))
          (List.zip (CurveImpl.bitsBE (List.replicate (m - k2p.length) (0 : UInt8) ++ k2p))
            (CurveImpl.bitsBE (List.replicate (m - k2n.length) (0 : UInt8) ++ k2n))))) _ 0 hz
  rw [F.H_aff _ _ (valid_enc _) hrep]
  congr 1
  have a1 := pad_bits m k1p (by omega)
  have a2 := pad_bits m k1n (by omega)
  have a3 := pad_bits m k2p (by omega)
  have a4 := pad_bits m k2n (by omega)
  obtain ⟨e1, e2⟩ := V_zip _ _ _ _ 0 0 (a1.2.1.trans a2.2.1.symm) (a2.2.1.trans a3.2.1.symm)
    (a3.2.1.trans a4.2.1.symm) (pad_noBoth m _ _ l1 nb1) (pad_noBoth m _ _ l2 nb2)
  rw [a1.2.2, a2.2.2] at e1
  rw [a3.2.2, a4.2.2] at e2
  have := loopPt_eq (if (z1.sign == -1) = true then -Bp else Bp)
    (if (z2.sign == -1) = true then -(phiPt Bp) else phiPt Bp)
    (List.zip (CurveImpl.bitsBE (List.replicate (m - k1p.length) (0 : UInt8) ++ k1p))
        (List.zip (CurveImpl.bitsBE (List.replicate (m - k1n.length) (0 : UInt8) ++ k1n))
          (List.zip (CurveImpl.bitsBE (List.replicate (m - k2p.length) (0 : UInt8) ++ k2p))
            (CurveImpl.bitsBE (List.replicate (m - k2n.length) (0 : UInt8) ++ k2n))))) 0 0
  rw [zero_zsmul, zero_zsmul, add_zero] at this
  rw [this, e1, e2, zero_mul, zero_add, zero_add, v1, v2, natAbs_zsmul_sign, natAbs_zsmul_sign,
    phiPt_eq_nsmul, add_zsmul, ← natCast_zsmul Bp lambda, ← mul_zsmul, mul_comm]


theorem scalarMult_fun : CurveImpl.scalarMult = valueOf% GoBk.CurveImpl.scalarMult := rfl


theorem scalarMult_impl_eq (F : FormulaOK) {B : Pt} (hB : valid B = true) (hin : InputOK F B) (k : Bytes) :
    CurveImpl.scalarMult B k = Curve.scalarMult B k := by
  rw [Curve.scalarMult_def, ← implModuloReduce_eq]
  obtain ⟨Bp, rfl⟩ := (valid_iff B).mp hB
  obtain ⟨i1, i2, i3, i4⟩ := hin
  rw [← enc_phiPt] at i3 i4
  rw [pneg_enc] at i2 i4
  have hsplit := splitK_signed (CurveImpl.moduloReduce k)
  rw [scalarMult_fun]
  beta_reduce
  generalize CurveImpl.moduloReduce k = kr at *
  have fin : enc ((splitK1 kr + splitK2 kr * (lambda : Int)) • Bp) = smul (beNat kr) (enc Bp) := by
    rw [zsmul_congr_mod hsplit, natCast_zsmul, smul_enc]
  rw [← fin]
  clear fin hsplit
  rw [splitK_eq]
  obtain ⟨z1, hz1⟩ : ∃ z, splitK1 kr = z := ⟨_, rfl⟩
  obtain ⟨z2, hz2⟩ : ∃ z, splitK2 kr = z := ⟨_, rfl⟩
  rw [hz1, hz2]
  generalize CurveImpl.bigAffineToField (enc Bp) = bf at *
  obtain ⟨px, py⟩ := bf
  simp only [] at i1 i2 i3 i4
  split; rename_i k1 k2 s1 s2 hsk
  simp only [Prod.mk.injEq] at hsk
  obtain ⟨rfl, rfl, rfl, rfl⟩ := hsk
  obtain ⟨v1, l1, -, nb1⟩ := naf_spec (natBE z1.natAbs)
  obtain ⟨v2, l2, -, nb2⟩ := naf_spec (natBE z2.natAbs)
  rw [beNat_natBE] at v1 v2
  generalize CurveImpl.naf (natBE z1.natAbs) = n1 at *
  generalize CurveImpl.naf (natBE z2.natAbs) = n2 at *
  obtain ⟨k1p, k1n⟩ := n1
  obtain ⟨k2p, k2n⟩ := n2
  simp only [] at v1 l1 nb1 v2 l2 nb2
  split; rename_i px' py' hbf
  cases hbf
  split <;> rename_i hs1
  all_goals (split <;> rename_i hs2)
  all_goals dsimp only
  all_goals (refine loop_core F Bp z1 z2 _ _ _ _ ?_ ?_ ?_ ?_ k1p k1n k2p k2n v1 l1 nb1 v2 l2 nb2 _ rfl)
  · rw [if_pos hs1]; exact i2
  · rw [if_pos hs1, neg_neg]; exact i1
  · rw [if_pos hs2]; exact i4
  · rw [if_pos hs2, neg_neg]; exact i3
  · rw [if_pos hs1]; exact i2
  · rw [if_pos hs1, neg_neg]; exact i1
  · rw [if_neg hs2]; exact i3
  · rw [if_neg hs2]; exact i4
  · rw [if_neg hs1]; exact i1
  · rw [if_neg hs1]; exact i2
  · rw [if_pos hs2]; exact i4
  · rw [if_pos hs2, neg_neg]; exact i3
  · rw [if_neg hs1]; exact i1
  · rw [if_neg hs1]; exact i2
  · rw [if_neg hs2]; exact i3
  · rw [if_neg hs2]; exact i4


/-- index form of `noBoth` -/
theorem noBoth_getElem? (p n : List Bool) (h : noBoth p n = true) (i : Nat) :
    ¬(p[i]? = some true ∧ n[i]? = some true) := by
  induction p generalizing n i with
  | nil => simp
  | cons a p ih =>
    cases n with
    | nil => simp
    | cons b n =>
      rw [noBoth_cons, Bool.and_eq_true] at h
      cases i with
      | zero =>
        simp only [List.getElem?_cons_zero, Option.some.injEq]
        rintro ⟨rfl, rfl⟩; simp at h
      | succ i => simpa using ih n h.2 i

/-- the byte-point table: entry `[i][b]` represents `(b·256^(31-i))•G` -/
structure TableOK (F : FormulaOK) : Prop where
  H_table : ∀ i, i < 32 → ∀ b, b < 256 →
    F.RepIn (Gen.Table.get i b 0, Gen.Table.get i b 1, Gen.Table.get i b 2) (smul (b * 256 ^ (31 - i)) G)

theorem scalarBaseMult_fun : CurveImpl.scalarBaseMult = valueOf% GoBk.CurveImpl.scalarBaseMult := rfl

theorem tableFold_spec (F : FormulaOK) (T : TableOK F) (diff : Nat) :
    ∀ (bs : Bytes) (s : Nat) (q : CurveImpl.Jac) (a : Nat), diff + s + bs.length = 32 →
      F.Rep q (smul a G) →
      F.Rep ((bs.zipIdx s).foldl (fun q (bi : UInt8 × Nat) =>
        CurveImpl.addAcc q (Gen.Table.get (diff + bi.2) bi.1.toNat 0, Gen.Table.get (diff + bi.2) bi.1.toNat 1,
                Gen.Table.get (diff + bi.2) bi.1.toNat 2)) q) (smul (a + beNat bs) G) := by
  intro bs
  induction bs with
  | nil => intro s q a _ h; simpa [beNat] using h
  | cons b bs ih =>
    intro s q a hl h
    rw [List.zipIdx_cons, List.foldl_cons]
    simp only [List.length_cons] at hl
    have ht := T.H_table (diff + s) (by omega) b.toNat (UInt8.toNat_lt b)
    have h31 : 31 - (diff + s) = bs.length := by omega
    rw [h31] at ht
    have hadd := F.H_add _ _ _ _ (valid_smul _ valid_G) (valid_smul _ valid_G) h ht
    rw [← smul_add _ _ valid_G] at hadd
    have := ih (s + 1) _ _ (by omega) hadd
    rw [beNat_cons, ← Nat.add_assoc]
    exact this

theorem scalarBaseMult_impl_eq (F : FormulaOK) (T : TableOK F) (k : Bytes) :
    CurveImpl.scalarBaseMult k = Curve.scalarBaseMult k := by
  rw [Curve.scalarBaseMult_def, ← implModuloReduce_eq, scalarBaseMult_fun]
  beta_reduce
  have hlen := (implModuloReduce_spec k).2.2
  obtain ⟨kr, hkr⟩ : ∃ z, CurveImpl.moduloReduce k = z := ⟨_, rfl⟩
  rw [hkr] at hlen ⊢
  have h0 : F.Rep (Gen.Field.zero, Gen.Field.zero, Gen.Field.zero) (smul 0 G) := F.H_zero
  have := tableFold_spec F T (32 - kr.length) kr 0 _ 0 (by omega) h0
  rw [zero_add] at this
  exact F.H_aff _ _ (valid_smul _ valid_G) this

end GoBk.Proofs
