import GoBk.Base.Bytes
/-
  L0 — lemmas about `beNat`, `natBE`, `padLeft`, `natBEpad` (core Lean only).
-/
namespace GoBk.Bytes

/-! ### beNat -/

theorem beNat_foldl (b : Bytes) (acc : Nat) :
    b.foldl (fun acc x => acc * 256 + x.toNat) acc = acc * 256 ^ b.length + beNat b := by
  induction b generalizing acc with
  | nil => simp [beNat]
  | cons x xs ih =>
    simp only [List.foldl_cons, beNat, List.length_cons]
    rw [ih, ih (0 * 256 + x.toNat)]
    simp [Nat.pow_succ, Nat.add_mul, Nat.mul_assoc, Nat.add_assoc, Nat.mul_comm (256 ^ xs.length) 256]

@[simp] theorem beNat_nil : beNat [] = 0 := rfl

theorem beNat_cons (x : UInt8) (b : Bytes) : beNat (x :: b) = x.toNat * 256 ^ b.length + beNat b := by
  simp only [beNat, List.foldl_cons]
  rw [beNat_foldl]; simp [beNat]

theorem beNat_append (a b : Bytes) : beNat (a ++ b) = beNat a * 256 ^ b.length + beNat b := by
  simp only [beNat, List.foldl_append]
  rw [beNat_foldl]; simp [beNat]

theorem beNat_concat (a : Bytes) (x : UInt8) : beNat (a ++ [x]) = beNat a * 256 + x.toNat := by
  rw [beNat_append]; simp [beNat]

theorem beNat_singleton (x : UInt8) : beNat [x] = x.toNat := by simp [beNat]

theorem beNat_lt (b : Bytes) : beNat b < 256 ^ b.length := by
  induction b with
  | nil => simp
  | cons x xs ih =>
    rw [beNat_cons, List.length_cons, Nat.pow_succ]
    have hx : x.toNat < 256 := x.toNat_lt
    have : x.toNat * 256 ^ xs.length ≤ 255 * 256 ^ xs.length := Nat.mul_le_mul_right _ (by omega)
    omega

theorem beNat_replicate_zero (k : Nat) : beNat (List.replicate k (0 : UInt8)) = 0 := by
  induction k with
  | zero => rfl
  | succ k ih => rw [List.replicate_succ, beNat_cons, ih]; simp

theorem beNat_replicate_zero_append (k : Nat) (b : Bytes) :
    beNat (List.replicate k 0 ++ b) = beNat b := by
  rw [beNat_append, beNat_replicate_zero]; simp

theorem beNat_zero_cons (b : Bytes) : beNat (0 :: b) = beNat b := by
  rw [beNat_cons]; simp

/-- a non-empty string with non-zero first byte has a value at least `256^(len-1)` -/
theorem beNat_ge_of_head_ne_zero (x : UInt8) (b : Bytes) (hx : x ≠ 0) :
    256 ^ b.length ≤ beNat (x :: b) := by
  rw [beNat_cons]
  have : 1 ≤ x.toNat := by
    have : x.toNat ≠ 0 := fun h => hx (UInt8.toNat_inj.mp (by simpa using h))
    omega
  have := Nat.mul_le_mul_right (256 ^ b.length) this
  omega

theorem beNat_dropWhile_zero (b : Bytes) : beNat (b.dropWhile (· = 0)) = beNat b := by
  induction b with
  | nil => rfl
  | cons x xs ih =>
    by_cases hx : x = 0
    · subst hx; simp [beNat_zero_cons]; simpa using ih
    · simp [hx]

/-! ### natBE -/

theorem natBEAux_fuel (f1 f2 n : Nat) (acc : Bytes) (h1 : n < f1) (h2 : n < f2) :
    natBEAux f1 n acc = natBEAux f2 n acc := by
  induction f1 generalizing f2 n acc with
  | zero => omega
  | succ f1 ih =>
    cases f2 with
    | zero => omega
    | succ f2 =>
      simp only [natBEAux]
      split
      · rfl
      · apply ih <;> omega

theorem natBEAux_acc (f n : Nat) (acc : Bytes) : natBEAux f n acc = natBEAux f n [] ++ acc := by
  induction f generalizing n acc with
  | zero => simp [natBEAux]
  | succ f ih =>
    simp only [natBEAux]
    split
    · simp
    · rw [ih, ih (n / 256) [_]]; simp

@[simp] theorem natBE_zero : natBE 0 = [] := by simp [natBE, natBEAux]

/-- the defining recurrence of `natBE` (fuel eliminated) -/
theorem natBE_of_ne_zero (n : Nat) (h : n ≠ 0) :
    natBE n = natBE (n / 256) ++ [UInt8.ofNat (n % 256)] := by
  unfold natBE
  rw [natBEAux, if_neg h, natBEAux_acc]
  congr 1
  apply natBEAux_fuel <;> omega

theorem natBE_eq_nil_iff (n : Nat) : natBE n = [] ↔ n = 0 := by
  constructor
  · intro h
    by_cases hn : n = 0
    · exact hn
    · rw [natBE_of_ne_zero n hn] at h; simp at h
  · intro h; subst h; simp

theorem beNat_natBE (n : Nat) : beNat (natBE n) = n := by
  induction n using Nat.strongRecOn with
  | _ n ih =>
    by_cases hn : n = 0
    · subst hn; simp
    · rw [natBE_of_ne_zero n hn, beNat_concat, ih (n / 256) (by omega)]
      simp; omega

private theorem ofNat_ne_zero {n : Nat} (h0 : n ≠ 0) (h : n < 256) : UInt8.ofNat n ≠ 0 := by
  intro e
  have := congrArg UInt8.toNat e
  simp at this; omega

theorem natBE_head?_ne_zero (n : Nat) : (natBE n).head? ≠ some 0 := by
  induction n using Nat.strongRecOn with
  | _ n ih =>
    by_cases hn : n = 0
    · subst hn; simp
    · rw [natBE_of_ne_zero n hn]
      by_cases hq : n / 256 = 0
      · rw [hq]; simp
        have : n % 256 = n := by omega
        exact ofNat_ne_zero (by omega) (by omega)
      · have hne : natBE (n / 256) ≠ [] := fun h => hq ((natBE_eq_nil_iff _).mp h)
        have := ih (n / 256) (by omega)
        cases hb : natBE (n / 256) with
        | nil => exact absurd hb hne
        | cons y ys => rw [hb] at this; simpa using this

theorem natBE_head?_ne_zero' (n : Nat) (_h : n ≠ 0) : (natBE n).head? ≠ some 0 :=
  natBE_head?_ne_zero n

theorem natBE_headD_ne_zero (n : Nat) (h : n ≠ 0) : (natBE n).headD 0 ≠ 0 := by
  have h1 := natBE_head?_ne_zero n
  have h2 : natBE n ≠ [] := fun e => h ((natBE_eq_nil_iff n).mp e)
  cases hb : natBE n with
  | nil => exact absurd hb h2
  | cons x xs => rw [hb] at h1; simpa using h1

/-- canonical strings (empty or non-zero first byte) are fixed by `natBE ∘ beNat` -/
theorem natBE_beNat_of_canonical (b : Bytes) (h : b.head? ≠ some 0) : natBE (beNat b) = b := by
  induction hl : b.length generalizing b with
  | zero => simp at hl; subst hl; simp
  | succ k ih =>
    rcases List.eq_nil_or_concat b with hb | ⟨b', x, hb⟩
    · subst hb; simp at hl
    · rw [List.concat_eq_append] at hb
      subst hb
      simp at hl
      have hne : beNat (b' ++ [x]) ≠ 0 := by
        cases b' with
        | nil =>
          simp at h; simp [beNat_singleton]
          intro e; exact h (UInt8.toNat_inj.mp (by simpa using e))
        | cons y ys =>
          simp at h
          have := beNat_ge_of_head_ne_zero y (ys ++ [x]) h
          have : 0 < 256 ^ (ys ++ [x]).length := Nat.pow_pos (by omega)
          simp only [List.cons_append]; omega
      rw [natBE_of_ne_zero _ hne, beNat_concat]
      have hx : x.toNat < 256 := x.toNat_lt
      have e1 : (beNat b' * 256 + x.toNat) / 256 = beNat b' := by omega
      have e2 : (beNat b' * 256 + x.toNat) % 256 = x.toNat := by omega
      rw [e1, e2]
      congr 1
      · cases b' with
        | nil => simp
        | cons y ys =>
          apply ih _ _ hl
          simpa using h
      · simp

theorem dropWhile_zero_canonical (b : Bytes) : (b.dropWhile (· = 0)).head? ≠ some 0 := by
  induction b with
  | nil => simp
  | cons x xs ih =>
    by_cases hx : x = 0
    · subst hx; simpa [List.dropWhile_cons] using ih
    · simp [hx]

theorem natBE_beNat (b : Bytes) : natBE (beNat b) = b.dropWhile (· = 0) := by
  rw [← beNat_dropWhile_zero]
  exact natBE_beNat_of_canonical _ (dropWhile_zero_canonical b)

theorem natBE_length_le (n k : Nat) (h : n < 256 ^ k) : (natBE n).length ≤ k := by
  induction k generalizing n with
  | zero => simp at h; subst h; simp
  | succ k ih =>
    by_cases hn : n = 0
    · subst hn; simp
    · rw [natBE_of_ne_zero n hn]
      have : n / 256 < 256 ^ k := by rw [Nat.pow_succ] at h; omega
      have := ih _ this
      simp; omega

/-- `natBE n` is the shortest string with value `n` -/
theorem natBE_length_le_of_beNat (b : Bytes) : (natBE (beNat b)).length ≤ b.length :=
  natBE_length_le _ _ (beNat_lt b)

theorem natBE_length_lower (n : Nat) (h : n ≠ 0) : 256 ^ ((natBE n).length - 1) ≤ n := by
  have h2 : natBE n ≠ [] := fun e => h ((natBE_eq_nil_iff n).mp e)
  have h3 := natBE_headD_ne_zero n h
  have h4 := beNat_natBE n
  cases hb : natBE n with
  | nil => exact absurd hb h2
  | cons x xs =>
    rw [hb] at h3 h4
    have := beNat_ge_of_head_ne_zero x xs (by simpa using h3)
    simp; omega

/-! ### padLeft / natBEpad -/

theorem padLeft_length (len : Nat) (b : Bytes) : (padLeft len b).length = max len b.length := by
  simp [padLeft]; omega

theorem padLeft_length_of_le (len : Nat) (b : Bytes) (h : b.length ≤ len) :
    (padLeft len b).length = len := by
  rw [padLeft_length]; omega

theorem padLeft_of_ge (len : Nat) (b : Bytes) (h : len ≤ b.length) : padLeft len b = b := by
  simp [padLeft, Nat.sub_eq_zero_of_le h]

theorem beNat_padLeft (len : Nat) (b : Bytes) : beNat (padLeft len b) = beNat b := by
  simp [padLeft, beNat_replicate_zero_append]

theorem padLeft_eq_replicate_append (len : Nat) (b : Bytes) :
    padLeft len b = List.replicate (len - b.length) 0 ++ b := rfl

theorem padLeft_append (len : Nat) (a b : Bytes) :
    padLeft len a ++ b = padLeft (len + b.length) (a ++ b) := by
  simp only [padLeft, List.append_assoc, List.length_append]
  congr 2; omega

theorem natBEpad_length (len n : Nat) (h : n < 256 ^ len) : (natBEpad len n).length = len :=
  padLeft_length_of_le _ _ (natBE_length_le n len h)

theorem natBEpad_length_ge (len n : Nat) : len ≤ (natBEpad len n).length := by
  unfold natBEpad; rw [padLeft_length]; omega

theorem beNat_natBEpad (len n : Nat) : beNat (natBEpad len n) = n := by
  unfold natBEpad; rw [beNat_padLeft, beNat_natBE]

theorem natBEpad_eq (len n : Nat) :
    natBEpad len n = List.replicate (len - (natBE n).length) 0 ++ natBE n := rfl

theorem natBEpad_zero (len : Nat) : natBEpad len 0 = List.replicate len 0 := by
  simp [natBEpad, padLeft]

/-- a string of exactly `len` bytes is the padded encoding of its value -/
theorem natBEpad_beNat (b : Bytes) : natBEpad b.length (beNat b) = b := by
  unfold natBEpad padLeft
  rw [natBE_beNat]
  induction b with
  | nil => simp
  | cons x xs ih =>
    by_cases hx : x = 0
    · subst hx
      simp only [List.dropWhile_cons, decide_true, if_true, List.length_cons]
      have hle : (xs.dropWhile (· = 0)).length ≤ xs.length := (List.dropWhile_sublist _).length_le
      have : xs.length + 1 - (List.dropWhile (fun x => decide (x = 0)) xs).length
           = (xs.length - (List.dropWhile (fun x => decide (x = 0)) xs).length) + 1 := by omega
      rw [this, List.replicate_succ, List.cons_append, ih]
    · simp [hx]

theorem take_natBEpad_append (len n : Nat) (rest : Bytes) (h : n < 256 ^ len) :
    (natBEpad len n ++ rest).take len = natBEpad len n := by
  have := natBEpad_length len n h
  rw [List.take_append_of_le_length (by omega), List.take_of_length_le (by omega)]

theorem drop_natBEpad_append (len n : Nat) (rest : Bytes) (h : n < 256 ^ len) :
    (natBEpad len n ++ rest).drop len = rest := by
  have := natBEpad_length len n h
  exact List.drop_left' this

/-- value of a concatenation of a fixed-width field and a tail -/
theorem beNat_natBEpad_append (len n : Nat) (rest : Bytes) :
    beNat (natBEpad len n ++ rest) = n * 256 ^ rest.length + beNat rest := by
  rw [beNat_append, beNat_natBEpad]

/-- splitting a value into high part and a fixed-width low part -/
theorem natBEpad_add (l1 l2 hi lo : Nat) (hlo : lo < 256 ^ l2) :
    natBEpad (l1 + l2) (hi * 256 ^ l2 + lo) = natBEpad l1 hi ++ natBEpad l2 lo := by
  by_cases hhi : hi < 256 ^ l1
  · have hl : (natBEpad l1 hi ++ natBEpad l2 lo).length = l1 + l2 := by
      rw [List.length_append, natBEpad_length _ _ hhi, natBEpad_length _ _ hlo]
    have hv : beNat (natBEpad l1 hi ++ natBEpad l2 lo) = hi * 256 ^ l2 + lo := by
      rw [beNat_append, beNat_natBEpad, beNat_natBEpad, natBEpad_length _ _ hlo]
    rw [← hv, ← hl, natBEpad_beNat]
  · -- high part overflows its field: both sides are the unpadded encoding
    have hhi' : 256 ^ l1 ≤ hi := by omega
    have hlen1 : l1 ≤ (natBE hi).length := by
      apply Decidable.byContradiction; intro hc
      have h1 : (natBE hi).length ≤ l1 - 1 := by omega
      have h2 := beNat_lt (natBE hi)
      rw [beNat_natBE] at h2
      have : 256 ^ (natBE hi).length ≤ 256 ^ (l1 - 1) := Nat.pow_le_pow_right (by omega) h1
      have : 256 ^ (l1 - 1) ≤ 256 ^ l1 := Nat.pow_le_pow_right (by omega) (by omega)
      have hl1 : l1 ≠ 0 := by omega
      have : 256 ^ (l1 - 1) < 256 ^ l1 := Nat.pow_lt_pow_right (by omega) (by omega)
      omega
    have hv : beNat (natBE hi ++ natBEpad l2 lo) = hi * 256 ^ l2 + lo := by
      rw [beNat_append, beNat_natBE, beNat_natBEpad, natBEpad_length _ _ hlo]
    have hl : l1 + l2 ≤ (natBE hi ++ natBEpad l2 lo).length := by
      rw [List.length_append, natBEpad_length _ _ hlo]; omega
    have hcanon : (natBE hi ++ natBEpad l2 lo).head? ≠ some 0 := by
      have hne : natBE hi ≠ [] := fun e => by
        have := (natBE_eq_nil_iff hi).mp e
        have : 0 < 256 ^ l1 := Nat.pow_pos (by omega)
        omega
      have := natBE_head?_ne_zero hi
      cases hb : natBE hi with
      | nil => exact absurd hb hne
      | cons y ys => rw [hb] at this; simpa using this
    have e1 : natBEpad l1 hi = natBE hi := padLeft_of_ge _ _ hlen1
    rw [e1]
    unfold natBEpad
    rw [← hv, natBE_beNat_of_canonical _ hcanon]
    exact padLeft_of_ge _ _ hl

/-- injectivity of fixed-width encoding -/
theorem natBEpad_inj (len a b : Nat) (h : natBEpad len a = natBEpad len b) : a = b := by
  rw [← beNat_natBEpad len a, h, beNat_natBEpad]

theorem natBE_inj (a b : Nat) (h : natBE a = natBE b) : a = b := by
  rw [← beNat_natBE a, h, beNat_natBE]

/-! ### generic `getD` / `take` / `drop` facts (used by the DER parser proofs) -/

theorem getD_take {α} (l : List α) (i n : Nat) (d : α) (h : i < n) :
    (l.take n).getD i d = l.getD i d := by
  simp only [List.getD_eq_getElem?_getD, List.getElem?_take_of_lt h]

theorem getD_drop {α} (l : List α) (k i : Nat) (d : α) :
    (l.drop k).getD i d = l.getD (k + i) d := by
  simp only [List.getD_eq_getElem?_getD, List.getElem?_drop]

theorem getD_append_right' {α} (l₁ l₂ : List α) (i : Nat) (d : α) :
    (l₁ ++ l₂).getD (l₁.length + i) d = l₂.getD i d := by
  simp only [List.getD_eq_getElem?_getD]
  rw [List.getElem?_append_right (by omega)]
  congr 2; omega

theorem take_two_eq {α} (l : List α) (d : α) (h : 2 ≤ l.length) :
    l.take 2 = [l.getD 0 d, l.getD 1 d] := by
  match l, h with
  | a :: b :: t, _ => simp

theorem take_four_eq {α} (l : List α) (d : α) (h : 4 ≤ l.length) :
    l.take 4 = [l.getD 0 d, l.getD 1 d, l.getD 2 d, l.getD 3 d] := by
  match l, h with
  | a :: b :: c :: e :: t, _ => simp

end GoBk.Bytes
