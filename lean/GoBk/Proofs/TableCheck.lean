/-
  GoBk.Proofs.TableCheck — the executable checker for the byte-point table `GoBk.Gen.Table`
  (REGENERATED on every run from /repo/bec/secp256k1.go) and its KERNEL evaluation, one
  `decide +kernel` lemma per row (`row_ok_0 … row_ok_31`, `rows_ok`).  Core Lean only (no Mathlib):
  what `rowOK i = true` means is proved in `GoBk.Proofs.TableProof` (`table_correct`).

  The checker is inversion-free:
    * row 31:  T[31][1] ~ (Gx, Gy, 1);      row i < 31:  T[i][1] ~ T[i+1][255] + T[i+1][1]
    * T[i][b+1] ~ T[i][b] + T[i][1]   for b = 1 .. 254      (sum by `Fast.jadd`)
    * all Z ≢ 0 (mod P) for b ≥ 1;  X, Y canonical words, Z magnitude-1 words, all values < P;
      T[i][0] = 0 (all words);  each row has exactly 768 coordinates
  where `p ~ q` is cross-multiplied Jacobian equality X₁·Z₂² ≡ X₂·Z₁², Y₁·Z₂³ ≡ Y₂·Z₁³ (mod P).

  Cost (measured 2026-09-30): this module 70 s / 3.0 GB (Gen.Table itself 31 s); about 2 s per row.

  Sensitivity (measured in a scratch copy, 2026-09-30).  Four single-bit edits of Gen/Table.lean:
  bit 0 of word 0 of X of entry (5,77); Y of entry (12,0) set to 1; bit 7 of word 3 of Z of entry
  (20,255); bit 0 of word 9 of X of entry (31,1).  Result: exactly `row_ok_5`, `row_ok_12`,
  `row_ok_19` + `row_ok_20` (entry 255 of row 20 is also the base of row 19) and `row_ok_30` +
  `row_ok_31` fail ("decide proved that the proposition rowOK n = true is false"); the other 26 pass.
  (Bits above 2^320 of a literal are ignored by `Gen.Table.get` and by the checker alike; a
  different but correct Jacobian representation of the same points would pass, as it should.)
-/
import GoBk.Gen.Table
import GoBk.Spec.Fast

namespace GoBk.Proofs.Table
open GoBk.Spec GoBk.Gen.Field GoBk.Gen.Table

/-! ### executable checker (core `Nat` only) -/

/-- word `k` of a packed coordinate, as a `Nat` -/
def wordN (n k : Nat) : Nat := (n >>> (32 * k)) % 4294967296

/-- the field value `Σ wordₖ · 2^(26k)` of a packed coordinate -/
def valN (n : Nat) : Nat :=
  wordN n 0 + wordN n 1 * 2^26 + wordN n 2 * 2^52 + wordN n 3 * 2^78 + wordN n 4 * 2^104
    + wordN n 5 * 2^130 + wordN n 6 * 2^156 + wordN n 7 * 2^182 + wordN n 8 * 2^208
    + wordN n 9 * 2^234

/-- all ten words are normalised (`< 2^26`, top word `< 2^22`) and the value is fully reduced (`< P`) -/
def canonN (n : Nat) : Bool :=
  valN n < P && wordN n 0 < 67108864 && wordN n 1 < 67108864 && wordN n 2 < 67108864 &&
  wordN n 3 < 67108864 && wordN n 4 < 67108864 && wordN n 5 < 67108864 && wordN n 6 < 67108864 &&
  wordN n 7 < 67108864 && wordN n 8 < 67108864 && wordN n 9 < 4194304

/-- magnitude 1 in the relaxed sense of `FieldDefs.MagLe` (words `≤ 2^26 + 2^20`, top word `≤ 2^22`:
the output range of `Mul2`/`SquareVal`, whose word 2 is not renormalised) and value `< P`.
The table's Z coordinates are only this: three of them have word 2 slightly above `2^26`. -/
def magN (n : Nat) : Bool :=
  valN n < P && wordN n 0 ≤ 68157440 && wordN n 1 ≤ 68157440 && wordN n 2 ≤ 68157440 &&
  wordN n 3 ≤ 68157440 && wordN n 4 ≤ 68157440 && wordN n 5 ≤ 68157440 && wordN n 6 ≤ 68157440 &&
  wordN n 7 ≤ 68157440 && wordN n 8 ≤ 68157440 && wordN n 9 ≤ 4194304

/-- executable value of an `FV` -/
def fvNat (f : FV) : Nat :=
  f.n0.toNat + f.n1.toNat * 2^26 + f.n2.toNat * 2^52 + f.n3.toNat * 2^78 + f.n4.toNat * 2^104
    + f.n5.toNat * 2^130 + f.n6.toNat * 2^156 + f.n7.toNat * 2^182 + f.n8.toNat * 2^208
    + f.n9.toNat * 2^234

/-- cross-multiplied equality of two Jacobian triples (as affine points, when both `Z ≢ 0`) -/
def jeq : Fast.J → Fast.J → Bool
  | (x1, y1, z1), (x2, y2, z2) =>
    let a := z1 * z1 % P
    let b := z2 * z2 % P
    (x1 * b % P == x2 * a % P) && (y1 * (b * z2 % P) % P == y2 * (a * z1 % P) % P)

/-- `q ~ p + e1`, with both `Z ≢ 0` -/
def stepOK (e1 p q : Fast.J) : Bool :=
  let s := Fast.jadd p e1
  (q.2.2 % P != 0) && (s.2.2 % P != 0) && jeq s q

/-- `p` is entry `b`, the list holds entries `b+1 …` (three packed coordinates each) -/
def chk (e1 : Fast.J) : Fast.J → List Nat → Bool
  | _, [] => true
  | p, x :: y :: z :: rest =>
    canonN x && canonN y && magN z &&
      stepOK e1 p (valN x, valN y, valN z) && chk e1 (valN x, valN y, valN z) rest
  | _, _ => false

/-- `base` must represent the point that entry 1 of the row is claimed to be -/
def chkRow (base : Fast.J) : List Nat → Bool
  | z0 :: z1 :: z2 :: x :: y :: z :: rest =>
    z0 == 0 && z1 == 0 && z2 == 0 && canonN x && canonN y && magN z &&
      (valN z % P != 0) && (base.2.2 % P != 0) && jeq base (valN x, valN y, valN z) &&
      rest.length == 762 && chk (valN x, valN y, valN z) (valN x, valN y, valN z) rest
  | _ => false

def nth : List Nat → Nat → Nat
  | [], _ => 0
  | x :: _, 0 => x
  | _ :: l, k+1 => nth l k

/-- row `i` of the table as a list -/
def rowL (i : Nat) : List Nat := (rows.getD i #[]).toList

/-- entry `b` of a row given as a list -/
def ent (l : List Nat) (b : Nat) : Fast.J :=
  (valN (nth l (3 * b)), valN (nth l (3 * b + 1)), valN (nth l (3 * b + 2)))

/-- the representation the first entry of row `i` is compared with -/
def baseOf (i : Nat) : Fast.J :=
  if i = 31 then (Gx, Gy, 1) else Fast.jadd (ent (rowL (i + 1)) 255) (ent (rowL (i + 1)) 1)

def rowOK (i : Nat) : Bool := chkRow (baseOf i) (rowL i)


/-! ### kernel evaluation of the checker, one lemma per row -/

set_option maxRecDepth 1000000 in
theorem row_ok_0 : rowOK 0 = true := by decide +kernel
set_option maxRecDepth 1000000 in
theorem row_ok_1 : rowOK 1 = true := by decide +kernel
set_option maxRecDepth 1000000 in
theorem row_ok_2 : rowOK 2 = true := by decide +kernel
set_option maxRecDepth 1000000 in
theorem row_ok_3 : rowOK 3 = true := by decide +kernel
set_option maxRecDepth 1000000 in
theorem row_ok_4 : rowOK 4 = true := by decide +kernel
set_option maxRecDepth 1000000 in
theorem row_ok_5 : rowOK 5 = true := by decide +kernel
set_option maxRecDepth 1000000 in
theorem row_ok_6 : rowOK 6 = true := by decide +kernel
set_option maxRecDepth 1000000 in
theorem row_ok_7 : rowOK 7 = true := by decide +kernel
set_option maxRecDepth 1000000 in
theorem row_ok_8 : rowOK 8 = true := by decide +kernel
set_option maxRecDepth 1000000 in
theorem row_ok_9 : rowOK 9 = true := by decide +kernel
set_option maxRecDepth 1000000 in
theorem row_ok_10 : rowOK 10 = true := by decide +kernel
set_option maxRecDepth 1000000 in
theorem row_ok_11 : rowOK 11 = true := by decide +kernel
set_option maxRecDepth 1000000 in
theorem row_ok_12 : rowOK 12 = true := by decide +kernel
set_option maxRecDepth 1000000 in
theorem row_ok_13 : rowOK 13 = true := by decide +kernel
set_option maxRecDepth 1000000 in
theorem row_ok_14 : rowOK 14 = true := by decide +kernel
set_option maxRecDepth 1000000 in
theorem row_ok_15 : rowOK 15 = true := by decide +kernel
set_option maxRecDepth 1000000 in
theorem row_ok_16 : rowOK 16 = true := by decide +kernel
set_option maxRecDepth 1000000 in
theorem row_ok_17 : rowOK 17 = true := by decide +kernel
set_option maxRecDepth 1000000 in
theorem row_ok_18 : rowOK 18 = true := by decide +kernel
set_option maxRecDepth 1000000 in
theorem row_ok_19 : rowOK 19 = true := by decide +kernel
set_option maxRecDepth 1000000 in
theorem row_ok_20 : rowOK 20 = true := by decide +kernel
set_option maxRecDepth 1000000 in
theorem row_ok_21 : rowOK 21 = true := by decide +kernel
set_option maxRecDepth 1000000 in
theorem row_ok_22 : rowOK 22 = true := by decide +kernel
set_option maxRecDepth 1000000 in
theorem row_ok_23 : rowOK 23 = true := by decide +kernel
set_option maxRecDepth 1000000 in
theorem row_ok_24 : rowOK 24 = true := by decide +kernel
set_option maxRecDepth 1000000 in
theorem row_ok_25 : rowOK 25 = true := by decide +kernel
set_option maxRecDepth 1000000 in
theorem row_ok_26 : rowOK 26 = true := by decide +kernel
set_option maxRecDepth 1000000 in
theorem row_ok_27 : rowOK 27 = true := by decide +kernel
set_option maxRecDepth 1000000 in
theorem row_ok_28 : rowOK 28 = true := by decide +kernel
set_option maxRecDepth 1000000 in
theorem row_ok_29 : rowOK 29 = true := by decide +kernel
set_option maxRecDepth 1000000 in
theorem row_ok_30 : rowOK 30 = true := by decide +kernel
set_option maxRecDepth 1000000 in
theorem row_ok_31 : rowOK 31 = true := by decide +kernel

theorem rows_ok : ∀ i, i < 32 → rowOK i = true
  | 0, _ => row_ok_0
  | 1, _ => row_ok_1
  | 2, _ => row_ok_2
  | 3, _ => row_ok_3
  | 4, _ => row_ok_4
  | 5, _ => row_ok_5
  | 6, _ => row_ok_6
  | 7, _ => row_ok_7
  | 8, _ => row_ok_8
  | 9, _ => row_ok_9
  | 10, _ => row_ok_10
  | 11, _ => row_ok_11
  | 12, _ => row_ok_12
  | 13, _ => row_ok_13
  | 14, _ => row_ok_14
  | 15, _ => row_ok_15
  | 16, _ => row_ok_16
  | 17, _ => row_ok_17
  | 18, _ => row_ok_18
  | 19, _ => row_ok_19
  | 20, _ => row_ok_20
  | 21, _ => row_ok_21
  | 22, _ => row_ok_22
  | 23, _ => row_ok_23
  | 24, _ => row_ok_24
  | 25, _ => row_ok_25
  | 26, _ => row_ok_26
  | 27, _ => row_ok_27
  | 28, _ => row_ok_28
  | 29, _ => row_ok_29
  | 30, _ => row_ok_30
  | 31, _ => row_ok_31
  | _ + 32, h => absurd h (by omega)


end GoBk.Proofs.Table
