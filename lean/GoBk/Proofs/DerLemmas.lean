import GoBk.Model.Der
import GoBk.Proofs.BytesLemmas
/-
  Helper lemmas for property C06 (DER signature serialisation / parsing), core Lean only.
-/
namespace GoBk.Der
open GoBk Bytes Spec

/-! ### byte-level facts -/

private theorem and80_aux : ∀ n, n < 256 →
    ((UInt8.ofNat n &&& 0x80 != 0) = decide ((UInt8.ofNat n).toNat ≥ 128)) ∧
    ((UInt8.ofNat n &&& 0x80 == 0x80) = decide ((UInt8.ofNat n).toNat ≥ 128)) ∧
    ((UInt8.ofNat n &&& 0x80 != 0x80) = decide ((UInt8.ofNat n).toNat < 128)) := by
  decide +kernel

theorem and80_ne_zero (x : UInt8) : (x &&& 0x80 != 0) = decide (x.toNat ≥ 128) := by
  have := (and80_aux x.toNat x.toNat_lt).1; simpa only [UInt8.ofNat_toNat] using this
theorem and80_beq (x : UInt8) : (x &&& 0x80 == 0x80) = decide (x.toNat ≥ 128) := by
  have := (and80_aux x.toNat x.toNat_lt).2.1; simpa only [UInt8.ofNat_toNat] using this
theorem and80_bne (x : UInt8) : (x &&& 0x80 != 0x80) = decide (x.toNat < 128) := by
  have := (and80_aux x.toNat x.toNat_lt).2.2; simpa only [UInt8.ofNat_toNat] using this

/-! ### canonicalizeInt = derInt -/

theorem canonicalizeInt_eq_derInt (n : Nat) : canonicalizeInt n = derInt n := by
  unfold canonicalizeInt derInt
  cases h : natBE n with
  | nil => simp
  | cons x xs => simp [and80_ne_zero]

/-- `canonicalPadding` in arithmetic form -/
theorem canonicalPadding_eq (b : Bytes) :
    canonicalPadding b =
      if (b.headD 0).toNat ≥ 128 then .negative
      else if b.length > 1 ∧ b.headD 0 = 0 ∧ (b.getD 1 0).toNat < 128 then .excessive
      else .ok := by
  unfold canonicalPadding
  rw [and80_beq, and80_bne]
  simp only [decide_eq_true_eq, Bool.and_eq_true, beq_iff_eq]
  congr 2
  simp [and_assoc]

theorem canonicalPadding_ok_iff (b : Bytes) :
    canonicalPadding b = .ok ↔
      (b.headD 0).toNat < 128 ∧ ¬ (b.length > 1 ∧ b.headD 0 = 0 ∧ (b.getD 1 0).toNat < 128) := by
  rw [canonicalPadding_eq]
  by_cases h1 : (b.headD 0).toNat ≥ 128
  · rw [if_pos h1]
    constructor
    · intro h; cases h
    · intro h; omega
  · by_cases h2 : b.length > 1 ∧ b.headD 0 = 0 ∧ (b.getD 1 0).toNat < 128
    · rw [if_neg h1, if_pos h2]
      constructor
      · intro h; cases h
      · intro h; exact absurd h2 h.2
    · rw [if_neg h1, if_neg h2]; simp only [true_iff]; exact ⟨by omega, h2⟩

/-! ### derInt -/

theorem derInt_ne_nil (n : Nat) : derInt n ≠ [] := by
  unfold derInt
  cases h : natBE n with
  | nil => simp
  | cons x xs => simp; split <;> simp

theorem derInt_length_pos (n : Nat) : 1 ≤ (derInt n).length := by
  have := derInt_ne_nil n
  cases h : derInt n with
  | nil => exact absurd h this
  | cons x xs => simp

theorem derInt_length_le_succ (n : Nat) : (derInt n).length ≤ (natBE n).length + 1 := by
  unfold derInt
  cases h : natBE n with
  | nil => simp
  | cons x xs => simp; split <;> simp

theorem derInt_length_le (n k : Nat) (_hk : 1 ≤ k) (h : n < 256 ^ k) : (derInt n).length ≤ k + 1 := by
  have := derInt_length_le_succ n
  have := natBE_length_le n k h
  omega

theorem derInt_length_le_33 (n : Nat) (h : n < 2 ^ 256) : (derInt n).length ≤ 33 :=
  derInt_length_le n 32 (by omega) (by simpa using h)

theorem beNat_derInt (n : Nat) : beNat (derInt n) = n := by
  unfold derInt
  cases h : natBE n with
  | nil => simp; exact ((natBE_eq_nil_iff n).mp h).symm
  | cons x xs =>
    simp only [List.isEmpty_cons, Bool.false_eq_true, if_false]
    split
    · rw [beNat_zero_cons, ← h, beNat_natBE]
    · rw [← h, beNat_natBE]

theorem canonicalPadding_derInt (n : Nat) : canonicalPadding (derInt n) = .ok := by
  rw [canonicalPadding_ok_iff]
  unfold derInt
  cases h : natBE n with
  | nil => simp
  | cons x xs =>
    have hx : x ≠ 0 := by
      have := natBE_head?_ne_zero n
      rw [h] at this; simpa using this
    simp only [List.isEmpty_cons, Bool.false_eq_true, if_false]
    rw [show (x :: xs).headD 0 = x from rfl]
    by_cases hge : x.toNat ≥ 128
    · rw [if_pos hge]
      simp; omega
    · rw [if_neg hge]
      simp [hx]; omega

/-- uniqueness: a non-empty, canonically padded string is the `derInt` of its value -/
theorem derInt_beNat (b : Bytes) (hc : canonicalPadding b = .ok) (hne : b ≠ []) : derInt (beNat b) = b := by
  rw [canonicalPadding_ok_iff] at hc
  obtain ⟨h1, h2⟩ := hc
  cases b with
  | nil => exact absurd rfl hne
  | cons x xs =>
    simp only [List.headD_cons] at h1 h2
    by_cases hx : x = 0
    · subst hx
      cases xs with
      | nil => simp [derInt, beNat]
      | cons y ys =>
        simp at h2
        have hy : y ≠ 0 := by intro e; subst e; simp at h2
        rw [beNat_zero_cons]
        have hcanon : natBE (beNat (y :: ys)) = y :: ys :=
          natBE_beNat_of_canonical _ (by simpa using hy)
        unfold derInt
        rw [hcanon]
        simp; omega
    · have hcanon : natBE (beNat (x :: xs)) = x :: xs :=
        natBE_beNat_of_canonical _ (by simpa using hx)
      unfold derInt
      rw [hcanon]
      simp; omega

/-! ### Serialise -/

theorem N_val : N = 0xfffffffffffffffffffffffffffffffebaaedce6af48a03bbfd25e8cd0364141 := rfl

theorem N_lt_two_pow_256 : N < 2 ^ 256 := by rw [N_val]; omega

/-- `Serialise` emits `Spec.der r (min s (N - s))` (only `s < N` is needed). -/
theorem serialise_eq (r s : Nat) (hs : s < N) : serialise r s = der r (min s (N - s)) := by
  unfold serialise der
  simp only [canonicalizeInt_eq_derInt]
  have hS : (if s > halfOrder then (Int.natAbs ((N : Int) - (s : Int))) else s) = min s (N - s) := by
    unfold halfOrder
    rw [N_val] at *
    split <;> omega
  rw [hS]
  have : 6 + (derInt r).length + (derInt (min s (N - s))).length - 2
       = 4 + (derInt r).length + (derInt (min s (N - s))).length := by omega
  rw [this]

theorem der_eq_derLaxOf (r s : Nat) : der r s = derLaxOf (derInt r) (derInt s) := rfl

/-! ### the parser in stages (definitionally equal to the model's `parseSig`) -/

def rangeCheck (r sv : Nat) : Option (Nat × Nat) :=
  if r = 0 then none else
  if sv = 0 then none else
  if r ≥ N then none else
  if sv ≥ N then none else
  some (r, sv)

def parseS (der : Bool) (s : Bytes) (r : Nat) (index : Nat) : Option (Nat × Nat) :=
  if s.getD index 0 != 0x02 then none else
  let index := index + 1
  let sLen := (s.getD index 0).toNat
  let index := index + 1
  if sLen = 0 || sLen > s.length - index then none else
  let sBytes := (s.drop index).take sLen
  if der && canonicalPadding sBytes != .ok then none else
  let sv := beNat sBytes
  let index := index + sLen
  if index != s.length then none else
  rangeCheck r sv

def parseR (der : Bool) (s : Bytes) : Option (Nat × Nat) :=
  if s.getD 2 0 != 0x02 then none else
  let rLen := (s.getD 3 0).toNat
  let index := 4
  if rLen = 0 || rLen > s.length - index - 3 then none else
  let rBytes := (s.drop index).take rLen
  if der && canonicalPadding rBytes != .ok then none else
  let r := beNat rBytes
  let index := index + rLen
  parseS der s r index

theorem parseSig_eq (sig : Bytes) (der : Bool) :
    parseSig sig der =
      if sig.length < Gen.k_minSigLen then none else
      if sig.getD 0 0 != 0x30 then none else
      let siglen : UInt8 := sig.getD 1 0
      let tot : Nat := (siglen + 2).toNat
      if tot > sig.length || tot < Gen.k_minSigLen then none else
      parseR der (sig.take tot) := rfl

theorem ite_none_eq_some {α} {c : Prop} [Decidable c] {x : Option α} {p : α} :
    (if c then none else x) = some p ↔ ¬ c ∧ x = some p := by
  split <;> simp [*]

theorem rangeCheck_eq_some (r sv : Nat) (p : Nat × Nat) :
    rangeCheck r sv = some p ↔ p = (r, sv) ∧ 1 ≤ r ∧ r < N ∧ 1 ≤ sv ∧ sv < N := by
  unfold rangeCheck
  simp only [ite_none_eq_some, Option.some.injEq]
  constructor
  · rintro ⟨h1, h2, h3, h4, rfl⟩; exact ⟨rfl, by omega, by omega, by omega, by omega⟩
  · rintro ⟨rfl, h1, h2, h3, h4⟩; exact ⟨by omega, by omega, by omega, by omega, rfl⟩

theorem parseS_eq_some (der : Bool) (s : Bytes) (r idx : Nat) (p : Nat × Nat) :
    parseS der s r idx = some p ↔
      s.getD idx 0 = 2 ∧ (s.getD (idx + 1) 0).toNat ≠ 0 ∧
      idx + 2 + (s.getD (idx + 1) 0).toNat = s.length ∧
      (der = true → canonicalPadding (s.drop (idx + 2)) = .ok) ∧
      rangeCheck r (beNat (s.drop (idx + 2))) = some p := by
  unfold parseS
  dsimp only
  simp only [ite_none_eq_some, bne_iff_ne, ne_eq, Decidable.not_not, Bool.or_eq_true,
    decide_eq_true_eq, not_or, Bool.and_eq_true, not_and, Nat.not_lt, gt_iff_lt]
  constructor
  · rintro ⟨h1, ⟨h2, h3⟩, h4, h5, h6⟩
    have hl : (s.drop (idx + 1 + 1)).length ≤ (s.getD (idx + 1) 0).toNat := by
      rw [List.length_drop]; omega
    rw [List.take_of_length_le hl] at h4 h6
    exact ⟨h1, h2, by omega, h4, h6⟩
  · rintro ⟨h1, h2, h3, h4, h5⟩
    have hl : (s.drop (idx + 1 + 1)).length ≤ (s.getD (idx + 1) 0).toNat := by
      rw [List.length_drop]; omega
    rw [List.take_of_length_le hl]
    exact ⟨h1, ⟨h2, by omega⟩, h4, by omega, h5⟩

theorem parseR_eq_some (der : Bool) (s : Bytes) (p : Nat × Nat) :
    parseR der s = some p ↔
      s.getD 2 0 = 2 ∧ (s.getD 3 0).toNat ≠ 0 ∧ (s.getD 3 0).toNat + 7 ≤ s.length ∧
      (der = true → canonicalPadding ((s.drop 4).take (s.getD 3 0).toNat) = .ok) ∧
      parseS der s (beNat ((s.drop 4).take (s.getD 3 0).toNat)) (4 + (s.getD 3 0).toNat) = some p := by
  unfold parseR
  dsimp only
  simp only [ite_none_eq_some, bne_iff_ne, ne_eq, Decidable.not_not, Bool.or_eq_true,
    decide_eq_true_eq, not_or, Bool.and_eq_true, not_and, Nat.not_lt, gt_iff_lt]
  constructor
  · rintro ⟨h1, ⟨h2, h3⟩, h4, h5⟩
    exact ⟨h1, h2, by omega, h4, h5⟩
  · rintro ⟨h1, h2, h3, h4, h5⟩
    exact ⟨h1, ⟨h2, by omega⟩, h4, h5⟩

theorem parseSig_eq_some_raw (sig : Bytes) (der : Bool) (p : Nat × Nat) :
    parseSig sig der = some p ↔
      8 ≤ sig.length ∧ sig.getD 0 0 = 0x30 ∧ (sig.getD 1 0).toNat ≤ 253 ∧
      (sig.getD 1 0).toNat + 2 ≤ sig.length ∧ 6 ≤ (sig.getD 1 0).toNat ∧
      parseR der (sig.take ((sig.getD 1 0).toNat + 2)) = some p := by
  rw [parseSig_eq]
  dsimp only
  simp only [ite_none_eq_some, bne_iff_ne, ne_eq, Decidable.not_not, Bool.or_eq_true,
    decide_eq_true_eq, not_or, Nat.not_lt, gt_iff_lt]
  rw [show Gen.k_minSigLen = 8 from rfl]
  have hadd : (sig.getD 1 0 + 2).toNat = ((sig.getD 1 0).toNat + 2) % 256 := by
    rw [UInt8.toNat_add]; rfl
  have hlt : (sig.getD 1 0).toNat < 256 := (sig.getD 1 0).toNat_lt
  rw [hadd]
  constructor
  · rintro ⟨h1, h2, ⟨h3, h4⟩, h5⟩
    have hw : ((sig.getD 1 0).toNat + 2) % 256 = (sig.getD 1 0).toNat + 2 := by omega
    rw [hw] at h3 h4 h5
    exact ⟨h1, h2, by omega, h3, by omega, h5⟩
  · rintro ⟨h1, h2, h3, h4, h5, h6⟩
    have hw : ((sig.getD 1 0).toNat + 2) % 256 = (sig.getD 1 0).toNat + 2 := by omega
    rw [hw]
    exact ⟨h1, h2, ⟨h4, by omega⟩, h6⟩

/-! ### accessors of the tag/length structure -/

theorem derLaxOf_length (rb sb : Bytes) : (derLaxOf rb sb).length = 6 + rb.length + sb.length := by
  simp [derLaxOf]; omega

private theorem derLaxOf_split (rb sb : Bytes) :
    derLaxOf rb sb =
      ([0x30, UInt8.ofNat (4 + rb.length + sb.length), 0x02, UInt8.ofNat rb.length] ++ rb) ++
        ([0x02, UInt8.ofNat sb.length] ++ sb) := by
  simp [derLaxOf]

private theorem getD_append_right'' {α} (l₁ l₂ : List α) (n i : Nat) (d : α) (h : l₁.length = n) :
    (l₁ ++ l₂).getD (n + i) d = l₂.getD i d := by
  subst h; exact getD_append_right' l₁ l₂ i d

theorem derLaxOf_getD0 (rb sb : Bytes) : (derLaxOf rb sb).getD 0 0 = 0x30 := by simp [derLaxOf]
theorem derLaxOf_getD1 (rb sb : Bytes) :
    (derLaxOf rb sb).getD 1 0 = UInt8.ofNat (4 + rb.length + sb.length) := by simp [derLaxOf]
theorem derLaxOf_getD2 (rb sb : Bytes) : (derLaxOf rb sb).getD 2 0 = 0x02 := by simp [derLaxOf]
theorem derLaxOf_getD3 (rb sb : Bytes) : (derLaxOf rb sb).getD 3 0 = UInt8.ofNat rb.length := by
  simp [derLaxOf]
theorem derLaxOf_drop4 (rb sb : Bytes) :
    (derLaxOf rb sb).drop 4 = rb ++ ([0x02, UInt8.ofNat sb.length] ++ sb) := by simp [derLaxOf]
theorem derLaxOf_rbytes (rb sb : Bytes) : ((derLaxOf rb sb).drop 4).take rb.length = rb := by
  rw [derLaxOf_drop4, List.take_left' rfl]
theorem derLaxOf_getD_tagS (rb sb : Bytes) : (derLaxOf rb sb).getD (4 + rb.length) 0 = 0x02 := by
  rw [derLaxOf_split, show 4 + rb.length = 4 + rb.length + 0 from rfl,
    getD_append_right'' _ _ _ _ _ (by simp; omega)]
  rfl
theorem derLaxOf_getD_lenS (rb sb : Bytes) :
    (derLaxOf rb sb).getD (4 + rb.length + 1) 0 = UInt8.ofNat sb.length := by
  rw [derLaxOf_split, getD_append_right'' _ _ _ _ _ (by simp; omega)]
  rfl
theorem derLaxOf_sbytes (rb sb : Bytes) : (derLaxOf rb sb).drop (4 + rb.length + 2) = sb := by
  rw [derLaxOf_split, ← List.append_assoc]
  exact List.drop_left' (by simp; omega)

theorem toNat_ofNat_of_le (n : Nat) (h : n ≤ 255) : (UInt8.ofNat n).toNat = n := by
  simp; omega

/-- reconstruction of a string of the right total length from its parsed fields -/
theorem eq_derLaxOf_of_fields (t : Bytes) (a c : Nat) (hlen : t.length = 6 + a + c)
    (h0 : t.getD 0 0 = 0x30) (h1 : t.getD 1 0 = UInt8.ofNat (4 + a + c)) (h2 : t.getD 2 0 = 0x02)
    (h3 : t.getD 3 0 = UInt8.ofNat a) (h4 : t.getD (4 + a) 0 = 0x02)
    (h5 : t.getD (4 + a + 1) 0 = UInt8.ofNat c) :
    t = derLaxOf ((t.drop 4).take a) (t.drop (4 + a + 2)) ∧
      ((t.drop 4).take a).length = a ∧ (t.drop (4 + a + 2)).length = c := by
  have hla : ((t.drop 4).take a).length = a := by simp [List.length_take, List.length_drop]; omega
  have hlc : (t.drop (4 + a + 2)).length = c := by simp [List.length_drop]; omega
  refine ⟨?_, hla, hlc⟩
  unfold derLaxOf
  rw [hla, hlc]
  have e1 : t = t.take 4 ++ t.drop 4 := (List.take_append_drop 4 t).symm
  have e2 : t.drop 4 = (t.drop 4).take a ++ t.drop (4 + a) := by
    conv => lhs; rw [← List.take_append_drop a (t.drop 4)]
    rw [List.drop_drop]
  have e3 : t.drop (4 + a) = (t.drop (4 + a)).take 2 ++ t.drop (4 + a + 2) := by
    conv => lhs; rw [← List.take_append_drop 2 (t.drop (4 + a))]
    rw [List.drop_drop]
  have e4 : t.take 4 = [0x30, UInt8.ofNat (4 + a + c), 0x02, UInt8.ofNat a] := by
    rw [take_four_eq t 0 (by omega), h0, h1, h2, h3]
  have e5 : (t.drop (4 + a)).take 2 = [0x02, UInt8.ofNat c] := by
    rw [take_two_eq _ 0 (by simp [List.length_drop]; omega), getD_drop, getD_drop, Nat.add_zero, h4, h5]
  conv => lhs; rw [e1, e2, e3, e4, e5]
  simp

/-! ### the main characterisation of `parseSig` -/

/-- `parseSig b der` accepts exactly the strings whose first `b[1]+2` bytes (`b[1] ≤ 253`) have the
tag/length structure `30 L 02 lr rb 02 ls sb` with non-empty `rb`, `sb`, canonical padding when `der`,
and values in `[1, N-1]`; it returns the unsigned values of `rb` and `sb`. -/
theorem parseSig_eq_some_iff (sig : Bytes) (der : Bool) (r s : Nat) :
    parseSig sig der = some (r, s) ↔
      ∃ rb sb : Bytes, rb ≠ [] ∧ sb ≠ [] ∧ (sig.getD 1 0).toNat ≤ 253 ∧
        sig.take ((sig.getD 1 0).toNat + 2) = derLaxOf rb sb ∧
        (sig.getD 1 0).toNat + 2 ≤ sig.length ∧
        (der = true → canonicalPadding rb = .ok ∧ canonicalPadding sb = .ok) ∧
        beNat rb = r ∧ beNat sb = s ∧ 1 ≤ r ∧ r < N ∧ 1 ≤ s ∧ s < N := by
  rw [parseSig_eq_some_raw]
  constructor
  · rintro ⟨h8, h0, h253, hle, h6, hR⟩
    generalize ht : sig.take ((sig.getD 1 0).toNat + 2) = t at hR
    have htl : t.length = (sig.getD 1 0).toNat + 2 := by
      rw [← ht, List.length_take]; omega
    have ht0 : t.getD 0 0 = 0x30 := by rw [← ht, getD_take _ _ _ _ (by omega), h0]
    have ht1 : t.getD 1 0 = sig.getD 1 0 := by rw [← ht, getD_take _ _ _ _ (by omega)]
    rw [parseR_eq_some] at hR
    obtain ⟨t2, rne, rle, rcp, hS⟩ := hR
    rw [parseS_eq_some] at hS
    obtain ⟨t4, sne, slen, scp, hrc⟩ := hS
    rw [rangeCheck_eq_some] at hrc
    obtain ⟨heq, hr1, hr2, hs1, hs2⟩ := hrc
    generalize ha : (t.getD 3 0).toNat = a at *
    generalize hc : (t.getD (4 + a + 1) 0).toNat = c at *
    have hlen : t.length = 6 + a + c := by omega
    have hb1 : t.getD 1 0 = UInt8.ofNat (4 + a + c) := by
      rw [ht1]
      have : (sig.getD 1 0).toNat = 4 + a + c := by omega
      rw [← this, UInt8.ofNat_toNat]
    have hb3 : t.getD 3 0 = UInt8.ofNat a := by rw [← ha, UInt8.ofNat_toNat]
    have hb5 : t.getD (4 + a + 1) 0 = UInt8.ofNat c := by rw [← hc, UInt8.ofNat_toNat]
    obtain ⟨hstruct, hla, hlc⟩ := eq_derLaxOf_of_fields t a c hlen ht0 hb1 t2 hb3 t4 hb5
    simp only [Prod.mk.injEq] at heq
    obtain ⟨rfl, rfl⟩ := heq
    refine ⟨(t.drop 4).take a, t.drop (4 + a + 2), ?_, ?_, h253, hstruct, hle, ?_, rfl,
      rfl, hr1, hr2, hs1, hs2⟩
    · intro e; rw [e] at hla; simp at hla; omega
    · intro e; rw [e] at hlc; simp at hlc; omega
    · intro hd; exact ⟨rcp hd, scp hd⟩
  · rintro ⟨rb, sb, hrne, hsne, h253, htake, hle, hcp, rfl, rfl, hr1, hr2, hs1, hs2⟩
    have hlr : 1 ≤ rb.length := List.length_pos_iff.mpr hrne
    have hls : 1 ≤ sb.length := List.length_pos_iff.mpr hsne
    have hlen : (sig.getD 1 0).toNat + 2 = 6 + rb.length + sb.length := by
      have := congrArg List.length htake
      rw [derLaxOf_length, List.length_take] at this
      omega
    have h0 : sig.getD 0 0 = 0x30 := by
      rw [← getD_take sig 0 ((sig.getD 1 0).toNat + 2) 0 (by omega), htake, derLaxOf_getD0]
    refine ⟨by omega, h0, h253, hle, by omega, ?_⟩
    rw [htake, parseR_eq_some, derLaxOf_getD2, derLaxOf_getD3, toNat_ofNat_of_le _ (by omega),
      derLaxOf_rbytes, derLaxOf_length]
    refine ⟨rfl, by omega, by omega, fun hd => (hcp hd).1, ?_⟩
    rw [parseS_eq_some, derLaxOf_getD_tagS, derLaxOf_getD_lenS, toNat_ofNat_of_le _ (by omega),
      derLaxOf_sbytes, derLaxOf_length, rangeCheck_eq_some]
    exact ⟨rfl, by omega, by omega, fun hd => (hcp hd).2, rfl, hr1, hr2, hs1, hs2⟩

/-! ### consequences -/

theorem parseDER_eq_some_iff (b : Bytes) (r s : Nat) :
    parseDER b = some (r, s) ↔
      2 ≤ b.length ∧ b.take ((b.getD 1 0).toNat + 2) = der r s ∧
      (b.getD 1 0).toNat + 2 ≤ b.length ∧ 1 ≤ r ∧ r < N ∧ 1 ≤ s ∧ s < N := by
  unfold parseDER
  rw [parseSig_eq_some_iff]
  constructor
  · rintro ⟨rb, sb, hrne, hsne, _, htake, hle, hcp, rfl, rfl, hr1, hr2, hs1, hs2⟩
    obtain ⟨hcr, hcs⟩ := hcp rfl
    refine ⟨by omega, ?_, hle, hr1, hr2, hs1, hs2⟩
    rw [der_eq_derLaxOf, derInt_beNat rb hcr hrne, derInt_beNat sb hcs hsne, htake]
  · rintro ⟨_, htake, hle, hr1, hr2, hs1, hs2⟩
    have hN := N_lt_two_pow_256
    have hlr := derInt_length_le_33 r (by omega)
    have hls := derInt_length_le_33 s (by omega)
    have hlen : (b.getD 1 0).toNat + 2 = 6 + (derInt r).length + (derInt s).length := by
      have := congrArg List.length htake
      rw [der_eq_derLaxOf, derLaxOf_length, List.length_take] at this
      omega
    exact ⟨derInt r, derInt s, derInt_ne_nil r, derInt_ne_nil s, by omega, htake, hle,
      fun _ => ⟨canonicalPadding_derInt r, canonicalPadding_derInt s⟩, beNat_derInt r, beNat_derInt s,
      hr1, hr2, hs1, hs2⟩

theorem der_length (r s : Nat) : (der r s).length = 6 + (derInt r).length + (derInt s).length :=
  derLaxOf_length _ _

theorem der_length_bounds (r s : Nat) (hr : r < N) (hs : s < N) :
    8 ≤ (der r s).length ∧ (der r s).length ≤ 72 := by
  have hN := N_lt_two_pow_256
  have := derInt_length_le_33 r (by omega)
  have := derInt_length_le_33 s (by omega)
  have := derInt_length_pos r
  have := derInt_length_pos s
  rw [der_length]; omega

theorem parseDER_der (r s : Nat) (hr : 1 ≤ r ∧ r < N) (hs : 1 ≤ s ∧ s < N) (tail : Bytes) :
    parseDER (der r s ++ tail) = some (r, s) := by
  have hb := der_length_bounds r s hr.2 hs.2
  have hl := der_length r s
  have h1 : ((der r s ++ tail).getD 1 0).toNat + 2 = (der r s).length := by
    have : (der r s ++ tail).getD 1 0 = UInt8.ofNat (4 + (derInt r).length + (derInt s).length) := by
      simp [der]
    rw [this, toNat_ofNat_of_le _ (by omega)]; omega
  rw [parseDER_eq_some_iff, h1]
  refine ⟨by simp; omega, List.take_left' rfl, by simp, hr.1, hr.2, hs.1, hs.2⟩

theorem parseDER_serialise (r s : Nat) (hr : 1 ≤ r ∧ r < N) (hs : 1 ≤ s ∧ s < N) :
    parseDER (serialise r s) = some (r, min s (N - s)) := by
  rw [serialise_eq r s hs.2]
  have := parseDER_der r (min s (N - s)) hr ⟨by omega, by omega⟩ []
  simpa using this

theorem parseLax_eq_some_iff (b : Bytes) (r s : Nat) :
    parseLax b = some (r, s) ↔
      ∃ rb sb : Bytes, rb ≠ [] ∧ sb ≠ [] ∧ rb.length ≤ 255 ∧ sb.length ≤ 255 ∧
        (b.getD 1 0).toNat ≤ 253 ∧
        b.take ((b.getD 1 0).toNat + 2) = derLaxOf rb sb ∧
        (b.getD 1 0).toNat + 2 ≤ b.length ∧
        beNat rb = r ∧ beNat sb = s ∧ 1 ≤ r ∧ r < N ∧ 1 ≤ s ∧ s < N := by
  unfold parseLax
  rw [parseSig_eq_some_iff]
  constructor
  · rintro ⟨rb, sb, hrne, hsne, h253, htake, hle, _, h⟩
    have hlen := congrArg List.length htake
    rw [derLaxOf_length, List.length_take] at hlen
    exact ⟨rb, sb, hrne, hsne, by omega, by omega, h253, htake, hle, h⟩
  · rintro ⟨rb, sb, hrne, hsne, _, _, h253, htake, hle, h⟩
    exact ⟨rb, sb, hrne, hsne, h253, htake, hle, fun hd => (by cases hd), h⟩

theorem parseDER_imp_parseLax (b : Bytes) (p : Nat × Nat) (h : parseDER b = some p) :
    parseLax b = some p := by
  obtain ⟨r, s⟩ := p
  unfold parseDER at h
  unfold parseLax
  rw [parseSig_eq_some_iff] at h ⊢
  obtain ⟨rb, sb, hrne, hsne, h253, htake, hle, _, h⟩ := h
  exact ⟨rb, sb, hrne, hsne, h253, htake, hle, fun hd => (by cases hd), h⟩

/-- uniqueness of the strict encoding: any tag/length structure around canonically padded, non-empty
integers is `der` of their values -/
theorem derLaxOf_canonical (rb sb : Bytes) (hr : rb ≠ []) (hs : sb ≠ [])
    (cr : canonicalPadding rb = .ok) (cs : canonicalPadding sb = .ok) :
    derLaxOf rb sb = der (beNat rb) (beNat sb) := by
  rw [der_eq_derLaxOf, derInt_beNat rb cr hr, derInt_beNat sb cs hs]

theorem der_inj (r s r' s' : Nat) (hr : 1 ≤ r ∧ r < N) (hs : 1 ≤ s ∧ s < N)
    (h : der r s = der r' s') (hr' : 1 ≤ r' ∧ r' < N) (hs' : 1 ≤ s' ∧ s' < N) : r = r' ∧ s = s' := by
  have h1 := parseDER_der r s hr hs []
  have h2 := parseDER_der r' s' hr' hs' []
  rw [h, h2] at h1
  simp only [Option.some.injEq, Prod.mk.injEq] at h1
  exact ⟨h1.1.symm, h1.2.symm⟩

/-- length bytes 0xfe / 0xff: `siglen+2` wraps to 0 / 1 and the parser rejects -/
theorem parseSig_none_of_siglen_ge_254 (b : Bytes) (d : Bool) (h : 254 ≤ (b.getD 1 0).toNat) :
    parseSig b d = none := by
  cases hp : parseSig b d with
  | none => rfl
  | some p =>
    obtain ⟨r, s⟩ := p
    rw [parseSig_eq_some_iff] at hp
    obtain ⟨_, _, _, _, h253, _⟩ := hp
    omega

end GoBk.Der
