/-
  GoBk.Proofs.PrimsOKLemmasB64 — `base64Decode (base64Encode b) = some b` for the executable
  RFC 4648 codec of `GoBk.Hash.Base64`.  Core Lean only.
-/
import GoBk.Hash.Base64

namespace GoBk.Proofs.PrimsOK
open GoBk GoBk.Hash GoBk.Hash.Base64

private theorem forall_u8' {P : UInt8 → Prop} (h : ∀ n : Nat, n < 256 → P (UInt8.ofNat n)) :
    ∀ x, P x := by
  intro x
  have := h x.toNat x.toNat_lt
  simpa using this

/-- the alphabet round-trips on every 6-bit value (256-case check). -/
theorem decChar_encChar : ∀ v : UInt8, decChar (encChar v) = some (v &&& 0x3f) := by
  apply forall_u8'
  decide +kernel

macro "u8_bits" : tactic => `(tactic|
  (apply UInt8.eq_of_toBitVec_eq
   simp only [UInt8.toBitVec_shiftLeft, UInt8.toBitVec_and, UInt8.toBitVec_or, UInt8.toBitVec_shiftRight]
   ext i _hi
   have hcases : i = 0 ∨ i = 1 ∨ i = 2 ∨ i = 3 ∨ i = 4 ∨ i = 5 ∨ i = 6 ∨ i = 7 := by omega
   rcases hcases with h|h|h|h|h|h|h|h <;> subst h <;> simp))

theorem q0 (a b : UInt8) :
    (((a >>> 2) &&& 0x3f) <<< 2) ||| ((((a <<< 4) ||| (b >>> 4)) &&& 0x3f) >>> 4) = a := by u8_bits
theorem q1 (a b c : UInt8) :
    ((((a <<< 4) ||| (b >>> 4)) &&& 0x3f) <<< 4) ||| ((((b <<< 2) ||| (c >>> 6)) &&& 0x3f) >>> 2) = b := by
  u8_bits
theorem q2 (b c : UInt8) : ((((b <<< 2) ||| (c >>> 6)) &&& 0x3f) <<< 6) ||| (c &&& 0x3f) = c := by u8_bits
theorem q1' (a b : UInt8) :
    ((((a <<< 4) ||| (b >>> 4)) &&& 0x3f) <<< 4) ||| (((b <<< 2) &&& 0x3f) >>> 2) = b := by u8_bits
theorem q0' (a : UInt8) : (((a >>> 2) &&& 0x3f) <<< 2) ||| (((a <<< 4) &&& 0x3f) >>> 4) = a := by u8_bits

theorem decChar_pad : decChar pad = none := by decide
theorem isNL_pad : isNL pad = false := by decide

theorem decodeAux_encode (b out : Bytes) :
    decodeAux (encode b) 0 0 0 0 out = some (out.reverse ++ b) := by
  fun_induction encode b generalizing out with
  | case1 a b c rest ih =>
    simp only [decodeAux, decChar_encChar]
    rw [ih, q0, q1, q2]
    simp
  | case2 a b =>
    simp [decodeAux, decChar_encChar, decChar_pad, isNL_pad, skipNL, q0, q1']
  | case3 a =>
    simp [decodeAux, decChar_encChar, decChar_pad, isNL_pad, skipNL, q0']
  | case4 => simp [decodeAux]

theorem base64Decode_base64Encode (b : Bytes) : base64Decode (base64Encode b) = some b := by
  simp [base64Decode, base64Encode, decodeAux_encode]

end GoBk.Proofs.PrimsOK
