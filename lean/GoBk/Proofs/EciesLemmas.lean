import GoBk.Model.Ecies
import GoBk.Proofs.KeyLemmas
/-
  Lemmas for C11: ECDH, PKCS#7, the random tape, and the structure of `Ecies.decrypt`.
-/
namespace GoBk.Proofs.EciesL
open GoBk Bytes Spec GoBk.Proofs GoBk.Proofs.KeyBytes

/-! ### ECDH -/

theorem sharedSecret_eq (d : Nat) {R : Pt} (hR : valid R = true) :
    Ecies.sharedSecret d R = natBEpad 32 (smul d R).1 := by
  unfold Ecies.sharedSecret; rw [scalarMult_natBE d hR]

theorem sharedSecret_length (d : Nat) {R : Pt} (hR : valid R = true) :
    (Ecies.sharedSecret d R).length = 32 := by
  rw [sharedSecret_eq d hR]
  exact natBEpad32_length_of_lt_P (valid_lt (valid_smul d hR)).1

theorem sharedSecret_eq_iff (d d' : Nat) {R : Pt} (hR : valid R = true) :
    Ecies.sharedSecret d' R = Ecies.sharedSecret d R ↔ (smul d' R).1 = (smul d R).1 := by
  rw [sharedSecret_eq d hR, sharedSecret_eq d' hR]
  exact ⟨natBEpad_inj 32 _ _, fun h => by rw [h]⟩

/-- equal x-coordinate: the points are equal or opposite -/
theorem x_eq_iff {a b : Pt} (ha : valid a = true) (hb : valid b = true) :
    a.1 = b.1 ↔ (a = b ∨ a = pneg b) := by
  constructor
  · intro h
    by_cases hbi : b = inf
    · -- x = 0 is not on the curve... but then `a` could be a point with x = 0?  (0, y): y² = 7.
      subst hbi
      by_cases hai : a = inf
      · left; exact hai
      · exfalso
        -- 7 is not a square mod P: no affine point has x = 0
        have hon := onCurve_of_valid ha hai
        obtain ⟨ax, ay⟩ := a
        simp only [inf] at h
        subst h
        have hc := sqrtCand_sq (c := 7) (y := ay) (by
          simp only [onCurve, B, beq_iff_eq] at hon
          simpa using hon)
        revert hc
        decide +kernel
    · by_cases hai : a = inf
      · subst hai
        exfalso
        have hon := onCurve_of_valid hb hbi
        obtain ⟨bx, by'⟩ := b
        simp only [inf] at h
        subst h
        have hc := sqrtCand_sq (c := 7) (y := by') (by
          simp only [onCurve, B, beq_iff_eq] at hon
          simpa using hon)
        revert hc
        decide +kernel
      · have hona := onCurve_of_valid ha hai
        have honb := onCurve_of_valid hb hbi
        obtain ⟨ax, ay⟩ := a
        obtain ⟨bx, by'⟩ := b
        simp only at h
        subst h
        have hbi' : isInf (ax, by') = false := by
          rw [Bool.eq_false_iff, Ne, isInf_iff]; exact hbi
        have hay := (valid_lt ha).2
        have hby := (valid_lt hb).2
        simp only at hay hby
        have e : ay * ay % P = by' * by' % P := by
          simp only [onCurve, beq_iff_eq] at hona honb
          rw [hona, honb]
        rw [sq_eq_iff] at e
        rcases e with e | e
        · left
          have := congrArg ZMod.val e
          rw [ZMod.val_natCast, ZMod.val_natCast, Nat.mod_eq_of_lt hay, Nat.mod_eq_of_lt hby] at this
          rw [this]
        · right
          have := congrArg ZMod.val e
          rw [ZMod.val_natCast, neg_sqrt_val hby, Nat.mod_eq_of_lt hay] at this
          simp [pneg, hbi', this]
  · rintro (h | h)
    · rw [h]
    · rw [h]; unfold pneg; split
      · rename_i hi; rw [(isInf_iff b).1 hi]
      · rfl

theorem pneg_fst (a : Pt) : (pneg a).1 = a.1 := by
  unfold pneg; split
  · rename_i hi; rw [(isInf_iff a).1 hi]
  · rfl

/-- `(N − x)•R = −(x•R)` -/
theorem smul_N_sub (x : Nat) (hx : x ≤ N) {R : Pt} (hR : valid R = true) :
    smul (N - x) R = pneg (smul x R) := by
  obtain ⟨Q, rfl⟩ := (valid_iff R).1 hR
  rw [smul_enc, smul_enc, pneg_enc]
  congr 1
  have h : (N - x) • Q + x • Q = 0 := by
    rw [← add_nsmul, Nat.sub_add_cancel hx, smul_N]
  exact eq_neg_of_add_eq_zero_left h

/-! ### PKCS#7 -/

theorem padLen_bounds (n : Nat) : 1 ≤ 16 - n % 16 ∧ 16 - n % 16 ≤ 16 := by
  have := Nat.mod_lt n (show 0 < 16 by decide); omega

theorem addPKCS_length (m : Bytes) :
    (Ecies.addPKCSPadding m).length = m.length + (16 - m.length % 16) := by
  simp [Ecies.addPKCSPadding]

theorem addPKCS_length_mod (m : Bytes) : (Ecies.addPKCSPadding m).length % 16 = 0 := by
  rw [addPKCS_length]; have := Nat.mod_lt m.length (show 0 < 16 by decide); omega

theorem addPKCS_length_ge (m : Bytes) : 16 ≤ (Ecies.addPKCSPadding m).length := by
  have h1 := addPKCS_length m
  have h2 := addPKCS_length_mod m
  have h3 := padLen_bounds m.length
  omega

theorem removePKCS_add (m : Bytes) :
    Ecies.removePKCSPadding (Ecies.addPKCSPadding m) = some m := by
  have hb := padLen_bounds m.length
  have hlen := addPKCS_length m
  have hge := addPKCS_length_ge m
  unfold Ecies.removePKCSPadding
  have hlast : ((Ecies.addPKCSPadding m).getLastD 0).toNat = 16 - m.length % 16 := by
    unfold Ecies.addPKCSPadding
    simp only [List.getLastD_eq_getLast?, List.getLast?_append, List.getLast?_replicate]
    rw [if_neg (by omega)]
    simp only [Option.some_or, Option.getD_some, UInt8.toNat_ofNat']
    omega
  simp only [hlast]
  rw [if_neg (by simp; omega)]
  congr 1
  rw [hlen, Nat.add_sub_cancel]
  unfold Ecies.addPKCSPadding
  exact List.take_left' rfl

/-! ### the random tape -/

theorem readFull_some {n : Nat} {t t' : Rng.Tape} {b : Bytes}
    (h : Rng.readFull n t = some (b, t')) : t = some b :: t' ∧ b.length = n := by
  unfold Rng.readFull at h
  split at h
  · rename_i b' rest
    split at h
    · rename_i hl
      simp only [Option.some.injEq, Prod.mk.injEq] at h
      obtain ⟨rfl, rfl⟩ := h
      exact ⟨rfl, by simpa using hl⟩
    · cases h
  · cases h

theorem genKeyLoop_some : ∀ (fuel : Nat) (t t' : Rng.Tape) (k : Nat),
    Rng.genKeyLoop fuel t = some (k, t') →
      1 ≤ k ∧ k < N ∧ ∃ b, some b ∈ t ∧ b.length = 32 ∧ k = beNat b ∧ t' <:+ t := by
  intro fuel
  induction fuel with
  | zero => intro t t' k h; cases h
  | succ f ih =>
    intro t t' k h
    unfold Rng.genKeyLoop at h
    split at h
    · cases h
    · rename_i b rest hr
      obtain ⟨rfl, hl⟩ := readFull_some hr
      dsimp only at h
      split at h
      · rename_i hc
        simp only [Option.some.injEq, Prod.mk.injEq] at h
        obtain ⟨rfl, rfl⟩ := h
        simp only [Bool.and_eq_true, bne_iff_ne, ne_eq, decide_eq_true_eq, c_N_eq] at hc
        exact ⟨by omega, hc.2, b, List.mem_cons_self, hl, rfl, List.suffix_cons _ _⟩
      · obtain ⟨h1, h2, b', hb', hl', hk, hs⟩ := ih _ _ _ h
        exact ⟨h1, h2, b', List.mem_cons_of_mem _ hb', hl', hk,
          hs.trans (List.suffix_cons _ _)⟩

theorem skipMaybeByte_suffix (t : Rng.Tape) : Rng.skipMaybeByte t <:+ t := by
  unfold Rng.skipMaybeByte
  split
  · split
    · exact List.suffix_cons _ _
    · exact List.suffix_refl _
  · exact List.suffix_refl _
  · exact List.suffix_refl _

theorem generateKey_some {t t' : Rng.Tape} {d : Nat} {pub : Pt}
    (h : Rng.generateKey t = some (d, pub, t')) :
    1 ≤ d ∧ d < N ∧ pub = smul d G ∧
      ∃ b, some b ∈ t ∧ b.length = 32 ∧ d = beNat b ∧ t' <:+ t := by
  unfold Rng.generateKey at h
  split at h
  · cases h
  · rename_i d' rest hg
    simp only [Option.some.injEq, Prod.mk.injEq] at h
    obtain ⟨rfl, rfl, rfl⟩ := h
    obtain ⟨h1, h2, b, hb, hl, hk, hs⟩ := genKeyLoop_some _ _ _ _ hg
    have hsk := skipMaybeByte_suffix t
    exact ⟨h1, h2, scalarBaseMult_natBE _, b, hsk.subset hb, hl, hk, hs.trans hsk⟩

/-! ### the structure of `Decrypt` -/

abbrev keyE (pr : Prims) (d : Nat) (q : Pt) : Bytes := (pr.sha512 (Ecies.sharedSecret d q)).take 32
abbrev keyM (pr : Prims) (d : Nat) (q : Pt) : Bytes := (pr.sha512 (Ecies.sharedSecret d q)).drop 32

/-- the SEC1 string `Decrypt` rebuilds from bytes 20..52 and 54..86 -/
def pointBytes (c : Bytes) : Bytes := [0x04] ++ (c.drop 20).take 32 ++ (c.drop 54).take 32

theorem rem_zero_iff (n : Nat) (h : 134 ≤ n) :
    (Int.tmod ((n : Int) - 16 - ((86 : Nat) : Int) - 32) 16 = 0) ↔ (n - 134) % 16 = 0 := by
  have e : (n : Int) - 16 - ((86 : Nat) : Int) - 32 = ((n - 134 : Nat) : Int) := by omega
  rw [e, show (16 : Int) = ((16 : Nat) : Int) from rfl, ← Int.ofNat_tmod]
  exact_mod_cast Iff.rfl

theorem decrypt_iff (pr : Prims) (d : Nat) (c m : Bytes) :
    Ecies.decrypt pr d c = some m ↔
      134 ≤ c.length ∧ (c.drop 16).take 2 = [0x02, 0xCA] ∧ (c.drop 18).take 2 = [0x00, 0x20] ∧
      (c.drop 52).take 2 = [0x00, 0x20] ∧
      ∃ q, Ecdsa.parsePubKey (pointBytes c) = some q ∧ (c.length - 134) % 16 = 0 ∧
        c.drop (c.length - 32) = pr.hmac256 (keyM pr d q) (c.take (c.length - 32)) ∧
        Ecies.removePKCSPadding
          (pr.cbcDec (keyE pr d q) (c.take 16) ((c.take (c.length - 32)).drop 86)) = some m := by
  unfold Ecies.decrypt
  by_cases h0 : c.length < 16 + 70 + 16 + 32
  · rw [if_pos h0]
    constructor
    · intro h; cases h
    · intro h; omega
  rw [if_neg h0]
  have hlen : 134 ≤ c.length := by omega
  simp only [Gen.ciphCurveBytes, Gen.ciphCoordLength, bne_iff_ne, ne_eq, ite_not]
  by_cases h1 : (c.drop 16).take 2 = [0x02, 0xCA]
  · rw [if_pos h1]
    by_cases h2 : (c.drop 18).take 2 = [0x00, 0x20]
    · rw [if_pos h2]
      by_cases h3 : (c.drop 52).take 2 = [0x00, 0x20]
      · rw [if_pos h3]
        show (match Ecdsa.parsePubKey (pointBytes c) with | none => none | some pub => _) = some m ↔ _
        cases hq : Ecdsa.parsePubKey (pointBytes c) with
        | none =>
          simp only
          constructor
          · intro h; cases h
          · rintro ⟨_, _, _, _, q, hq', _⟩; cases hq'
        | some q =>
          simp only
          simp only [rem_zero_iff _ hlen]
          constructor
          · intro h
            split at h
            · rename_i hr
              split at h
              · rename_i hm
                exact ⟨hlen, h1, h2, h3, q, rfl, hr, hm, h⟩
              · cases h
            · cases h
          · rintro ⟨_, _, _, _, q', hq', hr, hm, h⟩
            cases hq'
            rw [if_pos hr, if_pos hm]; exact h
      · rw [if_neg h3]
        constructor
        · intro h; cases h
        · rintro ⟨_, _, _, h, _⟩; exact absurd h h3
    · rw [if_neg h2]
      constructor
      · intro h; cases h
      · rintro ⟨_, _, h, _⟩; exact absurd h h2
  · rw [if_neg h1]
    constructor
    · intro h; cases h
    · rintro ⟨_, h, _⟩; exact absurd h h1

/-- decryption only depends on the private key through the ECDH secret with the embedded point -/
theorem decrypt_congr (pr : Prims) (d d' : Nat) (c : Bytes)
    (h : ∀ q, Ecdsa.parsePubKey (pointBytes c) = some q →
      Ecies.sharedSecret d' q = Ecies.sharedSecret d q) :
    Ecies.decrypt pr d' c = Ecies.decrypt pr d c := by
  apply Option.ext
  intro m
  rw [decrypt_iff, decrypt_iff]
  constructor
  · rintro ⟨a1, a2, a3, a4, q, hq, a5, a6, a7⟩
    have e := h q hq
    simp only [keyE, keyM, e] at a6 a7
    exact ⟨a1, a2, a3, a4, q, hq, a5, a6, a7⟩
  · rintro ⟨a1, a2, a3, a4, q, hq, a5, a6, a7⟩
    have e := h q hq
    refine ⟨a1, a2, a3, a4, q, hq, a5, ?_, ?_⟩
    · simp only [keyM, e]; exact a6
    · simp only [keyE, e]; exact a7

/-! ### the wire format -/

/-- IV ‖ 02CA ‖ 0020 ‖ X ‖ 0020 ‖ Y -/
def header (iv X Y : Bytes) : Bytes := iv ++ [0x02, 0xCA, 0x00, 0x20] ++ X ++ [0x00, 0x20] ++ Y

/-- header ‖ CBC body ‖ tag -/
def layout (iv X Y C T : Bytes) : Bytes := header iv X Y ++ C ++ T

section Layout
variable {iv X Y C T : Bytes}

theorem header_length (hiv : iv.length = 16) (hX : X.length = 32) (hY : Y.length = 32) :
    (header iv X Y).length = 86 := by
  simp [header, hiv, hX, hY]

theorem layout_length (hiv : iv.length = 16) (hX : X.length = 32) (hY : Y.length = 32)
    (hT : T.length = 32) : (layout iv X Y C T).length = 118 + C.length := by
  simp [layout, header_length hiv hX hY, hT]; omega

theorem layout_slices (hiv : iv.length = 16) (hX : X.length = 32) (hY : Y.length = 32) :
    (layout iv X Y C T).take 16 = iv ∧
    ((layout iv X Y C T).drop 16).take 2 = [0x02, 0xCA] ∧
    ((layout iv X Y C T).drop 18).take 2 = [0x00, 0x20] ∧
    ((layout iv X Y C T).drop 20).take 32 = X ∧
    ((layout iv X Y C T).drop 52).take 2 = [0x00, 0x20] ∧
    ((layout iv X Y C T).drop 54).take 32 = Y := by
  unfold layout header
  simp [List.drop_append, List.take_append, hiv, hX, hY, List.drop_of_length_le]

theorem layout_tail (hiv : iv.length = 16) (hX : X.length = 32) (hY : Y.length = 32)
    (hT : T.length = 32) :
    (layout iv X Y C T).drop ((layout iv X Y C T).length - 32) = T ∧
    (layout iv X Y C T).take ((layout iv X Y C T).length - 32) = header iv X Y ++ C ∧
    ((layout iv X Y C T).take ((layout iv X Y C T).length - 32)).drop 86 = C := by
  have hh := header_length hiv hX hY
  have hl : (header iv X Y ++ C).length = (layout iv X Y C T).length - 32 := by
    rw [layout_length hiv hX hY hT]; simp [hh]; omega
  have e1 : (layout iv X Y C T).drop ((layout iv X Y C T).length - 32) = T := by
    unfold layout at hl ⊢; exact List.drop_left' hl
  have e2 : (layout iv X Y C T).take ((layout iv X Y C T).length - 32) = header iv X Y ++ C := by
    unfold layout at hl ⊢; exact List.take_left' hl
  refine ⟨e1, e2, ?_⟩
  rw [e2]; exact List.drop_left' hh

theorem pointBytes_layout (hiv : iv.length = 16) (hX : X.length = 32) (hY : Y.length = 32) :
    pointBytes (layout iv X Y C T) = [0x04] ++ X ++ Y := by
  obtain ⟨_, _, _, h4, _, h6⟩ := layout_slices (C := C) (T := T) hiv hX hY
  unfold pointBytes; rw [h4, h6]

/-- `Decrypt` on a well-formed layout -/
theorem decrypt_layout (pr : Prims) (d : Nat) (q : Pt)
    (hiv : iv.length = 16) (hX : X.length = 32) (hY : Y.length = 32) (hT : T.length = 32)
    (hC : 16 ≤ C.length) (hC16 : C.length % 16 = 0)
    (hq : Ecdsa.parsePubKey ([0x04] ++ X ++ Y) = some q) :
    Ecies.decrypt pr d (layout iv X Y C T) =
      if T = pr.hmac256 (keyM pr d q) (header iv X Y ++ C)
      then Ecies.removePKCSPadding (pr.cbcDec (keyE pr d q) iv C) else none := by
  obtain ⟨s1, s2, s3, _, s5, _⟩ := layout_slices (C := C) (T := T) hiv hX hY
  obtain ⟨t1, t2, t3⟩ := layout_tail (C := C) hiv hX hY hT
  have hl := layout_length (C := C) hiv hX hY hT
  have hp := pointBytes_layout (C := C) (T := T) hiv hX hY
  apply Option.ext
  intro m
  rw [t2] at t3
  rw [decrypt_iff, hp, s1, s2, s3, s5, t1, t2, t3, hl]
  constructor
  · rintro ⟨_, _, _, _, q', hq', _, hm, hr⟩
    rw [hq] at hq'; cases hq'
    rw [if_pos hm]; exact hr
  · intro h
    split at h
    · rename_i hm
      exact ⟨by omega, rfl, rfl, rfl, q, hq, by omega, hm, h⟩
    · cases h

end Layout

/-! ### `Encrypt` -/

theorem ser_slices {q : Pt} (hv : valid q = true) :
    ((Ecdsa.serUncompressed q).drop 1).take 32 = natBEpad 32 q.1 ∧
    (Ecdsa.serUncompressed q).drop 33 = natBEpad 32 q.2 := by
  have lx := natBEpad32_length_of_lt_P (valid_lt hv).1
  unfold Ecdsa.serUncompressed
  constructor
  · simp only [List.cons_append, List.nil_append, List.drop_succ_cons, List.drop_zero]
    rw [List.take_left' lx]
  · simp only [List.cons_append, List.nil_append, List.drop_succ_cons]
    exact List.drop_left' lx

theorem valid_smulG (d : Nat) : valid (smul d G) = true := valid_smul d valid_G

theorem smulG_ne_inf {d : Nat} (h1 : 1 ≤ d) (h2 : d < N) : smul d G ≠ inf := by
  rw [Ne, smul_G_eq_inf_iff]
  intro hd
  have := Nat.le_of_dvd (by omega) hd
  omega

/-- what a successful `Encrypt` returns, in terms of the tape reads -/
theorem encrypt_some {pr : Prims} {pub : Pt} {msg ct : Bytes} {t t' : Rng.Tape}
    (h : Ecies.encrypt pr pub msg t = some (ct, t')) :
    ∃ d iv t1, Rng.generateKey t = some (d, smul d G, t1) ∧ Rng.readFull 16 t1 = some (iv, t') ∧
      ct = layout iv (natBEpad 32 (smul d G).1) (natBEpad 32 (smul d G).2)
            (pr.cbcEnc (keyE pr d pub) iv (Ecies.addPKCSPadding msg))
            (pr.hmac256 (keyM pr d pub)
              (header iv (natBEpad 32 (smul d G).1) (natBEpad 32 (smul d G).2) ++
                pr.cbcEnc (keyE pr d pub) iv (Ecies.addPKCSPadding msg))) := by
  unfold Ecies.encrypt at h
  split at h
  · cases h
  · rename_i d eph t1 hg
    have he : eph = smul d G := (generateKey_some hg).2.2.1
    subst he
    dsimp only at h
    split at h
    · cases h
    · rename_i iv t2 hr
      simp only [Option.some.injEq, Prod.mk.injEq] at h
      obtain ⟨rfl, rfl⟩ := h
      refine ⟨d, iv, t1, hg, hr, ?_⟩
      obtain ⟨e1, e2⟩ := ser_slices (valid_smulG d)
      rw [e1, e2]
      simp [layout, header, keyE, keyM, Gen.ciphCurveBytes, Gen.ciphCoordLength, List.append_assoc]

end GoBk.Proofs.EciesL
