/-
  GoBk.Proofs.FastCurve — the Jacobian evaluator `GoBk.Fast` computes the same function as the
  affine reference `GoBk.Spec` on valid points.

  * an `F = ZMod P`-level model of the Jacobian formulas (`jdoubleF`, `jaddF`) and the
    representation relation `RepF (X,Y,Z) Q` (`Z ≠ 0` and `Q = (X/Z², Y/Z³)`, or `Z = 0` and `Q = 0`)
    against Mathlib's group law on `E`;
  * the `Nat` functions of `GoBk.Fast` cast to the model (`castJ_jdouble`, `castJ_jadd`, `castJ_jaddA`),
    hence `jdouble_rep`, `jadd_rep`, `jaddA_rep`, `toAffine_rep`, `ofAffine_rep`;
  * induction over the ladders: `Fast.smul_eq`, `Fast.smulG_eq`, `Fast.mulAdd_eq`.
-/
import GoBk.Spec.Fast
import GoBk.Proofs.GroupOrder

namespace GoBk.Proofs
open GoBk.Spec WeierstrassCurve.Affine

/-! ### the model over `F` -/

abbrev JF := F × F × F

/-- `RepF (X,Y,Z) Q`: the Jacobian triple represents the point `Q` -/
def RepF (p : JF) (Q : E.Point) : Prop :=
  (p.2.2 = 0 ∧ Q = 0) ∨
  (p.2.2 ≠ 0 ∧ ∃ h, Q = Point.some (p.1 / p.2.2 ^ 2) (p.2.1 / p.2.2 ^ 3) h)

def jdoubleF : JF → JF
  | (x, y, z) =>
    let s := 4 * (x * (y * y))
    let m := 3 * (x * x)
    let x3 := m * m - 2 * s
    (x3, m * (s - x3) - 8 * ((y * y) * (y * y)), 2 * (y * z))

def jaddF : JF → JF → JF
  | (x1, y1, z1), (x2, y2, z2) =>
    if z1 = 0 then (x2, y2, z2)
    else if z2 = 0 then (x1, y1, z1)
    else
      let u1 := x1 * (z2 * z2)
      let u2 := x2 * (z1 * z1)
      let s1 := y1 * (z2 * (z2 * z2))
      let s2 := y2 * (z1 * (z1 * z1))
      let h := u2 - u1
      let r := s2 - s1
      if h = 0 then
        (if r = 0 then jdoubleF (x1, y1, z1) else (1, 1, 0))
      else
        let x3 := r * r - h * (h * h) - 2 * (u1 * (h * h))
        (x3, r * (u1 * (h * h) - x3) - s1 * (h * (h * h)), z1 * z2 * h)

theorem some_congr {x y x' y' : F} (h : E.Nonsingular x y) (hx : x = x') (hy : y = y') :
    ∃ h', Point.some x y h = Point.some x' y' h' := by
  subst hx hy; exact ⟨h, rfl⟩

theorem two_mul_ne {y : F} (hy : y ≠ 0) (x : F) : y ≠ E.negY x y := by
  rw [E_negY]
  intro h2
  have : 2 * y = 0 := by linear_combination h2
  rcases mul_eq_zero.1 this with h | h
  · exact two_ne_zero' h
  · exact hy h

/-- doubling, affine part: the tangent formulas in Jacobian form -/
theorem dbl_coords (x y z : F) (hz : z ≠ 0) (hy : y ≠ 0) :
    let ℓ := E.slope (x / z ^ 2) (x / z ^ 2) (y / z ^ 3) (y / z ^ 3)
    let s := 4 * (x * (y * y))
    let m := 3 * (x * x)
    let x3 := m * m - 2 * s
    E.addX (x / z ^ 2) (x / z ^ 2) ℓ = x3 / (2 * (y * z)) ^ 2 ∧
    E.addY (x / z ^ 2) (x / z ^ 2) (y / z ^ 3) ℓ
      = (m * (s - x3) - 8 * ((y * y) * (y * y))) / (2 * (y * z)) ^ 3 := by
  intro ℓ s m x3
  have hy' : y / z ^ 3 ≠ 0 := div_ne_zero hy (pow_ne_zero 3 hz)
  have hℓ : ℓ = m / (2 * (y * z)) := by
    show E.slope _ _ _ _ = _
    rw [slope_of_Y_ne rfl (two_mul_ne hy' _), E_negY]
    simp only [E, m]
    rw [sub_neg_eq_add, ← two_mul]
    have h2 := two_ne_zero'
    field_simp
    ring
  have h2 := two_ne_zero'
  have hX : E.addX (x / z ^ 2) (x / z ^ 2) ℓ = x3 / (2 * (y * z)) ^ 2 := by
    rw [E_addX, hℓ]
    simp only [x3, s]
    field_simp
    ring
  refine ⟨hX, ?_⟩
  rw [E_addY, ← E_addX, hX, hℓ]
  simp only [x3, s]
  field_simp
  ring

theorem jdoubleF_rep {p : JF} {Q : E.Point} (h : RepF p Q) : RepF (jdoubleF p) (Q + Q) := by
  obtain ⟨x, y, z⟩ := p
  rcases h with ⟨hz, rfl⟩ | ⟨hz, hns, rfl⟩
  · left
    simp only at hz
    subst hz
    exact ⟨by simp [jdoubleF], add_zero 0⟩
  · simp only at hz hns ⊢
    by_cases hy : y = 0
    · left
      subst hy
      refine ⟨by simp [jdoubleF], ?_⟩
      exact Point.add_self_of_Y_eq (by simp [E])
    · right
      have hy' : y / z ^ 3 ≠ 0 := div_ne_zero hy (pow_ne_zero 3 hz)
      have hz3 : 2 * (y * z) ≠ 0 := mul_ne_zero two_ne_zero' (mul_ne_zero hy hz)
      refine ⟨hz3, ?_⟩
      rw [Point.add_self_of_Y_ne (two_mul_ne hy' _)]
      obtain ⟨hX, hY⟩ := dbl_coords x y z hz hy
      exact some_congr _ hX hY

/-- addition, generic case: the chord formulas in Jacobian form, with `H` and `r` as atoms -/
theorem add_coords (x1 y1 z1 z2 H r : F) (hz1 : z1 ≠ 0) (hz2 : z2 ≠ 0) (hH : H ≠ 0) :
    let x2 := (H + x1 * (z2 * z2)) / (z1 * z1)
    let y2 := (r + y1 * (z2 * (z2 * z2))) / (z1 * (z1 * z1))
    let ℓ := E.slope (x1 / z1 ^ 2) (x2 / z2 ^ 2) (y1 / z1 ^ 3) (y2 / z2 ^ 3)
    let u1 := x1 * (z2 * z2)
    let s1 := y1 * (z2 * (z2 * z2))
    let x3 := r * r - H * (H * H) - 2 * (u1 * (H * H))
    x1 / z1 ^ 2 ≠ x2 / z2 ^ 2 ∧
    E.addX (x1 / z1 ^ 2) (x2 / z2 ^ 2) ℓ = x3 / (z1 * z2 * H) ^ 2 ∧
    E.addY (x1 / z1 ^ 2) (x2 / z2 ^ 2) (y1 / z1 ^ 3) ℓ
      = (r * (u1 * (H * H) - x3) - s1 * (H * (H * H))) / (z1 * z2 * H) ^ 3 := by
  intro x2 y2 ℓ u1 s1 x3
  have hne : x1 / z1 ^ 2 ≠ x2 / z2 ^ 2 := by
    intro he
    apply hH
    have : x2 / z2 ^ 2 - x1 / z1 ^ 2 = H / (z1 ^ 2 * z2 ^ 2) := by
      simp only [x2]
      field_simp
      ring
    rw [he, sub_self] at this
    have h3 := (div_eq_zero_iff.1 this.symm)
    rcases h3 with h3 | h3
    · exact h3
    · exact absurd h3 (mul_ne_zero (pow_ne_zero 2 hz1) (pow_ne_zero 2 hz2))
  have hℓ : ℓ = r / (z1 * z2 * H) := by
    show E.slope _ _ _ _ = _
    rw [slope_of_X_ne hne]
    have hd : x1 / z1 ^ 2 - x2 / z2 ^ 2 = -H / (z1 ^ 2 * z2 ^ 2) := by
      simp only [x2]
      field_simp
      ring
    have hn : y1 / z1 ^ 3 - y2 / z2 ^ 3 = -r / (z1 ^ 3 * z2 ^ 3) := by
      simp only [y2]
      field_simp
      ring
    rw [hd, hn]
    field_simp
  have hX : E.addX (x1 / z1 ^ 2) (x2 / z2 ^ 2) ℓ = x3 / (z1 * z2 * H) ^ 2 := by
    rw [E_addX, hℓ]
    simp only [x3, u1, x2]
    field_simp
    ring
  refine ⟨hne, hX, ?_⟩
  rw [E_addY, ← E_addX, hX, hℓ]
  simp only [x3, u1, s1]
  field_simp

theorem jaddF_rep {p q : JF} {Q R : E.Point} (hp : RepF p Q) (hq : RepF q R) :
    RepF (jaddF p q) (Q + R) := by
  obtain ⟨x1, y1, z1⟩ := p
  obtain ⟨x2, y2, z2⟩ := q
  rcases hp with ⟨hz1, rfl⟩ | ⟨hz1, hns1, rfl⟩
  · simp only at hz1
    subst hz1
    rw [zero_add]
    simpa [jaddF] using hq
  simp only at hz1 hns1
  rcases hq with ⟨hz2, rfl⟩ | ⟨hz2, hns2, rfl⟩
  · simp only at hz2
    subst hz2
    rw [add_zero]
    simp only [jaddF, if_neg hz1, if_true]
    exact Or.inr ⟨hz1, hns1, rfl⟩
  simp only at hz2 hns2
  simp only [jaddF, if_neg hz1, if_neg hz2]
  -- make `H`, `r` atoms
  obtain ⟨H, hHdef⟩ : ∃ H, H = x2 * (z1 * z1) - x1 * (z2 * z2) := ⟨_, rfl⟩
  obtain ⟨r, hrdef⟩ : ∃ r, r = y2 * (z1 * (z1 * z1)) - y1 * (z2 * (z2 * z2)) := ⟨_, rfl⟩
  rw [← hHdef, ← hrdef]
  have hx2 : x2 = (H + x1 * (z2 * z2)) / (z1 * z1) := by
    rw [hHdef]; field_simp; ring
  have hy2 : y2 = (r + y1 * (z2 * (z2 * z2))) / (z1 * (z1 * z1)) := by
    rw [hrdef]; field_simp; ring
  by_cases hH : H = 0
  · rw [if_pos hH]
    have hxx : x1 / z1 ^ 2 = x2 / z2 ^ 2 := by
      rw [hx2, hH, zero_add]; field_simp
    by_cases hr : r = 0
    · rw [if_pos hr]
      have hyy : y1 / z1 ^ 3 = y2 / z2 ^ 3 := by
        rw [hy2, hr, zero_add]; field_simp
      have : Point.some (x2 / z2 ^ 2) (y2 / z2 ^ 3) hns2 = Point.some (x1 / z1 ^ 2) (y1 / z1 ^ 3) hns1 := by
        obtain ⟨h', e⟩ := some_congr hns2 hxx.symm hyy.symm
        exact e
      rw [this]
      exact jdoubleF_rep (Or.inr ⟨hz1, hns1, rfl⟩)
    · rw [if_neg hr]
      left
      refine ⟨rfl, ?_⟩
      have hyy : y1 / z1 ^ 3 ≠ y2 / z2 ^ 3 := by
        intro he
        apply hr
        have : y2 / z2 ^ 3 - y1 / z1 ^ 3 = r / (z1 ^ 3 * z2 ^ 3) := by
          rw [hy2]; field_simp; ring
        rw [he, sub_self] at this
        rcases div_eq_zero_iff.1 this.symm with h3 | h3
        · exact h3
        · exact absurd h3 (mul_ne_zero (pow_ne_zero 3 hz1) (pow_ne_zero 3 hz2))
      have hneg : y1 / z1 ^ 3 = E.negY (x2 / z2 ^ 2) (y2 / z2 ^ 3) := by
        rcases Y_eq_of_X_eq hns1.1 hns2.1 hxx with h | h
        · exact absurd h hyy
        · exact h
      exact Point.add_of_Y_eq hxx hneg
  · rw [if_neg hH]
    right
    have hz3 : z1 * z2 * H ≠ 0 := mul_ne_zero (mul_ne_zero hz1 hz2) hH
    refine ⟨hz3, ?_⟩
    obtain ⟨hne, hX, hY⟩ := add_coords x1 y1 z1 z2 H r hz1 hz2 hH
    rw [← hx2] at hne hX hY
    rw [← hy2] at hX hY
    rw [Point.add_of_X_ne hne]
    exact some_congr _ hX hY

/-! ### casting `GoBk.Fast` into the model -/

def castJ (p : Fast.J) : JF := ((p.1 : F), (p.2.1 : F), (p.2.2 : F))

/-- `Rep (X,Y,Z) Q`: the `Nat` triple represents the curve point `Q` -/
def Rep (p : Fast.J) (Q : E.Point) : Prop := RepF (castJ p) Q

theorem cast_P_sub_mod (b : ℕ) : ((P - b % P : ℕ) : F) = -(b : F) := by
  rw [Nat.cast_sub (Nat.mod_lt b P_pos).le, ZMod.natCast_self, ZMod.natCast_mod, zero_sub]

theorem cast_mulP (a b : ℕ) : ((Fast.mulP a b : ℕ) : F) = (a : F) * b := by
  simp [Fast.mulP]

theorem cast_addP (a b : ℕ) : ((Fast.addP a b : ℕ) : F) = (a : F) + b := by
  simp [Fast.addP]

theorem cast_subP (a b : ℕ) : ((Fast.subP a b : ℕ) : F) = (a : F) - b := by
  simp only [Fast.subP, ZMod.natCast_mod, Nat.cast_add, cast_P_sub_mod]
  ring

theorem mod_eq_zero_iff (z : ℕ) : (z % P == 0) = true ↔ (z : F) = 0 := by
  rw [beq_iff_eq, ZMod.natCast_eq_zero_iff, Nat.dvd_iff_mod_eq_zero]

theorem subP_eq_zero_iff (a b : ℕ) : (Fast.subP a b == 0) = true ↔ (a : F) - b = 0 := by
  rw [← cast_subP, ← mod_eq_zero_iff]
  simp [Fast.subP]

theorem castJ_jdouble (p : Fast.J) : castJ (Fast.jdouble p) = jdoubleF (castJ p) := by
  obtain ⟨x, y, z⟩ := p
  simp only [Fast.jdouble, jdoubleF, castJ, Nat.cast_add, Nat.cast_mul, ZMod.natCast_mod,
    cast_P_sub_mod, Nat.cast_ofNat]
  refine congrArg₂ Prod.mk ?_ (congrArg₂ Prod.mk ?_ ?_) <;> ring

theorem castJ_jadd (p q : Fast.J) : castJ (Fast.jadd p q) = jaddF (castJ p) (castJ q) := by
  obtain ⟨x1, y1, z1⟩ := p
  obtain ⟨x2, y2, z2⟩ := q
  show castJ (Fast.jadd (x1, y1, z1) (x2, y2, z2)) =
    jaddF ((x1 : F), (y1 : F), (z1 : F)) ((x2 : F), (y2 : F), (z2 : F))
  simp only [Fast.jadd, jaddF]
  by_cases hz1 : (z1 : F) = 0
  · simp only [(mod_eq_zero_iff z1).2 hz1, hz1, if_true]
    rfl
  have hz1' : ¬ (z1 % P == 0) = true := fun h => hz1 ((mod_eq_zero_iff z1).1 h)
  rw [if_neg hz1']
  simp only [hz1, if_false]
  by_cases hz2 : (z2 : F) = 0
  · simp only [(mod_eq_zero_iff z2).2 hz2, hz2, if_true]
    rfl
  have hz2' : ¬ (z2 % P == 0) = true := fun h => hz2 ((mod_eq_zero_iff z2).1 h)
  rw [if_neg hz2']
  simp only [hz2, if_false]
  simp only [subP_eq_zero_iff, cast_mulP]
  by_cases hH : (x2 : F) * ((z1 : F) * z1) - x1 * ((z2 : F) * z2) = 0
  · simp only [hH, if_true]
    by_cases hr : (y2 : F) * ((z1 : F) * ((z1 : F) * z1)) - y1 * ((z2 : F) * ((z2 : F) * z2)) = 0
    · simp only [hr, if_true]
      exact castJ_jdouble (x1, y1, z1)
    · simp only [hr, if_false]
      simp [Fast.jinf, castJ]
  · simp only [hH, if_false]
    simp only [castJ, cast_subP, Fast.mulP, Nat.cast_add, Nat.cast_mul, ZMod.natCast_mod,
      cast_P_sub_mod, Nat.cast_ofNat]
    refine congrArg₂ Prod.mk ?_ (congrArg₂ Prod.mk ?_ ?_) <;> ring

theorem castJ_jaddA (p : Fast.J) (a : Pt) (ha : isInf a = false) :
    castJ (Fast.jaddA p a) = jaddF (castJ p) ((a.1 : F), (a.2 : F), 1) := by
  obtain ⟨x1, y1, z1⟩ := p
  obtain ⟨x2, y2⟩ := a
  show castJ (Fast.jaddA (x1, y1, z1) (x2, y2)) =
    jaddF ((x1 : F), (y1 : F), (z1 : F)) ((x2 : F), (y2 : F), 1)
  simp only [Fast.jaddA, jaddF, ha, Bool.false_eq_true, if_false]
  by_cases hz1 : (z1 : F) = 0
  · simp only [(mod_eq_zero_iff z1).2 hz1, hz1, if_true]
    simp [castJ]
  have hz1' : ¬ (z1 % P == 0) = true := fun h => hz1 ((mod_eq_zero_iff z1).1 h)
  rw [if_neg hz1']
  simp only [hz1, if_false, one_ne_zero]
  simp only [subP_eq_zero_iff, cast_mulP, mul_one]
  by_cases hH : (x2 : F) * ((z1 : F) * z1) - x1 = 0
  · simp only [hH, if_true]
    by_cases hr : (y2 : F) * ((z1 : F) * ((z1 : F) * z1)) - y1 = 0
    · simp only [hr, if_true]
      exact castJ_jdouble (x1, y1, z1)
    · simp only [hr, if_false]
      simp [Fast.jinf, castJ]
  · simp only [hH, if_false]
    simp only [castJ, cast_subP, Fast.mulP, Nat.cast_add, Nat.cast_mul, ZMod.natCast_mod,
      cast_P_sub_mod, Nat.cast_ofNat]
    refine congrArg₂ Prod.mk ?_ (congrArg₂ Prod.mk ?_ ?_) <;> ring

/-! ### representation lemmas for `GoBk.Fast` -/

theorem jinf_rep : Rep Fast.jinf 0 := Or.inl ⟨by simp [castJ, Fast.jinf], rfl⟩

theorem jdouble_rep {p : Fast.J} {Q : E.Point} (h : Rep p Q) : Rep (Fast.jdouble p) (Q + Q) := by
  unfold Rep; rw [castJ_jdouble]; exact jdoubleF_rep h

theorem jadd_rep {p q : Fast.J} {Q R : E.Point} (hp : Rep p Q) (hq : Rep q R) :
    Rep (Fast.jadd p q) (Q + R) := by
  unfold Rep; rw [castJ_jadd]; exact jaddF_rep hp hq

theorem affine_repF (Q : E.Point) (hQ : isInf (enc Q) = false) :
    RepF (((enc Q).1 : F), ((enc Q).2 : F), 1) Q := by
  rcases Q with _ | ⟨x, y, h⟩
  · cases hQ
  · right
    refine ⟨one_ne_zero, ?_⟩
    exact some_congr h (by simp) (by simp)

theorem jaddA_rep {p : Fast.J} {Q : E.Point} (hp : Rep p Q) (R : E.Point) :
    Rep (Fast.jaddA p (enc R)) (Q + R) := by
  by_cases hR : isInf (enc R) = true
  · have hR0 : R = 0 := (enc_eq_inf_iff R).1 ((isInf_iff _).1 hR)
    subst hR0
    rw [add_zero]
    obtain ⟨x1, y1, z1⟩ := p
    exact hp
  · rw [Bool.not_eq_true] at hR
    unfold Rep
    rw [castJ_jaddA _ _ hR]
    exact jaddF_rep hp (affine_repF R hR)

theorem ofAffine_rep (Q : E.Point) : Rep (Fast.ofAffine (enc Q)) Q := by
  unfold Fast.ofAffine
  by_cases hQ : isInf (enc Q) = true
  · rw [if_pos hQ]
    have hQ0 : Q = 0 := (enc_eq_inf_iff Q).1 ((isInf_iff _).1 hQ)
    subst hQ0
    exact jinf_rep
  · rw [if_neg hQ]
    rw [Bool.not_eq_true] at hQ
    exact affine_repF Q hQ

theorem toAffine_rep {p : Fast.J} {Q : E.Point} (h : Rep p Q) : Fast.toAffine p = enc Q := by
  obtain ⟨x, y, z⟩ := p
  rcases h with ⟨hz, rfl⟩ | ⟨hz, hns, rfl⟩
  · simp only [castJ] at hz
    simp only [Fast.toAffine, (mod_eq_zero_iff z).2 hz, if_true, enc_zero]
  · simp only [castJ] at hz hns ⊢
    simp only [Fast.toAffine, if_neg (fun h => hz ((mod_eq_zero_iff z).1 h)), enc_some]
    refine congrArg₂ Prod.mk ?_ ?_
    · unfold Fast.mulP
      apply val_eq_of_cast
      simp only [Nat.cast_mul, ZMod.natCast_mod, cast_invMod]
      field_simp
    · unfold Fast.mulP
      apply val_eq_of_cast
      simp only [Nat.cast_mul, ZMod.natCast_mod, cast_invMod]
      field_simp

/-- `Pt`-level corollaries: the Jacobian operations commute with `toAffine`. -/
theorem toAffine_ofAffine {a : Pt} (ha : valid a = true) : Fast.toAffine (Fast.ofAffine a) = a := by
  obtain ⟨Q, rfl⟩ := (valid_iff a).1 ha
  exact toAffine_rep (ofAffine_rep Q)

theorem toAffine_jdouble {p : Fast.J} {Q : E.Point} (h : Rep p Q) :
    Fast.toAffine (Fast.jdouble p) = pdouble (Fast.toAffine p) := by
  rw [toAffine_rep (jdouble_rep h), toAffine_rep h, pdouble_enc]

theorem toAffine_jadd {p q : Fast.J} {Q R : E.Point} (hp : Rep p Q) (hq : Rep q R) :
    Fast.toAffine (Fast.jadd p q) = padd (Fast.toAffine p) (Fast.toAffine q) := by
  rw [toAffine_rep (jadd_rep hp hq), toAffine_rep hp, toAffine_rep hq, padd_enc]

theorem toAffine_jaddA {p : Fast.J} {Q : E.Point} (hp : Rep p Q) {a : Pt} (ha : valid a = true) :
    Fast.toAffine (Fast.jaddA p a) = padd (Fast.toAffine p) a := by
  obtain ⟨R, rfl⟩ := (valid_iff a).1 ha
  rw [toAffine_rep (jaddA_rep hp R), toAffine_rep hp, padd_enc]

/-! ### the ladders -/

theorem smulAux_rep (Q : E.Point) :
    ∀ fuel k, k < 2 ^ fuel → Rep (Fast.smulAux (enc Q) fuel k) (k • Q) := by
  intro fuel
  induction fuel with
  | zero =>
    intro k hk
    have : k = 0 := by omega
    subst this
    rw [zero_nsmul]
    exact jinf_rep
  | succ fuel ih =>
    intro k hk
    unfold Fast.smulAux
    by_cases h0 : k = 0
    · subst h0
      rw [if_pos rfl, zero_nsmul]
      exact jinf_rep
    · rw [if_neg h0]
      have hk2 : k / 2 < 2 ^ fuel := by rw [pow_succ] at hk; omega
      have hd := jdouble_rep (ih _ hk2)
      have hsplit : k • Q = (k / 2) • Q + (k / 2) • Q + (k % 2) • Q := by
        rw [← add_nsmul, ← add_nsmul]; congr 1; omega
      by_cases h1 : k % 2 = 1
      · simp only [if_pos h1]
        rw [hsplit, h1, one_nsmul]
        exact jaddA_rep hd Q
      · simp only [if_neg h1]
        rw [hsplit, (by omega : k % 2 = 0), zero_nsmul, add_zero]
        exact hd

theorem smulJ_rep (k : ℕ) (Q : E.Point) : Rep (Fast.smulJ k (enc Q)) (k • Q) :=
  smulAux_rep Q _ _ Nat.lt_log2_self

theorem mulAddAux_rep (Q R : E.Point) {gq : Fast.J} (hgq : Rep gq (Q + R)) :
    ∀ fuel u1 u2, u1 < 2 ^ fuel → u2 < 2 ^ fuel →
      Rep (Fast.mulAddAux (enc Q) (enc R) gq fuel u1 u2) (u1 • Q + u2 • R) := by
  intro fuel
  induction fuel with
  | zero =>
    intro u1 u2 h1 h2
    have e1 : u1 = 0 := by omega
    have e2 : u2 = 0 := by omega
    subst e1 e2
    rw [zero_nsmul, zero_nsmul, add_zero]
    exact jinf_rep
  | succ fuel ih =>
    intro u1 u2 h1 h2
    unfold Fast.mulAddAux
    by_cases h0 : u1 = 0 ∧ u2 = 0
    · obtain ⟨e1, e2⟩ := h0
      subst e1 e2
      rw [if_pos ⟨rfl, rfl⟩, zero_nsmul, zero_nsmul, add_zero]
      exact jinf_rep
    · rw [if_neg h0]
      have h1' : u1 / 2 < 2 ^ fuel := by rw [pow_succ] at h1; omega
      have h2' : u2 / 2 < 2 ^ fuel := by rw [pow_succ] at h2; omega
      have hd := jdouble_rep (ih _ _ h1' h2')
      have hsplit : u1 • Q + u2 • R =
          ((u1 / 2) • Q + (u2 / 2) • R) + ((u1 / 2) • Q + (u2 / 2) • R)
            + ((u1 % 2) • Q + (u2 % 2) • R) := by
        have e1 : u1 • Q = (u1 / 2) • Q + (u1 / 2) • Q + (u1 % 2) • Q := by
          rw [← add_nsmul, ← add_nsmul]; congr 1; omega
        have e2 : u2 • R = (u2 / 2) • R + (u2 / 2) • R + (u2 % 2) • R := by
          rw [← add_nsmul, ← add_nsmul]; congr 1; omega
        rw [e1, e2]; abel
      rw [hsplit]
      by_cases b1 : u1 % 2 = 1
      · by_cases b2 : u2 % 2 = 1
        · simp only [if_pos b1, if_pos b2]
          rw [b1, b2, one_nsmul, one_nsmul]
          exact jadd_rep hd hgq
        · simp only [if_pos b1, if_neg b2]
          rw [b1, (by omega : u2 % 2 = 0), one_nsmul, zero_nsmul, add_zero]
          exact jaddA_rep hd Q
      · by_cases b2 : u2 % 2 = 1
        · simp only [if_neg b1, if_pos b2]
          rw [b2, (by omega : u1 % 2 = 0), one_nsmul, zero_nsmul, zero_add]
          exact jaddA_rep hd R
        · simp only [if_neg b1, if_neg b2]
          rw [(by omega : u1 % 2 = 0), (by omega : u2 % 2 = 0), zero_nsmul, zero_nsmul, add_zero,
            add_zero]
          exact hd

theorem mulAddJ_rep (u1 u2 : ℕ) (Q R : E.Point) :
    Rep (Fast.mulAddJ u1 u2 (enc Q) (enc R)) (u1 • Q + u2 • R) := by
  unfold Fast.mulAddJ
  apply mulAddAux_rep Q R (jaddA_rep (ofAffine_rep Q) R)
  · exact lt_of_lt_of_le Nat.lt_log2_self
      (Nat.pow_le_pow_right (by decide) (Nat.succ_le_succ (le_max_left _ _)))
  · exact lt_of_lt_of_le Nat.lt_log2_self
      (Nat.pow_le_pow_right (by decide) (Nat.succ_le_succ (le_max_right _ _)))

end GoBk.Proofs

/-! ### main theorems -/

namespace GoBk.Fast
open GoBk.Spec GoBk.Proofs

/-- the Jacobian ladder computes the reference scalar multiplication -/
theorem smul_eq (k : Nat) {a : Pt} (ha : valid a = true) : Fast.smul k a = Spec.smul k a := by
  obtain ⟨Q, rfl⟩ := (valid_iff a).1 ha
  rw [smul_enc]
  exact toAffine_rep (smulJ_rep k Q)

theorem smulG_eq (k : Nat) : Fast.smulG k = Spec.smul k Spec.G := smul_eq k valid_G

/-- Shamir's trick computes `u1 • G + u2 • q` -/
theorem mulAdd_eq (u1 u2 : Nat) {q : Pt} (hq : valid q = true) :
    Fast.mulAdd u1 u2 q = Spec.padd (Spec.smul u1 Spec.G) (Spec.smul u2 q) := by
  obtain ⟨R, rfl⟩ := (valid_iff q).1 hq
  rw [← enc_Gpt, smul_enc, smul_enc, padd_enc]
  exact toAffine_rep (mulAddJ_rep u1 u2 Gpt R)

theorem valid_smul (k : Nat) {a : Pt} (ha : valid a = true) : valid (Fast.smul k a) = true := by
  rw [smul_eq k ha]; exact Proofs.valid_smul k ha

end GoBk.Fast

#print axioms GoBk.Proofs.jdoubleF_rep
#print axioms GoBk.Proofs.jaddF_rep
#print axioms GoBk.Proofs.jdouble_rep
#print axioms GoBk.Proofs.jadd_rep
#print axioms GoBk.Proofs.jaddA_rep
#print axioms GoBk.Proofs.ofAffine_rep
#print axioms GoBk.Proofs.toAffine_rep
#print axioms GoBk.Proofs.smulJ_rep
#print axioms GoBk.Proofs.mulAddJ_rep
#print axioms GoBk.Fast.smul_eq
#print axioms GoBk.Fast.smulG_eq
#print axioms GoBk.Fast.mulAdd_eq
