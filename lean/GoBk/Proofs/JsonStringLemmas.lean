import GoBk.Model.JsonString
import GoBk.Proofs.Utf8Lemmas
/-
  Lemmas about the JSON string codec of `GoBk.JsonString` (model of encoding/json's `appendString` and
  `unquoteBytes`), for C20:
  * `decodeRune_seq`: on a well-formed sequence `utf8.DecodeRune` returns its length and a rune that
    `utf8.EncodeRune` maps back to the same bytes;
  * `step_spec`: one iteration of the encoder's loop produces text that one iteration of the decoder's loop
    maps to what `sanitizeUtf8` makes of the consumed input;
  * `unquote_quote_sanitize`: `unquoteWith apos (jsonQuote s) = some (sanitizeUtf8 s)`;
  * `unquote_plain`: text without `"`, `\`, control characters and ill-formed UTF-8 is returned as it is (the
    fast path of Go's `unquoteBytes`).
  Core only.
-/
set_option linter.unusedSimpArgs false
namespace GoBk.Proofs.JsonL
open GoBk Envelope JsonString GoBk.Proofs.Utf8L

/-! ### runes -/

theorem ofNat_eq {n : Nat} {a : UInt8} (h : n = a.toNat) : UInt8.ofNat n = a := by
  subst h; exact UInt8.ofNat_toNat

theorem encodeRune_3 (r : Nat) (h1 : 0x800 ≤ r) (h2 : r < 0x10000) (h3 : r < 0xD800 ∨ 0xDFFF < r) :
    encodeRune r =
      [UInt8.ofNat (0xE0 + r / 4096), UInt8.ofNat (0x80 + r / 64 % 64), UInt8.ofNat (0x80 + r % 64)] := by
  unfold encodeRune
  rw [if_neg (by omega), if_neg (by omega), if_neg, if_pos h2]
  simp only [Bool.or_eq_true, Bool.and_eq_true, decide_eq_true_eq]
  omega

theorem encodeRune_4 (r : Nat) (h1 : 0x10000 ≤ r) (h2 : r ≤ 0x10FFFF) :
    encodeRune r =
      [UInt8.ofNat (0xF0 + r / 262144), UInt8.ofNat (0x80 + r / 4096 % 64), UInt8.ofNat (0x80 + r / 64 % 64),
        UInt8.ofNat (0x80 + r % 64)] := by
  unfold encodeRune
  rw [if_neg (by omega), if_neg (by omega), if_neg, if_neg (by omega)]
  simp only [Bool.or_eq_true, Bool.and_eq_true, decide_eq_true_eq]
  omega

macro "dec3" hl:ident "," a:term "," b:term "," c:term : tactic => `(tactic|
  (refine ⟨($a).toNat % 16 * 4096 + ($b).toNat % 64 * 64 + ($c).toNat % 64, ?_, ?_⟩
   · unfold decodeRune; rw [$hl:ident]; rfl
   · rw [encodeRune_3 _ (by u8omega) (by u8omega) (by u8omega)]
     rw [ofNat_eq (a := $a) (by u8omega), ofNat_eq (a := $b) (by u8omega), ofNat_eq (a := $c) (by u8omega)]))

macro "dec4" hl:ident "," a:term "," b:term "," c:term "," d:term : tactic => `(tactic|
  (refine ⟨($a).toNat % 8 * 262144 + ($b).toNat % 64 * 4096 + ($c).toNat % 64 * 64 + ($d).toNat % 64, ?_, ?_⟩
   · unfold decodeRune; rw [$hl:ident]; rfl
   · rw [encodeRune_4 _ (by u8omega) (by u8omega)]
     rw [ofNat_eq (a := $a) (by u8omega), ofNat_eq (a := $b) (by u8omega), ofNat_eq (a := $c) (by u8omega),
       ofNat_eq (a := $d) (by u8omega)]))

theorem decodeRune_seq {s : Bytes} (hs : Seq s) (t : Bytes) :
    ∃ cp, decodeRune (s ++ t) = (cp, s.length) ∧ encodeRune cp = s := by
  have hl := seqLen_of_seq hs t
  cases hs with
  | r1 a h =>
    refine ⟨a.toNat, ?_, ?_⟩
    · unfold decodeRune; rw [hl]; rfl
    · unfold encodeRune
      rw [if_pos (by u8omega)]
      rw [ofNat_eq rfl]
  | r2 a b h1 h2 =>
    refine ⟨a.toNat % 32 * 64 + b.toNat % 64, ?_, ?_⟩
    · unfold decodeRune; rw [hl]; rfl
    · unfold encodeRune
      rw [if_neg (by u8omega), if_pos (by u8omega)]
      rw [ofNat_eq (a := a) (by u8omega), ofNat_eq (a := b) (by u8omega)]
  | r3 a b c h1 h2 h3 => dec3 hl, a, b, c
  | r4 a b c h1 h2 h3 => dec3 hl, a, b, c
  | r5 a b c h1 h2 h3 => dec3 hl, a, b, c
  | r6 a b c h1 h2 h3 => dec3 hl, a, b, c
  | r7 a b c d h1 h2 h3 h4 => dec4 hl, a, b, c, d
  | r8 a b c d h1 h2 h3 h4 => dec4 hl, a, b, c, d
  | r9 a b c d h1 h2 h3 h4 => dec4 hl, a, b, c, d

/-! ### single steps -/

def hex4 (a b c d : UInt8) : Option Nat :=
  match hexVal a, hexVal b, hexVal c, hexVal d with
  | some a, some b, some c, some d => some (((a * 16 + b) * 16 + c) * 16 + d)
  | _, _, _, _ => none

theorem getu4_eq (a b c d : UInt8) (t : Bytes) : getu4 (0x5c :: 0x75 :: a :: b :: c :: d :: t) = hex4 a b c d := rfl

theorem unquoteStep_u4 (apos : Bool) (a b c d : UInt8) (t : Bytes) (rr : Nat) (h : hex4 a b c d = some rr)
    (hs : isSurrogate rr = false) :
    unquoteStep apos (0x5c :: 0x75 :: a :: b :: c :: d :: t) = some (encodeRune rr, t) := by
  have : unquoteStep apos (0x5c :: 0x75 :: a :: b :: c :: d :: t) =
      match getu4 (0x5c :: 0x75 :: a :: b :: c :: d :: t) with
      | none => none
      | some rr =>
        let s6 := (0x5c :: 0x75 :: a :: b :: c :: d :: t).drop 6
        if isSurrogate rr then
          let dec := utf16Decode rr (getu4 s6)
          if dec != 0xFFFD then some (encodeRune dec, s6.drop 6)
          else some (encodeRune 0xFFFD, s6)
        else some (encodeRune rr, s6) := rfl
  rw [this, getu4_eq, h]
  simp only [hs, Bool.false_eq_true, if_false, List.drop_succ_cons, List.drop_zero]

def quoteAscii (c : UInt8) : Bytes :=
  if htmlSafe c then [c]
  else if c == 0x5c || c == 0x22 then [0x5c, c]
  else if c == 0x08 then [0x5c, 0x62]
  else if c == 0x0c then [0x5c, 0x66]
  else if c == 0x0a then [0x5c, 0x6e]
  else if c == 0x0d then [0x5c, 0x72]
  else if c == 0x09 then [0x5c, 0x74]
  else [0x5c, 0x75, 0x30, 0x30, hexLower (c.toNat / 16), hexLower (c.toNat % 16)]

theorem quoteStep_ascii (c : UInt8) (rest : Bytes) (h : c < 0x80) :
    quoteStep (c :: rest) = (quoteAscii c, rest) := by
  unfold quoteAscii
  simp only [quoteStep, h, if_true]
  repeat' split
  all_goals first | rfl | contradiction

theorem hexVal_hexLower : ∀ n, n < 16 → hexVal (hexLower n) = some n := by decide

theorem encodeRune_ascii (c : UInt8) (h : c < 0x80) : encodeRune c.toNat = [c] := by
  unfold encodeRune
  rw [if_pos (by u8omega), ofNat_eq rfl]

theorem unquoteStep_plain (apos : Bool) (c : UInt8) (t : Bytes) (h1 : 0x20 ≤ c) (h2 : c < 0x80)
    (h3 : c ≠ 0x22) (h4 : c ≠ 0x5c) : unquoteStep apos (c :: t) = some ([c], t) := by
  have e1 : (c == 0x5c) = false := by simpa using h4
  have e2 : (c == 0x22 || decide (c < 0x20)) = false := by
    simp only [Bool.or_eq_false_iff, beq_eq_false_iff_ne, ne_eq, decide_eq_false_iff_not]
    exact ⟨h3, by u8omega⟩
  simp only [unquoteStep, e1, e2, h2, Bool.false_eq_true, if_false, if_true, decide_true]

theorem unquote_ascii (apos : Bool) (c : UInt8) (t : Bytes) (h : c < 0x80) :
    unquoteStep apos (quoteAscii c ++ t) = some ([c], t) := by
  unfold quoteAscii
  by_cases hs : htmlSafe c = true
  · rw [if_pos hs]
    unfold htmlSafe at hs
    simp only [Bool.and_eq_true, decide_eq_true_eq, bne_iff_ne, ne_eq] at hs
    exact unquoteStep_plain apos c t hs.1.1.1.1.1.1 h hs.1.1.1.1.2 hs.1.1.1.2
  rw [if_neg hs]
  by_cases h5c : c = 0x5c
  · subst h5c; cases apos <;> rfl
  by_cases h22 : c = 0x22
  · subst h22; cases apos <;> rfl
  by_cases h08 : c = 0x08
  · subst h08; cases apos <;> rfl
  by_cases h0c : c = 0x0c
  · subst h0c; cases apos <;> rfl
  by_cases h0a : c = 0x0a
  · subst h0a; cases apos <;> rfl
  by_cases h0d : c = 0x0d
  · subst h0d; cases apos <;> rfl
  by_cases h09 : c = 0x09
  · subst h09; cases apos <;> rfl
  have e1 : (c == 0x5c || c == 0x22) = false := by simp [h5c, h22]
  have e2 : (c == 0x08) = false := by simpa using h08
  have e3 : (c == 0x0c) = false := by simpa using h0c
  have e4 : (c == 0x0a) = false := by simpa using h0a
  have e5 : (c == 0x0d) = false := by simpa using h0d
  have e6 : (c == 0x09) = false := by simpa using h09
  simp only [e1, e2, e3, e4, e5, e6, Bool.false_eq_true, if_false, List.cons_append, List.nil_append]
  have hn : c.toNat < 128 := by u8omega
  rw [unquoteStep_u4 apos _ _ _ _ t c.toNat ?_ ?_, encodeRune_ascii c h]
  · have h0 : hexVal 0x30 = some 0 := by decide
    unfold hex4
    rw [hexVal_hexLower _ (by omega), hexVal_hexLower _ (by omega), h0]
    show some _ = _
    congr 1
    omega
  · unfold isSurrogate; simp; omega

theorem quoteAscii_ne_nil (c : UInt8) : quoteAscii c ≠ [] := by
  unfold quoteAscii
  repeat' split
  all_goals simp

/-- a byte `≥ 0x80` at the head of the decoder's input: decode and re-encode -/
theorem unquoteStep_high (apos : Bool) (c : UInt8) (rest : Bytes) (h : ¬ c < 0x80) :
    unquoteStep apos (c :: rest) =
      some (encodeRune (decodeRune (c :: rest)).1, (c :: rest).drop (decodeRune (c :: rest)).2) := by
  have e1 : (c == 0x5c) = false := by
    simp only [beq_eq_false_iff_ne, ne_eq]; intro h'; subst h'; exact h (by decide)
  have e2 : (c == 0x22 || decide (c < 0x20)) = false := by
    simp only [Bool.or_eq_false_iff, beq_eq_false_iff_ne, ne_eq, decide_eq_false_iff_not]
    refine ⟨?_, by u8omega⟩
    intro h'; subst h'; exact h (by decide)
  simp only [unquoteStep, e1, e2, h, Bool.false_eq_true, if_false, decide_false]

/-- a well-formed multi-byte sequence is copied by the decoder -/
theorem unquoteStep_seq (apos : Bool) {s : Bytes} (hs : Seq s) (c : UInt8) (s' : Bytes) (e : s = c :: s')
    (h : ¬ c < 0x80) (t : Bytes) : unquoteStep apos (s ++ t) = some (s, t) := by
  obtain ⟨cp, hd, he⟩ := decodeRune_seq hs t
  have e' : s ++ t = c :: (s' ++ t) := by rw [e]; rfl
  rw [e', unquoteStep_high apos c _ h, ← e', hd]
  simp only [he, List.drop_left']

theorem decodeRune_bad (c : UInt8) (rest : Bytes) (h : utf8SeqLen (c :: rest) = 0) :
    decodeRune (c :: rest) = (0xFFFD, 1) := by
  unfold decodeRune; rw [h]; rfl

theorem Seq.length_ne_one {s : Bytes} (hs : Seq s) (c : UInt8) (s' : Bytes) (e : s = c :: s')
    (h : ¬ c < 0x80) : s.length ≠ 1 := by
  cases hs with
  | r1 a ha =>
    simp only [List.cons.injEq] at e
    obtain ⟨rfl, _⟩ := e
    exact absurd (by u8omega) h
  | _ => simp

/-- One iteration of `appendString`'s loop on a non-empty input: it appends `q` and leaves `r`; one iteration of
`unquoteBytes`'s loop on `q ++ t` writes `out` and leaves `t`; `sanitizeUtf8` maps what was consumed to `out`. -/
theorem step_spec (c : UInt8) (rest : Bytes) :
    ∃ q out r, q ≠ [] ∧ r.length ≤ rest.length ∧ quoteStep (c :: rest) = (q, r) ∧
      (∀ apos t, unquoteStep apos (q ++ t) = some (out, t)) ∧
      sanitizeUtf8 (c :: rest) = out ++ sanitizeUtf8 r := by
  by_cases h : c < 0x80
  · exact ⟨quoteAscii c, [c], rest, quoteAscii_ne_nil c, Nat.le_refl _, quoteStep_ascii c rest h,
      fun apos t => unquote_ascii apos c t h, sanitize_seq (.r1 c (by u8omega)) rest⟩
  rcases seqLen_cases (c :: rest) with h0 | ⟨s, r, hs, e⟩
  · refine ⟨[0x5c, 0x75, 0x66, 0x66, 0x66, 0x64], [0xEF, 0xBF, 0xBD], rest, by simp, Nat.le_refl _, ?_, ?_,
      sanitize_bad c rest h0⟩
    · simp only [quoteStep, h, if_false, decodeRune_bad c rest h0]
      rfl
    · intro apos t
      exact unquoteStep_u4 apos _ _ _ _ t 0xFFFD (by decide) (by decide)
  · obtain ⟨cp, hd, he⟩ := decodeRune_seq hs r
    obtain ⟨s', es⟩ : ∃ s', s = c :: s' := by
      cases s with
      | nil => exact absurd rfl hs.ne_nil
      | cons x s' => simp only [List.cons_append, List.cons.injEq] at e; exact ⟨s', by rw [e.1]⟩
    have hl1 : (s.length == 1) = false := by simpa using Seq.length_ne_one hs c s' es h
    have hlen : r.length ≤ rest.length := by
      have : (c :: rest).length = s.length + r.length := by rw [e]; simp
      have := hs.length_pos
      simp only [List.length_cons] at *; omega
    rw [← e] at hd
    by_cases h28 : cp = 0x2028 ∨ cp = 0x2029
    · refine ⟨[0x5c, 0x75, 0x32, 0x30, 0x32, hexLower (cp % 16)], s, r, by simp, hlen, ?_, ?_, ?_⟩
      · have hc : (cp == 0x2028 || cp == 0x2029) = true := by simpa using h28
        simp only [quoteStep, h, if_false, hd, hl1, hc, Bool.and_false, Bool.false_eq_true, if_true]
        rw [e, List.drop_left]
      · intro apos t
        rw [← he]
        rcases h28 with rfl | rfl
        · exact unquoteStep_u4 apos _ _ _ _ t 0x2028 (by decide) (by decide)
        · exact unquoteStep_u4 apos _ _ _ _ t 0x2029 (by decide) (by decide)
      · rw [e]; exact sanitize_seq hs r
    · refine ⟨s, s, r, hs.ne_nil, hlen, ?_, fun apos t => unquoteStep_seq apos hs c s' es h t, ?_⟩
      · have hc : (cp == 0x2028 || cp == 0x2029) = false := by simpa using h28
        simp only [quoteStep, h, if_false, hd, hl1, hc, Bool.and_false, Bool.false_eq_true]
        rw [e, List.drop_left, List.take_left]
      · rw [e]; exact sanitize_seq hs r

/-! ### the loops -/

theorem quoteLoop_nil (f : Nat) : quoteLoop f [] = [] := by cases f <;> rfl
theorem unquoteLoop_nil (apos : Bool) (f : Nat) : unquoteLoop apos f [] = some [] := by cases f <;> rfl

theorem quoteLoop_succ (f : Nat) (c : UInt8) (rest : Bytes) :
    quoteLoop (f + 1) (c :: rest) = (quoteStep (c :: rest)).1 ++ quoteLoop f (quoteStep (c :: rest)).2 := rfl

theorem unquoteLoop_succ (apos : Bool) (f : Nat) (c : UInt8) (rest out rem : Bytes)
    (h : unquoteStep apos (c :: rest) = some (out, rem)) :
    unquoteLoop apos (f + 1) (c :: rest) = (unquoteLoop apos f rem).map (out ++ ·) := by
  simp only [unquoteLoop, h]

theorem loop_roundtrip (apos : Bool) : ∀ (n : Nat) (b : Bytes), b.length ≤ n → ∀ f1 f2, b.length ≤ f1 →
    (quoteLoop f1 b).length ≤ f2 → unquoteLoop apos f2 (quoteLoop f1 b) = some (sanitizeUtf8 b) := by
  intro n
  induction n with
  | zero =>
    intro b hb f1 f2 _ _
    have : b = [] := List.eq_nil_of_length_eq_zero (by omega)
    subst this
    rw [quoteLoop_nil, unquoteLoop_nil]; rfl
  | succ n ih =>
    intro b hb f1 f2 h1 h2
    match b, f1 with
    | [], _ => rw [quoteLoop_nil, unquoteLoop_nil]; rfl
    | c :: rest, 0 => simp at h1
    | c :: rest, f1 + 1 =>
      obtain ⟨q, out, r, hq, hr, hqs, hu, hsan⟩ := step_spec c rest
      rw [quoteLoop_succ, hqs] at h2 ⊢
      simp only [List.length_cons] at hb h1
      obtain ⟨x, q', rfl⟩ : ∃ x q', q = x :: q' := by
        cases q with
        | nil => exact absurd rfl hq
        | cons x q' => exact ⟨x, q', rfl⟩
      simp only [List.cons_append, List.length_cons, List.length_append] at h2 ⊢
      match f2 with
      | 0 => omega
      | f2 + 1 =>
        have hu' := hu apos (quoteLoop f1 r)
        simp only [List.cons_append] at hu'
        rw [unquoteLoop_succ apos f2 x _ out _ hu',
          ih r (by omega) f1 f2 (by omega) (by omega), hsan]
        rfl

theorem unquoteWith_quoted (apos : Bool) (body : Bytes) :
    unquoteWith apos ((0x22 :: body) ++ [0x22]) = unquoteLoop apos body.length body := by
  unfold unquoteWith
  have h1 : decide (((0x22 :: body) ++ [0x22]).length < 2) = false := by simp
  have h2 : ((0x22 :: body) ++ [0x22]).head? = some 0x22 := by simp
  have h3 : ((0x22 :: body) ++ [0x22]).getLast? = some 0x22 := List.getLast?_concat
  have h4 : (((0x22 :: body) ++ [0x22] : Bytes).drop 1).dropLast = body := by simp
  rw [h1, h2, h3, h4]
  rfl

/-- `Unmarshal ∘ Marshal` on a Go string is `string([]rune(s))` -/
theorem unquote_quote_sanitize (apos : Bool) (s : Bytes) :
    unquoteWith apos (jsonQuote s) = some (sanitizeUtf8 s) := by
  unfold jsonQuote
  rw [unquoteWith_quoted]
  exact loop_roundtrip apos s.length s (Nat.le_refl _) _ _ (Nat.le_refl _) (Nat.le_refl _)

/-! ### the fast path of `unquoteBytes` -/

/-- no `"`, no `\`, no control character -/
def Plain (b : Bytes) : Prop := ∀ x ∈ b, 0x20 ≤ x ∧ x ≠ 0x22 ∧ x ≠ 0x5c

theorem unquoteLoop_plain (apos : Bool) {b : Bytes} (hw : WellFormed b) :
    Plain b → ∀ f, b.length ≤ f → unquoteLoop apos f b = some b := by
  induction hw with
  | nil => intro _ f _; exact unquoteLoop_nil apos f
  | @cons s r hs hr ih =>
    intro hp f hf
    obtain ⟨c, s', es⟩ : ∃ c s', s = c :: s' := by
      cases s with
      | nil => exact absurd rfl hs.ne_nil
      | cons x s' => exact ⟨x, s', rfl⟩
    have hpr : Plain r := fun x hx => hp x (by simp [hx])
    have hc := hp c (by simp [es])
    have hstep : unquoteStep apos (s ++ r) = some (s, r) := by
      by_cases h : c < 0x80
      · have : s = [c] := by
          cases hs with
          | r1 a _ => simp only [List.cons.injEq] at es; rw [es.1]
          | _ => all_goals (simp only [List.cons.injEq] at es; obtain ⟨rfl, _⟩ := es; exfalso; u8omega)
        subst this
        exact unquoteStep_plain apos c r hc.1 h hc.2.1 hc.2.2
      · exact unquoteStep_seq apos hs c s' es h r
    have hl : (s ++ r).length = s.length + r.length := by simp
    have := hs.length_pos
    match f with
    | 0 => omega
    | f + 1 =>
      have e' : s ++ r = c :: (s' ++ r) := by rw [es]; rfl
      rw [e'] at hstep ⊢
      rw [unquoteLoop_succ apos f c _ s r hstep, ih hpr f (by omega)]
      simp only [Option.map_some, e']

/-- a literal whose body needs no work is returned as it is: Go's early `return s, true` agrees with the loop -/
theorem unquote_plain (apos : Bool) (body : Bytes) (hw : WellFormed body) (hp : Plain body) :
    unquoteWith apos (0x22 :: body ++ [0x22]) = some body := by
  rw [unquoteWith_quoted]; exact unquoteLoop_plain apos hw hp _ (Nat.le_refl _)

end GoBk.Proofs.JsonL
