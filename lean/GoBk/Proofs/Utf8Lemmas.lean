import GoBk.Model.Envelope
/-
  Lemmas about the UTF-8 sanitisation of `GoBk.Envelope` (fix D14), for C20:
  * `Seq` / `WellFormed`: the Unicode standard's Table 3-7 as an inductive predicate;
  * `utf8SeqLen` characterised by `Seq` (`seqLen_of_seq`, `seqLen_cases`);
  * `chunk_induction`: every byte string is a succession of well-formed sequences and single bytes that start
    none — the induction principle used for `sanitizeUtf8` here and for the JSON string codec in
    `JsonStringLemmas`;
  * `sanitize_wellFormed`, `sanitize_eq_self_iff`, `sanitize_idem`, `sanitize_length_le`, `validUtf8_iff`.
  Core only.
-/
set_option linter.unusedSimpArgs false
namespace GoBk.Proofs.Utf8L
open GoBk Bytes Envelope

/-- `lo ≤ x ≤ hi` -/
def InR (lo hi x : UInt8) : Prop := lo ≤ x ∧ x ≤ hi

instance (lo hi x : UInt8) : Decidable (InR lo hi x) := by unfold InR; infer_instance

/-- one well-formed UTF-8 byte sequence: the nine rows of Table 3-7 of the Unicode standard -/
inductive Seq : Bytes → Prop
  | r1 (a : UInt8) : InR 0x00 0x7F a → Seq [a]
  | r2 (a b : UInt8) : InR 0xC2 0xDF a → InR 0x80 0xBF b → Seq [a, b]
  | r3 (a b c : UInt8) : a = 0xE0 → InR 0xA0 0xBF b → InR 0x80 0xBF c → Seq [a, b, c]
  | r4 (a b c : UInt8) : InR 0xE1 0xEC a → InR 0x80 0xBF b → InR 0x80 0xBF c → Seq [a, b, c]
  | r5 (a b c : UInt8) : a = 0xED → InR 0x80 0x9F b → InR 0x80 0xBF c → Seq [a, b, c]
  | r6 (a b c : UInt8) : InR 0xEE 0xEF a → InR 0x80 0xBF b → InR 0x80 0xBF c → Seq [a, b, c]
  | r7 (a b c d : UInt8) : a = 0xF0 → InR 0x90 0xBF b → InR 0x80 0xBF c → InR 0x80 0xBF d → Seq [a, b, c, d]
  | r8 (a b c d : UInt8) : InR 0xF1 0xF3 a → InR 0x80 0xBF b → InR 0x80 0xBF c → InR 0x80 0xBF d →
      Seq [a, b, c, d]
  | r9 (a b c d : UInt8) : a = 0xF4 → InR 0x80 0x8F b → InR 0x80 0xBF c → InR 0x80 0xBF d → Seq [a, b, c, d]

/-- a concatenation of well-formed sequences -/
inductive WellFormed : Bytes → Prop
  | nil : WellFormed []
  | cons {s r : Bytes} : Seq s → WellFormed r → WellFormed (s ++ r)

/-- UInt8 comparisons to `Nat` -/
macro "u8norm" : tactic => `(tactic|
  simp only [InR, UInt8.lt_iff_toNat_lt, UInt8.le_iff_toNat_le, UInt8.toNat_ofNat, Bool.and_eq_true,
    decide_eq_true_eq, beq_iff_eq, ← UInt8.toNat_inj, ne_eq, Bool.not_eq_true, decide_eq_false_iff_not,
    Nat.not_le, Nat.not_lt, not_and, and_imp] at *)
macro "u8omega" : tactic => `(tactic| (u8norm; omega))

/-! ### `utf8SeqLen` and `Seq` -/

theorem Seq.length_pos {s : Bytes} (h : Seq s) : 0 < s.length := by cases h <;> simp
theorem Seq.length_le {s : Bytes} (h : Seq s) : s.length ≤ 4 := by cases h <;> simp
theorem Seq.ne_nil {s : Bytes} (h : Seq s) : s ≠ [] := by cases h <;> simp

theorem seqLen_of_seq {s : Bytes} (h : Seq s) (r : Bytes) : utf8SeqLen (s ++ r) = s.length := by
  cases h <;> simp only [utf8SeqLen, List.cons_append, List.nil_append, List.length_cons, List.length_nil]
  all_goals (repeat' split)
  all_goals first | rfl | (exfalso; u8omega)

/-- a non-empty string starts with a well-formed sequence, or `utf8SeqLen` is 0 -/
theorem seqLen_cases : ∀ b : Bytes, utf8SeqLen b = 0 ∨ ∃ s r, Seq s ∧ b = s ++ r
  | [] => .inl rfl
  | a :: rest => by
    by_cases h1 : a < 0x80
    · exact .inr ⟨[a], rest, .r1 a (by u8omega), rfl⟩
    by_cases h2 : (decide (0xC2 ≤ a) && decide (a ≤ 0xDF)) = true
    · match rest with
      | [] => left; simp only [utf8SeqLen, h1, h2, if_true, if_false, Bool.false_eq_true]
      | b :: r =>
        by_cases hb : (decide ((0x80 : UInt8) ≤ b) && decide (b ≤ 0xBF)) = true
        · exact .inr ⟨[a, b], r, .r2 a b (by u8omega) (by u8omega), rfl⟩
        · left; simp only [utf8SeqLen, h1, h2, hb, if_true, if_false, Bool.false_eq_true]
    by_cases h3 : (decide (0xE0 ≤ a) && decide (a ≤ 0xEF)) = true
    · match rest with
      | [] => left; simp only [utf8SeqLen, h1, h2, h3, if_true, if_false, Bool.false_eq_true]
      | [_] => left; simp only [utf8SeqLen, h1, h2, h3, if_true, if_false, Bool.false_eq_true]
      | b :: c :: r =>
        by_cases h4 : (decide ((if a == 0xE0 then (0xA0 : UInt8) else 0x80) ≤ b) &&
            decide (b ≤ (if a == 0xED then (0x9F : UInt8) else 0xBF)) &&
            (decide ((0x80 : UInt8) ≤ c) && decide (c ≤ 0xBF))) = true
        · right
          refine ⟨[a, b, c], r, ?_, rfl⟩
          by_cases e0 : a = 0xE0
          · have e1 : (a == 0xE0) = true := by simpa using e0
            have e2 : (a == 0xED) = false := by subst e0; decide
            simp only [e1, e2, if_true, if_false, Bool.false_eq_true] at h4
            exact .r3 _ b c e0 (by u8omega) (by u8omega)
          by_cases ed : a = 0xED
          · have e1 : (a == 0xE0) = false := by simpa using e0
            have e2 : (a == 0xED) = true := by simpa using ed
            simp only [e1, e2, if_true, if_false, Bool.false_eq_true] at h4
            exact .r5 _ b c ed (by u8omega) (by u8omega)
          have e0' : (a == 0xE0) = false := by simpa using e0
          have ed' : (a == 0xED) = false := by simpa using ed
          simp only [e0', ed', if_true, if_false, Bool.false_eq_true] at h4
          by_cases le : a ≤ 0xEC
          · exact .r4 a b c (by u8omega) (by u8omega) (by u8omega)
          · exact .r6 a b c (by u8omega) (by u8omega) (by u8omega)
        · left; simp only [utf8SeqLen, h1, h2, h3, h4, if_true, if_false, Bool.false_eq_true]
    by_cases h5 : (decide (0xF0 ≤ a) && decide (a ≤ 0xF4)) = true
    · match rest with
      | [] => left; simp only [utf8SeqLen, h1, h2, h3, h5, if_true, if_false, Bool.false_eq_true]
      | [_] => left; simp only [utf8SeqLen, h1, h2, h3, h5, if_true, if_false, Bool.false_eq_true]
      | [_, _] => left; simp only [utf8SeqLen, h1, h2, h3, h5, if_true, if_false, Bool.false_eq_true]
      | b :: c :: d :: r =>
        by_cases h6 : (decide ((if a == 0xF0 then (0x90 : UInt8) else 0x80) ≤ b) &&
            decide (b ≤ (if a == 0xF4 then (0x8F : UInt8) else 0xBF)) &&
            (decide ((0x80 : UInt8) ≤ c) && decide (c ≤ 0xBF)) &&
            (decide ((0x80 : UInt8) ≤ d) && decide (d ≤ 0xBF))) = true
        · right
          refine ⟨[a, b, c, d], r, ?_, rfl⟩
          by_cases e0 : a = 0xF0
          · have e1 : (a == 0xF0) = true := by simpa using e0
            have e2 : (a == 0xF4) = false := by subst e0; decide
            simp only [e1, e2, if_true, if_false, Bool.false_eq_true] at h6
            exact .r7 _ b c d e0 (by u8omega) (by u8omega) (by u8omega)
          by_cases ed : a = 0xF4
          · have e1 : (a == 0xF0) = false := by simpa using e0
            have e2 : (a == 0xF4) = true := by simpa using ed
            simp only [e1, e2, if_true, if_false, Bool.false_eq_true] at h6
            exact .r9 _ b c d ed (by u8omega) (by u8omega) (by u8omega)
          have e0' : (a == 0xF0) = false := by simpa using e0
          have ed' : (a == 0xF4) = false := by simpa using ed
          simp only [e0', ed', if_true, if_false, Bool.false_eq_true] at h6
          exact .r8 a b c d (by u8omega) (by u8omega) (by u8omega) (by u8omega)
        · left; simp only [utf8SeqLen, h1, h2, h3, h5, h6, if_true, if_false, Bool.false_eq_true]
    · left; simp only [utf8SeqLen, h1, h2, h3, h5, if_true, if_false, Bool.false_eq_true]

theorem seqLen_ascii (a : UInt8) (r : Bytes) (h : a < 0x80) : utf8SeqLen (a :: r) = 1 := by
  simp only [utf8SeqLen, h, if_true]

/-- `utf8SeqLen` is 0 or the length of the well-formed sequence the string starts with -/
theorem seqLen_spec (b : Bytes) :
    utf8SeqLen b = 0 ∨ ∃ s r, Seq s ∧ b = s ++ r ∧ utf8SeqLen b = s.length := by
  rcases seqLen_cases b with h | ⟨s, r, hs, rfl⟩
  · exact .inl h
  · exact .inr ⟨s, r, hs, rfl, seqLen_of_seq hs r⟩

theorem seqLen_le_length (b : Bytes) : utf8SeqLen b ≤ b.length := by
  rcases seqLen_spec b with h | ⟨s, r, _, rfl, h⟩ <;> rw [h]
  · exact Nat.zero_le _
  · simp

theorem seqLen_le_four (b : Bytes) : utf8SeqLen b ≤ 4 := by
  rcases seqLen_spec b with h | ⟨s, r, hs, rfl, h⟩ <;> rw [h]
  · exact Nat.zero_le _
  · exact hs.length_le

/-- Every byte string is built from: nothing; a byte `≥ 0x80` that starts no well-formed sequence, followed by a
string; a well-formed sequence followed by a string. -/
theorem chunk_induction {P : Bytes → Prop} (nil : P [])
    (bad : ∀ x r, 0x80 ≤ x → utf8SeqLen (x :: r) = 0 → P r → P (x :: r))
    (good : ∀ s r, Seq s → P r → P (s ++ r)) : ∀ b, P b := by
  intro b
  induction hn : b.length using Nat.strongRecOn generalizing b with
  | _ n ih =>
    match b with
    | [] => exact nil
    | x :: rest =>
      rcases seqLen_cases (x :: rest) with h | ⟨s, r, hs, e⟩
      · refine bad x rest ?_ h (ih rest.length (by subst hn; simp) rest rfl)
        by_cases hx : x < 0x80
        · rw [seqLen_ascii x rest hx] at h; cases h
        · u8omega
      · rw [e]
        refine good s r hs (ih r.length ?_ r rfl)
        have := hs.length_pos
        have : (x :: rest).length = s.length + r.length := by rw [e]; simp
        omega

/-! ### `sanitizeUtf8` -/

theorem sanitizeAux_succ (fuel : Nat) (b : Bytes) (hb : b ≠ []) :
    sanitizeAux (fuel + 1) b =
      if utf8SeqLen b == 0 then 0xEF :: 0xBF :: 0xBD :: sanitizeAux fuel b.tail
      else b.take (utf8SeqLen b) ++ sanitizeAux fuel (b.drop (utf8SeqLen b)) := by
  cases b with
  | nil => exact absurd rfl hb
  | cons x r => rfl

theorem sanitizeAux_nil (fuel : Nat) : sanitizeAux fuel [] = [] := by cases fuel <;> rfl

theorem sanitizeAux_fuel : ∀ (f1 f2 : Nat) (b : Bytes), b.length ≤ f1 → b.length ≤ f2 →
    sanitizeAux f1 b = sanitizeAux f2 b := by
  intro f1
  induction f1 with
  | zero =>
    intro f2 b h1 _
    have : b = [] := List.eq_nil_of_length_eq_zero (by omega)
    subst this; rw [sanitizeAux_nil, sanitizeAux_nil]
  | succ f1 ih =>
    intro f2 b h1 h2
    cases b with
    | nil => rw [sanitizeAux_nil, sanitizeAux_nil]
    | cons x r =>
      cases f2 with
      | zero => simp at h2
      | succ f2 =>
        simp only [List.length_cons] at h1 h2
        rw [sanitizeAux_succ _ _ (by simp), sanitizeAux_succ _ _ (by simp)]
        by_cases h0 : utf8SeqLen (x :: r) = 0
        · simp only [h0, beq_self_eq_true, if_true, List.tail_cons]
          rw [ih f2 r (by omega) (by omega)]
        · have hb : (utf8SeqLen (x :: r) == 0) = false := by simpa using h0
          simp only [hb, Bool.false_eq_true, if_false]
          have hl : ((x :: r).drop (utf8SeqLen (x :: r))).length ≤ r.length := by
            rw [List.length_drop, List.length_cons]; omega
          rw [ih f2 _ (by omega) (by omega)]

theorem sanitize_nil : sanitizeUtf8 [] = [] := rfl

/-- a byte that starts no well-formed sequence becomes U+FFFD -/
theorem sanitize_bad (x : UInt8) (r : Bytes) (h : utf8SeqLen (x :: r) = 0) :
    sanitizeUtf8 (x :: r) = 0xEF :: 0xBF :: 0xBD :: sanitizeUtf8 r := by
  unfold sanitizeUtf8
  rw [List.length_cons, sanitizeAux_succ _ _ (by simp)]
  simp only [h, beq_self_eq_true, if_true, List.tail_cons]

/-- a well-formed sequence is copied -/
theorem sanitize_seq {s : Bytes} (hs : Seq s) (r : Bytes) :
    sanitizeUtf8 (s ++ r) = s ++ sanitizeUtf8 r := by
  unfold sanitizeUtf8
  have hp := hs.length_pos
  have hne : s ++ r ≠ [] := by simp [hs.ne_nil]
  obtain ⟨k, hk⟩ : ∃ k, (s ++ r).length = k + 1 := ⟨s.length + r.length - 1, by simp; omega⟩
  rw [hk, sanitizeAux_succ _ _ hne, seqLen_of_seq hs r]
  have h0 : (s.length == 0) = false := by simpa using (by omega : s.length ≠ 0)
  simp only [h0, Bool.false_eq_true, if_false, List.take_left', List.drop_left']
  rw [sanitizeAux_fuel k r.length r (by simp at hk; omega) (Nat.le_refl _)]

theorem wellFormed_fffd {r : Bytes} (h : WellFormed r) : WellFormed (0xEF :: 0xBF :: 0xBD :: r) :=
  WellFormed.cons (s := [0xEF, 0xBF, 0xBD]) (.r6 _ _ _ (by decide) (by decide) (by decide)) h

theorem sanitize_wellFormed (b : Bytes) : WellFormed (sanitizeUtf8 b) := by
  induction b using chunk_induction with
  | nil => exact .nil
  | bad x r _ h ih => rw [sanitize_bad x r h]; exact wellFormed_fffd ih
  | good s r hs ih => rw [sanitize_seq hs]; exact .cons hs ih

theorem sanitize_of_wellFormed {b : Bytes} (h : WellFormed b) : sanitizeUtf8 b = b := by
  induction h with
  | nil => rfl
  | cons hs _ ih => rw [sanitize_seq hs, ih]

theorem sanitize_eq_self_iff (b : Bytes) : sanitizeUtf8 b = b ↔ WellFormed b :=
  ⟨fun h => h ▸ sanitize_wellFormed b, sanitize_of_wellFormed⟩

theorem sanitize_idem (b : Bytes) : sanitizeUtf8 (sanitizeUtf8 b) = sanitizeUtf8 b :=
  sanitize_of_wellFormed (sanitize_wellFormed b)

theorem sanitize_length_le (b : Bytes) : (sanitizeUtf8 b).length ≤ 3 * b.length := by
  induction b using chunk_induction with
  | nil => simp [sanitize_nil]
  | bad x r _ h ih => rw [sanitize_bad x r h]; simp only [List.length_cons]; omega
  | good s r hs ih => rw [sanitize_seq hs]; simp only [List.length_append]; omega

theorem sanitize_length_ge (b : Bytes) : b.length ≤ (sanitizeUtf8 b).length := by
  induction b using chunk_induction with
  | nil => simp
  | bad x r _ h ih => rw [sanitize_bad x r h]; simp only [List.length_cons]; omega
  | good s r hs ih => rw [sanitize_seq hs]; simp only [List.length_append]; omega

theorem validUtf8_iff (b : Bytes) : validUtf8 b = true ↔ WellFormed b := by
  unfold validUtf8; rw [beq_iff_eq]; exact sanitize_eq_self_iff b

instance (b : Bytes) : Decidable (WellFormed b) := decidable_of_iff _ (validUtf8_iff b)

/-! ### closure properties -/

theorem WellFormed.append {a b : Bytes} (ha : WellFormed a) (hb : WellFormed b) : WellFormed (a ++ b) := by
  induction ha with
  | nil => exact hb
  | cons hs _ ih => rw [List.append_assoc]; exact .cons hs ih

theorem wellFormed_of_ascii : ∀ {b : Bytes}, (∀ x ∈ b, x < 0x80) → WellFormed b
  | [], _ => .nil
  | x :: r, h =>
    WellFormed.cons (s := [x]) (.r1 x (by have := h x (by simp); u8omega))
      (wellFormed_of_ascii fun y hy => h y (by simp [hy]))

/-- a well-formed string is empty or starts with a well-formed sequence followed by a well-formed string -/
theorem WellFormed.cases_on' {b : Bytes} (h : WellFormed b) :
    b = [] ∨ ∃ s r, Seq s ∧ WellFormed r ∧ b = s ++ r := by
  cases h with
  | nil => exact .inl rfl
  | cons hs hr => exact .inr ⟨_, _, hs, hr, rfl⟩

end GoBk.Proofs.Utf8L
