/-
  GoBk.Spec.Fast — a fast executable evaluator for the secp256k1 group law, core Lean only.
  Points are kept in Jacobian coordinates `(X, Y, Z)` over `Nat` (reduced mod `P`),
  `(X, Y, Z)` standing for the affine point `(X/Z², Y/Z³)` and `Z ≡ 0` for infinity, so that a
  whole scalar multiplication needs a single modular inversion (`toAffine`).
  `GoBk.Proofs.FastCurve` proves `Fast.smul k a = Spec.smul k a` and
  `Fast.mulAdd u1 u2 q = Spec.padd (Spec.smul u1 G) (Spec.smul u2 q)` for valid points.
  All functions are total; on inputs that are not valid curve points they return *some* value
  which need not agree with the reference.
-/
import GoBk.Spec.Secp

namespace GoBk.Fast
open GoBk.Spec

/-- Jacobian coordinates `(X, Y, Z)` -/
abbrev J := Nat × Nat × Nat

@[inline] def mulP (a b : Nat) : Nat := a * b % P
@[inline] def addP (a b : Nat) : Nat := (a + b) % P
/-- `a - b (mod P)`; correct for arbitrary (also unreduced) `b`. -/
@[inline] def subP (a b : Nat) : Nat := (a + (P - b % P)) % P

/-- the canonical representative of infinity -/
def jinf : J := (1, 1, 0)

/-- point doubling (`a = 0` curve), 7 modular multiplications, lazily reduced.  No case
distinction is needed: `Z = 0` or `Y = 0` give `Z₃ = 0`. -/
def jdouble : J → J
  | (x, y, z) =>
    let yy := y * y % P
    let s := 4 * x * yy % P
    let m := 3 * x * x % P
    let x3 := (m * m + 2 * (P - s)) % P
    let y3 := (m * (s + (P - x3)) + 8 * (P - yy * yy % P)) % P
    (x3, y3, 2 * y * z % P)

/-- general addition; handles infinity, equal inputs (→ doubling) and opposite inputs (→ infinity). -/
def jadd : J → J → J
  | (x1, y1, z1), (x2, y2, z2) =>
    if z1 % P == 0 then (x2, y2, z2)
    else if z2 % P == 0 then (x1, y1, z1)
    else
      let z1z1 := mulP z1 z1
      let z2z2 := mulP z2 z2
      let u1 := mulP x1 z2z2
      let u2 := mulP x2 z1z1
      let s1 := mulP y1 (mulP z2 z2z2)
      let s2 := mulP y2 (mulP z1 z1z1)
      let h := subP u2 u1
      let r := subP s2 s1
      if h == 0 then
        (if r == 0 then jdouble (x1, y1, z1) else jinf)
      else
        let hh := mulP h h
        let hhh := mulP h hh
        let v := mulP u1 hh
        let x3 := (r * r + (P - hhh) + 2 * (P - v)) % P
        let y3 := (r * (v + (P - x3)) + (P - s1 * hhh % P)) % P
        (x3, y3, z1 * z2 * h % P)

/-- mixed addition `p + a` with `a` affine (`(0,0)` = infinity), 11 modular multiplications. -/
def jaddA : J → Pt → J
  | (x1, y1, z1), (x2, y2) =>
    if isInf (x2, y2) then (x1, y1, z1)
    else if z1 % P == 0 then (x2, y2, 1)
    else
      let z1z1 := mulP z1 z1
      let u2 := mulP x2 z1z1
      let s2 := mulP y2 (mulP z1 z1z1)
      let h := subP u2 x1
      let r := subP s2 y1
      if h == 0 then
        (if r == 0 then jdouble (x1, y1, z1) else jinf)
      else
        let hh := mulP h h
        let hhh := mulP h hh
        let v := mulP x1 hh
        let x3 := (r * r + (P - hhh) + 2 * (P - v)) % P
        let y3 := (r * (v + (P - x3)) + (P - y1 * hhh % P)) % P
        (x3, y3, mulP z1 h)

def ofAffine (a : Pt) : J := if isInf a then jinf else (a.1, a.2, 1)

/-- back to affine coordinates: one modular inversion -/
def toAffine : J → Pt
  | (x, y, z) =>
    if z % P == 0 then inf
    else
      let zi := invMod z P
      let zi2 := mulP zi zi
      (mulP x zi2, mulP y (mulP zi2 zi))

/-- `k • a` in Jacobian coordinates, binary method, most significant bit first -/
def smulAux (a : Pt) : Nat → Nat → J
  | 0, _ => jinf
  | fuel+1, k =>
    if k = 0 then jinf
    else
      let d := jdouble (smulAux a fuel (k / 2))
      if k % 2 = 1 then jaddA d a else d

def smulJ (k : Nat) (a : Pt) : J := smulAux a (k.log2 + 1) k

/-- `k • a` -/
def smul (k : Nat) (a : Pt) : Pt := toAffine (smulJ k a)

/-- `k • G` -/
def smulG (k : Nat) : Pt := smul k G

/-- `u1 • g + u2 • q` by Shamir's trick; `gq` must represent `g + q`. -/
def mulAddAux (g q : Pt) (gq : J) : Nat → Nat → Nat → J
  | 0, _, _ => jinf
  | fuel+1, u1, u2 =>
    if u1 = 0 ∧ u2 = 0 then jinf
    else
      let d := jdouble (mulAddAux g q gq fuel (u1 / 2) (u2 / 2))
      if u1 % 2 = 1 then
        (if u2 % 2 = 1 then jadd d gq else jaddA d g)
      else
        (if u2 % 2 = 1 then jaddA d q else d)

def mulAddJ (u1 u2 : Nat) (g q : Pt) : J :=
  mulAddAux g q (jaddA (ofAffine g) q) (max u1.log2 u2.log2 + 1) u1 u2

/-- `u1 • G + u2 • q` with a single inversion -/
def mulAdd (u1 u2 : Nat) (q : Pt) : Pt := toAffine (mulAddJ u1 u2 G q)

end GoBk.Fast
