import GoBk.Base.Bytes
import GoBk.Spec.Secp
/-
  GoBk.Spec.Rfc6979 — a transcription of RFC 6979 ("Deterministic Usage of DSA and ECDSA"),
  §2.3.2–2.3.4 (bit string / integer / octet string conversions) and §3.2 (generation of k),
  followed by the ECDSA signature equations of §2.4 and the "low-S" rule used by Bitcoin
  (s is replaced by q − s when s > q/2; this last rule is not part of RFC 6979).

  Instantiation: the curve is secp256k1 (`q = Spec.N`, `qlen = 256`), the hash function is one
  with `hlen = 256` output bits, and `HMAC_K(V)` is the abstract parameter `hmac K V`.
  Core Lean only.  Nothing here is specialised to "take the first 32 bytes": `bits2int` shifts,
  `bits2octets` reduces with a genuine `mod q`, and the inner loop of step h runs until
  `tlen ≥ qlen`.

  Differences between the RFC text and `rfc6979Sign`, all of them made explicit here:
  * the RFC loops forever in step h (the probability of needing more than one round is 2⁻¹²⁸);
    `candLoop` takes a `fuel` bound on the number of candidates and returns `none` when it is
    exhausted;
  * if `r = 0` or `s = 0` the RFC (§3.4 / §2.4) restarts with the *next* candidate k; the code
    under verification (/repo/bec/signature.go `signRFC6979`) returns an error instead, and so does
    this function (`none`).  (Reaching either case requires finding k with x(kG) ≡ 0 or
    h + x·r ≡ 0 (mod q), i.e. it is cryptographically unreachable.)
  * `int2octets` is defined in the RFC for `0 ≤ x < q` only; here it is total (value mod 2^(8·rolen)).
-/
namespace GoBk.Spec.Rfc6979
open GoBk Bytes

/-- the subgroup order `q` -/
def q : Nat := Spec.N
/-- binary length of `q` -/
def qlen : Nat := 256
/-- `rlen / 8` where `rlen = 8·ceil(qlen/8)`: the octet length of `int2octets` outputs -/
def rolen : Nat := (qlen + 7) / 8
/-- output length in bits of the hash function `H` used by HMAC -/
def hlen : Nat := 256

/-- §2.3.2 `bits2int`: a bit string of length `blen` is turned into the integer given by its
leftmost `qlen` bits — if `blen > qlen` the value is shifted right by `blen − qlen`, otherwise
(conceptually left-padded with zeros) the value is kept. -/
def bits2int (b : Bytes) : Nat :=
  let blen := 8 * b.length
  if blen > qlen then beNat b >>> (blen - qlen) else beNat b

/-- §2.3.3 `int2octets`: exactly `rolen` octets, big-endian. -/
def int2octets (x : Nat) : Bytes := natBEpad rolen (x % 2 ^ (8 * rolen))

/-- §2.3.4 `bits2octets`: `z1 = bits2int(b)`, `z2 = z1 mod q`, output `int2octets(z2)`. -/
def bits2octets (b : Bytes) : Bytes := int2octets (bits2int b % q)

section
variable (hmac : Bytes → Bytes → Bytes)   -- HMAC_K(V) = hmac K V

/-- §3.2 step h.1–h.2: `T := empty; while tlen < qlen do V := HMAC_K(V); T := T ‖ V`.
Returns `(V, T)`.  `fuel` bounds the number of rounds (one round suffices when `hlen ≥ qlen`). -/
def genT (K : Bytes) : Nat → Bytes → Bytes → Bytes × Bytes
  | 0, V, T => (V, T)
  | fuel+1, V, T =>
    if 8 * T.length < qlen then
      let V' := hmac K V
      genT K fuel V' (T ++ V')
    else (V, T)

/-- §3.2 step h: the candidate loop.  `k = bits2int(T)`; accept if `1 ≤ k < q`, otherwise
`K := HMAC_K(V ‖ 0x00)`, `V := HMAC_K(V)` and try again. -/
def candLoop : Nat → Bytes → Bytes → Option Nat
  | 0, _, _ => none
  | fuel+1, K, V =>
    let VT := genT hmac K qlen V []
    let V := VT.1
    let k := bits2int VT.2
    if 1 ≤ k ∧ k < q then some k
    else
      let K := hmac K (V ++ [0x00])
      let V := hmac K V
      candLoop fuel K V

/-- §3.2 steps b–h (step a, `h1 = H(m)`, is done by the caller: `h1` is the input). -/
def nonce (fuel : Nat) (x : Nat) (h1 : Bytes) : Option Nat :=
  let V := List.replicate (hlen / 8) (0x01 : UInt8)                       -- b
  let K := List.replicate (hlen / 8) (0x00 : UInt8)                       -- c
  let K := hmac K (V ++ [0x00] ++ int2octets x ++ bits2octets h1)         -- d
  let V := hmac K V                                                       -- e
  let K := hmac K (V ++ [0x01] ++ int2octets x ++ bits2octets h1)         -- f
  let V := hmac K V                                                       -- g
  candLoop hmac fuel K V                                                  -- h

/-- §2.4 with the deterministic `k` of §3.2 and the low-S rule:
`r = x(k·G) mod q`, `s = k⁻¹·(h + x·r) mod q` where `h = bits2int(h1) mod q`;
then `s := q − s` if `s > q/2`. -/
def sign (fuel : Nat) (x : Nat) (h1 : Bytes) : Option (Nat × Nat) :=
  match nonce hmac fuel x h1 with
  | none => none
  | some k =>
    let r := (Spec.smul k Spec.G).1 % q
    if r = 0 then none else
    let h := bits2int h1 % q
    let s := (Spec.invMod k q * (h + x * r)) % q
    if s = 0 then none else
    some (r, if s > q / 2 then q - s else s)

end
end GoBk.Spec.Rfc6979

namespace GoBk.Spec
/-- the signature RFC 6979 (HMAC with the given function, secp256k1, low-S) prescribes for
private key `d` and message hash `h1`; `none` as explained in the header of this file. -/
def rfc6979Sign (hmac : Bytes → Bytes → Bytes) (fuel : Nat) (d : Nat) (h1 : Bytes) : Option (Nat × Nat) :=
  Rfc6979.sign hmac fuel d h1
end GoBk.Spec
