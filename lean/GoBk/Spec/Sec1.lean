import GoBk.Base.Bytes
import GoBk.Spec.Secp
/-
  GoBk.Spec.Sec1 — the SEC1 (§2.3.3/2.3.4) octet-string encodings of a secp256k1 point, stated
  independently of the model of `ParsePubKey`.  Core Lean only.
-/
namespace GoBk.Spec
open GoBk GoBk.Bytes

/-- the parity of `y` as a byte (0 or 1) -/
def parity (y : Nat) : UInt8 := if y % 2 = 1 then 1 else 0

/-- `sec1 b q`: `b` is the 65-byte uncompressed (0x04), the 65-byte hybrid (0x06/0x07 with the
parity of `y`) or the 33-byte compressed (0x02/0x03) encoding of the affine point `q` of the curve,
both coordinates reduced. -/
def sec1 (b : Bytes) (q : Pt) : Prop :=
  q.1 < P ∧ q.2 < P ∧ onCurve q = true ∧
  ( b = [0x04] ++ natBEpad 32 q.1 ++ natBEpad 32 q.2 ∨
    b = [0x06 + parity q.2] ++ natBEpad 32 q.1 ++ natBEpad 32 q.2 ∨
    b = [0x02 + parity q.2] ++ natBEpad 32 q.1 )

end GoBk.Spec
