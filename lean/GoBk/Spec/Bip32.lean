import GoBk.Base.Bytes
import GoBk.Spec.Secp
/-
  Specification side of BIP32 (core Lean only).

  * the derivation-path grammar of `DeriveChildFromPath` (components `[0-9]+` or `[0-9]+'`,
    separated by '/'), written independently of the model's parser;
  * (further below) the key-derivation functions of BIP-0032 over VALUES.
-/
namespace GoBk.Spec
open GoBk Bytes

/-! ### path grammar -/

/-- positional value of a string of ASCII decimal digits -/
def decValue : Bytes → Nat
  | [] => 0
  | d :: ds => (d.toNat - 48) * 10 ^ ds.length + decValue ds

/-- a non-empty string of ASCII decimal digits -/
def IsDecimal (ds : Bytes) : Prop := ds ≠ [] ∧ ∀ d ∈ ds, 48 ≤ d.toNat ∧ d.toNat ≤ 57

instance (ds : Bytes) : Decidable (IsDecimal ds) := by unfold IsDecimal; exact inferInstance

/-- One path component denotes the index `n`:
    `ddd`  (decimal, at most 2^32-1)          ↦ n = ddd
    `ddd'` (decimal, less than 2^31, one tick) ↦ n = ddd + 2^31. -/
def IsPathComponent (c : Bytes) (n : Nat) : Prop :=
  ∃ ds : Bytes, IsDecimal ds ∧
    ((c = ds ∧ n = decValue ds ∧ n < 2 ^ 32) ∨
     (c = ds ++ [39] ∧ decValue ds < 2 ^ 31 ∧ n = decValue ds + 2 ^ 31))

/-- the same as a function -/
def pathComponent (c : Bytes) : Option Nat :=
  if c.getLast? = some 39 then
    (if IsDecimal c.dropLast ∧ decValue c.dropLast < 2 ^ 31 then some (decValue c.dropLast + 2 ^ 31) else none)
  else
    (if IsDecimal c ∧ decValue c < 2 ^ 32 then some (decValue c) else none)

/-- components joined by '/' -/
def joinPath : List Bytes → Bytes
  | [] => []
  | [c] => c
  | c :: cs => c ++ 47 :: joinPath cs

/-- The path string `p` denotes the index sequence `is`: the empty string denotes the empty
sequence; otherwise `p` is `c₁/c₂/…/cₙ` (n ≥ 1) with every `cⱼ` a component denoting `isⱼ`. -/
def IsPath (p : Bytes) (is : List Nat) : Prop :=
  (p = [] ∧ is = []) ∨
  (p ≠ [] ∧ ∃ comps : List (Bytes × Nat),
      p = joinPath (comps.map (·.1)) ∧ is = comps.map (·.2) ∧ ∀ cn ∈ comps, IsPathComponent cn.1 cn.2)


/-! ### BIP-0032 key derivation, over values

Transcribed from https://github.com/bitcoin/bips/blob/master/bip-0032.mediawiki
("Conventions", "Child key derivation (CKD) functions", "Master key generation",
"Serialization format").  The hash functions are parameters. -/

namespace Bip32

/-- `ser32(i)`: a 32-bit unsigned integer as 4 bytes, most significant byte first -/
def ser32 (i : Nat) : Bytes := natBEpad 4 i
/-- `ser256(p)`: the integer `p` as 32 bytes, most significant byte first -/
def ser256 (p : Nat) : Bytes := natBEpad 32 p
/-- `serP(P)`: SEC1 compressed form `(0x02 or 0x03) ‖ ser256(x)`, the header byte by the parity of `y` -/
def serP (K : Pt) : Bytes := (if K.2 % 2 = 0 then (0x02 : UInt8) else 0x03) :: ser256 K.1
/-- `parse256(p)`: a 32-byte sequence as a 256-bit number, most significant byte first -/
def parse256 (b : Bytes) : Nat := beNat b
/-- `point(p)`: the coordinate pair of `p · G` -/
def point (p : Nat) : Pt := smul p G

/-- "Bitcoin seed" -/
def seedKey : Bytes := [0x42, 0x69, 0x74, 0x63, 0x6f, 0x69, 0x6e, 0x20, 0x73, 0x65, 0x65, 0x64]

/-- the first 32 bits of the key identifier `HASH160(serP(K))` -/
def fingerprint (hash160 : Bytes → Bytes) (K : Pt) : Bytes := (hash160 (serP K)).take 4

/-- `I` of `CKDpriv((k_par, c_par), i)`: hardened `HMAC-SHA512(c_par, 0x00 ‖ ser256(k_par) ‖ ser32(i))`,
normal `HMAC-SHA512(c_par, serP(point(k_par)) ‖ ser32(i))`. -/
def ckdPrivI (hmac512 : Bytes → Bytes → Bytes) (kpar : Nat) (cpar : Bytes) (i : Nat) : Bytes :=
  if i ≥ 2 ^ 31 then hmac512 cpar ([0x00] ++ ser256 kpar ++ ser32 i)
  else hmac512 cpar (serP (point kpar) ++ ser32 i)

/-- `CKDpriv((k_par, c_par), i) → (k_i, c_i)`; `none`: "the resulting key is invalid" -/
def ckdPriv (hmac512 : Bytes → Bytes → Bytes) (kpar : Nat) (cpar : Bytes) (i : Nat) : Option (Nat × Bytes) :=
  let I := ckdPrivI hmac512 kpar cpar i
  let IL := I.take 32
  let IR := I.drop 32
  let ki := (parse256 IL + kpar) % N
  if parse256 IL ≥ N ∨ ki = 0 then none else some (ki, IR)

/-- `CKDpub((K_par, c_par), i) → (K_i, c_i)`; `none`: hardened child ("return failure") or
"the resulting key is invalid" -/
def ckdPub (hmac512 : Bytes → Bytes → Bytes) (Kpar : Pt) (cpar : Bytes) (i : Nat) : Option (Pt × Bytes) :=
  if i ≥ 2 ^ 31 then none else
  let I := hmac512 cpar (serP Kpar ++ ser32 i)
  let IL := I.take 32
  let IR := I.drop 32
  let Ki := padd (point (parse256 IL)) Kpar
  if parse256 IL ≥ N ∨ Ki = inf then none else some (Ki, IR)

/-- `CKDpriv` iterated along a path `i₁/i₂/…` ("m/i₁/i₂/…" of the BIP) -/
def ckdPrivPath (hmac512 : Bytes → Bytes → Bytes) : Nat × Bytes → List Nat → Option (Nat × Bytes)
  | kc, [] => some kc
  | kc, i :: is =>
    match ckdPriv hmac512 kc.1 kc.2 i with
    | none => none
    | some kc' => ckdPrivPath hmac512 kc' is

/-- the neutered version `N((k, c)) → (K, c)` -/
def neuter (k : Nat) (c : Bytes) : Pt × Bytes := (point k, c)

/-- master key generation from a seed `S` of 128 to 512 bits -/
def master (hmac512 : Bytes → Bytes → Bytes) (S : Bytes) : Option (Nat × Bytes) :=
  if S.length < 16 ∨ S.length > 64 then none else
  let I := hmac512 seedKey S
  let IL := I.take 32
  let IR := I.drop 32
  if parse256 IL = 0 ∨ parse256 IL ≥ N then none else some (parse256 IL, IR)

/-- the 78-byte serialization: version ‖ depth ‖ parent fingerprint ‖ child number ‖ chain code ‖
(`0x00 ‖ ser256(k)` for private keys, `serP(K)` for public keys) -/
def serialize (version : Bytes) (depth : Nat) (parentFP : Bytes) (childNum : Nat) (c : Bytes)
    (keyData : Bytes) : Bytes :=
  version ++ [UInt8.ofNat depth] ++ parentFP ++ ser32 childNum ++ c ++ keyData

end Bip32

end GoBk.Spec
