import GoBk.Base.Bytes
import GoBk.Spec.Secp
/-
  Specification side of BIP32 (core Lean only).

  * the derivation-path grammar of `DeriveChildFromPath` (components `[0-9]+` or `[0-9]+'`,
    separated by '/'), written independently of the model's parser;
  * (further below) the key-derivation functions of BIP-0032 over VALUES.
-/
namespace GoBk.Spec
open GoBk Bytes

/-! ### path grammar -/

/-- positional value of a string of ASCII decimal digits -/
def decValue : Bytes → Nat
  | [] => 0
  | d :: ds => (d.toNat - 48) * 10 ^ ds.length + decValue ds

/-- a non-empty string of ASCII decimal digits -/
def IsDecimal (ds : Bytes) : Prop := ds ≠ [] ∧ ∀ d ∈ ds, 48 ≤ d.toNat ∧ d.toNat ≤ 57

instance (ds : Bytes) : Decidable (IsDecimal ds) := by unfold IsDecimal; exact inferInstance

/-- One path component denotes the index `n`:
    `ddd`  (decimal, at most 2^32-1)          ↦ n = ddd
    `ddd'` (decimal, less than 2^31, one tick) ↦ n = ddd + 2^31. -/
def IsPathComponent (c : Bytes) (n : Nat) : Prop :=
  ∃ ds : Bytes, IsDecimal ds ∧
    ((c = ds ∧ n = decValue ds ∧ n < 2 ^ 32) ∨
     (c = ds ++ [39] ∧ decValue ds < 2 ^ 31 ∧ n = decValue ds + 2 ^ 31))

/-- the same as a function -/
def pathComponent (c : Bytes) : Option Nat :=
  if c.getLast? = some 39 then
    (if IsDecimal c.dropLast ∧ decValue c.dropLast < 2 ^ 31 then some (decValue c.dropLast + 2 ^ 31) else none)
  else
    (if IsDecimal c ∧ decValue c < 2 ^ 32 then some (decValue c) else none)

/-- components joined by '/' -/
def joinPath : List Bytes → Bytes
  | [] => []
  | [c] => c
  | c :: cs => c ++ 47 :: joinPath cs

/-- The path string `p` denotes the index sequence `is`: the empty string denotes the empty
sequence; otherwise `p` is `c₁/c₂/…/cₙ` (n ≥ 1) with every `cⱼ` a component denoting `isⱼ`. -/
def IsPath (p : Bytes) (is : List Nat) : Prop :=
  (p = [] ∧ is = []) ∨
  (p ≠ [] ∧ ∃ comps : List (Bytes × Nat),
      p = joinPath (comps.map (·.1)) ∧ is = comps.map (·.2) ∧ ∀ cn ∈ comps, IsPathComponent cn.1 cn.2)

end GoBk.Spec
