/-
  GoBk.Spec.Secp — the secp256k1 domain parameters as the standard (SEC 2) states them,
  and an executable affine reference implementation of the group law on `Nat × Nat`
  with `(0,0)` standing for the point at infinity (the convention of Go's `elliptic.Curve`).
  Core Lean only.  The values are compared with the ones regenerated from /repo in
  `GoBk.Gen.Consts` (theorem `Gen.consts_eq_spec`).
-/
namespace GoBk.Spec

def P  : Nat := 0xFFFFFFFFFFFFFFFFFFFFFFFFFFFFFFFFFFFFFFFFFFFFFFFFFFFFFFFEFFFFFC2F
def N  : Nat := 0xFFFFFFFFFFFFFFFFFFFFFFFFFFFFFFFEBAAEDCE6AF48A03BBFD25E8CD0364141
def Gx : Nat := 0x79BE667EF9DCBBAC55A06295CE870B07029BFCDB2DCE28D959F2815B16F81798
def Gy : Nat := 0x483ADA7726A3C4655DA4FBFC0E1108A8FD17B448A68554199C47D08FFB10D4B8
def B  : Nat := 7

/-- `b^e mod m` by square-and-multiply; `fuel` bounds the number of bits of `e` consumed. -/
def powModAux (m : Nat) : Nat → Nat → Nat → Nat → Nat
  | 0, _, _, acc => acc
  | fuel+1, b, e, acc =>
    if e = 0 then acc
    else powModAux m fuel (b * b % m) (e / 2) (if e % 2 = 1 then acc * b % m else acc)

def powMod (b e m : Nat) : Nat := powModAux m (e.log2 + 1) (b % m) e (1 % m)

/-- inverse modulo a prime `p` (Fermat); `0 ↦ 0`. -/
def invMod (a p : Nat) : Nat := powMod a (p - 2) p

abbrev Pt := Nat × Nat

def inf : Pt := (0, 0)
def G : Pt := (Gx, Gy)

def isInf (a : Pt) : Bool := a.1 == 0 && a.2 == 0

/-- `y² = x³ + 7 (mod P)`; coordinates are expected in `[0,P)`. -/
def onCurve (a : Pt) : Bool := (a.2 * a.2) % P == (a.1 * a.1 * a.1 + B) % P

/-- a valid group element: infinity, or an affine point with reduced coordinates on the curve -/
def valid (a : Pt) : Bool := isInf a || (a.1 < P && a.2 < P && onCurve a)

def pneg (a : Pt) : Pt := if isInf a then inf else (a.1, (P - a.2) % P)

def pdouble (a : Pt) : Pt :=
  if isInf a || a.2 == 0 then inf
  else
    let l := (3 * a.1 * a.1) % P * invMod (2 * a.2 % P) P % P
    let x := (l * l + 2 * (P - a.1)) % P
    let y := (l * (a.1 + (P - x)) + (P - a.2)) % P
    (x, y)

def padd (a b : Pt) : Pt :=
  if isInf a then b
  else if isInf b then a
  else if a.1 == b.1 then
    (if a.2 == b.2 then pdouble a else inf)
  else
    let l := ((b.2 + (P - a.2)) % P) * invMod ((b.1 + (P - a.1)) % P) P % P
    let x := (l * l + (P - a.1) + (P - b.1)) % P
    let y := (l * (a.1 + (P - x)) + (P - a.2)) % P
    (x, y)

/-- `k • a` by the plain binary method (most significant bit first), structural on fuel. -/
def smulAux (a : Pt) : Nat → Nat → Pt
  | 0, _ => inf
  | fuel+1, k => if k = 0 then inf
      else
        let h := smulAux a fuel (k / 2)
        let d := pdouble h
        if k % 2 = 1 then padd d a else d

def smul (k : Nat) (a : Pt) : Pt := smulAux a (k.log2 + 1) k

/-- square-root candidate `a^((P+1)/4)`; it is a root iff `a` is a quadratic residue (P ≡ 3 mod 4). -/
def sqrtCand (a : Nat) : Nat := powMod a ((P + 1) / 4) P

/-- SEC1 decompression: the `y` with `y² = x³+7` and the requested parity, if any; requires `x < P`. -/
def liftX (x : Nat) (odd : Bool) : Option Nat :=
  if x ≥ P then none else
  let c := (x * x * x + B) % P
  let y := sqrtCand c
  if y * y % P != c then none else
  let y' := if (y % 2 == 1) == odd then y else (P - y) % P
  if (y' % 2 == 1) == odd then some y' else none

end GoBk.Spec
