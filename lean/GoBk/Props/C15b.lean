import GoBk.Props.C15
import GoBk.Props.Prims
import GoBk.Proofs.PrimsExtra
/-!
# C15, instantiated: the theorems of `Props/C15.lean` for the EXECUTABLE primitives

`Props/C15.lean` is parametric in `pr : Prims`.  Three `_agrees` theorems carry a hypothesis about the primitives:
  * `childC_agrees`, `derivePathC_agrees`: HMAC-SHA512 returns 64 bytes — `Prims.real_hmac512_len`;
  * `eciesDecryptC_agrees`: `∀ k iv x, (pr.cbcDec k iv x).length = x.length`.  This is NOT a field of `PrimsOK` and is
    FALSE of `realPrims` (`PrimsExtra.real_cbcDec_len_unaligned_false`: like Go's `CryptBlocks`, the executable CBC
    ignores a trailing partial block), so it cannot be discharged as stated.  Its CONCLUSION nevertheless holds of
    `realPrims`: `Ecies.decrypt` hands only block-aligned data to `cbcDec`, on which the length is preserved
    (`PrimsExtra.real_decrypt_fitPrims`).  `real_eciesDecryptC_agrees` is proved that way, with no hypothesis left.
The `_total` / `_agrees` statements that mention `pr` without assuming anything are restated at `realPrims`.
-/
namespace GoBk.Props.C15
open GoBk Bytes Spec Checked GoBk.Props.Prims

/-! ### theorems that assumed a fact about `pr` -/

/-- conclusion of `eciesDecryptC_agrees` for `realPrims`; its hypothesis `hdec` is false of `realPrims`, the proof goes
through `eciesDecryptC_agrees_fit` and `PrimsExtra.real_decrypt_fitPrims` -/
theorem real_eciesDecryptC_agrees (d : Nat) (inp : Bytes) :
    eciesDecryptC realPrims d inp = ofOption (Ecies.decrypt realPrims d inp) := by
  rw [eciesDecryptC_agrees_fit, GoBk.Proofs.PrimsExtra.real_decrypt_fitPrims]

/-- `eciesDecryptC_agrees` under the hypothesis that is actually needed: `cbcDec` preserves the length of
WHOLE-BLOCK input (true of every CBC; the unrestricted form assumed in `C15.eciesDecryptC_agrees` is false of the
executable one) -/
theorem eciesDecryptC_agrees_aligned (pr : Prims)
    (hdec : ∀ k iv x, x.length % 16 = 0 → (pr.cbcDec k iv x).length = x.length) (d : Nat) (inp : Bytes) :
    eciesDecryptC pr d inp = ofOption (Ecies.decrypt pr d inp) := by
  rw [eciesDecryptC_agrees_fit, GoBk.Proofs.PrimsExtra.decrypt_fitPrims pr hdec]

/-- `childC_agrees` for `realPrims` (hypothesis `h512` discharged by `real_hmac512_len`) -/
theorem real_childC_agrees (k : Bip32.XKey) (i : Nat) :
    childC realPrims k i = ofExcept (Bip32.child realPrims k i) :=
  childC_agrees realPrims real_hmac512_len k i

/-- `derivePathC_agrees` for `realPrims` (hypothesis `h512` discharged by `real_hmac512_len`) -/
theorem real_derivePathC_agrees (k : Bip32.XKey) (p : Bytes) :
    derivePathC realPrims k p = ofExcept (Bip32.deriveChildFromPath realPrims k p) :=
  derivePathC_agrees realPrims real_hmac512_len k p

/-! ### headline statements (no primitive hypothesis), at `realPrims` -/

/-- `eciesDecryptC_total` for `realPrims` -/
theorem real_eciesDecryptC_total (d : Nat) (inp : Bytes) : eciesDecryptC realPrims d inp ≠ .panic :=
  eciesDecryptC_total realPrims d inp

/-- `eciesDecryptC_agrees_fit` for `realPrims` -/
theorem real_eciesDecryptC_agrees_fit (d : Nat) (inp : Bytes) :
    eciesDecryptC realPrims d inp = ofOption (Ecies.decrypt (fitPrims realPrims) d inp) :=
  eciesDecryptC_agrees_fit realPrims d inp

/-- `checkDecodeC_agrees` for `realPrims` -/
theorem real_checkDecodeC_agrees (s : Bytes) :
    checkDecodeC realPrims s = ofOption (Base58.checkDecode realPrims s) := checkDecodeC_agrees realPrims s
/-- `checkDecodeC_total` for `realPrims` -/
theorem real_checkDecodeC_total (s : Bytes) : checkDecodeC realPrims s ≠ .panic :=
  checkDecodeC_total realPrims s

/-- `decodeWIFC_agrees` for `realPrims` -/
theorem real_decodeWIFC_agrees (s : Bytes) :
    decodeWIFC realPrims s = ofOption (Wif.decodeWIF realPrims s) := decodeWIFC_agrees realPrims s
/-- `decodeWIFC_total` for `realPrims` -/
theorem real_decodeWIFC_total (s : Bytes) : decodeWIFC realPrims s ≠ .panic := decodeWIFC_total realPrims s

/-- `fromStringC_agrees` for `realPrims` -/
theorem real_fromStringC_agrees (s : Bytes) :
    fromStringC realPrims s = ofExcept (Bip32.fromString realPrims s) := fromStringC_agrees realPrims s
/-- `fromStringC_total` for `realPrims` -/
theorem real_fromStringC_total (s : Bytes) : fromStringC realPrims s ≠ .panic := fromStringC_total realPrims s

/-- `childC_total` for `realPrims` -/
theorem real_childC_total (k : Bip32.XKey) (i : Nat) : childC realPrims k i ≠ .panic :=
  childC_total realPrims k i

/-- `derivePathC_total` for `realPrims` -/
theorem real_derivePathC_total (k : Bip32.XKey) (p : Bytes) : derivePathC realPrims k p ≠ .panic :=
  derivePathC_total realPrims k p

/-- `mnemonicToSeedC_agrees` for `realPrims` -/
theorem real_mnemonicToSeedC_agrees (words pass : Bytes) :
    mnemonicToSeedC realPrims words pass = ofOption (Bip39.mnemonicToSeed realPrims words pass) :=
  mnemonicToSeedC_agrees realPrims words pass
/-- `mnemonicToSeedC_total` for `realPrims` -/
theorem real_mnemonicToSeedC_total (words pass : Bytes) : mnemonicToSeedC realPrims words pass ≠ .panic :=
  mnemonicToSeedC_total realPrims words pass

/-- `mnemonicC_agrees` for `realPrims` -/
theorem real_mnemonicC_agrees (ent pass : Bytes) :
    mnemonicC realPrims ent pass = ofOption (Bip39.mnemonic realPrims ent pass) :=
  mnemonicC_agrees realPrims ent pass
/-- `mnemonicC_total` for `realPrims` -/
theorem real_mnemonicC_total (ent pass : Bytes) : mnemonicC realPrims ent pass ≠ .panic :=
  mnemonicC_total realPrims ent pass

/-- `cfbDecryptC_agrees` for `realPrims` -/
theorem real_cfbDecryptC_agrees (key ct : Bytes) :
    cfbDecryptC realPrims key ct = ofOption (Ecies.cfbDecrypt realPrims key ct) :=
  cfbDecryptC_agrees realPrims key ct
/-- `cfbDecryptC_total` for `realPrims` -/
theorem real_cfbDecryptC_total (key ct : Bytes) : cfbDecryptC realPrims key ct ≠ .panic :=
  cfbDecryptC_total realPrims key ct

/-- `isValidC_agrees` for `realPrims` -/
theorem real_isValidC_agrees (payload : Bytes) (sig pk : Option Bytes) (mime : Bytes) :
    isValidC realPrims payload sig pk mime = ofEnvRes (Envelope.isValid realPrims payload sig pk mime) :=
  isValidC_agrees realPrims payload sig pk mime
/-- `isValidC_total` for `realPrims` -/
theorem real_isValidC_total (payload : Bytes) (sig pk : Option Bytes) (mime : Bytes) :
    isValidC realPrims payload sig pk mime ≠ .panic :=
  isValidC_total realPrims payload sig pk mime

end GoBk.Props.C15

section
open GoBk.Props.C15
#print axioms real_eciesDecryptC_agrees
#print axioms real_childC_agrees
#print axioms real_derivePathC_agrees
#print axioms real_eciesDecryptC_total
#print axioms real_eciesDecryptC_agrees_fit
#print axioms real_checkDecodeC_agrees
#print axioms real_checkDecodeC_total
#print axioms real_decodeWIFC_agrees
#print axioms real_decodeWIFC_total
#print axioms real_fromStringC_agrees
#print axioms real_fromStringC_total
#print axioms real_childC_total
#print axioms real_derivePathC_total
#print axioms real_mnemonicToSeedC_agrees
#print axioms real_mnemonicToSeedC_total
#print axioms real_mnemonicC_agrees
#print axioms real_mnemonicC_total
#print axioms real_cfbDecryptC_agrees
#print axioms real_cfbDecryptC_total
#print axioms real_isValidC_agrees
#print axioms real_isValidC_total
end
#print axioms GoBk.Props.C15.eciesDecryptC_agrees_aligned
