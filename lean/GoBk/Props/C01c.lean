import GoBk.Proofs.TableProof
/-
  C01 (byte-point table) — `ScalarBaseMult(k)` adds `bytePoints[diff+i][k[i]]` for every byte of the
  scalar, so C01 ("… return exactly the affine coordinates of the group-law result …") needs the
  pre-computed table to be right:

      bytePoints[i][b]  is a Jacobian representation of  (b · 256^(31-i)) • G      (i < 32, b < 256).

  OBJECT.  `GoBk.Gen.Table.get i b j` (j = 0,1,2 for X,Y,Z) is REGENERATED on every run by /verif/gen
  from the base64+zlib string constant of /repo/bec/secp256k1.go, decoded exactly as
  `loadS256BytePoints` (/repo/bec/precompute.go) does; a word vector `f : FV` (10 × uint32, base
  2^26) has the value `f.val = Σ nᵢ·2^(26 i)` (`GoBk.Proofs.FieldDefs`).

  METHOD.  Nothing about the contents is assumed.  `GoBk.Proofs.TableCheck` evaluates an
  inversion-free Boolean checker on all 8192 entries IN THE KERNEL (`decide +kernel`, one lemma per
  row; a changed word makes the row's lemma fail, see the sensitivity note in that file), and `GoBk.Proofs.TableProof` proves once that the checker implies the statements
  below (induction with `FastCurve.jadd_rep`; the group is Mathlib's `E.Point`, `Spec.smul` is the
  core-Lean reference proved equal to it in `CurveSpec`).

  WHAT THE TABLE REALLY HOLDS.
    * `b = 0`: all thirty words are 0, i.e. (X,Y,Z) = (0,0,0) (Z = 0: infinity).
    * `b ≠ 0`: X and Y are canonical word vectors (`Canon`), all three values are `< P`, but Z is only
      magnitude 1 in the relaxed sense `MagLe 1` (words ≤ 2^26 + 2^20): three entries of the shipped
      table — (1,185), (8,121), (15,170) — have Z word 2 ≥ 2^26 (67109977, 67114770, 67112040), the
      un-renormalised carry of `Mul`/`Square`.  `Canon` for Z is therefore FALSE and not claimed.

  NOT CLAIMED HERE: that `addJacobian`/`fieldJacobianToBigAffine` of /repo compute `Fast.jadd`/
  `Fast.toAffine` (Gen/CurveIR analyses); `tableMul_exact` is the group-level statement of the loop.
-/
namespace GoBk.Props.C01
open GoBk Bytes Spec GoBk.Proofs GoBk.Proofs.Table GoBk.Gen.Field

/-- **Every entry of the byte-point table is correct.**  For `i < 32`, `b < 256`, with
`(X, Y, Z) = (get i b 0, get i b 1, get i b 2)`:
`Canon X ∧ Canon Y ∧ MagLe 1 Z`, all values `< P`; if `b = 0` all words are zero; if `b ≠ 0` then
`Z.val % P ≠ 0` and `Fast.toAffine (X.val, Y.val, Z.val)` — the affine point
`(X·Z⁻², Y·Z⁻³) mod P` — equals `Spec.smul (b * 256^(31-i)) Spec.G`. -/
theorem table_correct : ∀ i, i < 32 → ∀ b, b < 256 → TableRep i b :=
  GoBk.Proofs.Table.table_correct

/-- the same, spelled out for `b ≠ 0` -/
theorem table_entry_affine (i b : Nat) (hi : i < 32) (hb : b < 256) (hb0 : b ≠ 0) :
    (Gen.Table.get i b 2).val % Proofs.Field.P ≠ 0 ∧
    Fast.toAffine ((Gen.Table.get i b 0).val, (Gen.Table.get i b 1).val, (Gen.Table.get i b 2).val)
      = Spec.smul (b * 256 ^ (31 - i)) Spec.G :=
  (GoBk.Proofs.Table.table_correct i hi b hb).2.2.2 hb0

/-- word-level facts: X, Y canonical, Z magnitude 1, values fully reduced -/
theorem table_entry_words (i b : Nat) (hi : i < 32) (hb : b < 256) :
    (Proofs.Field.Canon (Gen.Table.get i b 0) ∧ Proofs.Field.Canon (Gen.Table.get i b 1) ∧
      Proofs.Field.MagLe 1 (Gen.Table.get i b 2)) ∧
    ((Gen.Table.get i b 0).val < Proofs.Field.P ∧ (Gen.Table.get i b 1).val < Proofs.Field.P ∧
      (Gen.Table.get i b 2).val < Proofs.Field.P) :=
  ⟨(GoBk.Proofs.Table.table_correct i hi b hb).1, (GoBk.Proofs.Table.table_correct i hi b hb).2.1⟩

/-- the entries for the zero byte are all-zero words -/
theorem table_entry_zero (i : Nat) (hi : i < 32) (j : Nat) (hj : j < 3) :
    Gen.Table.get i 0 j = ⟨0, 0, 0, 0, 0, 0, 0, 0, 0, 0⟩ := by
  have h := (GoBk.Proofs.Table.table_correct i hi 0 (by omega)).2.2.1 rfl
  match j, hj with
  | 0, _ => exact h.1
  | 1, _ => exact h.2.1
  | 2, _ => exact h.2.2

/-- Mathlib form, uniform in `b` (also `b = 0`): the triple of field values represents
(`FastCurve.Rep`: `Z = 0 ∧ Q = 0`, or `Z ≠ 0 ∧ Q = (X/Z², Y/Z³)` in `ZMod P`) the point
`(b · 256^(31-i)) • G` of Mathlib's group `E.Point`. -/
theorem table_entry_rep (i b : Nat) (hi : i < 32) (hb : b < 256) :
    Rep (entry i b) ((b * 256 ^ (31 - i)) • Gpt) :=
  table_rep i hi b hb

/-- the window sum of `ScalarBaseMult` at the level of the group law: adding (with `Fast.jadd`,
starting from the all-zero triple) the entries `bytePoints[32 - len k + i][k[i]]` and converting to
affine coordinates gives `beNat k • G`, for every scalar of at most 32 bytes. -/
theorem tableMul_exact (k : Bytes) (hk : k.length ≤ 32) :
    Fast.toAffine (tableMul k) = enc (beNat k • Gpt) ∧
    Fast.toAffine (tableMul k) = Spec.smul (beNat k) Spec.G := by
  have h := toAffine_rep (tableMul_rep k hk)
  exact ⟨h, by rw [h, ← enc_Gpt, smul_enc]⟩

/-- non-vacuity / orientation: row 31 is the low byte (entry (31,1) is `G` itself), row 0 the
high byte (entry (0,1) is `2^248 • G`). -/
theorem table_entry_31_1 :
    Fast.toAffine ((Gen.Table.get 31 1 0).val, (Gen.Table.get 31 1 1).val, (Gen.Table.get 31 1 2).val)
      = Spec.G := by
  have h := (table_entry_affine 31 1 (by omega) (by omega) (by omega)).2
  rw [h]
  exact smul_one' valid_G

theorem table_entry_0_1 :
    Fast.toAffine ((Gen.Table.get 0 1 0).val, (Gen.Table.get 0 1 1).val, (Gen.Table.get 0 1 2).val)
      = Spec.smul (2 ^ 248) Spec.G := by
  have h := (table_entry_affine 0 1 (by omega) (by omega) (by omega)).2
  rw [h]
  congr 1

end GoBk.Props.C01

#print axioms GoBk.Props.C01.table_correct
#print axioms GoBk.Props.C01.table_entry_rep
#print axioms GoBk.Props.C01.tableMul_exact
