import GoBk.Props.C13
import GoBk.Props.Prims
/-!
# C13, instantiated: the base58check theorems of `Props/C13.lean` for the EXECUTABLE SHA-256

`Props/C13.lean` is parametric in `pr : Prims`; the base58check theorems assume that `pr.sha256` returns 32 bytes.
`Props/Prims.lean` proves that for `realPrims` (`real_sha256_len`).  Here they are restated for the SHA-256 that is
actually executed, with no hypothesis about it left.  (The base58 theorems do not mention the primitives.)
-/
namespace GoBk.Props.C13
open GoBk Bytes Base58 GoBk.Props.Prims

/-- `checkDecode_checkEncode` for `realPrims` (hypothesis on SHA-256 discharged) -/
theorem real_checkDecode_checkEncode (p : Bytes) (v : UInt8) :
    checkDecode realPrims (checkEncode realPrims p v) = some (p, v) :=
  checkDecode_checkEncode realPrims real_sha256_len p v

/-- `checkDecode_iff` for `realPrims` (hypothesis on SHA-256 discharged) -/
theorem real_checkDecode_iff (s p : Bytes) (v : UInt8) :
    checkDecode realPrims s = some (p, v) ↔
      (let d := decode s
       d.length ≥ 5 ∧ d = v :: p ++ (realPrims.sha256d (v :: p)).take 4) :=
  checkDecode_iff realPrims real_sha256_len s p v

/-- `checkDecode_none_iff` for `realPrims` (hypothesis on SHA-256 discharged) -/
theorem real_checkDecode_none_iff (s : Bytes) :
    checkDecode realPrims s = none ↔
      ¬ ∃ p v, (decode s).length ≥ 5 ∧ decode s = v :: p ++ (realPrims.sha256d (v :: p)).take 4 :=
  checkDecode_none_iff realPrims real_sha256_len s

/-- `checkDecode_checkEncode_ok` for `realPrims` (`PrimsOK` discharged) -/
theorem real_checkDecode_checkEncode_ok (p : Bytes) (v : UInt8) :
    checkDecode realPrims (checkEncode realPrims p v) = some (p, v) :=
  checkDecode_checkEncode_ok realPrims realPrims_ok p v

end GoBk.Props.C13

#print axioms GoBk.Props.C13.real_checkDecode_checkEncode
#print axioms GoBk.Props.C13.real_checkDecode_iff
#print axioms GoBk.Props.C13.real_checkDecode_none_iff
#print axioms GoBk.Props.C13.real_checkDecode_checkEncode_ok
