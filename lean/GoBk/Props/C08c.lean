import GoBk.Props.C08b
/-!
# C08, continued: losslessness read as injectivity

* `DerivePath` never maps two 64-bit counters to the same path (corollary of `deriveNumber_derivePath`);
* two well-formed extended keys with the same `String()` are the same key up to the left-padding of the private scalar
  (corollary of `fromString_toString`): the string loses nothing else.
-/
namespace GoBk.Props.C08
open GoBk Bytes Bip32 GoBk.Props.Prims

/-- `DerivePath` is injective on all 2^64 counters -/
theorem derivePath_injective (i j : UInt64) (h : Bip32.derivePath i = Bip32.derivePath j) : i = j := by
  have := congrArg Bip32.deriveNumber h
  rw [deriveNumber_derivePath, deriveNumber_derivePath] at this
  exact Option.some.inj this

/-- `String()` determines a well-formed key up to `normalize` -/
theorem toString_injective (pr : Prims) (ok : PrimsOK pr) (k k' : XKey) (h : WF k) (h' : WF k')
    (e : Bip32.toString pr k = Bip32.toString pr k') : Bip32.normalize k = Bip32.normalize k' := by
  have := congrArg (Bip32.fromString pr) e
  rw [fromString_toString pr ok k h, fromString_toString pr ok k' h'] at this
  exact Except.ok.inj this

/-- the same for the executable primitives, no hypothesis left -/
theorem real_toString_injective (k k' : XKey) (h : WF k) (h' : WF k')
    (e : Bip32.toString realPrims k = Bip32.toString realPrims k') : Bip32.normalize k = Bip32.normalize k' :=
  toString_injective realPrims realPrims_ok k k' h h' e

end GoBk.Props.C08

#print axioms GoBk.Props.C08.derivePath_injective
#print axioms GoBk.Props.C08.toString_injective
#print axioms GoBk.Props.C08.real_toString_injective
