import GoBk.Model.Bip39
import GoBk.Proofs.Bip39Lemmas
/-
  C07 — BIP39 mnemonics and seeds follow the specification.
  Property theorems only; proofs are in `GoBk.Proofs.Bip39Lemmas`.

  "For every entropy of 16, 20, 24, 28 or 32 bytes and every passphrase that is already in Unicode
   NFKD form (every ASCII passphrase in particular), Mnemonic returns the BIP39 English sentence
   (entropy bits followed by the first ENT/32 bits of its SHA-256, cut into 11-bit word indices) and
   the seed PBKDF2-HMAC-SHA512(sentence, 'mnemonic'+passphrase, 2048 rounds, 64 bytes);
   MnemonicToSeed on that sentence and passphrase returns the same seed. Entropy of any other length,
   sentences whose word count is not 12, 15, 18, 21 or 24, and sentences containing any string that
   is not one of the 2048 list words are rejected with an error."

  * SHA-256 and PBKDF2-HMAC-SHA512 are parameters (`pr : Prims`); nothing is assumed about them.
  * The code does not normalise the passphrase: the salt is the bytes "mnemonic" followed by the
    passphrase bytes as given, for EVERY byte string (this is the BIP39 salt when the passphrase is
    in NFKD form, which is the restriction in the property text).
  * `Gen.english` is the list regenerated from /repo/bip39/english.go; the facts about it
    (`english_length`, `english_sorted`, `english_lower`) are kernel computations on that list.
  * "A string that is not a list word" is any field produced by `strings.Fields`, i.e. any maximal
    run of bytes not containing a Unicode white-space rune (`fields_are_words`).
-/
namespace GoBk.Props.C07
open GoBk Bytes Bip39

/-! ### the regenerated word list -/

theorem english_length : Gen.english.length = 2048 := Bip39.english_length

/-- strictly increasing in Go's (bytewise) string order: adjacent entries … -/
theorem english_sorted_adjacent (i : Nat) (h : i + 1 < 2048) :
    bytesLt (wordAt i) (wordAt (i + 1)) = true := Bip39.english_sorted_adjacent i h

/-- … hence any two entries; in particular the list has no duplicates -/
theorem english_sorted : Gen.english.Pairwise (fun a b => bytesLt a b = true) :=
  Bip39.english_sorted_pairwise

theorem english_nodup : Gen.english.Nodup := Bip39.english_nodup

/-- `bytesLt` is Go's `<` on strings: a strict total order on byte strings -/
theorem bytesLt_strict_total :
    (∀ a, bytesLt a a = false) ∧
    (∀ a b c, bytesLt a b = true → bytesLt b c = true → bytesLt a c = true) ∧
    (∀ a b, bytesLt a b = false → bytesLt b a = false → a = b) :=
  ⟨bytesLt_irrefl, bytesLt_trans, bytesLt_total⟩

/-- every word is non-empty and consists of the ASCII letters a–z only … -/
theorem english_lower (w : Bytes) (h : w ∈ Gen.english) :
    w ≠ [] ∧ ∀ c ∈ w, (97 ≤ c && c ≤ 122) = true := Bip39.english_lower w h

/-- … so no word contains a byte at which a white-space rune (`spaceWidth ≠ 0`) could start -/
theorem english_no_space (w : Bytes) (h : w ∈ Gen.english) (c : UInt8) (hc : c ∈ w) (rest : Bytes) :
    spaceWidth (c :: rest) = 0 :=
  spaceWidth_of_not_start c rest (Bip39.english_no_space w h c hc)

/-- the list starts with "abandon" and ends with "zoo" -/
example : wordAt 0 = "abandon".toUTF8.toList ∧ wordAt 3 = "about".toUTF8.toList ∧
    wordAt 2047 = "zoo".toUTF8.toList := by decide +kernel

/-! ### `Mnemonic` -/

/-- For entropy of 16, 20, 24, 28 or 32 bytes `Mnemonic` returns the sentence whose `j`-th word
(`j = 0 … MS/11 − 1`) is the list word with index bits `[11j, 11j+11)` of the `MS = ENT + CS`-bit
number `V` = entropy bits followed by the first `CS = ENT/32` bits of SHA-256(entropy), joined by
single spaces, and the seed PBKDF2(sentence, "mnemonic" ‖ passphrase, 2048, 64). -/
theorem mnemonic_spec (pr : Prims) (ent pass : Bytes) (h : ent.length ∈ [16, 20, 24, 28, 32]) :
    let cs := ent.length * 8 / 32
    let ms := ent.length * 8 + cs
    let V := beNat ent * 2 ^ cs + ((pr.sha256 ent).headD 0).toNat >>> (8 - cs)
    let indices := (List.range (ms / 11)).map (fun j => (V >>> (11 * (ms / 11 - 1 - j))) % 2048)
    let sentence := List.intercalate [32] (indices.map wordAt)
    Bip39.mnemonic pr ent pass =
      some (sentence, pr.pbkdf2_512 sentence ([109, 110, 101, 109, 111, 110, 105, 99] ++ pass) 2048 64) := by
  intro cs ms V indices sentence
  rw [← mnemonicSalt_eq]
  exact mnemonic_of_len pr ent pass h

example : (List.replicate 16 (0 : UInt8)).length ∈ [16, 20, 24, 28, 32] := by decide
/-- the first Trezor vector: 16 zero bytes, SHA-256 starts with 0x37: "abandon"×11 "about" -/
example : specIndices (List.replicate 16 0) 0x37 = List.replicate 11 0 ++ [3] := by decide +kernel

/-- the salt is the ASCII string "mnemonic" followed by the passphrase -/
theorem salt_eq (pass : Bytes) : mnemonicSalt pass = "mnemonic".toUTF8.toList ++ pass := rfl

/-- the sentence has ENT/32·3 words: 12, 15, 18, 21 or 24, all of them list words -/
theorem mnemonic_words (ent : Bytes) (h0 : UInt8) (h : ent.length ∈ [16, 20, 24, 28, 32]) :
    fields (specSentence ent h0) = (specIndices ent h0).map wordAt ∧
    (specIndices ent h0).length = ent.length * 8 / 32 * 3 ∧
    ∀ i ∈ specIndices ent h0, i < 2048 := by
  refine ⟨?_, ?_, specIndices_lt ent h0⟩
  · apply fields_intercalate_english
    intro v hv
    obtain ⟨i, hi, rfl⟩ := List.mem_map.mp hv
    exact wordAt_mem i (specIndices_lt ent h0 i hi)
  · rw [specIndices_length]
    simp only [List.mem_cons, List.not_mem_nil, or_false] at h
    omega

/-- entropy of any other length is rejected -/
theorem mnemonic_rejects (pr : Prims) (ent pass : Bytes) (h : ent.length ∉ [16, 20, 24, 28, 32]) :
    Bip39.mnemonic pr ent pass = none := mnemonic_of_bad_len pr ent pass h

example : (List.replicate 17 (0 : UInt8)).length ∉ [16, 20, 24, 28, 32] := by decide

/-- `MnemonicToSeed` on the sentence and passphrase of `Mnemonic` returns the same seed -/
theorem toSeed_mnemonic (pr : Prims) (ent pass m seed : Bytes) (h : ent.length ∈ [16, 20, 24, 28, 32])
    (hm : Bip39.mnemonic pr ent pass = some (m, seed)) :
    Bip39.mnemonicToSeed pr m pass = some seed := by
  rw [mnemonic_of_len pr ent pass h] at hm
  simp only [Option.some.injEq, Prod.mk.injEq] at hm
  obtain ⟨rfl, rfl⟩ := hm
  exact mnemonicToSeed_specSentence pr ent pass _ h

/-- (the length hypothesis is implied by success) -/
theorem toSeed_mnemonic' (pr : Prims) (ent pass m seed : Bytes)
    (hm : Bip39.mnemonic pr ent pass = some (m, seed)) :
    Bip39.mnemonicToSeed pr m pass = some seed := by
  by_cases h : ent.length ∈ [16, 20, 24, 28, 32]
  · exact toSeed_mnemonic pr ent pass m seed h hm
  · rw [mnemonic_of_bad_len pr ent pass h] at hm; exact absurd hm (by simp)

/-! ### `sort.SearchStrings` and list membership -/

/-- `sort.SearchStrings(English, w)` returns the least index whose word is `>= w` (2048 if none) -/
theorem searchStrings_spec (w : Bytes) :
    searchStrings w ≤ 2048 ∧
    (∀ k, k < searchStrings w → bytesLt (wordAt k) w = true) ∧
    (∀ k, searchStrings w ≤ k → k < 2048 → bytesLt (wordAt k) w = false) :=
  Bip39.searchStrings_spec w

/-- the test `idx < len(English) && English[idx] == w` holds exactly for the 2048 list words -/
theorem member_iff (w : Bytes) :
    (let idx := searchStrings w; idx < 2048 ∧ wordAt idx = w) ↔ w ∈ Gen.english :=
  Bip39.member_iff w

/-! ### `strings.Fields` -/

/-- splitting a single-space-joined sentence of non-empty, space-free words gives the words back -/
theorem fields_intercalate (ws : List Bytes)
    (h : ∀ v ∈ ws, v ≠ [] ∧ ∀ c ∈ v, spaceStart c = false) :
    fields (List.intercalate [32] ws) = ws := Bip39.fields_intercalate ws h

example : ∀ v ∈ [[97, 98], [0x80, 0xff], [122]], v ≠ [] ∧ ∀ c ∈ v, spaceStart c = false := by decide

theorem fields_intercalate_english (ws : List Bytes) (h : ∀ v ∈ ws, v ∈ Gen.english) :
    fields (List.intercalate [32] ws) = ws := Bip39.fields_intercalate_english ws h

/-- every field is non-empty and contains none of the ASCII white-space bytes (9–13, 32) -/
theorem fields_are_words (s : Bytes) :
    ∀ f ∈ fields s, f ≠ [] ∧ ∀ c ∈ f, asciiSpace c = false := fields_nonempty_nospace s

/-! ### `MnemonicToSeed` -/

/-- acceptance: exactly the sentences with 12, 15, 18, 21 or 24 fields, all of them list words;
the seed is PBKDF2 over the sentence AS GIVEN (not re-joined) -/
theorem mnemonicToSeed_accepts_iff (pr : Prims) (s pass seed : Bytes) :
    Bip39.mnemonicToSeed pr s pass = some seed ↔
      (fields s).length ∈ [12, 15, 18, 21, 24] ∧ (∀ w ∈ fields s, w ∈ Gen.english) ∧
      seed = pr.pbkdf2_512 s ([109, 110, 101, 109, 111, 110, 105, 99] ++ pass) 2048 64 := by
  rw [← mnemonicSalt_eq]; exact mnemonicToSeed_eq_some_iff pr s pass seed

theorem mnemonicToSeed_rejects_count (pr : Prims) (s pass : Bytes)
    (h : (fields s).length ∉ [12, 15, 18, 21, 24]) : Bip39.mnemonicToSeed pr s pass = none := by
  cases hr : Bip39.mnemonicToSeed pr s pass with
  | none => rfl
  | some seed => exact absurd ((mnemonicToSeed_eq_some_iff pr s pass seed).mp hr).1 h

example : (fields "abandon  ability\tzoo".toUTF8.toList).length ∉ [12, 15, 18, 21, 24] := by
  decide +kernel

theorem mnemonicToSeed_rejects_nonword (pr : Prims) (s pass : Bytes)
    (h : ∃ w ∈ fields s, w ∉ Gen.english) : Bip39.mnemonicToSeed pr s pass = none := by
  cases hr : Bip39.mnemonicToSeed pr s pass with
  | none => rfl
  | some seed =>
    obtain ⟨w, hw, hn⟩ := h
    exact absurd (((mnemonicToSeed_eq_some_iff pr s pass seed).mp hr).2.1 w hw) hn

/-- a non-word sorting after the last list word ("zoo") is found in the fields and is not in the list -/
example : ∃ w ∈ fields "zoo zzz".toUTF8.toList, w ∉ Gen.english := by
  refine ⟨"zzz".toUTF8.toList, by decide +kernel, ?_⟩
  rw [← Bip39.member_iff]
  decide +kernel

end GoBk.Props.C07

section
open GoBk.Props.C07
#print axioms english_length
#print axioms english_sorted_adjacent
#print axioms english_sorted
#print axioms english_nodup
#print axioms bytesLt_strict_total
#print axioms english_lower
#print axioms english_no_space
#print axioms mnemonic_spec
#print axioms salt_eq
#print axioms mnemonic_words
#print axioms mnemonic_rejects
#print axioms toSeed_mnemonic
#print axioms toSeed_mnemonic'
#print axioms searchStrings_spec
#print axioms member_iff
#print axioms fields_intercalate
#print axioms fields_intercalate_english
#print axioms fields_are_words
#print axioms mnemonicToSeed_accepts_iff
#print axioms mnemonicToSeed_rejects_count
#print axioms mnemonicToSeed_rejects_nonword
end
