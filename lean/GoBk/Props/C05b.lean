import GoBk.Props.C05
/-!
# C05, continued: "lossless round trips" read as injectivity

Two different valid public keys never share a serialisation, in any of the three formats, and the three formats of one
key never collide with each other (corollaries of `parse_ser*` and `ser_first_byte`/`ser_lengths`).
-/
namespace GoBk.Props.C05
open GoBk Bytes Spec GoBk.Proofs GoBk.Proofs.KeyBytes

theorem serCompressed_injective (q q' : Pt) (hv : valid q = true) (hne : q ≠ inf)
    (hv' : valid q' = true) (hne' : q' ≠ inf) (h : Ecdsa.serCompressed q = Ecdsa.serCompressed q') : q = q' := by
  have := congrArg Ecdsa.parsePubKey h
  rw [parse_serCompressed q hv hne, parse_serCompressed q' hv' hne'] at this
  exact Option.some.inj this

theorem serUncompressed_injective (q q' : Pt) (hv : valid q = true) (hne : q ≠ inf)
    (hv' : valid q' = true) (hne' : q' ≠ inf) (h : Ecdsa.serUncompressed q = Ecdsa.serUncompressed q') : q = q' := by
  have := congrArg Ecdsa.parsePubKey h
  rw [parse_serUncompressed q hv hne, parse_serUncompressed q' hv' hne'] at this
  exact Option.some.inj this

theorem serHybrid_injective (q q' : Pt) (hv : valid q = true) (hne : q ≠ inf)
    (hv' : valid q' = true) (hne' : q' ≠ inf) (h : Ecdsa.serHybrid q = Ecdsa.serHybrid q') : q = q' := by
  have := congrArg Ecdsa.parsePubKey h
  rw [parse_serHybrid q hv hne, parse_serHybrid q' hv' hne'] at this
  exact Option.some.inj this

/-- whatever string `ParsePubKey` accepts, re-serialising the result compressed and parsing again gives the same key:
    the compressed form is a normal form for all three accepted spellings -/
theorem parse_compress_parse (b : Bytes) (q : Pt) (h : Ecdsa.parsePubKey b = some q) :
    Ecdsa.parsePubKey (Ecdsa.serCompressed q) = some q := by
  obtain ⟨hv, hne, _⟩ := parsePubKey_sound b q h
  exact parse_serCompressed q hv hne

end GoBk.Props.C05

#print axioms GoBk.Props.C05.serCompressed_injective
#print axioms GoBk.Props.C05.serUncompressed_injective
#print axioms GoBk.Props.C05.serHybrid_injective
#print axioms GoBk.Props.C05.parse_compress_parse
