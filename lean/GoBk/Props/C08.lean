import GoBk.Proofs.PathLemmas
/-
  C08 — derivation paths and extended-key strings.

  "…DeriveChildFromPath(p) equals folding Child over the indices that p denotes (n' meaning n+2^31
   with n < 2^31) and rejects every other path syntax, and DeriveNumber(DerivePath(i)) = i for
   every 64-bit i.  For every extended key k, NewKeyFromString(k.String()) is a key with the same
   serialisation, type, depth, fingerprint and the same children, public key and address as k;
   NewKeyFromString rejects strings of the wrong length, with a wrong checksum, with a private
   scalar outside [1,N-1] or with key bytes that are not a valid compressed public key."

  Property theorems only; proofs are in `GoBk.Proofs.PathLemmas` (paths) and
  `GoBk.Proofs.Bip32Lemmas` (strings).  The path grammar `Spec.IsPath`/`Spec.IsPathComponent` is
  stated in `GoBk.Spec.Bip32` independently of the model's parser.
-/
namespace GoBk.Props.C08
open GoBk Bytes Bip32

/-! ### path grammar -/

/-- one component: the model's `childInt` (after the regexp) is the specified function … -/
theorem childIndex_eq_spec (c : Bytes) : Bip32.childIndex c = Spec.pathComponent c :=
  Bip32.childIndex_eq_spec c

/-- … which accepts exactly `ddd` (value ≤ 2^32-1) and `ddd'` (value < 2^31, denoting value+2^31) -/
theorem pathComponent_iff (c : Bytes) (n : Nat) :
    Spec.pathComponent c = some n ↔ Spec.IsPathComponent c n := Bip32.pathComponent_iff c n

/-- the parser accepts exactly the strings of the grammar and returns the denoted indices -/
theorem parsePath_iff (p : Bytes) (is : List Nat) :
    Bip32.parsePath p = some is ↔ Spec.IsPath p is := Bip32.parsePath_iff p is

/-- `DeriveChildFromPath(p)` succeeds exactly when `p` is in the grammar and the fold of `Child`
over the denoted indices succeeds, and then returns that fold's result. -/
theorem derivePath_spec (pr : Prims) (k : XKey) (p : Bytes) :
    (Bip32.deriveChildFromPath pr k p).toOption =
      (Bip32.parsePath p).bind (fun is => (is.foldlM (Bip32.child pr) k).toOption) :=
  Bip32.deriveChildFromPath_toOption pr k p

/-- the same with the grammar instead of the parser -/
theorem derivePath_of_isPath (pr : Prims) (k : XKey) (p : Bytes) (is : List Nat) (h : Spec.IsPath p is) :
    (Bip32.deriveChildFromPath pr k p).toOption = (is.foldlM (Bip32.child pr) k).toOption := by
  rw [derivePath_spec, (parsePath_iff p is).2 h]; rfl

/-- every other path syntax is rejected -/
theorem derivePath_rejects (pr : Prims) (k : XKey) (p : Bytes) (h : ¬ ∃ is, Spec.IsPath p is) :
    (Bip32.deriveChildFromPath pr k p).toOption = none := by
  rw [derivePath_spec]
  cases hp : Bip32.parsePath p with
  | none => rfl
  | some is => exact absurd ⟨is, (parsePath_iff p is).1 hp⟩ h

-- "0'/1/2'" denotes [2^31, 1, 2^31+2]
example : Spec.IsPath [48, 39, 47, 49, 47, 50, 39] [2 ^ 31, 1, 2 ^ 31 + 2] :=
  (parsePath_iff _ _).1 (by decide +kernel)
-- D4 (fixed in /repo): "2147483648'" is not a component
example : ¬ ∃ is, Spec.IsPath [50, 49, 52, 55, 52, 56, 51, 54, 52, 56, 39] is := by
  rintro ⟨is, h⟩
  have h1 := (parsePath_iff _ _).2 h
  have h2 : Bip32.parsePath [50, 49, 52, 55, 52, 56, 51, 54, 52, 56, 39] = none := by decide +kernel
  rw [h2] at h1; cases h1
-- "1//2", "1/", "/1", "+1", "1''" are rejected
example : Bip32.parsePath [49, 47, 47, 50] = none ∧ Bip32.parsePath [49, 47] = none ∧
    Bip32.parsePath [47, 49] = none ∧ Bip32.parsePath [43, 49] = none ∧
    Bip32.parsePath [49, 39, 39] = none := by decide +kernel

/-! ### DeriveNumber ∘ DerivePath -/

theorem deriveNumber_derivePath (i : UInt64) :
    Bip32.deriveNumber (Bip32.derivePath i) = some i := Bip32.deriveNumber_derivePath i

end GoBk.Props.C08

#print axioms GoBk.Props.C08.childIndex_eq_spec
#print axioms GoBk.Props.C08.pathComponent_iff
#print axioms GoBk.Props.C08.parsePath_iff
#print axioms GoBk.Props.C08.derivePath_spec
#print axioms GoBk.Props.C08.derivePath_of_isPath
#print axioms GoBk.Props.C08.derivePath_rejects
#print axioms GoBk.Props.C08.deriveNumber_derivePath
