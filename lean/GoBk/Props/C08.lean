import GoBk.Proofs.PathLemmas
import GoBk.Proofs.Bip32Lemmas
/-
  C08 — derivation paths and extended-key strings.

  "…DeriveChildFromPath(p) equals folding Child over the indices that p denotes (n' meaning n+2^31
   with n < 2^31) and rejects every other path syntax, and DeriveNumber(DerivePath(i)) = i for
   every 64-bit i.  For every extended key k, NewKeyFromString(k.String()) is a key with the same
   serialisation, type, depth, fingerprint and the same children, public key and address as k;
   NewKeyFromString rejects strings of the wrong length, with a wrong checksum, with a private
   scalar outside [1,N-1] or with key bytes that are not a valid compressed public key."

  Property theorems only; proofs are in `GoBk.Proofs.PathLemmas` (paths) and
  `GoBk.Proofs.Bip32Lemmas` (strings).  The path grammar `Spec.IsPath`/`Spec.IsPathComponent` is
  stated in `GoBk.Spec.Bip32` independently of the model's parser.
-/
namespace GoBk.Props.C08
open GoBk Bytes Bip32

/-! ### path grammar -/

/-- one component: the model's `childInt` (after the regexp) is the specified function … -/
theorem childIndex_eq_spec (c : Bytes) : Bip32.childIndex c = Spec.pathComponent c :=
  Bip32.childIndex_eq_spec c

/-- … which accepts exactly `ddd` (value ≤ 2^32-1) and `ddd'` (value < 2^31, denoting value+2^31) -/
theorem pathComponent_iff (c : Bytes) (n : Nat) :
    Spec.pathComponent c = some n ↔ Spec.IsPathComponent c n := Bip32.pathComponent_iff c n

/-- the parser accepts exactly the strings of the grammar and returns the denoted indices -/
theorem parsePath_iff (p : Bytes) (is : List Nat) :
    Bip32.parsePath p = some is ↔ Spec.IsPath p is := Bip32.parsePath_iff p is

/-- `DeriveChildFromPath(p)` succeeds exactly when `p` is in the grammar and the fold of `Child`
over the denoted indices succeeds, and then returns that fold's result. -/
theorem derivePath_spec (pr : Prims) (k : XKey) (p : Bytes) :
    (Bip32.deriveChildFromPath pr k p).toOption =
      (Bip32.parsePath p).bind (fun is => (is.foldlM (Bip32.child pr) k).toOption) :=
  Bip32.deriveChildFromPath_toOption pr k p

/-- the same with the grammar instead of the parser -/
theorem derivePath_of_isPath (pr : Prims) (k : XKey) (p : Bytes) (is : List Nat) (h : Spec.IsPath p is) :
    (Bip32.deriveChildFromPath pr k p).toOption = (is.foldlM (Bip32.child pr) k).toOption := by
  rw [derivePath_spec, (parsePath_iff p is).2 h]; rfl

/-- every other path syntax is rejected -/
theorem derivePath_rejects (pr : Prims) (k : XKey) (p : Bytes) (h : ¬ ∃ is, Spec.IsPath p is) :
    (Bip32.deriveChildFromPath pr k p).toOption = none := by
  rw [derivePath_spec]
  cases hp : Bip32.parsePath p with
  | none => rfl
  | some is => exact absurd ⟨is, (parsePath_iff p is).1 hp⟩ h

-- "0'/1/2'" denotes [2^31, 1, 2^31+2]
example : Spec.IsPath [48, 39, 47, 49, 47, 50, 39] [2 ^ 31, 1, 2 ^ 31 + 2] :=
  (parsePath_iff _ _).1 (by decide +kernel)
-- D4 (fixed in /repo): "2147483648'" is not a component
example : ¬ ∃ is, Spec.IsPath [50, 49, 52, 55, 52, 56, 51, 54, 52, 56, 39] is := by
  rintro ⟨is, h⟩
  have h1 := (parsePath_iff _ _).2 h
  have h2 : Bip32.parsePath [50, 49, 52, 55, 52, 56, 51, 54, 52, 56, 39] = none := by decide +kernel
  rw [h2] at h1; cases h1
-- "1//2", "1/", "/1", "+1", "1''" are rejected
example : Bip32.parsePath [49, 47, 47, 50] = none ∧ Bip32.parsePath [49, 47] = none ∧
    Bip32.parsePath [47, 49] = none ∧ Bip32.parsePath [43, 49] = none ∧
    Bip32.parsePath [49, 39, 39] = none := by decide +kernel

/-! ### DeriveNumber ∘ DerivePath -/

theorem deriveNumber_derivePath (i : UInt64) :
    Bip32.deriveNumber (Bip32.derivePath i) = some i := Bip32.deriveNumber_derivePath i

/-! ### NewKeyFromString(k.String())

`WF k` (decidable, `GoBk.Proofs.Bip32Lemmas`): version 4 bytes, chain code 32, fingerprint 4,
depth < 256, child number < 2^32, private ⇒ 1 ≤ scalar < n in at most 32 bytes, public ⇒ a valid
33-byte compressed key.  `normalize k` is `k` with the private key bytes left-padded to 32 bytes
(`Child` stores a child's scalar as MINIMAL big-endian bytes, `NewKeyFromString` always reads 32);
for public keys, master keys and re-imported keys `normalize k = k`. -/

/-- the round trip succeeds and returns `k` up to that padding -/
theorem fromString_toString (pr : Prims) (ok : PrimsOK pr) (k : XKey) (h : WF k) :
    Bip32.fromString pr (Bip32.toString pr k) = .ok (Bip32.normalize k) :=
  Bip32.fromString_toString pr ok k h

theorem normalize_def (k : XKey) :
    Bip32.normalize k = if k.isPrivate then { k with key := padLeft 32 k.key } else k := rfl

theorem normalize_eq_self (k : XKey) (h : k.isPrivate = true → k.key.length = 32) :
    Bip32.normalize k = k := Bip32.normalize_of_len k h

/-- **the re-imported key is indistinguishable from the original**: same serialisation, type, depth,
child number, chain code, version, parent fingerprint, private scalar, public key, address for every
network byte, the same neutered key and — for every index — the same child (hardened children
included: this is where the right-alignment of a short private key in `Child` matters, finding D1). -/
theorem reimport_same (pr : Prims) (ok : PrimsOK pr) (k : XKey) (h : WF k) :
    ∃ k', Bip32.fromString pr (Bip32.toString pr k) = .ok k' ∧ WF k' ∧
      Bip32.toString pr k' = Bip32.toString pr k ∧
      k'.isPrivate = k.isPrivate ∧ k'.depth = k.depth ∧ k'.childNum = k.childNum ∧
      k'.chainCode = k.chainCode ∧ k'.version = k.version ∧
      Bip32.parentFingerprint k' = Bip32.parentFingerprint k ∧
      Bip32.ecPrivKey k' = Bip32.ecPrivKey k ∧ Bip32.ecPubKey k' = Bip32.ecPubKey k ∧
      k'.pubKeyBytes = k.pubKeyBytes ∧
      (∀ a, Bip32.address pr k' a = Bip32.address pr k a) ∧
      (∀ reg, Bip32.neuter reg k' = Bip32.neuter reg k) ∧
      (∀ i, Bip32.child pr k' i = Bip32.child pr k i) := by
  obtain ⟨f1, f2, f3, f4, f5, f6, f7⟩ := Bip32.normalize_fields k
  have hne : k.key ≠ [] := by
    intro e
    cases hp : k.isPrivate
    · have := (h.2.2.2.2.2.2 hp).1; rw [e] at this; cases this
    · have := (h.2.2.2.2.2.1 hp).1; rw [e] at this; simp at this
  exact ⟨_, fromString_toString pr ok k h, Bip32.normalize_WF k h, Bip32.normalize_toString pr k hne,
    f6, f5, f4, f1, f3, Bip32.normalize_parentFingerprint k, Bip32.normalize_ecPrivKey k,
    Bip32.normalize_ecPubKey k, Bip32.normalize_pubKeyBytes k, Bip32.normalize_address pr k,
    fun reg => Bip32.normalize_neuter reg k, fun i => Bip32.normalize_child pr k i h⟩

/-- consequently all descendants along any path coincide -/
theorem reimport_same_path (pr : Prims) (k : XKey) (h : WF k) (p : Bytes) (hp : p ≠ []) :
    (Bip32.deriveChildFromPath pr (Bip32.normalize k) p).toOption =
      (Bip32.deriveChildFromPath pr k p).toOption := by
  rw [derivePath_spec, derivePath_spec]
  cases hpp : Bip32.parsePath p with
  | none => rfl
  | some is =>
    cases is with
    | nil =>
      exfalso
      rcases (parsePath_iff p []).1 hpp with ⟨e, _⟩ | ⟨_, comps, h1, h2, _⟩
      · exact hp e
      · cases comps with
        | nil => exact hp (by rw [h1]; rfl)
        | cons a b => cases h2
    | cons i is =>
      show ((i :: is).foldlM (Bip32.child pr) (Bip32.normalize k)).toOption =
        ((i :: is).foldlM (Bip32.child pr) k).toOption
      rw [List.foldlM_cons, List.foldlM_cons, Bip32.normalize_child pr k i h]

/-- keys made by `NewKeyFromString` (and master keys, and public keys) round-trip exactly -/
theorem fromString_toString_exact (pr : Prims) (ok : PrimsOK pr) (s : Bytes) (k : XKey)
    (h : Bip32.fromString pr s = .ok k) : Bip32.fromString pr (Bip32.toString pr k) = .ok k :=
  Bip32.fromString_toString_of_fromString pr ok s k h

/-- `String()` is Base58(BIP-0032 serialization ‖ first 4 bytes of its double SHA-256) -/
theorem toString_layout (pr : Prims) (k : XKey) (h : WF k) :
    Bip32.toString pr k = Base58.encode
      (Spec.Bip32.serialize k.version k.depth k.parentFP k.childNum k.chainCode
          (if k.isPrivate then 0x00 :: Spec.Bip32.ser256 (beNat k.key) else k.key) ++
        (pr.sha256d (Spec.Bip32.serialize k.version k.depth k.parentFP k.childNum k.chainCode
          (if k.isPrivate then 0x00 :: Spec.Bip32.ser256 (beNat k.key) else k.key))).take 4) :=
  Bip32.toString_layout pr k h

/-! ### what NewKeyFromString accepts and refuses -/

/-- complete characterisation of acceptance, with the returned key -/
theorem fromString_iff (pr : Prims) (s : Bytes) (k : XKey) :
    Bip32.fromString pr s = .ok k ↔
      (Base58.decode s).length = 82 ∧
      (Base58.decode s).drop 78 = (pr.sha256d ((Base58.decode s).take 78)).take 4 ∧
      ((Bip32.keyField (Base58.decode s)).headD 1 = 0 ∧
          1 ≤ beNat ((Bip32.keyField (Base58.decode s)).drop 1) ∧
          beNat ((Bip32.keyField (Base58.decode s)).drop 1) < Spec.N ∧
          k = { key := (Bip32.keyField (Base58.decode s)).drop 1,
                chainCode := (((Base58.decode s).take 78).drop 13).take 32,
                parentFP := (((Base58.decode s).take 78).drop 5).take 4,
                version := ((Base58.decode s).take 78).take 4,
                childNum := beNat ((((Base58.decode s).take 78).drop 9).take 4),
                depth := (((Base58.decode s).take 78).getD 4 0).toNat, isPrivate := true } ∨
       (Bip32.keyField (Base58.decode s)).headD 1 ≠ 0 ∧
          (Ecdsa.parsePubKey (Bip32.keyField (Base58.decode s))).isSome = true ∧
          k = { key := Bip32.keyField (Base58.decode s),
                chainCode := (((Base58.decode s).take 78).drop 13).take 32,
                parentFP := (((Base58.decode s).take 78).drop 5).take 4,
                version := ((Base58.decode s).take 78).take 4,
                childNum := beNat ((((Base58.decode s).take 78).drop 9).take 4),
                depth := (((Base58.decode s).take 78).getD 4 0).toNat, isPrivate := false }) :=
  Bip32.fromString_iff pr s k

theorem keyField_def (d : Bytes) : Bip32.keyField d = ((d.take 78).drop 45).take 33 := rfl

/-- every accepted key is well-formed: in particular a private scalar is in [1, n-1] and key bytes
of a public key are a valid compressed public key -/
theorem fromString_sound (pr : Prims) (s : Bytes) (k : XKey) (h : Bip32.fromString pr s = .ok k) :
    (Base58.decode s).length = 82 ∧
    (Base58.decode s).drop 78 = (pr.sha256d ((Base58.decode s).take 78)).take 4 ∧
    WF k ∧
    (k.isPrivate = true → 1 ≤ beNat k.key ∧ beNat k.key < Spec.N ∧ k.key.length = 32) ∧
    (k.isPrivate = false → (Ecdsa.parsePubKey k.key).isSome = true ∧ k.key.length = 33) := by
  obtain ⟨hl, hc, _⟩ := (Bip32.fromString_ok_iff pr s k).1 h
  obtain ⟨hw, h32⟩ := Bip32.fromString_WF pr s k h
  refine ⟨hl, hc, hw, fun hp => ?_, fun hp => ?_⟩
  · obtain ⟨b1, b2, _⟩ := hw.2.2.2.2.2.1 hp
    exact ⟨b1, by rw [← Bip32.N_eq]; exact b2, h32 hp⟩
  · obtain ⟨b1, b2⟩ := hw.2.2.2.2.2.2 hp
    exact ⟨b2, b1⟩

/-- refusal 1: wrong length -/
theorem fromString_wrong_length (pr : Prims) (s : Bytes) (h : (Base58.decode s).length ≠ 82) :
    Bip32.fromString pr s = .error .invalidKeyLen := Bip32.fromString_wrong_length pr s h

/-- refusal 2: wrong checksum -/
theorem fromString_wrong_checksum (pr : Prims) (s : Bytes) (hl : (Base58.decode s).length = 82)
    (h : (Base58.decode s).drop 78 ≠ (pr.sha256d ((Base58.decode s).take 78)).take 4) :
    Bip32.fromString pr s = .error .badChecksum := Bip32.fromString_wrong_checksum pr s hl h

/-- refusal 3: private scalar outside [1, n-1] -/
theorem fromString_bad_scalar (pr : Prims) (s : Bytes) (hl : (Base58.decode s).length = 82)
    (hc : (Base58.decode s).drop 78 = (pr.sha256d ((Base58.decode s).take 78)).take 4)
    (h0 : (Bip32.keyField (Base58.decode s)).headD 1 = 0)
    (hr : beNat ((Bip32.keyField (Base58.decode s)).drop 1) = 0 ∨
          beNat ((Bip32.keyField (Base58.decode s)).drop 1) ≥ Spec.N) :
    Bip32.fromString pr s = .error .unusableSeed := Bip32.fromString_bad_scalar pr s hl hc h0 hr

/-- refusal 4: key bytes that are not a valid compressed public key -/
theorem fromString_bad_pubkey (pr : Prims) (s : Bytes) (hl : (Base58.decode s).length = 82)
    (hc : (Base58.decode s).drop 78 = (pr.sha256d ((Base58.decode s).take 78)).take 4)
    (h0 : (Bip32.keyField (Base58.decode s)).headD 1 ≠ 0)
    (hp : Ecdsa.parsePubKey (Bip32.keyField (Base58.decode s)) = none) :
    Bip32.fromString pr s = .error .badPubKey := Bip32.fromString_bad_pubkey pr s hl hc h0 hp

/-! ### non-vacuity -/

private def toy : Prims where
  sha256 := fun b => List.replicate 31 7 ++ [UInt8.ofNat b.length]
  sha512 := fun _ => List.replicate 64 0
  ripemd160 := fun _ => List.replicate 20 0
  hmac256 := fun _ _ => List.replicate 32 0
  hmac512 := fun _ _ => List.replicate 31 0 ++ [1] ++ List.replicate 32 9
  pbkdf2_512 := fun _ _ _ _ => []
  cbcEnc := fun _ _ d => d
  cbcDec := fun _ _ d => d
  cfbEnc := fun _ _ d => d
  cfbDec := fun _ _ d => d
  b64enc := fun b => b
  b64dec := fun b => some b

private theorem toyOK : PrimsOK toy where
  sha256_len := fun _ => by simp [toy]
  sha512_len := fun _ => rfl
  ripemd160_len := fun _ => rfl
  hmac256_len := fun _ _ => rfl
  hmac512_len := fun _ _ => rfl
  cbc_len := fun _ _ _ _ => rfl
  cbc_inv := fun _ _ _ _ _ _ => rfl
  cfb_inv := fun _ _ _ => rfl
  cfb_len := fun _ _ _ => rfl
  b64_inv := fun _ => rfl

/-- a private key with a SHORT scalar (1 byte), as `Child` can produce -/
private def k0 : XKey :=
  { key := [5], chainCode := List.replicate 32 7, parentFP := [1, 2, 3, 4], version := Gen.net_MainNet_hdPriv,
    childNum := 2 ^ 31 + 3, depth := 2, isPrivate := true }

example : WF k0 := by decide
example : Bip32.normalize k0 ≠ k0 := by decide
example : ∃ k', Bip32.fromString toy (Bip32.toString toy k0) = .ok k' ∧ k'.key = List.replicate 31 0 ++ [5] :=
  ⟨_, fromString_toString toy toyOK k0 (by decide), by decide⟩

end GoBk.Props.C08

#print axioms GoBk.Props.C08.childIndex_eq_spec
#print axioms GoBk.Props.C08.pathComponent_iff
#print axioms GoBk.Props.C08.parsePath_iff
#print axioms GoBk.Props.C08.derivePath_spec
#print axioms GoBk.Props.C08.derivePath_of_isPath
#print axioms GoBk.Props.C08.derivePath_rejects
#print axioms GoBk.Props.C08.deriveNumber_derivePath
#print axioms GoBk.Props.C08.fromString_toString
#print axioms GoBk.Props.C08.normalize_eq_self
#print axioms GoBk.Props.C08.reimport_same
#print axioms GoBk.Props.C08.reimport_same_path
#print axioms GoBk.Props.C08.fromString_toString_exact
#print axioms GoBk.Props.C08.toString_layout
#print axioms GoBk.Props.C08.fromString_iff
#print axioms GoBk.Props.C08.fromString_sound
#print axioms GoBk.Props.C08.fromString_wrong_length
#print axioms GoBk.Props.C08.fromString_wrong_checksum
#print axioms GoBk.Props.C08.fromString_bad_scalar
#print axioms GoBk.Props.C08.fromString_bad_pubkey
