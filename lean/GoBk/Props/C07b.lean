import GoBk.Props.C07
import GoBk.Props.Prims
import GoBk.Proofs.PrimsExtra
/-!
# C07, instantiated: the theorems of `Props/C07.lean` for the EXECUTABLE primitives

`Props/C07.lean` is parametric in `pr : Prims` and assumes NOTHING about the primitives, so there is no hypothesis to
discharge; the headline statements that mention `pr` are restated for the SHA-256 / PBKDF2-HMAC-SHA512 that are
actually executed.  In addition, for `realPrims` the seed has 64 bytes (`real_seed_length`, from
`PrimsExtra.real_pbkdf2_len`; not a field of `PrimsOK`).
-/
namespace GoBk.Props.C07
open GoBk Bytes Bip39 GoBk.Props.Prims

/-- `mnemonic_spec` for `realPrims` -/
theorem real_mnemonic_spec (ent pass : Bytes) (h : ent.length ∈ [16, 20, 24, 28, 32]) :
    let cs := ent.length * 8 / 32
    let ms := ent.length * 8 + cs
    let V := beNat ent * 2 ^ cs + ((realPrims.sha256 ent).headD 0).toNat >>> (8 - cs)
    let indices := (List.range (ms / 11)).map (fun j => (V >>> (11 * (ms / 11 - 1 - j))) % 2048)
    let sentence := List.intercalate [32] (indices.map wordAt)
    Bip39.mnemonic realPrims ent pass =
      some (sentence,
        realPrims.pbkdf2_512 sentence ([109, 110, 101, 109, 111, 110, 105, 99] ++ pass) 2048 64) :=
  mnemonic_spec realPrims ent pass h

/-- `mnemonic_rejects` for `realPrims` -/
theorem real_mnemonic_rejects (ent pass : Bytes) (h : ent.length ∉ [16, 20, 24, 28, 32]) :
    Bip39.mnemonic realPrims ent pass = none := mnemonic_rejects realPrims ent pass h

/-- `toSeed_mnemonic` for `realPrims` -/
theorem real_toSeed_mnemonic (ent pass m seed : Bytes) (h : ent.length ∈ [16, 20, 24, 28, 32])
    (hm : Bip39.mnemonic realPrims ent pass = some (m, seed)) :
    Bip39.mnemonicToSeed realPrims m pass = some seed := toSeed_mnemonic realPrims ent pass m seed h hm

/-- `toSeed_mnemonic'` for `realPrims` -/
theorem real_toSeed_mnemonic' (ent pass m seed : Bytes)
    (hm : Bip39.mnemonic realPrims ent pass = some (m, seed)) :
    Bip39.mnemonicToSeed realPrims m pass = some seed := toSeed_mnemonic' realPrims ent pass m seed hm

/-- `mnemonicToSeed_accepts_iff` for `realPrims` -/
theorem real_mnemonicToSeed_accepts_iff (s pass seed : Bytes) :
    Bip39.mnemonicToSeed realPrims s pass = some seed ↔
      (fields s).length ∈ [12, 15, 18, 21, 24] ∧ (∀ w ∈ fields s, w ∈ Gen.english) ∧
      seed = realPrims.pbkdf2_512 s ([109, 110, 101, 109, 111, 110, 105, 99] ++ pass) 2048 64 :=
  mnemonicToSeed_accepts_iff realPrims s pass seed

/-- `mnemonicToSeed_rejects_count` for `realPrims` -/
theorem real_mnemonicToSeed_rejects_count (s pass : Bytes)
    (h : (fields s).length ∉ [12, 15, 18, 21, 24]) : Bip39.mnemonicToSeed realPrims s pass = none :=
  mnemonicToSeed_rejects_count realPrims s pass h

/-- `mnemonicToSeed_rejects_nonword` for `realPrims` -/
theorem real_mnemonicToSeed_rejects_nonword (s pass : Bytes)
    (h : ∃ w ∈ fields s, w ∉ Gen.english) : Bip39.mnemonicToSeed realPrims s pass = none :=
  mnemonicToSeed_rejects_nonword realPrims s pass h

/-- (new, `realPrims` only) every seed `MnemonicToSeed` returns has 64 bytes -/
theorem real_seed_length (s pass seed : Bytes)
    (h : Bip39.mnemonicToSeed realPrims s pass = some seed) : seed.length = 64 := by
  rw [((real_mnemonicToSeed_accepts_iff s pass seed).1 h).2.2]
  exact GoBk.Proofs.PrimsExtra.real_pbkdf2_len _ _ _ _

/-- (new, `realPrims` only) … and so has the seed `Mnemonic` returns -/
theorem real_mnemonic_seed_length (ent pass m seed : Bytes)
    (h : Bip39.mnemonic realPrims ent pass = some (m, seed)) : seed.length = 64 :=
  real_seed_length m pass seed (real_toSeed_mnemonic' ent pass m seed h)

end GoBk.Props.C07

#print axioms GoBk.Props.C07.real_mnemonic_spec
#print axioms GoBk.Props.C07.real_mnemonic_rejects
#print axioms GoBk.Props.C07.real_toSeed_mnemonic
#print axioms GoBk.Props.C07.real_toSeed_mnemonic'
#print axioms GoBk.Props.C07.real_mnemonicToSeed_accepts_iff
#print axioms GoBk.Props.C07.real_mnemonicToSeed_rejects_count
#print axioms GoBk.Props.C07.real_mnemonicToSeed_rejects_nonword
#print axioms GoBk.Props.C07.real_seed_length
#print axioms GoBk.Props.C07.real_mnemonic_seed_length
