import GoBk.Props.C12b
/-!
# C12, continued: a compact signature identifies its signer

Corollary of `recover_signCompact`: if two (public key, compression flag) pairs yield the same 65-byte compact
signature over the same hash, they are the same pair — "recover exactly the signing key" excludes a second signer.
-/
namespace GoBk.Props.C12
open GoBk

theorem signCompact_identifies_signer {pr pr' : Prims} {fuel fuel' d d' : ℕ} {pub pub' : Spec.Pt} {h : Bytes}
    {c c' : Bool} {out : Bytes}
    (h1 : Ecdsa.signCompact pr fuel d pub h c = some out)
    (h2 : Ecdsa.signCompact pr' fuel' d' pub' h c' = some out) : pub = pub' ∧ c = c' := by
  have e1 := recover_signCompact h1
  have e2 := recover_signCompact h2
  rw [e1] at e2
  cases e2; exact ⟨rfl, rfl⟩

end GoBk.Props.C12

#print axioms GoBk.Props.C12.signCompact_identifies_signer
