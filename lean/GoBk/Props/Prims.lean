import GoBk.Model.RealPrims
import GoBk.Proofs.PrimsOKLemmasAes
import GoBk.Proofs.PrimsOKLemmasModes
import GoBk.Proofs.PrimsOKLemmasB64
/-
  Prims — the executable primitives satisfy every assumption the theorems make about them.

  Every model and theorem of the project is parametric in `pr : Prims` and assumes `PrimsOK pr`
  (Model/Prims.lean).  The driver runs the instantiation `GoBk.realPrims` (Model/RealPrims.lean),
  built from the pure-Lean SHA-256 / SHA-512 / RIPEMD-160 / HMAC / AES-CBC / AES-CFB / base64 of
  `GoBk.Hash`.  This file PROVES `PrimsOK realPrims`, so that fact is no longer an assumption of
  the trusted base (what remains trusted about the primitives is only that `GoBk.Hash.*` computes
  the same functions as Go's crypto/*, which the differential streams test).

  Per field:
    * `real_sha256_len … real_hmac512_len` — the digests are a fixed number of 32/64-bit words
      serialised to bytes (`State.toBytes_length` in the Hash files).
    * `real_cbc_len` — CBC emits one 16-byte block per whole input block; the hypothesis
      `d.length % 16 = 0` is NECESSARY (`real_cbc_len_unaligned_false`: like Go's `CryptBlocks`,
      a trailing partial block is not processed).
    * `real_cbc_inv` — needs `decryptBlk k (encryptBlk k p) = p` (`decryptBlk_encryptBlk` in
      Proofs/PrimsOKLemmasAes.lean): InvSubBytes∘SubBytes = id by a kernel check of the two
      256-entry tables, InvShiftRows∘ShiftRows = id and AddRoundKey involutive by byte/word
      algebra, InvMixColumns∘MixColumns = id from XOR-linearity of `xtime` plus a 256-case kernel
      check per input byte of a column.  It holds for EVERY expanded key (both directions read the
      same round-key words), hence for every key and iv length: the hypotheses `k.length = 32`
      and `iv.length = 16` of the field are not used (`real_cbc_inv'`).
    * `real_cfb_len`, `real_cfb_inv` — unconditional (XOR cancellation; both directions feed the
      ciphertext block back into the same keystream generator).
    * `real_b64_inv` — 3 bytes ↔ 4 sextets by bit-level extensionality, alphabet round trip by a
      256-case kernel check, then induction along `encode`.
  All finite checks are `decide +kernel` (evaluated by the kernel, no compiler trust).
-/
namespace GoBk.Props.Prims
open GoBk GoBk.Hash GoBk.Proofs.PrimsOK

theorem real_sha256_len (b : Bytes) : (realPrims.sha256 b).length = 32 := sha256_length b
theorem real_sha512_len (b : Bytes) : (realPrims.sha512 b).length = 64 := sha512_length b
theorem real_ripemd160_len (b : Bytes) : (realPrims.ripemd160 b).length = 20 := ripemd160_length b
theorem real_hmac256_len (k m : Bytes) : (realPrims.hmac256 k m).length = 32 := hmacSha256_length k m
theorem real_hmac512_len (k m : Bytes) : (realPrims.hmac512 k m).length = 64 := hmacSha512_length k m

/-- CBC output length: 16 bytes per WHOLE input block, whatever the alignment. -/
theorem real_cbc_len' (k iv d : Bytes) : (realPrims.cbcEnc k iv d).length = 16 * (d.length / 16) :=
  cbcEnc_length _ _ _ _

theorem real_cbc_len (k iv d : Bytes) (h : d.length % 16 = 0) :
    (realPrims.cbcEnc k iv d).length = d.length := by
  rw [real_cbc_len']; omega

/-- the alignment hypothesis of `cbc_len` cannot be dropped. -/
theorem real_cbc_len_unaligned_false : ¬ ∀ k iv d, (realPrims.cbcEnc k iv d).length = d.length := by
  intro h
  have := h [] [] [0]
  rw [real_cbc_len'] at this
  revert this
  decide

/-- CBC decrypt ∘ encrypt = id on whole blocks, for every key and iv (of any length). -/
theorem real_cbc_inv' (k iv d : Bytes) (h : d.length % 16 = 0) :
    realPrims.cbcDec k iv (realPrims.cbcEnc k iv d) = d := by
  have hl := real_cbc_len k iv d h
  show cbcDecrypt k iv (cbcEncrypt k iv d) = d
  unfold cbcDecrypt
  rw [show (cbcEncrypt k iv d).length = d.length from hl]
  unfold cbcEncrypt
  rw [cbcDec_cbcEnc _ _ _ _ (by omega), List.take_of_length_le (by omega)]

theorem real_cbc_inv (k iv d : Bytes) (_hk : k.length = 32) (_hiv : iv.length = 16)
    (h : d.length % 16 = 0) : realPrims.cbcDec k iv (realPrims.cbcEnc k iv d) = d :=
  real_cbc_inv' k iv d h

theorem real_cfb_len (k iv d : Bytes) : (realPrims.cfbEnc k iv d).length = d.length := by
  show (cfbEncrypt k iv d).length = d.length
  unfold cfbEncrypt
  rw [cfb_length]; omega

theorem real_cfb_inv (k iv d : Bytes) : realPrims.cfbDec k iv (realPrims.cfbEnc k iv d) = d := by
  have hl := real_cfb_len k iv d
  show cfbDecrypt k iv (cfbEncrypt k iv d) = d
  unfold cfbDecrypt
  rw [show (cfbEncrypt k iv d).length = d.length from hl]
  unfold cfbEncrypt
  rw [cfb_dec_enc, List.take_of_length_le (by omega)]

theorem real_b64_inv (b : Bytes) : realPrims.b64dec (realPrims.b64enc b) = some b :=
  base64Decode_base64Encode b

/-- the executable primitives satisfy every assumption made about them. -/
theorem realPrims_ok : PrimsOK realPrims where
  sha256_len := real_sha256_len
  sha512_len := real_sha512_len
  ripemd160_len := real_ripemd160_len
  hmac256_len := real_hmac256_len
  hmac512_len := real_hmac512_len
  cbc_len := real_cbc_len
  cbc_inv := real_cbc_inv
  cfb_inv := real_cfb_inv
  cfb_len := real_cfb_len
  b64_inv := real_b64_inv

end GoBk.Props.Prims

#print axioms GoBk.Props.Prims.real_sha256_len
#print axioms GoBk.Props.Prims.real_sha512_len
#print axioms GoBk.Props.Prims.real_ripemd160_len
#print axioms GoBk.Props.Prims.real_hmac256_len
#print axioms GoBk.Props.Prims.real_hmac512_len
#print axioms GoBk.Props.Prims.real_cbc_len'
#print axioms GoBk.Props.Prims.real_cbc_len
#print axioms GoBk.Props.Prims.real_cbc_len_unaligned_false
#print axioms GoBk.Props.Prims.real_cbc_inv'
#print axioms GoBk.Props.Prims.real_cbc_inv
#print axioms GoBk.Props.Prims.real_cfb_len
#print axioms GoBk.Props.Prims.real_cfb_inv
#print axioms GoBk.Props.Prims.real_b64_inv
#print axioms GoBk.Props.Prims.realPrims_ok
