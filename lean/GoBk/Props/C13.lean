import GoBk.Model.Base58
import GoBk.Proofs.BytesLemmas
import GoBk.Proofs.Base58Lemmas
/-
  C13 — base58 / base58check round trips.
  Property theorems only; proofs are in `GoBk.Proofs.Base58Lemmas` / `GoBk.Proofs.BytesLemmas`.

  "For every byte string b, Decode(Encode(b)) = b and Encode(b) is the Bitcoin base58 numeral of b
   with one '1' per leading zero byte; for every string s over the 58-character alphabet,
   Encode(Decode(s)) = s, and any string containing another character decodes to the empty slice.
   For every payload and version byte CheckDecode(CheckEncode(p,v)) = (p,v), and CheckDecode succeeds
   exactly on strings whose decoded form is at least 5 bytes and ends in the first four bytes of the
   double SHA-256 of the rest."

  The hash is a parameter (`pr : Prims`); the base58check theorems assume only that
  `pr.sha256` returns 32 bytes (field `sha256_len` of `PrimsOK`).
-/
namespace GoBk.Props.C13
open GoBk Bytes Base58

/-! ### the regenerated tables -/

theorem alphabet_length : Gen.alphabet.length = 58 := Base58.alphabet_length
theorem b58_length : Gen.b58.length = 256 := Base58.b58_length
theorem alphabet_nodup : Gen.alphabet.Nodup := Base58.alphabet_nodup
theorem alphaAt_zero : alphaAt 0 = Gen.alphabetIdx0 := Base58.alphaAt_zero

/-- the alphabet is the Bitcoin one and `alphabetIdx0` is the character '1' -/
theorem alphabet_is_bitcoin :
    Gen.alphabet = "123456789ABCDEFGHJKLMNPQRSTUVWXYZabcdefghijkmnopqrstuvwxyz".toList.map
      (fun c => UInt8.ofNat c.toNat) ∧ Gen.alphabetIdx0 = UInt8.ofNat '1'.toNat := by
  decide

/-- `b58` inverts `alphabet` on digit values -/
theorem b58At_alphaAt (d : Nat) (h : d < 58) : b58At (alphaAt d) = UInt8.ofNat d :=
  Base58.b58At_alphaAt d h

/-- every byte that `b58` does not map to 255 is the alphabet character of its digit value -/
theorem alphaAt_b58At (c : UInt8) (h : b58At c ≠ 255) :
    alphaAt (b58At c).toNat = c ∧ (b58At c).toNat < 58 := Base58.alphaAt_b58At c h

/-- `b58[c] = 255` exactly for the bytes outside the alphabet -/
theorem mem_alphabet_iff (c : UInt8) : c ∈ Gen.alphabet ↔ b58At c ≠ 255 := Base58.mem_alphabet_iff c

/-! ### the base-58 numeral (`Base58.digitsBE`, defined by well-founded recursion, no fuel) -/

theorem digitsBE_value (n : Nat) : (digitsBE n).foldl (fun a d => a * 58 + d) 0 = n :=
  Base58.digitsBE_foldl n
theorem digitsBE_lt (n : Nat) : ∀ d ∈ digitsBE n, d < 58 := Base58.digitsBE_lt n
theorem digitsBE_head_ne_zero (n : Nat) : (digitsBE n).head? ≠ some 0 := Base58.digitsBE_head?_ne_zero n
theorem digitsBE_zero : digitsBE 0 = [] := Base58.digitsBE_zero
/-- uniqueness: any digit list (< 58, no leading zero) is the `digitsBE` of its value -/
theorem digitsBE_unique (ds : List Nat) (hlt : ∀ d ∈ ds, d < 58) (hh : ds.head? ≠ some 0) :
    digitsBE (ds.foldl (fun a d => a * 58 + d) 0) = ds := Base58.digitsBE_ofDigits ds hlt hh

example : digitsBE 3421 = [1, 0, 57] := digitsBE_unique [1, 0, 57] (by decide) (by decide)

/-! ### Encode / Decode -/

/-- `Encode(b)` = one `alphabetIdx0` ('1') per leading zero byte, then the base-58 numeral of `b`. -/
theorem encode_spec (b : Bytes) :
    encode b = List.replicate (leadingCount 0 b) Gen.alphabetIdx0 ++ (digitsBE (beNat b)).map alphaAt :=
  Base58.encode_eq b

theorem decode_encode (b : Bytes) : decode (encode b) = b := Base58.decode_encode b

theorem encode_decode (s : Bytes) (h : ∀ c ∈ s, c ∈ Gen.alphabet) : encode (decode s) = s :=
  Base58.encode_decode s h

example : encode (decode [49, 49, 65, 122, 50]) = [49, 49, 65, 122, 50] :=
  encode_decode _ (by decide)

theorem decode_invalid (s : Bytes) (h : ∃ c ∈ s, c ∉ Gen.alphabet) : decode s = [] :=
  Base58.decode_invalid s h

example : decode [49, 65, 48, 122] = [] := decode_invalid _ (by decide)   -- '0' is not in the alphabet

/-! ### CheckEncode / CheckDecode -/

theorem checkDecode_checkEncode (pr : Prims) (h : ∀ x, (pr.sha256 x).length = 32)
    (p : Bytes) (v : UInt8) : checkDecode pr (checkEncode pr p v) = some (p, v) :=
  Base58.checkDecode_checkEncode pr (Base58.checksum_length pr h) p v

theorem checkDecode_iff (pr : Prims) (h : ∀ x, (pr.sha256 x).length = 32)
    (s p : Bytes) (v : UInt8) :
    checkDecode pr s = some (p, v) ↔
      (let d := decode s
       d.length ≥ 5 ∧ d = v :: p ++ (pr.sha256d (v :: p)).take 4) :=
  Base58.checkDecode_eq_some_iff pr (Base58.checksum_length pr h) s p v

/-- `CheckDecode` fails in all other cases (it returns either the pair above or an error). -/
theorem checkDecode_none_iff (pr : Prims) (h : ∀ x, (pr.sha256 x).length = 32) (s : Bytes) :
    checkDecode pr s = none ↔
      ¬ ∃ p v, (decode s).length ≥ 5 ∧ decode s = v :: p ++ (pr.sha256d (v :: p)).take 4 := by
  constructor
  · rintro hn ⟨p, v, hp⟩
    have := (checkDecode_iff pr h s p v).mpr hp
    rw [hn] at this; cases this
  · intro hn
    cases hc : checkDecode pr s with
    | none => rfl
    | some pv =>
      obtain ⟨p, v⟩ := pv
      exact absurd ⟨p, v, (checkDecode_iff pr h s p v).mp hc⟩ hn

theorem checkDecode_checkEncode_ok (pr : Prims) (ok : PrimsOK pr) (p : Bytes) (v : UInt8) :
    checkDecode pr (checkEncode pr p v) = some (p, v) := checkDecode_checkEncode pr ok.sha256_len p v

/-- non-vacuity: the hypothesis on the hash is satisfiable (toy hash), and the theorems instantiate -/
private def toyPrims : Prims where
  sha256 := fun b => List.replicate 31 7 ++ [UInt8.ofNat b.length]
  sha512 := fun _ => []
  ripemd160 := fun _ => []
  hmac256 := fun _ _ => []
  hmac512 := fun _ _ => []
  pbkdf2_512 := fun _ _ _ _ => []
  cbcEnc := fun _ _ d => d
  cbcDec := fun _ _ d => d
  cfbEnc := fun _ _ d => d
  cfbDec := fun _ _ d => d
  b64enc := fun b => b
  b64dec := fun b => some b

private theorem toy_len : ∀ x, (toyPrims.sha256 x).length = 32 := by intro x; simp [toyPrims]

example : checkDecode toyPrims (checkEncode toyPrims [1, 2, 3] 0x80) = some ([1, 2, 3], 0x80) :=
  checkDecode_checkEncode toyPrims toy_len _ _

example : checkDecode toyPrims (encode [5, 9, 7, 7, 7, 7]) = some ([9], 5) :=
  (checkDecode_iff toyPrims toy_len _ _ _).mpr (by rw [Base58.decode_encode]; decide)

end GoBk.Props.C13

#print axioms GoBk.Props.C13.alphabet_length
#print axioms GoBk.Props.C13.b58_length
#print axioms GoBk.Props.C13.alphabet_nodup
#print axioms GoBk.Props.C13.alphabet_is_bitcoin
#print axioms GoBk.Props.C13.b58At_alphaAt
#print axioms GoBk.Props.C13.alphaAt_b58At
#print axioms GoBk.Props.C13.mem_alphabet_iff
#print axioms GoBk.Props.C13.digitsBE_value
#print axioms GoBk.Props.C13.digitsBE_lt
#print axioms GoBk.Props.C13.digitsBE_head_ne_zero
#print axioms GoBk.Props.C13.digitsBE_unique
#print axioms GoBk.Props.C13.encode_spec
#print axioms GoBk.Props.C13.decode_encode
#print axioms GoBk.Props.C13.encode_decode
#print axioms GoBk.Props.C13.decode_invalid
#print axioms GoBk.Props.C13.checkDecode_checkEncode
#print axioms GoBk.Props.C13.checkDecode_iff
#print axioms GoBk.Props.C13.checkDecode_none_iff
