import GoBk.Model.Wif
import GoBk.Model.Prims
/-
  C14 — WIF strings, P2PKH addresses and hash helpers match their definitions.
  Property theorems only.
-/
namespace GoBk.Props.C14
open GoBk Bytes

/-- `WIF.String()` is Base58(PrivateKeyID ‖ 32-byte key ‖ [0x01 if compressed] ‖ first 4 bytes of sha256d). -/
theorem wif_layout (pr : Prims) (d : Nat) (c : Bool) (net : UInt8) :
    Wif.wifString pr d c net =
      Base58.encode (let body := [net] ++ natBEpad 32 d ++ (if c then [0x01] else [])
                     body ++ (pr.sha256d body).take 4) := by
  unfold Wif.wifString
  cases c <;> simp [Gen.k_privKeyBytesLen, Gen.k_compressMagic]

/-- `ExtendedKey.Address(net)` is Base58Check-layout(net.LegacyPubKeyHashAddrID ‖ RIPEMD160(SHA256(pubkey))). -/
theorem address_layout (pr : Prims) (pk : Bytes) (id : UInt8) :
    Wif.address pr pk id =
      Base58.encode (let body := [id] ++ pr.ripemd160 (pr.sha256 pk)
                     body ++ (pr.sha256 (pr.sha256 body)).take 4) := by
  simp [Wif.address, Prims.hash160, Prims.sha256d]

theorem sha256d_def (pr : Prims) (b : Bytes) : pr.sha256d b = pr.sha256 (pr.sha256 b) := rfl
theorem hash160_def (pr : Prims) (b : Bytes) : pr.hash160 b = pr.ripemd160 (pr.sha256 b) := rfl

end GoBk.Props.C14
