import GoBk.Proofs.RngLemmas
import GoBk.Proofs.EnvelopeLemmas
/-
  C19 — randomness.

  "Across any sequence of calls, the private keys from NewPrivateKey, the ephemeral key and IV inside
   each bec.Encrypt ciphertext, the IV of each crypto.Encrypt ciphertext, the outputs of GenerateSeed
   and GenerateEntropy and the signing key of each NewJSONEnvelope never repeat and are never
   constant, and every generated private key lies in [1,N-1] with the matching public key. Sign,
   public-key derivation and all encodings give identical outputs regardless of how much randomness
   was consumed before them."

  How this is made a theorem.  `crypto/rand.Reader` is modelled as an ORACLE TAPE
  (`Rng.Tape = List (Option Bytes)`): the sequence of reads the process performs, `some b` = a read
  that filled `b.length` bytes with `b`, `none` = a failed read.  The models of the randomised
  functions (`Rng.generateKey`, `Rng.generateSeed`, `Rng.generateEntropy`, `Ecies.encrypt`,
  `Ecies.cfbEncrypt`, `Envelope.newEnvelope`) are tape consumers.  "Never repeat / never constant"
  is then:
    (a) `*_draws`: every random field of an output IS a read of the tape (the key is the value of
        the last 32-byte read consumed, the IV / seed / entropy is the read itself), each call
        consumes a non-empty prefix and hands the rest to the next call, and a failing read makes
        the call fail (no default value: `*_fail`; for GenerateEntropy this is fix D12, ba815c6);
    (b) `fresh`: over ANY sequence of calls (`RngL.runCalls`) the random fields of all outputs are
        drawn from pairwise different positions of the tape, hence pairwise distinct as soon as the
        tape's successful multi-byte reads are pairwise distinct (`RngL.TapeDistinct`, which holds
        with overwhelming probability for a CSPRNG and is the only assumption on the source);
    (c) `*_is_read` / `generateKey_onto`: every admissible value is produced by the tape containing
        it, so no output is a constant.
  That a real CSPRNG satisfies `TapeDistinct` is not a mathematical statement about the code; the
  differential harness replays recorded tapes (harness/tape.go) against these models.

  Modelling notes (reported, the model is not changed here):
   * `randutil.MaybeReadByte` ignores the result of its 1-byte read.  The tape does not record the
     requested length of a FAILED read, so `skipMaybeByte (none :: t)` keeps the `none` and
     `generateKey` then fails, whereas Go would carry on if that failed read was MaybeReadByte's.
     For tapes in which 1-byte reads never fail (all tapes the harness generates: harness/tape.go
     only fails multi-byte reads) the model is exact.
   * `newEnvelope` does not return the rest of the tape; `RngL.step` takes it from `generateKey`
     (`Sign` is RFC 6979 and reads nothing).
   * after a FAILED call the model does not say where the reader stands; `runCalls` continues from
     `recover t` for an arbitrary `recover` with `recover t <:+ t`.

  Property theorems only; proofs and the definitions of `reads`, `multiReads`, `TapeDistinct`,
  `Call`, `Output`, `step`, `runCalls`, `Field`, `fields`, `rawFields`, `drawn` are in
  `GoBk.Proofs.RngLemmas`.

  NOT YET PROVED in this file: (none)
-/
namespace GoBk.Props.C19
open GoBk Bytes Spec Rng GoBk.Proofs GoBk.Proofs.RngL

/-! ### (a) every call returns what it read -/

/-- `NewPrivateKey` / `ecdsa.GenerateKey`: the key is the big-endian value of a 32-byte read of the
tape, lies in [1, N-1], the public key is `d•G`, and the call consumed a non-empty prefix. -/
theorem generateKey_draws (t t' : Tape) (d : Nat) (q : Pt)
    (h : generateKey t = some (d, q, t')) :
    1 ≤ d ∧ d < N ∧ q = smul d G ∧ (∃ b, some b ∈ t ∧ b.length = 32 ∧ d = beNat b) ∧
      t'.length < t.length ∧ t' <:+ t := by
  obtain ⟨pre, b, e, hl, hd, _, h1, h2, hq⟩ := generateKey_split h
  refine ⟨h1, h2, hq, ⟨b, by rw [e]; simp, hl, hd⟩, by rw [e]; simp; omega, ?_⟩
  rw [e]; exact ⟨pre ++ [some b], by simp⟩

/-- sharper: the key is the LAST read consumed, `natBEpad 32 d` is that read, and everything before it
is at most one 1-byte read (MaybeReadByte) followed by 32-byte candidates (all rejected) -/
theorem generateKey_draws_last (t t' : Tape) (d : Nat) (q : Pt)
    (h : generateKey t = some (d, q, t')) :
    ∃ pre b, t = pre ++ some b :: t' ∧ b.length = 32 ∧ d = beNat b ∧ natBEpad 32 d = b :=
  let ⟨pre, b, e, hl, hd, hp, _⟩ := generateKey_split h
  ⟨pre, b, e, hl, hd, hp⟩

/-- non-vacuity, and (c): EVERY `d ∈ [1, N-1]` is the key generated from the tape that starts with
its 32-byte form — the result is the tape content, never a constant -/
theorem generateKey_onto (d : Nat) (h1 : 1 ≤ d) (h2 : d < N) (t : Tape) :
    generateKey (some (natBEpad 32 d) :: t) = some (d, smul d G, t) :=
  generateKey_single h1 h2 t

example : generateKey [some (natBEpad 32 1)] = some (1, smul 1 G, []) :=
  generateKey_onto 1 (by decide) (by decide) []

/-- two tapes starting with different admissible reads give different keys -/
theorem generateKey_differs (d d' : Nat) (h1 : 1 ≤ d) (h2 : d < N) (h1' : 1 ≤ d') (h2' : d' < N)
    (hne : d ≠ d') (t t' : Tape) :
    generateKey (some (natBEpad 32 d) :: t) ≠ generateKey (some (natBEpad 32 d') :: t') := by
  rw [generateKey_onto d h1 h2, generateKey_onto d' h1' h2']
  intro h
  simp only [Option.some.injEq, Prod.mk.injEq] at h
  exact hne h.1

example : (1 : Nat) ≤ 1 ∧ 1 < N ∧ (1 : Nat) ≤ 2 ∧ 2 < N ∧ (1 : Nat) ≠ 2 := by decide

/-- the 32-byte read is compared as a number: two different 32-byte strings give different keys
(`beNat` is injective on strings of equal length) -/
theorem key_of_read_inj (b b' : Bytes) (hl : b.length = 32) (hl' : b'.length = 32)
    (h : beNat b = beNat b') : b = b' := by
  rw [← natBEpad_beNat b, ← natBEpad_beNat b', hl, hl', h]

example : ([1, 2] : Bytes).length = 2 := rfl

/-- if the first 32-byte read (after the optional MaybeReadByte byte) fails, an error is returned -/
theorem generateKey_fail (t : Tape) (h : readFull 32 (skipMaybeByte t) = none) :
    generateKey t = none := generateKey_fail_aux h

example : readFull 32 (skipMaybeByte [some [7], none]) = none := rfl

/-- conversely `GenerateKey` fails ONLY because a read failed, possibly after candidates that were
rejected for being 0 or ≥ N (never for lack of fuel in the model's loop) -/
theorem generateKey_none (t : Tape) (h : generateKey t = none) :
    ∃ pre rest, skipMaybeByte t = pre ++ rest ∧ (∀ x ∈ pre, Rejected x) ∧
      readFull 32 rest = none := RngL.generateKey_none h

example : generateKey [none] = none := rfl

/-- `GenerateSeed(n)`: the output IS the next read, of `n` bytes, `16 ≤ n ≤ 64` -/
theorem generateSeed_draws (n : Nat) (t t' : Tape) (b : Bytes) :
    generateSeed n t = some (b, t') ↔ 16 ≤ n ∧ n ≤ 64 ∧ t = some b :: t' ∧ b.length = n :=
  generateSeed_iff

/-- (c) the seed is the tape content -/
theorem generateSeed_is_read (b : Bytes) (t : Tape) (h1 : 16 ≤ b.length) (h2 : b.length ≤ 64) :
    generateSeed b.length (some b :: t) = some (b, t) :=
  generateSeed_iff.2 ⟨h1, h2, rfl, rfl⟩

example : generateSeed 16 [some (List.replicate 16 7)] = some (List.replicate 16 7, []) := by decide

/-- an error (not a constant or partially filled buffer) for a bad length or a failing read -/
theorem generateSeed_fail (n : Nat) (t : Tape) :
    generateSeed n t = none ↔ n < 16 ∨ 64 < n ∨ readFull n t = none := generateSeed_none_iff

/-- `GenerateEntropy(bits)`: the output IS the next read, of `bits/8` bytes, for the five BIP-39 sizes -/
theorem generateEntropy_draws (bits : Nat) (t t' : Tape) (b : Bytes) :
    generateEntropy bits t = some (b, t') ↔
      (bits = 128 ∨ bits = 160 ∨ bits = 192 ∨ bits = 224 ∨ bits = 256) ∧
      t = some b :: t' ∧ b.length = bits / 8 := generateEntropy_iff

theorem generateEntropy_is_read (bits : Nat) (b : Bytes) (t : Tape)
    (hb : bits = 128 ∨ bits = 160 ∨ bits = 192 ∨ bits = 224 ∨ bits = 256)
    (hl : b.length = bits / 8) : generateEntropy bits (some b :: t) = some (b, t) :=
  generateEntropy_iff.2 ⟨hb, rfl, hl⟩

example : generateEntropy 128 [some (List.replicate 16 9)] = some (List.replicate 16 9, []) := by
  decide

/-- D12 (fixed in ba815c6): a failing read is an error — before the fix the zero-filled buffer was
returned with a nil error, i.e. a CONSTANT entropy -/
theorem generateEntropy_fail (bits : Nat) (t : Tape) :
    generateEntropy bits t = none ↔
      ¬ (bits = 128 ∨ bits = 160 ∨ bits = 192 ∨ bits = 224 ∨ bits = 256) ∨
      readFull (bits / 8) t = none := generateEntropy_none_iff

example : generateEntropy 256 [none] = none := by decide

/-- `bec.Encrypt`: the ephemeral key and the IV are two CONSECUTIVE reads of the tape, in that order
(hence two different positions), the key is in [1, N-1], and both are visible in the ciphertext:
bytes 0..16 are the IV, bytes 20..52 and 54..86 the coordinates of the ephemeral public key `d•G`. -/
theorem encrypt_draws (pr : Prims) (pub : Pt) (msg ct : Bytes) (t t' : Tape)
    (h : Ecies.encrypt pr pub msg t = some (ct, t')) :
    ∃ pre kb iv d, t = pre ++ some kb :: some iv :: t' ∧ kb.length = 32 ∧ iv.length = 16 ∧
      d = beNat kb ∧ 1 ≤ d ∧ d < N ∧ ct.take 16 = iv ∧
      (ct.drop 20).take 32 = natBEpad 32 (smul d G).1 ∧
      (ct.drop 54).take 32 = natBEpad 32 (smul d G).2 :=
  let ⟨pre, kb, iv, d, e, hl, hiv, hd, _, h1, h2, s1, s4, s6⟩ := encrypt_split h
  ⟨pre, kb, iv, d, e, hl, hiv, hd, h1, h2, s1, s4, s6⟩

/-- non-vacuity / (c): key read 1, IV read 0x11…: the call succeeds and leaves the rest of the tape -/
example (pr : Prims) (pub : Pt) (msg : Bytes) (t : Tape) :
    ∃ ct, Ecies.encrypt pr pub msg (some (natBEpad 32 1) :: some (List.replicate 16 0x11) :: t) =
      some (ct, t) :=
  encrypt_of (generateKey_onto 1 (by decide) (by decide) _) (readFull_cons (List.replicate 16 0x11) t)

/-- `bec.Encrypt` fails iff the key generation or the IV read fails (C11.encrypt_none_iff) -/
theorem encrypt_fail (pr : Prims) (pub : Pt) (msg : Bytes) (t : Tape) :
    Ecies.encrypt pr pub msg t = none ↔
      (generateKey t = none ∨
        ∃ d e t1, generateKey t = some (d, e, t1) ∧ readFull 16 t1 = none) := by
  unfold Ecies.encrypt
  cases hg : generateKey t with
  | none => simp
  | some r =>
    obtain ⟨d, e, t1⟩ := r
    simp only
    cases hr : readFull 16 t1 with
    | none => simp [hr]
    | some r2 => obtain ⟨iv, t2⟩ := r2; simp [hr]

/-- `crypto.Encrypt`: the IV is the next 16-byte read and is the first 16 bytes of the output -/
theorem cfbEncrypt_draws (pr : Prims) (key text ct : Bytes) (t t' : Tape) :
    Ecies.cfbEncrypt pr key text t = some (ct, t') ↔
      ∃ iv, t = some iv :: t' ∧ iv.length = 16 ∧ ct = iv ++ pr.cfbEnc key iv (pr.b64enc text) :=
  cfbEncrypt_iff

theorem cfbEncrypt_iv (pr : Prims) (key text ct : Bytes) (t t' : Tape)
    (h : Ecies.cfbEncrypt pr key text t = some (ct, t')) : t = some (ct.take 16) :: t' := by
  obtain ⟨iv, e, hl, rfl⟩ := cfbEncrypt_iff.1 h
  rw [cfb_take_iv hl]; exact e

example (pr : Prims) (key text : Bytes) :
    Ecies.cfbEncrypt pr key text [some (List.replicate 16 3)] =
      some (List.replicate 16 3 ++ pr.cfbEnc key (List.replicate 16 3) (pr.b64enc text), []) :=
  cfbEncrypt_iff.2 ⟨_, rfl, rfl, rfl⟩

theorem cfbEncrypt_fail (pr : Prims) (key text : Bytes) (t : Tape) :
    Ecies.cfbEncrypt pr key text t = none ↔ readFull 16 t = none := cfbEncrypt_none_iff

/-- `NewJSONEnvelope`: the signing key is the value of the last 32-byte read consumed, in [1, N-1];
the `publicKey` field is the hex of the compressed `d•G` and decodes/parses back to `d•G`. -/
theorem newEnvelope_draws (pr : Prims) (fuel : Nat) (pl sg pk : Bytes) (t : Tape)
    (h : Envelope.newEnvelope pr fuel pl t = some (sg, pk)) :
    ∃ pre b t' d, t = pre ++ some b :: t' ∧ b.length = 32 ∧ d = beNat b ∧ 1 ≤ d ∧ d < N ∧
      generateKey t = some (d, smul d G, t') ∧
      pk = Envelope.hexEncode (Ecdsa.serCompressed (smul d G)) ∧
      (Envelope.hexDecode pk).bind Ecdsa.parsePubKey = some (smul d G) := by
  obtain ⟨d, t', r, s, hg, _, _, rfl⟩ := EnvelopeL.newEnvelope_some h
  obtain ⟨pre, b, e, hl, hd, _, h1, h2, _⟩ := generateKey_split hg
  refine ⟨pre, b, t', d, e, hl, hd, h1, h2, hg, rfl, ?_⟩
  rw [EnvelopeL.hexDecode_hexEncode]
  exact GoBk.Props.C05.parse_serCompressed _ (EciesL.valid_smulG d) (EciesL.smulG_ne_inf h1 h2)

/-- `NewJSONEnvelope` fails if the key generation fails (no envelope with a default key) -/
theorem newEnvelope_fail (pr : Prims) (fuel : Nat) (pl : Bytes) (t : Tape)
    (h : generateKey t = none) : Envelope.newEnvelope pr fuel pl t = none := by
  unfold Envelope.newEnvelope; rw [h]

example (pr : Prims) : Envelope.newEnvelope pr 1 [] [none] = none := newEnvelope_fail pr 1 [] _ rfl

/-! ### (b) freshness over any sequence of calls -/

/-- Main statement.  Let the successful multi-byte reads of the tape be pairwise distinct byte
strings.  Run ANY list of calls, each on the tape the previous one left (after a failed call: from
any later position `recover t`).  Then
  * the observable random fields of all outputs — private keys, ephemeral public keys and IVs inside
    `bec.Encrypt` ciphertexts, IVs of `crypto.Encrypt` ciphertexts, seeds, entropies, public keys of
    envelopes — are pairwise distinct (as tagged values `RngL.Field`), and
  * the fields that are raw tape bytes (keys as 32 bytes, IVs, seeds, entropies) are pairwise
    distinct even ACROSS kinds (e.g. no 16-byte seed equals an IV, no 32-byte seed a key). -/
theorem fresh (pr : Prims) (fuel : Nat) (recover : Tape → Tape) (hrec : ∀ t, recover t <:+ t)
    (cs : List Call) (t : Tape) (hd : TapeDistinct t) :
    ((runCalls pr fuel recover cs t).flatMap fields).Nodup ∧
    ((runCalls pr fuel recover cs t).flatMap rawFields).Nodup :=
  fresh_aux pr fuel recover hrec cs t hd

/-- the same, positionally: no field of the `i`-th output equals a field of the `j`-th, `i < j` -/
theorem fresh_pairwise (pr : Prims) (fuel : Nat) (recover : Tape → Tape)
    (hrec : ∀ t, recover t <:+ t) (cs : List Call) (t : Tape) (hd : TapeDistinct t)
    (i j : Nat) (hi : i < (runCalls pr fuel recover cs t).length)
    (hj : j < (runCalls pr fuel recover cs t).length) (hij : i < j) :
    ∀ f ∈ fields (runCalls pr fuel recover cs t)[i],
      ∀ f' ∈ fields (runCalls pr fuel recover cs t)[j], f ≠ f' :=
  fresh_pairwise_aux pr fuel recover hrec cs t hd i j hi hj hij

/-- in particular two generated private keys never coincide -/
theorem fresh_keys (pr : Prims) (fuel : Nat) (recover : Tape → Tape)
    (hrec : ∀ t, recover t <:+ t) (cs : List Call) (t : Tape) (hd : TapeDistinct t)
    (i j : Nat) (hi : i < (runCalls pr fuel recover cs t).length)
    (hj : j < (runCalls pr fuel recover cs t).length) (hij : i < j) (d d' : Nat) (q q' : Pt)
    (h1 : (runCalls pr fuel recover cs t)[i] = .key d q)
    (h2 : (runCalls pr fuel recover cs t)[j] = .key d' q') : d ≠ d' := by
  have := fresh_pairwise pr fuel recover hrec cs t hd i j hi hj hij (.key d) (by rw [h1]; simp [fields])
    (.key d') (by rw [h2]; simp [fields])
  intro e; exact this (by rw [e])

/-- every output corresponds to one call; a failing call yields `error`, never a default value -/
theorem runCalls_length (pr : Prims) (fuel : Nat) (recover : Tape → Tape) (cs : List Call) (t : Tape) :
    (runCalls pr fuel recover cs t).length = cs.length := RngL.runCalls_length pr fuel recover cs t

/-- where the fields come from: they are drawn (`RngL.drawn`) one-to-one from a sub-sequence `ds` of
the tape's multi-byte reads, in order — "each field is its own tape position" -/
theorem fields_from_tape (pr : Prims) (fuel : Nat) (recover : Tape → Tape)
    (hrec : ∀ t, recover t <:+ t) (cs : List Call) (t : Tape) :
    ∃ ds, ds.Sublist (multiReads t) ∧
      List.Forall₂ drawn ((runCalls pr fuel recover cs t).flatMap fields) ds ∧
      ((runCalls pr fuel recover cs t).flatMap rawFields).Sublist ds :=
  runCalls_split pr fuel recover hrec cs t

/-- the one assumption on the source, spelled out -/
theorem tapeDistinct_iff (t : Tape) :
    TapeDistinct t ↔ ((t.filterMap id).filter (fun b => decide (2 ≤ b.length))).Nodup := Iff.rfl

/-- non-vacuity of `fresh`: a tape with distinct reads, the identity as `recover`, and a sequence
key / cfb / seed / key; the outputs are as expected -/
def tape0 : Tape :=
  [some (natBEpad 32 5), some (List.replicate 16 1), some (List.replicate 16 2), some [9],
   some (natBEpad 32 6)]

example : TapeDistinct tape0 ∧ (∀ t : Tape, id t <:+ t) := ⟨by decide +kernel, fun t => List.suffix_refl t⟩

example (pr : Prims) (k x : Bytes) :
    runCalls pr 1 id [.key, .cfb k x, .seed 16, .key] tape0 =
      [.key 5 (smul 5 G),
       .cfb (List.replicate 16 1 ++ pr.cfbEnc k (List.replicate 16 1) (pr.b64enc x)),
       .seed (List.replicate 16 2), .key 6 (smul 6 G)] := by
  have e1 := generateKey_onto 5 (by decide) (by decide)
    [some (List.replicate 16 1), some (List.replicate 16 2), some [9], some (natBEpad 32 6)]
  have e2 := (cfbEncrypt_draws pr k x _ _
    [some (List.replicate 16 2), some [9], some (natBEpad 32 6)]).2 ⟨List.replicate 16 1, rfl, rfl, rfl⟩
  have e3 := (generateSeed_draws 16 _ [some [9], some (natBEpad 32 6)]
    (List.replicate 16 2)).2 ⟨by decide, by decide, rfl, rfl⟩
  have e4 := generateKey_single_skip (d := 6) (by decide) (by decide) 9 []
  unfold tape0
  simp only [runCalls, step, e1, e2, e3, e4, Option.map_some]

/-! ### determinism of everything else -/

/-- value of `x` computed AFTER running any sequence of randomised calls on any tape -/
def afterCalls {α : Type} (pr : Prims) (fuel : Nat) (recover : Tape → Tape) (cs : List Call)
    (t : Tape) (x : α) : α := (runCalls pr fuel recover cs t, x).2

/-- `Sign` (RFC 6979), public-key derivation and the serialisers take no tape argument: their models
are functions of their inputs only, so whatever was drawn before, the value is the same.  (A typing
remark made explicit; the differential harness runs Sign / PubKey / encodings before and after
consuming randomness on the real code.) -/
theorem sign_rng_free (pr : Prims) (fuel : Nat) (rec1 rec2 : Tape → Tape) (cs1 cs2 : List Call)
    (t1 t2 : Tape) (d : Nat) (h : Bytes) :
    afterCalls pr fuel rec1 cs1 t1 (Ecdsa.sign pr fuel d h) =
      afterCalls pr fuel rec2 cs2 t2 (Ecdsa.sign pr fuel d h) ∧
    afterCalls pr fuel rec1 cs1 t1 (Curve.scalarBaseMult (natBE d)) =
      afterCalls pr fuel rec2 cs2 t2 (Curve.scalarBaseMult (natBE d)) ∧
    afterCalls pr fuel rec1 cs1 t1 (Ecdsa.serCompressed (smul d G), Ecdsa.privSerialise d) =
      afterCalls pr fuel rec2 cs2 t2 (Ecdsa.serCompressed (smul d G), Ecdsa.privSerialise d) :=
  ⟨rfl, rfl, rfl⟩

/-- the same key value generated from two different tapes has the same public key, signs identically
and serialises identically: nothing but `d` depends on the tape -/
theorem key_rng_free (pr : Prims) (fuel : Nat) (t1 t2 r1 r2 : Tape) (d : Nat) (q1 q2 : Pt)
    (h : Bytes) (h1 : generateKey t1 = some (d, q1, r1)) (h2 : generateKey t2 = some (d, q2, r2)) :
    q1 = q2 ∧ q1 = smul d G ∧
    Ecdsa.serCompressed q1 = Ecdsa.serCompressed q2 ∧
    Ecdsa.sign pr fuel d h = Ecdsa.sign pr fuel d h := by
  have e1 := (generateKey_draws _ _ _ _ h1).2.2.1
  have e2 := (generateKey_draws _ _ _ _ h2).2.2.1
  exact ⟨e1.trans e2.symm, e1, by rw [e1, e2], rfl⟩

example : generateKey [some (natBEpad 32 1)] = some (1, smul 1 G, []) ∧
    generateKey [some [0], some (natBEpad 32 1), none] = some (1, smul 1 G, [none]) := by
  exact ⟨generateKey_onto 1 (by decide) (by decide) [],
    generateKey_single_skip (by decide) (by decide) 0 [none]⟩

end GoBk.Props.C19

#print axioms GoBk.Props.C19.generateKey_draws
#print axioms GoBk.Props.C19.generateKey_draws_last
#print axioms GoBk.Props.C19.generateKey_onto
#print axioms GoBk.Props.C19.generateKey_differs
#print axioms GoBk.Props.C19.key_of_read_inj
#print axioms GoBk.Props.C19.generateKey_fail
#print axioms GoBk.Props.C19.generateKey_none
#print axioms GoBk.Props.C19.generateSeed_draws
#print axioms GoBk.Props.C19.generateSeed_is_read
#print axioms GoBk.Props.C19.generateSeed_fail
#print axioms GoBk.Props.C19.generateEntropy_draws
#print axioms GoBk.Props.C19.generateEntropy_is_read
#print axioms GoBk.Props.C19.generateEntropy_fail
#print axioms GoBk.Props.C19.encrypt_draws
#print axioms GoBk.Props.C19.encrypt_fail
#print axioms GoBk.Props.C19.cfbEncrypt_draws
#print axioms GoBk.Props.C19.cfbEncrypt_iv
#print axioms GoBk.Props.C19.cfbEncrypt_fail
#print axioms GoBk.Props.C19.newEnvelope_draws
#print axioms GoBk.Props.C19.newEnvelope_fail
#print axioms GoBk.Props.C19.fresh
#print axioms GoBk.Props.C19.fresh_pairwise
#print axioms GoBk.Props.C19.fresh_keys
#print axioms GoBk.Props.C19.runCalls_length
#print axioms GoBk.Props.C19.fields_from_tape
#print axioms GoBk.Props.C19.tapeDistinct_iff
#print axioms GoBk.Props.C19.sign_rng_free
#print axioms GoBk.Props.C19.key_rng_free
