import GoBk.Props.C12
import GoBk.Props.Prims
/-!
# C12, instantiated: the theorems of `Props/C12.lean` for the EXECUTABLE primitives

`Props/C12.lean` is parametric in `pr : Prims` (the HMAC-SHA256 inside `Sign`) and assumes NOTHING about it, so there
is no hypothesis to discharge; the headline statements that mention `pr` are restated for the `realPrims` that are
actually executed.  (`recoverCompact_length`, `recoverCompact_sound` do not mention the primitives.)
-/
namespace GoBk.Props.C12
open GoBk GoBk.Spec GoBk.Bytes GoBk.Proofs GoBk.Props.Prims

/-- `signCompact_layout` for `realPrims` -/
theorem real_signCompact_layout {fuel d : ℕ} {pub : Pt} {h : Bytes} {c : Bool} {out : Bytes}
    (hsc : Ecdsa.signCompact realPrims fuel d pub h c = some out) :
    ∃ r s i, Ecdsa.sign realPrims fuel d h = some (r, s) ∧ i < 4 ∧
      Ecdsa.recoverKey r s h i true = some pub ∧
      out = [UInt8.ofNat (27 + i + (if c then 4 else 0))] ++ natBEpad 32 r ++ natBEpad 32 s ∧
      out.length = 65 :=
  signCompact_layout hsc

/-- `signCompact_total` for `realPrims` -/
theorem real_signCompact_total {fuel d : ℕ} {h : Bytes} {r s : ℕ} (c : Bool)
    (hd : 1 ≤ d ∧ d < N) (hs : Ecdsa.sign realPrims fuel d h = some (r, s)) :
    (Ecdsa.signCompact realPrims fuel d (smul d G) h c).isSome = true :=
  signCompact_total c hd hs

/-- `recover_signCompact` for `realPrims` -/
theorem real_recover_signCompact {fuel d : ℕ} {pub : Pt} {h : Bytes} {c : Bool}
    {out : Bytes} (hsc : Ecdsa.signCompact realPrims fuel d pub h c = some out) :
    Ecdsa.recoverCompact out h = some (pub, c) :=
  recover_signCompact hsc

/-- `signCompact_roundtrip` for `realPrims` -/
theorem real_signCompact_roundtrip {fuel d : ℕ} {h : Bytes} {r s : ℕ} (c : Bool)
    (hd : 1 ≤ d ∧ d < N) (hs : Ecdsa.sign realPrims fuel d h = some (r, s)) :
    ∃ out, Ecdsa.signCompact realPrims fuel d (smul d G) h c = some out ∧
      Ecdsa.recoverCompact out h = some (smul d G, c) :=
  signCompact_roundtrip c hd hs

end GoBk.Props.C12

#print axioms GoBk.Props.C12.real_signCompact_layout
#print axioms GoBk.Props.C12.real_signCompact_total
#print axioms GoBk.Props.C12.real_recover_signCompact
#print axioms GoBk.Props.C12.real_signCompact_roundtrip
