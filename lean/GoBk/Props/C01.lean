import GoBk.Proofs.KeyLemmas
/-
  C01 (API level) — "Add, Double, ScalarMult and ScalarBaseMult return exactly the affine
  coordinates of the group-law result … scalar byte strings of any length and value (empty,
  zero, >= N, longer than 32 bytes, leading zeros) …; IsOnCurve(x,y) on coordinates in [0,p)
  is true exactly when y^2 = x^3 + 7 (mod p)."

  SCOPE.  These theorems are about the API-level model `GoBk.Model.Curve` (`GoBk.Curve.add`,
  `double`, `scalarMult`, `scalarBaseMult`, `isOnCurve`, `moduloReduce`), i.e. the exported
  methods of `KoblitzCurve` seen as functions on affine big integers.  They state that this model
  computes the group law of the Mathlib elliptic curve `E : y² = x³ + 7` over `ZMod P`
  (`enc : E.Point → Nat × Nat`, `0 ↦ (0,0)`), for EVERY scalar byte string.  The refinement of the
  real Jacobian / field / NAF / byte-table code of /repo/bec/btcec.go and field.go to this model is
  the subject of other modules (Gen/Field, Gen/CurveIR, Proofs/*) and is NOT claimed here.
  (The executable `Curve.scalarMult/scalarBaseMult` take a Jacobian ladder `GoBk.Fast`; its equality
  with the reference `Spec.smul` is `GoBk.Proofs.CurveDef`, the only way these proofs look at them.)

  Property theorems only; proofs use `GoBk.Proofs.{CurveSpec,GroupOrder,KeyLemmas}`.
-/
namespace GoBk.Props.C01
open GoBk Bytes Spec GoBk.Proofs GoBk.Proofs.KeyBytes

/-- `Add` returns the affine coordinates of the group sum ((0,0) for the point at infinity). -/
theorem add_exact (Q R : E.Point) : Curve.add (enc Q) (enc R) = enc (Q + R) := by
  rw [Curve.add_def]; exact padd_enc Q R

/-- `Double` returns the affine coordinates of `2•Q`. -/
theorem double_exact (Q : E.Point) : Curve.double (enc Q) = enc (2 • Q) := by
  rw [two_nsmul, Curve.double_def]; exact pdouble_enc Q

/-- `ScalarMult(Q, k)` is `beNat k • Q` for EVERY byte string `k`
(empty, zero, ≥ N, longer than 32 bytes, leading zeros). -/
theorem scalarMult_exact (Q : E.Point) (k : Bytes) :
    Curve.scalarMult (enc Q) k = enc (beNat k • Q) := by
  rw [scalarMult_eq k (valid_enc Q), smul_enc]

/-- `ScalarBaseMult(k)` is `beNat k • G` for EVERY byte string `k`. -/
theorem scalarBaseMult_exact (k : Bytes) : Curve.scalarBaseMult k = enc (beNat k • Gpt) := by
  rw [scalarBaseMult_eq, ← enc_Gpt, smul_enc]

/-- the scalar is only used modulo the group order -/
theorem scalarMult_mod_N (Q : E.Point) (k : Bytes) :
    Curve.scalarMult (enc Q) k = enc ((beNat k % N) • Q) := by
  rw [scalarMult_exact, ← smul_enc, ← smul_enc, smul_mod_N _ (valid_enc Q)]

/-- `moduloReduce` (applied to scalars longer than 32 bytes) preserves the scalar modulo `N`,
and is the identity up to 32 bytes. -/
theorem moduloReduce_spec (k : Bytes) :
    beNat (Curve.moduloReduce k) % N = beNat k % N ∧
    (k.length ≤ 32 → Curve.moduloReduce k = k) ∧
    (32 < k.length → beNat (Curve.moduloReduce k) = beNat k % N) := by
  refine ⟨beNat_moduloReduce k, moduloReduce_of_le k, fun h => ?_⟩
  unfold Curve.moduloReduce
  rw [if_pos h, beNat_natBE, c_N_eq]

/-- special scalars: empty / zero / the group order give the point at infinity `(0,0)` -/
theorem scalarMult_special (Q : E.Point) :
    Curve.scalarMult (enc Q) [] = (0, 0) ∧
    (∀ n, Curve.scalarMult (enc Q) (List.replicate n 0) = (0, 0)) ∧
    Curve.scalarMult (enc Q) (natBE N) = (0, 0) := by
  refine ⟨?_, fun n => ?_, ?_⟩
  · rw [scalarMult_exact]; simp; rfl
  · rw [scalarMult_exact, beNat_replicate_zero]; simp; rfl
  · rw [scalarMult_exact, beNat_natBE, smul_N]; rfl

/-- leading zero bytes do not change the result -/
theorem scalarMult_leading_zeros (Q : E.Point) (n : Nat) (k : Bytes) :
    Curve.scalarMult (enc Q) (List.replicate n 0 ++ k) = Curve.scalarMult (enc Q) k := by
  rw [scalarMult_exact, scalarMult_exact, beNat_replicate_zero_append]

/-- `IsOnCurve(x, y)` is true exactly when `y² ≡ x³ + 7 (mod P)`
(stated for all naturals; the property restricts to `[0,P)` where the model is tied to the code). -/
theorem isOnCurve_iff (x y : Nat) :
    Curve.isOnCurve (x, y) = true ↔ y ^ 2 ≡ x ^ 3 + 7 [MOD P] := by
  rw [Curve.isOnCurve_def]; exact onCurve_iff x y

/-- on reduced coordinates, `IsOnCurve` holds exactly for the affine points of `E` -/
theorem isOnCurve_iff_enc (x y : Nat) (hx : x < P) (hy : y < P) :
    Curve.isOnCurve (x, y) = true ↔ ∃ Q : E.Point, Q ≠ 0 ∧ enc Q = (x, y) := by
  rw [Curve.isOnCurve_def]
  constructor
  · intro h
    obtain ⟨Q, hQ⟩ := (valid_iff (x, y)).1 (valid_of_onCurve hx hy h)
    refine ⟨Q, fun h0 => ?_, hQ⟩
    subst h0
    exact ne_inf_of_onCurve h hQ.symm
  · rintro ⟨Q, hQ, he⟩
    have hv : valid (x, y) = true := he ▸ valid_enc Q
    exact onCurve_of_valid hv (fun h => hQ ((enc_eq_inf_iff Q).1 (he.trans h)))

/-- every result is a reduced affine point of the curve or `(0,0)`: coordinates are `< P`. -/
theorem results_reduced (Q R : E.Point) (k : Bytes) :
    valid (Curve.add (enc Q) (enc R)) = true ∧ valid (Curve.double (enc Q)) = true ∧
    valid (Curve.scalarMult (enc Q) k) = true ∧ valid (Curve.scalarBaseMult k) = true := by
  refine ⟨?_, ?_, ?_, ?_⟩
  · rw [add_exact]; exact valid_enc _
  · rw [double_exact]; exact valid_enc _
  · rw [scalarMult_exact]; exact valid_enc _
  · rw [scalarBaseMult_exact]; exact valid_enc _

theorem valid_coords_lt {a : Pt} (h : valid a = true) : a.1 < P ∧ a.2 < P := valid_lt h

/-! ### the same statements on `Pt` (no Mathlib types in the statement) -/

theorem add_valid {a b : Pt} (ha : valid a = true) (hb : valid b = true) :
    Curve.add a b = padd a b ∧ valid (Curve.add a b) = true := by
  rw [Curve.add_def]; exact ⟨rfl, valid_padd ha hb⟩

theorem scalarMult_pt (k : Bytes) {a : Pt} (ha : valid a = true) :
    Curve.scalarMult a k = smul (beNat k) a ∧ valid (Curve.scalarMult a k) = true := by
  rw [scalarMult_eq k ha]; exact ⟨rfl, valid_smul _ ha⟩

theorem scalarBaseMult_pt (k : Bytes) :
    Curve.scalarBaseMult k = smul (beNat k) G ∧ valid (Curve.scalarBaseMult k) = true := by
  rw [scalarBaseMult_eq]; exact ⟨rfl, valid_smul _ valid_G⟩

/-- non-vacuity: `G` is a valid point, a 33-byte scalar ≥ N is covered. -/
example : valid G = true ∧ (natBE (N + 5) ++ [0]).length = 33 ∧
    Curve.scalarBaseMult (natBE (N + 5) ++ [0]) = smul ((N + 5) * 256) G := by
  refine ⟨valid_G, by decide +kernel, ?_⟩
  rw [(scalarBaseMult_pt _).1, beNat_concat, beNat_natBE]; rfl

end GoBk.Props.C01

#print axioms GoBk.Props.C01.add_exact
#print axioms GoBk.Props.C01.double_exact
#print axioms GoBk.Props.C01.scalarMult_exact
#print axioms GoBk.Props.C01.scalarBaseMult_exact
#print axioms GoBk.Props.C01.scalarMult_mod_N
#print axioms GoBk.Props.C01.moduloReduce_spec
#print axioms GoBk.Props.C01.scalarMult_special
#print axioms GoBk.Props.C01.scalarMult_leading_zeros
#print axioms GoBk.Props.C01.isOnCurve_iff
#print axioms GoBk.Props.C01.isOnCurve_iff_enc
#print axioms GoBk.Props.C01.results_reduced
#print axioms GoBk.Props.C01.scalarMult_pt
#print axioms GoBk.Props.C01.scalarBaseMult_pt
