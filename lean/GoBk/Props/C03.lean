import GoBk.Proofs.EcdsaLemmas
/-
  C03 — "For every valid public key Q, every hash byte string and every pair of integers (r,s),
  Verify returns true iff 1 <= r,s < N and the x-coordinate of (e/s)G + (r/s)Q, reduced mod N,
  equals r, where e is the hash truncated to 256 bits (and the sum is not the point at infinity).
  Consequently (r, N-s) verifies whenever (r,s) does."

  Property theorems only; the lemmas are in `GoBk.Proofs.EcdsaLemmas`.
  Model: `GoBk.Ecdsa.verify` (= `Signature.Verify` → Go 1.23.5 `crypto/ecdsa.verifyLegacy`).
  All statements are about `Spec.N`; `Ecdsa.N = Gen.c_N = Spec.N` is `Proofs.EN`.
-/
namespace GoBk.Props.C03
open GoBk GoBk.Spec GoBk.Bytes GoBk.Proofs

/-- `e`: the hash truncated to its leftmost 256 bits (32 bytes), read big-endian; hashes shorter
than 32 bytes are taken whole. -/
theorem hashToInt_def (h : Bytes) : Ecdsa.hashToInt h = beNat (h.take 32) := hashToInt_eq h

/-- `w = s⁻¹` in the field of order `N`: so `e*w % N` and `r*w % N` are the quotients `e/s`, `r/s`. -/
theorem verify_w_spec (s : Int) (hs1 : 1 ≤ s) (hsN : s < N) :
    s.toNat * invMod s.toNat N % N = 1 := by
  apply invModN_spec
  rw [Nat.mod_eq_of_lt (by omega)]; omega

example : (1 : Int) ≤ 5 ∧ (5 : Int) < N := by decide

/-- The acceptance condition of `Verify`.  It holds for every pair of coordinates `q` (the model
computes with the reference group law on whatever it is given); the property concerns valid `q`,
for which `padd`/`smul` are the group operations (`Proofs.valid_iff`, `padd_enc`, `smul_enc`). -/
theorem verify_iff (q : Pt) (h : Bytes) (r s : Int) :
    Ecdsa.verify q h r s = true ↔
      1 ≤ r ∧ r < N ∧ 1 ≤ s ∧ s < N ∧
        (let w := invMod s.toNat N
         let R := padd (smul (Ecdsa.hashToInt h * w % N) G) (smul (r.toNat * w % N) q)
         R ≠ inf ∧ R.1 % N = r.toNat) := by
  by_cases hr : (1 ≤ r ∧ r < N) ∧ (1 ≤ s ∧ s < N)
  · obtain ⟨⟨h1, h2⟩, h3, h4⟩ := hr
    rw [verify_of_range q h h1 h2 h3 h4]
    exact ⟨fun hh => ⟨h1, h2, h3, h4, hh⟩, fun hh => hh.2.2.2.2⟩
  · rw [verify_out_of_range q h (by omega)]
    constructor
    · intro h; cases h
    · rintro ⟨h1, h2, h3, h4, _⟩; exact absurd ⟨⟨h1, h2⟩, h3, h4⟩ hr

/-- non-vacuity: a signature that is accepted (Q = G, empty hash, r = s = x(G)) -/
example : Ecdsa.verify G [] (Gx : Int) (Gx : Int) = true := by decide +kernel

/-- anything outside `[1,N-1]²` is rejected -/
theorem verify_rejects_out_of_range (q : Pt) (h : Bytes) (r s : Int)
    (hr : r ≤ 0 ∨ s ≤ 0 ∨ (N : Int) ≤ r ∨ (N : Int) ≤ s) : Ecdsa.verify q h r s = false :=
  verify_out_of_range q h hr

example : ((0 : Int) ≤ 0 ∨ (1 : Int) ≤ 0 ∨ (N : Int) ≤ 0 ∨ (N : Int) ≤ 1) := Or.inl (le_refl _)

/-- the twin `(r, N-s)` is accepted exactly when `(r,s)` is: negating both scalars negates the
point, which keeps its x-coordinate and whether it is the point at infinity. -/
theorem verify_twin {q : Pt} (hq : valid q = true) (h : Bytes) (r : Int) {s : Int}
    (hs1 : 1 ≤ s) (hsN : s < N) :
    Ecdsa.verify q h r ((N : Int) - s) = Ecdsa.verify q h r s := by
  by_cases hr : 1 ≤ r ∧ r < N
  · rw [Bool.eq_iff_iff, verify_of_range q h hr.1 hr.2 hs1 hsN,
      verify_of_range q h hr.1 hr.2 (by omega) (by omega)]
    have : ((N : Int) - s).toNat = N - s.toNat := by omega
    rw [this, verifyPt_twin hq h _ (by omega), pneg_fst, Ne, Ne,
      pneg_eq_inf_iff (valid_verifyPt hq h _ _)]
  · rw [verify_out_of_range, verify_out_of_range] <;> omega

example : valid G = true ∧ (1 : Int) ≤ 5 ∧ (5 : Int) < N := ⟨valid_G, by decide, by decide⟩

end GoBk.Props.C03

#print axioms GoBk.Props.C03.hashToInt_def
#print axioms GoBk.Props.C03.verify_w_spec
#print axioms GoBk.Props.C03.verify_iff
#print axioms GoBk.Props.C03.verify_rejects_out_of_range
#print axioms GoBk.Props.C03.verify_twin
