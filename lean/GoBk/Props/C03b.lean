import GoBk.Props.C03
/-!
# C03, continued: what verification does and does not look at

Corollaries of `verify_iff`: the verdict depends on the hash only through its first 32 bytes (so two digests that agree
there are interchangeable, and nothing else about them matters), and a valid signature is never valid with `r` or `s`
shifted by the group order (the range check is part of the acceptance condition, not a convenience).
-/
namespace GoBk.Props.C03
open GoBk GoBk.Spec GoBk.Bytes GoBk.Proofs

/-- only the first 32 bytes of the hash are read -/
theorem verify_hash_prefix (q : Pt) (h h' : Bytes) (r s : Int) (e : h.take 32 = h'.take 32) :
    Ecdsa.verify q h r s = Ecdsa.verify q h' r s := by
  rw [Bool.eq_iff_iff, verify_iff, verify_iff, hashToInt_def, hashToInt_def, e]

/-- `r + N` (same residue, out of range) is rejected even when `r` is accepted; likewise `s + N` -/
theorem verify_rejects_shifted (q : Pt) (h : Bytes) (r s : Int) (hr : 0 ≤ r) (hs : 0 ≤ s) :
    Ecdsa.verify q h (r + N) s = false ∧ Ecdsa.verify q h r (s + N) = false :=
  ⟨verify_rejects_out_of_range q h _ _ (Or.inr (Or.inr (Or.inl (by omega)))),
   verify_rejects_out_of_range q h _ _ (Or.inr (Or.inr (Or.inr (by omega))))⟩

example : ([1, 2, 3] : Bytes).take 32 = ([1, 2, 3] : Bytes).take 32 := rfl

end GoBk.Props.C03

#print axioms GoBk.Props.C03.verify_hash_prefix
#print axioms GoBk.Props.C03.verify_rejects_shifted
