import GoBk.Proofs.EciesLemmas
import GoBk.Props.C05
/-
  C11 — ECDH / ECIES / AES-CFB helper.

  "For all key pairs a, b, GenerateSharedSecret(a, b*G) and GenerateSharedSecret(b, a*G) both equal
   the 32-byte big-endian x-coordinate of (a*b)*G.  For every message (including the empty one)
   Decrypt(priv, Encrypt(pub, m)) = m and the ciphertext has the documented layout (IV, 0x02CA,
   lengths, ephemeral point, AES-256-CBC/PKCS#7 body, HMAC-SHA256 keyed from SHA-512 of the ECDH
   secret) …; any change to any byte, truncation, extension or a different private key makes
   Decrypt return an error.  The AES-CFB helper in package crypto likewise round-trips every
   plaintext for every AES key size."

  Models: `GoBk.Ecies` (Model/Ecies.lean) over the tape model `GoBk.Rng` of crypto/rand.
  SHA-512, HMAC-SHA256, AES-CBC, AES-CFB and base64 are PARAMETERS (`pr : Prims`); only the facts
  listed in `PrimsOK pr` are assumed (output lengths; `cbcDec ∘ cbcEnc = id` on whole blocks with a
  32-byte key and 16-byte IV; `cfbDec ∘ cfbEnc = id`; `b64dec ∘ b64enc = some`).

  What is and is not a theorem here.
  * `ecdh_agree`, `pkcs7_*`, `encrypt_layout`, `decrypt_encrypt`, `cfb_roundtrip`: as in the text.
  * Tampering: `decrypt_ok_imp` is the exact acceptance condition; its corollaries reject every
    truncation below 134 bytes, every length ≢ 6 (mod 16), every change to a header magic / length
    byte, and every change confined to the 32-byte tag.  The general sentence "any change to any
    byte makes Decrypt fail" is equivalent to unforgeability of HMAC-SHA256 under the derived key
    and CANNOT be a theorem about an arbitrary function `pr.hmac256`; `tamper_imp_forgery` states
    precisely that an accepted altered ciphertext exhibits a valid (key, message, tag) triple.
  * Different private key: FALSE as stated — known finding K1 (`decrypt_neg_key`): the key `N − x`
    decrypts everything `x` decrypts (x-only ECDH).  `ecdh_secret_eq_iff` is the exact condition
    `d' ≡ ±x (mod N)` for the two ECDH secrets to agree; for any other key acceptance requires an
    HMAC collision between two different keys (`wrong_key_imp_collision`).

  Property theorems only; proofs are in `GoBk.Proofs.EciesLemmas`.
-/
namespace GoBk.Props.C11
open GoBk Bytes Spec GoBk.Proofs GoBk.Proofs.KeyBytes GoBk.Proofs.EciesL

/-! ### ECDH -/

/-- both parties compute the 32-byte big-endian x-coordinate of `(a·b)•G`.
No bound on `a`, `b` is needed: `ScalarMult` reduces long scalars mod N, which does not change the
point.  (32 bytes exactly: after fix D11, 61ee87f.) -/
theorem ecdh_agree (a b : Nat) :
    Ecies.sharedSecret a (smul b G) = Ecies.sharedSecret b (smul a G) ∧
    Ecies.sharedSecret a (smul b G) = natBEpad 32 (smul (a * b) G).1 ∧
    (Ecies.sharedSecret a (smul b G)).length = 32 := by
  have e1 : Ecies.sharedSecret a (smul b G) = natBEpad 32 (smul (a * b) G).1 := by
    rw [sharedSecret_eq a (valid_smulG b), smul_smul a b valid_G]
  have e2 : Ecies.sharedSecret b (smul a G) = natBEpad 32 (smul (a * b) G).1 := by
    rw [sharedSecret_eq b (valid_smulG a), smul_smul b a valid_G, Nat.mul_comm]
  exact ⟨e1.trans e2.symm, e1, sharedSecret_length a (valid_smulG b)⟩

/-- for any valid peer point the secret is the padded x-coordinate of `d•R`, 32 bytes long -/
theorem sharedSecret_spec (d : Nat) (R : Pt) (hR : valid R = true) :
    Ecies.sharedSecret d R = natBEpad 32 (smul d R).1 ∧ (Ecies.sharedSecret d R).length = 32 ∧
    beNat (Ecies.sharedSecret d R) = (smul d R).1 :=
  ⟨sharedSecret_eq d hR, sharedSecret_length d hR, by rw [sharedSecret_eq d hR, beNat_natBEpad]⟩

example : valid G = true := valid_G

/-! ### PKCS#7 -/

theorem pkcs7_roundtrip (m : Bytes) :
    Ecies.removePKCSPadding (Ecies.addPKCSPadding m) = some m := removePKCS_add m

theorem pkcs7_length (m : Bytes) :
    (Ecies.addPKCSPadding m).length % 16 = 0 ∧ 16 ≤ (Ecies.addPKCSPadding m).length ∧
    m.length < (Ecies.addPKCSPadding m).length ∧ (Ecies.addPKCSPadding m).length ≤ m.length + 16 := by
  have h := addPKCS_length m
  have hb := padLen_bounds m.length
  exact ⟨addPKCS_length_mod m, addPKCS_length_ge m, by omega, by omega⟩

/-- the padding is `n` copies of the byte `n`, `1 ≤ n ≤ 16` -/
theorem pkcs7_layout (m : Bytes) :
    ∃ n, 1 ≤ n ∧ n ≤ 16 ∧ (m.length + n) % 16 = 0 ∧
      Ecies.addPKCSPadding m = m ++ List.replicate n (UInt8.ofNat n) := by
  have hb := padLen_bounds m.length
  refine ⟨16 - m.length % 16, hb.1, hb.2, ?_, rfl⟩
  have := Nat.mod_lt m.length (show 0 < 16 by decide); omega

/-! ### Encrypt: layout -/

/-- A successful `Encrypt(pub, msg)` drew an ephemeral scalar `d ∈ [1, N−1]` (a 32-byte read of the
tape) and a 16-byte IV (a later read of the tape) and returned
`IV ‖ 02CA 0020 ‖ X(d•G) ‖ 0020 ‖ Y(d•G) ‖ CBC_keyE,IV(PKCS7(msg)) ‖ HMAC_keyM(all before)`
with `keyE ‖ keyM = SHA-512(ECDH secret of d and pub)`. -/
theorem encrypt_layout (pr : Prims) (pub : Pt) (msg ct : Bytes) (t t' : Rng.Tape)
    (h : Ecies.encrypt pr pub msg t = some (ct, t')) :
    ∃ d eph iv,
      1 ≤ d ∧ d < N ∧ eph = smul d G ∧ iv.length = 16 ∧
      (∃ kb, some kb ∈ t ∧ kb.length = 32 ∧ d = beNat kb) ∧ some iv ∈ t ∧ t' <:+ t ∧
      let keyE := (pr.sha512 (Ecies.sharedSecret d pub)).take 32
      let keyM := (pr.sha512 (Ecies.sharedSecret d pub)).drop 32
      let body := iv ++ [0x02, 0xCA, 0x00, 0x20] ++ natBEpad 32 eph.1 ++ [0x00, 0x20] ++
                  natBEpad 32 eph.2 ++ pr.cbcEnc keyE iv (Ecies.addPKCSPadding msg)
      ct = body ++ pr.hmac256 keyM body := by
  obtain ⟨d, iv, t1, hg, hr, hct⟩ := encrypt_some h
  obtain ⟨h1, h2, _, kb, hkb, hl, hd, hs⟩ := generateKey_some hg
  obtain ⟨ht1, hiv⟩ := readFull_some hr
  have hs' : t' <:+ t := by
    rw [ht1] at hs; exact (List.suffix_cons _ _).trans hs
  have hivm : some iv ∈ t := by
    apply hs.subset; rw [ht1]; exact List.mem_cons_self
  exact ⟨d, smul d G, iv, h1, h2, rfl, hiv, ⟨kb, hkb, hl, hd⟩, hivm, hs', hct⟩

/-- lengths: ciphertext = 16 + 70 + |PKCS7(msg)| + 32, i.e. `118 + 16·(⌊|msg|/16⌋ + 1)` -/
theorem encrypt_length (pr : Prims) (hp : PrimsOK pr) (pub : Pt) (msg ct : Bytes) (t t' : Rng.Tape)
    (h : Ecies.encrypt pr pub msg t = some (ct, t')) :
    ct.length = 118 + (Ecies.addPKCSPadding msg).length ∧ 134 ≤ ct.length ∧ ct.length % 16 = 6 := by
  obtain ⟨d, iv, t1, hg, hr, hct⟩ := encrypt_some h
  obtain ⟨_, hiv⟩ := readFull_some hr
  have lx := natBEpad32_length_of_lt_P (valid_lt (valid_smulG d)).1
  have ly := natBEpad32_length_of_lt_P (valid_lt (valid_smulG d)).2
  have hl : ct.length = 118 + (Ecies.addPKCSPadding msg).length := by
    rw [hct, layout_length hiv lx ly (hp.hmac256_len _ _), hp.cbc_len _ _ _ (addPKCS_length_mod msg)]
  have h1 := addPKCS_length_mod msg
  have h2 := addPKCS_length_ge msg
  exact ⟨hl, by omega, by omega⟩

/-- `Encrypt` fails only if the random source does (no key in 1..N−1 found, or a failed read) -/
theorem encrypt_none_iff (pr : Prims) (pub : Pt) (msg : Bytes) (t : Rng.Tape) :
    Ecies.encrypt pr pub msg t = none ↔
      (Rng.generateKey t = none ∨
        ∃ d e t1, Rng.generateKey t = some (d, e, t1) ∧ Rng.readFull 16 t1 = none) := by
  unfold Ecies.encrypt
  cases hg : Rng.generateKey t with
  | none => simp
  | some r =>
    obtain ⟨d, e, t1⟩ := r
    simp only
    cases hr : Rng.readFull 16 t1 with
    | none => simp [hr]
    | some r2 => obtain ⟨iv, t2⟩ := r2; simp [hr]

/-! ### Decrypt ∘ Encrypt -/

/-- `Decrypt(x, Encrypt(x•G, msg)) = msg` for every message (including the empty one) and every
private scalar `x` (the hypothesis `1 ≤ x < N` of a real key is not even needed). -/
theorem decrypt_encrypt (pr : Prims) (hp : PrimsOK pr) (x : Nat) (msg ct : Bytes)
    (t t' : Rng.Tape) (h : Ecies.encrypt pr (smul x G) msg t = some (ct, t')) :
    Ecies.decrypt pr x ct = some msg := by
  obtain ⟨d, iv, t1, hg, hr, hct⟩ := encrypt_some h
  obtain ⟨h1, h2, _⟩ := generateKey_some hg
  obtain ⟨_, hiv⟩ := readFull_some hr
  have hv := valid_smulG d
  have lx := natBEpad32_length_of_lt_P (valid_lt hv).1
  have ly := natBEpad32_length_of_lt_P (valid_lt hv).2
  have hq : Ecdsa.parsePubKey ([0x04] ++ natBEpad 32 (smul d G).1 ++ natBEpad 32 (smul d G).2) =
      some (smul d G) := C05.parse_serUncompressed _ hv (smulG_ne_inf h1 h2)
  have hsec : Ecies.sharedSecret x (smul d G) = Ecies.sharedSecret d (smul x G) :=
    (ecdh_agree x d).1
  have hkE : keyE pr x (smul d G) = keyE pr d (smul x G) := by simp only [keyE, hsec]
  have hkM : keyM pr x (smul d G) = keyM pr d (smul x G) := by simp only [keyM, hsec]
  have hkl : (keyE pr d (smul x G)).length = 32 := by
    simp [keyE, hp.sha512_len]
  rw [hct, decrypt_layout pr x (smul d G) hiv lx ly (hp.hmac256_len _ _)
    (by rw [hp.cbc_len _ _ _ (addPKCS_length_mod msg)]; exact addPKCS_length_ge msg)
    (by rw [hp.cbc_len _ _ _ (addPKCS_length_mod msg)]; exact addPKCS_length_mod msg) hq]
  rw [hkE, hkM, if_pos rfl, hp.cbc_inv _ _ _ hkl hiv (addPKCS_length_mod msg)]
  exact removePKCS_add msg

/-- non-vacuity of `decrypt_encrypt`: with any primitives, a tape holding a 32-byte read of value 5
and a 16-byte read makes `Encrypt` succeed (here: empty message, recipient `7•G`). -/
example (pr : Prims) : ∃ ct t', Ecies.encrypt pr (smul 7 G) []
    [some (natBEpad 32 5), some (List.replicate 16 0xAB)] = some (ct, t') := by
  have hk : Rng.generateKey [some (natBEpad 32 5), some (List.replicate 16 0xAB)] =
      some (5, Curve.scalarBaseMult (natBE 5), [some (List.replicate 16 0xAB)]) := by
    have h5 : (natBEpad 32 5).length = 32 := by decide
    have hb : beNat (natBEpad 32 5) = 5 := beNat_natBEpad _ _
    have hc : (5 : Nat) < Gen.c_N := by decide
    simp [Rng.generateKey, Rng.skipMaybeByte, Rng.genKeyLoop, Rng.readFull, h5, hb, hc]
  unfold Ecies.encrypt
  rw [hk]
  simp [Rng.readFull]

/-! ### what `Decrypt` accepts -/

/-- The exact acceptance condition of `Decrypt` (an `iff`). `pointBytes c` is
`04 ‖ c[20..52) ‖ c[54..86)`. -/
theorem decrypt_iff (pr : Prims) (d : Nat) (c m : Bytes) :
    Ecies.decrypt pr d c = some m ↔
      134 ≤ c.length ∧ (c.drop 16).take 2 = [0x02, 0xCA] ∧ (c.drop 18).take 2 = [0x00, 0x20] ∧
      (c.drop 52).take 2 = [0x00, 0x20] ∧
      ∃ q, Ecdsa.parsePubKey ([0x04] ++ (c.drop 20).take 32 ++ (c.drop 54).take 32) = some q ∧
        (c.length - 134) % 16 = 0 ∧
        c.drop (c.length - 32) =
          pr.hmac256 ((pr.sha512 (Ecies.sharedSecret d q)).drop 32) (c.take (c.length - 32)) ∧
        Ecies.removePKCSPadding
          (pr.cbcDec ((pr.sha512 (Ecies.sharedSecret d q)).take 32) (c.take 16)
            ((c.take (c.length - 32)).drop 86)) = some m :=
  EciesL.decrypt_iff pr d c m

/-- an accepted ciphertext has the header, a valid embedded point, whole blocks and a correct MAC -/
theorem decrypt_ok_imp (pr : Prims) (d : Nat) (c m : Bytes) (h : Ecies.decrypt pr d c = some m) :
    134 ≤ c.length ∧ (c.drop 16).take 4 = [0x02, 0xCA, 0x00, 0x20] ∧
    (c.drop 52).take 2 = [0x00, 0x20] ∧
    (∃ q, Ecdsa.parsePubKey ([0x04] ++ (c.drop 20).take 32 ++ (c.drop 54).take 32) = some q ∧
      valid q = true ∧ q ≠ inf ∧
      c.drop (c.length - 32) =
        pr.hmac256 ((pr.sha512 (Ecies.sharedSecret d q)).drop 32) (c.take (c.length - 32))) ∧
    (c.length - 118) % 16 = 0 := by
  obtain ⟨h0, h1, h2, h3, q, hq, hr, hm, _⟩ := (decrypt_iff pr d c m).1 h
  refine ⟨h0, ?_, h3, ⟨q, hq, ?_, ?_, hm⟩, by omega⟩
  · have e : (c.drop 16).take 4 = (c.drop 16).take 2 ++ (c.drop 18).take 2 := by
      rw [show (18 : Nat) = 16 + 2 from rfl, ← List.drop_drop]
      rw [show (4 : Nat) = 2 + 2 from rfl, List.take_add]
    rw [e, h1, h2]; rfl
  · exact (C05.parsePubKey_sound _ _ hq).1
  · exact (C05.parsePubKey_sound _ _ hq).2.1

/-- truncation below 134 bytes is rejected -/
theorem decrypt_short (pr : Prims) (d : Nat) (c : Bytes) (h : c.length < 134) :
    Ecies.decrypt pr d c = none := by
  cases hd : Ecies.decrypt pr d c with
  | none => rfl
  | some m => have := (decrypt_ok_imp pr d c m hd).1; omega

/-- any length not ≡ 6 (mod 16) is rejected (so is every truncation / extension by 1..15 bytes) -/
theorem decrypt_bad_length (pr : Prims) (d : Nat) (c : Bytes) (h : c.length % 16 ≠ 6) :
    Ecies.decrypt pr d c = none := by
  cases hd : Ecies.decrypt pr d c with
  | none => rfl
  | some m =>
    obtain ⟨h0, _, _, _, h4⟩ := decrypt_ok_imp pr d c m hd
    omega

/-- truncating or extending an accepted ciphertext by a number of bytes that is not a multiple of
16 is rejected (under every key) -/
theorem decrypt_resize (pr : Prims) (d d' : Nat) (c c' m : Bytes)
    (h : Ecies.decrypt pr d c = some m) (hl : c'.length % 16 ≠ c.length % 16) :
    Ecies.decrypt pr d' c' = none := by
  obtain ⟨h0, _, _, _, h4⟩ := decrypt_ok_imp pr d c m h
  exact decrypt_bad_length pr d' c' (by omega)

/-- the six header bytes are fixed -/
theorem decrypt_header_bytes (pr : Prims) (d : Nat) (c m : Bytes)
    (h : Ecies.decrypt pr d c = some m) :
    c[16]? = some 0x02 ∧ c[17]? = some 0xCA ∧ c[18]? = some 0x00 ∧ c[19]? = some 0x20 ∧
    c[52]? = some 0x00 ∧ c[53]? = some 0x20 := by
  obtain ⟨_, h1, h2, _, _⟩ := decrypt_ok_imp pr d c m h
  have a0 := congrArg (·[0]?) h1
  have a1 := congrArg (·[1]?) h1
  have a2 := congrArg (·[2]?) h1
  have a3 := congrArg (·[3]?) h1
  have b0 := congrArg (·[0]?) h2
  have b1 := congrArg (·[1]?) h2
  simp [List.getElem?_drop] at a0 a1 a2 a3 b0 b1
  exact ⟨a0, a1, a2, a3, b0, b1⟩

/-- changing a header magic / length byte of ANY string yields a rejected string if the original
was accepted (by any key) -/
theorem decrypt_header_change (pr : Prims) (d d' : Nat) (c c' m : Bytes)
    (h : Ecies.decrypt pr d c = some m) (i : Nat) (hi : i ∈ [16, 17, 18, 19, 52, 53])
    (hne : c'[i]? ≠ c[i]?) : Ecies.decrypt pr d' c' = none := by
  cases hd : Ecies.decrypt pr d' c' with
  | none => rfl
  | some m' =>
    exfalso
    obtain ⟨a0, a1, a2, a3, a4, a5⟩ := decrypt_header_bytes pr d c m h
    obtain ⟨b0, b1, b2, b3, b4, b5⟩ := decrypt_header_bytes pr d' c' m' hd
    simp only [List.mem_cons, List.not_mem_nil, or_false] at hi
    rcases hi with rfl | rfl | rfl | rfl | rfl | rfl
    · exact hne (b0.trans a0.symm)
    · exact hne (b1.trans a1.symm)
    · exact hne (b2.trans a2.symm)
    · exact hne (b3.trans a3.symm)
    · exact hne (b4.trans a4.symm)
    · exact hne (b5.trans a5.symm)

/-- changing only the tag (the last 32 bytes) of an accepted ciphertext is rejected -/
theorem decrypt_tag_change (pr : Prims) (d : Nat) (body T T' m : Bytes)
    (h : Ecies.decrypt pr d (body ++ T) = some m) (hT : T.length = 32) (hT' : T'.length = 32)
    (hne : T' ≠ T) : Ecies.decrypt pr d (body ++ T') = none := by
  cases hd : Ecies.decrypt pr d (body ++ T') with
  | none => rfl
  | some m' =>
    exfalso
    obtain ⟨h0, _, _, _, q, hq, _, hm, _⟩ := (decrypt_iff pr d _ m).1 h
    obtain ⟨_, _, _, _, q', hq', _, hm', _⟩ := (decrypt_iff pr d _ m').1 hd
    have hb : 102 ≤ body.length := by simp [hT] at h0; omega
    have e1 : ∀ T0 : Bytes, ((body ++ T0).drop 20).take 32 = (body.drop 20).take 32 := by
      intro T0
      rw [List.drop_append_of_le_length (by omega),
        List.take_append_of_le_length (by rw [List.length_drop]; omega)]
    have e2 : ∀ T0 : Bytes, ((body ++ T0).drop 54).take 32 = (body.drop 54).take 32 := by
      intro T0
      rw [List.drop_append_of_le_length (by omega),
        List.take_append_of_le_length (by rw [List.length_drop]; omega)]
    rw [e1, e2] at hq hq'
    rw [hq] at hq'; cases hq'
    have l1 : ∀ T0 : Bytes, T0.length = 32 → body.length = (body ++ T0).length - 32 := by
      intro T0 h0; simp [h0]
    rw [← l1 T hT, List.drop_left' rfl, List.take_left' rfl] at hm
    rw [← l1 T' hT', List.drop_left' rfl, List.take_left' rfl] at hm'
    exact hne (hm'.trans hm.symm)

/-- General tampering: if an accepted ciphertext `c` is altered to `c' ≠ c` and `c'` is still
accepted under the same key, then `c'` carries a valid HMAC-SHA256 tag, under a key derived from
the embedded point of `c'`, for a message (`c'` without its tag) — i.e. the alteration is an HMAC
forgery (or, if the embedded point was changed, a forgery under a related key).  This is as far as
"any change is rejected" can go for an uninterpreted `pr.hmac256`. -/
theorem tamper_imp_forgery (pr : Prims) (d : Nat) (c' m' : Bytes)
    (h : Ecies.decrypt pr d c' = some m') :
    ∃ q, Ecdsa.parsePubKey ([0x04] ++ (c'.drop 20).take 32 ++ (c'.drop 54).take 32) = some q ∧
      c'.drop (c'.length - 32) =
        pr.hmac256 ((pr.sha512 (Ecies.sharedSecret d q)).drop 32) (c'.take (c'.length - 32)) := by
  obtain ⟨_, _, _, _, q, hq, _, hm, _⟩ := (decrypt_iff pr d c' m').1 h
  exact ⟨q, hq, hm⟩

/-! ### a different private key -/

/-- `Decrypt` depends on the private key only through the x-coordinate of `d•R`, `R` the embedded
point: keys with the same x-coordinate behave identically on `c` (accept the same, same output). -/
theorem decrypt_key_congr (pr : Prims) (d d' : Nat) (c : Bytes)
    (h : ∀ R, Ecdsa.parsePubKey ([0x04] ++ (c.drop 20).take 32 ++ (c.drop 54).take 32) = some R →
      (smul d' R).1 = (smul d R).1) :
    Ecies.decrypt pr d' c = Ecies.decrypt pr d c := by
  apply decrypt_congr
  intro R hR
  have hv := (C05.parsePubKey_sound _ _ hR).1
  exact (sharedSecret_eq_iff d d' hv).2 (h R hR)

/-- the two ECDH secrets (hence the derived keys `keyE ‖ keyM = SHA-512(secret)`) for the same
peer point `R ≠ ∞` agree iff the x-coordinates agree iff `d' ≡ ±x (mod N)`.
("same keys ⇒ same secret" would need collision-freeness of SHA-512, which is not assumed.) -/
theorem ecdh_secret_eq_iff (x d' : Nat) (R : Pt) (hR : valid R = true) (hne : R ≠ inf) :
    (Ecies.sharedSecret d' R = Ecies.sharedSecret x R ↔ (smul d' R).1 = (smul x R).1) ∧
    ((smul d' R).1 = (smul x R).1 ↔ (d' % N = x % N ∨ d' % N = (N - x % N) % N)) := by
  refine ⟨sharedSecret_eq_iff x d' hR, ?_⟩
  have hle : x % N ≤ N := Nat.le_of_lt (Nat.mod_lt _ N_pos)
  rw [x_eq_iff (valid_smul d' hR) (valid_smul x hR), ← smul_mod_N x hR, ← smul_N_sub _ hle hR,
    smul_eq_smul_iff _ _ hR hne, smul_eq_smul_iff _ _ hR hne, Nat.mod_mod]

/-- non-vacuity: `G` is a valid finite peer point -/
example : valid G = true ∧ G ≠ inf := ⟨valid_G, G_ne_inf⟩

/-- KNOWN FINDING K1: the negated key `N − x` is indistinguishable from `x` for `Decrypt`, on
every input.  Hence "a different private key makes Decrypt return an error" is false. -/
theorem decrypt_neg_key (pr : Prims) (x : Nat) (hx : 1 ≤ x ∧ x < N) (c : Bytes) :
    Ecies.decrypt pr (N - x) c = Ecies.decrypt pr x c := by
  apply decrypt_key_congr
  intro R hR
  have hv := (C05.parsePubKey_sound _ _ hR).1
  rw [smul_N_sub x (Nat.le_of_lt hx.2) hv, pneg_fst]

/-- K1 on honest ciphertexts: `Decrypt(N − x, Encrypt(x•G, m)) = m`, although `N − x ≠ x`. -/
theorem decrypt_encrypt_neg_key (pr : Prims) (hp : PrimsOK pr) (x : Nat) (hx : 1 ≤ x ∧ x < N)
    (msg ct : Bytes) (t t' : Rng.Tape)
    (h : Ecies.encrypt pr (smul x G) msg t = some (ct, t')) :
    Ecies.decrypt pr (N - x) ct = some msg ∧ N - x ≠ x ∧ 1 ≤ N - x ∧ N - x < N := by
  refine ⟨by rw [decrypt_neg_key pr x hx]; exact decrypt_encrypt pr hp x msg ct t t' h, ?_, ?_, ?_⟩
  · have : N % 2 = 1 := by decide
    omega
  · omega
  · omega

example : (1 : Nat) ≤ 5 ∧ 5 < N := by decide

/-- Any other key: if `d'` decrypts an honest ciphertext for `x` (ephemeral scalar `e`, embedded
point `R = e•G`), then the tag is ALSO a valid HMAC under the key derived from `x(d'•R)`; when
`d' ≢ ±x (mod N)` that secret differs from the sender's (`ecdh_secret_eq_iff`), so acceptance
requires HMAC-SHA256 to give the same tag on the same message under two independently derived keys. -/
theorem wrong_key_imp_collision (pr : Prims) (hp : PrimsOK pr) (x d' : Nat) (msg ct m' : Bytes)
    (t t' : Rng.Tape) (h : Ecies.encrypt pr (smul x G) msg t = some (ct, t'))
    (hd : Ecies.decrypt pr d' ct = some m') :
    ∃ e, 1 ≤ e ∧ e < N ∧
      pr.hmac256 ((pr.sha512 (Ecies.sharedSecret d' (smul e G))).drop 32) (ct.take (ct.length - 32)) =
      pr.hmac256 ((pr.sha512 (Ecies.sharedSecret x (smul e G))).drop 32) (ct.take (ct.length - 32)) := by
  have hok := decrypt_encrypt pr hp x msg ct t t' h
  obtain ⟨e, iv, t1, hg, hr, hct⟩ := encrypt_some h
  obtain ⟨h1, h2, _⟩ := generateKey_some hg
  obtain ⟨_, hiv⟩ := readFull_some hr
  have hv := valid_smulG e
  have lx := natBEpad32_length_of_lt_P (valid_lt hv).1
  have ly := natBEpad32_length_of_lt_P (valid_lt hv).2
  have hq : Ecdsa.parsePubKey ([0x04] ++ natBEpad 32 (smul e G).1 ++ natBEpad 32 (smul e G).2) =
      some (smul e G) := C05.parse_serUncompressed _ hv (smulG_ne_inf h1 h2)
  obtain ⟨_, _, _, _, q, hq1, _, hm1, _⟩ := (decrypt_iff pr x ct msg).1 hok
  obtain ⟨_, _, _, _, q', hq2, _, hm2, _⟩ := (decrypt_iff pr d' ct m').1 hd
  have hpb : [0x04] ++ (ct.drop 20).take 32 ++ (ct.drop 54).take 32 =
      [0x04] ++ natBEpad 32 (smul e G).1 ++ natBEpad 32 (smul e G).2 := by
    have := pointBytes_layout
      (C := pr.cbcEnc (keyE pr e (smul x G)) iv (Ecies.addPKCSPadding msg))
      (T := pr.hmac256 (keyM pr e (smul x G))
        (header iv (natBEpad 32 (smul e G).1) (natBEpad 32 (smul e G).2) ++
          pr.cbcEnc (keyE pr e (smul x G)) iv (Ecies.addPKCSPadding msg))) hiv lx ly
    rw [← hct] at this; exact this
  rw [hpb, hq] at hq1 hq2
  cases hq1; cases hq2
  exact ⟨e, h1, h2, hm2.symm.trans hm1⟩

/-! ### the AES-CFB helper of package crypto -/

/-- `crypto.Decrypt(block, crypto.Encrypt(block, text)) = text` for every plaintext and every key
(`key` stands for the `cipher.Block`; 16-, 24- and 32-byte AES keys are all instances). -/
theorem cfb_roundtrip (pr : Prims) (hp : PrimsOK pr) (key text ct : Bytes) (t t' : Rng.Tape)
    (h : Ecies.cfbEncrypt pr key text t = some (ct, t')) :
    Ecies.cfbDecrypt pr key ct = some text := by
  unfold Ecies.cfbEncrypt at h
  dsimp only at h
  split at h
  · cases h
  · rename_i iv t2 hr
    simp only [Option.some.injEq, Prod.mk.injEq] at h
    obtain ⟨rfl, rfl⟩ := h
    obtain ⟨_, hiv⟩ := readFull_some hr
    unfold Ecies.cfbDecrypt
    rw [if_neg (by simp [hiv]), List.take_left' hiv, List.drop_left' hiv, hp.cfb_inv, hp.b64_inv]

/-- layout of the helper's output: 16-byte IV (one tape read) ‖ CFB(base64(text)) -/
theorem cfb_layout (pr : Prims) (hp : PrimsOK pr) (key text ct : Bytes) (t t' : Rng.Tape)
    (h : Ecies.cfbEncrypt pr key text t = some (ct, t')) :
    ∃ iv, t = some iv :: t' ∧ iv.length = 16 ∧ ct = iv ++ pr.cfbEnc key iv (pr.b64enc text) ∧
      ct.length = 16 + (pr.b64enc text).length := by
  unfold Ecies.cfbEncrypt at h
  dsimp only at h
  split at h
  · cases h
  · rename_i iv t2 hr
    simp only [Option.some.injEq, Prod.mk.injEq] at h
    obtain ⟨rfl, rfl⟩ := h
    obtain ⟨ht, hiv⟩ := readFull_some hr
    exact ⟨iv, ht, hiv, rfl, by simp [hiv, hp.cfb_len]⟩

theorem cfb_short (pr : Prims) (key ct : Bytes) (h : ct.length < 16) :
    Ecies.cfbDecrypt pr key ct = none := by
  unfold Ecies.cfbDecrypt; rw [if_pos h]

/-- non-vacuity of `cfb_roundtrip`: one 16-byte read suffices -/
example (pr : Prims) (key text : Bytes) : ∃ ct t', Ecies.cfbEncrypt pr key text
    [some (List.replicate 16 0x11)] = some (ct, t') := by
  simp [Ecies.cfbEncrypt, Rng.readFull]

end GoBk.Props.C11

#print axioms GoBk.Props.C11.ecdh_agree
#print axioms GoBk.Props.C11.sharedSecret_spec
#print axioms GoBk.Props.C11.pkcs7_roundtrip
#print axioms GoBk.Props.C11.pkcs7_length
#print axioms GoBk.Props.C11.pkcs7_layout
#print axioms GoBk.Props.C11.encrypt_layout
#print axioms GoBk.Props.C11.encrypt_length
#print axioms GoBk.Props.C11.encrypt_none_iff
#print axioms GoBk.Props.C11.decrypt_encrypt
#print axioms GoBk.Props.C11.decrypt_iff
#print axioms GoBk.Props.C11.decrypt_ok_imp
#print axioms GoBk.Props.C11.decrypt_short
#print axioms GoBk.Props.C11.decrypt_bad_length
#print axioms GoBk.Props.C11.decrypt_resize
#print axioms GoBk.Props.C11.decrypt_header_bytes
#print axioms GoBk.Props.C11.decrypt_header_change
#print axioms GoBk.Props.C11.decrypt_tag_change
#print axioms GoBk.Props.C11.tamper_imp_forgery
#print axioms GoBk.Props.C11.decrypt_key_congr
#print axioms GoBk.Props.C11.ecdh_secret_eq_iff
#print axioms GoBk.Props.C11.decrypt_neg_key
#print axioms GoBk.Props.C11.decrypt_encrypt_neg_key
#print axioms GoBk.Props.C11.wrong_key_imp_collision
#print axioms GoBk.Props.C11.cfb_roundtrip
#print axioms GoBk.Props.C11.cfb_layout
#print axioms GoBk.Props.C11.cfb_short
