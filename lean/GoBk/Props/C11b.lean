import GoBk.Props.C11
import GoBk.Props.Prims
/-!
# C11, instantiated: the theorems of `Props/C11.lean` for the EXECUTABLE primitives

`Props/C11.lean` is parametric in the primitives and assumes `PrimsOK pr`.  `Props/Prims.lean` proves
`PrimsOK realPrims` for the pure-Lean SHA-2/RIPEMD/HMAC/AES-CBC/CFB/base64 the driver runs (and the correspondence
streams compare with Go's crypto/*).  Here the two are put together: the round-trip statements hold of the model
that is actually executed, with no hypothesis about the primitives left.
-/
namespace GoBk.Props.C11
open GoBk GoBk.Bytes GoBk.Spec GoBk.Props.Prims

theorem real_encrypt_length (pub : Pt) (msg ct : Bytes) (t t' : Rng.Tape)
    (h : Ecies.encrypt realPrims pub msg t = some (ct, t')) :
    ct.length = 118 + (Ecies.addPKCSPadding msg).length ∧ 134 ≤ ct.length ∧ ct.length % 16 = 6 :=
  encrypt_length realPrims realPrims_ok pub msg ct t t' h

/-- every ciphertext produced for the public key of `x` decrypts to the message under `x` — for every message,
key and random tape, with the real SHA-512 / AES-256-CBC / HMAC-SHA256 of the model -/
theorem real_decrypt_encrypt (x : Nat) (msg ct : Bytes) (t t' : Rng.Tape)
    (h : Ecies.encrypt realPrims (smul x G) msg t = some (ct, t')) :
    Ecies.decrypt realPrims x ct = some msg :=
  decrypt_encrypt realPrims realPrims_ok x msg ct t t' h

theorem real_cfb_roundtrip (key text ct : Bytes) (t t' : Rng.Tape)
    (h : Ecies.cfbEncrypt realPrims key text t = some (ct, t')) :
    Ecies.cfbDecrypt realPrims key ct = some text :=
  cfb_roundtrip realPrims realPrims_ok key text ct t t' h

end GoBk.Props.C11
#print axioms GoBk.Props.C11.real_decrypt_encrypt
#print axioms GoBk.Props.C11.real_cfb_roundtrip
