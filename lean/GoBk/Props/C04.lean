import GoBk.Proofs.Bip32Lemmas
/-
  C04 — BIP32 derivation.

  "For every seed of 16..64 bytes and every derivation path of hardened and normal indices,
   NewMaster, Child, Neuter, ECPrivKey and ECPubKey produce exactly the chain codes, private keys,
   public keys, depths, child numbers and parent fingerprints that BIP32 defines, and Neuter maps
   each registered private version to its public version.  Public derivation commutes with private
   derivation (Neuter(Child_i(k)) equals Child_i(Neuter(k)) for normal i), hardened derivation from a
   public key, derivation from a key at depth 255 and seeds outside 16..64 bytes are refused with an
   error."

  Property theorems only; proofs are in `GoBk.Proofs.Bip32Lemmas`.  The BIP-0032 functions
  (`CKDpriv`, `CKDpub`, master key generation, `ser32`, `ser256`, `serP`, `parse256`, `point`,
  fingerprints) are transcribed from the BIP text in `GoBk.Spec.Bip32` over VALUES; HMAC-SHA512 and
  HASH160 are parameters (`pr : Prims`).  `WF k` is the decidable well-formedness predicate of
  `Bip32Lemmas` (field lengths, private scalar in [1,n-1] and at most 32 bytes, public key a valid
  33-byte compressed point); every key made by NewMaster/Child/Neuter/NewKeyFromString satisfies it
  (closure theorems below; for `Child` up to the degenerate outcomes discussed next).

  WHERE THE CODE DIFFERS FROM THE BIP TEXT (all three unreachable without inverting HMAC-SHA512,
  probability ≤ 2⁻¹²⁷ per derivation; no witness can be constructed, so none is a finding):
    * `Child` refuses `parse256(I_L) = 0` (BIP-0032 accepts it): `child_IL_zero_refused`;
    * `Child` does not refuse `k_i = 0` / `K_i = ∞` (BIP-0032 says the key is invalid): it returns a
      key with empty key bytes resp. the "compressed form" of (0,0): `child_priv_eq`, `child_pub_eq`
      give the exact result; `ckdPriv_of_child` / `ckdPub_of_child` carry the side condition;
    * the extra test "I_L·G has a zero coordinate" of the public branch never fires
      (`no_zero_coordinate`): 7 is a quadratic non-residue and −7 not a cube modulo p.
-/
namespace GoBk.Props.C04
open GoBk Bytes Bip32 Spec

/-! ### NewMaster -/

/-- seeds outside 16..64 bytes are refused -/
theorem newMaster_seed_len (pr : Prims) (seed hdPriv : Bytes) (h : seed.length < 16 ∨ seed.length > 64) :
    Bip32.newMaster pr seed hdPriv = .error .invalidSeedLen := Bip32.newMaster_seed_len pr seed hdPriv h

/-- `NewMaster` is BIP-0032 master key generation: it fails exactly when the BIP says the master
key is invalid, and otherwise returns `(I_L, I_R)` at depth 0, child number 0, fingerprint 0 with
the network's private version. -/
theorem newMaster_spec (pr : Prims) (seed hdPriv : Bytes) :
    Bip32.newMaster pr seed hdPriv =
      if seed.length < 16 ∨ seed.length > 64 then .error .invalidSeedLen else
      match Spec.Bip32.master pr.hmac512 seed with
      | none => .error .unusableSeed
      | some (_, c) => .ok { key := (pr.hmac512 Spec.Bip32.seedKey seed).take 32, chainCode := c,
                             parentFP := [0, 0, 0, 0], version := hdPriv, childNum := 0, depth := 0,
                             isPrivate := true } := Bip32.newMaster_eq pr seed hdPriv

/-- … whose key bytes are `ser256` of the master secret `k = parse256(I_L)`, `1 ≤ k < n` -/
theorem newMaster_key (pr : Prims) (ok : PrimsOK pr) (seed hdPriv : Bytes) (m : XKey)
    (h : Bip32.newMaster pr seed hdPriv = .ok m) :
    ∃ k c, Spec.Bip32.master pr.hmac512 seed = some (k, c) ∧ m.key = Spec.Bip32.ser256 k ∧
      m.chainCode = c ∧ c.length = 32 ∧ 1 ≤ k ∧ k < Spec.N := Bip32.newMaster_key pr ok seed hdPriv m h

theorem seedKey_is_Bitcoin_seed :
    Gen.masterKey = Spec.Bip32.seedKey ∧
      Spec.Bip32.seedKey.map (fun b => Char.ofNat b.toNat) = "Bitcoin seed".toList :=
  ⟨Bip32.masterKey_eq, by decide⟩

theorem newMaster_WF (pr : Prims) (ok : PrimsOK pr) (seed hdPriv : Bytes) (m : XKey)
    (hv : hdPriv.length = 4) (h : Bip32.newMaster pr seed hdPriv = .ok m) : WF m :=
  Bip32.newMaster_WF pr ok seed hdPriv m hv h

/-! ### Child: refusals -/

theorem child_depth_255 (pr : Prims) (k : XKey) (i : Nat) (h : k.depth = 255) :
    Bip32.child pr k i = .error .maxDepth := Bip32.child_depth_255 pr k i h

theorem child_hardened_from_public (pr : Prims) (k : XKey) (i : Nat) (hd : k.depth ≠ 255)
    (hp : k.isPrivate = false) (hi : i ≥ 2 ^ 31) : Bip32.child pr k i = .error .hardFromPublic :=
  Bip32.child_hardened_from_public pr k i hd hp hi

/-- (whatever the depth, a hardened child of a public key is never returned) -/
theorem child_hardened_from_public_fails (pr : Prims) (k : XKey) (i : Nat)
    (hp : k.isPrivate = false) (hi : i ≥ 2 ^ 31) : (Bip32.child pr k i).toOption = none :=
  Bip32.child_hardened_from_public_fails pr k i hp hi

/-! ### Child on a private key = CKDpriv -/

/-- the complete behaviour of `Child` on a well-formed private key, hardened or normal index -/
theorem child_spec_priv (pr : Prims) (k : XKey) (i : Nat) (h : WF k) (hp : k.isPrivate = true)
    (hd : k.depth ≠ 255) (hi : i < 2 ^ 32) :
    Bip32.child pr k i =
      (let I := Spec.Bip32.ckdPrivI pr.hmac512 (beNat k.key) k.chainCode i
       let IL := Spec.Bip32.parse256 (I.take 32)
       if IL ≥ Spec.N ∨ IL = 0 then .error .invalidChild
       else .ok { key := natBE ((IL + beNat k.key) % Spec.N), chainCode := I.drop 32,
                  parentFP := Spec.Bip32.fingerprint pr.hash160 (Spec.Bip32.point (beNat k.key)),
                  version := k.version, childNum := i, depth := k.depth + 1, isPrivate := true }) :=
  Bip32.child_priv_eq pr k i h hp hd hi

/-- when BIP-0032 defines the child `(k_i, c_i)` (and `I_L ≠ 0`) `Child` returns exactly it -/
theorem child_of_ckdPriv (pr : Prims) (k : XKey) (i : Nat) (h : WF k) (hp : k.isPrivate = true)
    (hd : k.depth ≠ 255) (hi : i < 2 ^ 32) (ki : Nat) (ci : Bytes)
    (hs : Spec.Bip32.ckdPriv pr.hmac512 (beNat k.key) k.chainCode i = some (ki, ci))
    (h0 : Spec.Bip32.parse256 ((Spec.Bip32.ckdPrivI pr.hmac512 (beNat k.key) k.chainCode i).take 32) ≠ 0) :
    Bip32.child pr k i =
      .ok { key := natBE ki, chainCode := ci,
            parentFP := Spec.Bip32.fingerprint pr.hash160 (Spec.Bip32.point (beNat k.key)),
            version := k.version, childNum := i, depth := k.depth + 1, isPrivate := true } :=
  Bip32.child_of_ckdPriv pr k i h hp hd hi ki ci hs h0

/-- every key with a non-zero scalar that `Child` returns is the BIP-0032 child -/
theorem ckdPriv_of_child (pr : Prims) (k c : XKey) (i : Nat) (h : WF k) (hp : k.isPrivate = true)
    (hi : i < 2 ^ 32) (hc : Bip32.child pr k i = .ok c) (hne : beNat c.key ≠ 0) :
    Spec.Bip32.ckdPriv pr.hmac512 (beNat k.key) k.chainCode i = some (beNat c.key, c.chainCode) :=
  Bip32.ckdPriv_of_child pr k c i h hp hi hc hne

/-- `parse256(I_L) ≥ n`: refused by both -/
theorem child_priv_refuses (pr : Prims) (k : XKey) (i : Nat) (h : WF k) (hp : k.isPrivate = true)
    (hd : k.depth ≠ 255) (hi : i < 2 ^ 32)
    (hge : Spec.Bip32.parse256 ((Spec.Bip32.ckdPrivI pr.hmac512 (beNat k.key) k.chainCode i).take 32) ≥ Spec.N) :
    Bip32.child pr k i = .error .invalidChild ∧
      Spec.Bip32.ckdPriv pr.hmac512 (beNat k.key) k.chainCode i = none :=
  Bip32.child_priv_refuses pr k i h hp hd hi hge

/-- deviation (unreachable): `parse256(I_L) = 0` is refused although BIP-0032 would return `k_par` -/
theorem child_IL_zero_refused (pr : Prims) (k : XKey) (i : Nat) (h : WF k) (hp : k.isPrivate = true)
    (hd : k.depth ≠ 255) (hi : i < 2 ^ 32)
    (h0 : Spec.Bip32.parse256 ((Spec.Bip32.ckdPrivI pr.hmac512 (beNat k.key) k.chainCode i).take 32) = 0) :
    Bip32.child pr k i = .error .invalidChild := by
  rw [child_spec_priv pr k i h hp hd hi]; simp only []; rw [if_pos (Or.inr h0)]

/-! ### Child on a public key = CKDpub -/

/-- the complete behaviour of `Child` on a well-formed public key (normal index) -/
theorem child_spec_pub (pr : Prims) (k : XKey) (i : Nat) (K : Pt) (h : WF k) (hp : k.isPrivate = false)
    (hK : Ecdsa.parsePubKey k.key = some K) (hd : k.depth ≠ 255) (hi : i < 2 ^ 31) :
    Bip32.child pr k i =
      (let I := pr.hmac512 k.chainCode (Spec.Bip32.serP K ++ Spec.Bip32.ser32 i)
       let IL := Spec.Bip32.parse256 (I.take 32)
       if IL ≥ Spec.N ∨ IL = 0 then .error .invalidChild
       else .ok { key := Spec.Bip32.serP (padd (Spec.Bip32.point IL) K), chainCode := I.drop 32,
                  parentFP := Spec.Bip32.fingerprint pr.hash160 K,
                  version := k.version, childNum := i, depth := k.depth + 1, isPrivate := false }) :=
  Bip32.child_pub_eq pr k i K h hp hK hd hi

theorem child_of_ckdPub (pr : Prims) (k : XKey) (i : Nat) (K : Pt) (h : WF k) (hp : k.isPrivate = false)
    (hK : Ecdsa.parsePubKey k.key = some K) (hd : k.depth ≠ 255) (Ki : Pt) (ci : Bytes)
    (hs : Spec.Bip32.ckdPub pr.hmac512 K k.chainCode i = some (Ki, ci))
    (h0 : Spec.Bip32.parse256 ((pr.hmac512 k.chainCode (Spec.Bip32.serP K ++ Spec.Bip32.ser32 i)).take 32) ≠ 0) :
    Bip32.child pr k i =
      .ok { key := Spec.Bip32.serP Ki, chainCode := ci,
            parentFP := Spec.Bip32.fingerprint pr.hash160 K,
            version := k.version, childNum := i, depth := k.depth + 1, isPrivate := false } :=
  Bip32.child_of_ckdPub pr k i K h hp hK hd Ki ci hs h0

theorem ckdPub_of_child (pr : Prims) (k c : XKey) (i : Nat) (K : Pt) (h : WF k) (hp : k.isPrivate = false)
    (hK : Ecdsa.parsePubKey k.key = some K) (hc : Bip32.child pr k i = .ok c)
    (hne : c.key ≠ Spec.Bip32.serP inf) :
    ∃ Ki, Spec.Bip32.ckdPub pr.hmac512 K k.chainCode i = some (Ki, c.chainCode) ∧
      c.key = Spec.Bip32.serP Ki := Bip32.ckdPub_of_child pr k c i K h hp hK hc hne

/-- no finite point of secp256k1 has a zero coordinate: the code's test `ilx = 0 || ily = 0` is dead -/
theorem no_zero_coordinate {a : Pt} (hv : valid a = true) (hne : a ≠ inf) : a.1 ≠ 0 ∧ a.2 ≠ 0 :=
  Bip32.valid_coords_ne_zero hv hne

/-- depth, child number, type, chain code and parent fingerprint of every child -/
theorem child_fields (pr : Prims) (k c : XKey) (i : Nat) (h : Bip32.child pr k i = .ok c) :
    c.depth = k.depth + 1 ∧ c.childNum = i ∧ c.isPrivate = k.isPrivate ∧ c.version = k.version ∧
      c.parentFP = (pr.hash160 k.pubKeyBytes).take 4 := by
  obtain ⟨h1, h2, h3, _, h5⟩ := Bip32.child_depth pr k c i h
  exact ⟨h1, h2, h3, Bip32.child_version pr k c i h, h5⟩

/-- children of well-formed keys are well-formed, except for the two degenerate outcomes -/
theorem child_WF (pr : Prims) (ok : PrimsOK pr) (k c : XKey) (i : Nat) (h : WF k) (hi : i < 2 ^ 32)
    (hc : Bip32.child pr k i = .ok c) (hnd : ¬ Bip32.Degenerate c) : WF c :=
  Bip32.child_WF pr ok k c i h hi hc hnd

/-! ### Neuter -/

/-- `Neuter` of a private key is `N((k, c)) = (point(k), c)` with unchanged depth, child number and
parent fingerprint, and the PUBLIC version registered for the key's private version -/
theorem neuter_spec (reg : Registry) (k c : XKey) (hp : k.isPrivate = true) (h : Bip32.neuter reg k = .ok c) :
    reg.lookup k.version = some c.version ∧
    c.key = Spec.Bip32.serP (Spec.Bip32.point (beNat k.key)) ∧ c.chainCode = k.chainCode ∧
    c.parentFP = k.parentFP ∧ c.depth = k.depth ∧ c.childNum = k.childNum ∧ c.isPrivate = false :=
  Bip32.neuter_priv reg k c hp h

/-- **version map**: if private ids are registered once, every registered pair (private id `v`,
public id `w`) makes `Neuter` of a private key with version `v` succeed with version `w` -/
theorem neuter_version (reg : Registry) (k : XKey) (v w : Bytes) (hp : k.isPrivate = true)
    (hv : k.version = v) (hl : v.length = 4) (hm : (v, w) ∈ reg) (hnd : (reg.map (·.1)).Nodup) :
    ∃ c, Bip32.neuter reg k = .ok c ∧ c.version = w := by
  have := Bip32.lookup_of_mem reg v w hl hm hnd
  exact ⟨_, Bip32.neuter_priv_ok reg k w hp (by rw [hv]; exact this), rfl⟩

/-- the registry of the two default networks, from the regenerated constants -/
def defaultRegistry : Registry :=
  [(Gen.net_MainNet_hdPriv, Gen.net_MainNet_hdPub), (Gen.net_TestNet_hdPriv, Gen.net_TestNet_hdPub)]

/-- MainNet xprv ↦ xpub, TestNet tprv ↦ tpub -/
theorem neuter_version_default (k : XKey) (hp : k.isPrivate = true) :
    (k.version = Gen.net_MainNet_hdPriv → ∃ c, Bip32.neuter defaultRegistry k = .ok c ∧ c.version = Gen.net_MainNet_hdPub) ∧
    (k.version = Gen.net_TestNet_hdPriv → ∃ c, Bip32.neuter defaultRegistry k = .ok c ∧ c.version = Gen.net_TestNet_hdPub) :=
  ⟨fun hv => neuter_version defaultRegistry k _ _ hp hv (by decide) (by decide) (by decide),
   fun hv => neuter_version defaultRegistry k _ _ hp hv (by decide) (by decide) (by decide)⟩

/-- the regenerated version bytes are the BIP-0032 ones: xprv 0488ADE4, xpub 0488B21E, tprv 04358394, tpub 043587CF -/
theorem default_versions :
    Gen.net_MainNet_hdPriv = [0x04, 0x88, 0xAD, 0xE4] ∧ Gen.net_MainNet_hdPub = [0x04, 0x88, 0xB2, 0x1E] ∧
    Gen.net_TestNet_hdPriv = [0x04, 0x35, 0x83, 0x94] ∧ Gen.net_TestNet_hdPub = [0x04, 0x35, 0x87, 0xCF] := by
  decide

/-- an unregistered version is refused -/
theorem neuter_unknown (reg : Registry) (k : XKey) (hp : k.isPrivate = true)
    (h : ∀ w, (k.version, w) ∉ reg) : Bip32.neuter reg k = .error .unknownHDKeyID :=
  Bip32.neuter_unknown reg k hp h

theorem neuter_public (reg : Registry) (k : XKey) (hp : k.isPrivate = false) : Bip32.neuter reg k = .ok k :=
  Bip32.neuter_pub reg k hp

theorem neuter_WF (reg : Registry) (k c : XKey) (h : WF k) (hreg : ∀ p ∈ reg, p.2.length = 4)
    (hc : Bip32.neuter reg k = .ok c) : WF c := Bip32.neuter_WF reg k c h hreg hc

/-! ### ECPrivKey / ECPubKey -/

theorem ecPrivKey_spec (k : XKey) :
    (k.isPrivate = true → Bip32.ecPrivKey k = some (beNat k.key)) ∧
    (k.isPrivate = false → Bip32.ecPrivKey k = none) :=
  ⟨Bip32.ecPrivKey_priv k, Bip32.ecPrivKey_pub k⟩

/-- `ECPubKey` of a private key is `point(k)`; of a public key the point its bytes encode -/
theorem ecPubKey_spec (k : XKey) (h : WF k) :
    (k.isPrivate = true → Bip32.ecPubKey k = some (Spec.Bip32.point (beNat k.key))) ∧
    (k.isPrivate = false → ∀ K, Ecdsa.parsePubKey k.key = some K → Bip32.ecPubKey k = some K) :=
  ⟨Bip32.ecPubKey_priv k h, fun hp K hK => Bip32.ecPubKey_pub k K hp hK⟩

/-! ### public derivation commutes with private derivation -/

/-- `Neuter(Child_i(k)) = Child_i(Neuter(k))` for every normal index `i` (no side condition) -/
theorem neuter_child_comm (pr : Prims) (reg : Registry) (k c nk : XKey) (i : Nat) (h : WF k)
    (hp : k.isPrivate = true) (hi : i < 2 ^ 31) (hc : Bip32.child pr k i = .ok c)
    (hnk : Bip32.neuter reg k = .ok nk) :
    ∃ c', Bip32.child pr nk i = .ok c' ∧ Bip32.neuter reg c = .ok c' :=
  Bip32.neuter_child_comm pr reg k c nk i h hp hi hc hnk

/-! ### derivation paths: the fold of `Child` (with C08 `derivePath_spec`) -/

/-- along a path of indices every successfully derived key has depth = start depth + path length -/
theorem foldlM_child_depth (pr : Prims) (is : List Nat) (k c : XKey)
    (h : is.foldlM (Bip32.child pr) k = .ok c) : c.depth = k.depth + is.length := by
  induction is generalizing k with
  | nil => injection h with h; subst h; rfl
  | cons i is ih =>
    rw [List.foldlM_cons] at h
    cases hk : Bip32.child pr k i with
    | error e => rw [hk] at h; cases h
    | ok k' =>
      rw [hk] at h
      have := ih k' h
      rw [this, (Bip32.child_depth pr k k' i hk).1, List.length_cons]; omega

/-- **whole paths**: if BIP-0032 defines the private key at the end of the path `is` below `k`
(`CKDpriv` iterated) and the fold of `Child` returns a key, that key carries exactly the BIP's scalar
and chain code, and its depth is `k.depth + |is|`.  (With C08 `derivePath_spec` this is
`DeriveChildFromPath`.) -/
theorem path_spec_priv (pr : Prims) (ok : PrimsOK pr) (is : List Nat) (k c : XKey) (kn : Nat)
    (cn : Bytes) (h : WF k) (hp : k.isPrivate = true) (hi : ∀ i ∈ is, i < 2 ^ 32)
    (hm : is.foldlM (Bip32.child pr) k = .ok c)
    (hs : Spec.Bip32.ckdPrivPath pr.hmac512 (beNat k.key, k.chainCode) is = some (kn, cn)) :
    beNat c.key = kn ∧ c.chainCode = cn ∧ c.depth = k.depth + is.length ∧ c.isPrivate = true ∧ WF c :=
  Bip32.foldlM_child_priv_spec pr ok is k c kn cn h hp hi hm hs

/-! ### non-vacuity -/

private def toy : Prims where
  sha256 := fun _ => List.replicate 32 0
  sha512 := fun _ => List.replicate 64 0
  ripemd160 := fun _ => List.replicate 20 0
  hmac256 := fun _ _ => List.replicate 32 0
  hmac512 := fun _ _ => List.replicate 31 0 ++ [1] ++ List.replicate 32 9     -- I_L = 1
  pbkdf2_512 := fun _ _ _ _ => []
  cbcEnc := fun _ _ d => d
  cbcDec := fun _ _ d => d
  cfbEnc := fun _ _ d => d
  cfbDec := fun _ _ d => d
  b64enc := fun b => b
  b64dec := fun b => some b

private theorem toyOK : PrimsOK toy where
  sha256_len := fun _ => rfl
  sha512_len := fun _ => rfl
  ripemd160_len := fun _ => rfl
  hmac256_len := fun _ _ => rfl
  hmac512_len := fun _ _ => rfl
  cbc_len := fun _ _ _ _ => rfl
  cbc_inv := fun _ _ _ _ _ _ => rfl
  cfb_inv := fun _ _ _ => rfl
  cfb_len := fun _ _ _ => rfl
  b64_inv := fun _ => rfl

private def k0 : XKey :=
  { key := [5], chainCode := List.replicate 32 7, parentFP := [0, 0, 0, 0], version := Gen.net_MainNet_hdPriv,
    childNum := 0, depth := 0, isPrivate := true }

example : WF k0 := by decide
example : k0.depth ≠ 255 ∧ k0.isPrivate = true ∧ (2 ^ 31 + 7 : Nat) < 2 ^ 32 := by decide
-- a hardened child of `k0` under the toy HMAC (I_L = 1): scalar 1 + 5 = 6, depth 1
example : ∃ c, Bip32.child toy k0 (2 ^ 31 + 7) = .ok c ∧ c.key = [6] ∧ c.depth = 1 ∧ c.childNum = 2 ^ 31 + 7 := by
  rw [child_spec_priv toy k0 (2 ^ 31 + 7) (by decide) rfl (by decide) (by decide)]
  refine ⟨_, if_neg (by decide), by decide, rfl, rfl⟩
-- its neutered key exists and is well-formed, so the public-key hypotheses are satisfiable too
example : ∃ nk, Bip32.neuter defaultRegistry k0 = .ok nk ∧ nk.version = Gen.net_MainNet_hdPub ∧ WF nk := by
  obtain ⟨nk, h1, h2⟩ := (neuter_version_default k0 rfl).1 rfl
  exact ⟨nk, h1, h2, neuter_WF _ _ _ (by decide) (by decide) h1⟩

end GoBk.Props.C04

#print axioms GoBk.Props.C04.newMaster_seed_len
#print axioms GoBk.Props.C04.newMaster_spec
#print axioms GoBk.Props.C04.newMaster_key
#print axioms GoBk.Props.C04.seedKey_is_Bitcoin_seed
#print axioms GoBk.Props.C04.newMaster_WF
#print axioms GoBk.Props.C04.child_depth_255
#print axioms GoBk.Props.C04.child_hardened_from_public
#print axioms GoBk.Props.C04.child_hardened_from_public_fails
#print axioms GoBk.Props.C04.child_spec_priv
#print axioms GoBk.Props.C04.child_of_ckdPriv
#print axioms GoBk.Props.C04.ckdPriv_of_child
#print axioms GoBk.Props.C04.child_priv_refuses
#print axioms GoBk.Props.C04.child_IL_zero_refused
#print axioms GoBk.Props.C04.child_spec_pub
#print axioms GoBk.Props.C04.child_of_ckdPub
#print axioms GoBk.Props.C04.ckdPub_of_child
#print axioms GoBk.Props.C04.no_zero_coordinate
#print axioms GoBk.Props.C04.child_fields
#print axioms GoBk.Props.C04.child_WF
#print axioms GoBk.Props.C04.neuter_spec
#print axioms GoBk.Props.C04.neuter_version
#print axioms GoBk.Props.C04.neuter_version_default
#print axioms GoBk.Props.C04.default_versions
#print axioms GoBk.Props.C04.neuter_unknown
#print axioms GoBk.Props.C04.neuter_public
#print axioms GoBk.Props.C04.neuter_WF
#print axioms GoBk.Props.C04.ecPrivKey_spec
#print axioms GoBk.Props.C04.ecPubKey_spec
#print axioms GoBk.Props.C04.neuter_child_comm
#print axioms GoBk.Props.C04.foldlM_child_depth
#print axioms GoBk.Props.C04.path_spec_priv
