import GoBk.Props.C04
import GoBk.Props.Prims
/-!
# C04, instantiated: the theorems of `Props/C04.lean` for the EXECUTABLE primitives

`Props/C04.lean` is parametric in `pr : Prims`; four theorems assume `PrimsOK pr`.  `Props/Prims.lean` proves
`PrimsOK realPrims`.  Here those four, and the headline statements that mention the primitives, are restated for
the HMAC-SHA512 / HASH160 that are actually executed, with no hypothesis about the primitives left.
-/
namespace GoBk.Props.C04
open GoBk Bytes Bip32 Spec GoBk.Props.Prims

/-! ### theorems that assumed `PrimsOK pr` -/

/-- `newMaster_key` for `realPrims` (`PrimsOK` discharged) -/
theorem real_newMaster_key (seed hdPriv : Bytes) (m : XKey)
    (h : Bip32.newMaster realPrims seed hdPriv = .ok m) :
    ∃ k c, Spec.Bip32.master realPrims.hmac512 seed = some (k, c) ∧ m.key = Spec.Bip32.ser256 k ∧
      m.chainCode = c ∧ c.length = 32 ∧ 1 ≤ k ∧ k < Spec.N :=
  newMaster_key realPrims realPrims_ok seed hdPriv m h

/-- `newMaster_WF` for `realPrims` (`PrimsOK` discharged) -/
theorem real_newMaster_WF (seed hdPriv : Bytes) (m : XKey)
    (hv : hdPriv.length = 4) (h : Bip32.newMaster realPrims seed hdPriv = .ok m) : WF m :=
  newMaster_WF realPrims realPrims_ok seed hdPriv m hv h

/-- `child_WF` for `realPrims` (`PrimsOK` discharged) -/
theorem real_child_WF (k c : XKey) (i : Nat) (h : WF k) (hi : i < 2 ^ 32)
    (hc : Bip32.child realPrims k i = .ok c) (hnd : ¬ Bip32.Degenerate c) : WF c :=
  child_WF realPrims realPrims_ok k c i h hi hc hnd

/-- `path_spec_priv` for `realPrims` (`PrimsOK` discharged) -/
theorem real_path_spec_priv (is : List Nat) (k c : XKey) (kn : Nat)
    (cn : Bytes) (h : WF k) (hp : k.isPrivate = true) (hi : ∀ i ∈ is, i < 2 ^ 32)
    (hm : is.foldlM (Bip32.child realPrims) k = .ok c)
    (hs : Spec.Bip32.ckdPrivPath realPrims.hmac512 (beNat k.key, k.chainCode) is = some (kn, cn)) :
    beNat c.key = kn ∧ c.chainCode = cn ∧ c.depth = k.depth + is.length ∧ c.isPrivate = true ∧ WF c :=
  path_spec_priv realPrims realPrims_ok is k c kn cn h hp hi hm hs

/-! ### headline statements (no primitive hypothesis), at `realPrims` -/

/-- `newMaster_seed_len` for `realPrims` -/
theorem real_newMaster_seed_len (seed hdPriv : Bytes) (h : seed.length < 16 ∨ seed.length > 64) :
    Bip32.newMaster realPrims seed hdPriv = .error .invalidSeedLen :=
  newMaster_seed_len realPrims seed hdPriv h

/-- `newMaster_spec` for `realPrims` -/
theorem real_newMaster_spec (seed hdPriv : Bytes) :
    Bip32.newMaster realPrims seed hdPriv =
      if seed.length < 16 ∨ seed.length > 64 then .error .invalidSeedLen else
      match Spec.Bip32.master realPrims.hmac512 seed with
      | none => .error .unusableSeed
      | some (_, c) => .ok { key := (realPrims.hmac512 Spec.Bip32.seedKey seed).take 32, chainCode := c,
                             parentFP := [0, 0, 0, 0], version := hdPriv, childNum := 0, depth := 0,
                             isPrivate := true } :=
  newMaster_spec realPrims seed hdPriv

/-- `child_depth_255` for `realPrims` -/
theorem real_child_depth_255 (k : XKey) (i : Nat) (h : k.depth = 255) :
    Bip32.child realPrims k i = .error .maxDepth := child_depth_255 realPrims k i h

/-- `child_hardened_from_public` for `realPrims` -/
theorem real_child_hardened_from_public (k : XKey) (i : Nat) (hd : k.depth ≠ 255)
    (hp : k.isPrivate = false) (hi : i ≥ 2 ^ 31) : Bip32.child realPrims k i = .error .hardFromPublic :=
  child_hardened_from_public realPrims k i hd hp hi

/-- `child_spec_priv` for `realPrims` -/
theorem real_child_spec_priv (k : XKey) (i : Nat) (h : WF k) (hp : k.isPrivate = true)
    (hd : k.depth ≠ 255) (hi : i < 2 ^ 32) :
    Bip32.child realPrims k i =
      (let I := Spec.Bip32.ckdPrivI realPrims.hmac512 (beNat k.key) k.chainCode i
       let IL := Spec.Bip32.parse256 (I.take 32)
       if IL ≥ Spec.N ∨ IL = 0 then .error .invalidChild
       else .ok { key := natBE ((IL + beNat k.key) % Spec.N), chainCode := I.drop 32,
                  parentFP := Spec.Bip32.fingerprint realPrims.hash160 (Spec.Bip32.point (beNat k.key)),
                  version := k.version, childNum := i, depth := k.depth + 1, isPrivate := true }) :=
  child_spec_priv realPrims k i h hp hd hi

/-- `child_of_ckdPriv` for `realPrims` -/
theorem real_child_of_ckdPriv (k : XKey) (i : Nat) (h : WF k) (hp : k.isPrivate = true)
    (hd : k.depth ≠ 255) (hi : i < 2 ^ 32) (ki : Nat) (ci : Bytes)
    (hs : Spec.Bip32.ckdPriv realPrims.hmac512 (beNat k.key) k.chainCode i = some (ki, ci))
    (h0 : Spec.Bip32.parse256
      ((Spec.Bip32.ckdPrivI realPrims.hmac512 (beNat k.key) k.chainCode i).take 32) ≠ 0) :
    Bip32.child realPrims k i =
      .ok { key := natBE ki, chainCode := ci,
            parentFP := Spec.Bip32.fingerprint realPrims.hash160 (Spec.Bip32.point (beNat k.key)),
            version := k.version, childNum := i, depth := k.depth + 1, isPrivate := true } :=
  child_of_ckdPriv realPrims k i h hp hd hi ki ci hs h0

/-- `ckdPriv_of_child` for `realPrims` -/
theorem real_ckdPriv_of_child (k c : XKey) (i : Nat) (h : WF k) (hp : k.isPrivate = true)
    (hi : i < 2 ^ 32) (hc : Bip32.child realPrims k i = .ok c) (hne : beNat c.key ≠ 0) :
    Spec.Bip32.ckdPriv realPrims.hmac512 (beNat k.key) k.chainCode i = some (beNat c.key, c.chainCode) :=
  ckdPriv_of_child realPrims k c i h hp hi hc hne

/-- `child_priv_refuses` for `realPrims` -/
theorem real_child_priv_refuses (k : XKey) (i : Nat) (h : WF k) (hp : k.isPrivate = true)
    (hd : k.depth ≠ 255) (hi : i < 2 ^ 32)
    (hge : Spec.Bip32.parse256
      ((Spec.Bip32.ckdPrivI realPrims.hmac512 (beNat k.key) k.chainCode i).take 32) ≥ Spec.N) :
    Bip32.child realPrims k i = .error .invalidChild ∧
      Spec.Bip32.ckdPriv realPrims.hmac512 (beNat k.key) k.chainCode i = none :=
  child_priv_refuses realPrims k i h hp hd hi hge

/-- `child_spec_pub` for `realPrims` -/
theorem real_child_spec_pub (k : XKey) (i : Nat) (K : Pt) (h : WF k) (hp : k.isPrivate = false)
    (hK : Ecdsa.parsePubKey k.key = some K) (hd : k.depth ≠ 255) (hi : i < 2 ^ 31) :
    Bip32.child realPrims k i =
      (let I := realPrims.hmac512 k.chainCode (Spec.Bip32.serP K ++ Spec.Bip32.ser32 i)
       let IL := Spec.Bip32.parse256 (I.take 32)
       if IL ≥ Spec.N ∨ IL = 0 then .error .invalidChild
       else .ok { key := Spec.Bip32.serP (padd (Spec.Bip32.point IL) K), chainCode := I.drop 32,
                  parentFP := Spec.Bip32.fingerprint realPrims.hash160 K,
                  version := k.version, childNum := i, depth := k.depth + 1, isPrivate := false }) :=
  child_spec_pub realPrims k i K h hp hK hd hi

/-- `child_of_ckdPub` for `realPrims` -/
theorem real_child_of_ckdPub (k : XKey) (i : Nat) (K : Pt) (h : WF k) (hp : k.isPrivate = false)
    (hK : Ecdsa.parsePubKey k.key = some K) (hd : k.depth ≠ 255) (Ki : Pt) (ci : Bytes)
    (hs : Spec.Bip32.ckdPub realPrims.hmac512 K k.chainCode i = some (Ki, ci))
    (h0 : Spec.Bip32.parse256
      ((realPrims.hmac512 k.chainCode (Spec.Bip32.serP K ++ Spec.Bip32.ser32 i)).take 32) ≠ 0) :
    Bip32.child realPrims k i =
      .ok { key := Spec.Bip32.serP Ki, chainCode := ci,
            parentFP := Spec.Bip32.fingerprint realPrims.hash160 K,
            version := k.version, childNum := i, depth := k.depth + 1, isPrivate := false } :=
  child_of_ckdPub realPrims k i K h hp hK hd Ki ci hs h0

/-- `ckdPub_of_child` for `realPrims` -/
theorem real_ckdPub_of_child (k c : XKey) (i : Nat) (K : Pt) (h : WF k) (hp : k.isPrivate = false)
    (hK : Ecdsa.parsePubKey k.key = some K) (hc : Bip32.child realPrims k i = .ok c)
    (hne : c.key ≠ Spec.Bip32.serP inf) :
    ∃ Ki, Spec.Bip32.ckdPub realPrims.hmac512 K k.chainCode i = some (Ki, c.chainCode) ∧
      c.key = Spec.Bip32.serP Ki :=
  ckdPub_of_child realPrims k c i K h hp hK hc hne

/-- `child_fields` for `realPrims` -/
theorem real_child_fields (k c : XKey) (i : Nat) (h : Bip32.child realPrims k i = .ok c) :
    c.depth = k.depth + 1 ∧ c.childNum = i ∧ c.isPrivate = k.isPrivate ∧ c.version = k.version ∧
      c.parentFP = (realPrims.hash160 k.pubKeyBytes).take 4 :=
  child_fields realPrims k c i h

/-- `neuter_child_comm` for `realPrims` -/
theorem real_neuter_child_comm (reg : Registry) (k c nk : XKey) (i : Nat) (h : WF k)
    (hp : k.isPrivate = true) (hi : i < 2 ^ 31) (hc : Bip32.child realPrims k i = .ok c)
    (hnk : Bip32.neuter reg k = .ok nk) :
    ∃ c', Bip32.child realPrims nk i = .ok c' ∧ Bip32.neuter reg c = .ok c' :=
  neuter_child_comm realPrims reg k c nk i h hp hi hc hnk

end GoBk.Props.C04

#print axioms GoBk.Props.C04.real_newMaster_key
#print axioms GoBk.Props.C04.real_newMaster_WF
#print axioms GoBk.Props.C04.real_child_WF
#print axioms GoBk.Props.C04.real_path_spec_priv
#print axioms GoBk.Props.C04.real_newMaster_seed_len
#print axioms GoBk.Props.C04.real_newMaster_spec
#print axioms GoBk.Props.C04.real_child_depth_255
#print axioms GoBk.Props.C04.real_child_hardened_from_public
#print axioms GoBk.Props.C04.real_child_spec_priv
#print axioms GoBk.Props.C04.real_child_of_ckdPriv
#print axioms GoBk.Props.C04.real_ckdPriv_of_child
#print axioms GoBk.Props.C04.real_child_priv_refuses
#print axioms GoBk.Props.C04.real_child_spec_pub
#print axioms GoBk.Props.C04.real_child_of_ckdPub
#print axioms GoBk.Props.C04.real_ckdPub_of_child
#print axioms GoBk.Props.C04.real_child_fields
#print axioms GoBk.Props.C04.real_neuter_child_comm
