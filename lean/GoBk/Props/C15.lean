import GoBk.Model.Checked
import GoBk.Proofs.CheckedLemmas
/-
  C15 — every decoder is total: untrusted input gives a value or an error, never a panic.
  Property theorems only; proofs are in `GoBk.Proofs.CheckedLemmas`.

  "For every byte string or text given to ParsePubKey, ParseSignature, ParseDERSignature,
   RecoverCompact, bec.Decrypt, PrivKeyFromBytes, base58.Decode, CheckDecode, DecodeWIF,
   NewKeyFromString, DeriveChildFromPath, DeriveNumber, MnemonicToSeed, Mnemonic, crypto.Decrypt and
   for every combination of present/absent/malformed fields given to JSONEnvelope.IsValid, the call
   returns normally with a result or an error. It never panics, indexes out of range, dereferences
   nil or fails to terminate."

  HOW THE STATEMENT IS CAPTURED.  The models in Model/*.lean are total Lean functions (`getD`, `take`,
  `drop`), so their totality is vacuous.  `GoBk.Model.Checked` adds a Go-semantics layer
  `Res α = ok a | err | panic` in which every index expression, slice expression, nil dereference,
  `make`, `binary.BigEndian.Uint32`, `CryptBlocks`, `XORKeyStream`, `NewCBC/CFBDecrypter` of the Go
  source is a primitive that yields `panic` exactly when the Go run time would, and CHECKED
  transcriptions `fC` (statement by statement from /repo) of each entry point.  For each we prove
    * `fC_total  : fC x ≠ .panic`                      for ALL inputs `x`, and
    * `fC_agrees : fC x = ofOption (f x)`              (`ofOption (some v) = ok v`, `ofOption none = err`)
  i.e. the checked transcription returns exactly the value / error of the total model `f` — the model
  that the differential harness runs against the real code.  "Agreement of `f` with the real code on
  the generated inputs" + these theorems is the evidence for "no index out of range / nil
  dereference" on all inputs.

  TERMINATION.  Every transcription is a structural or fuel-bounded total Lean function; the fuel
  equals the Go loop bound (`Decode`: `len(b)` iterations of each of its two loops; `MnemonicToSeed`:
  one iteration per field; `Mnemonic`: `ms/11` iterations; `ScalarBaseMult`: `len(newK) ≤ 32`
  iterations) and the `_agrees` theorems show the fuel is never exhausted (the result is the
  fuel-free model's).  The only unbounded loop of the package, the RFC 6979 nonce loop
  (`Ecdsa.nonceLoop`), is not reachable from any function below.

  OUTSIDE THE MODEL (see the header of Model/Checked.lean): slice capacity, `int` overflow, the
  internals of the standard library and big.Int, `crypto/ecdsa.Verify`, `sort.SearchStrings`,
  `strings.Fields`, `regexp`; the curve arithmetic below `ScalarBaseMult`'s table row index (field
  and Jacobian code, NAF/splitK of `ScalarMult`).  `crypto.Decrypt` takes an arbitrary `cipher.Block`: the model is an AES
  block (`BlockSize() = 16`).  With a block cipher of another block size (e.g. DES) or a nil
  interface `cipher.NewCFBDecrypter` panics for every ciphertext of ≥ 16 bytes — `ivCheck` makes
  the assumption explicit.  `bip39.English` is an exported mutable variable; the model fixes it to
  the regenerated 2048-word list.
-/
namespace GoBk.Props.C15
open GoBk Bytes Spec Checked

/-- `ofOption`/`ofExcept`/`ofEnvRes` results are never a panic — this is how each `_total` below
follows from its `_agrees`. -/
theorem ofOption_def {α : Type} (o : Option α) :
    ofOption o = (match o with | some v => .ok v | none => .err) := by cases o <;> rfl

/-! ### bec: ParsePubKey, ParseSignature, ParseDERSignature, RecoverCompact, PrivKeyFromBytes, Decrypt -/

theorem parsePubKeyC_agrees (b : Bytes) : parsePubKeyC b = ofOption (Ecdsa.parsePubKey b) :=
  parsePubKeyC_eq b
theorem parsePubKeyC_total (b : Bytes) : parsePubKeyC b ≠ .panic := by
  rw [parsePubKeyC_eq]; exact ofOption_ne_panic _

theorem parseSigC_agrees (sig : Bytes) (der : Bool) : parseSigC sig der = ofOption (Der.parseSig sig der) :=
  parseSigC_eq sig der
/-- `parseSig` for both values of `der` … -/
theorem parseSigC_total (sig : Bytes) (der : Bool) : parseSigC sig der ≠ .panic := by
  rw [parseSigC_eq]; exact ofOption_ne_panic _
/-- … `ParseSignature` … -/
theorem parseSignatureC_total (sig : Bytes) : parseSigC sig false ≠ .panic := parseSigC_total sig false
/-- … and `ParseDERSignature` -/
theorem parseDERSignatureC_total (sig : Bytes) : parseSigC sig true ≠ .panic := parseSigC_total sig true

/-- the unexported `canonicalPadding` indexes `b[0]` unguarded: it is panic-free for non-empty `b`
(both call sites pass a slice of length `rLen`/`sLen > 0`; `canonicalPadding([]byte{})` does panic) -/
theorem canonicalPaddingC_total (b : Bytes) (h : b ≠ []) : canonicalPaddingC b ≠ .panic := by
  rw [canonicalPaddingC_eq b h]; simp
example : ([0x00, 0x7f] : Bytes) ≠ [] := by decide
example : canonicalPaddingC [] = .panic := rfl

theorem hashToIntC_total (h : Bytes) : hashToIntC h ≠ .panic := by rw [hashToIntC_eq]; simp
theorem recoverKeyC_total (r s : Nat) (msg : Bytes) (iter : Nat) (doChecks : Bool) :
    recoverKeyC r s msg iter doChecks ≠ .panic := by
  rw [recoverKeyC_eq]; exact ofOption_ne_panic _

theorem recoverCompactC_agrees (sig h : Bytes) :
    recoverCompactC sig h = ofOption (Ecdsa.recoverCompact sig h) := recoverCompactC_eq sig h
theorem recoverCompactC_total (sig h : Bytes) : recoverCompactC sig h ≠ .panic := by
  rw [recoverCompactC_eq]; exact ofOption_ne_panic _

/-- `PrivKeyFromBytes` has no error return: it always yields a key (any length of `pk`, incl. 0 and
> 32: `moduloReduce` keeps the table row index `diff+i` inside `[0, 32)`) -/
theorem privKeyFromBytesC_agrees (pk : Bytes) : privKeyFromBytesC pk = .ok (Ecdsa.privKeyFromBytes pk) :=
  privKeyFromBytesC_eq pk
theorem privKeyFromBytesC_total (pk : Bytes) : privKeyFromBytesC pk ≠ .panic := by
  rw [privKeyFromBytesC_eq]; simp

/-- the unexported `removePKCSPadding` indexes `src[length-1]` unguarded: panic-free for non-empty
`src` (the call site passes `make([]byte, n)` with `n ≥ 16`) -/
theorem removePKCSPaddingC_total (src : Bytes) (h : src ≠ []) : removePKCSPaddingC src ≠ .panic := by
  rw [removePKCSPaddingC_eq src h]; exact ofOption_ne_panic _
example : (List.replicate 16 (16 : UInt8)) ≠ [] := by decide
example : removePKCSPaddingC [] = .panic := rfl

/-- `bec.Decrypt` never panics — for ANY primitives (no assumption on `pr`) -/
theorem eciesDecryptC_total (pr : Prims) (d : Nat) (inp : Bytes) : eciesDecryptC pr d inp ≠ .panic :=
  eciesDecryptC_ne_panic pr d inp

/-- agreement with the total model, given that CBC decryption preserves the length (the model
takes the primitive's output as the plaintext; the Go code takes the fresh `len(src)`-byte
destination buffer).  Without the hypothesis: `eciesDecryptC_agrees_fit`.
NOTE: this hypothesis is stronger than needed and FALSE of the executable CBC (`CryptBlocks` drops a trailing partial
block; `PrimsExtra.real_cbcDec_len_unaligned_false`): use `C15b.eciesDecryptC_agrees_aligned` (whole blocks only, which
is all `Decrypt` passes) and `C15b.real_eciesDecryptC_agrees` (no hypothesis, real primitives). -/
theorem eciesDecryptC_agrees (pr : Prims) (hdec : ∀ k iv x, (pr.cbcDec k iv x).length = x.length)
    (d : Nat) (inp : Bytes) : eciesDecryptC pr d inp = ofOption (Ecies.decrypt pr d inp) :=
  eciesDecryptC_eq pr hdec d inp
theorem eciesDecryptC_agrees_fit (pr : Prims) (d : Nat) (inp : Bytes) :
    eciesDecryptC pr d inp = ofOption (Ecies.decrypt (fitPrims pr) d inp) :=
  eciesDecryptC_eq_fit pr d inp
/-- the hypothesis is satisfiable (any length-preserving `cbcDec`) -/
example : ∃ pr : Prims, ∀ k iv x, (pr.cbcDec k iv x).length = x.length :=
  ⟨{ sha256 := id, sha512 := id, ripemd160 := id, hmac256 := fun _ m => m, hmac512 := fun _ m => m,
     pbkdf2_512 := fun p _ _ _ => p, cbcEnc := fun _ _ x => x, cbcDec := fun _ _ x => x.map (· + 1),
     cfbEnc := fun _ _ x => x, cfbDec := fun _ _ x => x, b64enc := id, b64dec := some },
   fun _ _ x => by simp⟩

/-! ### base58, wif, bip32 -/

/-- `base58.Decode` has no error return -/
theorem base58DecodeC_agrees (s : Bytes) : base58DecodeC s = .ok (Base58.decode s) := base58DecodeC_eq s
theorem base58DecodeC_total (s : Bytes) : base58DecodeC s ≠ .panic := by rw [base58DecodeC_eq]; simp

theorem checkDecodeC_agrees (pr : Prims) (s : Bytes) :
    checkDecodeC pr s = ofOption (Base58.checkDecode pr s) := checkDecodeC_eq pr s
theorem checkDecodeC_total (pr : Prims) (s : Bytes) : checkDecodeC pr s ≠ .panic := by
  rw [checkDecodeC_eq]; exact ofOption_ne_panic _

theorem decodeWIFC_agrees (pr : Prims) (s : Bytes) : decodeWIFC pr s = ofOption (Wif.decodeWIF pr s) :=
  decodeWIFC_eq pr s
theorem decodeWIFC_total (pr : Prims) (s : Bytes) : decodeWIFC pr s ≠ .panic := by
  rw [decodeWIFC_eq]; exact ofOption_ne_panic _

/-- `NewKeyFromString` (`ofExcept (.ok k) = ok k`, `ofExcept (.error _) = err`) -/
theorem fromStringC_agrees (pr : Prims) (s : Bytes) : fromStringC pr s = ofExcept (Bip32.fromString pr s) :=
  fromStringC_eq pr s
theorem fromStringC_total (pr : Prims) (s : Bytes) : fromStringC pr s ≠ .panic := by
  rw [fromStringC_eq]; exact ofExcept_ne_panic _

/-- `childInt`: no index expression (HasSuffix, TrimRight, ParseUint); the transcription IS the
total model, so this one holds by definition -/
theorem childIndexC_total (c : Bytes) : childIndexC c ≠ .panic := ofOption_ne_panic _

/-- `ExtendedKey.Child(i)`: `copy(data[offset:], k.key)` for every key length (0, short, 32, 33,
longer), `PutUint32(data[keyLen:], i)`, `ilr[:len(ilr)/2]`, `ParsePubKey(k.key)` — for ANY
primitives and any (even malformed) extended key -/
theorem childC_total (pr : Prims) (k : Bip32.XKey) (i : Nat) : childC pr k i ≠ .panic :=
  childC_ne_panic pr k i

/-- agreement with the total model, which splits the HMAC-SHA512 output at byte 32 where the Go
code splits at `len(ilr)/2`: needs the output length 64 (`PrimsOK.hmac512_len`) -/
theorem childC_agrees (pr : Prims) (h512 : ∀ key m, (pr.hmac512 key m).length = 64)
    (k : Bip32.XKey) (i : Nat) : childC pr k i = ofExcept (Bip32.child pr k i) :=
  childC_eq pr h512 k i

/-- `DeriveChildFromPath`: `strings.Split`, regexp, a `range` loop calling `childInt` and `Child` -/
theorem derivePathC_total (pr : Prims) (k : Bip32.XKey) (p : Bytes) : derivePathC pr k p ≠ .panic :=
  derivePathC_ne_panic pr k p

theorem derivePathC_agrees (pr : Prims) (h512 : ∀ key m, (pr.hmac512 key m).length = 64)
    (k : Bip32.XKey) (p : Bytes) :
    derivePathC pr k p = ofExcept (Bip32.deriveChildFromPath pr k p) :=
  derivePathC_eq pr h512 k p

/-- the hypothesis is satisfiable -/
example : ∃ pr : Prims, ∀ key m, (pr.hmac512 key m).length = 64 :=
  ⟨{ sha256 := id, sha512 := id, ripemd160 := id, hmac256 := fun _ m => m,
     hmac512 := fun _ m => (m ++ List.replicate 64 7).take 64,
     pbkdf2_512 := fun p _ _ _ => p, cbcEnc := fun _ _ x => x, cbcDec := fun _ _ x => x,
     cfbEnc := fun _ _ x => x, cfbDec := fun _ _ x => x, b64enc := id, b64dec := some },
   fun _ m => by simp⟩

theorem deriveNumberC_agrees (p : Bytes) : deriveNumberC p = ofOption (Bip32.deriveNumber p) :=
  deriveNumberC_eq p
theorem deriveNumberC_total (p : Bytes) : deriveNumberC p ≠ .panic := by
  rw [deriveNumberC_eq]; exact ofOption_ne_panic _

/-! ### bip39 -/

theorem mnemonicToSeedC_agrees (pr : Prims) (words pass : Bytes) :
    mnemonicToSeedC pr words pass = ofOption (Bip39.mnemonicToSeed pr words pass) :=
  mnemonicToSeedC_eq pr words pass
/-- in particular for words that sort after "zoo" (`idx = len(English)`, defect D-fixed 5bb47aa) -/
theorem mnemonicToSeedC_total (pr : Prims) (words pass : Bytes) : mnemonicToSeedC pr words pass ≠ .panic := by
  rw [mnemonicToSeedC_eq]; exact ofOption_ne_panic _

theorem mnemonicC_agrees (pr : Prims) (ent pass : Bytes) :
    mnemonicC pr ent pass = ofOption (Bip39.mnemonic pr ent pass) := mnemonicC_eq pr ent pass
/-- `bitString[i-11:i]` stays inside the bit string and `English[output]` inside the 2048-entry list
(11 bits; uses `english_length`) -/
theorem mnemonicC_total (pr : Prims) (ent pass : Bytes) : mnemonicC pr ent pass ≠ .panic := by
  rw [mnemonicC_eq]; exact ofOption_ne_panic _

/-! ### crypto.Decrypt, JSONEnvelope.IsValid -/

theorem cfbDecryptC_agrees (pr : Prims) (key ct : Bytes) :
    cfbDecryptC pr key ct = ofOption (Ecies.cfbDecrypt pr key ct) := cfbDecryptC_eq pr key ct
/-- for an AES `cipher.Block` (block size 16) -/
theorem cfbDecryptC_total (pr : Prims) (key ct : Bytes) : cfbDecryptC pr key ct ≠ .panic := by
  rw [cfbDecryptC_eq]; exact ofOption_ne_panic _

/-- `ofEnvRes valid = ok true`, `ofEnvRes invalid = ok false`, `ofEnvRes error = err` -/
theorem isValidC_agrees (pr : Prims) (payload : Bytes) (sig pk : Option Bytes) (mime : Bytes) :
    isValidC pr payload sig pk mime = ofEnvRes (Envelope.isValid pr payload sig pk mime) :=
  isValidC_eq pr payload sig pk mime
/-- all four nil/non-nil combinations of `Signature`/`PublicKey` (`Option`), any contents -/
theorem isValidC_total (pr : Prims) (payload : Bytes) (sig pk : Option Bytes) (mime : Bytes) :
    isValidC pr payload sig pk mime ≠ .panic := by
  rw [isValidC_eq]; exact ofEnvRes_ne_panic _

/-- the layer is not vacuous: the primitives do report the panics of out-of-range accesses -/
example : idx ([1, 2, 3] : Bytes) 3 = .panic ∧ slice ([1, 2, 3] : Bytes) 2 4 = .panic ∧
    sliceI ([1, 2, 3] : Bytes) (-1) 2 = .panic ∧ (deref (none : Option Bytes)) = .panic ∧
    beUint32 [1, 2, 3] = .panic ∧ makeLen (-1) = .panic ∧
    cryptBlocks id 15 (List.replicate 15 0) = .panic := by decide

end GoBk.Props.C15

section
open GoBk.Props.C15
#print axioms parsePubKeyC_total
#print axioms parsePubKeyC_agrees
#print axioms parseSigC_total
#print axioms parseSigC_agrees
#print axioms parseSignatureC_total
#print axioms parseDERSignatureC_total
#print axioms canonicalPaddingC_total
#print axioms hashToIntC_total
#print axioms recoverKeyC_total
#print axioms recoverCompactC_total
#print axioms recoverCompactC_agrees
#print axioms privKeyFromBytesC_total
#print axioms privKeyFromBytesC_agrees
#print axioms removePKCSPaddingC_total
#print axioms eciesDecryptC_total
#print axioms eciesDecryptC_agrees
#print axioms eciesDecryptC_agrees_fit
#print axioms base58DecodeC_total
#print axioms base58DecodeC_agrees
#print axioms checkDecodeC_total
#print axioms checkDecodeC_agrees
#print axioms decodeWIFC_total
#print axioms decodeWIFC_agrees
#print axioms fromStringC_total
#print axioms fromStringC_agrees
#print axioms childIndexC_total
#print axioms childC_total
#print axioms childC_agrees
#print axioms derivePathC_total
#print axioms derivePathC_agrees
#print axioms deriveNumberC_total
#print axioms deriveNumberC_agrees
#print axioms mnemonicToSeedC_total
#print axioms mnemonicToSeedC_agrees
#print axioms mnemonicC_total
#print axioms mnemonicC_agrees
#print axioms cfbDecryptC_total
#print axioms cfbDecryptC_agrees
#print axioms isValidC_total
#print axioms isValidC_agrees
end
