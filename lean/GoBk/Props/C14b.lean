import GoBk.Proofs.WifLemmas
import GoBk.Props.C13
import GoBk.Props.C14
/-
  C14 (second half) — "… DecodeWIF of it returns the same key, flag and network; DecodeWIF rejects
  every string whose decoded length, compression marker or checksum is wrong."

  Additional property theorems for C14 (the layout theorems `wif_layout`, `address_layout` are in
  Props/C14.lean).  Model: `Wif.decodeWIF`, `Wif.wifString` (Model/Wif.lean) = /repo/wif/wif.go.
  `decodeWIF` returns `(D, CompressPubKey, netID)`; `none` = ErrMalformedPrivateKey or
  ErrChecksumMismatch.  The hash is a parameter; the round trip assumes only that `pr.sha256`
  returns 32 bytes, the acceptance condition assumes nothing.

  Proofs are in `GoBk.Proofs.WifLemmas`; base58 facts are C13.

  NOT YET PROVED in this file: (none)
-/
namespace GoBk.Props.C14
open GoBk Bytes GoBk.Proofs.WifL

/-- `DecodeWIF(w.String())` returns the same key value, compression flag and network byte, for every
key value below 2^256 (in particular every `d ∈ [1, N-1]`). -/
theorem decodeWIF_wifString (pr : Prims) (h : ∀ x, (pr.sha256 x).length = 32) (d : Nat)
    (hd : d < 2 ^ 256) (c : Bool) (net : UInt8) :
    Wif.decodeWIF pr (Wif.wifString pr d c net) = some (d, c, net) := by
  rw [decodeWIF_eq, wifString_eq, C13.decode_encode]
  exact wifBytes_wifPayload pr h d hd c net

/-- non-vacuity: the hypotheses are satisfiable (toy 32-byte hash; mainnet byte 0x80, both flags) -/
private def toyPrims : Prims where
  sha256 := fun b => List.replicate 31 7 ++ [UInt8.ofNat b.length]
  sha512 := fun _ => []
  ripemd160 := fun _ => []
  hmac256 := fun _ _ => []
  hmac512 := fun _ _ => []
  pbkdf2_512 := fun _ _ _ _ => []
  cbcEnc := fun _ _ d => d
  cbcDec := fun _ _ d => d
  cfbEnc := fun _ _ d => d
  cfbDec := fun _ _ d => d
  b64enc := fun b => b
  b64dec := fun b => some b

private theorem toy_len : ∀ x, (toyPrims.sha256 x).length = 32 := by intro x; simp [toyPrims]

example : Wif.decodeWIF toyPrims (Wif.wifString toyPrims 0x1234 true 0x80) = some (0x1234, true, 0x80) ∧
    Wif.decodeWIF toyPrims (Wif.wifString toyPrims 1 false 0xef) = some (1, false, 0xef) :=
  ⟨decodeWIF_wifString toyPrims toy_len _ (by decide) _ _,
   decodeWIF_wifString toyPrims toy_len _ (by decide) _ _⟩

/-- Exact acceptance condition.  With `b := Base58.decode s`, `DecodeWIF s` returns `(d, c, net)` iff
  * `b` has 37 bytes and `c = false`, or 38 bytes, `c = true` and `b[33] = 0x01`;
  * the last 4 bytes of `b` are the first 4 bytes of SHA-256d of everything before them;
  * `net = b[0]` and `d` is the big-endian value of `b[1..33)`. -/
theorem decodeWIF_iff (pr : Prims) (s : Bytes) (d : Nat) (c : Bool) (net : UInt8) :
    Wif.decodeWIF pr s = some (d, c, net) ↔
      (let b := Base58.decode s
       ((b.length = 37 ∧ c = false) ∨ (b.length = 38 ∧ c = true ∧ b.getD 33 0 = 1)) ∧
       b.drop (b.length - 4) = (pr.sha256d (b.take (b.length - 4))).take 4 ∧
       net = b.headD 0 ∧ d = beNat ((b.drop 1).take 32)) := by
  rw [decodeWIF_eq]; exact wifBytes_eq_some_iff pr _ d c net

/-- accepted strings decode to exactly the bytes `WIF.String` would encode for the result; hence a
string over the base58 alphabet is accepted iff it IS the WIF string of its result -/
theorem decodeWIF_sound (pr : Prims) (s : Bytes) (d : Nat) (c : Bool) (net : UInt8)
    (h : Wif.decodeWIF pr s = some (d, c, net)) :
    d < 2 ^ 256 ∧
    Base58.decode s = ([net] ++ natBEpad 32 d ++ (if c then [0x01] else [])) ++
      (pr.sha256d ([net] ++ natBEpad 32 d ++ (if c then [0x01] else []))).take 4 := by
  rw [decodeWIF_eq] at h
  obtain ⟨e, hd⟩ := wifBytes_some_imp pr _ d c net h
  exact ⟨hd, e⟩

theorem decodeWIF_canonical (pr : Prims) (s : Bytes) (d : Nat) (c : Bool) (net : UInt8)
    (halpha : ∀ ch ∈ s, ch ∈ Gen.alphabet) (h : Wif.decodeWIF pr s = some (d, c, net)) :
    s = Wif.wifString pr d c net := by
  rw [decodeWIF_eq] at h
  obtain ⟨e, _⟩ := wifBytes_some_imp pr _ d c net h
  rw [wifString_eq, ← e, C13.encode_decode s halpha]

example : ∀ ch ∈ Wif.wifString toyPrims 1 false 0xef, ch ∈ Gen.alphabet := by decide +kernel

/-- `DecodeWIF` fails in all other cases -/
theorem decodeWIF_none_iff (pr : Prims) (s : Bytes) :
    Wif.decodeWIF pr s = none ↔
      (let b := Base58.decode s
       ¬ ((b.length = 37 ∨ (b.length = 38 ∧ b.getD 33 0 = 1)) ∧
          b.drop (b.length - 4) = (pr.sha256d (b.take (b.length - 4))).take 4)) := by
  rw [decodeWIF_eq]; exact wifBytes_eq_none_iff pr _

/-- wrong decoded length (anything but 37 or 38 bytes; includes every string with a character
outside the alphabet, which decodes to the empty slice) ⇒ rejected -/
theorem decodeWIF_wrong_length (pr : Prims) (s : Bytes)
    (h : (Base58.decode s).length ≠ 37 ∧ (Base58.decode s).length ≠ 38) :
    Wif.decodeWIF pr s = none := by
  rw [decodeWIF_none_iff]
  dsimp only
  rintro ⟨h1 | ⟨h1, _⟩, _⟩
  · exact h.1 h1
  · exact h.2 h1

example : (Base58.decode [49, 49, 65]).length ≠ 37 ∧ (Base58.decode [49, 49, 65]).length ≠ 38 := by
  decide +kernel

theorem decodeWIF_bad_char (pr : Prims) (s : Bytes) (h : ∃ c ∈ s, c ∉ Gen.alphabet) :
    Wif.decodeWIF pr s = none := by
  apply decodeWIF_wrong_length
  rw [C13.decode_invalid s h]; decide

example : ∃ c ∈ ([49, 48, 65] : Bytes), c ∉ Gen.alphabet := by decide

/-- 38 decoded bytes whose compression marker (byte 33) is not 0x01 ⇒ rejected -/
theorem decodeWIF_wrong_marker (pr : Prims) (s : Bytes) (hl : (Base58.decode s).length = 38)
    (hm : (Base58.decode s).getD 33 0 ≠ 1) : Wif.decodeWIF pr s = none := by
  rw [decodeWIF_none_iff]
  dsimp only
  rintro ⟨h1 | ⟨_, h1⟩, _⟩
  · omega
  · exact hm h1

/-- the payload of a compressed WIF with marker 0x02 instead of 0x01 -/
example : let s := Base58.encode (0x80 :: List.replicate 32 1 ++ [0x02] ++ [0, 0, 0, 0])
    (Base58.decode s).length = 38 ∧ (Base58.decode s).getD 33 0 ≠ 1 := by
  simp only [C13.decode_encode]; decide

/-- last four bytes ≠ first four bytes of SHA-256d of the rest ⇒ rejected -/
theorem decodeWIF_wrong_checksum (pr : Prims) (s : Bytes)
    (h : (Base58.decode s).drop ((Base58.decode s).length - 4) ≠
      (pr.sha256d ((Base58.decode s).take ((Base58.decode s).length - 4))).take 4) :
    Wif.decodeWIF pr s = none := by
  rw [decodeWIF_none_iff]
  dsimp only
  rintro ⟨_, h1⟩
  exact h h1

example : let s := Base58.encode (0x80 :: List.replicate 32 1 ++ [0, 0, 0, 0])
    (Base58.decode s).drop ((Base58.decode s).length - 4) ≠
      (toyPrims.sha256d ((Base58.decode s).take ((Base58.decode s).length - 4))).take 4 := by
  simp only [C13.decode_encode]; decide

/-- in particular changing any byte of the key, the network byte, the marker or the checksum of a
valid WIF payload (keeping the other bytes) is detected unless the 4-byte checksums collide:
`DecodeWIF` accepts at most one checksum per body -/
theorem decodeWIF_checksum_unique (pr : Prims) (s s' : Bytes) (r r' : Nat × Bool × UInt8)
    (h : Wif.decodeWIF pr s = some r) (h' : Wif.decodeWIF pr s' = some r')
    (hbody : (Base58.decode s).take ((Base58.decode s).length - 4) =
      (Base58.decode s').take ((Base58.decode s').length - 4)) :
    Base58.decode s = Base58.decode s' := by
  obtain ⟨d, c, net⟩ := r
  obtain ⟨d', c', net'⟩ := r'
  obtain ⟨_, hck, _, _⟩ := (decodeWIF_iff pr s d c net).1 h
  obtain ⟨_, hck', _, _⟩ := (decodeWIF_iff pr s' d' c' net').1 h'
  rw [← List.take_append_drop ((Base58.decode s).length - 4) (Base58.decode s),
    ← List.take_append_drop ((Base58.decode s').length - 4) (Base58.decode s'), hck, hck', hbody]

end GoBk.Props.C14

#print axioms GoBk.Props.C14.decodeWIF_wifString
#print axioms GoBk.Props.C14.decodeWIF_iff
#print axioms GoBk.Props.C14.decodeWIF_sound
#print axioms GoBk.Props.C14.decodeWIF_canonical
#print axioms GoBk.Props.C14.decodeWIF_none_iff
#print axioms GoBk.Props.C14.decodeWIF_wrong_length
#print axioms GoBk.Props.C14.decodeWIF_bad_char
#print axioms GoBk.Props.C14.decodeWIF_wrong_marker
#print axioms GoBk.Props.C14.decodeWIF_wrong_checksum
#print axioms GoBk.Props.C14.decodeWIF_checksum_unique
