import GoBk.Props.C20
import GoBk.Model.JsonString
import GoBk.Proofs.Utf8Lemmas
import GoBk.Proofs.JsonStringLemmas
import GoBk.Proofs.EnvelopeJsonLemmas
/-
  C20b — JSON envelope: UTF-8 sanitisation of the payload (fix D14) and the JSON round trip of the envelope's
  string fields.

  "... the envelope returned by NewJSONEnvelope reports IsValid() = true, also after the envelope itself has been
   marshalled to JSON and unmarshalled again."

  `C20.own_valid_roundtrip` ASSUMED that `json.Unmarshal ∘ json.Marshal` is the identity on the string fields of a
  `JSONEnvelope`.  That is false for a payload that is not well-formed UTF-8 (defect D14: a `json.RawMessage` or a
  custom `Marshaler` can make `json.Marshal(payload)` return such bytes): encoding/json replaces every byte that
  starts no well-formed sequence by U+FFFD.  After the fix `NewJSONEnvelope` stores and signs
  `string([]rune(payload))`; this file proves that the assumption then holds, in the following models.

  Models:
    * `Envelope.sanitizeUtf8` (Model/Envelope.lean) = Go's `string([]rune(s))` on bytes; `Envelope.validUtf8` =
      `utf8.Valid`; `Envelope.newEnvelopeRaw pr fuel raw t` = `NewJSONEnvelope` where `raw` is WHATEVER
      `json.Marshal(payload)` returned (any byte string), result (payload as stored, signature hex, public key hex).
    * `JsonString.jsonQuote s` (Model/JsonString.lean) = the JSON text encoding/json (Go 1.23) writes for a Go
      string `s` (`appendString`, `escapeHTML = true`); `JsonString.jsonUnquote lit` = the Go string
      `json.Unmarshal` reads from the string literal `lit` (scanner, then `unquoteBytes`), `none` = error;
      `JsonString.unquoteBytes` = Go's internal function of that name (it also accepts `\'`).
      Only the string values are modelled, not the JSON object around them (field names, `null` for absent
      optional fields): `Signature`/`PublicKey` are `*string` fields, present in every envelope
      `NewJSONEnvelope` returns.
  `WellFormed` below is the Unicode standard's definition (Table 3-7), stated without reference to the model.

  Property theorems only; proofs are in `GoBk.Proofs.Utf8Lemmas`, `GoBk.Proofs.JsonStringLemmas`,
  `GoBk.Proofs.EnvelopeJsonLemmas`.

  NOT YET PROVED in this file: (none)
-/
namespace GoBk.Props.C20
open GoBk Bytes Spec GoBk.Proofs JsonString

/-! ### well-formed UTF-8 (Unicode 15, Table 3-7) -/

/-- `lo ≤ x ≤ hi` -/
def InR (lo hi x : UInt8) : Prop := lo ≤ x ∧ x ≤ hi

instance (lo hi x : UInt8) : Decidable (InR lo hi x) := by unfold InR; infer_instance

/-- one well-formed UTF-8 byte sequence: the rows of Table 3-7
```
  U+0000..U+007F      00..7F
  U+0080..U+07FF      C2..DF  80..BF
  U+0800..U+0FFF      E0      A0..BF  80..BF
  U+1000..U+CFFF      E1..EC  80..BF  80..BF
  U+D000..U+D7FF      ED      80..9F  80..BF
  U+E000..U+FFFF      EE..EF  80..BF  80..BF
  U+10000..U+3FFFF    F0      90..BF  80..BF  80..BF
  U+40000..U+FFFFF    F1..F3  80..BF  80..BF  80..BF
  U+100000..U+10FFFF  F4      80..8F  80..BF  80..BF
``` -/
inductive Seq : Bytes → Prop
  | r1 (a : UInt8) : InR 0x00 0x7F a → Seq [a]
  | r2 (a b : UInt8) : InR 0xC2 0xDF a → InR 0x80 0xBF b → Seq [a, b]
  | r3 (a b c : UInt8) : a = 0xE0 → InR 0xA0 0xBF b → InR 0x80 0xBF c → Seq [a, b, c]
  | r4 (a b c : UInt8) : InR 0xE1 0xEC a → InR 0x80 0xBF b → InR 0x80 0xBF c → Seq [a, b, c]
  | r5 (a b c : UInt8) : a = 0xED → InR 0x80 0x9F b → InR 0x80 0xBF c → Seq [a, b, c]
  | r6 (a b c : UInt8) : InR 0xEE 0xEF a → InR 0x80 0xBF b → InR 0x80 0xBF c → Seq [a, b, c]
  | r7 (a b c d : UInt8) : a = 0xF0 → InR 0x90 0xBF b → InR 0x80 0xBF c → InR 0x80 0xBF d → Seq [a, b, c, d]
  | r8 (a b c d : UInt8) : InR 0xF1 0xF3 a → InR 0x80 0xBF b → InR 0x80 0xBF c → InR 0x80 0xBF d →
      Seq [a, b, c, d]
  | r9 (a b c d : UInt8) : a = 0xF4 → InR 0x80 0x8F b → InR 0x80 0xBF c → InR 0x80 0xBF d → Seq [a, b, c, d]

/-- well-formed UTF-8: a concatenation of well-formed sequences -/
inductive WellFormed : Bytes → Prop
  | nil : WellFormed []
  | cons {s r : Bytes} : Seq s → WellFormed r → WellFormed (s ++ r)

/-- the predicates of this file are those the proofs are about -/
theorem seq_iff (s : Bytes) : Seq s ↔ Utf8L.Seq s := by
  constructor
  · intro h
    cases h with
    | r1 a h => exact .r1 a h
    | r2 a b h1 h2 => exact .r2 a b h1 h2
    | r3 a b c h1 h2 h3 => exact .r3 a b c h1 h2 h3
    | r4 a b c h1 h2 h3 => exact .r4 a b c h1 h2 h3
    | r5 a b c h1 h2 h3 => exact .r5 a b c h1 h2 h3
    | r6 a b c h1 h2 h3 => exact .r6 a b c h1 h2 h3
    | r7 a b c d h1 h2 h3 h4 => exact .r7 a b c d h1 h2 h3 h4
    | r8 a b c d h1 h2 h3 h4 => exact .r8 a b c d h1 h2 h3 h4
    | r9 a b c d h1 h2 h3 h4 => exact .r9 a b c d h1 h2 h3 h4
  · intro h
    cases h with
    | r1 a h => exact .r1 a h
    | r2 a b h1 h2 => exact .r2 a b h1 h2
    | r3 a b c h1 h2 h3 => exact .r3 a b c h1 h2 h3
    | r4 a b c h1 h2 h3 => exact .r4 a b c h1 h2 h3
    | r5 a b c h1 h2 h3 => exact .r5 a b c h1 h2 h3
    | r6 a b c h1 h2 h3 => exact .r6 a b c h1 h2 h3
    | r7 a b c d h1 h2 h3 h4 => exact .r7 a b c d h1 h2 h3 h4
    | r8 a b c d h1 h2 h3 h4 => exact .r8 a b c d h1 h2 h3 h4
    | r9 a b c d h1 h2 h3 h4 => exact .r9 a b c d h1 h2 h3 h4

theorem wellFormed_iff (b : Bytes) : WellFormed b ↔ Utf8L.WellFormed b := by
  constructor
  · intro h
    induction h with
    | nil => exact .nil
    | cons hs _ ih => exact .cons ((seq_iff _).1 hs) ih
  · intro h
    induction h with
    | nil => exact .nil
    | cons hs _ ih => exact .cons ((seq_iff _).2 hs) ih

/-! ### `sanitizeUtf8` = `string([]rune(s))`, `validUtf8` = `utf8.Valid` -/

/-- `utf8.Valid(b)` iff `b` is well-formed (the Bool twin of `WellFormed`) -/
theorem validUtf8_iff (b : Bytes) : Envelope.validUtf8 b = true ↔ WellFormed b :=
  (Utf8L.validUtf8_iff b).trans (wellFormed_iff b).symm

instance (b : Bytes) : Decidable (WellFormed b) := decidable_of_iff _ (validUtf8_iff b)

/-- the sanitised payload is well-formed UTF-8 -/
theorem sanitize_wellFormed (b : Bytes) : WellFormed (Envelope.sanitizeUtf8 b) :=
  (wellFormed_iff _).2 (Utf8L.sanitize_wellFormed b)

/-- exactly the well-formed strings are left alone -/
theorem sanitize_eq_self_iff (b : Bytes) : Envelope.sanitizeUtf8 b = b ↔ WellFormed b :=
  (Utf8L.sanitize_eq_self_iff b).trans (wellFormed_iff b).symm

theorem sanitize_idem (b : Bytes) :
    Envelope.sanitizeUtf8 (Envelope.sanitizeUtf8 b) = Envelope.sanitizeUtf8 b :=
  Utf8L.sanitize_idem b

/-- each byte becomes at most three (U+FFFD is `EF BF BD`), and never none -/
theorem sanitize_length_le (b : Bytes) : (Envelope.sanitizeUtf8 b).length ≤ 3 * b.length :=
  Utf8L.sanitize_length_le b

theorem sanitize_length_ge (b : Bytes) : b.length ≤ (Envelope.sanitizeUtf8 b).length :=
  Utf8L.sanitize_length_ge b

/-- What `sanitizeUtf8` is, without reference to `utf8SeqLen`: a well-formed sequence at the head is copied; a
byte at the head of a string that starts with no well-formed sequence becomes U+FFFD.  (These three equations
determine the function: a string has at most one well-formed sequence as a prefix, `seq_prefix_unique`.) -/
theorem sanitize_equations :
    Envelope.sanitizeUtf8 [] = [] ∧
    (∀ s r, Seq s → Envelope.sanitizeUtf8 (s ++ r) = s ++ Envelope.sanitizeUtf8 r) ∧
    (∀ x r, (¬ ∃ s t, Seq s ∧ x :: r = s ++ t) →
      Envelope.sanitizeUtf8 (x :: r) = [0xEF, 0xBF, 0xBD] ++ Envelope.sanitizeUtf8 r) := by
  refine ⟨rfl, fun s r hs => Utf8L.sanitize_seq ((seq_iff s).1 hs) r, fun x r hn => ?_⟩
  rcases Utf8L.seqLen_cases (x :: r) with h | ⟨s, t, hs, e⟩
  · exact Utf8L.sanitize_bad x r h
  · exact absurd ⟨s, t, (seq_iff s).2 hs, e⟩ hn

theorem seq_prefix_unique (s s' r r' : Bytes) (hs : Seq s) (hs' : Seq s') (e : s ++ r = s' ++ r') :
    s = s' ∧ r = r' := by
  have h1 := Utf8L.seqLen_of_seq ((seq_iff s).1 hs) r
  have h2 := Utf8L.seqLen_of_seq ((seq_iff s').1 hs') r'
  rw [e, h2] at h1
  exact List.append_inj e h1.symm

/-! ### `NewJSONEnvelope` after fix D14 -/

/-- For EVERY byte string `raw` returned by `json.Marshal(payload)`: the payload stored in the envelope is
`string([]rune(raw))`, it is well-formed UTF-8, and the envelope is valid. -/
theorem own_valid_raw (pr : Prims) (fuel : Nat) (raw : Bytes) (t : Rng.Tape) (pl sg pk : Bytes)
    (h : Envelope.newEnvelopeRaw pr fuel raw t = some (pl, sg, pk)) :
    pl = Envelope.sanitizeUtf8 raw ∧ WellFormed pl ∧
      Envelope.isValid pr pl (some sg) (some pk) Envelope.mimeJSON = .valid := by
  obtain ⟨e, hn⟩ := EnvelopeJsonL.newEnvelopeRaw_some h
  exact ⟨e, e ▸ sanitize_wellFormed raw, own_valid pr fuel pl t sg pk hn⟩

/-- a payload that is already well-formed (every `json.Marshal` result that does not involve a `RawMessage` or a
custom `Marshaler`) is stored as it is -/
theorem newEnvelopeRaw_wellFormed (pr : Prims) (fuel : Nat) (raw : Bytes) (t : Rng.Tape) (hw : WellFormed raw) :
    Envelope.newEnvelopeRaw pr fuel raw t =
      (Envelope.newEnvelope pr fuel raw t).map fun (sg, pk) => (raw, sg, pk) := by
  unfold Envelope.newEnvelopeRaw
  rw [(sanitize_eq_self_iff raw).2 hw]

/-! ### non-vacuity: concrete byte strings -/

/-- `"\xff"`: a lone 0xFF is ill-formed; it becomes U+FFFD -/
example : ¬ WellFormed [0x22, 0xff, 0x22] := by decide
example : Envelope.validUtf8 [0x22, 0xff, 0x22] = false := by decide
example : Envelope.sanitizeUtf8 [0x22, 0xff, 0x22] = [0x22, 0xEF, 0xBF, 0xBD, 0x22] := by decide
/-- `"€A😀é"` : 3-, 1-, 4- and 2-byte sequences -/
example : WellFormed [0xE2, 0x82, 0xAC, 0x41, 0xF0, 0x9F, 0x98, 0x80, 0xC3, 0xA9] := by decide
example : WellFormed [0xE2, 0x82, 0xAC, 0x41, 0xF0, 0x9F, 0x98, 0x80, 0xC3, 0xA9] :=
  .cons (.r4 0xE2 0x82 0xAC (by decide) (by decide) (by decide)) <|
  .cons (.r1 0x41 (by decide)) <|
  .cons (.r7 0xF0 0x9F 0x98 0x80 rfl (by decide) (by decide) (by decide)) <|
  .cons (.r2 0xC3 0xA9 (by decide) (by decide)) .nil
example : Envelope.sanitizeUtf8 [0xE2, 0x82, 0xAC, 0x41, 0xF0, 0x9F, 0x98, 0x80, 0xC3, 0xA9] =
    [0xE2, 0x82, 0xAC, 0x41, 0xF0, 0x9F, 0x98, 0x80, 0xC3, 0xA9] := by decide
/-- overlong `C0 80`, the surrogate `ED A0 80`, `F4 90 80 80` > U+10FFFF and a truncated `E2 82`: every byte is
replaced separately, as Go does -/
example : Envelope.sanitizeUtf8 [0xC0, 0x80] = [0xEF, 0xBF, 0xBD, 0xEF, 0xBF, 0xBD] ∧
    Envelope.sanitizeUtf8 [0xED, 0xA0, 0x80] = [0xEF, 0xBF, 0xBD, 0xEF, 0xBF, 0xBD, 0xEF, 0xBF, 0xBD] ∧
    Envelope.sanitizeUtf8 [0xF4, 0x90, 0x80, 0x80] =
      [0xEF, 0xBF, 0xBD, 0xEF, 0xBF, 0xBD, 0xEF, 0xBF, 0xBD, 0xEF, 0xBF, 0xBD] ∧
    Envelope.sanitizeUtf8 [0x41, 0xE2, 0x82] = [0x41, 0xEF, 0xBF, 0xBD, 0xEF, 0xBF, 0xBD] := by decide
/-- U+FFFD itself is well-formed -/
example : WellFormed [0xEF, 0xBF, 0xBD] := by decide

/-- non-vacuity of the hypothesis of `own_valid_raw` with the real primitives, for an ILL-FORMED marshalled
payload (`"\xff"`), tape = one 32-byte read with value 1: an envelope is returned and its payload differs from
what `json.Marshal` returned -/
example : ∃ pl sg pk, Envelope.newEnvelopeRaw realPrims 1 [0x22, 0xff, 0x22] [some (natBEpad 32 1)] =
    some (pl, sg, pk) ∧ pl ≠ [0x22, 0xff, 0x22] := by
  have h : (Envelope.newEnvelopeRaw realPrims 1 [0x22, 0xff, 0x22] [some (natBEpad 32 1)]).isSome = true := by
    decide +kernel
  obtain ⟨⟨pl, sg, pk⟩, hx⟩ := Option.isSome_iff_exists.1 h
  refine ⟨pl, sg, pk, hx, ?_⟩
  rw [(own_valid_raw _ _ _ _ _ _ _ hx).1]
  decide

/-! ### encoding/json on a Go string -/

/-- `json.Unmarshal(json.Marshal(s))` for a Go string `s` is `string([]rune(s))`: ill-formed bytes come back as
U+FFFD, everything else (escapes included) comes back as it was -/
theorem unquote_quote_sanitize (s : Bytes) : jsonUnquote (jsonQuote s) = some (Envelope.sanitizeUtf8 s) :=
  JsonL.unquote_quote_sanitize false s

/-- the same for Go's internal `unquoteBytes` -/
theorem unquoteBytes_quote_sanitize (s : Bytes) :
    JsonString.unquoteBytes (jsonQuote s) = some (Envelope.sanitizeUtf8 s) :=
  JsonL.unquote_quote_sanitize true s

/-- a well-formed string survives the round trip -/
theorem unquote_quote (s : Bytes) (h : WellFormed s) : jsonUnquote (jsonQuote s) = some s := by
  rw [unquote_quote_sanitize, (sanitize_eq_self_iff s).2 h]

/-- ... and only a well-formed one: the hypothesis `hrt` of `C20.own_valid_roundtrip` fails for the payload of
an envelope made before fix D14 from an ill-formed `raw` -/
theorem unquote_quote_iff (s : Bytes) : jsonUnquote (jsonQuote s) = some s ↔ WellFormed s := by
  rw [unquote_quote_sanitize, Option.some.injEq]; exact sanitize_eq_self_iff s

/-- text without `"`, `\`, control characters and ill-formed bytes is what it says (Go returns the slice itself) -/
theorem unquote_plain (body : Bytes) (hw : WellFormed body)
    (hp : ∀ x ∈ body, 0x20 ≤ x ∧ x ≠ 0x22 ∧ x ≠ 0x5c) :
    jsonUnquote ((0x22 :: body) ++ [0x22]) = some body :=
  JsonL.unquote_plain false body ((wellFormed_iff body).1 hw) hp

/-- what `jsonQuote` writes, on examples: `"` and `\` escaped; `\n`; other control characters, `<`, `>`, `&` as
`\u00XX`; 0x7f as it is; U+2028; a well-formed sequence as it is; an ill-formed byte as `\ufffd` -/
example : jsonQuote [0x22, 0x5c, 0x0a, 0x01, 0x3c, 0x7f, 0xE2, 0x80, 0xA8, 0xC3, 0xA9, 0xff] =
    "\"\\\"\\\\\\n\\u0001\\u003c".toUTF8.toList ++ [0x7f] ++ "\\u2028".toUTF8.toList ++ [0xC3, 0xA9] ++
      "\\ufffd\"".toUTF8.toList := by decide +kernel
/-- what `jsonUnquote` reads, on examples: the escapes; a surrogate pair; a lone surrogate (U+FFFD); an
ill-formed byte (U+FFFD) -/
example : jsonUnquote "\"\\\"\\\\\\/\\b\\f\\n\\r\\t\\u00e9\\uD83D\\uDE00\\ud83dx\"".toUTF8.toList =
    some ([0x22, 0x5c, 0x2f, 0x08, 0x0c, 0x0a, 0x0d, 0x09, 0xC3, 0xA9, 0xF0, 0x9F, 0x98, 0x80, 0xEF, 0xBF, 0xBD,
      0x78]) := by decide +kernel
example : jsonUnquote [0x22, 0xff, 0x22] = some [0xEF, 0xBF, 0xBD] := by decide +kernel
/-- errors: no quotes, a control character, a bad escape, `\'` (accepted by `unquoteBytes` alone), a truncated
`\u`, an unescaped quote inside -/
example : jsonUnquote "abc".toUTF8.toList = none ∧ jsonUnquote [0x22, 0x0a, 0x22] = none ∧
    jsonUnquote "\"\\x\"".toUTF8.toList = none ∧ jsonUnquote "\"\\'\"".toUTF8.toList = none ∧
    JsonString.unquoteBytes "\"\\'\"".toUTF8.toList = some [0x27] ∧
    jsonUnquote "\"\\u12\"".toUTF8.toList = none ∧ jsonUnquote "\"a\"b\"".toUTF8.toList = none ∧
    jsonUnquote "\"".toUTF8.toList = none := by decide +kernel
/-- the round trip of the ill-formed example is NOT the identity -/
example : jsonUnquote (jsonQuote [0x22, 0xff, 0x22]) = some [0x22, 0xEF, 0xBF, 0xBD, 0x22] := by decide +kernel

/-! ### the envelope after `json.Marshal` / `json.Unmarshal` -/

/-- hex strings are ASCII, hence well-formed -/
theorem hexEncode_wellFormed (b : Bytes) : WellFormed (Envelope.hexEncode b) :=
  (wellFormed_iff _).2 (EnvelopeJsonL.hexEncode_wellFormed b)

/-- Every string field of the envelope `NewJSONEnvelope` returns is read back by `json.Unmarshal` exactly as
`json.Marshal` was given it: the payload (sanitised), the two hex strings, the mimetype and the encoding. -/
theorem envelope_roundtrip_valid (pr : Prims) (fuel : Nat) (raw : Bytes) (t : Rng.Tape) (pl sg pk : Bytes)
    (h : Envelope.newEnvelopeRaw pr fuel raw t = some (pl, sg, pk)) :
    jsonUnquote (jsonQuote pl) = some pl ∧ jsonUnquote (jsonQuote sg) = some sg ∧
    jsonUnquote (jsonQuote pk) = some pk ∧
    jsonUnquote (jsonQuote Envelope.mimeJSON) = some Envelope.mimeJSON ∧
    jsonUnquote (jsonQuote "UTF-8".toUTF8.toList) = some "UTF-8".toUTF8.toList := by
  obtain ⟨e, hn⟩ := EnvelopeJsonL.newEnvelopeRaw_some h
  obtain ⟨d, t', r, s, _, _, _, _, e1, e2⟩ := newEnvelope_spec pr fuel pl t sg pk hn
  refine ⟨unquote_quote pl (e ▸ sanitize_wellFormed raw), ?_, ?_, ?_, ?_⟩
  · rw [e1]; exact unquote_quote _ (hexEncode_wellFormed _)
  · rw [e2]; exact unquote_quote _ (hexEncode_wellFormed _)
  · exact unquote_quote _ ((wellFormed_iff _).2 EnvelopeJsonL.mimeJSON_wellFormed)
  · decide +kernel

/-- The envelope re-read from its JSON text is valid: whatever `json.Unmarshal` returns for the texts
`json.Marshal` wrote for the four fields `IsValid` looks at, `IsValid()` on them is `(true, nil)`.  This is
`C20.own_valid_roundtrip` with its hypothesis `hrt` discharged by the model of encoding/json. -/
theorem own_valid_json_roundtrip (pr : Prims) (fuel : Nat) (raw : Bytes) (t : Rng.Tape) (pl sg pk : Bytes)
    (h : Envelope.newEnvelopeRaw pr fuel raw t = some (pl, sg, pk)) (pl' sg' pk' m' : Bytes)
    (h1 : jsonUnquote (jsonQuote pl) = some pl') (h2 : jsonUnquote (jsonQuote sg) = some sg')
    (h3 : jsonUnquote (jsonQuote pk) = some pk')
    (h4 : jsonUnquote (jsonQuote Envelope.mimeJSON) = some m') :
    Envelope.isValid pr pl' (some sg') (some pk') m' = .valid := by
  obtain ⟨r1, r2, r3, r4, _⟩ := envelope_roundtrip_valid pr fuel raw t pl sg pk h
  rw [r1] at h1; rw [r2] at h2; rw [r3] at h3; rw [r4] at h4
  cases h1; cases h2; cases h3; cases h4
  exact (own_valid_raw pr fuel raw t pl sg pk h).2.2

/-- Before fix D14 the envelope carried `raw` itself.  If `raw` is ill-formed, the payload read back differs from
the payload signed; the envelope read back is then valid only if the two have the same canonical hash. -/
theorem prefix_roundtrip_changes_payload (raw : Bytes) (h : ¬ WellFormed raw) :
    ∃ pl', jsonUnquote (jsonQuote raw) = some pl' ∧ pl' ≠ raw ∧ pl' = Envelope.sanitizeUtf8 raw :=
  ⟨_, unquote_quote_sanitize raw, fun e => h ((sanitize_eq_self_iff raw).1 e), rfl⟩

end GoBk.Props.C20

#print axioms GoBk.Props.C20.seq_iff
#print axioms GoBk.Props.C20.wellFormed_iff
#print axioms GoBk.Props.C20.validUtf8_iff
#print axioms GoBk.Props.C20.sanitize_wellFormed
#print axioms GoBk.Props.C20.sanitize_eq_self_iff
#print axioms GoBk.Props.C20.sanitize_idem
#print axioms GoBk.Props.C20.sanitize_length_le
#print axioms GoBk.Props.C20.sanitize_length_ge
#print axioms GoBk.Props.C20.sanitize_equations
#print axioms GoBk.Props.C20.seq_prefix_unique
#print axioms GoBk.Props.C20.own_valid_raw
#print axioms GoBk.Props.C20.newEnvelopeRaw_wellFormed
#print axioms GoBk.Props.C20.unquote_quote_sanitize
#print axioms GoBk.Props.C20.unquoteBytes_quote_sanitize
#print axioms GoBk.Props.C20.unquote_quote
#print axioms GoBk.Props.C20.unquote_quote_iff
#print axioms GoBk.Props.C20.unquote_plain
#print axioms GoBk.Props.C20.hexEncode_wellFormed
#print axioms GoBk.Props.C20.envelope_roundtrip_valid
#print axioms GoBk.Props.C20.own_valid_json_roundtrip
#print axioms GoBk.Props.C20.prefix_roundtrip_changes_payload
