import GoBk.Props.C02
import GoBk.Props.Prims
/-!
# C02, instantiated: the theorems of `Props/C02.lean` for the EXECUTABLE primitives

`Props/C02.lean` is parametric in `pr : Prims`; `sign_eq_rfc6979` assumes that HMAC-SHA256 returns 32 bytes.
`Props/Prims.lean` proves that for `realPrims` (`real_hmac256_len`).  Here the theorems are restated for the model
that is actually executed, with no hypothesis about the primitives left.
-/
namespace GoBk.Props.C02
open GoBk GoBk.Spec GoBk.Bytes GoBk.Proofs GoBk.Props.Prims

/-- `sign_eq_rfc6979` for `realPrims` (hypothesis `hlen` discharged by `real_hmac256_len`) -/
theorem real_sign_eq_rfc6979 (fuel d : ℕ) (h : Bytes) (hd : 1 ≤ d ∧ d < N) :
    Ecdsa.sign realPrims fuel d h = Spec.rfc6979Sign realPrims.hmac256 fuel d h :=
  sign_eq_rfc6979 realPrims real_hmac256_len fuel d h hd

/-- `sign_range` for `realPrims` -/
theorem real_sign_range {fuel d : ℕ} {h : Bytes} {r s : ℕ}
    (hs : Ecdsa.sign realPrims fuel d h = some (r, s)) : 1 ≤ r ∧ r < N ∧ 1 ≤ s ∧ s ≤ N / 2 :=
  sign_range hs

/-- `sign_verifies` for `realPrims` -/
theorem real_sign_verifies {fuel d : ℕ} {h : Bytes} {r s : ℕ}
    (hs : Ecdsa.sign realPrims fuel d h = some (r, s)) :
    Ecdsa.verify (smul d G) h (r : Int) (s : Int) = true :=
  sign_verifies hs

/-- `sign_deterministic` for `realPrims` -/
theorem real_sign_deterministic (fuel d : ℕ) (h : Bytes) {a b : Option (ℕ × ℕ)}
    (ha : Ecdsa.sign realPrims fuel d h = a) (hb : Ecdsa.sign realPrims fuel d h = b) : a = b :=
  sign_deterministic realPrims fuel d h ha hb

end GoBk.Props.C02

#print axioms GoBk.Props.C02.real_sign_eq_rfc6979
#print axioms GoBk.Props.C02.real_sign_range
#print axioms GoBk.Props.C02.real_sign_verifies
#print axioms GoBk.Props.C02.real_sign_deterministic
