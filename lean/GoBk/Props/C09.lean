import GoBk.Proofs.FieldLinear
import GoBk.Proofs.FieldMul
import GoBk.Proofs.FieldNormalise
import GoBk.Proofs.IRChains
/-
  C09 — Prime-field operations are exact and overflow-free within their contracts (word level).

  Every statement is about the definitions REGENERATED from /repo/bec/field.go (`GoBk.Gen.Field`): the
  machine version over `UInt32`/`UInt64` (`f`) and the same expression tree over unbounded naturals
  (`f_exact`).  "No 32- or 64-bit intermediate word overflows, underflows or is truncated" is the
  equation `(f x).toN = f_exact x.toN`; the value statement is modulo `P = 2^256 - 2^32 - 977`; `MagLe m`
  is the magnitude contract (words 0..8 ≤ m·(2^26+2^20), word 9 ≤ m·2^22 — the 2^20 slack is what
  Mul2/SquareVal really leave in word 2).  The call-site half of the property (the formulas only call
  these operations within the bounds) is in Props/C09b.lean.  Property theorems only; proofs are in
  Proofs/Field*.lean and Proofs/IRChains.lean.
-/
namespace GoBk.Props.C09
open GoBk.Gen.Field GoBk.Proofs.Field

/-- Add: for magnitudes `ma + mb ≤ 63` -/
theorem add_sound (a b : FV) (ma mb : Nat) (ha : MagLe ma a) (hb : MagLe mb b) (hm : ma + mb ≤ 63) :
    (add a b).toN = add_exact a.toN b.toN ∧ (add a b).val = a.val + b.val ∧ MagLe (ma + mb) (add a b) :=
  GoBk.Proofs.Field.add_sound a b ma mb ha hb hm

theorem add2_sound (a b : FV) (ma mb : Nat) (ha : MagLe ma a) (hb : MagLe mb b) (hm : ma + mb ≤ 63) :
    (add2 a b).toN = add2_exact a.toN b.toN ∧ (add2 a b).val = a.val + b.val ∧ MagLe (ma + mb) (add2 a b) :=
  GoBk.Proofs.Field.add2_sound a b ma mb ha hb hm

/-- AddInt: a small integer (at most one magnitude unit) -/
theorem addInt_sound (f : FV) (ui m : Nat) (hf : MagLe m f) (hm : m + 1 ≤ 63) (hui : ui ≤ 68157440) :
    (addInt f ui).toN = addInt_exact f.toN ui ∧ (addInt f ui).val = f.val + ui ∧ MagLe (m + 1) (addInt f ui) :=
  GoBk.Proofs.Field.addInt_sound f ui m hf hm hui

/-- MulInt: `k·m ≤ 63` -/
theorem mulInt_sound (f : FV) (k m : Nat) (hf : MagLe m f) (hk : k * m ≤ 63) :
    (mulInt f k).toN = mulInt_exact f.toN k ∧ (mulInt f k).val = k * f.val ∧ MagLe (k * m) (mulInt f k) :=
  GoBk.Proofs.Field.mulInt_sound f k m hf hk

/-- NegateVal / Negate: the result plus the operand is exactly `(m+1)·P`, nothing underflows; 63 is optimal -/
theorem negateVal_sound (v : FV) (mag : UInt32) (hm : mag.toNat ≤ 63) (hv : MagLe mag.toNat v) :
    (negateVal v mag).toN = negateVal_exact v.toN mag.toNat ∧
    (negateVal v mag).val + v.val = (mag.toNat + 1) * P ∧ MagLe (mag.toNat + 1) (negateVal v mag) :=
  GoBk.Proofs.Field.negateVal_sound v mag hm hv

theorem negate_is_negateVal (f : FV) (mag : UInt32) : negate f mag = negateVal f mag := rfl

/-- Mul2 / Mul: every one of the 72 `uint64`/`uint32` intermediates equals its exact value -/
theorem mul2_sound (a b : FV) (ha : MagLe 8 a) (hb : MagLe 8 b) :
    (mul2 a b).toN = mul2_exact a.toN b.toN ∧ (mul2 a b).val % P = (a.val * b.val) % P ∧ MagLe 1 (mul2 a b) :=
  GoBk.Proofs.Field.mul2_sound a b ha hb

theorem mul_is_mul2 (f v : FV) : mul f v = mul2 f v := rfl

theorem squareVal_sound (a : FV) (ha : MagLe 8 a) :
    (squareVal a).toN = squareVal_exact a.toN ∧ (squareVal a).val % P = (a.val * a.val) % P ∧ MagLe 1 (squareVal a) :=
  GoBk.Proofs.Field.squareVal_sound a ha

theorem square_is_squareVal (f : FV) : square f = squareVal f := rfl

/-- Inverse: the regenerated chain of squarings and multiplications computes `a^(P-2)` -/
theorem inverse_sound (f : FV) (h : MagLe 8 f) :
    (inverse f).toN = inverse_exact f.toN ∧ (inverse f).val % P = f.val ^ (P - 2) % P ∧ MagLe 1 (inverse f) :=
  GoBk.Proofs.Field.inverse_sound f h

/-- SqrtVal: the square-root candidate `a^((P+1)/4)` -/
theorem sqrtVal_sound (f : FV) (h : MagLe 8 f) :
    (sqrtVal f).toN = sqrtVal_exact f.toN ∧ (sqrtVal f).val % P = f.val ^ ((P + 1) / 4) % P ∧ MagLe 1 (sqrtVal f) :=
  GoBk.Proofs.Field.sqrtVal_sound f h

/-- non-vacuity: concrete operands meeting the contracts (magnitude-2 and canonical values) -/
example : MagLe 1 exA ∧ MagLe 2 exB ∧ ¬ MagLe 1 exB := by decide
example : (mul2 exA exB).val % P = (exA.val * exB.val) % P :=
  (mul2_sound exA exB (MagLe.mono (by decide : MagLe 1 exA) (by decide)) (MagLe.mono (by decide : MagLe 2 exB) (by decide))).2.1

end GoBk.Props.C09

#print axioms GoBk.Props.C09.add_sound
#print axioms GoBk.Props.C09.negateVal_sound
#print axioms GoBk.Props.C09.mul2_sound
#print axioms GoBk.Props.C09.squareVal_sound
#print axioms GoBk.Props.C09.inverse_sound
#print axioms GoBk.Props.C09.sqrtVal_sound
