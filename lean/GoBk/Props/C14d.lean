import GoBk.Props.C14c
/-!
# C14, continued: WIF strings identify the key

Corollaries of the round trip (`real_decodeWIF_wifString`) and of canonicity (`decodeWIF_canonical`) that a wallet
relies on directly: two different (key, compression flag, network byte) triples never share a WIF string, and a key has
exactly one accepted spelling over the alphabet.
-/
namespace GoBk.Props.C14
open GoBk Bytes GoBk.Proofs.WifL GoBk.Props.Prims

/-- `w.String()` is injective in (key value, compression flag, network byte), for key values below 2^256. -/
theorem real_wifString_injective (d d' : Nat) (hd : d < 2 ^ 256) (hd' : d' < 2 ^ 256) (c c' : Bool) (net net' : UInt8)
    (h : Wif.wifString realPrims d c net = Wif.wifString realPrims d' c' net') : d = d' ∧ c = c' ∧ net = net' := by
  have := congrArg (Wif.decodeWIF realPrims) h
  rw [real_decodeWIF_wifString d hd, real_decodeWIF_wifString d' hd'] at this
  cases this; exact ⟨rfl, rfl, rfl⟩

/-- Two alphabet strings that `DecodeWIF` maps to the same triple are the same string (no malleable spelling). -/
theorem real_decodeWIF_injective (s t : Bytes) (r : Nat × Bool × UInt8)
    (hs : ∀ ch ∈ s, ch ∈ Gen.alphabet) (ht : ∀ ch ∈ t, ch ∈ Gen.alphabet)
    (h1 : Wif.decodeWIF realPrims s = some r) (h2 : Wif.decodeWIF realPrims t = some r) : s = t := by
  obtain ⟨d, c, net⟩ := r
  rw [decodeWIF_canonical realPrims s d c net hs h1, decodeWIF_canonical realPrims t d c net ht h2]

end GoBk.Props.C14

#print axioms GoBk.Props.C14.real_wifString_injective
#print axioms GoBk.Props.C14.real_decodeWIF_injective
