import GoBk.Props.C19
import GoBk.Props.Prims
/-!
# C19, instantiated: the theorems of `Props/C19.lean` for the EXECUTABLE primitives

`Props/C19.lean` is parametric in `pr : Prims` and assumes NOTHING about the primitives (the only assumption is
`TapeDistinct` on the random source), so there is no hypothesis to discharge; the headline statements that mention
`pr` are restated for the `realPrims` that are actually executed.  (The `generateKey_*`, `generateSeed_*`,
`generateEntropy_*` theorems do not mention the primitives.)
-/
namespace GoBk.Props.C19
open GoBk Bytes Spec Rng GoBk.Proofs GoBk.Proofs.RngL GoBk.Props.Prims

/-- `encrypt_draws` for `realPrims` -/
theorem real_encrypt_draws (pub : Pt) (msg ct : Bytes) (t t' : Tape)
    (h : Ecies.encrypt realPrims pub msg t = some (ct, t')) :
    ∃ pre kb iv d, t = pre ++ some kb :: some iv :: t' ∧ kb.length = 32 ∧ iv.length = 16 ∧
      d = beNat kb ∧ 1 ≤ d ∧ d < N ∧ ct.take 16 = iv ∧
      (ct.drop 20).take 32 = natBEpad 32 (smul d G).1 ∧
      (ct.drop 54).take 32 = natBEpad 32 (smul d G).2 :=
  encrypt_draws realPrims pub msg ct t t' h

/-- `encrypt_fail` for `realPrims` -/
theorem real_encrypt_fail (pub : Pt) (msg : Bytes) (t : Tape) :
    Ecies.encrypt realPrims pub msg t = none ↔
      (generateKey t = none ∨
        ∃ d e t1, generateKey t = some (d, e, t1) ∧ readFull 16 t1 = none) :=
  encrypt_fail realPrims pub msg t

/-- `cfbEncrypt_draws` for `realPrims` -/
theorem real_cfbEncrypt_draws (key text ct : Bytes) (t t' : Tape) :
    Ecies.cfbEncrypt realPrims key text t = some (ct, t') ↔
      ∃ iv, t = some iv :: t' ∧ iv.length = 16 ∧
        ct = iv ++ realPrims.cfbEnc key iv (realPrims.b64enc text) :=
  cfbEncrypt_draws realPrims key text ct t t'

/-- `cfbEncrypt_iv` for `realPrims` -/
theorem real_cfbEncrypt_iv (key text ct : Bytes) (t t' : Tape)
    (h : Ecies.cfbEncrypt realPrims key text t = some (ct, t')) : t = some (ct.take 16) :: t' :=
  cfbEncrypt_iv realPrims key text ct t t' h

/-- `cfbEncrypt_fail` for `realPrims` -/
theorem real_cfbEncrypt_fail (key text : Bytes) (t : Tape) :
    Ecies.cfbEncrypt realPrims key text t = none ↔ readFull 16 t = none :=
  cfbEncrypt_fail realPrims key text t

/-- `newEnvelope_draws` for `realPrims` -/
theorem real_newEnvelope_draws (fuel : Nat) (pl sg pk : Bytes) (t : Tape)
    (h : Envelope.newEnvelope realPrims fuel pl t = some (sg, pk)) :
    ∃ pre b t' d, t = pre ++ some b :: t' ∧ b.length = 32 ∧ d = beNat b ∧ 1 ≤ d ∧ d < N ∧
      generateKey t = some (d, smul d G, t') ∧
      pk = Envelope.hexEncode (Ecdsa.serCompressed (smul d G)) ∧
      (Envelope.hexDecode pk).bind Ecdsa.parsePubKey = some (smul d G) :=
  newEnvelope_draws realPrims fuel pl sg pk t h

/-- `newEnvelope_fail` for `realPrims` -/
theorem real_newEnvelope_fail (fuel : Nat) (pl : Bytes) (t : Tape)
    (h : generateKey t = none) : Envelope.newEnvelope realPrims fuel pl t = none :=
  newEnvelope_fail realPrims fuel pl t h

/-- `fresh` for `realPrims` -/
theorem real_fresh (fuel : Nat) (recover : Tape → Tape) (hrec : ∀ t, recover t <:+ t)
    (cs : List Call) (t : Tape) (hd : TapeDistinct t) :
    ((runCalls realPrims fuel recover cs t).flatMap fields).Nodup ∧
    ((runCalls realPrims fuel recover cs t).flatMap rawFields).Nodup :=
  fresh realPrims fuel recover hrec cs t hd

/-- `fresh_pairwise` for `realPrims` -/
theorem real_fresh_pairwise (fuel : Nat) (recover : Tape → Tape)
    (hrec : ∀ t, recover t <:+ t) (cs : List Call) (t : Tape) (hd : TapeDistinct t)
    (i j : Nat) (hi : i < (runCalls realPrims fuel recover cs t).length)
    (hj : j < (runCalls realPrims fuel recover cs t).length) (hij : i < j) :
    ∀ f ∈ fields (runCalls realPrims fuel recover cs t)[i],
      ∀ f' ∈ fields (runCalls realPrims fuel recover cs t)[j], f ≠ f' :=
  fresh_pairwise realPrims fuel recover hrec cs t hd i j hi hj hij

/-- `fresh_keys` for `realPrims` -/
theorem real_fresh_keys (fuel : Nat) (recover : Tape → Tape)
    (hrec : ∀ t, recover t <:+ t) (cs : List Call) (t : Tape) (hd : TapeDistinct t)
    (i j : Nat) (hi : i < (runCalls realPrims fuel recover cs t).length)
    (hj : j < (runCalls realPrims fuel recover cs t).length) (hij : i < j) (d d' : Nat) (q q' : Pt)
    (h1 : (runCalls realPrims fuel recover cs t)[i] = .key d q)
    (h2 : (runCalls realPrims fuel recover cs t)[j] = .key d' q') : d ≠ d' :=
  fresh_keys realPrims fuel recover hrec cs t hd i j hi hj hij d d' q q' h1 h2

/-- `runCalls_length` for `realPrims` -/
theorem real_runCalls_length (fuel : Nat) (recover : Tape → Tape) (cs : List Call) (t : Tape) :
    (runCalls realPrims fuel recover cs t).length = cs.length :=
  runCalls_length realPrims fuel recover cs t

/-- `fields_from_tape` for `realPrims` -/
theorem real_fields_from_tape (fuel : Nat) (recover : Tape → Tape)
    (hrec : ∀ t, recover t <:+ t) (cs : List Call) (t : Tape) :
    ∃ ds, ds.Sublist (multiReads t) ∧
      List.Forall₂ drawn ((runCalls realPrims fuel recover cs t).flatMap fields) ds ∧
      ((runCalls realPrims fuel recover cs t).flatMap rawFields).Sublist ds :=
  fields_from_tape realPrims fuel recover hrec cs t

/-- `sign_rng_free` for `realPrims` -/
theorem real_sign_rng_free (fuel : Nat) (rec1 rec2 : Tape → Tape) (cs1 cs2 : List Call)
    (t1 t2 : Tape) (d : Nat) (h : Bytes) :
    afterCalls realPrims fuel rec1 cs1 t1 (Ecdsa.sign realPrims fuel d h) =
      afterCalls realPrims fuel rec2 cs2 t2 (Ecdsa.sign realPrims fuel d h) ∧
    afterCalls realPrims fuel rec1 cs1 t1 (Curve.scalarBaseMult (natBE d)) =
      afterCalls realPrims fuel rec2 cs2 t2 (Curve.scalarBaseMult (natBE d)) ∧
    afterCalls realPrims fuel rec1 cs1 t1 (Ecdsa.serCompressed (smul d G), Ecdsa.privSerialise d) =
      afterCalls realPrims fuel rec2 cs2 t2 (Ecdsa.serCompressed (smul d G), Ecdsa.privSerialise d) :=
  sign_rng_free realPrims fuel rec1 rec2 cs1 cs2 t1 t2 d h

/-- `key_rng_free` for `realPrims` -/
theorem real_key_rng_free (fuel : Nat) (t1 t2 r1 r2 : Tape) (d : Nat) (q1 q2 : Pt)
    (h : Bytes) (h1 : generateKey t1 = some (d, q1, r1)) (h2 : generateKey t2 = some (d, q2, r2)) :
    q1 = q2 ∧ q1 = smul d G ∧
    Ecdsa.serCompressed q1 = Ecdsa.serCompressed q2 ∧
    Ecdsa.sign realPrims fuel d h = Ecdsa.sign realPrims fuel d h :=
  key_rng_free realPrims fuel t1 t2 r1 r2 d q1 q2 h h1 h2

end GoBk.Props.C19

#print axioms GoBk.Props.C19.real_encrypt_draws
#print axioms GoBk.Props.C19.real_encrypt_fail
#print axioms GoBk.Props.C19.real_cfbEncrypt_draws
#print axioms GoBk.Props.C19.real_cfbEncrypt_iv
#print axioms GoBk.Props.C19.real_cfbEncrypt_fail
#print axioms GoBk.Props.C19.real_newEnvelope_draws
#print axioms GoBk.Props.C19.real_newEnvelope_fail
#print axioms GoBk.Props.C19.real_fresh
#print axioms GoBk.Props.C19.real_fresh_pairwise
#print axioms GoBk.Props.C19.real_fresh_keys
#print axioms GoBk.Props.C19.real_runCalls_length
#print axioms GoBk.Props.C19.real_fields_from_tape
#print axioms GoBk.Props.C19.real_sign_rng_free
#print axioms GoBk.Props.C19.real_key_rng_free
