import GoBk.Proofs.FieldNormalise
import GoBk.Proofs.FieldBytes
/-
  C10 — Field normalisation and byte conversion are canonical.
  Statements about the definitions REGENERATED from /repo/bec/field.go (`GoBk.Gen.Field`).
  `NormPre f` (every word ≤ 2^32 − 2^21) contains every representation of magnitude ≤ 62, hence ≤ 32.
  Property theorems only; proofs are in Proofs/FieldNormalise.lean and Proofs/FieldBytes.lean.
-/
namespace GoBk.Props.C10
open GoBk.Gen.Field GoBk.Proofs.Field

/-- Normalise yields THE canonical representation of the same value modulo P: words 0..8 < 2^26,
word 9 < 2^22, value in [0,P).  Covers values in [P, 2^256), carries into bit 256, both passes. -/
theorem normalise_canonical (f : FV) (h : NormPre f) :
    (normalise f).val = f.val % P ∧ Canon (normalise f) ∧ (normalise f).val < P :=
  ⟨(GoBk.Proofs.Field.normalise_canonical f h).1, (GoBk.Proofs.Field.normalise_canonical f h).2, normalise_val_lt f h⟩

/-- no `uint32` intermediate of Normalise wraps -/
theorem normalise_nowrap (f : FV) (h : NormPre f) : (normalise f).toN = normalise_exact f.toN :=
  GoBk.Proofs.Field.normalise_nowrap f h

/-- the documented contract: magnitude up to 32 -/
theorem normalise_of_mag32 (f : FV) (h : MagLe 32 f) :
    (normalise f).val = f.val % P ∧ Canon (normalise f) ∧ (normalise f).val < P :=
  normalise_of_magLe f h

/-- the canonical representation is unique -/
theorem canonical_unique {f g : FV} (hf : Canon f) (hg : Canon g) (h : f.val = g.val) : f = g :=
  GoBk.Proofs.Field.canonical_unique hf hg h

/-- Equals / IsZero / IsOdd on normalised values decide equality / zero / parity of field elements -/
theorem equals_decides (f g : FV) (hf : NormPre f) (hg : NormPre g) :
    equals (normalise f) (normalise g) = true ↔ f.val % P = g.val % P :=
  equals_normalise_iff f g hf hg

theorem isZero_decides (f : FV) (hf : NormPre f) : isZero (normalise f) = true ↔ f.val % P = 0 :=
  isZero_normalise_iff f hf

theorem isOdd_decides (f : FV) (hf : NormPre f) : isOdd (normalise f) = true ↔ (f.val % P) % 2 = 1 :=
  isOdd_normalise_iff f hf

/-- Equals is structural equality (no hypothesis); on canonical operands it is equality of values -/
theorem equals_iff_eq (f g : FV) : equals f g = true ↔ f = g := equals_eq f g

/-- SetBytes loads exactly the integer the 32 big-endian bytes denote, in canonical form -/
theorem setBytes_val (b : B32) : (setBytes b).val = beNat b ∧ Canon (setBytes b) :=
  GoBk.Proofs.Field.setBytes_val b

/-- `beNat` is the usual big-endian value of the 32 bytes -/
theorem beNat_is_big_endian (b : B32) : beNat b = b.toList.foldl (fun acc x => acc * 256 + x.toNat) 0 :=
  beNat_eq_foldl b

/-- storing back is the identity on all 2^256 inputs -/
theorem putBytes_setBytes (b : B32) : putBytes (setBytes b) = b := GoBk.Proofs.Field.putBytes_setBytes b

/-- PutBytes of a normalised value is its 32-byte big-endian form; and SetBytes inverts it -/
theorem putBytes_val (f : FV) (h : Canon f) : beNat (putBytes f) = f.val := GoBk.Proofs.Field.putBytes_val f h
theorem setBytes_putBytes (f : FV) (h : Canon f) : setBytes (putBytes f) = f := GoBk.Proofs.Field.setBytes_putBytes f h

/-- non-vacuity: a magnitude-2 non-canonical value, and the value P itself (normalises to zero) -/
example : (normalise exB).val = exB.val % P ∧ Canon (normalise exB) ∧ (normalise exB).val < P :=
  normalise_canonical exB (by decide)
example : normalise exP = zero := by decide

end GoBk.Props.C10

#print axioms GoBk.Props.C10.normalise_canonical
#print axioms GoBk.Props.C10.canonical_unique
#print axioms GoBk.Props.C10.equals_decides
#print axioms GoBk.Props.C10.setBytes_val
#print axioms GoBk.Props.C10.putBytes_setBytes
#print axioms GoBk.Props.C10.putBytes_val
