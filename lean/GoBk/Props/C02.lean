import GoBk.Proofs.Rfc6979Lemmas
import GoBk.Proofs.EcdsaVectors
/-
  C02 — "For every private key d in [1,N-1] and every message hash of any length, Sign returns
  exactly the signature that RFC 6979 with HMAC-SHA256 prescribes for secp256k1 (nonce, r, then s
  replaced by N-s when s > N/2), so r and s lie in [1,N-1], s <= N/2, and repeated calls return the
  same pair. That signature verifies under the public key d*G for the same hash."

  Property theorems only; lemmas in `GoBk.Proofs.EcdsaLemmas`, `GoBk.Proofs.Rfc6979Lemmas`;
  the RFC transcription is `GoBk.Spec.Rfc6979` (core Lean only).
  Model: `GoBk.Ecdsa.sign` (= `signRFC6979` of /repo/bec/signature.go); `none` = an error is returned.

  * Determinism ("repeated calls return the same pair") is the fact that `Ecdsa.sign` is a function
    of `(d, hash)` (and of the HMAC primitive); the Go code reads no other state.
  * `fuel` bounds the number of nonce candidates tried (the Go loop is unbounded); both model and
    spec return `none` when it is exhausted, with the same `fuel`.
  * r = 0 or s = 0: the RFC restarts with the next candidate, the Go code returns an error.  The
    spec `rfc6979Sign` is written with the code's behaviour (`none`) — see Spec/Rfc6979.lean.

  NOT YET PROVED in this file: (none)
-/
namespace GoBk.Props.C02
open GoBk GoBk.Spec GoBk.Bytes GoBk.Proofs

/-- `Sign` returns exactly what RFC 6979 prescribes, for every hash length.

The hypothesis `hlen` (HMAC-SHA256 outputs are 32 bytes; it is `PrimsOK.hmac256_len`, and a theorem
`Hash.hmacSha256_length` for the executable primitive) is necessary: the code performs exactly one
`V = HMAC_K(V)` round per candidate, whereas step h.2 of the RFC repeats until `tlen ≥ qlen`; for a
function with shorter outputs the two differ (counterexample below).
Of `hd` only `d < N` is used (the RFC defines `int2octets(x)` for `x < q` only). -/
theorem sign_eq_rfc6979 (pr : Prims) (hlen : ∀ k m, (pr.hmac256 k m).length = 32)
    (fuel d : ℕ) (h : Bytes) (hd : 1 ≤ d ∧ d < N) :
    Ecdsa.sign pr fuel d h = Spec.rfc6979Sign pr.hmac256 fuel d h :=
  sign_eq_rfc6979_aux pr hlen fuel hd.2 h

/-- non-vacuity: the real HMAC-SHA256 satisfies `hlen`, `d = 1` is in range, and the common value
is the published RFC 6979/secp256k1 vector for key 1 and SHA-256("Satoshi Nakamoto"). -/
example : (∀ k m, (realPrims.hmac256 k m).length = 32) ∧ (1 ≤ 1 ∧ 1 < N) ∧
    Spec.rfc6979Sign realPrims.hmac256 1 1 hSat = some (rSat, sSat) :=
  ⟨Hash.hmacSha256_length, by decide, by
    rw [← sign_eq_rfc6979 realPrims Hash.hmacSha256_length 1 1 hSat (by decide)]; exact sign_vector⟩

/-- a `Prims` whose "HMAC" returns a single byte -/
def shortHmac : Prims where
  sha256 := id
  sha512 := id
  ripemd160 := id
  hmac256 := fun _ _ => [1]
  hmac512 := fun _ _ => []
  pbkdf2_512 := fun _ _ _ _ => []
  cbcEnc := fun _ _ d => d
  cbcDec := fun _ _ d => d
  cfbEnc := fun _ _ d => d
  cfbDec := fun _ _ d => d
  b64enc := id
  b64dec := some

/-- counterexample showing that `hlen` cannot be dropped from `sign_eq_rfc6979`
(model: k = 1; RFC: k = 0x0101…01). -/
example : Ecdsa.sign shortHmac 1 1 [] ≠ Spec.rfc6979Sign shortHmac.hmac256 1 1 [] := by
  decide +kernel

/-- r ∈ [1,N-1], s ∈ [1, N/2] — for every `d` (no range hypothesis needed), every hash. -/
theorem sign_range {pr : Prims} {fuel d : ℕ} {h : Bytes} {r s : ℕ}
    (hs : Ecdsa.sign pr fuel d h = some (r, s)) : 1 ≤ r ∧ r < N ∧ 1 ≤ s ∧ s ≤ N / 2 :=
  sign_range_aux hs

/-- the signature verifies under `d·G` for the same hash (again for every `d`; for `d ≡ 0 (mod N)`
the public key is the point at infinity and the statement is still true of the model). -/
theorem sign_verifies {pr : Prims} {fuel d : ℕ} {h : Bytes} {r s : ℕ}
    (hs : Ecdsa.sign pr fuel d h = some (r, s)) :
    Ecdsa.verify (smul d G) h (r : Int) (s : Int) = true :=
  sign_verifies_aux hs

/-- non-vacuity of the hypothesis of `sign_range` / `sign_verifies` (real primitives) -/
example : Ecdsa.sign realPrims 1 1 hSat = some (rSat, sSat) := sign_vector

/-- the signature is a function of `(d, hash)`: repeated calls return the same pair -/
theorem sign_deterministic (pr : Prims) (fuel d : ℕ) (h : Bytes) {a b : Option (ℕ × ℕ)}
    (ha : Ecdsa.sign pr fuel d h = a) (hb : Ecdsa.sign pr fuel d h = b) : a = b := ha ▸ hb

end GoBk.Props.C02

#print axioms GoBk.Props.C02.sign_eq_rfc6979
#print axioms GoBk.Props.C02.sign_range
#print axioms GoBk.Props.C02.sign_verifies
#print axioms GoBk.Props.C02.sign_deterministic
