import GoBk.Props.C14
import GoBk.Props.C14b
import GoBk.Props.Prims
/-!
# C14, instantiated: the theorems of `Props/C14.lean` and `Props/C14b.lean` for the EXECUTABLE primitives

Both files are parametric in `pr : Prims`; the WIF round trip assumes that `pr.sha256` returns 32 bytes.
`Props/Prims.lean` proves that for `realPrims` (`real_sha256_len`).  Here the round trip, and the headline statements
that mention the primitives, are restated for the SHA-256 / RIPEMD-160 that are actually executed, with no hypothesis
about the primitives left.
-/
namespace GoBk.Props.C14
open GoBk Bytes GoBk.Proofs.WifL GoBk.Props.Prims

/-! ### theorem that assumed a fact about `pr` -/

/-- `decodeWIF_wifString` for `realPrims` (hypothesis on SHA-256 discharged) -/
theorem real_decodeWIF_wifString (d : Nat) (hd : d < 2 ^ 256) (c : Bool) (net : UInt8) :
    Wif.decodeWIF realPrims (Wif.wifString realPrims d c net) = some (d, c, net) :=
  decodeWIF_wifString realPrims real_sha256_len d hd c net

/-! ### headline statements (no primitive hypothesis), at `realPrims` -/

/-- `wif_layout` for `realPrims` -/
theorem real_wif_layout (d : Nat) (c : Bool) (net : UInt8) :
    Wif.wifString realPrims d c net =
      Base58.encode (let body := [net] ++ natBEpad 32 d ++ (if c then [0x01] else [])
                     body ++ (realPrims.sha256d body).take 4) :=
  wif_layout realPrims d c net

/-- `address_layout` for `realPrims` -/
theorem real_address_layout (pk : Bytes) (id : UInt8) :
    Wif.address realPrims pk id =
      Base58.encode (let body := [id] ++ realPrims.ripemd160 (realPrims.sha256 pk)
                     body ++ (realPrims.sha256 (realPrims.sha256 body)).take 4) :=
  address_layout realPrims pk id

/-- `sha256d_def` for `realPrims` -/
theorem real_sha256d_def (b : Bytes) : realPrims.sha256d b = realPrims.sha256 (realPrims.sha256 b) :=
  sha256d_def realPrims b

/-- `hash160_def` for `realPrims` -/
theorem real_hash160_def (b : Bytes) : realPrims.hash160 b = realPrims.ripemd160 (realPrims.sha256 b) :=
  hash160_def realPrims b

/-- `decodeWIF_iff` for `realPrims` -/
theorem real_decodeWIF_iff (s : Bytes) (d : Nat) (c : Bool) (net : UInt8) :
    Wif.decodeWIF realPrims s = some (d, c, net) ↔
      (let b := Base58.decode s
       ((b.length = 37 ∧ c = false) ∨ (b.length = 38 ∧ c = true ∧ b.getD 33 0 = 1)) ∧
       b.drop (b.length - 4) = (realPrims.sha256d (b.take (b.length - 4))).take 4 ∧
       net = b.headD 0 ∧ d = beNat ((b.drop 1).take 32)) :=
  decodeWIF_iff realPrims s d c net

/-- `decodeWIF_sound` for `realPrims` -/
theorem real_decodeWIF_sound (s : Bytes) (d : Nat) (c : Bool) (net : UInt8)
    (h : Wif.decodeWIF realPrims s = some (d, c, net)) :
    d < 2 ^ 256 ∧
    Base58.decode s = ([net] ++ natBEpad 32 d ++ (if c then [0x01] else [])) ++
      (realPrims.sha256d ([net] ++ natBEpad 32 d ++ (if c then [0x01] else []))).take 4 :=
  decodeWIF_sound realPrims s d c net h

/-- `decodeWIF_canonical` for `realPrims` -/
theorem real_decodeWIF_canonical (s : Bytes) (d : Nat) (c : Bool) (net : UInt8)
    (halpha : ∀ ch ∈ s, ch ∈ Gen.alphabet) (h : Wif.decodeWIF realPrims s = some (d, c, net)) :
    s = Wif.wifString realPrims d c net :=
  decodeWIF_canonical realPrims s d c net halpha h

/-- `decodeWIF_none_iff` for `realPrims` -/
theorem real_decodeWIF_none_iff (s : Bytes) :
    Wif.decodeWIF realPrims s = none ↔
      (let b := Base58.decode s
       ¬ ((b.length = 37 ∨ (b.length = 38 ∧ b.getD 33 0 = 1)) ∧
          b.drop (b.length - 4) = (realPrims.sha256d (b.take (b.length - 4))).take 4)) :=
  decodeWIF_none_iff realPrims s

/-- `decodeWIF_wrong_length` for `realPrims` -/
theorem real_decodeWIF_wrong_length (s : Bytes)
    (h : (Base58.decode s).length ≠ 37 ∧ (Base58.decode s).length ≠ 38) :
    Wif.decodeWIF realPrims s = none := decodeWIF_wrong_length realPrims s h

/-- `decodeWIF_bad_char` for `realPrims` -/
theorem real_decodeWIF_bad_char (s : Bytes) (h : ∃ c ∈ s, c ∉ Gen.alphabet) :
    Wif.decodeWIF realPrims s = none := decodeWIF_bad_char realPrims s h

/-- `decodeWIF_wrong_marker` for `realPrims` -/
theorem real_decodeWIF_wrong_marker (s : Bytes) (hl : (Base58.decode s).length = 38)
    (hm : (Base58.decode s).getD 33 0 ≠ 1) : Wif.decodeWIF realPrims s = none :=
  decodeWIF_wrong_marker realPrims s hl hm

/-- `decodeWIF_wrong_checksum` for `realPrims` -/
theorem real_decodeWIF_wrong_checksum (s : Bytes)
    (h : (Base58.decode s).drop ((Base58.decode s).length - 4) ≠
      (realPrims.sha256d ((Base58.decode s).take ((Base58.decode s).length - 4))).take 4) :
    Wif.decodeWIF realPrims s = none := decodeWIF_wrong_checksum realPrims s h

/-- `decodeWIF_checksum_unique` for `realPrims` -/
theorem real_decodeWIF_checksum_unique (s s' : Bytes) (r r' : Nat × Bool × UInt8)
    (h : Wif.decodeWIF realPrims s = some r) (h' : Wif.decodeWIF realPrims s' = some r')
    (hbody : (Base58.decode s).take ((Base58.decode s).length - 4) =
      (Base58.decode s').take ((Base58.decode s').length - 4)) :
    Base58.decode s = Base58.decode s' :=
  decodeWIF_checksum_unique realPrims s s' r r' h h' hbody

end GoBk.Props.C14

#print axioms GoBk.Props.C14.real_decodeWIF_wifString
#print axioms GoBk.Props.C14.real_wif_layout
#print axioms GoBk.Props.C14.real_address_layout
#print axioms GoBk.Props.C14.real_sha256d_def
#print axioms GoBk.Props.C14.real_hash160_def
#print axioms GoBk.Props.C14.real_decodeWIF_iff
#print axioms GoBk.Props.C14.real_decodeWIF_sound
#print axioms GoBk.Props.C14.real_decodeWIF_canonical
#print axioms GoBk.Props.C14.real_decodeWIF_none_iff
#print axioms GoBk.Props.C14.real_decodeWIF_wrong_length
#print axioms GoBk.Props.C14.real_decodeWIF_bad_char
#print axioms GoBk.Props.C14.real_decodeWIF_wrong_marker
#print axioms GoBk.Props.C14.real_decodeWIF_wrong_checksum
#print axioms GoBk.Props.C14.real_decodeWIF_checksum_unique
