import GoBk.Proofs.ScalarLemmas
/-
  C01 (deep part) — the CODE-SHAPED model `GoBk.CurveImpl` of `ScalarMult` / `ScalarBaseMult`
  (/repo/bec/btcec.go: `moduloReduce`, `splitK`, `NAF`, the two loops; every field operation and
  add/double formula is regenerated code run by `GoBk.IR`) computes what the API-level model
  `GoBk.Curve` (reference group law, `Props/C01.lean`) says — EXCEPT for the correctness of the
  regenerated Jacobian formulas, which enters as the explicit hypothesis `FormulaOK` (+ `InputOK`
  for the four prepared operands of `ScalarMult`, `TableOK` for the byte-point table).
  Instantiating these three structures is the subject of Proofs/IR*.lean.

  Property theorems only; proofs in `GoBk.Proofs.ScalarLemmas`.

  About `B = (0,0)`: the Go code does not special-case it, the operands are then the non-curve
  triple `(0,0,1)`.  `impl_scalarMult_eq` is stated for any `valid B` GIVEN `InputOK F B`; for
  `B = inf` that hypothesis needs a `FormulaOK` instance of its own (e.g. `Rep q Q := Q = inf ∧ …`),
  the generic one (`RepIn p R := p is the affine point R, z = 1`) cannot provide `RepIn (0,0,1) inf`.

  not yet proved: — (everything requested for this file is proved).
-/
namespace GoBk.Props.C01
open GoBk Bytes Spec GoBk.Proofs WeierstrassCurve.Affine

/-! ### the regenerated GLV constants -/

/-- the regenerated `lambda`, `beta` are the endomorphism constants of `Proofs/Endo`, and the
regenerated lattice basis `(a1,b1)`, `(a2,b2)` lies in the kernel of `(x,y) ↦ x + y·λ mod N`, with
determinant `N`. -/
theorem impl_glv_constants :
    Gen.c_lambda = lambda ∧ Gen.c_beta = beta ∧
    (Gen.c_a1 + Gen.c_b1 * (Gen.c_lambda : Int)) % (Gen.c_N : Int) = 0 ∧
    (Gen.c_a2 + Gen.c_b2 * (Gen.c_lambda : Int)) % (Gen.c_N : Int) = 0 ∧
    Gen.c_a1 * Gen.c_b2 - Gen.c_a2 * Gen.c_b1 = (Gen.c_N : Int) :=
  ⟨c_lambda_eq, c_beta_eq, glv_basis1, glv_basis2, glv_det⟩

example : (lambda : Int) ^ 2 % N ≠ 1 ∧ Gen.c_b1 < 0 := by decide +kernel

/-! ### `moduloReduce` -/

/-- `moduloReduce` keeps the scalar mod `N`, is the identity up to 32 bytes, never returns more
than 32 bytes, and is the API-level `Curve.moduloReduce`. -/
theorem impl_moduloReduce_spec (k : Bytes) :
    beNat (CurveImpl.moduloReduce k) ≡ beNat k [MOD N] ∧
    (k.length ≤ 32 → CurveImpl.moduloReduce k = k) ∧
    (CurveImpl.moduloReduce k).length ≤ 32 ∧
    CurveImpl.moduloReduce k = Curve.moduloReduce k :=
  ⟨(implModuloReduce_spec k).1, (implModuloReduce_spec k).2.1, (implModuloReduce_spec k).2.2, implModuloReduce_eq k⟩

example : CurveImpl.moduloReduce (natBE (N + 5) ++ [0]) = [5, 0] ∧
    CurveImpl.moduloReduce [0, 0, 7] = [0, 0, 7] := by decide +kernel

/-! ### `splitK` -/

/-- `splitK k = (|k1|, |k2|, sign k1, sign k2)` with `k1 + k2·λ ≡ k (mod N)`; both halves are below
`2^129` in absolute value (at most 17 bytes) for EVERY input; a zero half has sign 0 and empty bytes;
signs are `-1`, `0` or `1`. -/
theorem impl_splitK_spec (k : Bytes) :
    ((CurveImpl.splitK k).2.2.1 * (beNat (CurveImpl.splitK k).1 : Int)
      + (CurveImpl.splitK k).2.2.2 * (beNat (CurveImpl.splitK k).2.1 : Int) * (lambda : Int)
      ≡ (beNat k : Int) [ZMOD (N : Int)]) ∧
    beNat (CurveImpl.splitK k).1 < 2 ^ 129 ∧ beNat (CurveImpl.splitK k).2.1 < 2 ^ 129 ∧
    (CurveImpl.splitK k).1.length ≤ 17 ∧ (CurveImpl.splitK k).2.1.length ≤ 17 ∧
    ((CurveImpl.splitK k).2.2.1 = 0 ↔ (CurveImpl.splitK k).1 = []) ∧
    ((CurveImpl.splitK k).2.2.2 = 0 ↔ (CurveImpl.splitK k).2.1 = []) ∧
    (CurveImpl.splitK k).2.2.1 = Int.sign (splitK1 k) ∧
    (CurveImpl.splitK k).2.2.2 = Int.sign (splitK2 k) := by
  refine ⟨splitK_spec k, ?_, ?_, (splitK_length_le k).1, (splitK_length_le k).2,
    (splitK_zero1 k).1, (splitK_zero1 k).2, rfl, rfl⟩
  · rw [splitK_eq]; simp only [beNat_natBE]; exact (splitK_natAbs_lt k).1
  · rw [splitK_eq]; simp only [beNat_natBE]; exact (splitK_natAbs_lt k).2

/-- both halves negative for `k = 1`; `k = 0` gives two empty halves with sign 0 -/
example : (CurveImpl.splitK [1]).2.2.1 = -1 ∧ (CurveImpl.splitK [1]).2.2.2 = -1 ∧
    CurveImpl.splitK [] = ([], [], 0, 0) ∧ CurveImpl.splitK [0] = ([], [], 0, 0) := by decide +kernel

/-! ### `NAF` -/

/-- `NAF(k) = (pos, neg)`: `pos − neg = k` as big-endian integers, equal lengths, one byte longer
than `k` at most (exactly when the carry leaves the top), no bit position is set in both, and no
two neighbouring positions both hold a non-zero digit (non-adjacent form). -/
theorem impl_naf_spec (k : Bytes) :
    (beNat (CurveImpl.naf k).1 : Int) - beNat (CurveImpl.naf k).2 = beNat k ∧
    (CurveImpl.naf k).1.length = (CurveImpl.naf k).2.length ∧
    ((CurveImpl.naf k).1.length = k.length ∨ (CurveImpl.naf k).1.length = k.length + 1) ∧
    (∀ i : Nat, ¬((CurveImpl.bitsBE (CurveImpl.naf k).1)[i]? = some true ∧
            (CurveImpl.bitsBE (CurveImpl.naf k).2)[i]? = some true)) ∧
    (∀ i : Nat, ¬(((CurveImpl.bitsBE (CurveImpl.naf k).1)[i]? = some true ∨
                   (CurveImpl.bitsBE (CurveImpl.naf k).2)[i]? = some true) ∧
                  ((CurveImpl.bitsBE (CurveImpl.naf k).1)[i+1]? = some true ∨
                   (CurveImpl.bitsBE (CurveImpl.naf k).2)[i+1]? = some true))) :=
  ⟨(naf_spec k).1, (naf_spec k).2.1, (naf_spec k).2.2.1, noBoth_getElem? _ _ (naf_spec k).2.2.2,
    nonAdjB_getElem? _ _ (by rw [bitsBE_length, bitsBE_length, (naf_spec k).2.1]) (naf_nonAdj k)⟩

/-- `7 = 8 − 1`, `255 = 256 − 1` (carry out: one more byte), empty input, `91 = 128 − 32 − 4 − 1` -/
example : CurveImpl.naf [7] = ([8], [1]) ∧ CurveImpl.naf [0xff] = ([1, 0], [0, 1]) ∧
    CurveImpl.naf [] = ([], []) ∧ CurveImpl.naf [0x5b] = ([0x80], [0x25]) := by
  decide

/-! ### the loops, under formula correctness -/

/-- the interleaved loop of `ScalarMult`: starting from an accumulator representing `A`, every
column doubles and adds `±P1`, `±P2` according to the two NAF digits. -/
theorem impl_smulLoop_spec (F : FormulaOK) (P1 P2 : E.Point) (p1 p1n p2 p2n : CurveImpl.Jac)
    (h1 : F.RepIn p1 (enc P1)) (h1n : F.RepIn p1n (enc (-P1)))
    (h2 : F.RepIn p2 (enc P2)) (h2n : F.RepIn p2n (enc (-P2)))
    (steps : List (Bool × Bool × Bool × Bool)) (q : CurveImpl.Jac) (A : E.Point)
    (hq : F.Rep q (enc A)) :
    F.Rep (CurveImpl.smulLoop p1 p1n p2 p2n steps q) (enc (loopPt P1 P2 steps A)) ∧
    (∀ u v : Int, loopPt P1 P2 steps (u • P1 + v • P2) = V1 steps u • P1 + V2 steps v • P2) :=
  ⟨smulLoop_spec F P1 P2 p1 p1n p2 p2n h1 h1n h2 h2n steps q A hq, loopPt_eq P1 P2 steps⟩

/-- the digit recombination used by `impl_scalarMult_eq`, on a concrete 32-byte scalar, evaluated by
the kernel on the real `splitK` / `naf`: `Σ naf-digits(k1)·2^i + λ·Σ naf-digits(k2)·2^i ≡ k`. -/
example :
    let k := natBE 0xdeadbeef00112233445566778899aabbccddeeff0123456789abcdef0fedcba9
    let r := CurveImpl.splitK k
    let n1 := CurveImpl.naf r.1
    let n2 := CurveImpl.naf r.2.1
    ((r.2.2.1 * ((beNat n1.1 : Int) - beNat n1.2) + r.2.2.2 * ((beNat n2.1 : Int) - beNat n2.2) * lambda)
      - beNat k) % (N : Int) = 0 ∧ n1.1.length = 17 ∧ r.2.2.2 = -1 := by
  decide +kernel

/-- **`ScalarMult`**: under `FormulaOK`/`InputOK`, for every valid `B` and EVERY byte string `k`
(empty, zero, ≥ N, longer than 32 bytes) the code-shaped model returns what the API-level model
returns, i.e. `beNat k • B` (`C01.scalarMult_exact`). -/
theorem impl_scalarMult_eq (F : FormulaOK) {B : Pt} (hB : valid B = true) (hin : InputOK F B)
    (k : Bytes) : CurveImpl.scalarMult B k = Curve.scalarMult B k :=
  scalarMult_impl_eq F hB hin k

/-- **`ScalarBaseMult`**: under `FormulaOK`/`TableOK`, for EVERY byte string `k`. -/
theorem impl_scalarBaseMult_eq (F : FormulaOK) (T : TableOK F) (k : Bytes) :
    CurveImpl.scalarBaseMult k = Curve.scalarBaseMult k :=
  scalarBaseMult_impl_eq F T k

/-- consequence used downstream: with the formulas correct, the code-shaped `ScalarMult` is the
reference scalar multiplication by `beNat k` -/
example (F : FormulaOK) (T : TableOK F) (Q : E.Point) (hin : InputOK F (enc Q)) (k : Bytes) :
    CurveImpl.scalarMult (enc Q) k = enc (beNat k • Q) ∧
    CurveImpl.scalarBaseMult k = enc (beNat k • Gpt) := by
  constructor
  · rw [impl_scalarMult_eq F (valid_enc Q) hin, Curve.scalarMult_def, ← implModuloReduce_eq,
      ← smul_mod_N _ (valid_enc Q), (implModuloReduce_spec k).1, smul_mod_N _ (valid_enc Q), smul_enc]
  · rw [impl_scalarBaseMult_eq F T, Curve.scalarBaseMult_def, ← implModuloReduce_eq, ← enc_Gpt,
      ← smul_mod_N _ (valid_enc Gpt), (implModuloReduce_spec k).1, smul_mod_N _ (valid_enc Gpt), smul_enc]

end GoBk.Props.C01

#print axioms GoBk.Props.C01.impl_glv_constants
#print axioms GoBk.Props.C01.impl_moduloReduce_spec
#print axioms GoBk.Props.C01.impl_splitK_spec
#print axioms GoBk.Props.C01.impl_naf_spec
#print axioms GoBk.Props.C01.impl_smulLoop_spec
#print axioms GoBk.Props.C01.impl_scalarMult_eq
#print axioms GoBk.Props.C01.impl_scalarBaseMult_eq
