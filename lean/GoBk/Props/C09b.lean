/-
  GoBk.Props.C09b — property C09, CALL-SITE half:
    "Every point addition and doubling formula, for every representation of its input points,
     invokes these operations only within those bounds."

  The word-level half (the bounds under which each `fieldVal` operation neither wraps nor
  truncates: `add_sound`, `negateVal_sound`, `mulInt_sound`, `mul2_sound`, `squareVal_sound`,
  `normalise_canonical`, … in Proofs/Field*.lean) is Props/C09.lean.  Here: the point formulas of
  /repo/bec/btcec.go and pubkey.go — REGENERATED as data `GoBk.Gen.CurveIR.prog` — call those
  operations only within these bounds.

  Method (nothing here depends on the text of Gen/CurveIR.lean):
    1. `*_check` theorems: the verified abstract interpreter `GoBk.IRA.magCheckFnOk`
       (Model/IRAnalysis.lean) is EVALUATED BY THE KERNEL (`decide +kernel`) on the regenerated
       `prog`, for a given abstract precondition (a magnitude bound / normalisation flag per
       argument), aliasing pattern of the pointer parameters, and abstract postcondition.
    2. `*_no_overflow` corollaries via the generic soundness theorem
       `GoBk.IRA.magCheckFnOk_sound` (Proofs/IRSound.lean): for ALL concrete inputs within the
       precondition the run of `GoBk.IR.execBlock` (= what `runFn`/`runFnFull` execute, callees
       included) is `RunSafe`: every executed field operation is within the bounds of its
       word-level theorem — no 32/64-bit word wraps (`toN = _exact`), its value is its algebraic
       meaning mod P — every `Equals`/`IsOdd` evaluated has fully normalised operands, and the
       final contents of the parameter cells satisfy the postcondition.

  Abstract values: `m k` = magnitude ≤ k (`MagLe k`), `n1` = fully normalised (canonical words,
  value < P), `top` = any 10 words whatsoever (used for pure OUTPUT cells).

  FINDING (reported, not fudged).  The expected accumulator invariant "outputs (x3,y3,z3) of
  addJacobian have magnitude (1,1,1)" does NOT hold when a `y` input has magnitude 2 — which is the
  case in `ScalarMult` (p1yNeg = NegateVal(p1y,1), btcec.go:778/785): the early exits
  btcec.go:421-424 (first point is ∞: `x3.Set(x2); y3.Set(y2); z3.Set(z2)`) and :427-430 copy an
  INPUT to the output, so y3 can have magnitude 2 and be non-normalised
  (`addJacobian_y_mag2_post_111_fails`, concrete run: `addJacobian_y3_mag2_witness`).  This is harmless: the invariant that IS inductive for the
  `ScalarMult` loop is (x,y,z) ≤ (1,2,1) for the accumulator and for the points P1, −P1, P2, −P2
  (`scalarMult_invariant_inductive`); with all inputs of magnitude 1 the outputs are ≤ (1,1,1)
  (`addJacobian_mag1_check_*`), and for `ScalarBaseMult` (normalised table points) the accumulator
  keeps x, y normalised (`scalarBaseMult_invariant_inductive`).  The formulas have a large margin:
  all checks still pass with every input at magnitude 7 (`*_mag7_check`), and fail at 8
  (`b.Add(x1).Square()` in doubleZ1EqualsOne, btcec.go:518, would square a magnitude-9 value).
-/
import GoBk.Proofs.IRSound
import GoBk.Gen.CurveIR
import GoBk.Model.CurveImpl

namespace GoBk.Props.C09
open GoBk.IR GoBk.IRA GoBk.Gen.CurveIR GoBk.Gen.Field GoBk.Proofs.Field

/-! ## abstract values and their meaning -/

/-- magnitude at most `k` -/
def m (k : Nat) : AVal := ⟨k, false⟩
/-- fully normalised -/
def n1 : AVal := ⟨1, true⟩
/-- no information (any ten 32-bit words) -/
def top : AVal := ⟨1024, false⟩

theorem sat_m {k : Nat} {x : FV} (h : MagLe k x) : Sat (m k) x := ⟨h, fun h => by cases h⟩
theorem sat_n1 {x : FV} (h : Norm x) : Sat n1 x := ⟨h.magLe, fun _ => h⟩
theorem sat_top (x : FV) : Sat top x := by
  refine ⟨?_, fun h => by cases h⟩
  have h0 := x.n0.toNat_lt; have h1 := x.n1.toNat_lt; have h2 := x.n2.toNat_lt
  have h3 := x.n3.toNat_lt; have h4 := x.n4.toNat_lt; have h5 := x.n5.toNat_lt
  have h6 := x.n6.toNat_lt; have h7 := x.n7.toNat_lt; have h8 := x.n8.toNat_lt
  have h9 := x.n9.toNat_lt
  simp only [top, MagLe]
  omega

theorem of_sat_m {k : Nat} {x : FV} (h : Sat (m k) x) : MagLe k x := h.1
theorem of_sat_n1 {x : FV} (h : Sat n1 x) : Norm x := h.2 rfl

/-- the three package constants the formulas read are fully normalised -/
def ConstsNorm (consts : FV × FV × FV) : Prop := Norm consts.1 ∧ Norm consts.2.1 ∧ Norm consts.2.2

/-- … as they are in the code-shaped model (`fieldOne`, `curve.fieldB` = 7, `curve.beta`) -/
theorem consts_norm : ConstsNorm GoBk.CurveImpl.consts := by
  unfold ConstsNorm
  decide +kernel

/-! ## the functions of `prog` (looked up by evaluation) -/

theorem prog_addZ1AndZ2EqualsOne : prog[fn_addZ1AndZ2EqualsOne]? = some addZ1AndZ2EqualsOne := rfl
theorem prog_addZ1EqualsZ2 : prog[fn_addZ1EqualsZ2]? = some addZ1EqualsZ2 := rfl
theorem prog_addZ2EqualsOne : prog[fn_addZ2EqualsOne]? = some addZ2EqualsOne := rfl
theorem prog_addGeneric : prog[fn_addGeneric]? = some addGeneric := rfl
theorem prog_addJacobian : prog[fn_addJacobian]? = some addJacobian := rfl
theorem prog_doubleZ1EqualsOne : prog[fn_doubleZ1EqualsOne]? = some doubleZ1EqualsOne := rfl
theorem prog_doubleGeneric : prog[fn_doubleGeneric]? = some doubleGeneric := rfl
theorem prog_doubleJacobian : prog[fn_doubleJacobian]? = some doubleJacobian := rfl
theorem prog_fieldJacobianToBigAffine :
    prog[fn_fieldJacobianToBigAffine]? = some fieldJacobianToBigAffine := rfl
theorem prog_isOnCurve : prog[fn_isOnCurve]? = some isOnCurve := rfl
theorem prog_decompressPoint : prog[fn_decompressPoint]? = some decompressPoint := rfl

/-- what a successful check means (instance of `magCheckFnOk_sound`): for all concrete arguments
within `pre` the run is safe and the parameter slot `3+j` finally satisfies `post[j]` -/
theorem check_sound {f : Nat} {fn : Fn} (hfn : prog[f]? = some fn) {pre post : List AVal}
    {al : List Nat} (h : magCheckFnOk prog f pre post al = true)
    {consts : FV × FV × FV} (hc : ConstsNorm consts) {args : List FV} (hargs : SatAll pre args)
    (flags0 : Nat → Bool) :
    RunSafe prog 8 (initMem consts args fn.nlocals) (initFrame args.length al flags0) fn.body ∧
      ∀ j p, post[j]? = some p → Sat p ((runOut prog consts fn args al flags0).mem.get (3 + j)) :=
  magCheckFnOk_sound hfn h hc hargs flags0

/-! ## aliasing patterns used by the callers (parameter i lives in slot `al[i]`) -/

/-- addJacobian / addGeneric, all nine pointers distinct (`Add`, `verif_hooks`) -/
def al9 : List Nat := [0, 1, 2, 3, 4, 5, 6, 7, 8]
/-- addJacobian(qx,qy,qz, px,py,pz, qx,qy,qz): result overwrites the first point
(`ScalarMult`, `ScalarBaseMult`, `SerialisedBytePoints`) -/
def al9acc : List Nat := [0, 1, 2, 3, 4, 5, 0, 1, 2]
/-- the three 8-parameter variants (x1,y1,z1,x2,y2,x3,y3,z3) -/
def al8 : List Nat := [0, 1, 2, 3, 4, 5, 6, 7]
def al8acc : List Nat := [0, 1, 2, 3, 4, 0, 1, 2]
/-- doubleJacobian / doubleGeneric (x1,y1,z1,x3,y3,z3): distinct (`Double`) and in place
(`ScalarMult`, `getDoublingPoints`) -/
def al6 : List Nat := [0, 1, 2, 3, 4, 5]
def al6acc : List Nat := [0, 1, 2, 0, 1, 2]
/-- doubleZ1EqualsOne (x1,y1,x3,y3,z3): distinct, and as called from an in-place doubleJacobian
(x3 = x1, y3 = y1, z3 = the caller's z1) -/
def al5 : List Nat := [0, 1, 2, 3, 4]
def al5acc : List Nat := [0, 1, 0, 1, 4]

/-! ## addJacobian -/

/-- inputs (x,y,z) ≤ (1,2,1) twice, outputs arbitrary, all distinct: accepted; afterwards the
inputs are still ≤ (1,2,1) and the outputs are ≤ (1,2,1). -/
theorem addJacobian_check_distinct :
    magCheckFnOk prog fn_addJacobian
      [m 1, m 2, m 1,  m 1, m 2, m 1,  top, top, top]
      [m 1, m 2, m 1,  m 1, m 2, m 1,  m 1, m 2, m 1] al9 = true := by decide +kernel

/-- the same with the result overwriting the first point (accumulator pattern): accepted;
afterwards accumulator and second point are again ≤ (1,2,1) — the loop invariant is inductive. -/
theorem addJacobian_check_acc :
    magCheckFnOk prog fn_addJacobian
      [m 1, m 2, m 1,  m 1, m 2, m 1,  top, top, top]
      [m 1, m 2, m 1,  m 1, m 2, m 1,  top, top, top] al9acc = true := by decide +kernel

/-- FINDING: with a `y` input of magnitude 2 the outputs are NOT all of magnitude ≤ 1 (the early
exits btcec.go:421-424 / 427-430 copy an input point to the output) … -/
theorem addJacobian_y_mag2_post_111_fails :
    magCheckFnOk prog fn_addJacobian
      [m 1, m 2, m 1,  m 1, m 2, m 1,  top, top, top]
      [m 1, m 2, m 1,  m 1, m 2, m 1,  m 1, m 1, m 1] al9 = false ∧
    magCheckFnOk prog fn_addJacobian
      [m 1, m 2, m 1,  m 1, m 2, m 1,  top, top, top]
      [m 1, m 1, m 1,  m 1, m 2, m 1,  top, top, top] al9acc = false := by decide +kernel

/-- … and this is a fact about the code, not an imprecision of the analysis: a concrete run
(first point ∞, second point with the magnitude-2, non-canonical y `exB`) returns y3 = `exB`. -/
theorem addJacobian_y3_mag2_witness :
    (runFn prog GoBk.CurveImpl.consts fn_addJacobian
        [zero, zero, zero, exA, exB, setInt 1, zero, zero, zero] al9).getD 7 zero = exB ∧
      ¬ MagLe 1 exB := by
  refine ⟨?_, by decide⟩
  rw [runFn_eq_runFnFull, runFnFull_eq prog_addJacobian]
  simp only [runOut, addJacobian, addJacobian_body, execBlock, execStmt, evalCond]
  simp [applyOp, initMem, initFrame, al9, Frame.addr, Mem.get, Mem.set, isZero, zero, List.range,
    List.range.loop]

/-- … but the operations are all within bounds (the analysis itself succeeds). -/
theorem addJacobian_y_mag2_accepted :
    (magCheckFn prog fn_addJacobian [m 1, m 2, m 1,  m 1, m 2, m 1,  top, top, top] al9).isSome = true ∧
    (magCheckFn prog fn_addJacobian [m 1, m 2, m 1,  m 1, m 2, m 1,  top, top, top] al9acc).isSome = true := by
  decide +kernel

/-- all inputs of magnitude 1: outputs of magnitude (1,1,1), both aliasing patterns -/
theorem addJacobian_mag1_check_distinct :
    magCheckFnOk prog fn_addJacobian
      [m 1, m 1, m 1,  m 1, m 1, m 1,  top, top, top]
      [m 1, m 1, m 1,  m 1, m 1, m 1,  m 1, m 1, m 1] al9 = true := by decide +kernel

theorem addJacobian_mag1_check_acc :
    magCheckFnOk prog fn_addJacobian
      [m 1, m 1, m 1,  m 1, m 1, m 1,  top, top, top]
      [m 1, m 1, m 1,  m 1, m 1, m 1,  top, top, top] al9acc = true := by decide +kernel

/-- `ScalarBaseMult`: accumulator with normalised x, y (z magnitude 1), normalised table point
(z = 1): accepted, and the accumulator again has normalised x, y and z of magnitude 1; the table
point stays normalised. -/
theorem addJacobian_norm_check_acc :
    magCheckFnOk prog fn_addJacobian
      [n1, n1, m 1,  n1, n1, n1,  top, top, top]
      [n1, n1, m 1,  n1, n1, n1,  top, top, top] al9acc = true := by decide +kernel

/-- margin: every input at magnitude 7 is still accepted -/
theorem addJacobian_mag7_check :
    magCheckFnOk prog fn_addJacobian
      [m 7, m 7, m 7,  m 7, m 7, m 7,  top, top, top]
      [m 7, m 7, m 7,  m 7, m 7, m 7,  m 7, m 7, m 7] al9 = true ∧
    magCheckFnOk prog fn_addJacobian
      [m 7, m 7, m 7,  m 7, m 7, m 7,  top, top, top]
      [m 7, m 7, m 7,  m 7, m 7, m 7,  top, top, top] al9acc = true := by decide +kernel

/-- … and magnitude 8 (the bound of Mul/Square themselves) is NOT: `b.Add(x1).Square()`
(btcec.go:518, doubleZ1EqualsOne reached through the equal-points exits) would square a
magnitude-9 value -/
theorem addJacobian_mag8_rejected :
    magCheckFn prog fn_addJacobian [m 8, m 8, m 8,  m 8, m 8, m 8,  top, top, top] al9 = none := by
  decide +kernel

/-! ## doubleJacobian -/

/-- input ≤ (1,2,1), outputs arbitrary, distinct: accepted, outputs fully normalised -/
theorem doubleJacobian_check_distinct :
    magCheckFnOk prog fn_doubleJacobian
      [m 1, m 2, m 1,  top, top, top]
      [m 1, m 2, m 1,  n1, n1, n1] al6 = true := by decide +kernel

/-- in place (x3 = x1, …): accepted, the point is fully normalised afterwards -/
theorem doubleJacobian_check_acc :
    magCheckFnOk prog fn_doubleJacobian
      [m 1, m 2, m 1,  top, top, top]
      [n1, n1, n1,  top, top, top] al6acc = true := by decide +kernel

theorem doubleJacobian_mag7_check :
    magCheckFnOk prog fn_doubleJacobian [m 7, m 7, m 7,  top, top, top] [m 7, m 7, m 7,  n1, n1, n1] al6 = true ∧
    magCheckFnOk prog fn_doubleJacobian [m 7, m 7, m 7,  top, top, top] [n1, n1, n1,  top, top, top] al6acc = true := by
  decide +kernel

theorem doubleJacobian_mag8_rejected :
    magCheckFn prog fn_doubleJacobian [m 8, m 8, m 8,  top, top, top] al6acc = none := by
  decide +kernel

/-! ## the loop invariants of the scalar multiplications are inductive -/

/-- `ScalarMult` (btcec.go:837-858): with accumulator Q and the points ±P1, ±P2 all ≤ (1,2,1)
(`p1yNeg`/`p2yNeg` have magnitude 2, `p2x = Mul2(p1x, beta)` magnitude 1), `Q = 2Q` in place and
`Q = Q + P` in place are accepted and re-establish (1,2,1) for Q AND for P (which the variants
normalise in place). -/
theorem scalarMult_invariant_inductive :
    magCheckFnOk prog fn_doubleJacobian
      [m 1, m 2, m 1,  top, top, top] [m 1, m 2, m 1,  top, top, top] al6acc = true ∧
    magCheckFnOk prog fn_addJacobian
      [m 1, m 2, m 1,  m 1, m 2, m 1,  top, top, top]
      [m 1, m 2, m 1,  m 1, m 2, m 1,  top, top, top] al9acc = true := by decide +kernel

/-- `ScalarBaseMult` (btcec.go:882-885): Q has normalised x, y and z of magnitude 1 (initially all
zero), the byte points are normalised with z = 1; `Q = Q + p` in place re-establishes this. -/
theorem scalarBaseMult_invariant_inductive :
    magCheckFnOk prog fn_addJacobian
      [n1, n1, m 1,  n1, n1, n1,  top, top, top]
      [n1, n1, m 1,  n1, n1, n1,  top, top, top] al9acc = true := addJacobian_norm_check_acc

/-! ## the six variants, called directly
preconditions as established by their callers `addJacobian` / `doubleJacobian`: x ≤ 1, y ≤ 2,
z normalised (both callers normalise z before dispatching); distinct outputs and in place -/

theorem addZ1AndZ2EqualsOne_check :
    magCheckFnOk prog fn_addZ1AndZ2EqualsOne
      [m 1, m 2, n1,  m 1, m 2,  top, top, top] [n1, n1, n1,  n1, n1,  n1, n1, n1] al8 = true ∧
    magCheckFnOk prog fn_addZ1AndZ2EqualsOne
      [m 1, m 2, n1,  m 1, m 2,  top, top, top] [n1, n1, n1,  n1, n1,  top, top, top] al8acc = true := by
  decide +kernel

theorem addZ1EqualsZ2_check :
    magCheckFnOk prog fn_addZ1EqualsZ2
      [m 1, m 2, n1,  m 1, m 2,  top, top, top] [n1, n1, n1,  n1, n1,  n1, n1, m 1] al8 = true ∧
    magCheckFnOk prog fn_addZ1EqualsZ2
      [m 1, m 2, n1,  m 1, m 2,  top, top, top] [n1, n1, m 1,  n1, n1,  top, top, top] al8acc = true := by
  decide +kernel

theorem addZ2EqualsOne_check :
    magCheckFnOk prog fn_addZ2EqualsOne
      [m 1, m 2, n1,  m 1, m 2,  top, top, top] [n1, n1, n1,  m 1, m 2,  n1, n1, n1] al8 = true ∧
    magCheckFnOk prog fn_addZ2EqualsOne
      [m 1, m 2, n1,  m 1, m 2,  top, top, top] [n1, n1, n1,  m 1, m 2,  top, top, top] al8acc = true := by
  decide +kernel

theorem addGeneric_check :
    magCheckFnOk prog fn_addGeneric
      [m 1, m 2, n1,  m 1, m 2, n1,  top, top, top] [m 1, m 2, n1,  m 1, m 2, n1,  n1, n1, m 1] al9 = true ∧
    magCheckFnOk prog fn_addGeneric
      [m 1, m 2, n1,  m 1, m 2, n1,  top, top, top] [n1, n1, m 1,  m 1, m 2, n1,  top, top, top] al9acc = true := by
  decide +kernel

theorem doubleZ1EqualsOne_check :
    magCheckFnOk prog fn_doubleZ1EqualsOne
      [m 1, m 2,  top, top, top] [m 1, m 2,  n1, n1, n1] al5 = true ∧
    magCheckFnOk prog fn_doubleZ1EqualsOne
      [m 1, m 2,  top, top, top] [n1, n1,  top, top, n1] al5acc = true := by
  decide +kernel

theorem doubleGeneric_check :
    magCheckFnOk prog fn_doubleGeneric
      [m 1, m 2, n1,  top, top, top] [m 1, m 2, n1,  n1, n1, n1] al6 = true ∧
    magCheckFnOk prog fn_doubleGeneric
      [m 1, m 2, n1,  top, top, top] [n1, n1, n1,  top, top, top] al6acc = true := by
  decide +kernel

/-- the variants do not even need a normalised `z` for their OPERATIONS to be within bounds
(only the dispatch in addJacobian/doubleJacobian tests z with Equals): z of magnitude 1 suffices -/
theorem variants_z_mag1_accepted :
    (magCheckFn prog fn_addZ1AndZ2EqualsOne [m 1, m 2, m 1,  m 1, m 2,  top, top, top] al8acc).isSome = true ∧
    (magCheckFn prog fn_addZ1EqualsZ2 [m 1, m 2, m 1,  m 1, m 2,  top, top, top] al8acc).isSome = true ∧
    (magCheckFn prog fn_addZ2EqualsOne [m 1, m 2, m 1,  m 1, m 2,  top, top, top] al8acc).isSome = true ∧
    (magCheckFn prog fn_addGeneric [m 1, m 2, m 1,  m 1, m 2, m 1,  top, top, top] al9acc).isSome = true ∧
    (magCheckFn prog fn_doubleGeneric [m 1, m 2, m 1,  top, top, top] al6acc).isSome = true := by
  decide +kernel

/-! ## fieldJacobianToBigAffine, IsOnCurve, decompressPoint -/

/-- (x,y,z) ≤ (1,2,1) (what the scalar multiplications leave in Q): accepted — `Inverse` is
applied to a magnitude-1 value — and x, y, z are fully normalised on return (so the conversion to
`big.Int` that follows reads canonical values). -/
theorem fieldJacobianToBigAffine_check :
    magCheckFnOk prog fn_fieldJacobianToBigAffine [m 1, m 2, m 1] [n1, n1, n1] [0, 1, 2] = true := by
  decide +kernel

/-- `IsOnCurve`: fx, fy = `SetByteSlice` of 32 bytes (magnitude 1, possibly ≥ P): accepted; the
final `Equals` compares two normalised values. -/
theorem isOnCurve_check :
    magCheckFnOk prog fn_isOnCurve [m 1, m 1] [m 1, m 1] [0, 1] = true := by decide +kernel

/-- `decompressPoint`: x = `SetByteSlice` (magnitude 1): accepted; `SqrtVal` gets a normalised
operand, both `IsOdd` and the `Equals` test see normalised values. -/
theorem decompressPoint_check :
    magCheckFnOk prog fn_decompressPoint [m 1] [m 1] [0] = true := by decide +kernel

/-! ## corollaries for ALL concrete inputs (via `magCheckFnOk_sound`) -/

/-- **addJacobian never overflows** (all nine pointers distinct): for all inputs with
x ≤ 1, y ≤ 2, z ≤ 1 and ARBITRARY contents of the output cells, every field operation executed by
`addJacobian` and its callees (the four variants, `doubleJacobian`, `doubleZ1EqualsOne`,
`doubleGeneric`) is within the bounds of its word-level theorem, every `Equals` sees normalised
operands, and on return inputs and outputs are ≤ (1,2,1). -/
theorem addJacobian_no_overflow {consts : FV × FV × FV} (hc : ConstsNorm consts)
    (x1 y1 z1 x2 y2 z2 x3 y3 z3 : FV)
    (hx1 : MagLe 1 x1) (hy1 : MagLe 2 y1) (hz1 : MagLe 1 z1)
    (hx2 : MagLe 1 x2) (hy2 : MagLe 2 y2) (hz2 : MagLe 1 z2) (flags0 : Nat → Bool) :
    RunSafe prog 8 (initMem consts [x1, y1, z1, x2, y2, z2, x3, y3, z3] addJacobian.nlocals)
        (initFrame 9 al9 flags0) addJacobian.body ∧
      (let out := (runOut prog consts addJacobian [x1, y1, z1, x2, y2, z2, x3, y3, z3] al9 flags0).mem
       MagLe 1 (out.get 9) ∧ MagLe 2 (out.get 10) ∧ MagLe 1 (out.get 11) ∧
       MagLe 1 (out.get 3) ∧ MagLe 2 (out.get 4) ∧ MagLe 1 (out.get 5) ∧
       MagLe 1 (out.get 6) ∧ MagLe 2 (out.get 7) ∧ MagLe 1 (out.get 8)) := by
  have h := check_sound prog_addJacobian addJacobian_check_distinct hc
    (args := [x1, y1, z1, x2, y2, z2, x3, y3, z3])
    ⟨sat_m hx1, sat_m hy1, sat_m hz1, sat_m hx2, sat_m hy2, sat_m hz2,
      sat_top x3, sat_top y3, sat_top z3, trivial⟩ flags0
  refine ⟨h.1, ?_⟩
  exact ⟨of_sat_m (h.2 6 _ rfl), of_sat_m (h.2 7 _ rfl), of_sat_m (h.2 8 _ rfl),
    of_sat_m (h.2 0 _ rfl), of_sat_m (h.2 1 _ rfl), of_sat_m (h.2 2 _ rfl),
    of_sat_m (h.2 3 _ rfl), of_sat_m (h.2 4 _ rfl), of_sat_m (h.2 5 _ rfl)⟩

/-- **addJacobian never overflows, accumulator pattern** `addJacobian(q, p, q)`: the result
overwrites the first point.  Slots 3,4,5 = Q, slots 6,7,8 = P. -/
theorem addJacobian_acc_no_overflow {consts : FV × FV × FV} (hc : ConstsNorm consts)
    (qx qy qz px py pz : FV)
    (hqx : MagLe 1 qx) (hqy : MagLe 2 qy) (hqz : MagLe 1 qz)
    (hpx : MagLe 1 px) (hpy : MagLe 2 py) (hpz : MagLe 1 pz) (flags0 : Nat → Bool) :
    RunSafe prog 8 (initMem consts [qx, qy, qz, px, py, pz, qx, qy, qz] addJacobian.nlocals)
        (initFrame 9 al9acc flags0) addJacobian.body ∧
      (let out := (runOut prog consts addJacobian [qx, qy, qz, px, py, pz, qx, qy, qz] al9acc flags0).mem
       MagLe 1 (out.get 3) ∧ MagLe 2 (out.get 4) ∧ MagLe 1 (out.get 5) ∧
       MagLe 1 (out.get 6) ∧ MagLe 2 (out.get 7) ∧ MagLe 1 (out.get 8)) := by
  have h := check_sound prog_addJacobian addJacobian_check_acc hc
    (args := [qx, qy, qz, px, py, pz, qx, qy, qz])
    ⟨sat_m hqx, sat_m hqy, sat_m hqz, sat_m hpx, sat_m hpy, sat_m hpz,
      sat_top qx, sat_top qy, sat_top qz, trivial⟩ flags0
  refine ⟨h.1, ?_⟩
  exact ⟨of_sat_m (h.2 0 _ rfl), of_sat_m (h.2 1 _ rfl), of_sat_m (h.2 2 _ rfl),
    of_sat_m (h.2 3 _ rfl), of_sat_m (h.2 4 _ rfl), of_sat_m (h.2 5 _ rfl)⟩

/-- **doubleJacobian never overflows** (distinct outputs): outputs fully normalised -/
theorem doubleJacobian_no_overflow {consts : FV × FV × FV} (hc : ConstsNorm consts)
    (x1 y1 z1 x3 y3 z3 : FV)
    (hx1 : MagLe 1 x1) (hy1 : MagLe 2 y1) (hz1 : MagLe 1 z1) (flags0 : Nat → Bool) :
    RunSafe prog 8 (initMem consts [x1, y1, z1, x3, y3, z3] doubleJacobian.nlocals)
        (initFrame 6 al6 flags0) doubleJacobian.body ∧
      (let out := (runOut prog consts doubleJacobian [x1, y1, z1, x3, y3, z3] al6 flags0).mem
       Norm (out.get 6) ∧ Norm (out.get 7) ∧ Norm (out.get 8)) := by
  have h := check_sound prog_doubleJacobian doubleJacobian_check_distinct hc
    (args := [x1, y1, z1, x3, y3, z3])
    ⟨sat_m hx1, sat_m hy1, sat_m hz1, sat_top x3, sat_top y3, sat_top z3, trivial⟩ flags0
  exact ⟨h.1, of_sat_n1 (h.2 3 _ rfl), of_sat_n1 (h.2 4 _ rfl), of_sat_n1 (h.2 5 _ rfl)⟩

/-- **doubleJacobian never overflows, in place** `doubleJacobian(q, q)` -/
theorem doubleJacobian_acc_no_overflow {consts : FV × FV × FV} (hc : ConstsNorm consts)
    (qx qy qz : FV) (hqx : MagLe 1 qx) (hqy : MagLe 2 qy) (hqz : MagLe 1 qz) (flags0 : Nat → Bool) :
    RunSafe prog 8 (initMem consts [qx, qy, qz, qx, qy, qz] doubleJacobian.nlocals)
        (initFrame 6 al6acc flags0) doubleJacobian.body ∧
      (let out := (runOut prog consts doubleJacobian [qx, qy, qz, qx, qy, qz] al6acc flags0).mem
       Norm (out.get 3) ∧ Norm (out.get 4) ∧ Norm (out.get 5)) := by
  have h := check_sound prog_doubleJacobian doubleJacobian_check_acc hc
    (args := [qx, qy, qz, qx, qy, qz])
    ⟨sat_m hqx, sat_m hqy, sat_m hqz, sat_top qx, sat_top qy, sat_top qz, trivial⟩ flags0
  exact ⟨h.1, of_sat_n1 (h.2 0 _ rfl), of_sat_n1 (h.2 1 _ rfl), of_sat_n1 (h.2 2 _ rfl)⟩

/-- **fieldJacobianToBigAffine never overflows** and leaves x, y, z fully normalised -/
theorem fieldJacobianToBigAffine_no_overflow {consts : FV × FV × FV} (hc : ConstsNorm consts)
    (x y z : FV) (hx : MagLe 1 x) (hy : MagLe 2 y) (hz : MagLe 1 z) (flags0 : Nat → Bool) :
    RunSafe prog 8 (initMem consts [x, y, z] fieldJacobianToBigAffine.nlocals)
        (initFrame 3 [0, 1, 2] flags0) fieldJacobianToBigAffine.body ∧
      (let out := (runOut prog consts fieldJacobianToBigAffine [x, y, z] [0, 1, 2] flags0).mem
       Norm (out.get 3) ∧ Norm (out.get 4) ∧ Norm (out.get 5)) := by
  have h := check_sound prog_fieldJacobianToBigAffine fieldJacobianToBigAffine_check hc
    (args := [x, y, z]) ⟨sat_m hx, sat_m hy, sat_m hz, trivial⟩ flags0
  exact ⟨h.1, of_sat_n1 (h.2 0 _ rfl), of_sat_n1 (h.2 1 _ rfl), of_sat_n1 (h.2 2 _ rfl)⟩

/-- **IsOnCurve never overflows** -/
theorem isOnCurve_no_overflow {consts : FV × FV × FV} (hc : ConstsNorm consts)
    (fx fy : FV) (hx : MagLe 1 fx) (hy : MagLe 1 fy) (flags0 : Nat → Bool) :
    RunSafe prog 8 (initMem consts [fx, fy] isOnCurve.nlocals)
        (initFrame 2 [0, 1] flags0) isOnCurve.body :=
  (check_sound prog_isOnCurve isOnCurve_check hc (args := [fx, fy])
    ⟨sat_m hx, sat_m hy, trivial⟩ flags0).1

/-- **decompressPoint never overflows** (either value of `ybit` = flag 0) -/
theorem decompressPoint_no_overflow {consts : FV × FV × FV} (hc : ConstsNorm consts)
    (x : FV) (hx : MagLe 1 x) (flags0 : Nat → Bool) :
    RunSafe prog 8 (initMem consts [x] decompressPoint.nlocals)
        (initFrame 1 [0] flags0) decompressPoint.body :=
  (check_sound prog_decompressPoint decompressPoint_check hc (args := [x])
    ⟨sat_m hx, trivial⟩ flags0).1

/-- the variants called directly, generically: any arguments within the precondition of the
corresponding `*_check` theorem (use `check_sound`); e.g. addGeneric in place -/
theorem addGeneric_acc_no_overflow {consts : FV × FV × FV} (hc : ConstsNorm consts)
    {args : List FV}
    (hargs : SatAll [m 1, m 2, n1,  m 1, m 2, n1,  top, top, top] args) (flags0 : Nat → Bool) :
    RunSafe prog 8 (initMem consts args addGeneric.nlocals)
        (initFrame args.length al9acc flags0) addGeneric.body :=
  (check_sound prog_addGeneric addGeneric_check.2 hc hargs flags0).1

/-! ## non-vacuity: concrete inputs satisfying the preconditions
`exA` is canonical (and < P), `exB` has magnitude 2 and is not canonical (FieldDefs.lean). -/

example : MagLe 1 exA ∧ MagLe 2 exB ∧ ¬ MagLe 1 exB ∧ Norm exA := by decide

example : SatAll [m 1, m 2, m 1,  m 1, m 2, m 1,  top, top, top]
    [exA, exB, exA, exA, exB, setInt 1, exB, exB, exB] := by decide

example (flags0 : Nat → Bool) :=
  addJacobian_no_overflow consts_norm exA exB exA exA exB (setInt 1) exB exB exB
    (by decide) (by decide) (by decide) (by decide) (by decide) (by decide) flags0

example (flags0 : Nat → Bool) :=
  addJacobian_acc_no_overflow consts_norm exA exB exA exA exB (setInt 1)
    (by decide) (by decide) (by decide) (by decide) (by decide) (by decide) flags0

example (flags0 : Nat → Bool) :=
  doubleJacobian_no_overflow consts_norm exA exB exA exB exB exB (by decide) (by decide) (by decide) flags0

example (flags0 : Nat → Bool) :=
  doubleJacobian_acc_no_overflow consts_norm exA exB exA (by decide) (by decide) (by decide) flags0

example (flags0 : Nat → Bool) :=
  fieldJacobianToBigAffine_no_overflow consts_norm exA exB exA (by decide) (by decide) (by decide) flags0

example (flags0 : Nat → Bool) := isOnCurve_no_overflow consts_norm exA exA (by decide) (by decide) flags0
example (flags0 : Nat → Bool) := decompressPoint_no_overflow consts_norm exA (by decide) flags0

example : SatAll [m 1, m 2, n1,  m 1, m 2, n1,  top, top, top]
    [exA, exB, setInt 1, exA, exB, exA, exA, exB, setInt 1] := by decide

/-! ## axioms -/

#print axioms consts_norm
#print axioms addJacobian_check_distinct
#print axioms addJacobian_check_acc
#print axioms addJacobian_y_mag2_post_111_fails
#print axioms addJacobian_y3_mag2_witness
#print axioms addJacobian_y_mag2_accepted
#print axioms addJacobian_mag1_check_distinct
#print axioms addJacobian_mag1_check_acc
#print axioms addJacobian_norm_check_acc
#print axioms addJacobian_mag7_check
#print axioms addJacobian_mag8_rejected
#print axioms doubleJacobian_check_distinct
#print axioms doubleJacobian_check_acc
#print axioms doubleJacobian_mag7_check
#print axioms doubleJacobian_mag8_rejected
#print axioms scalarMult_invariant_inductive
#print axioms scalarBaseMult_invariant_inductive
#print axioms addZ1AndZ2EqualsOne_check
#print axioms addZ1EqualsZ2_check
#print axioms addZ2EqualsOne_check
#print axioms addGeneric_check
#print axioms doubleZ1EqualsOne_check
#print axioms doubleGeneric_check
#print axioms variants_z_mag1_accepted
#print axioms fieldJacobianToBigAffine_check
#print axioms isOnCurve_check
#print axioms decompressPoint_check
#print axioms check_sound
#print axioms addJacobian_no_overflow
#print axioms addJacobian_acc_no_overflow
#print axioms doubleJacobian_no_overflow
#print axioms doubleJacobian_acc_no_overflow
#print axioms fieldJacobianToBigAffine_no_overflow
#print axioms isOnCurve_no_overflow
#print axioms decompressPoint_no_overflow
#print axioms addGeneric_acc_no_overflow

end GoBk.Props.C09
