import GoBk.Model.XKeyStore
import GoBk.Proofs.Bip32Lemmas
/-
  C18 — histories of extended keys (object store `GoBk.XKeyStore`).

  "In every sequence of Child, Neuter, DeriveChildFromPath, SetNet, Zero and String calls on a
   family of extended keys, each key that has not itself been zeroed keeps serialising, deriving
   and addressing exactly as a freshly computed key with the same BIP32 data would: zeroing or
   re-networking one key never alters a different key obtained from it earlier nor the key it was
   obtained from.  A zeroed key reports itself as zeroed and no longer private, and SetNet changes
   only that key's version and that of children derived afterwards."

  The store model has one OBJECT per `*ExtendedKey` the Go API hands out and a register file of
  references; the only operations that return the receiver itself are `Neuter` on a public key and
  `DeriveChildFromPath("")`.  The slice-level sharing that the Go code has below this level
  (finding D9: `Neuter` sharing pubKey/chainCode/parentFP with its receiver, fixed in /repo) is
  treated in the last section: heap model `GoBk.XKeyHeap`, invariant `Inv`, refinement to this store.
-/
namespace GoBk.Props.C18
open GoBk Bytes Bip32 XKeyStore

/-- the object an operation mutates (only `SetNet` and `Zero` mutate, and only their receiver) -/
def target (st : State) : Op → Option Nat
  | .setNet r _ => (st.get r).map (·.1)
  | .zero r => (st.get r).map (·.1)
  | _ => none

/-- every register that holds a reference refers to an allocated object -/
def RegsOK (st : State) : Prop := ∀ (r id : Nat), st.regs[r]? = some (some id) → id < st.objs.size

/-! ### auxiliary facts about the store primitives -/

theorem newObj_get (st : State) (res : Except Err XKey) (id : Nat) (h : id < st.objs.size) :
    (st.newObj res).objs[id]? = st.objs[id]? := by
  cases res with
  | error e => rfl
  | ok k =>
    show (st.objs.push k)[id]? = _
    rw [Array.getElem?_push, if_neg (by omega)]

theorem newObj_size (st : State) (res : Except Err XKey) : st.objs.size ≤ (st.newObj res).objs.size := by
  cases res with
  | error e => exact Nat.le_refl _
  | ok k => show _ ≤ (st.objs.push k).size; rw [Array.size_push]; omega

theorem newObj_regs (st : State) (res : Except Err XKey) :
    (st.newObj res).regs = st.regs.push (match res with | .ok _ => some st.objs.size | .error _ => none) := by
  cases res <;> rfl

theorem get_some {st : State} {r id : Nat} {k : XKey} (h : st.get r = some (id, k)) :
    st.regs[r]? = some (some id) ∧ st.objs[id]? = some k := by
  unfold State.get at h
  split at h
  · rename_i id' hr
    cases ho : st.objs[id']? with
    | none => rw [ho] at h; cases h
    | some k' =>
      rw [ho] at h
      simp only [Option.map_some, Option.some.injEq, Prod.mk.injEq] at h
      obtain ⟨rfl, rfl⟩ := h
      exact ⟨hr, ho⟩
  · cases h

/-! ### frame: one step -/

/-- **frame**: a step leaves every object other than the one it mutates unchanged -/
theorem step_frame (pr : Prims) (nets : List Net) (st st' : State) (op : Op)
    (h : step pr nets st op = some st') (id : Nat) (hid : id < st.objs.size)
    (hne : target st op ≠ some id) : st'.objs[id]? = st.objs[id]? := by
  cases op with
  | child r i =>
    simp only [step] at h
    split at h
    · cases h
    · split at h <;> (injection h with h; subst h)
      · rfl
      · exact newObj_get _ _ _ hid
  | neuter r =>
    simp only [step] at h
    split at h
    · cases h
    · split at h
      · injection h with h; subst h; rfl
      · split at h <;> (injection h with h; subst h)
        · rfl
        · exact newObj_get _ _ _ hid
  | path r p =>
    simp only [step] at h
    split at h
    · cases h
    · split at h
      · injection h with h; subst h; rfl
      · split at h <;> (injection h with h; subst h)
        · rfl
        · exact newObj_get _ _ _ hid
  | reparse r =>
    simp only [step] at h
    split at h
    · cases h
    · split at h <;> (injection h with h; subst h)
      · rfl
      · exact newObj_get _ _ _ hid
  | setNet r n =>
    simp only [step] at h
    split at h
    · cases h
    · split at h
      · cases h
      · split at h <;> (injection h with h; subst h)
        · rfl
        · rename_i id' k hg
          have : id' ≠ id := by
            intro e; apply hne; simp [target, hg, e]
          show (st.objs.set! id' _)[id]? = _
          rw [Array.set!_eq_setIfInBounds, Array.getElem?_setIfInBounds_ne this]
  | zero r =>
    simp only [step] at h
    split at h
    · cases h
    · split at h <;> (injection h with h; subst h)
      · rfl
      · rename_i id' k hg
        have : id' ≠ id := by
          intro e; apply hne; simp [target, hg, e]
        show (st.objs.set! id' _)[id]? = _
        rw [Array.set!_eq_setIfInBounds, Array.getElem?_setIfInBounds_ne this]


/-- what a step can do to the store: a constructor appends one register which is `none` (error),
a reference to a NEW object, or — only for `Neuter` on a public key and `DeriveChildFromPath("")` —
the receiver itself; a mutator (`SetNet`, `Zero`) replaces the value of its receiver only. -/
theorem step_shape (pr : Prims) (nets : List Net) (st st' : State) (op : Op)
    (h : step pr nets st op = some st') :
    (∃ x : Option Nat, st'.regs = st.regs.push x ∧
      ((st'.objs = st.objs ∧ (x = none ∨ ∃ r id k, x = some id ∧ st.get r = some (id, k) ∧
            ((op = .neuter r ∧ k.isPrivate = false) ∨ op = .path r []))) ∨
       (∃ k, st'.objs = st.objs.push k ∧ x = some st.objs.size))) ∨
    (st'.regs = st.regs ∧ (st'.objs = st.objs ∨
      ∃ r id k k', st.get r = some (id, k) ∧ target st op = some id ∧ st'.objs = st.objs.set! id k' ∧
        (k' = Bip32.zero k ∨ ∃ a b, k' = Bip32.setNet k a b))) := by
  have hnew : ∀ res : Except Err XKey, ∃ x : Option Nat, (st.newObj res).regs = st.regs.push x ∧
      (((st.newObj res).objs = st.objs ∧ (x = none ∨ ∃ r id k, x = some id ∧ st.get r = some (id, k) ∧
            ((op = .neuter r ∧ k.isPrivate = false) ∨ op = .path r []))) ∨
       (∃ k, (st.newObj res).objs = st.objs.push k ∧ x = some st.objs.size)) := by
    intro res
    cases res with
    | error e => exact ⟨none, rfl, Or.inl ⟨rfl, Or.inl rfl⟩⟩
    | ok k => exact ⟨some st.objs.size, rfl, Or.inr ⟨k, rfl, rfl⟩⟩
  have hfail : ∃ x : Option Nat, st.fail.regs = st.regs.push x ∧
      ((st.fail.objs = st.objs ∧ (x = none ∨ ∃ r id k, x = some id ∧ st.get r = some (id, k) ∧
            ((op = .neuter r ∧ k.isPrivate = false) ∨ op = .path r []))) ∨
       (∃ k, st.fail.objs = st.objs.push k ∧ x = some st.objs.size)) :=
    ⟨none, rfl, Or.inl ⟨rfl, Or.inl rfl⟩⟩
  cases op with
  | child r i =>
    simp only [step] at h
    split at h
    · cases h
    · split at h <;> (injection h with h; subst h)
      · exact Or.inl hfail
      · exact Or.inl (hnew _)
  | neuter r =>
    simp only [step] at h
    split at h
    · cases h
    · split at h
      · injection h with h; subst h; exact Or.inl hfail
      · split at h <;> (injection h with h; subst h)
        · rename_i id k hg hp
          refine Or.inl ⟨some id, rfl, Or.inl ⟨rfl, Or.inr ⟨r, id, k, rfl, hg, Or.inl ⟨rfl, ?_⟩⟩⟩⟩
          simpa using hp
        · exact Or.inl (hnew _)
  | path r p =>
    simp only [step] at h
    split at h
    · cases h
    · split at h
      · injection h with h; subst h; exact Or.inl hfail
      · split at h <;> (injection h with h; subst h)
        · rename_i id k hg hp
          have : p = [] := by simpa using hp
          subst this
          exact Or.inl ⟨some id, rfl, Or.inl ⟨rfl, Or.inr ⟨r, id, k, rfl, hg, Or.inr rfl⟩⟩⟩
        · exact Or.inl (hnew _)
  | reparse r =>
    simp only [step] at h
    split at h
    · cases h
    · split at h <;> (injection h with h; subst h)
      · exact Or.inl hfail
      · exact Or.inl (hnew _)
  | setNet r n =>
    simp only [step] at h
    split at h
    · cases h
    · split at h
      · cases h
      · split at h <;> (injection h with h; subst h)
        · exact Or.inr ⟨rfl, Or.inl rfl⟩
        · rename_i net _ id k hg
          exact Or.inr ⟨rfl, Or.inr ⟨r, id, k, _, hg, by simp [target, hg], rfl, Or.inr ⟨_, _, rfl⟩⟩⟩
  | zero r =>
    simp only [step] at h
    split at h
    · cases h
    · split at h <;> (injection h with h; subst h)
      · exact Or.inr ⟨rfl, Or.inl rfl⟩
      · rename_i id k hg
        exact Or.inr ⟨rfl, Or.inr ⟨r, id, k, _, hg, by simp [target, hg], rfl, Or.inl rfl⟩⟩

/-- objects are never deallocated -/
theorem step_size (pr : Prims) (nets : List Net) (st st' : State) (op : Op)
    (h : step pr nets st op = some st') : st.objs.size ≤ st'.objs.size := by
  rcases step_shape pr nets st st' op h with ⟨x, _, ⟨ho, _⟩ | ⟨k, ho, _⟩⟩ | ⟨_, ho | ⟨r, id, k, k', _, _, ho, _⟩⟩
  · exact Nat.le_of_eq (congrArg Array.size ho).symm
  · rw [ho, Array.size_push]; omega
  · exact Nat.le_of_eq (congrArg Array.size ho).symm
  · exact Nat.le_of_eq (by rw [ho, Array.set!_eq_setIfInBounds, Array.size_setIfInBounds])

/-- registers are write-once: a step never changes an existing register -/
theorem step_regs (pr : Prims) (nets : List Net) (st st' : State) (op : Op)
    (h : step pr nets st op = some st') (r : Nat) (hr : r < st.regs.size) : st'.regs[r]? = st.regs[r]? := by
  rcases step_shape pr nets st st' op h with ⟨x, hx, _⟩ | ⟨hx, _⟩
  · rw [hx, Array.getElem?_push, if_neg (by omega)]
  · rw [hx]

theorem step_regs_size (pr : Prims) (nets : List Net) (st st' : State) (op : Op)
    (h : step pr nets st op = some st') : st.regs.size ≤ st'.regs.size := by
  rcases step_shape pr nets st st' op h with ⟨x, hx, _⟩ | ⟨hx, _⟩
  · rw [hx, Array.size_push]; omega
  · exact Nat.le_of_eq (congrArg Array.size hx).symm

theorem step_regsOK (pr : Prims) (nets : List Net) (st st' : State) (op : Op)
    (h : step pr nets st op = some st') (ok : RegsOK st) : RegsOK st' := by
  have hs := step_size pr nets st st' op h
  intro r id hr
  rcases step_shape pr nets st st' op h with ⟨x, hx, hc⟩ | ⟨hx, _⟩
  · rw [hx, Array.getElem?_push] at hr
    split at hr
    · injection hr with hr
      rcases hc with ⟨ho, hn | ⟨r', id', k, he, hg, _⟩⟩ | ⟨k, ho, he⟩
      · rw [hn] at hr; cases hr
      · rw [he] at hr; injection hr with hr; subst hr
        have := ok r' id' (get_some hg).1
        omega
      · rw [he] at hr; injection hr with hr
        rw [ho, Array.size_push]; omega
    · have := ok r id hr; omega
  · rw [hx] at hr
    have := ok r id hr; omega

/-- the object a mutator is applied to gets exactly `Zero`'s / `SetNet`'s value-level result -/
theorem step_target (pr : Prims) (nets : List Net) (st st' : State) (op : Op)
    (h : step pr nets st op = some st') (id : Nat) (ht : target st op = some id) :
    ∃ k, st.objs[id]? = some k ∧
      ((∃ r, op = .zero r ∧ st'.objs[id]? = some (Bip32.zero k)) ∨
       (∃ r n net, op = .setNet r n ∧ nets[n]? = some net ∧
          st'.objs[id]? = some (Bip32.setNet k net.hdPriv net.hdPub))) := by
  cases op with
  | child r i => cases ht
  | neuter r => cases ht
  | path r p => cases ht
  | reparse r => cases ht
  | setNet r n =>
    simp only [step] at h
    split at h
    · cases h
    · split at h
      · cases h
      · split at h <;> (injection h with h; subst h)
        · rename_i hg; simp [target, hg] at ht
        · rename_i _ net hn _ id' k hg
          have : id' = id := by simpa [target, hg] using ht
          subst this
          have ho := (get_some hg).2
          have hlt : id' < st.objs.size := by
            rcases Array.getElem?_eq_some_iff.1 ho with ⟨hlt, _⟩; exact hlt
          refine ⟨k, ho, Or.inr ⟨r, n, net, rfl, hn, ?_⟩⟩
          show (st.objs.set! id' _)[id']? = _
          rw [Array.set!_eq_setIfInBounds, Array.getElem?_setIfInBounds, if_pos rfl, if_pos hlt]
  | zero r =>
    simp only [step] at h
    split at h
    · cases h
    · split at h <;> (injection h with h; subst h)
      · rename_i hg; simp [target, hg] at ht
      · rename_i id' k hg
        have : id' = id := by simpa [target, hg] using ht
        subst this
        have ho := (get_some hg).2
        have hlt : id' < st.objs.size := by
          rcases Array.getElem?_eq_some_iff.1 ho with ⟨hlt, _⟩; exact hlt
        refine ⟨k, ho, Or.inl ⟨r, rfl, ?_⟩⟩
        show (st.objs.set! id' _)[id']? = _
        rw [Array.set!_eq_setIfInBounds, Array.getElem?_setIfInBounds, if_pos rfl, if_pos hlt]


/-- **aliasing**: the register created by a step refers to the same object as an existing register
only if the operation returned its receiver — `Neuter` on a public key or `DeriveChildFromPath("")` —
and then it is the receiver's object. -/
theorem alias_only_when_receiver_returned (pr : Prims) (nets : List Net) (st st' : State) (op : Op)
    (ok : RegsOK st) (h : step pr nets st op = some st') (r id : Nat)
    (hold : st.regs[r]? = some (some id)) (hnew : st'.regs[st.regs.size]? = some (some id)) :
    ∃ r0 k, st.get r0 = some (id, k) ∧ ((op = .neuter r0 ∧ k.isPrivate = false) ∨ op = .path r0 []) := by
  have hid := ok r id hold
  rcases step_shape pr nets st st' op h with ⟨x, hx, hc⟩ | ⟨hx, _⟩
  · rw [hx, Array.getElem?_push_size] at hnew
    injection hnew with hnew
    rcases hc with ⟨_, hn | ⟨r0, id0, k, he, hg, hop⟩⟩ | ⟨k, _, he⟩
    · rw [hn] at hnew; cases hnew
    · rw [he] at hnew; injection hnew with hnew; subst hnew
      exact ⟨r0, k, hg, hop⟩
    · rw [he] at hnew; injection hnew with hnew; omega
  · rw [hx] at hnew
    have : st.regs.size < st.regs.size := by
      rcases Array.getElem?_eq_some_iff.1 hnew with ⟨hlt, _⟩; exact hlt
    omega

/-- different registers hold different objects -/
def RegsInj (st : State) : Prop :=
  ∀ (r1 r2 id : Nat), st.regs[r1]? = some (some id) → st.regs[r2]? = some (some id) → r1 = r2

def returnsReceiver : Op → Prop
  | .neuter _ => True
  | .path _ p => p = []
  | _ => False

/-- without receiver-returning calls, no two registers ever share an object -/
theorem step_regsInj (pr : Prims) (nets : List Net) (st st' : State) (op : Op)
    (ok : RegsOK st) (inj : RegsInj st) (hop : ¬ returnsReceiver op)
    (h : step pr nets st op = some st') : RegsInj st' := by
  have key : ∀ r id, r < st.regs.size → st'.regs[r]? = some (some id) →
      st'.regs[st.regs.size]? = some (some id) → False := by
    intro r id hr h1 h2
    rw [step_regs pr nets st st' op h r hr] at h1
    obtain ⟨r0, k, _, ⟨rfl, _⟩ | rfl⟩ := alias_only_when_receiver_returned pr nets st st' op ok h r id h1 h2
    · exact hop trivial
    · exact hop rfl
  have hsz : st'.regs.size ≤ st.regs.size + 1 := by
    rcases step_shape pr nets st st' op h with ⟨x, hx, _⟩ | ⟨hx, _⟩
    · have := congrArg Array.size hx; rw [Array.size_push] at this; omega
    · have := congrArg Array.size hx; omega
  intro r1 r2 id h1 h2
  have b1 : r1 < st'.regs.size := by rcases Array.getElem?_eq_some_iff.1 h1 with ⟨hlt, _⟩; exact hlt
  have b2 : r2 < st'.regs.size := by rcases Array.getElem?_eq_some_iff.1 h2 with ⟨hlt, _⟩; exact hlt
  by_cases c1 : r1 < st.regs.size
  · by_cases c2 : r2 < st.regs.size
    · rw [step_regs pr nets st st' op h r1 c1] at h1
      rw [step_regs pr nets st st' op h r2 c2] at h2
      exact inj r1 r2 id h1 h2
    · have : r2 = st.regs.size := by omega
      subst this
      exact (key r1 id c1 h1 h2).elim
  · have : r1 = st.regs.size := by omega
    subst this
    by_cases c2 : r2 < st.regs.size
    · exact (key r2 id c2 h2 h1).elim
    · omega

/-! ### frame: whole histories -/

/-- the objects mutated along a run -/
def touched (pr : Prims) (nets : List Net) : State → List Op → List Nat
  | _, [] => []
  | st, op :: ops =>
    match step pr nets st op with
    | none => []
    | some st' => (target st op).toList ++ touched pr nets st' ops

theorem run_size (pr : Prims) (nets : List Net) (ops : List Op) (st st' : State)
    (h : run pr nets st ops = some st') : st.objs.size ≤ st'.objs.size := by
  induction ops generalizing st with
  | nil => injection h with h; subst h; exact Nat.le_refl _
  | cons op ops ih =>
    simp only [run] at h
    split at h
    · cases h
    · rename_i st1 hs
      exact Nat.le_trans (step_size pr nets st st1 op hs) (ih st1 h)

theorem run_regsOK (pr : Prims) (nets : List Net) (ops : List Op) (st st' : State)
    (h : run pr nets st ops = some st') (ok : RegsOK st) : RegsOK st' := by
  induction ops generalizing st with
  | nil => injection h with h; subst h; exact ok
  | cons op ops ih =>
    simp only [run] at h
    split at h
    · cases h
    · rename_i st1 hs
      exact ih st1 h (step_regsOK pr nets st st1 op hs ok)

/-- registers are write-once along any history -/
theorem run_regs (pr : Prims) (nets : List Net) (ops : List Op) (st st' : State)
    (h : run pr nets st ops = some st') (r : Nat) (hr : r < st.regs.size) : st'.regs[r]? = st.regs[r]? := by
  induction ops generalizing st with
  | nil => injection h with h; subst h; rfl
  | cons op ops ih =>
    simp only [run] at h
    split at h
    · cases h
    · rename_i st1 hs
      rw [ih st1 h (Nat.lt_of_lt_of_le hr (step_regs_size pr nets st st1 op hs)),
        step_regs pr nets st st1 op hs r hr]

/-- **frame for histories**: an object that no `SetNet`/`Zero` of the history is applied to keeps
its value, whatever else happens (derivations from it, neutering, zeroing or re-networking of its
parent, children, neutered copies, …). -/
theorem run_frame (pr : Prims) (nets : List Net) (ops : List Op) (st st' : State)
    (h : run pr nets st ops = some st') (id : Nat) (hid : id < st.objs.size)
    (hnt : id ∉ touched pr nets st ops) : st'.objs[id]? = st.objs[id]? := by
  induction ops generalizing st with
  | nil => injection h with h; subst h; rfl
  | cons op ops ih =>
    simp only [run] at h
    split at h
    · cases h
    · rename_i st1 hs
      simp only [touched, hs, List.mem_append, Option.mem_toList, not_or] at hnt
      rw [ih st1 h (Nat.lt_of_lt_of_le hid (step_size pr nets st st1 op hs)) hnt.2]
      exact step_frame pr nets st st1 op hs id hid (fun e => hnt.1 e)

/-- … and therefore everything the API lets a caller observe of it is unchanged -/
theorem run_observe (pr : Prims) (nets : List Net) (ops : List Op) (st st' : State)
    (h : run pr nets st ops = some st') (id : Nat) (hid : id < st.objs.size)
    (hnt : id ∉ touched pr nets st ops) (addrID : UInt8) :
    (st'.objs[id]?).map (observe pr addrID) = (st.objs[id]?).map (observe pr addrID) := by
  rw [run_frame pr nets ops st st' h id hid hnt]

/-- a register whose object is not mutated reads the same key after the history -/
theorem run_get (pr : Prims) (nets : List Net) (ops : List Op) (st st' : State)
    (h : run pr nets st ops = some st') (r id : Nat) (k : XKey) (hg : st.get r = some (id, k))
    (hnt : id ∉ touched pr nets st ops) : st'.get r = some (id, k) := by
  obtain ⟨h1, h2⟩ := get_some hg
  have hr : r < st.regs.size := by rcases Array.getElem?_eq_some_iff.1 h1 with ⟨hlt, _⟩; exact hlt
  have hid : id < st.objs.size := by rcases Array.getElem?_eq_some_iff.1 h2 with ⟨hlt, _⟩; exact hlt
  unfold State.get
  rw [run_regs pr nets ops st st' h r hr, h1]
  simp only []
  rw [run_frame pr nets ops st st' h id hid hnt, h2]; rfl

/-- **zeroing / re-networking one key never alters a different key**: a `Zero` or `SetNet` through
register `r1` leaves the key seen through any register holding a different object untouched. -/
theorem mutate_other (pr : Prims) (nets : List Net) (st st' : State) (op : Op) (r1 r2 id1 id2 : Nat)
    (k1 k2 : XKey) (hop : op = .zero r1 ∨ ∃ n, op = .setNet r1 n)
    (h : step pr nets st op = some st')
    (g1 : st.get r1 = some (id1, k1)) (g2 : st.get r2 = some (id2, k2)) (hne : id1 ≠ id2) :
    st'.get r2 = some (id2, k2) := by
  have hr : run pr nets st [op] = some st' := by simp [run, h]
  apply run_get pr nets [op] st st' hr r2 id2 k2 g2
  simp only [touched, h, List.append_nil, Option.mem_toList]
  rcases hop with rfl | ⟨n, rfl⟩ <;> simp [target, g1, hne]


/-! ### two concrete histories: parent and child -/

theorem step_child_ok (pr : Prims) (nets : List Net) (st : State) (r id i : Nat) (k c : XKey)
    (hg : st.get r = some (id, k)) (hc : Bip32.child pr k i = .ok c) :
    ∃ st1, step pr nets st (.child r i) = some st1 ∧ st1.get r = some (id, k) ∧
      st1.get st.regs.size = some (st.objs.size, c) ∧ st1.regs.size = st.regs.size + 1 := by
  obtain ⟨h1, h2⟩ := get_some hg
  have hr : r < st.regs.size := by rcases Array.getElem?_eq_some_iff.1 h1 with ⟨hlt, _⟩; exact hlt
  have hid : id < st.objs.size := by rcases Array.getElem?_eq_some_iff.1 h2 with ⟨hlt, _⟩; exact hlt
  refine ⟨st.newObj (.ok c), ?_, ?_, ?_, ?_⟩
  · simp only [step]
    rw [if_neg (by omega), hg]
    simp only []
    rw [hc]
  · unfold State.get
    show (match (st.regs.push (some st.objs.size))[r]? with
      | some (some id) => Option.map (fun k => (id, k)) (st.objs.push c)[id]? | _ => none) = _
    rw [Array.getElem?_push, if_neg (by omega), h1]
    simp only []
    rw [Array.getElem?_push, if_neg (by omega), h2]; rfl
  · unfold State.get
    show (match (st.regs.push (some st.objs.size))[st.regs.size]? with
      | some (some id) => Option.map (fun k => (id, k)) (st.objs.push c)[id]? | _ => none) = _
    rw [Array.getElem?_push_size]
    simp only []
    rw [Array.getElem?_push_size]; rfl
  · show (st.regs.push _).size = _
    rw [Array.size_push]

/-- zeroing (or re-networking) the PARENT after deriving a child leaves the child as it was -/
theorem mutate_parent_keeps_child (pr : Prims) (nets : List Net) (st st1 st2 : State) (r id i : Nat)
    (k c : XKey) (op : Op) (hop : op = .zero r ∨ ∃ n, op = .setNet r n)
    (hg : st.get r = some (id, k)) (hc : Bip32.child pr k i = .ok c)
    (h1 : step pr nets st (.child r i) = some st1) (h2 : step pr nets st1 op = some st2) :
    st2.get st.regs.size = some (st.objs.size, c) := by
  obtain ⟨st1', e1, g1, g2, _⟩ := step_child_ok pr nets st r id i k c hg hc
  rw [h1] at e1; injection e1 with e1; subst e1
  have hid : id < st.objs.size := by
    rcases Array.getElem?_eq_some_iff.1 (get_some hg).2 with ⟨hlt, _⟩; exact hlt
  exact mutate_other pr nets st1 st2 op r st.regs.size id st.objs.size k c hop h2 g1 g2 (by omega)

/-- zeroing (or re-networking) a CHILD leaves the key it was derived from as it was -/
theorem mutate_child_keeps_parent (pr : Prims) (nets : List Net) (st st1 st2 : State) (r id i : Nat)
    (k c : XKey) (op : Op) (hop : op = .zero st.regs.size ∨ ∃ n, op = .setNet st.regs.size n)
    (hg : st.get r = some (id, k)) (hc : Bip32.child pr k i = .ok c)
    (h1 : step pr nets st (.child r i) = some st1) (h2 : step pr nets st1 op = some st2) :
    st2.get r = some (id, k) := by
  obtain ⟨st1', e1, g1, g2, _⟩ := step_child_ok pr nets st r id i k c hg hc
  rw [h1] at e1; injection e1 with e1; subst e1
  have hid : id < st.objs.size := by
    rcases Array.getElem?_eq_some_iff.1 (get_some hg).2 with ⟨hlt, _⟩; exact hlt
  exact mutate_other pr nets st1 st2 op st.regs.size r st.objs.size id c k hop h2 g2 g1 (by omega)

/-! ### what `Zero` and `SetNet` do to the key they are applied to -/

/-- a zeroed key reports itself as zeroed and no longer private (and has no private scalar) -/
theorem zero_reports (pr : Prims) (addrID : UInt8) (k : XKey) :
    (observe pr addrID (Bip32.zero k)).str = Bip32.zeroedString ∧
    (observe pr addrID (Bip32.zero k)).isPrivate = false ∧
    (observe pr addrID (Bip32.zero k)).priv = none ∧
    (observe pr addrID (Bip32.zero k)).depth = 0 := ⟨rfl, rfl, rfl, rfl⟩

theorem zeroedString_eq : Bip32.zeroedString = "zeroed extended key".toUTF8.toList := rfl

/-- `SetNet` changes only the version field … -/
theorem setNet_only_version (k : XKey) (hdPriv hdPub : Bytes) :
    Bip32.setNet k hdPriv hdPub = { k with version := if k.isPrivate then hdPriv else hdPub } := rfl

/-- … so key material, chain code, fingerprint, depth, index, public key, address and private
scalar are those of the original key … -/
theorem setNet_observe (pr : Prims) (addrID : UInt8) (k : XKey) (a b : Bytes) :
    let o := observe pr addrID (Bip32.setNet k a b)
    let o0 := observe pr addrID k
    o.isPrivate = o0.isPrivate ∧ o.depth = o0.depth ∧ o.fingerprint = o0.fingerprint ∧
      o.address = o0.address ∧ o.pub = o0.pub ∧ o.priv = o0.priv := ⟨rfl, rfl, rfl, rfl, rfl, rfl⟩

/-- … and every child derived AFTERWARDS is the child of the original key with the new version
(`Child` copies the parent's version and uses nothing else of it). -/
theorem child_after_setNet (pr : Prims) (k : XKey) (a b : Bytes) (i : Nat) :
    Bip32.child pr (Bip32.setNet k a b) i =
      (Bip32.child pr k i).map (fun c => { c with version := (Bip32.setNet k a b).version }) :=
  Bip32.child_setNet pr k a b i

/-- children inherit the version of the key they are derived from -/
theorem child_version (pr : Prims) (k c : XKey) (i : Nat) (h : Bip32.child pr k i = .ok c) :
    c.version = k.version := Bip32.child_version pr k c i h

/-- a child derived BEFORE the `SetNet` is not re-networked: it is a different object
(`mutate_parent_keeps_child`). -/
example (pr : Prims) (nets : List Net) (st st1 st2 : State) (r id i n : Nat) (k c : XKey)
    (hg : st.get r = some (id, k)) (hc : Bip32.child pr k i = .ok c)
    (h1 : step pr nets st (.child r i) = some st1) (h2 : step pr nets st1 (.setNet r n) = some st2) :
    st2.get st.regs.size = some (st.objs.size, c) :=
  mutate_parent_keeps_child pr nets st st1 st2 r id i k c _ (Or.inr ⟨n, rfl⟩) hg hc h1 h2

/-- what a caller observes of a key depends on the value of its object only -/
theorem observe_congr (pr : Prims) (addrID : UInt8) (k k' : XKey) (h : k = k') :
    observe pr addrID k = observe pr addrID k' := by rw [h]

/-! ### non-vacuity: a concrete history -/

private def k0 : XKey :=
  { key := [1], chainCode := List.replicate 32 7, parentFP := [0, 0, 0, 0], version := [4, 136, 173, 228],
    childNum := 0, depth := 0, isPrivate := true }
private def st0 : State := { objs := #[k0], regs := #[some 0] }

example : RegsOK st0 := by
  intro r id h
  have : r = 0 := by
    rcases Array.getElem?_eq_some_iff.1 h with ⟨hlt, _⟩
    simp [st0] at hlt; exact hlt
  subst this
  simp [st0] at h; subst h; simp [st0]

example : st0.get 0 = some (0, k0) := rfl
example : target st0 (.zero 0) = some 0 := rfl
example (pr : Prims) (nets : List Net) :
    (step pr nets st0 (.zero 0)).map (fun s => s.objs[0]?) = some (some (Bip32.zero k0)) := rfl

/-! ### the heap level: slices, sharing, and why the object view is sound

`GoBk.Model.XKeyHeap` models the Go representation: byte arrays, slices `(array, offset, length)`
into them, key records whose `key, pubKey, chainCode, parentFP, version` are slices, with the
allocation/sharing pattern of extendedkey.go (see the header of that file).  `Heap.abs` reads every
slice and yields the object store used above.  `Inv` (definition: `GoBk.Proofs.Bip32Lemmas`) says:
network arrays intact; all slices in bounds; the slices `Zero` writes through lie outside the
network arrays; writable slices of DIFFERENT records lie in different arrays; no version slice
overlaps any writable slice; registers valid; a filled `pubKey` cache equals `pubKeyBytes`. -/

open GoBk.XKeyHeap in
/-- `Inv` holds initially: root from `NewMaster(seed, nets[n])` … -/
theorem heap_inv_init_seed (pr : Prims) (nets : List Net) (seed : Bytes) (n : Nat) (net : Net)
    (hn : nets[n]? = some net) :
    ∃ h0, hinitSeed pr nets seed n = some h0 ∧ Inv nets h0 ∧
      h0.abs = State.newObj {} (Bip32.newMaster pr seed net.hdPriv) :=
  hinitSeed_spec pr nets seed n net hn

open GoBk.XKeyHeap in
/-- … or from `NewKeyFromString(s)` -/
theorem heap_inv_init_str (pr : Prims) (nets : List Net) (s : Bytes) :
    Inv nets (hinitStr pr nets s) ∧ (hinitStr pr nets s).abs = State.newObj {} (Bip32.fromString pr s) :=
  hinitStr_spec pr nets s

open GoBk.XKeyHeap in
/-- **inv_step**: every operation preserves `Inv` -/
theorem heap_inv_step (pr : Prims) (nets : List Net) (h h' : Heap) (op : Op) (hI : Inv nets h)
    (hs : hstep pr nets h op = some h') : Inv nets h' := (hstep_refines pr hI op).2 h' hs

open GoBk.XKeyHeap in
/-- **refinement**: under `Inv`, a step of the heap model IS the step of the object store on the
abstraction (same success/failure, same resulting store) -/
theorem heap_refines_step (pr : Prims) (nets : List Net) (h : Heap) (op : Op) (hI : Inv nets h) :
    (hstep pr nets h op).map Heap.abs = step pr nets h.abs op := (hstep_refines pr hI op).1

open GoBk.XKeyHeap in
/-- … and so for whole histories -/
theorem heap_refines_run (pr : Prims) (nets : List Net) (h : Heap) (ops : List Op) (hI : Inv nets h) :
    (hrun pr nets h ops).map Heap.abs = run pr nets h.abs ops ∧
    ∀ h', hrun pr nets h ops = some h' → Inv nets h' := hrun_refines pr ops h hI

open GoBk.XKeyHeap in
/-- **obs_refines**: after any history from an initial heap, what the API shows of every key record
(String, IsPrivate, Depth, ParentFingerprint, Address, ECPubKey, ECPrivKey) is what the object store
shows of the corresponding object — so all the frame theorems above apply to the Go representation. -/
theorem heap_obs_refines (pr : Prims) (nets : List Net) (h h' : Heap) (ops : List Op) (hI : Inv nets h)
    (hr : hrun pr nets h ops = some h') (addrID : UInt8) :
    ∃ st', run pr nets h.abs ops = some st' ∧ st'.regs = h'.regs ∧
      ∀ (id : Nat) (k : HKey), h'.objs[id]? = some k →
        (st'.objs[id]?).map (observe pr addrID) = some (observe pr addrID (h'.absKey k)) := by
  have := (hrun_refines pr ops h hI).1
  rw [hr] at this
  refine ⟨h'.abs, this.symm, rfl, fun id k hk => ?_⟩
  show ((h'.objs.map h'.absKey)[id]?).map _ = _
  rw [Array.getElem?_map, hk]; rfl

open GoBk.XKeyHeap in
/-- what `Inv` gives directly: `Zero`/`SetNet` write only through the receiver's own slices, and
those never overlap a slice of another record -/
theorem heap_writable_disjoint (nets : List Net) (h : Heap) (hI : Inv nets h) (id1 id2 : Nat) (k1 k2 : HKey)
    (h1 : h.objs[id1]? = some k1) (h2 : h.objs[id2]? = some k2) (hne : id1 ≠ id2) :
    (∀ s1 ∈ k1.writable, ∀ s2 ∈ k2.writable, s1.disjoint s2) ∧
    (∀ s2 ∈ k2.writable, k1.version.disjoint s2) :=
  ⟨fun s1 hs1 s2 hs2 => disjoint_of_arr (hI.disj id1 id2 k1 k2 h1 h2 hne s1 hs1 s2 hs2),
   fun s2 hs2 => hI.verdisj id1 id2 k1 k2 h1 h2 s2 hs2⟩

open GoBk.XKeyHeap in
/-- the record the ORIGINAL `Neuter` built: the receiver's own `pubKey`, `chainCode`, `parentFP` slices -/
def sharedNeutered (k : HKey) (v : Slice) : HKey :=
  { key := k.pubKey, pubKey := Slice.nil, chainCode := k.chainCode, parentFP := k.parentFP, version := v,
    childNum := k.childNum, depth := k.depth, isPrivate := false }

open GoBk.XKeyHeap in
/-- **finding D9** (fixed in /repo): any such record breaks `Inv` — which is exactly why
`parent.Zero()` wiped the neutered key (and vice versa). -/
theorem shared_neuter_breaks_inv (nets : List Net) (h : Heap) (id : Nat) (k : HKey) (v : Slice)
    (hk : h.objs[id]? = some k) (hcc : k.chainCode.len ≠ 0) :
    ¬ Inv nets (h.pushKey (sharedNeutered k v)) := by
  intro hI
  have hlt : id < h.objs.size := by rcases Array.getElem?_eq_some_iff.1 hk with ⟨hlt, _⟩; exact hlt
  have h1 : (h.objs.push (sharedNeutered k v))[id]? = some k := by
    rw [Array.getElem?_push, if_neg (by omega)]; exact hk
  have h2 : (h.objs.push (sharedNeutered k v))[h.objs.size]? = some (sharedNeutered k v) :=
    Array.getElem?_push_size
  rcases hI.disj id h.objs.size k _ h1 h2 (by omega) k.chainCode (by simp [HKey.writable])
    k.chainCode (by simp [HKey.writable, sharedNeutered]) with e | e | e
  · exact hcc e
  · exact hcc e
  · exact e rfl

/-
  Scope of the heap-level theorems: `GoBk.Model.XKeyHeap` is a hand-written model of the Go
  allocation pattern (tied to the code by review and by the differential stream `xk.*`, which is
  what detected D9); values are computed by the value-level model on the bytes the slices denote,
  and `Inv.cache` is what justifies treating a filled `pubKey` cache as equal to recomputation.
  Intermediate keys of multi-component paths are not recorded as objects (they are unreachable).
-/

end GoBk.Props.C18

#print axioms GoBk.Props.C18.step_frame
#print axioms GoBk.Props.C18.step_shape
#print axioms GoBk.Props.C18.step_size
#print axioms GoBk.Props.C18.step_regs
#print axioms GoBk.Props.C18.step_regsOK
#print axioms GoBk.Props.C18.step_target
#print axioms GoBk.Props.C18.alias_only_when_receiver_returned
#print axioms GoBk.Props.C18.step_regsInj
#print axioms GoBk.Props.C18.run_size
#print axioms GoBk.Props.C18.run_regsOK
#print axioms GoBk.Props.C18.run_regs
#print axioms GoBk.Props.C18.run_frame
#print axioms GoBk.Props.C18.run_observe
#print axioms GoBk.Props.C18.run_get
#print axioms GoBk.Props.C18.mutate_other
#print axioms GoBk.Props.C18.step_child_ok
#print axioms GoBk.Props.C18.mutate_parent_keeps_child
#print axioms GoBk.Props.C18.mutate_child_keeps_parent
#print axioms GoBk.Props.C18.zero_reports
#print axioms GoBk.Props.C18.setNet_only_version
#print axioms GoBk.Props.C18.setNet_observe
#print axioms GoBk.Props.C18.child_after_setNet
#print axioms GoBk.Props.C18.child_version
#print axioms GoBk.Props.C18.heap_inv_init_seed
#print axioms GoBk.Props.C18.heap_inv_init_str
#print axioms GoBk.Props.C18.heap_inv_step
#print axioms GoBk.Props.C18.heap_refines_step
#print axioms GoBk.Props.C18.heap_refines_run
#print axioms GoBk.Props.C18.heap_obs_refines
#print axioms GoBk.Props.C18.heap_writable_disjoint
#print axioms GoBk.Props.C18.shared_neuter_breaks_inv
