import GoBk.Proofs.IRGroup
/-
  C01 (deep part, closed) — the CODE-SHAPED model `GoBk.CurveImpl` of the exported curve methods of
  /repo/bec/btcec.go (`ScalarMult`, `ScalarBaseMult`, `Add`, `Double`, `IsOnCurve`; every field
  operation and every add/double formula is REGENERATED code run by `GoBk.IR`) equals the API-level
  reference model `GoBk.Curve` (affine group law of `GoBk.Spec`, Props/C01.lean).

  This instantiates the three hypotheses of Props/C01b.lean (`FormulaOK`, `InputOK`, `TableOK`) with
  theorems about the regenerated program `GoBk.Gen.CurveIR.prog`:
    Proofs/IRAlg.lean        program-independent algebraic evaluator, sound on `RunSafe` runs;
    Proofs/IRGroupEval.lean  its evaluation on `prog` = Jacobian group law (all dispatch cases);
    Proofs/IRGroup.lean      field-value level: representation invariant `RepJ`, `addJacobian` /
                             `doubleJacobian` for both aliasing patterns, `fieldJacobianToBigAffine`,
                             `SetByteSlice`, the operands of `ScalarMult`, the byte-point table.
  Property theorems only; proofs in the files above.

  Domain notes (exact):
  * `B = (0,0)`: the Go code does not special-case it; the operands are then `(0,0,1)` (treated as ∞ by
    `addJacobian`) but ALSO `(0, NegateVal(0), 1)`, whose `y` words are `2P` (literally non-zero), i.e.
    a "finite" triple that is not on the curve.  `scalarMult_impl` (via `RepJ`) excludes it;
    `scalarMult_impl_inf` proves the result `(0,0)` with a separate invariant (x ≡ y ≡ 0 mod P is
    preserved by both formulas); `scalarMult_impl_valid` combines the two: EVERY valid `B`.
  * `isOnCurve_impl` needs both coordinates below `2^256`: `SetByteSlice` keeps the 32 LEADING bytes
    of a longer big-endian string.

  not yet proved: — (every requested statement is proved; nothing is `_partial`).
-/
namespace GoBk.Props.C01
open GoBk Bytes Spec GoBk.Proofs GoBk.IRGroup GoBk.Gen.CurveIR WeierstrassCurve.Affine

/-! ### the Jacobian formulas (both aliasing patterns) -/

/-- **addJacobian, nine distinct pointers** (`Add`): if the two input triples represent `Q`, `R`
(magnitudes ≤ (1,2,1); ∞ as the code tests it, or `z` a unit and `(x/z², y/z³)` on the curve) then
the output triple — whatever the output cells held before — represents `Q + R` in the same sense.
All dispatch cases: either operand ∞, `z1=z2=1`, `z1=z2`, `z2=1`, generic; in each, equal points
(doubling fallback), opposite points (`(0,0,0)`), and the addition formula. -/
theorem addJacobian_rep (x1 y1 z1 x2 y2 z2 o1 o2 o3 : Gen.Field.FV) {Q R : E.Point}
    (h1 : RepJ (x1, y1, z1) Q) (h2 : RepJ (x2, y2, z2) R) :
    ∃ a b c d e f x3 y3 z3,
      IR.runFn prog CurveImpl.consts fn_addJacobian [x1, y1, z1, x2, y2, z2, o1, o2, o3]
        [0, 1, 2, 3, 4, 5, 6, 7, 8] = [a, b, c, d, e, f, x3, y3, z3] ∧ RepJ (x3, y3, z3) (Q + R) :=
  IRGroup.addJacobian_rep x1 y1 z1 x2 y2 z2 o1 o2 o3 h1 h2

/-- **addJacobian(q, p, q)**: the result overwrites the first operand (both scalar-multiplication
loops); the invariant `RepJ` is inductive. -/
theorem addJacobian_acc_rep (x1 y1 z1 x2 y2 z2 : Gen.Field.FV) {Q R : E.Point}
    (h1 : RepJ (x1, y1, z1) Q) (h2 : RepJ (x2, y2, z2) R) :
    ∃ d e f x3 y3 z3,
      IR.runFn prog CurveImpl.consts fn_addJacobian [x1, y1, z1, x2, y2, z2, x1, y1, z1]
        [0, 1, 2, 3, 4, 5, 0, 1, 2] = [x3, y3, z3, d, e, f, x3, y3, z3] ∧ RepJ (x3, y3, z3) (Q + R) :=
  IRGroup.addJacobian_acc_rep x1 y1 z1 x2 y2 z2 h1 h2

/-- **doubleJacobian, distinct outputs** (`Double`): `y = 0` or `z = 0` literally ⇒ ∞, the
`z = 1` variant, the generic variant. -/
theorem doubleJacobian_rep (x1 y1 z1 o1 o2 o3 : Gen.Field.FV) {Q : E.Point} (h1 : RepJ (x1, y1, z1) Q) :
    ∃ a b c x3 y3 z3,
      IR.runFn prog CurveImpl.consts fn_doubleJacobian [x1, y1, z1, o1, o2, o3]
        [0, 1, 2, 3, 4, 5] = [a, b, c, x3, y3, z3] ∧ RepJ (x3, y3, z3) (Q + Q) :=
  IRGroup.doubleJacobian_rep x1 y1 z1 o1 o2 o3 h1

/-- **doubleJacobian(q, q)** in place -/
theorem doubleJacobian_acc_rep (x1 y1 z1 : Gen.Field.FV) {Q : E.Point} (h1 : RepJ (x1, y1, z1) Q) :
    ∃ x3 y3 z3,
      IR.runFn prog CurveImpl.consts fn_doubleJacobian [x1, y1, z1, x1, y1, z1]
        [0, 1, 2, 0, 1, 2] = [x3, y3, z3, x3, y3, z3] ∧ RepJ (x3, y3, z3) (Q + Q) :=
  IRGroup.doubleJacobian_acc_rep x1 y1 z1 h1

/-- **fieldJacobianToBigAffine**: the affine big integers of the represented point (`(0,0)` for ∞) -/
theorem toBigAffine_rep {q : CurveImpl.Jac} {Q : E.Point} (h : RepJ q Q) :
    CurveImpl.toBigAffine q = enc Q := IRGroup.toBigAffine_rep h

/-- the three hypotheses of Props/C01b.lean hold for the regenerated code -/
theorem formulaOK_inputOK_tableOK :
    (∀ B, valid B = true → B ≠ inf → InputOK formulaOK B) ∧ TableOK formulaOK :=
  ⟨fun _ hB hne => inputOK hB hne, tableOK⟩

/-! ### the exported methods -/

/-- **ScalarMult**: the code-shaped model (moduloReduce, splitK, NAF, the interleaved loop over the
regenerated `doubleJacobian`/`addJacobian`, `fieldJacobianToBigAffine`) computes `k • B` for every
valid `B ≠ (0,0)` and EVERY byte string `k`. -/
theorem scalarMult_impl (B : Pt) (hB : valid B = true) (hne : B ≠ inf) (k : Bytes) :
    CurveImpl.scalarMult B k = Curve.scalarMult B k :=
  scalarMult_impl_eq formulaOK hB (inputOK hB hne) k

/-- **ScalarMult on the degenerate base point** `(0,0)`: the result is `(0,0)` -/
theorem scalarMult_impl_inf (k : Bytes) : CurveImpl.scalarMult inf k = Curve.scalarMult inf k :=
  scalarMult_impl_eq formulaOK_inf valid_inf inputOK_inf k

/-- **ScalarMult, every valid base point** (curve points and `(0,0)`), every byte string `k` -/
theorem scalarMult_impl_valid (B : Pt) (hB : valid B = true) (k : Bytes) :
    CurveImpl.scalarMult B k = Curve.scalarMult B k := by
  by_cases hne : B = inf
  · subst hne; exact scalarMult_impl_inf k
  · exact scalarMult_impl B hB hne k

/-- **ScalarBaseMult**: the byte-window loop over the regenerated table and `addJacobian` -/
theorem scalarBaseMult_impl (k : Bytes) : CurveImpl.scalarBaseMult k = Curve.scalarBaseMult k :=
  scalarBaseMult_impl_eq formulaOK tableOK k

/-- **Add** on valid points (including `(0,0)`, equal and opposite points) -/
theorem add_impl (a b : Pt) (ha : valid a = true) (hb : valid b = true) :
    CurveImpl.add a b = Curve.add a b := IRGroup.add_eq a b ha hb

/-- **Double** on valid points -/
theorem double_impl (a : Pt) (ha : valid a = true) : CurveImpl.double a = Curve.double a :=
  IRGroup.double_eq a ha

/-- **IsOnCurve** for coordinates below `2^256` (not necessarily below `P`) -/
theorem isOnCurve_impl (a : Pt) (hx : a.1 < 2 ^ 256) (hy : a.2 < 2 ^ 256) :
    CurveImpl.isOnCurve a = Curve.isOnCurve a := by
  rw [Curve.isOnCurve_def]; exact IRGroup.isOnCurve_eq a hx hy

/-! ### non-vacuity -/

example : valid G = true ∧ G ≠ inf := ⟨valid_G, G_ne_inf⟩
example (k : Bytes) : CurveImpl.scalarMult G k = Curve.scalarMult G k :=
  scalarMult_impl G valid_G G_ne_inf k
example (k : Bytes) : CurveImpl.scalarMult inf k = inf := by
  rw [scalarMult_impl_inf, Curve.scalarMult_def, smul_inf]
example : CurveImpl.add G G = Curve.add G G := add_impl G G valid_G valid_G
example : CurveImpl.add G inf = G := by rw [add_impl G inf valid_G valid_inf, Curve.add_def, padd_inf]
example : CurveImpl.double G = Curve.double G := double_impl G valid_G
example : CurveImpl.isOnCurve G = true := by
  rw [isOnCurve_impl G (by decide) (by decide), Curve.isOnCurve_def]; exact G_onCurve
/-- the invariant is inhabited: the all-zero accumulator, and the affine generator -/
example : RepJ (Gen.Field.zero, Gen.Field.zero, Gen.Field.zero) 0 := repJ_zero
example : ∃ Q, enc Q = G ∧ RepJ ((CurveImpl.bigAffineToField G).1, (CurveImpl.bigAffineToField G).2,
    Gen.Field.setInt 1) Q := (inputOK valid_G G_ne_inf).H_p1

#print axioms addJacobian_rep
#print axioms addJacobian_acc_rep
#print axioms doubleJacobian_rep
#print axioms doubleJacobian_acc_rep
#print axioms toBigAffine_rep
#print axioms formulaOK_inputOK_tableOK
#print axioms scalarMult_impl
#print axioms scalarMult_impl_inf
#print axioms scalarMult_impl_valid
#print axioms scalarBaseMult_impl
#print axioms add_impl
#print axioms double_impl
#print axioms isOnCurve_impl

end GoBk.Props.C01
