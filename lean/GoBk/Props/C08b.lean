import GoBk.Props.C08
import GoBk.Props.Prims
/-!
# C08, instantiated: the theorems of `Props/C08.lean` for the EXECUTABLE primitives

`Props/C08.lean` is parametric in `pr : Prims`; the round-trip theorems assume `PrimsOK pr`.  `Props/Prims.lean` proves
`PrimsOK realPrims`.  Here those, and the headline statements that mention the primitives, are restated for the
SHA-256 / RIPEMD-160 / HMAC-SHA512 that are actually executed, with no hypothesis about the primitives left.
-/
namespace GoBk.Props.C08
open GoBk Bytes Bip32 GoBk.Props.Prims

/-! ### theorems that assumed `PrimsOK pr` -/

/-- `fromString_toString` for `realPrims` (`PrimsOK` discharged) -/
theorem real_fromString_toString (k : XKey) (h : WF k) :
    Bip32.fromString realPrims (Bip32.toString realPrims k) = .ok (Bip32.normalize k) :=
  fromString_toString realPrims realPrims_ok k h

/-- `reimport_same` for `realPrims` (`PrimsOK` discharged) -/
theorem real_reimport_same (k : XKey) (h : WF k) :
    ∃ k', Bip32.fromString realPrims (Bip32.toString realPrims k) = .ok k' ∧ WF k' ∧
      Bip32.toString realPrims k' = Bip32.toString realPrims k ∧
      k'.isPrivate = k.isPrivate ∧ k'.depth = k.depth ∧ k'.childNum = k.childNum ∧
      k'.chainCode = k.chainCode ∧ k'.version = k.version ∧
      Bip32.parentFingerprint k' = Bip32.parentFingerprint k ∧
      Bip32.ecPrivKey k' = Bip32.ecPrivKey k ∧ Bip32.ecPubKey k' = Bip32.ecPubKey k ∧
      k'.pubKeyBytes = k.pubKeyBytes ∧
      (∀ a, Bip32.address realPrims k' a = Bip32.address realPrims k a) ∧
      (∀ reg, Bip32.neuter reg k' = Bip32.neuter reg k) ∧
      (∀ i, Bip32.child realPrims k' i = Bip32.child realPrims k i) :=
  reimport_same realPrims realPrims_ok k h

/-- `fromString_toString_exact` for `realPrims` (`PrimsOK` discharged) -/
theorem real_fromString_toString_exact (s : Bytes) (k : XKey)
    (h : Bip32.fromString realPrims s = .ok k) :
    Bip32.fromString realPrims (Bip32.toString realPrims k) = .ok k :=
  fromString_toString_exact realPrims realPrims_ok s k h

/-! ### headline statements (no primitive hypothesis), at `realPrims` -/

/-- `derivePath_spec` for `realPrims` -/
theorem real_derivePath_spec (k : XKey) (p : Bytes) :
    (Bip32.deriveChildFromPath realPrims k p).toOption =
      (Bip32.parsePath p).bind (fun is => (is.foldlM (Bip32.child realPrims) k).toOption) :=
  derivePath_spec realPrims k p

/-- `derivePath_of_isPath` for `realPrims` -/
theorem real_derivePath_of_isPath (k : XKey) (p : Bytes) (is : List Nat) (h : Spec.IsPath p is) :
    (Bip32.deriveChildFromPath realPrims k p).toOption =
      (is.foldlM (Bip32.child realPrims) k).toOption :=
  derivePath_of_isPath realPrims k p is h

/-- `derivePath_rejects` for `realPrims` -/
theorem real_derivePath_rejects (k : XKey) (p : Bytes) (h : ¬ ∃ is, Spec.IsPath p is) :
    (Bip32.deriveChildFromPath realPrims k p).toOption = none :=
  derivePath_rejects realPrims k p h

/-- `reimport_same_path` for `realPrims` -/
theorem real_reimport_same_path (k : XKey) (h : WF k) (p : Bytes) (hp : p ≠ []) :
    (Bip32.deriveChildFromPath realPrims (Bip32.normalize k) p).toOption =
      (Bip32.deriveChildFromPath realPrims k p).toOption :=
  reimport_same_path realPrims k h p hp

/-- `toString_layout` for `realPrims` -/
theorem real_toString_layout (k : XKey) (h : WF k) :
    Bip32.toString realPrims k = Base58.encode
      (Spec.Bip32.serialize k.version k.depth k.parentFP k.childNum k.chainCode
          (if k.isPrivate then 0x00 :: Spec.Bip32.ser256 (beNat k.key) else k.key) ++
        (realPrims.sha256d (Spec.Bip32.serialize k.version k.depth k.parentFP k.childNum k.chainCode
          (if k.isPrivate then 0x00 :: Spec.Bip32.ser256 (beNat k.key) else k.key))).take 4) :=
  toString_layout realPrims k h

/-- `fromString_iff` for `realPrims` -/
theorem real_fromString_iff (s : Bytes) (k : XKey) :
    Bip32.fromString realPrims s = .ok k ↔
      (Base58.decode s).length = 82 ∧
      (Base58.decode s).drop 78 = (realPrims.sha256d ((Base58.decode s).take 78)).take 4 ∧
      ((Bip32.keyField (Base58.decode s)).headD 1 = 0 ∧
          1 ≤ beNat ((Bip32.keyField (Base58.decode s)).drop 1) ∧
          beNat ((Bip32.keyField (Base58.decode s)).drop 1) < Spec.N ∧
          k = { key := (Bip32.keyField (Base58.decode s)).drop 1,
                chainCode := (((Base58.decode s).take 78).drop 13).take 32,
                parentFP := (((Base58.decode s).take 78).drop 5).take 4,
                version := ((Base58.decode s).take 78).take 4,
                childNum := beNat ((((Base58.decode s).take 78).drop 9).take 4),
                depth := (((Base58.decode s).take 78).getD 4 0).toNat, isPrivate := true } ∨
       (Bip32.keyField (Base58.decode s)).headD 1 ≠ 0 ∧
          (Ecdsa.parsePubKey (Bip32.keyField (Base58.decode s))).isSome = true ∧
          k = { key := Bip32.keyField (Base58.decode s),
                chainCode := (((Base58.decode s).take 78).drop 13).take 32,
                parentFP := (((Base58.decode s).take 78).drop 5).take 4,
                version := ((Base58.decode s).take 78).take 4,
                childNum := beNat ((((Base58.decode s).take 78).drop 9).take 4),
                depth := (((Base58.decode s).take 78).getD 4 0).toNat, isPrivate := false }) :=
  fromString_iff realPrims s k

/-- `fromString_sound` for `realPrims` -/
theorem real_fromString_sound (s : Bytes) (k : XKey) (h : Bip32.fromString realPrims s = .ok k) :
    (Base58.decode s).length = 82 ∧
    (Base58.decode s).drop 78 = (realPrims.sha256d ((Base58.decode s).take 78)).take 4 ∧
    WF k ∧
    (k.isPrivate = true → 1 ≤ beNat k.key ∧ beNat k.key < Spec.N ∧ k.key.length = 32) ∧
    (k.isPrivate = false → (Ecdsa.parsePubKey k.key).isSome = true ∧ k.key.length = 33) :=
  fromString_sound realPrims s k h

/-- `fromString_wrong_length` for `realPrims` -/
theorem real_fromString_wrong_length (s : Bytes) (h : (Base58.decode s).length ≠ 82) :
    Bip32.fromString realPrims s = .error .invalidKeyLen := fromString_wrong_length realPrims s h

/-- `fromString_wrong_checksum` for `realPrims` -/
theorem real_fromString_wrong_checksum (s : Bytes) (hl : (Base58.decode s).length = 82)
    (h : (Base58.decode s).drop 78 ≠ (realPrims.sha256d ((Base58.decode s).take 78)).take 4) :
    Bip32.fromString realPrims s = .error .badChecksum := fromString_wrong_checksum realPrims s hl h

/-- `fromString_bad_scalar` for `realPrims` -/
theorem real_fromString_bad_scalar (s : Bytes) (hl : (Base58.decode s).length = 82)
    (hc : (Base58.decode s).drop 78 = (realPrims.sha256d ((Base58.decode s).take 78)).take 4)
    (h0 : (Bip32.keyField (Base58.decode s)).headD 1 = 0)
    (hr : beNat ((Bip32.keyField (Base58.decode s)).drop 1) = 0 ∨
          beNat ((Bip32.keyField (Base58.decode s)).drop 1) ≥ Spec.N) :
    Bip32.fromString realPrims s = .error .unusableSeed := fromString_bad_scalar realPrims s hl hc h0 hr

/-- `fromString_bad_pubkey` for `realPrims` -/
theorem real_fromString_bad_pubkey (s : Bytes) (hl : (Base58.decode s).length = 82)
    (hc : (Base58.decode s).drop 78 = (realPrims.sha256d ((Base58.decode s).take 78)).take 4)
    (h0 : (Bip32.keyField (Base58.decode s)).headD 1 ≠ 0)
    (hp : Ecdsa.parsePubKey (Bip32.keyField (Base58.decode s)) = none) :
    Bip32.fromString realPrims s = .error .badPubKey := fromString_bad_pubkey realPrims s hl hc h0 hp

end GoBk.Props.C08

#print axioms GoBk.Props.C08.real_fromString_toString
#print axioms GoBk.Props.C08.real_reimport_same
#print axioms GoBk.Props.C08.real_fromString_toString_exact
#print axioms GoBk.Props.C08.real_derivePath_spec
#print axioms GoBk.Props.C08.real_derivePath_of_isPath
#print axioms GoBk.Props.C08.real_derivePath_rejects
#print axioms GoBk.Props.C08.real_reimport_same_path
#print axioms GoBk.Props.C08.real_toString_layout
#print axioms GoBk.Props.C08.real_fromString_iff
#print axioms GoBk.Props.C08.real_fromString_sound
#print axioms GoBk.Props.C08.real_fromString_wrong_length
#print axioms GoBk.Props.C08.real_fromString_wrong_checksum
#print axioms GoBk.Props.C08.real_fromString_bad_scalar
#print axioms GoBk.Props.C08.real_fromString_bad_pubkey
