import GoBk.Proofs.KeyLemmas
/-
  C05 — key encodings.

  "ParsePubKey accepts a byte string iff it is the 33-byte compressed (0x02/0x03), 65-byte
   uncompressed (0x04) or 65-byte hybrid (0x06/0x07 with matching parity) SEC1 encoding of a
   secp256k1 point whose coordinates are both below p; the parsed key is that point.  For every
   valid point all three serialisations have the standard length and bytes and re-parse to an equal
   key, and for every private scalar d of at most 32 bytes PrivKeyFromBytes followed by Serialise
   gives the 32-byte big-endian form of d with public key d*G."

  The SEC1 language is `GoBk.Spec.sec1` (file Spec/Sec1.lean, core only, independent of the model).
  The model is `GoBk.Ecdsa.parsePubKey / decompressPoint / ser* / privKeyFromBytes / privSerialise`
  (Model/Ecdsa.lean) at the state of /repo after the fixes D2 (6f3d9fe: compressed X ≥ P) and
  D13 (dbf0f4d: 65-byte prefix 0x05 was accepted as "uncompressed").  On the unchanged tree
  `parsePubKey_iff` is false at exactly those two points.

  Property theorems only; proofs are in `GoBk.Proofs.KeyLemmas`.
-/
namespace GoBk.Props.C05
open GoBk Bytes Spec GoBk.Proofs GoBk.Proofs.KeyBytes

/-! ### ParsePubKey accepts exactly the SEC1 language -/

/-- `ParsePubKey b` succeeds with key `q` iff `b` is a SEC1 encoding of the curve point `q`. -/
theorem parsePubKey_iff (b : Bytes) (q : Pt) : Ecdsa.parsePubKey b = some q ↔ Spec.sec1 b q :=
  parsePubKey_iff_sec1 b q

/-- acceptance: `ParsePubKey` returns a key iff the string is in the SEC1 language -/
theorem parsePubKey_isSome_iff (b : Bytes) :
    (Ecdsa.parsePubKey b).isSome = true ↔ ∃ q, Spec.sec1 b q := by
  rw [Option.isSome_iff_exists]
  exact exists_congr fun q => parsePubKey_iff b q

/-- every parsed key is an affine point of the curve with reduced coordinates (never `(0,0)`),
and the input had one of the two standard lengths. -/
theorem parsePubKey_sound (b : Bytes) (q : Pt) (h : Ecdsa.parsePubKey b = some q) :
    valid q = true ∧ q ≠ inf ∧ q.1 < P ∧ q.2 < P ∧ onCurve q = true ∧
    (b.length = 33 ∨ b.length = 65) := by
  obtain ⟨hx, hy, hon, hb⟩ := (parsePubKey_iff b q).1 h
  refine ⟨valid_of_onCurve hx hy hon, ne_inf_of_onCurve hon, hx, hy, hon, ?_⟩
  have lx := natBEpad32_length_of_lt_P hx
  have ly := natBEpad32_length_of_lt_P hy
  rcases hb with rfl | rfl | rfl <;> simp [lx, ly]

/-- a SEC1 string encodes one point only -/
theorem sec1_unique (b : Bytes) (q q' : Pt) (h : Spec.sec1 b q) (h' : Spec.sec1 b q') : q = q' := by
  rw [← parsePubKey_iff] at h h'
  rw [h] at h'; exact Option.some.inj h'

/-! ### decompression -/

/-- the transcription of the Go `decompressPoint` is SEC1 decompression `Spec.liftX` -/
theorem decompress_eq_liftX (x : Nat) (hx : x < P) (ybit : Bool) :
    Ecdsa.decompressPoint x ybit = Spec.liftX x ybit := KeyBytes.decompress_eq_liftX x hx ybit

/-- `decompressPoint x ybit` returns `y` iff `y` is the reduced root of `x³+7` with parity `ybit` -/
theorem decompress_spec (x : Nat) (hx : x < P) (ybit : Bool) (y : Nat) :
    Ecdsa.decompressPoint x ybit = some y ↔
      y < P ∧ onCurve (x, y) = true ∧ (y % 2 == 1) = ybit := KeyBytes.decompress_spec x hx ybit y

/-! ### serialisation: lengths, bytes, and re-parsing -/

theorem serUncompressed_layout (q : Pt) :
    Ecdsa.serUncompressed q = [0x04] ++ natBEpad 32 q.1 ++ natBEpad 32 q.2 := rfl

theorem serCompressed_layout (q : Pt) :
    Ecdsa.serCompressed q = [0x02 + parity q.2] ++ natBEpad 32 q.1 := by
  unfold Ecdsa.serCompressed
  by_cases hp : q.2 % 2 = 1
  · rw [parity_odd hp]; simp [hp]
  · rw [parity_even hp]; simp [hp]

theorem serHybrid_layout (q : Pt) :
    Ecdsa.serHybrid q = [0x06 + parity q.2] ++ natBEpad 32 q.1 ++ natBEpad 32 q.2 := by
  unfold Ecdsa.serHybrid
  by_cases hp : q.2 % 2 = 1
  · rw [parity_odd hp]; simp [hp]
  · rw [parity_even hp]; simp [hp]

/-- the first byte of each form: 04; 02/03 by parity of y; 06/07 by parity of y -/
theorem ser_first_byte (q : Pt) :
    (Ecdsa.serUncompressed q).head? = some 0x04 ∧
    (Ecdsa.serCompressed q).head? = some (if q.2 % 2 = 1 then 0x03 else 0x02) ∧
    (Ecdsa.serHybrid q).head? = some (if q.2 % 2 = 1 then 0x07 else 0x06) := by
  refine ⟨rfl, ?_, ?_⟩
  · by_cases hp : q.2 % 2 = 1 <;> simp [Ecdsa.serCompressed, hp]
  · by_cases hp : q.2 % 2 = 1 <;> simp [Ecdsa.serHybrid, hp]

/-- lengths 65 / 33 / 65 and the coordinate fields are the 32-byte big-endian coordinates -/
theorem ser_lengths (q : Pt) (hv : valid q = true) :
    (Ecdsa.serUncompressed q).length = 65 ∧ (Ecdsa.serCompressed q).length = 33 ∧
    (Ecdsa.serHybrid q).length = 65 ∧
    (natBEpad 32 q.1).length = 32 ∧ (natBEpad 32 q.2).length = 32 ∧
    beNat (natBEpad 32 q.1) = q.1 ∧ beNat (natBEpad 32 q.2) = q.2 := by
  have lx := natBEpad32_length_of_lt_P (valid_lt hv).1
  have ly := natBEpad32_length_of_lt_P (valid_lt hv).2
  refine ⟨?_, ?_, ?_, lx, ly, beNat_natBEpad _ _, beNat_natBEpad _ _⟩
  · simp [Ecdsa.serUncompressed, lx, ly]
  · simp [Ecdsa.serCompressed, lx]
  · simp [Ecdsa.serHybrid, lx, ly]

/-- all three serialisations of a valid finite point are SEC1 encodings of it -/
theorem ser_sec1 (q : Pt) (hv : valid q = true) (hne : q ≠ inf) :
    Spec.sec1 (Ecdsa.serUncompressed q) q ∧ Spec.sec1 (Ecdsa.serCompressed q) q ∧
    Spec.sec1 (Ecdsa.serHybrid q) q := by
  have hx := (valid_lt hv).1
  have hy := (valid_lt hv).2
  have hon := onCurve_of_valid hv hne
  exact ⟨⟨hx, hy, hon, Or.inl rfl⟩, ⟨hx, hy, hon, Or.inr (Or.inr (serCompressed_layout q))⟩,
    ⟨hx, hy, hon, Or.inr (Or.inl (serHybrid_layout q))⟩⟩

theorem parse_serUncompressed (q : Pt) (hv : valid q = true) (hne : q ≠ inf) :
    Ecdsa.parsePubKey (Ecdsa.serUncompressed q) = some q :=
  (parsePubKey_iff _ _).2 (ser_sec1 q hv hne).1

theorem parse_serCompressed (q : Pt) (hv : valid q = true) (hne : q ≠ inf) :
    Ecdsa.parsePubKey (Ecdsa.serCompressed q) = some q :=
  (parsePubKey_iff _ _).2 (ser_sec1 q hv hne).2.1

theorem parse_serHybrid (q : Pt) (hv : valid q = true) (hne : q ≠ inf) :
    Ecdsa.parsePubKey (Ecdsa.serHybrid q) = some q :=
  (parsePubKey_iff _ _).2 (ser_sec1 q hv hne).2.2

/-- non-vacuity: the generator (and hence every `k•G`, `N ∤ k`) satisfies the hypotheses -/
example : valid G = true ∧ G ≠ inf ∧ Ecdsa.parsePubKey (Ecdsa.serCompressed G) = some G :=
  ⟨valid_G, G_ne_inf, parse_serCompressed G valid_G G_ne_inf⟩

/-- the point at infinity `(0,0)` has no accepted encoding (its "serialisations" do not parse) -/
theorem parse_ser_inf :
    Ecdsa.parsePubKey (Ecdsa.serUncompressed inf) = none ∧
    Ecdsa.parsePubKey (Ecdsa.serHybrid inf) = none := by
  constructor
  · cases h : Ecdsa.parsePubKey (Ecdsa.serUncompressed inf) with
    | none => rfl
    | some q =>
      obtain ⟨_, _, hon, _⟩ := (parsePubKey_iff _ _).1 h
      have := sec1_unique _ q inf ((parsePubKey_iff _ _).1 h)
      have hq : q = inf := by
        obtain ⟨hx, hy, _, hb⟩ := (parsePubKey_iff _ _).1 h
        have lx := natBEpad32_length_of_lt_P hx
        have l0 : (natBEpad 32 (0:Nat)).length = 32 := by decide
        rcases hb with hb | hb | hb
        · simp only [Ecdsa.serUncompressed, inf, List.cons_append, List.nil_append,
            List.cons.injEq, true_and] at hb
          obtain ⟨e1, e2⟩ := List.append_inj hb (by rw [lx, l0])
          exact Prod.ext (natBEpad_inj _ _ _ e1).symm (natBEpad_inj _ _ _ e2).symm
        · simp only [Ecdsa.serUncompressed, List.cons_append, List.nil_append, List.cons.injEq] at hb
          exfalso
          have := hb.1
          by_cases hp : q.2 % 2 = 1
          · rw [parity_odd hp] at this; revert this; decide
          · rw [parity_even hp] at this; revert this; decide
        · have := congrArg List.length hb
          simp [Ecdsa.serUncompressed, lx, inf] at this
          have l0' : (natBEpad 32 (0:Nat)).length = 32 := by decide
          omega
      subst hq
      rw [not_onCurve_inf] at hon; cases hon
  · cases h : Ecdsa.parsePubKey (Ecdsa.serHybrid inf) with
    | none => rfl
    | some q =>
      exfalso
      obtain ⟨hx, hy, hon, hb⟩ := (parsePubKey_iff _ _).1 h
      have lx := natBEpad32_length_of_lt_P hx
      have l0 : (natBEpad 32 (0:Nat)).length = 32 := by decide
      have hq : q = inf := by
        rcases hb with hb | hb | hb
        · simp only [Ecdsa.serHybrid, inf, List.cons_append, List.nil_append, List.cons.injEq] at hb
          exfalso; revert hb; simp
        · simp only [Ecdsa.serHybrid, inf, List.cons_append, List.nil_append, List.cons.injEq] at hb
          obtain ⟨e1, e2⟩ := List.append_inj hb.2 (by rw [lx, l0])
          exact Prod.ext (natBEpad_inj _ _ _ e1).symm (natBEpad_inj _ _ _ e2).symm
        · have := congrArg List.length hb
          simp [Ecdsa.serHybrid, lx, inf] at this
          omega
      subst hq
      rw [not_onCurve_inf] at hon; cases hon

/-! ### private keys -/

/-- `PrivKeyFromBytes(d).Serialise()` is the 32-byte big-endian form of `d`; the public key is `d•G`. -/
theorem privKey_roundtrip (d : Bytes) (h : d.length ≤ 32) :
    Ecdsa.privSerialise (Ecdsa.privKeyFromBytes d).1 = natBEpad 32 (beNat d) ∧
    (Ecdsa.privKeyFromBytes d).2 = smul (beNat d) G ∧
    (natBEpad 32 (beNat d)).length = 32 := by
  refine ⟨rfl, scalarBaseMult_eq d, natBEpad_length _ _ ?_⟩
  exact Nat.lt_of_lt_of_le (beNat_lt d) (Nat.pow_le_pow_right (by decide) h)

/-- for exactly 32 bytes the serialisation is the input itself; shorter inputs are left-padded -/
theorem privKey_roundtrip_bytes (d : Bytes) (h : d.length ≤ 32) :
    Ecdsa.privSerialise (Ecdsa.privKeyFromBytes d).1 = List.replicate (32 - d.length) 0 ++ d := by
  show natBEpad 32 (beNat d) = _
  have e := natBEpad_beNat (List.replicate (32 - d.length) 0 ++ d)
  rw [beNat_replicate_zero_append] at e
  rw [← e]
  congr 1
  simp; omega

/-- the public key is `d•G` for scalars of ANY length (reduction mod N is invisible), and the
serialised private key re-imports to the same key pair when `d ≤ 32` bytes. -/
theorem privKey_pub_any (d : Bytes) : (Ecdsa.privKeyFromBytes d).2 = smul (beNat d) G ∧
    valid (Ecdsa.privKeyFromBytes d).2 = true := by
  have e : (Ecdsa.privKeyFromBytes d).2 = smul (beNat d) G := scalarBaseMult_eq d
  rw [e]; exact ⟨rfl, valid_smul _ valid_G⟩

theorem privKey_reimport (d : Bytes) :
    Ecdsa.privKeyFromBytes (Ecdsa.privSerialise (Ecdsa.privKeyFromBytes d).1) =
      Ecdsa.privKeyFromBytes d := by
  apply Prod.ext
  · show beNat (natBEpad 32 (beNat d)) = beNat d
    rw [beNat_natBEpad]
  · show Curve.scalarBaseMult (natBEpad 32 (beNat d)) = Curve.scalarBaseMult d
    rw [scalarBaseMult_eq, scalarBaseMult_eq, beNat_natBEpad]

/-- non-vacuity for `privKey_roundtrip`: a 3-byte scalar with a leading zero -/
example : ([0x00, 0x12, 0x34] : Bytes).length ≤ 32 ∧
    Ecdsa.privSerialise (Ecdsa.privKeyFromBytes [0x00, 0x12, 0x34]).1 =
      List.replicate 29 0 ++ [0x00, 0x12, 0x34] :=
  ⟨by decide, privKey_roundtrip_bytes _ (by decide)⟩

end GoBk.Props.C05

#print axioms GoBk.Props.C05.parsePubKey_iff
#print axioms GoBk.Props.C05.parsePubKey_isSome_iff
#print axioms GoBk.Props.C05.parsePubKey_sound
#print axioms GoBk.Props.C05.sec1_unique
#print axioms GoBk.Props.C05.decompress_eq_liftX
#print axioms GoBk.Props.C05.decompress_spec
#print axioms GoBk.Props.C05.ser_first_byte
#print axioms GoBk.Props.C05.ser_lengths
#print axioms GoBk.Props.C05.ser_sec1
#print axioms GoBk.Props.C05.parse_serUncompressed
#print axioms GoBk.Props.C05.parse_serCompressed
#print axioms GoBk.Props.C05.parse_serHybrid
#print axioms GoBk.Props.C05.parse_ser_inf
#print axioms GoBk.Props.C05.privKey_roundtrip
#print axioms GoBk.Props.C05.privKey_roundtrip_bytes
#print axioms GoBk.Props.C05.privKey_pub_any
#print axioms GoBk.Props.C05.privKey_reimport
