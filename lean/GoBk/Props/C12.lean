import GoBk.Proofs.EcdsaLemmas
import GoBk.Proofs.EcdsaVectors
/-
  C12 — "For every private key, hash and compression flag, RecoverCompact applied to the output of
  SignCompact returns the signer's public key and the same flag, and the 65-byte output is header
  27+recid(+4) followed by 32-byte r and s of the RFC 6979 signature. For every 65-byte input and
  hash, RecoverCompact either fails or returns the public key given by the SEC1 recovery formula
  for the encoded recovery id -- always a valid curve point under which (r,s) verifies for that
  hash; inputs of any other length are rejected."

  Property theorems only; lemmas in `GoBk.Proofs.EcdsaLemmas`.
  Models: `GoBk.Ecdsa.signCompact`, `compactLoop`, `recoverCompact`, `recoverKey`
  (/repo/bec/signature.go SignCompact, RecoverCompact, recoverKeyFromSignature).
  `signCompact pr fuel d pub h c`: `d` is the key's `D`, `pub` the public point stored in the key
  (`d·G` for keys made by `PrivKeyFromBytes`), `(r,s) = sign pr fuel d h` is the RFC 6979
  signature of C02 (`Props.C02.sign_eq_rfc6979`).

  NOT YET PROVED in this file: (none)
-/
namespace GoBk.Props.C12
open GoBk GoBk.Spec GoBk.Bytes GoBk.Proofs

/-! ### SignCompact -/

/-- layout of the output: header `27 + recid (+4 if compressed)`, then `r` and `s` (the signature of
`sign`) as 32-byte big-endian fields, 65 bytes in all; `recid < 4` is a recovery id for which
`recoverKeyFromSignature` returns exactly the key's public point.  (Holds for any stored public
point `pub`, in particular `pub = d·G`.) -/
theorem signCompact_layout {pr : Prims} {fuel d : ℕ} {pub : Pt} {h : Bytes} {c : Bool} {out : Bytes}
    (hsc : Ecdsa.signCompact pr fuel d pub h c = some out) :
    ∃ r s i, Ecdsa.sign pr fuel d h = some (r, s) ∧ i < 4 ∧
      Ecdsa.recoverKey r s h i true = some pub ∧
      out = [UInt8.ofNat (27 + i + (if c then 4 else 0))] ++ natBEpad 32 r ++ natBEpad 32 s ∧
      out.length = 65 :=
  signCompact_some hsc

/-- non-vacuity (real primitives; key 1, SHA-256("Satoshi Nakamoto"), compressed): header 0x20 -/
example : Ecdsa.signCompact realPrims 1 1 (smul 1 G) hSat true =
    some ([32] ++ natBEpad 32 rSat ++ natBEpad 32 sSat) := signCompact_vector

/-- for a private key in `[1,N-1]` with public point `d·G`, `SignCompact` succeeds whenever `Sign`
does: one of the four recovery ids reconstructs `R = ±k·G` and yields `r⁻¹(s·R − e·G) = d·G`. -/
theorem signCompact_total {pr : Prims} {fuel d : ℕ} {h : Bytes} {r s : ℕ} (c : Bool)
    (hd : 1 ≤ d ∧ d < N) (hs : Ecdsa.sign pr fuel d h = some (r, s)) :
    (Ecdsa.signCompact pr fuel d (smul d G) h c).isSome = true :=
  signCompact_total_aux c hd.1 hd.2 hs

example : (1 ≤ 1 ∧ 1 < N) ∧ Ecdsa.sign realPrims 1 1 hSat = some (rSat, sSat) :=
  ⟨by decide, sign_vector⟩

/-- `RecoverCompact ∘ SignCompact` returns the signer's public point and the same flag.
(No range hypothesis on `d` is needed once `SignCompact` has succeeded; holds for any stored
public point `pub`.) -/
theorem recover_signCompact {pr : Prims} {fuel d : ℕ} {pub : Pt} {h : Bytes} {c : Bool}
    {out : Bytes} (hsc : Ecdsa.signCompact pr fuel d pub h c = some out) :
    Ecdsa.recoverCompact out h = some (pub, c) :=
  recover_signCompact_aux hsc

/-- the round trip for keys in range, in one statement -/
theorem signCompact_roundtrip {pr : Prims} {fuel d : ℕ} {h : Bytes} {r s : ℕ} (c : Bool)
    (hd : 1 ≤ d ∧ d < N) (hs : Ecdsa.sign pr fuel d h = some (r, s)) :
    ∃ out, Ecdsa.signCompact pr fuel d (smul d G) h c = some out ∧
      Ecdsa.recoverCompact out h = some (smul d G, c) := by
  have := signCompact_total c hd hs
  obtain ⟨out, hout⟩ := Option.isSome_iff_exists.1 this
  exact ⟨out, hout, recover_signCompact hout⟩

/-! ### RecoverCompact -/

/-- inputs whose length is not 65 are rejected -/
theorem recoverCompact_length {sig : Bytes} (h : Bytes) (hl : sig.length ≠ 65) :
    Ecdsa.recoverCompact sig h = none :=
  recoverCompact_length_aux h hl

example : ([27, 1, 2] : Bytes).length ≠ 65 := by decide

/-- Whenever `RecoverCompact` succeeds on `sig` (necessarily 65 bytes), with
`r = sig[1..33)`, `s = sig[33..65)`, `i = (sig[0]-27) & ~4` the recovery id and
`flag = ((sig[0]-27) & 4 == 4)`: the result is `(Q, flag)` where `Q` is the SEC1 §4.1.6 key
`r⁻¹(s·R − e·G)` for the point `R = (r + (i/2)·N, y)` with `y` of parity `i mod 2` on the curve;
`Q` is a valid curve point, not the point at infinity, and `(r,s)` verifies under `Q` for `h`. -/
theorem recoverCompact_sound {sig h : Bytes} {q : Pt} {c : Bool}
    (hrc : Ecdsa.recoverCompact sig h = some (q, c)) :
    let r := beNat ((sig.drop 1).take 32)
    let s := beNat (sig.drop 33)
    let i := ((sig.headD 0 - 27) &&& (~~~ (4 : UInt8))).toNat
    sig.length = 65 ∧ c = (((sig.headD 0 - 27) &&& 4) == 4) ∧
    valid q = true ∧ q ≠ inf ∧ Ecdsa.verify q h (r : Int) (s : Int) = true ∧
    1 ≤ r ∧ r < N ∧ 1 ≤ s ∧ s < N ∧ N * (i / 2) + r < P ∧
    ∃ y, y < P ∧ onCurve (N * (i / 2) + r, y) = true ∧ (y % 2 == 1) = (i % 2 == 1) ∧
      q = padd (smul (invMod r N * s % N) (N * (i / 2) + r, y))
               (smul ((N - Ecdsa.hashToInt h % N) % N * invMod r N % N) G) := by
  intro r s i
  obtain ⟨hl, hc, hk⟩ := recoverCompact_some hrc
  obtain ⟨hv, hne, hver⟩ := recoverKey_sound hk
  obtain ⟨hr1, hrN, hs1, hsN, hrx, ry, hd, hq, _⟩ := recoverKey_some hk
  obtain ⟨hry, hcurve, hpar⟩ := (decompressPoint_iff hrx _ _).1 hd
  exact ⟨hl, hc, hv, hne, hver, hr1, hrN, hs1, hsN, hrx, ry, hry, hcurve, hpar, hq⟩

/-- non-vacuity: `RecoverCompact` succeeds on the vector above -/
example : Ecdsa.recoverCompact ([32] ++ natBEpad 32 rSat ++ natBEpad 32 sSat) hSat =
    some (smul 1 G, true) := recover_signCompact signCompact_vector

end GoBk.Props.C12

#print axioms GoBk.Props.C12.signCompact_layout
#print axioms GoBk.Props.C12.signCompact_total
#print axioms GoBk.Props.C12.recover_signCompact
#print axioms GoBk.Props.C12.signCompact_roundtrip
#print axioms GoBk.Props.C12.recoverCompact_length
#print axioms GoBk.Props.C12.recoverCompact_sound
