import GoBk.Proofs.EnvelopeLemmas
import GoBk.Proofs.RngLemmas
import GoBk.Proofs.EcdsaVectors
/-
  C20 — JSON envelope.

  "For every JSON-marshalable payload, the envelope returned by NewJSONEnvelope reports
   IsValid() = true, also after the envelope itself has been marshalled to JSON and unmarshalled
   again. In general IsValid returns true exactly when signature and public key are both present,
   both decode, and the signature is a valid ECDSA signature (in the sense of C03) by that key over
   the SHA-256 of the canonical payload bytes (backslashes removed for application/json,
   base64-decoded for base64, the raw text otherwise); with neither field present it returns true
   without checking, and with exactly one present it reports the envelope invalid or erroneous."

  Model: `GoBk.Envelope` (Model/Envelope.lean) = /repo/envelope/jsonenvelope.go after the fixes
  a3b0de8 (exactly one of signature/publicKey ⇒ error, was: nil dereference) and 791a782
  (NewJSONEnvelope signs the canonical payload that IsValid verifies).
    * `isValid pr payload sig pk mime : Res` — `.valid` = (true, nil), `.invalid` = (false, nil),
      `.error` = (false, err); the optional JSON fields are `Option Bytes`.
    * `newEnvelope pr fuel pl t` — `pl` is the payload AS STORED in the envelope: what `json.Marshal(payload)`
      returned, made valid UTF-8 (fix e93bcb8; `Envelope.newEnvelopeRaw` / `sanitizeUtf8`, theorems in C20b); a
      parameter: the theorems of this file hold for every byte string. `t` the tape of `crypto/rand` reads, `fuel` bounds the
      RFC 6979 candidates tried by `Sign`.  `none` = an error is returned.
  SHA-256 and base64 are parameters (`pr : Prims`); NO assumption on them is needed in this file.
  "Valid ECDSA signature in the sense of C03" is `Ecdsa.verify`, characterised by `C03.verify_iff`.

  JSON round trip of the envelope (`own_valid_roundtrip`): the model has no JSON encoder.  The
  statement is about ANY `roundtrip` function applied to the three string fields; the assumption
  that `json.Marshal`/`json.Unmarshal` of a `JSONEnvelope` is the identity on them is the explicit
  hypothesis `hrt`.  It holds exactly for well-formed UTF-8 strings — which marshalled JSON need NOT be
  (json.RawMessage, custom Marshalers: defect D14) — and is DISCHARGED in `Props/C20b.lean`
  (`own_valid_json_roundtrip`) from a model of encoding/json's string encoder/decoder (Model/JsonString,
  tied to the real encoding/json by the `json.*` streams) and the sanitisation the repaired code applies.

  Property theorems only; proofs are in `GoBk.Proofs.EnvelopeLemmas`.

  NOT YET PROVED in this file: (none)
-/
namespace GoBk.Props.C20
open GoBk Bytes Spec GoBk.Proofs GoBk.Proofs.EnvelopeL

/-! ### hex -/

/-- `hex.DecodeString(hex.EncodeToString(b)) = b` -/
theorem hexDecode_hexEncode (b : Bytes) : Envelope.hexDecode (Envelope.hexEncode b) = some b :=
  EnvelopeL.hexDecode_hexEncode b

/-- `hex.EncodeToString` is two lower-case hex characters per byte -/
theorem hexEncode_spec (b : Bytes) :
    Envelope.hexEncode b = b.flatMap (fun x => [hexByte (x.toNat / 16), hexByte (x.toNat % 16)]) ∧
    (Envelope.hexEncode b).length = 2 * b.length :=
  ⟨hexEncode_eq b, hexEncode_length b⟩

example : Envelope.hexEncode [0x00, 0xab, 0x7f] = "00ab7f".toUTF8.toList := by decide +kernel
/-- upper case is accepted by the decoder, odd length and non-hex characters are errors -/
example : Envelope.hexDecode "00Ab7F".toUTF8.toList = some [0x00, 0xab, 0x7f] ∧
    Envelope.hexDecode "00a".toUTF8.toList = none ∧ Envelope.hexDecode "0g".toUTF8.toList = none := by
  decide +kernel

/-! ### the canonical payload hash, as the property words it -/

/-- application/json ↦ SHA-256 of the payload with every backslash byte (0x5c) removed;
base64 ↦ SHA-256 of the decoded bytes (none if the payload is not valid base64);
anything else ↦ SHA-256 of the raw payload bytes. -/
def canonHash (pr : Prims) (mime payload : Bytes) : Option Bytes :=
  if mime = "application/json".toUTF8.toList then
    some (pr.sha256 (payload.filter fun c => decide (c ≠ 0x5c)))
  else if mime = "base64".toUTF8.toList then
    match pr.b64dec payload with
    | some bb => some (pr.sha256 bb)
    | none => none
  else some (pr.sha256 payload)

theorem mimeB64_ne_mimeJSON : Envelope.mimeB64 ≠ Envelope.mimeJSON := by decide +kernel

theorem canonHash_unfold (pr : Prims) (mime payload : Bytes) :
    canonHash pr mime payload =
      if mime = Envelope.mimeJSON then some (pr.sha256 (Envelope.stripBackslashes payload))
      else if mime = Envelope.mimeB64 then
        match pr.b64dec payload with
        | some bb => some (pr.sha256 bb)
        | none => none
      else some (pr.sha256 payload) := by
  have hf : (payload.filter fun c => decide (c ≠ 0x5c)) = Envelope.stripBackslashes payload := by
    unfold Envelope.stripBackslashes
    congr 1; funext c
    by_cases h : c = 92 <;> simp [h]
  rw [← hf]; rfl

/-- the model's hash selection is `canonHash` -/
theorem canonHash_eq (pr : Prims) (mime payload : Bytes) :
    canonHash pr mime payload = hashOf pr mime payload := by
  rw [canonHash_unfold]; unfold hashOf; simp only [beq_iff_eq]
  by_cases h1 : mime = Envelope.mimeJSON
  · simp only [h1, if_true]
  · simp only [h1, if_false]
    by_cases h2 : mime = Envelope.mimeB64
    · simp only [h2, if_true]
      cases pr.b64dec payload <;> rfl
    · simp only [h2, if_false]

/-! ### IsValid: absent fields -/

/-- neither signature nor public key: `true` without checking anything -/
theorem isValid_none_none (pr : Prims) (p m : Bytes) :
    Envelope.isValid pr p none none m = .valid := rfl

/-- exactly one of the two present: an error (never valid, never a panic) -/
theorem isValid_one (pr : Prims) (p m : Bytes) (sig pk : Option Bytes)
    (h : sig.isSome ≠ pk.isSome) : Envelope.isValid pr p sig pk m = .error := by
  cases sig <;> cases pk <;> first | rfl | exact absurd rfl h

example : (some ([] : Bytes)).isSome ≠ (none : Option Bytes).isSome := by decide

/-! ### IsValid: both fields present -/

/-- `IsValid() = (true, nil)` iff both hex strings decode, the key parses (C05), the signature parses
with the lax parser (C06), the canonical hash exists, and the signature verifies (C03). -/
theorem isValid_iff (pr : Prims) (p sg pkh m : Bytes) :
    Envelope.isValid pr p (some sg) (some pkh) m = .valid ↔
      ∃ pub q sigBytes r s h, Envelope.hexDecode pkh = some pub ∧ Ecdsa.parsePubKey pub = some q ∧
        Envelope.hexDecode sg = some sigBytes ∧ Der.parseLax sigBytes = some (r, s) ∧
        canonHash pr m p = some h ∧ Ecdsa.verify q h (r : Int) (s : Int) = true := by
  rw [isValid_valid_iff]
  constructor
  · rintro ⟨q, r, s, h, hd, hv⟩
    obtain ⟨pub, sb, h1, h2, h3, h4, h5⟩ := (decodeAll_eq_some _ _ _ _ _ _ _ _ _).1 hd
    exact ⟨pub, q, sb, r, s, h, h1, h2, h3, h4, by rw [canonHash_eq]; exact h5, hv⟩
  · rintro ⟨pub, q, sb, r, s, h, h1, h2, h3, h4, h5, hv⟩
    rw [canonHash_eq] at h5
    exact ⟨q, r, s, h, (decodeAll_eq_some _ _ _ _ _ _ _ _ _).2 ⟨pub, sb, h1, h2, h3, h4, h5⟩, hv⟩

/-- `IsValid() = (false, nil)` iff everything decodes and the signature does not verify -/
theorem isValid_invalid_iff (pr : Prims) (p sg pkh m : Bytes) :
    Envelope.isValid pr p (some sg) (some pkh) m = .invalid ↔
      ∃ pub q sigBytes r s h, Envelope.hexDecode pkh = some pub ∧ Ecdsa.parsePubKey pub = some q ∧
        Envelope.hexDecode sg = some sigBytes ∧ Der.parseLax sigBytes = some (r, s) ∧
        canonHash pr m p = some h ∧ Ecdsa.verify q h (r : Int) (s : Int) = false := by
  rw [EnvelopeL.isValid_invalid_iff]
  constructor
  · rintro ⟨q, r, s, h, hd, hv⟩
    obtain ⟨pub, sb, h1, h2, h3, h4, h5⟩ := (decodeAll_eq_some _ _ _ _ _ _ _ _ _).1 hd
    exact ⟨pub, q, sb, r, s, h, h1, h2, h3, h4, by rw [canonHash_eq]; exact h5, hv⟩
  · rintro ⟨pub, q, sb, r, s, h, h1, h2, h3, h4, h5, hv⟩
    rw [canonHash_eq] at h5
    exact ⟨q, r, s, h, (decodeAll_eq_some _ _ _ _ _ _ _ _ _).2 ⟨pub, sb, h1, h2, h3, h4, h5⟩, hv⟩

/-- `IsValid()` returns an error iff one of the five decodings fails -/
theorem isValid_error_iff (pr : Prims) (p sg pkh m : Bytes) :
    Envelope.isValid pr p (some sg) (some pkh) m = .error ↔
      ¬ ∃ pub q sigBytes r s h, Envelope.hexDecode pkh = some pub ∧
        Ecdsa.parsePubKey pub = some q ∧ Envelope.hexDecode sg = some sigBytes ∧
        Der.parseLax sigBytes = some (r, s) ∧ canonHash pr m p = some h := by
  rw [EnvelopeL.isValid_error_iff]
  constructor
  · rintro hn ⟨pub, q, sb, r, s, h, h1, h2, h3, h4, h5⟩
    rw [canonHash_eq] at h5
    have := (decodeAll_eq_some pr p sg pkh m q r s h).2 ⟨pub, sb, h1, h2, h3, h4, h5⟩
    rw [hn] at this; cases this
  · intro hn
    cases hd : decodeAll pr p sg pkh m with
    | none => rfl
    | some x =>
      obtain ⟨q, r, s, h⟩ := x
      obtain ⟨pub, sb, h1, h2, h3, h4, h5⟩ := (decodeAll_eq_some _ _ _ _ _ _ _ _ _).1 hd
      exact absurd ⟨pub, q, sb, r, s, h, h1, h2, h3, h4, by rw [canonHash_eq]; exact h5⟩ hn

/-- the five ways to get an error, one by one -/
theorem isValid_error_cases (pr : Prims) (p sg pkh m : Bytes) :
    (Envelope.hexDecode pkh = none → Envelope.isValid pr p (some sg) (some pkh) m = .error) ∧
    (∀ pub, Envelope.hexDecode pkh = some pub → Ecdsa.parsePubKey pub = none →
      Envelope.isValid pr p (some sg) (some pkh) m = .error) ∧
    (Envelope.hexDecode sg = none → Envelope.isValid pr p (some sg) (some pkh) m = .error) ∧
    (∀ sb, Envelope.hexDecode sg = some sb → Der.parseLax sb = none →
      Envelope.isValid pr p (some sg) (some pkh) m = .error) ∧
    (canonHash pr m p = none → Envelope.isValid pr p (some sg) (some pkh) m = .error) := by
  refine ⟨?_, ?_, ?_, ?_, ?_⟩
  · intro h0; rw [isValid_error_iff]; rintro ⟨pub, q, sb, r, s, h, h1, _⟩; rw [h0] at h1; cases h1
  · intro pub0 h0 hp; rw [isValid_error_iff]; rintro ⟨pub, q, sb, r, s, h, h1, h2, _⟩
    rw [h0] at h1; cases h1; rw [hp] at h2; cases h2
  · intro h0; rw [isValid_error_iff]; rintro ⟨pub, q, sb, r, s, h, _, _, h3, _⟩; rw [h0] at h3; cases h3
  · intro sb0 h0 hp; rw [isValid_error_iff]; rintro ⟨pub, q, sb, r, s, h, _, _, h3, h4, _⟩
    rw [h0] at h3; cases h3; rw [hp] at h4; cases h4
  · intro h0; rw [isValid_error_iff]; rintro ⟨pub, q, sb, r, s, h, _, _, _, _, h5⟩; rw [h0] at h5; cases h5

/-- the three outcomes are exhaustive and the result is never a panic: `isValid` is a total function -/
theorem isValid_total (pr : Prims) (p m : Bytes) (sig pk : Option Bytes) :
    Envelope.isValid pr p sig pk m = .valid ∨ Envelope.isValid pr p sig pk m = .invalid ∨
    Envelope.isValid pr p sig pk m = .error := by
  cases Envelope.isValid pr p sig pk m <;> simp

/-- only an undecodable payload makes the canonical hash fail, and only for mimetype base64 -/
theorem canonHash_none_iff (pr : Prims) (m p : Bytes) :
    canonHash pr m p = none ↔ m = "base64".toUTF8.toList ∧ pr.b64dec p = none := by
  show _ ↔ m = Envelope.mimeB64 ∧ _
  rw [canonHash_unfold]
  by_cases h1 : m = Envelope.mimeJSON
  · rw [if_pos h1]
    subst h1
    constructor
    · intro h; cases h
    · rintro ⟨h, _⟩; exact absurd h.symm mimeB64_ne_mimeJSON
  · rw [if_neg h1]
    by_cases h2 : m = Envelope.mimeB64
    · rw [if_pos h2]
      cases pr.b64dec p <;> simp [h2]
    · rw [if_neg h2]
      constructor
      · intro h; cases h
      · rintro ⟨h, _⟩; exact absurd h h2

/-! ### the envelope just created is valid -/

/-- For EVERY marshalled payload `pl` (any byte string), every tape and every `fuel`: if
`NewJSONEnvelope` returns an envelope (it fails only if the random source fails or `Sign` errs),
`IsValid()` on it returns `(true, nil)`.  No assumption about SHA-256 is needed: signer and
verifier hash the same canonical bytes `stripBackslashes pl`. -/
theorem own_valid (pr : Prims) (fuel : Nat) (pl : Bytes) (t : Rng.Tape) (sg pk : Bytes)
    (h : Envelope.newEnvelope pr fuel pl t = some (sg, pk)) :
    Envelope.isValid pr pl (some sg) (some pk) Envelope.mimeJSON = .valid :=
  own_valid_aux pr fuel pl t sg pk h

/-- the same with the `PrimsOK` hypothesis the other properties carry (it is not used) -/
theorem own_valid' (pr : Prims) (_hp : PrimsOK pr) (fuel : Nat) (pl : Bytes) (t : Rng.Tape)
    (sg pk : Bytes) (h : Envelope.newEnvelope pr fuel pl t = some (sg, pk)) :
    Envelope.isValid pr pl (some sg) (some pk) Envelope.mimeJSON = .valid :=
  own_valid pr fuel pl t sg pk h

/-- what the envelope contains: the DER signature (hex) of the canonical payload hash under a key
`d ∈ [1, N-1]` read from the tape, and the compressed public key `d•G` (hex) -/
theorem newEnvelope_spec (pr : Prims) (fuel : Nat) (pl : Bytes) (t : Rng.Tape) (sg pk : Bytes)
    (h : Envelope.newEnvelope pr fuel pl t = some (sg, pk)) :
    ∃ d t' r s, Rng.generateKey t = some (d, smul d G, t') ∧ 1 ≤ d ∧ d < N ∧
      Ecdsa.sign pr fuel d (pr.sha256 (Envelope.stripBackslashes pl)) = some (r, s) ∧
      sg = Envelope.hexEncode (Der.serialise r s) ∧
      pk = Envelope.hexEncode (Ecdsa.serCompressed (smul d G)) := by
  obtain ⟨d, t', r, s, hg, hs, e1, e2⟩ := newEnvelope_some h
  obtain ⟨h1, h2, _⟩ := EciesL.generateKey_some hg
  exact ⟨d, t', r, s, hg, h1, h2, hs, e1, e2⟩

/-- non-vacuity of the hypothesis of `own_valid` with the real primitives: payload
"Satoshi Nakamoto" (16 bytes, no backslash), tape = one 32-byte read with value 1. -/
example : ∃ sg pk, Envelope.newEnvelope realPrims 1 "Satoshi Nakamoto".toUTF8.toList
    [some (natBEpad 32 1)] = some (sg, pk) := by
  have hh : realPrims.sha256 (Envelope.stripBackslashes "Satoshi Nakamoto".toUTF8.toList) = hSat := by
    decide +kernel
  have hg := RngL.generateKey_single (d := 1) (by decide) (by decide) []
  exact ⟨_, _, newEnvelope_of hg (by rw [hh]; exact sign_vector)⟩

/-- JSON round trip of the envelope.  `roundtrip` stands for `json.Unmarshal ∘ json.Marshal` acting on
a string field of `JSONEnvelope`; under the recorded assumption `hrt` that it is the identity
(encoding/json round-trips valid UTF-8 strings; checked on the real code by the harness) the
re-read envelope is valid. -/
theorem own_valid_roundtrip (pr : Prims) (fuel : Nat) (pl : Bytes) (t : Rng.Tape) (sg pk : Bytes)
    (roundtrip : Bytes → Bytes) (hrt : roundtrip = id)
    (h : Envelope.newEnvelope pr fuel pl t = some (sg, pk)) :
    Envelope.isValid pr (roundtrip pl) (some (roundtrip sg)) (some (roundtrip pk))
      (roundtrip Envelope.mimeJSON) = .valid := by
  subst hrt
  exact own_valid pr fuel pl t sg pk h

example : (id : Bytes → Bytes) = id := rfl

/-- a payload containing backslashes (JSON string escapes) is still valid: both sides strip them.
(Before fix 791a782 the signer hashed the raw bytes and such envelopes were INVALID.) -/
example : Envelope.stripBackslashes "{\"a\":\"x\\ny\"}".toUTF8.toList = "{\"a\":\"xny\"}".toUTF8.toList := by
  decide +kernel

/-- changing the mimetype of one's own envelope to something else than application/json re-hashes
the RAW payload; it stays valid when the payload has no backslash -/
theorem own_valid_other_mime (pr : Prims) (fuel : Nat) (pl : Bytes) (t : Rng.Tape) (sg pk m : Bytes)
    (hm : m ≠ Envelope.mimeB64) (hpl : Envelope.stripBackslashes pl = pl)
    (h : Envelope.newEnvelope pr fuel pl t = some (sg, pk)) :
    Envelope.isValid pr pl (some sg) (some pk) m = .valid := by
  have hv := own_valid pr fuel pl t sg pk h
  rw [isValid_iff] at hv ⊢
  obtain ⟨pub, q, sb, r, s, hh, h1, h2, h3, h4, h5, h6⟩ := hv
  refine ⟨pub, q, sb, r, s, hh, h1, h2, h3, h4, ?_, h6⟩
  rw [canonHash_eq] at h5 ⊢
  rw [hashOf_json, hpl] at h5
  unfold hashOf
  by_cases hj : m = Envelope.mimeJSON
  · subst hj; simp [hpl, h5]
  · have hb : (m == Envelope.mimeB64) = false := by simpa using hm
    have hj' : (m == Envelope.mimeJSON) = false := by simpa using hj
    simp only [hj', hb]
    exact h5

example : ("text/plain".toUTF8.toList : Bytes) ≠ Envelope.mimeB64 ∧
    Envelope.stripBackslashes "Satoshi Nakamoto".toUTF8.toList = "Satoshi Nakamoto".toUTF8.toList := by
  decide +kernel

end GoBk.Props.C20

#print axioms GoBk.Props.C20.hexDecode_hexEncode
#print axioms GoBk.Props.C20.hexEncode_spec
#print axioms GoBk.Props.C20.canonHash_unfold
#print axioms GoBk.Props.C20.canonHash_eq
#print axioms GoBk.Props.C20.isValid_none_none
#print axioms GoBk.Props.C20.isValid_one
#print axioms GoBk.Props.C20.isValid_iff
#print axioms GoBk.Props.C20.isValid_invalid_iff
#print axioms GoBk.Props.C20.isValid_error_iff
#print axioms GoBk.Props.C20.isValid_error_cases
#print axioms GoBk.Props.C20.isValid_total
#print axioms GoBk.Props.C20.canonHash_none_iff
#print axioms GoBk.Props.C20.own_valid
#print axioms GoBk.Props.C20.own_valid'
#print axioms GoBk.Props.C20.newEnvelope_spec
#print axioms GoBk.Props.C20.own_valid_roundtrip
#print axioms GoBk.Props.C20.own_valid_other_mime
