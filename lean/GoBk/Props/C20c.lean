import GoBk.Props.C20
import GoBk.Props.C20b
import GoBk.Props.Prims
/-!
# C20, instantiated: the theorems of `Props/C20.lean` and `Props/C20b.lean` for the EXECUTABLE primitives

Both files are parametric in `pr : Prims` (SHA-256, base64, the HMAC-SHA256 inside `Sign`) and need NO assumption on
them; only `own_valid'` carries the (unused) hypothesis `PrimsOK pr`, discharged here by `Prims.realPrims_ok`.  The
headline statements that mention `pr` are restated for the `realPrims` that are actually executed.
-/
namespace GoBk.Props.C20
open GoBk Bytes Spec GoBk.Proofs GoBk.Proofs.EnvelopeL JsonString GoBk.Props.Prims

/-! ### theorem that assumed `PrimsOK pr` -/

/-- `own_valid'` for `realPrims` (`PrimsOK` discharged) -/
theorem real_own_valid' (fuel : Nat) (pl : Bytes) (t : Rng.Tape)
    (sg pk : Bytes) (h : Envelope.newEnvelope realPrims fuel pl t = some (sg, pk)) :
    Envelope.isValid realPrims pl (some sg) (some pk) Envelope.mimeJSON = .valid :=
  own_valid' realPrims realPrims_ok fuel pl t sg pk h

/-! ### headline statements of `Props/C20.lean` (no primitive hypothesis), at `realPrims` -/

/-- `isValid_none_none` for `realPrims` -/
theorem real_isValid_none_none (p m : Bytes) :
    Envelope.isValid realPrims p none none m = .valid := isValid_none_none realPrims p m

/-- `isValid_one` for `realPrims` -/
theorem real_isValid_one (p m : Bytes) (sig pk : Option Bytes)
    (h : sig.isSome ≠ pk.isSome) : Envelope.isValid realPrims p sig pk m = .error :=
  isValid_one realPrims p m sig pk h

/-- `isValid_iff` for `realPrims` -/
theorem real_isValid_iff (p sg pkh m : Bytes) :
    Envelope.isValid realPrims p (some sg) (some pkh) m = .valid ↔
      ∃ pub q sigBytes r s h, Envelope.hexDecode pkh = some pub ∧ Ecdsa.parsePubKey pub = some q ∧
        Envelope.hexDecode sg = some sigBytes ∧ Der.parseLax sigBytes = some (r, s) ∧
        canonHash realPrims m p = some h ∧ Ecdsa.verify q h (r : Int) (s : Int) = true :=
  isValid_iff realPrims p sg pkh m

/-- `isValid_invalid_iff` for `realPrims` -/
theorem real_isValid_invalid_iff (p sg pkh m : Bytes) :
    Envelope.isValid realPrims p (some sg) (some pkh) m = .invalid ↔
      ∃ pub q sigBytes r s h, Envelope.hexDecode pkh = some pub ∧ Ecdsa.parsePubKey pub = some q ∧
        Envelope.hexDecode sg = some sigBytes ∧ Der.parseLax sigBytes = some (r, s) ∧
        canonHash realPrims m p = some h ∧ Ecdsa.verify q h (r : Int) (s : Int) = false :=
  isValid_invalid_iff realPrims p sg pkh m

/-- `isValid_error_iff` for `realPrims` -/
theorem real_isValid_error_iff (p sg pkh m : Bytes) :
    Envelope.isValid realPrims p (some sg) (some pkh) m = .error ↔
      ¬ ∃ pub q sigBytes r s h, Envelope.hexDecode pkh = some pub ∧
        Ecdsa.parsePubKey pub = some q ∧ Envelope.hexDecode sg = some sigBytes ∧
        Der.parseLax sigBytes = some (r, s) ∧ canonHash realPrims m p = some h :=
  isValid_error_iff realPrims p sg pkh m

/-- `isValid_error_cases` for `realPrims` -/
theorem real_isValid_error_cases (p sg pkh m : Bytes) :
    (Envelope.hexDecode pkh = none → Envelope.isValid realPrims p (some sg) (some pkh) m = .error) ∧
    (∀ pub, Envelope.hexDecode pkh = some pub → Ecdsa.parsePubKey pub = none →
      Envelope.isValid realPrims p (some sg) (some pkh) m = .error) ∧
    (Envelope.hexDecode sg = none → Envelope.isValid realPrims p (some sg) (some pkh) m = .error) ∧
    (∀ sb, Envelope.hexDecode sg = some sb → Der.parseLax sb = none →
      Envelope.isValid realPrims p (some sg) (some pkh) m = .error) ∧
    (canonHash realPrims m p = none → Envelope.isValid realPrims p (some sg) (some pkh) m = .error) :=
  isValid_error_cases realPrims p sg pkh m

/-- `isValid_total` for `realPrims` -/
theorem real_isValid_total (p m : Bytes) (sig pk : Option Bytes) :
    Envelope.isValid realPrims p sig pk m = .valid ∨ Envelope.isValid realPrims p sig pk m = .invalid ∨
    Envelope.isValid realPrims p sig pk m = .error :=
  isValid_total realPrims p m sig pk

/-- `canonHash_none_iff` for `realPrims` -/
theorem real_canonHash_none_iff (m p : Bytes) :
    canonHash realPrims m p = none ↔ m = "base64".toUTF8.toList ∧ realPrims.b64dec p = none :=
  canonHash_none_iff realPrims m p

/-- `own_valid` for `realPrims` -/
theorem real_own_valid (fuel : Nat) (pl : Bytes) (t : Rng.Tape) (sg pk : Bytes)
    (h : Envelope.newEnvelope realPrims fuel pl t = some (sg, pk)) :
    Envelope.isValid realPrims pl (some sg) (some pk) Envelope.mimeJSON = .valid :=
  own_valid realPrims fuel pl t sg pk h

/-- `newEnvelope_spec` for `realPrims` -/
theorem real_newEnvelope_spec (fuel : Nat) (pl : Bytes) (t : Rng.Tape) (sg pk : Bytes)
    (h : Envelope.newEnvelope realPrims fuel pl t = some (sg, pk)) :
    ∃ d t' r s, Rng.generateKey t = some (d, smul d G, t') ∧ 1 ≤ d ∧ d < N ∧
      Ecdsa.sign realPrims fuel d (realPrims.sha256 (Envelope.stripBackslashes pl)) = some (r, s) ∧
      sg = Envelope.hexEncode (Der.serialise r s) ∧
      pk = Envelope.hexEncode (Ecdsa.serCompressed (smul d G)) :=
  newEnvelope_spec realPrims fuel pl t sg pk h

/-- `own_valid_roundtrip` for `realPrims` (the hypothesis `hrt` is about JSON, not about the primitives: kept;
discharged in `real_own_valid_json_roundtrip`) -/
theorem real_own_valid_roundtrip (fuel : Nat) (pl : Bytes) (t : Rng.Tape) (sg pk : Bytes)
    (roundtrip : Bytes → Bytes) (hrt : roundtrip = id)
    (h : Envelope.newEnvelope realPrims fuel pl t = some (sg, pk)) :
    Envelope.isValid realPrims (roundtrip pl) (some (roundtrip sg)) (some (roundtrip pk))
      (roundtrip Envelope.mimeJSON) = .valid :=
  own_valid_roundtrip realPrims fuel pl t sg pk roundtrip hrt h

/-- `own_valid_other_mime` for `realPrims` -/
theorem real_own_valid_other_mime (fuel : Nat) (pl : Bytes) (t : Rng.Tape) (sg pk m : Bytes)
    (hm : m ≠ Envelope.mimeB64) (hpl : Envelope.stripBackslashes pl = pl)
    (h : Envelope.newEnvelope realPrims fuel pl t = some (sg, pk)) :
    Envelope.isValid realPrims pl (some sg) (some pk) m = .valid :=
  own_valid_other_mime realPrims fuel pl t sg pk m hm hpl h

/-! ### headline statements of `Props/C20b.lean` (no primitive hypothesis), at `realPrims` -/

/-- `own_valid_raw` for `realPrims` -/
theorem real_own_valid_raw (fuel : Nat) (raw : Bytes) (t : Rng.Tape) (pl sg pk : Bytes)
    (h : Envelope.newEnvelopeRaw realPrims fuel raw t = some (pl, sg, pk)) :
    pl = Envelope.sanitizeUtf8 raw ∧ WellFormed pl ∧
      Envelope.isValid realPrims pl (some sg) (some pk) Envelope.mimeJSON = .valid :=
  own_valid_raw realPrims fuel raw t pl sg pk h

/-- `newEnvelopeRaw_wellFormed` for `realPrims` -/
theorem real_newEnvelopeRaw_wellFormed (fuel : Nat) (raw : Bytes) (t : Rng.Tape) (hw : WellFormed raw) :
    Envelope.newEnvelopeRaw realPrims fuel raw t =
      (Envelope.newEnvelope realPrims fuel raw t).map fun (sg, pk) => (raw, sg, pk) :=
  newEnvelopeRaw_wellFormed realPrims fuel raw t hw

/-- `envelope_roundtrip_valid` for `realPrims` -/
theorem real_envelope_roundtrip_valid (fuel : Nat) (raw : Bytes) (t : Rng.Tape) (pl sg pk : Bytes)
    (h : Envelope.newEnvelopeRaw realPrims fuel raw t = some (pl, sg, pk)) :
    jsonUnquote (jsonQuote pl) = some pl ∧ jsonUnquote (jsonQuote sg) = some sg ∧
    jsonUnquote (jsonQuote pk) = some pk ∧
    jsonUnquote (jsonQuote Envelope.mimeJSON) = some Envelope.mimeJSON ∧
    jsonUnquote (jsonQuote "UTF-8".toUTF8.toList) = some "UTF-8".toUTF8.toList :=
  envelope_roundtrip_valid realPrims fuel raw t pl sg pk h

/-- `own_valid_json_roundtrip` for `realPrims` -/
theorem real_own_valid_json_roundtrip (fuel : Nat) (raw : Bytes) (t : Rng.Tape) (pl sg pk : Bytes)
    (h : Envelope.newEnvelopeRaw realPrims fuel raw t = some (pl, sg, pk)) (pl' sg' pk' m' : Bytes)
    (h1 : jsonUnquote (jsonQuote pl) = some pl') (h2 : jsonUnquote (jsonQuote sg) = some sg')
    (h3 : jsonUnquote (jsonQuote pk) = some pk')
    (h4 : jsonUnquote (jsonQuote Envelope.mimeJSON) = some m') :
    Envelope.isValid realPrims pl' (some sg') (some pk') m' = .valid :=
  own_valid_json_roundtrip realPrims fuel raw t pl sg pk h pl' sg' pk' m' h1 h2 h3 h4

end GoBk.Props.C20

#print axioms GoBk.Props.C20.real_own_valid'
#print axioms GoBk.Props.C20.real_isValid_none_none
#print axioms GoBk.Props.C20.real_isValid_one
#print axioms GoBk.Props.C20.real_isValid_iff
#print axioms GoBk.Props.C20.real_isValid_invalid_iff
#print axioms GoBk.Props.C20.real_isValid_error_iff
#print axioms GoBk.Props.C20.real_isValid_error_cases
#print axioms GoBk.Props.C20.real_isValid_total
#print axioms GoBk.Props.C20.real_canonHash_none_iff
#print axioms GoBk.Props.C20.real_own_valid
#print axioms GoBk.Props.C20.real_newEnvelope_spec
#print axioms GoBk.Props.C20.real_own_valid_roundtrip
#print axioms GoBk.Props.C20.real_own_valid_other_mime
#print axioms GoBk.Props.C20.real_own_valid_raw
#print axioms GoBk.Props.C20.real_newEnvelopeRaw_wellFormed
#print axioms GoBk.Props.C20.real_envelope_roundtrip_valid
#print axioms GoBk.Props.C20.real_own_valid_json_roundtrip
