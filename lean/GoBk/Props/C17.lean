import GoBk.Model.Conc
import GoBk.Proofs.ConcLemmas
import GoBk.Gen.Facts
/-
  C17 — concurrent use of the shared curve, keys and codecs is race-free and deterministic.

  "Any number of goroutines may concurrently use the shared curve object (including its first use),
   sign with a shared private key, verify and serialise a shared public key, derive children, neuter,
   serialise and take addresses of a shared extended key, and call the codec and hash functions;
   every call returns what it would return alone.  No execution contains a data race."
   Quantifier: all interleavings of read-only API calls from 2..64 goroutines on shared objects,
   including all orderings of the first call to S256() and of the first public-key computation of a
   private extended key.

  How the property is decided
  ---------------------------
  1. `once_discipline_race_free` (model `GoBk.Model.Conc`, lemmas `GoBk.Proofs.ConcLemmas`): for a
     program that follows the *once discipline* —
       (a) every write to shared memory is in the sequential pre-spawn phase or inside the body of
           `Do(o)` for the once `o` guarding the written location,
       (b) every read of a location guarded by `o` is in that body or program-ordered after the
           reading thread's own `Do(o)`,
       (c) every other access is a read,
     — EVERY schedule of ANY number of threads gives a trace without data race, in which the body of
     each once starts at most once, and in which every read returns the sequentially initialised
     value `fin` (so it does not depend on the schedule or on the other threads).
  2. `discipline_holds`: the fact base REGENERATED from the Go source (`GoBk.Gen.Facts`, extractor
     `/verif/gen/facts.go`) says that the library follows this discipline: `disciplineOK = true`.
  3. `bridge_holds` / `guardTable`: which Go state is a model location guarded by which once
     (`bec.secp256k1` by `bec.initonce`, `ExtendedKey.pubKey` by `ExtendedKey.o`), and that the
     write sites / read sites of the fact base are exactly of the shapes (a)–(c).
  4. `goProg`: the shared-state skeleton of the library as a model program, for ANY number of
     threads each making ANY sequence of read-only API calls; `go_skeleton_safe` instantiates 1.

  Trusted, not proved here: that the extractor reports the Go source faithfully (it is re-run on
  every check and shown to be sensitive to the five seeded violations), that sync.Once and the Go
  memory model behave as modelled, and the mapping 3.  The harness `conc` (real goroutines under
  the race detector) validates these on the executions it explores.
-/
namespace GoBk.Props.C17
open GoBk.Model.Conc

/-! ### 1. The theorem about all schedules -/

/-- **Once discipline ⇒ race freedom, at-most-once, schedule-independent reads.**
For every well-formed program (any number of threads), every schedule:
 * the trace has no data race,
 * the body of each once was started at most once,
 * for every sequentially consistent initial memory `fin` (`Consistent`: a statement about the
   bodies run *alone*), every read — except the reads the initialising body makes of its own,
   still incomplete, state — returned `fin l`. -/
theorem once_discipline_race_free (P : Prog) (wf : WellFormed P) (sched : List Tid) :
    ¬ DataRace (trace P sched) ∧
    (∀ o, beginCount o (trace P sched) ≤ 1) ∧
    (∀ fin, Consistent P fin → ∀ s ∈ trace P sched, ∀ l v own,
        s.act = .rd l v own → ¬ InOwnBody own (P.guard l) → v = fin l) := by
  have h1 : Inv1 P (run P sched) := Inv1.exec wf sched (Inv1.init wf)
  have hmem : ∀ x, x ∈ (run P sched).tr ↔ x ∈ trace P sched := fun x => by
    unfold trace; rw [List.mem_reverse]
  refine ⟨?_, ?_, ?_⟩
  · exact fun hr => h1.tinv.noRace ((DataRace.perm hmem).2 hr)
  · intro o
    have := h1.tinv.begin1 o
    unfold beginCount at *
    unfold trace
    rw [List.countP_reverse]
    exact this
  · intro fin cons s hs l v own hact hno
    have h2 : Inv2 P fin (run P sched) :=
      Inv2.exec wf cons sched (Inv1.init wf) (Inv2.init fin)
    exact h2.reads s ((hmem s).2 hs) l v own hact hno

/-- the trace is numbered by position, so `HB`'s `seq` comparisons are comparisons of positions -/
theorem trace_numbered (P : Prog) (sched : List Tid) :
    (trace P sched).map (·.seq) = List.range (trace P sched).length :=
  trace_seq P sched

/-- **Every call returns what it would return alone.**  Two programs with the same shared part
(guards, once bodies, pre-spawn phase) but arbitrary, different sets of threads — in particular the
program in which one of the threads runs alone — under arbitrary schedules: any two reads of the
same location made outside the initialising body return the same value. -/
theorem reads_independent_of_threads_and_schedule (P P' : Prog)
    (hg : P'.guard = P.guard) (hb : P'.body = P.body) (hi : P'.init = P.init)
    (wf : WellFormed P) (wf' : WellFormed P') (fin : Loc → Val) (cons : Consistent P fin)
    (sched sched' : List Tid) (s s' : Step) (hs : s ∈ trace P sched) (hs' : s' ∈ trace P' sched')
    (l : Loc) (v v' : Val) (own own' : Option OnceId)
    (ha : s.act = .rd l v own) (ha' : s'.act = .rd l v' own')
    (hno : ¬ InOwnBody own (P.guard l)) (hno' : ¬ InOwnBody own' (P.guard l)) : v = v' := by
  have cons' : Consistent P' fin := by
    refine ⟨?_, ?_⟩
    · intro l1 hl1
      rw [hg] at hl1
      have : P'.mem0 = P.mem0 := by unfold Prog.mem0; rw [hi]
      rw [this]; exact cons.unguarded l1 hl1
    · intro o l1 hl1
      rw [hg] at hl1
      have hm : P'.mem0 = P.mem0 := by unfold Prog.mem0; rw [hi]
      have : ∀ (es : List Ev) (m : Loc → Val) (rs : List Val),
          seqEvs P' fin o m rs es = seqEvs P fin o m rs es := by
        intro es
        induction es with
        | nil => intro m rs; rfl
        | cons e es ih =>
          intro m rs
          cases e with
          | read l0 =>
            show seqEvs P' fin o m ((if P'.guard l0 = some o then m l0 else fin l0) :: rs) es = _
            rw [hg, ih]; rfl
          | write l0 g => exact ih _ _
          | doOnce o' => exact ih _ _
      rw [this, hb, hm]
      exact cons.guarded o l1 hl1
  have e1 := (once_discipline_race_free P wf sched).2.2 fin cons s hs l v own ha hno
  have e2 := (once_discipline_race_free P' wf' sched').2.2 fin cons' s' hs' l v' own' ha'
    (by rw [hg]; exact hno')
  rw [e1, e2]

/-! ### 2. The regenerated facts -/

open GoBk.Gen.Facts in
/-- the library, as extracted from the source on this run, follows the once discipline:
no write site to shared state outside package init / a once body / a documented mutator;
everything written in a once body is read only inside that body or after the same function's
own `Do`; no shared pointer is passed in a parameter position the callee writes; no mutating
method has a shared receiver; no exported read-only function writes through a pointer parameter. -/
theorem discipline_holds : GoBk.Gen.Facts.disciplineOK = true := by decide

/-! ### 3. The bridge: Go state ↦ model locations and onces -/

/-- (index into `Facts.locNames`, index into `Facts.onceNames`): `bec.secp256k1` (every field of
the curve singleton and the byte-point table it points to) is guarded by `bec.initonce`; the
memoised `ExtendedKey.pubKey` is guarded by that key's `o`. -/
def guardTable : List (Nat × Nat) := [(0, 0), (1, 1)]

def goGuard (loc : Nat) : Option Nat := (guardTable.find? (fun p => p.1 == loc)).map (·.2)

open GoBk.Gen.Facts in
/-- hypothesis (a) on the fact base: a write site is in the pre-spawn phase (`init`), in code the
property excludes (`mutator`), on an object not yet published (`local`), or inside the body of the
once that guards the written location -/
def hypA : Bool :=
  writeSites.all fun w =>
    match w.ctx with
    | .init => true
    | .mutator => true
    | .local => true
    | .onceBody o => goGuard w.loc == some o
    | .other => false

open GoBk.Gen.Facts in
/-- hypothesis (b) on the fact base: every syntactic reference to guarded state is inside the body
of its once, after the enclosing function's own `Do` of that once, or outside the concurrent
read-only phase (package init, documented mutator, initialiser of a fresh object) -/
def hypB : Bool :=
  readSites.all fun r =>
    match goGuard r.loc with
    | some o => r.guard.okFor o
    | none => true

open GoBk.Gen.Facts in
/-- hypothesis (c) on the fact base: there is no other write to shared state — no write site the
extractor could not classify, and no exported read-only function writing through a parameter -/
def hypC : Bool := noOtherWrites && noExportedParamWrites

open GoBk.Gen.Facts in
/-- the two guarded locations are exactly the state written under a once -/
def lazyStateMatches : Bool := lazyState.all (fun p => guardTable.contains p) &&
  guardTable.all (fun p => lazyState.contains p)

open GoBk.Gen.Facts in
/-- the names the ids stand for (so a renumbering by the extractor cannot go unnoticed) -/
theorem names_fixed :
    locNames.take 2 = ["bec.secp256k1", "bip32.ExtendedKey.pubKey"] ∧
    onceNames.take 2 = ["bec.initonce", "bip32.ExtendedKey.o"] := by decide

theorem bridge_holds : (hypA && hypB && hypC && lazyStateMatches) = true := by decide

open GoBk.Gen.Facts in
/-- (a), readable: every write site to shared state is in package initialisation, in a documented
mutator, on a not-yet-published object, or inside the body of the once guarding what it writes -/
theorem hypA_holds : ∀ w ∈ writeSites,
    w.ctx = .init ∨ w.ctx = .mutator ∨ w.ctx = .local ∨
      ∃ o, w.ctx = .onceBody o ∧ goGuard w.loc = some o := by
  have h : hypA = true := by decide
  intro w hw
  have := List.all_eq_true.1 h w hw
  cases hc : w.ctx with
  | init => exact Or.inl rfl
  | mutator => exact Or.inr (Or.inl rfl)
  | «local» => exact Or.inr (Or.inr (Or.inl rfl))
  | onceBody o =>
    rw [hc] at this
    exact Or.inr (Or.inr (Or.inr ⟨o, rfl, by simpa using this⟩))
  | other => rw [hc] at this; cases this

open GoBk.Gen.Facts in
/-- (b), readable: every reference to once-guarded state is inside the body of its once or after
the enclosing function's own `Do` of that once (or outside the concurrent read-only phase) -/
theorem hypB_holds : ∀ r ∈ readSites, ∀ o, goGuard r.loc = some o →
    r.guard = .inOnce o ∨ r.guard = .afterDo o ∨ r.guard = .atInit ∨ r.guard = .inMutator ∨
      r.guard = .freshInit := by
  have h : hypB = true := by decide
  intro r hr o ho
  have := List.all_eq_true.1 h r hr
  rw [ho] at this
  cases hg : r.guard with
  | inOnce o' =>
    rw [hg] at this
    have e : o' = o := by simpa [Guard.okFor] using this
    exact Or.inl (by rw [e])
  | afterDo o' =>
    rw [hg] at this
    have e : o' = o := by simpa [Guard.okFor] using this
    exact Or.inr (Or.inl (by rw [e]))
  | atInit => exact Or.inr (Or.inr (Or.inl rfl))
  | inMutator => exact Or.inr (Or.inr (Or.inr (Or.inl rfl)))
  | freshInit => exact Or.inr (Or.inr (Or.inr (Or.inr rfl)))
  | unguarded => rw [hg] at this; cases this

open GoBk.Gen.Facts in
/-- (c), readable: there is no write site the extractor could not put into one of the classes -/
theorem hypC_holds : ∀ w ∈ writeSites, w.ctx ≠ .other := by
  have h : noOtherWrites = true := by decide
  intro w hw hc
  have := List.all_eq_true.1 h w hw
  rw [hc] at this
  cases this

open GoBk.Gen.Facts in
/-- the variable `secp256k1` itself is mentioned only inside the once body and, after the `Do`,
in `S256` (which hands out its address): every other access goes through a `*KoblitzCurve`
obtained from `S256()`, i.e. is program-ordered after the caller's own `initonce.Do` -/
theorem secp256k1_only_via_S256 :
    (readSites.filter (fun r => r.loc == 0)).all
      (fun r => r.guard == .inOnce 0 || (r.guard == .afterDo 0 && r.fn == "bec.S256")) = true := by
  decide

/-! ### 4. The shared-state skeleton of the library as a model program -/

/-- the shapes of read-only API calls as far as shared state is concerned -/
inductive ApiCall where
  /-- anything that goes through `S256()`: Sign, Verify, ParsePubKey, ScalarBaseMult, …:
      `initonce.Do(initAll)` and then reads of the curve singleton -/
  | useCurve
  /-- `pubKeyBytes()` of the shared private extended key (Child, Neuter, Address, String,
      ECPubKey, …): `k.o.Do(…)` and then the read of `k.pubKey` -/
  | pubKeyBytes
  /-- a read of state that is never written after the pre-spawn phase: fields of the shared keys,
      chaincfg tables, the word list, base58 tables, `bigRadix`, `fieldOne`, … (location `i + 2`) -/
  | readImmutable (i : Nat)

def ApiCall.evs : ApiCall → List Ev
  | .useCurve => [.doOnce 0, .read 0]
  | .pubKeyBytes => [.doOnce 1, .read 1]
  | .readImmutable i => [.read (i + 2)]

/-- locations: 0 = `bec.secp256k1`, 1 = `k.pubKey`, `i+2` = immutable state (2 = `k.key`);
onces: 0 = `bec.initonce`, 1 = `k.o`.  `initS256` writes the curve (a constant); the body of
`k.o.Do` calls `S256()`, reads the curve and `k.key`, and writes `k.pubKey` (some function
`derive` of what it read).  `init` is the arbitrary pre-spawn phase; `threads` any number of
goroutines, each making any sequence of read-only calls. -/
def goProg (curveInit : Val) (derive : List Val → Val) (init : List (Loc × Val))
    (threads : List (List ApiCall)) : Prog where
  guard := fun l => if l = 0 then some 0 else if l = 1 then some 1 else none
  body := fun o =>
    if o = 0 then [.write 0 (fun _ => curveInit)]
    else if o = 1 then [.doOnce 0, .read 0, .read 2, .write 1 derive]
    else []
  init := init
  threads := threads.map (fun cs => cs.flatMap ApiCall.evs)

theorem goProg_wf (curveInit : Val) (derive : List Val → Val) (init : List (Loc × Val))
    (threads : List (List ApiCall)) : WellFormed (goProg curveInit derive init threads) := by
  refine ⟨?_, ?_⟩
  · intro es hes
    obtain ⟨cs, _, rfl⟩ := List.mem_map.1 hes
    have call : ∀ (c : ApiCall) (Q : OnceId → Prop),
        okEvs (goProg curveInit derive init threads) none Q c.evs := by
      intro c Q
      cases c with
      | useCurve =>
        refine ⟨fun o ho => ?_, trivial⟩
        simp only [goProg] at ho
        injection ho with ho
        exact Or.inr (Or.inl ho.symm)
      | pubKeyBytes =>
        refine ⟨fun o ho => ?_, trivial⟩
        simp only [goProg] at ho
        injection ho with ho
        exact Or.inr (Or.inl ho.symm)
      | readImmutable i =>
        refine ⟨fun o ho => ?_, trivial⟩
        simp [goProg] at ho
    have all : ∀ (cs : List ApiCall) (Q : OnceId → Prop),
        okEvs (goProg curveInit derive init threads) none Q (cs.flatMap ApiCall.evs) := by
      intro cs
      induction cs with
      | nil => intro Q; trivial
      | cons c cs ih =>
        intro Q
        rw [List.flatMap_cons]
        exact okEvs_append (call c Q) ih
    exact all cs _
  · intro o
    by_cases h0 : o = 0
    · subst h0
      exact ⟨⟨0, rfl, rfl⟩, trivial⟩
    · by_cases h1 : o = 1
      · subst h1
        refine ⟨fun o ho => ?_, fun o ho => ?_, ⟨1, rfl, rfl⟩, trivial⟩
        · simp only [goProg] at ho
          injection ho with ho
          exact Or.inr (Or.inl ho.symm)
        · simp [goProg] at ho
      · simp only [goProg, h0, h1, if_false]
        trivial

/-- the sequentially initialised memory of the skeleton -/
def goFin (curveInit : Val) (derive : List Val → Val) (init : List (Loc × Val)) : Loc → Val :=
  fun l =>
    if l = 0 then curveInit
    else if l = 1 then derive [(goProg curveInit derive init []).mem0 2, curveInit]
    else (goProg curveInit derive init []).mem0 l

theorem goProg_consistent (curveInit : Val) (derive : List Val → Val) (init : List (Loc × Val))
    (threads : List (List ApiCall)) :
    Consistent (goProg curveInit derive init threads) (goFin curveInit derive init) := by
  refine ⟨?_, ?_⟩
  · intro l hl
    by_cases h0 : l = 0
    · subst h0; simp [goProg] at hl
    · by_cases h1 : l = 1
      · subst h1; simp [goProg] at hl
      · simp only [goFin, h0, h1, if_false]
        rfl
  · intro o l hl
    by_cases h0 : l = 0
    · subst h0
      simp only [goProg] at hl
      injection hl with hl
      subst hl
      simp [goProg, seqEvs, goFin, upd]
    · by_cases h1 : l = 1
      · subst h1
        simp only [goProg] at hl
        injection hl with hl
        subst hl
        simp [goProg, seqEvs, goFin, upd, Prog.mem0]
      · simp [goProg, h0, h1] at hl

/-- **The skeleton is safe for every number of goroutines, every sequence of read-only calls per
goroutine and every schedule**: no data race; `initS256` and the public-key computation each run
at most once; every read of the curve outside `initS256` sees the initialised curve, every read of
`k.pubKey` outside the memoising closure sees the one derived public key, every read of immutable
state sees its pre-spawn value. -/
theorem go_skeleton_safe (curveInit : Val) (derive : List Val → Val) (init : List (Loc × Val))
    (threads : List (List ApiCall)) (sched : List Tid) :
    let P := goProg curveInit derive init threads
    ¬ DataRace (trace P sched) ∧
    beginCount 0 (trace P sched) ≤ 1 ∧ beginCount 1 (trace P sched) ≤ 1 ∧
    (∀ s ∈ trace P sched, ∀ v, s.act = .rd 0 v none → v = curveInit) ∧
    (∀ s ∈ trace P sched, ∀ v, s.act = .rd 0 v (some 1) → v = curveInit) ∧
    (∀ s ∈ trace P sched, ∀ v, s.act = .rd 1 v none →
        v = derive [P.mem0 2, curveInit]) ∧
    (∀ s ∈ trace P sched, ∀ i v own, s.act = .rd (i + 2) v own → v = P.mem0 (i + 2)) := by
  intro P
  obtain ⟨hr, hb, hv⟩ := once_discipline_race_free P (goProg_wf curveInit derive init threads) sched
  have hv' := hv (goFin curveInit derive init) (goProg_consistent curveInit derive init threads)
  refine ⟨hr, hb 0, hb 1, ?_, ?_, ?_, ?_⟩
  · intro s hs v ha
    have := hv' s hs 0 v none ha (by rintro ⟨o, ho, _⟩; cases ho)
    simpa [goFin] using this
  · intro s hs v ha
    have := hv' s hs 0 v (some 1) ha (by
      rintro ⟨o, ho, hg⟩
      injection ho with ho
      subst ho
      simp [P, goProg] at hg)
    simpa [goFin] using this
  · intro s hs v ha
    have := hv' s hs 1 v none ha (by rintro ⟨o, ho, _⟩; cases ho)
    simp only [goFin] at this
    exact this
  · intro s hs i v own ha
    have := hv' s hs (i + 2) v own ha (by
      rintro ⟨o, _, hg⟩
      simp [P, goProg] at hg)
    have h0 : i + 2 ≠ 0 := Nat.succ_ne_zero (i + 1)
    have h1 : i + 2 ≠ 1 := fun h => Nat.succ_ne_zero i (Nat.succ.inj h)
    simp only [goFin, h0, h1, if_false] at this
    exact this

/-! ### 5. Non-vacuity: three threads racing `Do` -/

/-- one guarded location (0, once 0) whose initialiser reads configuration (location 5, set to 41
before the threads start) and stores config+1; three threads all call `Do` and read -/
def ex3 : Prog where
  guard := fun l => if l = 0 then some 0 else none
  body := fun o => if o = 0 then [.read 5, .write 0 (fun rs => rs.headD 0 + 1)] else []
  init := [(5, 41)]
  threads := [[.doOnce 0, .read 0], [.doOnce 0, .read 0], [.doOnce 0, .read 0, .read 5]]

theorem ex3_wf : WellFormed ex3 := by
  refine WellFormed.ofBool (by decide) ?_
  intro o
  match o with
  | 0 => decide
  | n + 1 => rfl

def ex3Fin : Loc → Val := fun l => if l = 0 then 42 else if l = 5 then 41 else 0

theorem ex3_consistent : Consistent ex3 ex3Fin := by
  refine ⟨?_, ?_⟩
  · intro l hl
    by_cases h0 : l = 0
    · subst h0; simp [ex3] at hl
    · by_cases h5 : l = 5
      · subst h5; decide
      · simp [ex3Fin, h0, h5, Prog.mem0, ex3, upd]
  · intro o l hl
    by_cases h0 : l = 0
    · subst h0
      simp only [ex3] at hl
      injection hl with hl
      subst hl
      decide
    · simp [ex3, h0] at hl

/-- the hypotheses are satisfiable and the conclusion applies to every schedule of `ex3` -/
example (sched : List Tid) :
    ¬ DataRace (trace ex3 sched) ∧ beginCount 0 (trace ex3 sched) ≤ 1 ∧
    ∀ s ∈ trace ex3 sched, ∀ v, s.act = .rd 0 v none → v = 42 := by
  obtain ⟨hr, hb, hv⟩ := once_discipline_race_free ex3 ex3_wf sched
  refine ⟨hr, hb 0, ?_⟩
  intro s hs v ha
  exact hv ex3Fin ex3_consistent s hs 0 v none ha (by rintro ⟨o, ho, _⟩; cases ho)

/-- a schedule in which all three threads race the first `Do`: thread 1 wins, threads 0 and 2 are
blocked while the body runs (their scheduled turns are no-ops), then pass and read 42 -/
example :
    (trace ex3 [1, 0, 2, 1, 0, 1, 2, 1, 0, 2, 0, 1, 2, 2]).map (fun s => (s.tid, s.act)) =
      [(1, .onceBegin 0), (1, .rd 5 41 (some 0)), (1, .wr 0 42), (1, .onceEnd 0),
       (0, .oncePass 0), (2, .oncePass 0), (0, .rd 0 42 none), (1, .rd 0 42 none),
       (2, .rd 0 42 none), (2, .rd 5 41 none)] := by decide

/-! ### 6. The hypotheses matter: a read without `Do` races -/

/-- as `ex3`, but thread 1 reads the guarded location without calling `Do` first
(what `S256()` would be with `if secp256k1.P == nil { initAll() }` instead of `initonce.Do`) -/
def exBad : Prog where
  guard := fun l => if l = 0 then some 0 else none
  body := fun o => if o = 0 then [.write 0 (fun _ => 7)] else []
  init := []
  threads := [[.doOnce 0, .read 0], [.read 0]]

/-- hypothesis (b) fails for `exBad` … -/
theorem exBad_not_wf : ¬ WellFormed exBad := by
  intro h
  have := h.threads [.read 0] (List.mem_cons_of_mem _ List.mem_cons_self)
  obtain ⟨h1, _⟩ := this
  rcases h1 0 rfl with h2 | h2
  · cases h2
  · exact h2

/-- … and there is an interleaving with a data race: thread 0 starts the body and writes,
thread 1 reads, nothing orders the two. -/
theorem exBad_races : DataRace (trace exBad [0, 0, 1]) := by
  have htr : trace exBad [0, 0, 1] =
      [⟨0, 0, .onceBegin 0⟩, ⟨1, 0, .wr 0 7⟩, ⟨2, 1, .rd 0 7 none⟩] := by decide
  rw [htr]
  refine ⟨⟨1, 0, .wr 0 7⟩, ⟨2, 1, .rd 0 7 none⟩, by decide, by decide, by decide,
    ⟨0, rfl, rfl, Or.inl rfl⟩, ?_, ?_⟩
  · intro h
    rcases h.cross with h1 | ⟨e, he, o, hact⟩
    · exact absurd h1 (by decide)
    · simp only [List.mem_cons, List.not_mem_nil, or_false] at he
      rcases he with rfl | rfl | rfl <;> cases hact
  · intro h
    exact absurd h.seq_lt (by decide)

/-- and the unguarded read is not deterministic: alone, or scheduled first, it sees 0; after the
write it sees 7 — "what it would return alone" fails without the discipline -/
example : (trace exBad [1]).map (·.act) = [.rd 0 0 none] ∧
    (trace exBad [0, 0, 1]).map (·.act) = [.onceBegin 0, .wr 0 7, .rd 0 7 none] := by decide

end GoBk.Props.C17

#print axioms GoBk.Props.C17.once_discipline_race_free
#print axioms GoBk.Props.C17.trace_numbered
#print axioms GoBk.Props.C17.reads_independent_of_threads_and_schedule
#print axioms GoBk.Props.C17.discipline_holds
#print axioms GoBk.Props.C17.names_fixed
#print axioms GoBk.Props.C17.bridge_holds
#print axioms GoBk.Props.C17.hypA_holds
#print axioms GoBk.Props.C17.hypB_holds
#print axioms GoBk.Props.C17.hypC_holds
#print axioms GoBk.Props.C17.secp256k1_only_via_S256
#print axioms GoBk.Props.C17.goProg_wf
#print axioms GoBk.Props.C17.goProg_consistent
#print axioms GoBk.Props.C17.go_skeleton_safe
#print axioms GoBk.Props.C17.ex3_wf
#print axioms GoBk.Props.C17.ex3_consistent
#print axioms GoBk.Props.C17.exBad_not_wf
#print axioms GoBk.Props.C17.exBad_races
