import GoBk.Props.C06
/-!
# C06, continued: consequences of the exact acceptance sets

* every string the strict parser accepts, the lax parser accepts with the same integers ("the same tag/length structure
  … with the rules relaxed");
* the strict encoding is non-malleable: two accepted strings denoting the same pair agree on the whole parsed prefix;
* `Serialise` is idempotent through the parser: re-serialising what `ParseDERSignature` returns for a `Serialise`
  output gives the same bytes (the low-S form is a fixed point).
-/
namespace GoBk.Props.C06
open GoBk Bytes Der

/-- strict acceptance implies lax acceptance, with the same pair -/
theorem parseLax_of_parseDER (b : Bytes) (r s : Nat) (h : Der.parseDER b = some (r, s)) :
    Der.parseLax b = some (r, s) := by
  have h' : Der.parseSig b true = some (r, s) := h
  obtain ⟨rb, sb, h1, h2, h3, h4, h5, _, h7⟩ := (parseSig_iff b true r s).mp h'
  exact (parseSig_iff b false r s).mpr ⟨rb, sb, h1, h2, h3, h4, h5, (by intro hd; exact absurd hd (by decide)), h7⟩

/-- non-malleability of the strict form: the parsed prefix is determined by the pair -/
theorem parseDER_prefix_unique (b b' : Bytes) (r s : Nat)
    (h : Der.parseDER b = some (r, s)) (h' : Der.parseDER b' = some (r, s)) :
    b.take ((b.getD 1 0).toNat + 2) = b'.take ((b'.getD 1 0).toNat + 2) := by
  rw [((parseDER_iff b r s).mp h).2.1, ((parseDER_iff b' r s).mp h').2.1]

/-- and conversely the pair is determined by the parsed prefix -/
theorem parseDER_pair_unique (b b' : Bytes) (p p' : Nat × Nat)
    (h : Der.parseDER b = some p) (h' : Der.parseDER b' = some p')
    (e : b.take ((b.getD 1 0).toNat + 2) = b'.take ((b'.getD 1 0).toNat + 2)) : p = p' := by
  obtain ⟨r, s⟩ := p; obtain ⟨r', s'⟩ := p'
  obtain ⟨_, e1, _, a1, a2, a3, a4⟩ := (parseDER_iff b r s).mp h
  obtain ⟨_, e2, _, c1, c2, c3, c4⟩ := (parseDER_iff b' r' s').mp h'
  obtain ⟨rfl, rfl⟩ := der_inj r s r' s' ⟨a1, a2⟩ ⟨a3, a4⟩ ⟨c1, c2⟩ ⟨c3, c4⟩ (by rw [← e1, ← e2, e])
  rfl

/-- the low-S form is a fixed point of `Serialise ∘ ParseDERSignature` -/
theorem serialise_parse_serialise (r s : Nat) (hr : 1 ≤ r ∧ r < N) (hs : 1 ≤ s ∧ s < N) :
    ∃ s', Der.parseDER (Der.serialise r s) = some (r, s') ∧ 1 ≤ s' ∧ s' < N ∧
      Der.serialise r s' = Der.serialise r s := by
  refine ⟨min s (N - s), parseDER_serialise r s hr hs, ?_, ?_, ?_⟩
  · rw [Nat.min_def]; split <;> omega
  · rw [Nat.min_def]; split <;> omega
  · have hs' : 1 ≤ min s (N - s) ∧ min s (N - s) < N := by rw [Nat.min_def]; split <;> omega
    rw [serialise_spec r s hr hs, serialise_spec r _ hr hs']
    congr 1
    simp only [Nat.min_def]; split <;> first | omega | (split <;> omega)

example : Der.parseLax (Spec.der 5 128) = some (5, 128) :=
  parseLax_of_parseDER _ 5 128 (by simpa using parseDER_der_append 5 128 (by decide) (by decide) [])

end GoBk.Props.C06

#print axioms GoBk.Props.C06.parseLax_of_parseDER
#print axioms GoBk.Props.C06.parseDER_prefix_unique
#print axioms GoBk.Props.C06.parseDER_pair_unique
#print axioms GoBk.Props.C06.serialise_parse_serialise
