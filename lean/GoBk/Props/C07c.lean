import GoBk.Props.C07b
/-!
# C07, continued: the word list identifies indices

`wordAt` is injective on [0, 2048) (corollary of `english_nodup`), and the binary search inverts it: the index that
`MnemonicToSeed` finds for the i-th list word is i.  Together with `mnemonic_words` this is what makes a sentence
determine its 11-bit groups.
-/
namespace GoBk.Props.C07
open GoBk Bytes Bip39

private theorem wordAt_eq (i : Nat) (hi : i < Gen.english.length) : wordAt i = Gen.english[i] := by
  simp [wordAt, List.getD_eq_getElem?_getD, hi]

/-- two positions of the list never hold the same word -/
theorem wordAt_injective (i j : Nat) (hi : i < 2048) (hj : j < 2048) (h : wordAt i = wordAt j) : i = j := by
  have hl := english_length
  rw [wordAt_eq i (by omega), wordAt_eq j (by omega)] at h
  have hp := List.pairwise_iff_getElem.mp english_nodup
  rcases Nat.lt_trichotomy i j with hij | hij | hij
  · exact absurd h (hp i j (by omega) (by omega) hij)
  · exact hij
  · exact absurd h.symm (hp j i (by omega) (by omega) hij)

/-- every list position holds a list word -/
theorem wordAt_mem (i : Nat) (hi : i < 2048) : wordAt i ∈ Gen.english := by
  have hl := english_length
  rw [wordAt_eq i (by omega)]
  exact List.getElem_mem _

/-- the binary search of `MnemonicToSeed` inverts `wordAt` -/
theorem searchStrings_wordAt (i : Nat) (hi : i < 2048) : searchStrings (wordAt i) = i := by
  obtain ⟨hlt, he⟩ := (member_iff (wordAt i)).mpr (wordAt_mem i hi)
  exact wordAt_injective _ _ hlt hi he

end GoBk.Props.C07

#print axioms GoBk.Props.C07.wordAt_injective
#print axioms GoBk.Props.C07.wordAt_mem
#print axioms GoBk.Props.C07.searchStrings_wordAt
