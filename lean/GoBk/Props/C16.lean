import GoBk.Proofs.HeapLemmas
import GoBk.Model.RealPrims
/-
  C16 — "No exported function of any package modifies memory reachable from its arguments: byte
  slices are left unchanged over their whole backing array, including spare capacity beyond their
  length, and big integers, keys and signatures passed in keep their values.  Calling a deterministic
  function again with the same arguments returns the same result."

  Model: `GoBk/Model/Heap.lean` (Go slice semantics: in-place `append` into spare capacity, fresh
  arrays for `make`) and `GoBk/Model/HeapFns.lean` (statement-by-statement heap-level transcriptions
  of the functions' argument handling).  Tie to the source: correspondence ops `mem.*`
  (`harness/exec_mem.go` ⟷ `Driver/MemOps.lean`), which compare the WHOLE backing array of a
  canary-framed window after the call, plus the reflection sweep `harness mem` over every exported
  function (which also tracks `*big.Int`, key and signature arguments).

  `…_frame`: every array that existed before the call is, after the call, equal to what it was — over
  its whole length, hence including all spare capacity behind (and the bytes in front of) any slice
  of it.  The statements need no well-formedness hypothesis: they hold for arbitrary slice headers.
  (`Slice.WF` is what the value/determinism theorems assume.)
  Big integers, keys and signatures are VALUES (`Nat`, `Pt`) in these models, not heap objects: that
  they are not mutated is covered on the implementation side by `harness mem` only.

  `…_old_not_frame`: the three pre-fix variants do change a caller's array (concrete witnesses).
  `…_deterministic` / `…_repeatable`: results depend only on the argument VALUES, and a second call
  on the same arguments in the heap left by the first call returns the same result.
-/
namespace GoBk.Props.C16
open GoBk Bytes Heap HeapFns Spec

/-! ### generic facts about the heap operations -/

/-- `make` leaves every existing array alone -/
theorem alloc_preserves (h : Heap) (len cap : Nat) :
    ∀ a, a < h.size → (h.alloc len cap).heap.arrays[a]? = h.arrays[a]? :=
  fun a ha => alloc_other h len cap a ha

/-- `append(s, bs...)` changes no array other than `s`'s (and that one only when it fits) -/
theorem append_changes_only_its_array (h : Heap) (s : Slice) (bs : Bytes) :
    ∀ a, a < h.size → a ≠ s.arr → (h.append s bs).heap.arrays[a]? = h.arrays[a]? :=
  fun a ha hne => append_other h s bs a ha hne

/-- `append` to a slice without spare capacity changes no existing array at all -/
theorem append_full_preserves (h : Heap) (s : Slice) (bs : Bytes) (hfull : s.cap ≤ s.len) :
    ∀ a, a < h.size → (h.append s bs).heap.arrays[a]? = h.arrays[a]? :=
  ((Ext.refl h).append_full hfull bs).same

/-- `copy(dst, src)` changes no array other than `dst`'s -/
theorem copyInto_changes_only_its_array (h : Heap) (dst : Slice) (src : Bytes) :
    ∀ a, a ≠ dst.arr → (h.copyInto dst src).heap.arrays[a]? = h.arrays[a]? :=
  fun a hne => copyInto_other h dst src a hne

/-- `s[i] = v` changes no array other than `s`'s -/
theorem store_changes_only_its_array (h : Heap) (s : Slice) (i : Nat) (v : UInt8) :
    ∀ a, a ≠ s.arr → (h.store s i v).arrays[a]? = h.arrays[a]? :=
  fun a hne => store_other h s i v a hne

/-- `XORKeyStream(dst, src)` / `CryptBlocks(dst, src)` change no array other than `dst`'s -/
theorem xorInto_changes_only_its_array (h : Heap) (dst : Slice) (src ks : Bytes) :
    ∀ a, a ≠ dst.arr → (h.xorInto dst src ks).arrays[a]? = h.arrays[a]? :=
  fun a hne => xorInto_other h dst src ks a hne

theorem cryptBlocks_changes_only_its_array (h : Heap) (dst : Slice) (out : Bytes) :
    ∀ a, a ≠ dst.arr → (h.cryptBlocks dst out).arrays[a]? = h.arrays[a]? :=
  fun a hne => cryptBlocks_other h dst out a hne

/-- a write through a slice whose array was allocated after the snapshot `h0` (index `≥ h0.size`)
cannot touch an array of `h0`: stated for `append`, the operation that may write in place -/
theorem append_fresh_preserves (h0 h : Heap) (e : Ext h0.size h0 h) (s : Slice) (hfresh : h0.size ≤ s.arr)
    (bs : Bytes) : ∀ a, a < h0.size → (h.append s bs).heap.arrays[a]? = h0.arrays[a]? :=
  (e.append hfresh bs).same

/-! ### frame theorems: the CURRENT code changes no pre-existing array -/

/-- bec/ciphering.go `addPKCSPadding` -/
theorem addPKCSPadding_frame (h : Heap) (src : Slice) :
    ∀ a, a < h.size → (addPKCSPadding h src).heap.arrays[a]? = h.arrays[a]? :=
  (addPKCSPadding_ext (Ext.refl h) src).same

/-- bec/ciphering.go `Encrypt` -/
theorem encrypt_frame (pr : Prims) (h : Heap) (pub : Pt) (inp : Slice) (t : Rng.Tape) :
    ∀ a, a < h.size → (encrypt pr h pub inp t).heap.arrays[a]? = h.arrays[a]? :=
  (encrypt_ext (Ext.refl h) pr pub inp t).same

/-- bec/ciphering.go `Decrypt` (the result is a sub-slice of the function's own `plaintext`) -/
theorem decrypt_frame (pr : Prims) (h : Heap) (d : Nat) (inp : Slice) :
    ∀ a, a < h.size → (decrypt pr h d inp).heap.arrays[a]? = h.arrays[a]? :=
  (decrypt_ext (Ext.refl h) pr d inp).same

/-- bip39/bip39.go `Mnemonic` -/
theorem mnemonic_frame (pr : Prims) (h : Heap) (entropy : Slice) (pass : Bytes) :
    ∀ a, a < h.size → (mnemonic pr h entropy pass).heap.arrays[a]? = h.arrays[a]? :=
  (mnemonic_ext (Ext.refl h) pr entropy pass).same

/-- crypto/encryption.go `Decrypt` -/
theorem cryptoDecrypt_frame (pr : Prims) (h : Heap) (key : Bytes) (ct : Slice) :
    ∀ a, a < h.size → (cryptoDecrypt pr h key ct).heap.arrays[a]? = h.arrays[a]? :=
  (cryptoDecrypt_ext (Ext.refl h) pr key ct).same

/-- crypto/encryption.go `Encrypt` -/
theorem cryptoEncrypt_frame (pr : Prims) (h : Heap) (key : Bytes) (text : Slice) (t : Rng.Tape) :
    ∀ a, a < h.size → (cryptoEncrypt pr h key text t).heap.arrays[a]? = h.arrays[a]? :=
  (cryptoEncrypt_ext (Ext.refl h) pr key text t).same

/-- base58/base58check.go `CheckEncode` -/
theorem checkEncode_frame (pr : Prims) (h : Heap) (input : Slice) (version : UInt8) :
    ∀ a, a < h.size → (checkEncode pr h input version).heap.arrays[a]? = h.arrays[a]? :=
  (checkEncode_ext (Ext.refl h) pr input version).same

/-- base58/base58check.go `CheckDecode` (`append(result, payload...)` on the nil slice) -/
theorem checkDecode_frame (pr : Prims) (h : Heap) (input : Bytes) :
    ∀ a, a < h.size → (checkDecode pr h input).heap.arrays[a]? = h.arrays[a]? :=
  (checkDecode_ext (Ext.refl h) pr input).same

/-- `paddedAppend(size, dst, src)` changes no array other than `dst`'s … -/
theorem paddedAppend_frame_other (h : Heap) (size : Nat) (dst src : Slice) :
    ∀ a, a < h.size → a ≠ dst.arr → (paddedAppend h size dst src).heap.arrays[a]? = h.arrays[a]? :=
  fun a ha hne => paddedAppend_other h size dst src a ha hne

/-- … and none of the snapshot `h0` at all when `dst` was allocated after it (all call sites) -/
theorem paddedAppend_frame (h0 h : Heap) (e : Ext h0.size h0 h) (size : Nat) (dst src : Slice)
    (hfresh : h0.size ≤ dst.arr) :
    ∀ a, a < h0.size → (paddedAppend h size dst src).heap.arrays[a]? = h0.arrays[a]? :=
  (paddedAppend_ext e hfresh size src).same

/-- bec/pubkey.go `SerialiseUncompressed`, `SerialiseCompressed`, `SerialiseHybrid` -/
theorem serialiseUncompressed_frame (h : Heap) (q : Pt) :
    ∀ a, a < h.size → (serialiseUncompressed h q).heap.arrays[a]? = h.arrays[a]? :=
  (serialiseUncompressed_ext (Ext.refl h) q).same

theorem serialiseCompressed_frame (h : Heap) (q : Pt) :
    ∀ a, a < h.size → (serialiseCompressed h q).heap.arrays[a]? = h.arrays[a]? :=
  (serialiseCompressed_ext (Ext.refl h) q).1.same

theorem serialiseHybrid_frame (h : Heap) (q : Pt) :
    ∀ a, a < h.size → (serialiseHybrid h q).heap.arrays[a]? = h.arrays[a]? :=
  (serialiseHybrid_ext (Ext.refl h) q).same

/-- bec/privkey.go `PrivateKey.Serialise` -/
theorem privSerialise_frame (h : Heap) (d : Nat) :
    ∀ a, a < h.size → (privSerialise h d).heap.arrays[a]? = h.arrays[a]? :=
  (privSerialise_ext (Ext.refl h) d).same

/-- wif/wif.go `WIF.String` -/
theorem wifString_frame (pr : Prims) (h : Heap) (d : Nat) (compress : Bool) (netID : UInt8) :
    ∀ a, a < h.size → (wifString pr h d compress netID).heap.arrays[a]? = h.arrays[a]? :=
  (wifString_ext (Ext.refl h) pr d compress netID).same

/-- bip32/extendedkey.go `ExtendedKey.String`: the key's four slices are only read -/
theorem xkeyString_frame (pr : Prims) (h : Heap) (k : XKeyH) :
    ∀ a, a < h.size → (xkeyString pr h k).heap.arrays[a]? = h.arrays[a]? :=
  (xkeyString_ext (Ext.refl h) pr k).same

/-- bip32/extendedkey.go `ExtendedKey.Address` -/
theorem xkeyAddress_frame (pr : Prims) (h : Heap) (k : XKeyH) (addrID : UInt8) :
    ∀ a, a < h.size → (xkeyAddress pr h k addrID).heap.arrays[a]? = h.arrays[a]? :=
  (xkeyAddress_ext (Ext.refl h) pr k addrID).same

/-- bip32/extendedkey.go `ExtendedKey.Child`: `copy(data[offset:], k.key)` / `copy(data, pubKeyBytes)`
write into the function's own `data` -/
theorem childData_frame (h : Heap) (k : XKeyH) (i : Nat) :
    ∀ a, a < h.size → (childData h k i).heap.arrays[a]? = h.arrays[a]? :=
  (childData_ext (Ext.refl h) k i).same

theorem childHmac_frame (pr : Prims) (h : Heap) (k : XKeyH) (i : Nat) :
    ∀ a, a < h.size → (childHmac pr h k i).heap.arrays[a]? = h.arrays[a]? :=
  (childHmac_ext (Ext.refl h) pr k i).same

/-- bec/signature.go `Signature.Serialise` -/
theorem sigSerialise_frame (h : Heap) (r s : Nat) :
    ∀ a, a < h.size → (sigSerialise h r s).heap.arrays[a]? = h.arrays[a]? :=
  (sigSerialise_ext (Ext.refl h) r s).same

/-- bec/signature.go `SignCompact` -/
theorem signCompact_frame (pr : Prims) (fuel : Nat) (h : Heap) (d : Nat) (pub : Pt) (hash : Slice)
    (compressed : Bool) :
    ∀ a, a < h.size → (signCompact pr fuel h d pub hash compressed).heap.arrays[a]? = h.arrays[a]? :=
  (signCompact_ext (Ext.refl h) pr fuel d pub hash compressed).same

/-- bec/signature.go `hashToInt`: the re-slice `hash[:32]` changes a local header only -/
theorem hashToInt_frame (h : Heap) (hash : Slice) : (hashToInt h hash).heap = h := rfl

/-- bec/btcec.go `NAF` -/
theorem naf_frame (h : Heap) (k : Slice) :
    ∀ a, a < h.size → (naf h k).heap.arrays[a]? = h.arrays[a]? :=
  (naf_ext (Ext.refl h) k).same

/-- callees that only read their slice (`Sign`, `Verify`, `ParsePubKey`, `ParseSignature`,
`ScalarBaseMult`, `ScalarMult`, `PrivKeyFromBytes`, `NewMaster`, `base58.Encode`, `Hash160`,
`RecoverCompact` as modelled in `Driver/MemOps.lean`) -/
theorem readOnly_frame {α : Type} (f : Bytes → α) (h : Heap) (s : Slice) : (readOnly f h s).heap = h := rfl

/-! ### negative results: the three pre-fix variants change the caller's array -/

/-- a 3-byte plaintext with 20 bytes of spare capacity behind it -/
def padHeap : Heap := ⟨#[[0xA5, 0xA4, 1, 2, 3,
  0xA0, 0xA3, 0xA2, 0xAD, 0xAC, 0xAF, 0xAE, 0xA9, 0xA8, 0xAB, 0xAA, 0xB5, 0xB4, 0xB7, 0xB6, 0xB1, 0xB0, 0xB3, 0xB2, 0xBD]]⟩
def padSlice : Slice := ⟨0, 2, 3, 23⟩

/-- 16 bytes of entropy with 2 bytes of spare capacity -/
def entHeap : Heap := ⟨#[[0, 1, 2, 3, 4, 5, 6, 7, 8, 9, 10, 11, 12, 13, 14, 15, 0xB5, 0xB4]]⟩
def entSlice : Slice := ⟨0, 0, 16, 18⟩

/-- a 20-byte CFB ciphertext (iv ‖ 4 bytes) with 1 byte of spare capacity; AES-128 key -/
def cfbHeap : Heap := ⟨#[[0, 1, 2, 3, 4, 5, 6, 7, 8, 9, 10, 11, 12, 13, 14, 15, 0x41, 0x42, 0x43, 0x44, 0xB1]]⟩
def cfbSlice : Slice := ⟨0, 0, 20, 21⟩
def cfbKey : Bytes := [1, 2, 3, 4, 5, 6, 7, 8, 9, 10, 11, 12, 13, 14, 15, 16]

/-- before d6fe302: `append(src, padtext...)` wrote the padding behind the caller's plaintext -/
theorem addPKCSPadding_old_not_frame :
    ∃ (h : Heap) (src : Slice), src.WF h ∧ 0 < src.spare ∧
      ∃ a, a < h.size ∧ (addPKCSPadding_old h src).heap.arrays[a]? ≠ h.arrays[a]? :=
  ⟨padHeap, padSlice, by decide, by decide, 0, by decide, by decide⟩

/-- and therefore so did the pre-fix `Encrypt` (the padding step is its first heap action) -/
theorem encrypt_old_not_frame :
    ∃ (h : Heap) (inp : Slice), inp.WF h ∧ 0 < inp.spare ∧
      ∃ a, a < h.size ∧ (addPKCSPadding_old h inp).heap.arrays[a]? ≠ h.arrays[a]? :=
  addPKCSPadding_old_not_frame

/-- before 412d0f6: `append(entropy, checksum)` wrote the checksum byte behind the caller's entropy
(with the real SHA-256) -/
theorem mnemonic_old_not_frame :
    ∃ (h : Heap) (entropy : Slice) (pass : Bytes), entropy.WF h ∧ 0 < entropy.spare ∧
      ∃ a, a < h.size ∧ (mnemonic_old realPrims h entropy pass).heap.arrays[a]? ≠ h.arrays[a]? :=
  ⟨entHeap, entSlice, [], by decide, by decide, 0, by decide, by decide +kernel⟩

/-- the same for EVERY hash function: some heap exposes the write -/
theorem mnemonic_old_not_frame_any_hash (pr : Prims) :
    ∃ (h : Heap) (e : Slice), e.WF h ∧ 0 < e.spare ∧
      (mnemonicEntropy_old pr h e).heap.arrays[e.arr]? ≠ h.arrays[e.arr]? :=
  mnemonicEntropy_old_not_frame_all pr

/-- before 2a64865: `XORKeyStream(text, text)` decrypted in place over the caller's ciphertext
(with the real AES-CFB) -/
theorem cryptoDecrypt_old_not_frame :
    ∃ (h : Heap) (key : Bytes) (ct : Slice), ct.WF h ∧
      ∃ a, a < h.size ∧ (cryptoDecrypt_old realPrims h key ct).heap.arrays[a]? ≠ h.arrays[a]? :=
  ⟨cfbHeap, cfbKey, cfbSlice, by decide, 0, by decide, by decide +kernel⟩

/-- in general: the caller's array changes whenever CFB decryption is not the identity on the
ciphertext body -/
theorem cryptoDecrypt_old_not_frame_general (pr : Prims)
    (hlen : ∀ k iv d, (pr.cfbDec k iv d).length = d.length)
    (h : Heap) (key : Bytes) (ct : Slice) (wf : ct.WF h) (h16 : 16 ≤ ct.len)
    (hne : pr.cfbDec key (h.read (reslice ct 0 16)) (h.read (reslice ct 16 ct.len)) ≠
      h.read (reslice ct 16 ct.len)) :
    (cryptoDecrypt_old pr h key ct).heap.arrays[ct.arr]? ≠ h.arrays[ct.arr]? :=
  cryptoDecrypt_old_not_frame_all pr hlen h key ct wf h16 hne

/-- what exactly the old code wrote where -/
theorem addPKCSPadding_old_effect (h : Heap) (src : Slice) (wf : src.WF h)
    (hsp : 16 - src.len % 16 ≤ src.cap - src.len) :
    (addPKCSPadding_old h src).heap.get src.arr =
      writeAt (h.get src.arr) (src.off + src.len)
        (List.replicate (16 - src.len % 16) (UInt8.ofNat (16 - src.len % 16))) :=
  addPKCSPadding_old_writes h src wf hsp

/-! ### determinism: results are functions of the argument VALUES; a repeated call agrees -/

/-- the heap-level padding computes the value-level padding of the bytes the slice denotes -/
theorem addPKCSPadding_denotes (h : Heap) (src : Slice) (wf : src.WF h) :
    (addPKCSPadding h src).heap.read (addPKCSPadding h src).val = Ecies.addPKCSPadding (h.read src) :=
  addPKCSPadding_value h src wf

theorem addPKCSPadding_deterministic (h1 h2 : Heap) (s1 s2 : Slice) (w1 : s1.WF h1) (w2 : s2.WF h2)
    (hv : h1.read s1 = h2.read s2) :
    (addPKCSPadding h1 s1).heap.read (addPKCSPadding h1 s1).val =
      (addPKCSPadding h2 s2).heap.read (addPKCSPadding h2 s2).val := by
  rw [addPKCSPadding_value h1 s1 w1, addPKCSPadding_value h2 s2 w2, hv]

/-- a second call on the same slice, in the heap the first call left behind, gives the same bytes -/
theorem addPKCSPadding_repeatable (h : Heap) (src : Slice) (wf : src.WF h) :
    (addPKCSPadding (addPKCSPadding h src).heap src).heap.read
        (addPKCSPadding (addPKCSPadding h src).heap src).val =
      (addPKCSPadding h src).heap.read (addPKCSPadding h src).val := by
  have e := addPKCSPadding_ext (Ext.refl h) src
  exact addPKCSPadding_deterministic _ _ _ _ (e.WF src wf) wf (e.read src wf.1)

/-- `Mnemonic` at heap level IS the value-level `Bip39.mnemonic` of the entropy bytes -/
theorem mnemonic_denotes (pr : Prims) (h : Heap) (entropy : Slice) (pass : Bytes) (wf : entropy.WF h) :
    (mnemonic pr h entropy pass).val = Bip39.mnemonic pr (h.read entropy) pass :=
  mnemonic_value pr h entropy pass wf

theorem mnemonic_deterministic (pr : Prims) (h1 h2 : Heap) (e1 e2 : Slice) (pass : Bytes)
    (w1 : e1.WF h1) (w2 : e2.WF h2) (hv : h1.read e1 = h2.read e2) :
    (mnemonic pr h1 e1 pass).val = (mnemonic pr h2 e2 pass).val := by
  rw [mnemonic_value pr h1 e1 pass w1, mnemonic_value pr h2 e2 pass w2, hv]

theorem mnemonic_repeatable (pr : Prims) (h : Heap) (entropy : Slice) (pass : Bytes) (wf : entropy.WF h) :
    (mnemonic pr (mnemonic pr h entropy pass).heap entropy pass).val = (mnemonic pr h entropy pass).val := by
  have e := mnemonic_ext (Ext.refl h) pr entropy pass
  exact mnemonic_deterministic pr _ _ _ _ pass (e.WF entropy wf) wf (e.read entropy wf.1)

/-- `crypto.Decrypt` at heap level IS the value-level `Ecies.cfbDecrypt` (for a length-preserving
stream cipher, which CFB is) -/
theorem cryptoDecrypt_denotes (pr : Prims) (hlen : ∀ k iv d, (pr.cfbDec k iv d).length = d.length)
    (h : Heap) (key : Bytes) (ct : Slice) (wf : ct.WF h) :
    (cryptoDecrypt pr h key ct).val = Ecies.cfbDecrypt pr key (h.read ct) :=
  cryptoDecrypt_value pr hlen h key ct wf

theorem cryptoDecrypt_deterministic (pr : Prims) (hlen : ∀ k iv d, (pr.cfbDec k iv d).length = d.length)
    (h1 h2 : Heap) (key : Bytes) (c1 c2 : Slice) (w1 : c1.WF h1) (w2 : c2.WF h2)
    (hv : h1.read c1 = h2.read c2) :
    (cryptoDecrypt pr h1 key c1).val = (cryptoDecrypt pr h2 key c2).val := by
  rw [cryptoDecrypt_value pr hlen h1 key c1 w1, cryptoDecrypt_value pr hlen h2 key c2 w2, hv]

/-- the property the pre-fix code violated ("a second Decrypt of the same buffer failed") -/
theorem cryptoDecrypt_repeatable (pr : Prims) (hlen : ∀ k iv d, (pr.cfbDec k iv d).length = d.length)
    (h : Heap) (key : Bytes) (ct : Slice) (wf : ct.WF h) :
    (cryptoDecrypt pr (cryptoDecrypt pr h key ct).heap key ct).val = (cryptoDecrypt pr h key ct).val := by
  have e := cryptoDecrypt_ext (Ext.refl h) pr key ct
  exact cryptoDecrypt_deterministic pr hlen _ _ key _ _ (e.WF ct wf) wf (e.read ct wf.1)

/-- `CheckEncode` at heap level IS the value-level `Base58.checkEncode` -/
theorem checkEncode_denotes (pr : Prims) (h : Heap) (input : Slice) (v : UInt8) (wf : input.WF h) :
    (checkEncode pr h input v).val = Base58.checkEncode pr (h.read input) v :=
  checkEncode_value pr h input v wf

theorem checkEncode_deterministic (pr : Prims) (h1 h2 : Heap) (i1 i2 : Slice) (v : UInt8)
    (w1 : i1.WF h1) (w2 : i2.WF h2) (hv : h1.read i1 = h2.read i2) :
    (checkEncode pr h1 i1 v).val = (checkEncode pr h2 i2 v).val := by
  rw [checkEncode_value pr h1 i1 v w1, checkEncode_value pr h2 i2 v w2, hv]

theorem checkEncode_repeatable (pr : Prims) (h : Heap) (input : Slice) (v : UInt8) (wf : input.WF h) :
    (checkEncode pr (checkEncode pr h input v).heap input v).val = (checkEncode pr h input v).val := by
  have e := checkEncode_ext (Ext.refl h) pr input v
  exact checkEncode_deterministic pr _ _ _ _ v (e.WF input wf) wf (e.read input wf.1)

/-- `paddedAppend` denotes `dst ‖ padLeft size src` -/
theorem paddedAppend_denotes (h : Heap) (size : Nat) (dst src : Slice) (sp : Sep h src dst) :
    (paddedAppend h size dst src).heap.read (paddedAppend h size dst src).val =
      h.read dst ++ padLeft size (h.read src) :=
  paddedAppend_value h size dst src sp

/-- `PrivateKey.Serialise` returns the same 32 bytes in every heap -/
theorem privSerialise_deterministic (h1 h2 : Heap) (d : Nat) :
    (privSerialise h1 d).heap.read (privSerialise h1 d).val =
      (privSerialise h2 d).heap.read (privSerialise h2 d).val := by
  rw [privSerialise_value h1 d, privSerialise_value h2 d]

/-- read-only callees: the result depends on the bytes only -/
theorem readOnly_deterministic {α : Type} (f : Bytes → α) (h1 h2 : Heap) (s1 s2 : Slice)
    (hv : h1.read s1 = h2.read s2) : (readOnly f h1 s1).val = (readOnly f h2 s2).val :=
  congrArg f hv

/-! ### non-vacuity: every theorem instantiated on a slice WITH spare capacity -/

example : padSlice.WF padHeap ∧ padSlice.spare = 20 := by decide
example : entSlice.WF entHeap ∧ entSlice.spare = 2 := by decide
example : cfbSlice.WF cfbHeap ∧ cfbSlice.spare = 1 := by decide

example : (padHeap.alloc 3 9).heap.arrays[0]? = padHeap.arrays[0]? := alloc_preserves padHeap 3 9 0 (by decide)
example : (padHeap.append ⟨1, 0, 0, 4⟩ [7]).heap.arrays[0]? = padHeap.arrays[0]? :=
  append_changes_only_its_array padHeap ⟨1, 0, 0, 4⟩ [7] 0 (by decide) (by decide)
example : (padHeap.append ⟨0, 2, 3, 3⟩ [7]).heap.arrays[0]? = padHeap.arrays[0]? :=
  append_full_preserves padHeap ⟨0, 2, 3, 3⟩ [7] (by decide) 0 (by decide)
-- … whereas the same append WITH spare capacity does change array 0:
example : (padHeap.append padSlice [7]).heap.arrays[0]? ≠ padHeap.arrays[0]? := by decide
example : (padHeap.copyInto ⟨1, 0, 2, 2⟩ [7, 7]).heap.arrays[0]? = padHeap.arrays[0]? :=
  copyInto_changes_only_its_array padHeap ⟨1, 0, 2, 2⟩ [7, 7] 0 (by decide)
example : (padHeap.store ⟨1, 0, 2, 2⟩ 0 7).arrays[0]? = padHeap.arrays[0]? :=
  store_changes_only_its_array padHeap ⟨1, 0, 2, 2⟩ 0 7 0 (by decide)
example : (padHeap.xorInto ⟨1, 0, 2, 2⟩ [1] [2]).arrays[0]? = padHeap.arrays[0]? :=
  xorInto_changes_only_its_array padHeap ⟨1, 0, 2, 2⟩ [1] [2] 0 (by decide)
example : (padHeap.cryptBlocks ⟨1, 0, 2, 2⟩ [1]).arrays[0]? = padHeap.arrays[0]? :=
  cryptBlocks_changes_only_its_array padHeap ⟨1, 0, 2, 2⟩ [1] 0 (by decide)
example : ((padHeap.alloc 0 8).heap.append (padHeap.alloc 0 8).val [7]).heap.arrays[0]? = padHeap.arrays[0]? :=
  append_fresh_preserves padHeap _ ((Ext.refl padHeap).alloc 0 8) _ (Nat.le_refl _) [7] 0 (by decide)

example : (addPKCSPadding padHeap padSlice).heap.arrays[0]? = padHeap.arrays[0]? :=
  addPKCSPadding_frame padHeap padSlice 0 (by decide)
-- the current padding really computes `01 02 03 0d×13` in a new array and leaves array 0 as it was
example : (addPKCSPadding padHeap padSlice).heap.read (addPKCSPadding padHeap padSlice).val =
    [1, 2, 3, 13, 13, 13, 13, 13, 13, 13, 13, 13, 13, 13, 13, 13] ∧
    (addPKCSPadding padHeap padSlice).val.arr = 1 ∧
    (addPKCSPadding padHeap padSlice).heap.get 0 = padHeap.get 0 := by decide
-- the old one writes the 13 padding bytes into the caller's spare capacity
example : (addPKCSPadding_old padHeap padSlice).heap.get 0 =
    [0xA5, 0xA4, 1, 2, 3, 13, 13, 13, 13, 13, 13, 13, 13, 13, 13, 13, 13, 13, 0xB7, 0xB6, 0xB1, 0xB0, 0xB3, 0xB2, 0xBD] := by
  decide
example (pr : Prims) (pub : Pt) (t : Rng.Tape) :
    (encrypt pr padHeap pub padSlice t).heap.arrays[0]? = padHeap.arrays[0]? :=
  encrypt_frame pr padHeap pub padSlice t 0 (by decide)
example (pr : Prims) (d : Nat) : (decrypt pr padHeap d padSlice).heap.arrays[0]? = padHeap.arrays[0]? :=
  decrypt_frame pr padHeap d padSlice 0 (by decide)
example (pr : Prims) (pass : Bytes) : (mnemonic pr entHeap entSlice pass).heap.arrays[0]? = entHeap.arrays[0]? :=
  mnemonic_frame pr entHeap entSlice pass 0 (by decide)
example (pr : Prims) : (cryptoDecrypt pr cfbHeap cfbKey cfbSlice).heap.arrays[0]? = cfbHeap.arrays[0]? :=
  cryptoDecrypt_frame pr cfbHeap cfbKey cfbSlice 0 (by decide)
example (pr : Prims) (t : Rng.Tape) :
    (cryptoEncrypt pr padHeap cfbKey padSlice t).heap.arrays[0]? = padHeap.arrays[0]? :=
  cryptoEncrypt_frame pr padHeap cfbKey padSlice t 0 (by decide)
example (pr : Prims) : (checkEncode pr padHeap padSlice 0x80).heap.arrays[0]? = padHeap.arrays[0]? :=
  checkEncode_frame pr padHeap padSlice 0x80 0 (by decide)
example (pr : Prims) : (checkDecode pr padHeap [49, 49]).heap.arrays[0]? = padHeap.arrays[0]? :=
  checkDecode_frame pr padHeap [49, 49] 0 (by decide)
example : (paddedAppend padHeap 32 ⟨1, 0, 0, 0⟩ padSlice).heap.arrays[0]? = padHeap.arrays[0]? :=
  paddedAppend_frame_other padHeap 32 ⟨1, 0, 0, 0⟩ padSlice 0 (by decide) (by decide)
example : (paddedAppend (padHeap.alloc 0 40).heap 32 (padHeap.alloc 0 40).val padSlice).heap.arrays[0]? =
    padHeap.arrays[0]? :=
  paddedAppend_frame padHeap _ ((Ext.refl padHeap).alloc 0 40) 32 _ padSlice (Nat.le_refl _) 0 (by decide)
example (q : Pt) : (serialiseUncompressed padHeap q).heap.arrays[0]? = padHeap.arrays[0]? :=
  serialiseUncompressed_frame padHeap q 0 (by decide)
example (q : Pt) : (serialiseCompressed padHeap q).heap.arrays[0]? = padHeap.arrays[0]? :=
  serialiseCompressed_frame padHeap q 0 (by decide)
example (q : Pt) : (serialiseHybrid padHeap q).heap.arrays[0]? = padHeap.arrays[0]? :=
  serialiseHybrid_frame padHeap q 0 (by decide)
example (d : Nat) : (privSerialise padHeap d).heap.arrays[0]? = padHeap.arrays[0]? :=
  privSerialise_frame padHeap d 0 (by decide)
example (pr : Prims) (d : Nat) : (wifString pr padHeap d true 0x80).heap.arrays[0]? = padHeap.arrays[0]? :=
  wifString_frame pr padHeap d true 0x80 0 (by decide)

/-- a private extended key whose `key` slice is the window with spare capacity -/
def exKey : XKeyH :=
  { key := padSlice, chainCode := ⟨0, 0, 2, 2⟩, parentFP := ⟨0, 0, 2, 2⟩, version := ⟨0, 0, 2, 2⟩,
    childNum := 0, depth := 0, isPrivate := true }
example (pr : Prims) : (xkeyString pr padHeap exKey).heap.arrays[0]? = padHeap.arrays[0]? :=
  xkeyString_frame pr padHeap exKey 0 (by decide)
example (pr : Prims) : (xkeyAddress pr padHeap exKey 111).heap.arrays[0]? = padHeap.arrays[0]? :=
  xkeyAddress_frame pr padHeap exKey 111 0 (by decide)
example (i : Nat) : (childData padHeap exKey i).heap.arrays[0]? = padHeap.arrays[0]? :=
  childData_frame padHeap exKey i 0 (by decide)
example (pr : Prims) (i : Nat) : (childHmac pr padHeap exKey i).heap.arrays[0]? = padHeap.arrays[0]? :=
  childHmac_frame pr padHeap exKey i 0 (by decide)
example (r s : Nat) : (sigSerialise padHeap r s).heap.arrays[0]? = padHeap.arrays[0]? :=
  sigSerialise_frame padHeap r s 0 (by decide)
example (pr : Prims) (d : Nat) (pub : Pt) :
    (signCompact pr 64 padHeap d pub padSlice true).heap.arrays[0]? = padHeap.arrays[0]? :=
  signCompact_frame pr 64 padHeap d pub padSlice true 0 (by decide)
example : (hashToInt padHeap padSlice).heap = padHeap := hashToInt_frame padHeap padSlice
example : (naf padHeap padSlice).heap.arrays[0]? = padHeap.arrays[0]? := naf_frame padHeap padSlice 0 (by decide)
-- NAF of 0x010203 computed by the heap-level model: pos − neg = 0x010203, no adjacent non-zero digits
example : (naf padHeap padSlice).heap.read (naf padHeap padSlice).val.1 = [1, 2, 4] ∧
    (naf padHeap padSlice).heap.read (naf padHeap padSlice).val.2 = [0, 0, 1] := by decide
example : (readOnly beNat padHeap padSlice).heap = padHeap := readOnly_frame beNat padHeap padSlice

example : ∃ (h : Heap) (src : Slice), src.WF h ∧ 0 < src.spare ∧
    ∃ a, a < h.size ∧ (addPKCSPadding_old h src).heap.arrays[a]? ≠ h.arrays[a]? := addPKCSPadding_old_not_frame
example : (mnemonicEntropy_old realPrims entHeap entSlice).heap.get 0 ≠ entHeap.get 0 := by decide +kernel
example : ∃ (h : Heap) (e : Slice), e.WF h ∧ 0 < e.spare ∧
    (mnemonicEntropy_old realPrims h e).heap.arrays[e.arr]? ≠ h.arrays[e.arr]? :=
  mnemonic_old_not_frame_any_hash realPrims
example : (addPKCSPadding_old padHeap padSlice).heap.get padSlice.arr =
    writeAt (padHeap.get padSlice.arr) (padSlice.off + padSlice.len) (List.replicate 13 13) :=
  addPKCSPadding_old_effect padHeap padSlice (by decide) (by decide)

example : (addPKCSPadding padHeap padSlice).heap.read (addPKCSPadding padHeap padSlice).val =
    Ecies.addPKCSPadding [1, 2, 3] := addPKCSPadding_denotes padHeap padSlice (by decide)
-- the same three bytes at another place of another heap, without spare capacity
example : (addPKCSPadding padHeap padSlice).heap.read (addPKCSPadding padHeap padSlice).val =
    (addPKCSPadding ⟨#[[9], [1, 2, 3]]⟩ ⟨1, 0, 3, 3⟩).heap.read (addPKCSPadding ⟨#[[9], [1, 2, 3]]⟩ ⟨1, 0, 3, 3⟩).val :=
  addPKCSPadding_deterministic padHeap ⟨#[[9], [1, 2, 3]]⟩ padSlice ⟨1, 0, 3, 3⟩ (by decide) (by decide) (by decide)
example : (addPKCSPadding (addPKCSPadding padHeap padSlice).heap padSlice).heap.read
      (addPKCSPadding (addPKCSPadding padHeap padSlice).heap padSlice).val =
    (addPKCSPadding padHeap padSlice).heap.read (addPKCSPadding padHeap padSlice).val :=
  addPKCSPadding_repeatable padHeap padSlice (by decide)
example (pr : Prims) (pass : Bytes) : (mnemonic pr entHeap entSlice pass).val =
    Bip39.mnemonic pr [0, 1, 2, 3, 4, 5, 6, 7, 8, 9, 10, 11, 12, 13, 14, 15] pass :=
  mnemonic_denotes pr entHeap entSlice pass (by decide)
example (pr : Prims) (pass : Bytes) :
    (mnemonic pr entHeap entSlice pass).val =
      (mnemonic pr ⟨#[[0, 1, 2, 3, 4, 5, 6, 7, 8, 9, 10, 11, 12, 13, 14, 15]]⟩ ⟨0, 0, 16, 16⟩ pass).val :=
  mnemonic_deterministic pr entHeap _ entSlice ⟨0, 0, 16, 16⟩ pass (by decide) (by decide) (by decide)
example (pr : Prims) (pass : Bytes) :
    (mnemonic pr (mnemonic pr entHeap entSlice pass).heap entSlice pass).val = (mnemonic pr entHeap entSlice pass).val :=
  mnemonic_repeatable pr entHeap entSlice pass (by decide)
example (pr : Prims) (hlen : ∀ k iv d, (pr.cfbDec k iv d).length = d.length) :
    (cryptoDecrypt pr cfbHeap cfbKey cfbSlice).val =
      Ecies.cfbDecrypt pr cfbKey [0, 1, 2, 3, 4, 5, 6, 7, 8, 9, 10, 11, 12, 13, 14, 15, 0x41, 0x42, 0x43, 0x44] :=
  cryptoDecrypt_denotes pr hlen cfbHeap cfbKey cfbSlice (by decide)
example (pr : Prims) (hlen : ∀ k iv d, (pr.cfbDec k iv d).length = d.length) :
    (cryptoDecrypt pr cfbHeap cfbKey cfbSlice).val =
      (cryptoDecrypt pr ⟨#[[7], [0, 1, 2, 3, 4, 5, 6, 7, 8, 9, 10, 11, 12, 13, 14, 15, 0x41, 0x42, 0x43, 0x44]]⟩ cfbKey
        ⟨1, 0, 20, 20⟩).val :=
  cryptoDecrypt_deterministic pr hlen cfbHeap _ cfbKey cfbSlice ⟨1, 0, 20, 20⟩ (by decide) (by decide) (by decide)
example (pr : Prims) (hlen : ∀ k iv d, (pr.cfbDec k iv d).length = d.length) :
    (cryptoDecrypt pr (cryptoDecrypt pr cfbHeap cfbKey cfbSlice).heap cfbKey cfbSlice).val =
      (cryptoDecrypt pr cfbHeap cfbKey cfbSlice).val :=
  cryptoDecrypt_repeatable pr hlen cfbHeap cfbKey cfbSlice (by decide)
-- a non-identity length-preserving cipher makes the general negative theorem applicable
example : ∃ pr : Prims, (∀ k iv d, (pr.cfbDec k iv d).length = d.length) ∧
    pr.cfbDec cfbKey (cfbHeap.read (reslice cfbSlice 0 16)) (cfbHeap.read (reslice cfbSlice 16 cfbSlice.len)) ≠
      cfbHeap.read (reslice cfbSlice 16 cfbSlice.len) :=
  ⟨{ realPrims with cfbDec := fun _ _ d => d.map (· ^^^ 0xFF) }, by intro k iv d; simp, by decide⟩
example (pr : Prims) : (checkEncode pr padHeap padSlice 0x80).val = Base58.checkEncode pr [1, 2, 3] 0x80 :=
  checkEncode_denotes pr padHeap padSlice 0x80 (by decide)
example (pr : Prims) : (checkEncode pr padHeap padSlice 0x80).val =
    (checkEncode pr ⟨#[[1, 2, 3]]⟩ ⟨0, 0, 3, 3⟩ 0x80).val :=
  checkEncode_deterministic pr padHeap _ padSlice ⟨0, 0, 3, 3⟩ 0x80 (by decide) (by decide) (by decide)
example (pr : Prims) : (checkEncode pr (checkEncode pr padHeap padSlice 0x80).heap padSlice 0x80).val =
    (checkEncode pr padHeap padSlice 0x80).val := checkEncode_repeatable pr padHeap padSlice 0x80 (by decide)
example : (paddedAppend (padHeap.alloc 0 40).heap 5 (padHeap.alloc 0 40).val padSlice).heap.read
      (paddedAppend (padHeap.alloc 0 40).heap 5 (padHeap.alloc 0 40).val padSlice).val = [0, 0, 1, 2, 3] := by decide
example (d : Nat) : (privSerialise padHeap d).heap.read (privSerialise padHeap d).val =
    (privSerialise ⟨#[]⟩ d).heap.read (privSerialise ⟨#[]⟩ d).val := privSerialise_deterministic padHeap ⟨#[]⟩ d
example : (readOnly beNat padHeap padSlice).val = (readOnly beNat ⟨#[[1, 2, 3]]⟩ ⟨0, 0, 3, 3⟩).val :=
  readOnly_deterministic beNat padHeap _ padSlice ⟨0, 0, 3, 3⟩ (by decide)

end GoBk.Props.C16

#print axioms GoBk.Props.C16.alloc_preserves
#print axioms GoBk.Props.C16.append_changes_only_its_array
#print axioms GoBk.Props.C16.append_full_preserves
#print axioms GoBk.Props.C16.copyInto_changes_only_its_array
#print axioms GoBk.Props.C16.store_changes_only_its_array
#print axioms GoBk.Props.C16.xorInto_changes_only_its_array
#print axioms GoBk.Props.C16.cryptBlocks_changes_only_its_array
#print axioms GoBk.Props.C16.append_fresh_preserves
#print axioms GoBk.Props.C16.addPKCSPadding_frame
#print axioms GoBk.Props.C16.encrypt_frame
#print axioms GoBk.Props.C16.decrypt_frame
#print axioms GoBk.Props.C16.mnemonic_frame
#print axioms GoBk.Props.C16.cryptoDecrypt_frame
#print axioms GoBk.Props.C16.cryptoEncrypt_frame
#print axioms GoBk.Props.C16.checkEncode_frame
#print axioms GoBk.Props.C16.checkDecode_frame
#print axioms GoBk.Props.C16.paddedAppend_frame_other
#print axioms GoBk.Props.C16.paddedAppend_frame
#print axioms GoBk.Props.C16.serialiseUncompressed_frame
#print axioms GoBk.Props.C16.serialiseCompressed_frame
#print axioms GoBk.Props.C16.serialiseHybrid_frame
#print axioms GoBk.Props.C16.privSerialise_frame
#print axioms GoBk.Props.C16.wifString_frame
#print axioms GoBk.Props.C16.xkeyString_frame
#print axioms GoBk.Props.C16.xkeyAddress_frame
#print axioms GoBk.Props.C16.childData_frame
#print axioms GoBk.Props.C16.childHmac_frame
#print axioms GoBk.Props.C16.sigSerialise_frame
#print axioms GoBk.Props.C16.signCompact_frame
#print axioms GoBk.Props.C16.hashToInt_frame
#print axioms GoBk.Props.C16.naf_frame
#print axioms GoBk.Props.C16.readOnly_frame
#print axioms GoBk.Props.C16.addPKCSPadding_old_not_frame
#print axioms GoBk.Props.C16.encrypt_old_not_frame
#print axioms GoBk.Props.C16.mnemonic_old_not_frame
#print axioms GoBk.Props.C16.mnemonic_old_not_frame_any_hash
#print axioms GoBk.Props.C16.cryptoDecrypt_old_not_frame
#print axioms GoBk.Props.C16.cryptoDecrypt_old_not_frame_general
#print axioms GoBk.Props.C16.addPKCSPadding_old_effect
#print axioms GoBk.Props.C16.addPKCSPadding_denotes
#print axioms GoBk.Props.C16.addPKCSPadding_deterministic
#print axioms GoBk.Props.C16.addPKCSPadding_repeatable
#print axioms GoBk.Props.C16.mnemonic_denotes
#print axioms GoBk.Props.C16.mnemonic_deterministic
#print axioms GoBk.Props.C16.mnemonic_repeatable
#print axioms GoBk.Props.C16.cryptoDecrypt_denotes
#print axioms GoBk.Props.C16.cryptoDecrypt_deterministic
#print axioms GoBk.Props.C16.cryptoDecrypt_repeatable
#print axioms GoBk.Props.C16.checkEncode_denotes
#print axioms GoBk.Props.C16.checkEncode_deterministic
#print axioms GoBk.Props.C16.checkEncode_repeatable
#print axioms GoBk.Props.C16.paddedAppend_denotes
#print axioms GoBk.Props.C16.privSerialise_deterministic
#print axioms GoBk.Props.C16.readOnly_deterministic
