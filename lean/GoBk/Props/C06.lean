import GoBk.Model.Der
import GoBk.Proofs.BytesLemmas
import GoBk.Proofs.DerLemmas
/-
  C06 — DER signature serialisation and parsing.
  Property theorems only; proofs are in `GoBk.Proofs.DerLemmas` / `GoBk.Proofs.BytesLemmas`.

  "For every signature with r,s in [1,N-1], Serialise emits the unique strict-DER encoding of
   (r, min(s, N-s)), and ParseDERSignature of that output returns exactly that pair.
   ParseDERSignature accepts a byte string if and only if its first b[1]+2 bytes are the strict-DER
   encoding of a pair with 1 <= r,s < N (bytes after that prefix are ignored), and ParseSignature
   accepts exactly the same tag/length structure (for length bytes up to 253) with the
   minimal-padding and sign-bit rules relaxed and the integers read as unsigned; both return the
   encoded integers."

  `N = Der.N = Gen.c_N` (regenerated from /repo), `Spec.der`, `Spec.derInt`, `Spec.derLaxOf` are
  defined at the bottom of Model/Der.lean.
-/
namespace GoBk.Props.C06
open GoBk Bytes Der

/-! ### the DER INTEGER contents `derInt` -/

theorem beNat_derInt (n : Nat) : beNat (Spec.derInt n) = n := Der.beNat_derInt n
theorem canonicalPadding_derInt (n : Nat) : canonicalPadding (Spec.derInt n) = .ok := Der.canonicalPadding_derInt n
theorem derInt_length_pos (n : Nat) : 1 ≤ (Spec.derInt n).length := Der.derInt_length_pos n
theorem derInt_length_le_33 (n : Nat) (h : n < 2 ^ 256) : (Spec.derInt n).length ≤ 33 :=
  Der.derInt_length_le_33 n h

/-- uniqueness: the only non-empty string that passes `canonicalPadding` and has value `n` is `derInt n` -/
theorem derInt_unique (b : Bytes) (hc : canonicalPadding b = .ok) (hne : b ≠ []) : Spec.derInt (beNat b) = b :=
  Der.derInt_beNat b hc hne

example : Spec.derInt 0x80ff = [0x00, 0x80, 0xff] := derInt_unique [0x00, 0x80, 0xff] (by decide) (by decide)
example : (Spec.derInt (2 ^ 256 - 1)).length ≤ 33 := derInt_length_le_33 _ (by decide)

/-- `canonicalizeInt` (Go) computes `derInt` -/
theorem canonicalizeInt_eq (n : Nat) : canonicalizeInt n = Spec.derInt n := Der.canonicalizeInt_eq_derInt n

/-- uniqueness of the strict encoding of a pair: a `30 L 02 lr rb 02 ls sb` structure whose integers
are non-empty and canonically padded is `der` of their values -/
theorem der_unique (rb sb : Bytes) (hr : rb ≠ []) (hs : sb ≠ [])
    (cr : canonicalPadding rb = .ok) (cs : canonicalPadding sb = .ok) :
    Spec.derLaxOf rb sb = Spec.der (beNat rb) (beNat sb) := Der.derLaxOf_canonical rb sb hr hs cr cs

example : Spec.derLaxOf [0x05] [0x00, 0x80] = Spec.der 5 128 :=
  der_unique [0x05] [0x00, 0x80] (by decide) (by decide) (by decide) (by decide)

/-- for `r, s < N` the encoding has between 8 and 72 bytes (so its length byte never wraps) -/
theorem der_length_bounds (r s : Nat) (hr : r < N) (hs : s < N) :
    8 ≤ (Spec.der r s).length ∧ (Spec.der r s).length ≤ 72 := Der.der_length_bounds r s hr hs

example : 8 ≤ (Spec.der 1 (N - 1)).length ∧ (Spec.der 1 (N - 1)).length ≤ 72 :=
  der_length_bounds 1 (N - 1) (by decide) (by decide)

/-! ### Serialise -/

theorem serialise_spec (r s : Nat) (_hr : 1 ≤ r ∧ r < N) (hs : 1 ≤ s ∧ s < N) :
    Der.serialise r s = Spec.der r (min s (N - s)) := Der.serialise_eq r s hs.2

/-- high `S` (here `N-1`) is replaced by `N - S` (here `1`) -/
example : Der.serialise 128 (N - 1) = Spec.der 128 (min (N - 1) (N - (N - 1))) :=
  serialise_spec 128 (N - 1) (by decide) (by decide)
example : min (N - 1) (N - (N - 1)) = 1 := by decide

theorem parseDER_serialise (r s : Nat) (hr : 1 ≤ r ∧ r < N) (hs : 1 ≤ s ∧ s < N) :
    Der.parseDER (Der.serialise r s) = some (r, min s (N - s)) := Der.parseDER_serialise r s hr hs

example : Der.parseDER (Der.serialise 128 (N - 1)) = some (128, min (N - 1) (N - (N - 1))) :=
  parseDER_serialise 128 (N - 1) (by decide) (by decide)

/-! ### ParseDERSignature -/

/-- `ParseDERSignature b` returns `(r, s)` iff the first `b[1]+2` bytes of `b` exist and are exactly
`der r s` with `1 ≤ r, s < N`.  (`2 ≤ b.length` is implied by the third conjunct and kept for
readability; `b[1]+2` is natural-number addition: for `b[1] ∈ {0xfe, 0xff}` the Go byte addition
wraps and the parser rejects, and the right-hand side is false as well because `der r s` has at most
72 bytes — see `parseSig_none_of_siglen_ge_254`.) -/
theorem parseDER_iff (b : Bytes) (r s : Nat) :
    Der.parseDER b = some (r, s) ↔
      (2 ≤ b.length ∧ b.take ((b.getD 1 0).toNat + 2) = Spec.der r s ∧
       (b.getD 1 0).toNat + 2 ≤ b.length ∧ 1 ≤ r ∧ r < N ∧ 1 ≤ s ∧ s < N) :=
  Der.parseDER_eq_some_iff b r s

/-- trailing bytes after the `b[1]+2` prefix are ignored -/
example : Der.parseDER [0x30, 0x06, 0x02, 0x01, 0x05, 0x02, 0x01, 0x07, 0xde, 0xad] = some (5, 7) :=
  (parseDER_iff _ 5 7).mpr (by decide)

/-- the accepted prefix may be followed by anything -/
theorem parseDER_der_append (r s : Nat) (hr : 1 ≤ r ∧ r < N) (hs : 1 ≤ s ∧ s < N) (tail : Bytes) :
    Der.parseDER (Spec.der r s ++ tail) = some (r, s) := Der.parseDER_der r s hr hs tail

/-- `der` is injective on the accepted range -/
theorem der_inj (r s r' s' : Nat) (hr : 1 ≤ r ∧ r < N) (hs : 1 ≤ s ∧ s < N)
    (hr' : 1 ≤ r' ∧ r' < N) (hs' : 1 ≤ s' ∧ s' < N) (h : Spec.der r s = Spec.der r' s') :
    r = r' ∧ s = s' := Der.der_inj r s r' s' hr hs h hr' hs'

/-- length bytes 0xfe and 0xff make `siglen+2` wrap to 0 / 1; both parsers reject -/
theorem parseSig_none_of_siglen_ge_254 (b : Bytes) (d : Bool) (h : 254 ≤ (b.getD 1 0).toNat) :
    Der.parseSig b d = none := Der.parseSig_none_of_siglen_ge_254 b d h

example : Der.parseSig (0x30 :: 0xfe :: List.replicate 300 0x02) false = none :=
  parseSig_none_of_siglen_ge_254 _ _ (by decide)

/-! ### ParseSignature (lax) -/

/-- `ParseSignature b` returns `(r, s)` iff there are byte strings `rb`, `sb` with
  * `rb ≠ []`, `sb ≠ []`                 — both length bytes must be non-zero;
  * `rb.length ≤ 255`, `sb.length ≤ 255` — (implied by the next two) the lengths fit their byte;
  * `b[1] ≤ 253`                         — otherwise the byte addition `b[1]+2` wraps and Go rejects;
  * `b.take (b[1]+2) = Spec.derLaxOf rb sb`   — tags 30/02/02 and all three length bytes are consistent
                                           (in particular `b[1] = 4 + |rb| + |sb|`, no wrap);
  * `b[1]+2 ≤ b.length`                  — the announced prefix is present (the rest is ignored);
  * `r = beNat rb`, `s = beNat sb`       — integers are read as UNSIGNED big-endian, any padding;
  * `1 ≤ r, s < N`. -/
theorem parseLax_iff (b : Bytes) (r s : Nat) :
    Der.parseLax b = some (r, s) ↔
      ∃ rb sb : Bytes, rb ≠ [] ∧ sb ≠ [] ∧ rb.length ≤ 255 ∧ sb.length ≤ 255 ∧
        (b.getD 1 0).toNat ≤ 253 ∧
        b.take ((b.getD 1 0).toNat + 2) = Spec.derLaxOf rb sb ∧
        (b.getD 1 0).toNat + 2 ≤ b.length ∧
        beNat rb = r ∧ beNat sb = s ∧ 1 ≤ r ∧ r < N ∧ 1 ≤ s ∧ s < N :=
  Der.parseLax_eq_some_iff b r s

/-- excessive padding (`00 05`) and a set sign bit (`80`) are accepted by the lax parser … -/
example : Der.parseLax [0x30, 0x07, 0x02, 0x02, 0x00, 0x05, 0x02, 0x01, 0x80, 0xff] = some (5, 128) :=
  (parseLax_iff _ 5 128).mpr ⟨[0x00, 0x05], [0x80], by decide⟩
/-- … and rejected by the strict one -/
example : Der.parseDER [0x30, 0x07, 0x02, 0x02, 0x00, 0x05, 0x02, 0x01, 0x80, 0xff] = none := by decide

/-- both parsers, one statement: `der = true` additionally demands canonical padding of both integers -/
theorem parseSig_iff (b : Bytes) (d : Bool) (r s : Nat) :
    Der.parseSig b d = some (r, s) ↔
      ∃ rb sb : Bytes, rb ≠ [] ∧ sb ≠ [] ∧ (b.getD 1 0).toNat ≤ 253 ∧
        b.take ((b.getD 1 0).toNat + 2) = Spec.derLaxOf rb sb ∧
        (b.getD 1 0).toNat + 2 ≤ b.length ∧
        (d = true → canonicalPadding rb = .ok ∧ canonicalPadding sb = .ok) ∧
        beNat rb = r ∧ beNat sb = s ∧ 1 ≤ r ∧ r < N ∧ 1 ≤ s ∧ s < N :=
  Der.parseSig_eq_some_iff b d r s

theorem parseDER_imp_parseLax (b : Bytes) (p : Nat × Nat) (h : Der.parseDER b = some p) :
    Der.parseLax b = some p := Der.parseDER_imp_parseLax b p h

example : Der.parseLax [0x30, 0x06, 0x02, 0x01, 0x05, 0x02, 0x01, 0x07] = some (5, 7) :=
  parseDER_imp_parseLax _ _ (by decide)

end GoBk.Props.C06

#print axioms GoBk.Props.C06.beNat_derInt
#print axioms GoBk.Props.C06.canonicalPadding_derInt
#print axioms GoBk.Props.C06.derInt_length_pos
#print axioms GoBk.Props.C06.derInt_length_le_33
#print axioms GoBk.Props.C06.derInt_unique
#print axioms GoBk.Props.C06.canonicalizeInt_eq
#print axioms GoBk.Props.C06.der_unique
#print axioms GoBk.Props.C06.der_length_bounds
#print axioms GoBk.Props.C06.serialise_spec
#print axioms GoBk.Props.C06.parseDER_serialise
#print axioms GoBk.Props.C06.parseDER_iff
#print axioms GoBk.Props.C06.parseDER_der_append
#print axioms GoBk.Props.C06.der_inj
#print axioms GoBk.Props.C06.parseSig_none_of_siglen_ge_254
#print axioms GoBk.Props.C06.parseLax_iff
#print axioms GoBk.Props.C06.parseSig_iff
#print axioms GoBk.Props.C06.parseDER_imp_parseLax
