import GoBk.Props.C13b
/-!
# C13, continued: the bijection read as injectivity, and the output alphabet

"Base58 and Base58Check are exact inverses": corollaries of `decode_encode` / `encode_decode` /
`checkDecode_checkEncode` that users rely on directly — two byte strings never share an encoding, two alphabet
strings never share a decoding, every output character is one of the 58, and two (payload, version) pairs never
share a check-encoded string.
-/
namespace GoBk.Props.C13
open GoBk Bytes Base58 GoBk.Props.Prims

/-- `Encode` is injective on all byte strings. -/
theorem encode_injective (a b : Bytes) (h : encode a = encode b) : a = b := by
  have := congrArg decode h
  rwa [decode_encode, decode_encode] at this

/-- `Decode` is injective on strings over the alphabet. -/
theorem decode_injective_on_alphabet (s t : Bytes) (hs : ∀ c ∈ s, c ∈ Gen.alphabet)
    (ht : ∀ c ∈ t, c ∈ Gen.alphabet) (h : decode s = decode t) : s = t := by
  have := congrArg encode h
  rwa [encode_decode s hs, encode_decode t ht] at this

/-- Every character `Encode` emits is one of the 58 alphabet characters. -/
theorem encode_mem_alphabet (b : Bytes) : ∀ c ∈ encode b, c ∈ Gen.alphabet := by
  intro c hc
  rw [encode_spec] at hc
  rcases List.mem_append.mp hc with h | h
  · rw [List.eq_of_mem_replicate h, ← alphaAt_zero]; exact Base58.alphaAt_mem 0 (by decide)
  · obtain ⟨d, hd, rfl⟩ := List.mem_map.mp h
    exact Base58.alphaAt_mem d (digitsBE_lt _ d hd)

/-- `Encode ∘ Decode` and `Decode ∘ Encode` are both the identity exactly on the alphabet strings: a string is an
    `Encode` output iff all its characters are in the alphabet. -/
theorem range_encode_iff (s : Bytes) : (∃ b, encode b = s) ↔ ∀ c ∈ s, c ∈ Gen.alphabet := by
  constructor
  · rintro ⟨b, rfl⟩; exact encode_mem_alphabet b
  · intro h; exact ⟨decode s, encode_decode s h⟩

/-- `CheckEncode` is injective in (payload, version), for the executable SHA-256. -/
theorem real_checkEncode_injective (p q : Bytes) (v w : UInt8)
    (h : checkEncode realPrims p v = checkEncode realPrims q w) : p = q ∧ v = w := by
  have := congrArg (checkDecode realPrims) h
  rw [real_checkDecode_checkEncode, real_checkDecode_checkEncode] at this
  cases this; exact ⟨rfl, rfl⟩

/-- What `CheckDecode` returns re-encodes to exactly the base58 normal form of the input: `CheckDecode` loses
    nothing but non-canonical spelling (there is none over the alphabet, by `encode_decode`). -/
theorem real_checkEncode_checkDecode (s p : Bytes) (v : UInt8) (hs : ∀ c ∈ s, c ∈ Gen.alphabet)
    (h : checkDecode realPrims s = some (p, v)) : checkEncode realPrims p v = s := by
  have h1 := (real_checkDecode_iff s p v).mp h
  have h2 : checkDecode realPrims (checkEncode realPrims p v) = some (p, v) := real_checkDecode_checkEncode p v
  have h3 := (real_checkDecode_iff (checkEncode realPrims p v) p v).mp h2
  apply decode_injective_on_alphabet _ _ _ hs
  · exact h3.2.trans h1.2.symm
  · intro c hc
    exact encode_mem_alphabet _ c hc

example : encode [0, 0, 1] ≠ encode [0, 1] := fun h => by cases encode_injective _ _ h

end GoBk.Props.C13

#print axioms GoBk.Props.C13.encode_injective
#print axioms GoBk.Props.C13.decode_injective_on_alphabet
#print axioms GoBk.Props.C13.encode_mem_alphabet
#print axioms GoBk.Props.C13.range_encode_iff
#print axioms GoBk.Props.C13.real_checkEncode_injective
#print axioms GoBk.Props.C13.real_checkEncode_checkDecode
