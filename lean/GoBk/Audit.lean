import Lean
/-
  `GoBk.Audit.run `Mod`: print every theorem declared in module `Mod` together with the axioms
  it depends on (what `#print axioms` reports), for the evidence file.
-/
open Lean Elab Command

namespace GoBk.Audit

def run (modName : Name) (ns : Name := modName) : CommandElabM Unit := do
  let env ← getEnv
  let some idx := env.getModuleIdx? modName | logInfo m!"MODULE-NOT-FOUND {modName}"
  let mut names : Array Name := #[]
  for (n, ci) in env.constants.map₁.toList do
    if env.getModuleIdxFor? n == some idx then
      match ci with
      | .thmInfo _ => if !n.isInternal && ns.isPrefixOf n then names := names.push n
      | _ => pure ()
  let sorted := names.qsort (fun a b => a.toString < b.toString)
  for n in sorted do
    let axs ← liftCoreM (collectAxioms n)
    let axl := ", ".intercalate (axs.toList.map toString |>.toArray.qsort (· < ·) |>.toList)
    IO.println s!"THEOREM {n} AXIOMS [{axl}]"

end GoBk.Audit
