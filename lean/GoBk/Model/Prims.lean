import GoBk.Base.Bytes
/-
  The cryptographic primitives are PARAMETERS of every model and theorem.  The driver
  instantiates them with the executable implementations in `GoBk.Hash`, which the
  correspondence streams `hash.*`, `bip39.*`, `ecies.*`, `cfb.*` validate against Go's crypto/*.
-/
namespace GoBk

structure Prims where
  sha256 : Bytes → Bytes
  sha512 : Bytes → Bytes
  ripemd160 : Bytes → Bytes
  hmac256 : Bytes → Bytes → Bytes        -- key, message
  hmac512 : Bytes → Bytes → Bytes
  pbkdf2_512 : Bytes → Bytes → Nat → Nat → Bytes  -- password, salt, iterations, length
  cbcEnc : Bytes → Bytes → Bytes → Bytes  -- key, iv, data
  cbcDec : Bytes → Bytes → Bytes → Bytes
  cfbEnc : Bytes → Bytes → Bytes → Bytes
  cfbDec : Bytes → Bytes → Bytes → Bytes
  b64enc : Bytes → Bytes
  b64dec : Bytes → Option Bytes

/-- the facts about the primitives that theorems may assume (each is a standard property of the
real functions; listed in the trusted base). -/
structure PrimsOK (pr : Prims) : Prop where
  sha256_len : ∀ b, (pr.sha256 b).length = 32
  sha512_len : ∀ b, (pr.sha512 b).length = 64
  ripemd160_len : ∀ b, (pr.ripemd160 b).length = 20
  hmac256_len : ∀ k m, (pr.hmac256 k m).length = 32
  hmac512_len : ∀ k m, (pr.hmac512 k m).length = 64
  cbc_len : ∀ k iv d, d.length % 16 = 0 → (pr.cbcEnc k iv d).length = d.length   -- whole blocks only (CryptBlocks)
  cbc_inv : ∀ k iv d, k.length = 32 → iv.length = 16 → d.length % 16 = 0 → pr.cbcDec k iv (pr.cbcEnc k iv d) = d
  cfb_inv : ∀ k iv d, pr.cfbDec k iv (pr.cfbEnc k iv d) = d
  cfb_len : ∀ k iv d, (pr.cfbEnc k iv d).length = d.length
  b64_inv : ∀ b, pr.b64dec (pr.b64enc b) = some b

def Prims.sha256d (pr : Prims) (b : Bytes) : Bytes := pr.sha256 (pr.sha256 b)
def Prims.hash160 (pr : Prims) (b : Bytes) : Bytes := pr.ripemd160 (pr.sha256 b)

end GoBk
