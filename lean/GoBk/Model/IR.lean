import GoBk.Gen.Field
/-
  Deep embedding of the point-arithmetic code of /repo/bec/btcec.go (and the field part of
  decompressPoint in pubkey.go): straight-line method chains over named `fieldVal` cells,
  conditions, if/else, early return and calls with by-reference parameters.
  `Gen/CurveIR.lean` (regenerated from the Go source on every run) is DATA of these types;
  `exec` below is its semantics over the regenerated word-level field operations `Gen.Field`.
  Core Lean only.
-/
namespace GoBk.IR
open GoBk.Gen.Field

/-- a `*fieldVal` the code can name -/
inductive Cell
  | param (i : Nat)        -- i-th pointer parameter of the function
  | loc (i : Nat)          -- i-th local `var x fieldVal`
  | fieldOne | fieldB | beta       -- package-level / curve constants (read-only)
deriving DecidableEq, Repr, Inhabited, Hashable

/-- one method call `dst.<Op>(…)`, mutating `dst` -/
inductive Op
  | set (src : Cell)
  | setInt (k : Nat)
  | add (src : Cell)
  | add2 (a b : Cell)
  | addInt (k : Nat)
  | negate (m : Nat)
  | negateVal (src : Cell) (m : Nat)
  | mulInt (k : Nat)
  | mul (src : Cell)
  | mul2 (a b : Cell)
  | square
  | squareVal (src : Cell)
  | normalise
  | inverse
  | sqrtVal (src : Cell)
deriving DecidableEq, Repr, Inhabited

inductive Cond
  | isZero (c : Cell)
  | equals (a b : Cell)
  | isOdd (c : Cell)
  | flag (i : Nat)
  | not (c : Cond)
  | and (a b : Cond)
  | or (a b : Cond)
deriving DecidableEq, Repr, Inhabited

mutual
inductive Stmt
  | op (dst : Cell) (o : Op)
  | setFlag (i : Nat) (c : Cond)           -- `isZ1One := z1.Equals(fieldOne)`
  | ite (c : Cond) (t e : Block)
  | call (f : Nat) (args : List Cell)      -- callee's param i is bound to caller's cell args[i]
  | ret
inductive Block
  | nil
  | cons (s : Stmt) (rest : Block)
end

structure Fn where
  name : String
  nparams : Nat
  nlocals : Nat
  body : Block

/-- memory: addresses of `fieldVal` cells.  Addresses 0,1,2 hold fieldOne, curve.fieldB, curve.beta. -/
structure Mem where
  vals : Nat → FV
  next : Nat            -- first unused address

def Mem.get (m : Mem) (a : Nat) : FV := m.vals a
def Mem.set (m : Mem) (a : Nat) (v : FV) : Mem := { m with vals := fun a' => if a' = a then v else m.vals a' }

/-- one activation: parameters are ADDRESSES in the caller's memory (Go pointers), so two
parameters may alias; locals are fresh zeroed cells -/
structure Frame where
  params : List Nat
  locBase : Nat
  flags : Nat → Bool := fun _ => false

def Frame.addr (fr : Frame) : Cell → Nat
  | .param i => fr.params.getD i 0
  | .loc i => fr.locBase + i
  | .fieldOne => 0
  | .fieldB => 1
  | .beta => 2

def applyOp (m : Mem) (fr : Frame) (dst : Cell) : Op → FV
  | .set src => m.get (fr.addr src)
  | .setInt k => setInt k
  | .add src => add (m.get (fr.addr dst)) (m.get (fr.addr src))
  | .add2 a b => add2 (m.get (fr.addr a)) (m.get (fr.addr b))
  | .addInt k => addInt (m.get (fr.addr dst)) k
  | .negate k => negate (m.get (fr.addr dst)) (UInt32.ofNat k)
  | .negateVal src k => negateVal (m.get (fr.addr src)) (UInt32.ofNat k)
  | .mulInt k => mulInt (m.get (fr.addr dst)) k
  | .mul src => mul (m.get (fr.addr dst)) (m.get (fr.addr src))
  | .mul2 a b => mul2 (m.get (fr.addr a)) (m.get (fr.addr b))
  | .square => square (m.get (fr.addr dst))
  | .squareVal src => squareVal (m.get (fr.addr src))
  | .normalise => normalise (m.get (fr.addr dst))
  | .inverse => inverse (m.get (fr.addr dst))
  | .sqrtVal src => sqrtVal (m.get (fr.addr src))

def evalCond (m : Mem) (fr : Frame) : Cond → Bool
  | .isZero c => isZero (m.get (fr.addr c))
  | .equals a b => equals (m.get (fr.addr a)) (m.get (fr.addr b))
  | .isOdd c => isOdd (m.get (fr.addr c))
  | .flag i => fr.flags i
  | .not c => !(evalCond m fr c)
  | .and a b => evalCond m fr a && evalCond m fr b
  | .or a b => evalCond m fr a || evalCond m fr b

/-- result of running a block: memory, the frame (flags may have been set), and whether a
`return` was executed -/
structure Out where
  mem : Mem
  fr : Frame
  returned : Bool

mutual
/-- `fuel` bounds the call depth (the call graph of the formulas is acyclic, depth ≤ 3) -/
def execStmt (prog : Array Fn) (fuel : Nat) (m : Mem) (fr : Frame) : Stmt → Out
  | .op dst o => ⟨m.set (fr.addr dst) (applyOp m fr dst o), fr, false⟩
  | .setFlag i c =>
    let v := evalCond m fr c
    ⟨m, { fr with flags := fun j => if j = i then v else fr.flags j }, false⟩
  | .ite c t e => if evalCond m fr c then execBlock prog fuel m fr t else execBlock prog fuel m fr e
  | .ret => ⟨m, fr, true⟩
  | .call f args =>
    match fuel with
    | 0 => ⟨m, fr, false⟩
    | fuel' + 1 =>
      match prog[f]? with
      | none => ⟨m, fr, false⟩
      | some fn =>
        let callee : Frame := { params := args.map fr.addr, locBase := m.next }
        -- fresh locals are zero-valued (`var x fieldVal`)
        let m0 : Mem := { vals := fun a => if m.next ≤ a ∧ a < m.next + fn.nlocals then zero else m.vals a,
                          next := m.next + fn.nlocals }
        let out := execBlock prog fuel' m0 callee fn.body
        ⟨out.mem, fr, false⟩
def execBlock (prog : Array Fn) (fuel : Nat) (m : Mem) (fr : Frame) : Block → Out
  | .nil => ⟨m, fr, false⟩
  | .cons s rest =>
    let o := execStmt prog fuel m fr s
    if o.returned then o else execBlock prog fuel o.mem o.fr rest
end

/-- run function `f` of `prog` on argument values; parameters `alias` gives, for each parameter,
the index of an earlier parameter it aliases (or itself).  Returns the final values of all parameters. -/
def runFn (prog : Array Fn) (consts : FV × FV × FV) (f : Nat) (args : List FV) (alias : List Nat) : List FV :=
  match prog[f]? with
  | none => []
  | some fn =>
    let base := 3
    -- parameter i lives at address base + alias[i]
    let addrs := (List.range args.length).map fun i => base + alias.getD i i
    let vals0 : Nat → FV := fun a =>
      if a = 0 then consts.1 else if a = 1 then consts.2.1 else if a = 2 then consts.2.2
      else if a < base + args.length then
        -- the value of the FIRST parameter mapped to this address
        args.getD (a - base) zero
      else zero
    let m0 : Mem := { vals := vals0, next := base + args.length + fn.nlocals }
    let fr : Frame := { params := addrs, locBase := base + args.length }
    let out := execBlock prog 8 m0 fr fn.body
    addrs.map out.mem.get

end GoBk.IR

/-! ### helpers for functions with INPUT flags / results in locals or flags
(`decompressPoint`: flag 0 = `ybit` in, flags 1/2 = error exits out, result `y` = local 1;
`IsOnCurve`: flag 0 = result).  `runFnFull` is `runFn` with initial flags, also returning the final
locals and flags of the outermost activation. -/
namespace GoBk.IR
open GoBk.Gen.Field

structure RunOut where
  params : List FV
  locals : List FV
  flags : Nat → Bool

def runFnFull (prog : Array Fn) (consts : FV × FV × FV) (f : Nat) (args : List FV) (alias : List Nat)
    (flags0 : Nat → Bool) : RunOut :=
  match prog[f]? with
  | none => ⟨[], [], flags0⟩
  | some fn =>
    let base := 3
    let addrs := (List.range args.length).map fun i => base + alias.getD i i
    let vals0 : Nat → FV := fun a =>
      if a = 0 then consts.1 else if a = 1 then consts.2.1 else if a = 2 then consts.2.2
      else if a < base + args.length then
        args.getD (a - base) zero
      else zero
    let m0 : Mem := { vals := vals0, next := base + args.length + fn.nlocals }
    let fr : Frame := { params := addrs, locBase := base + args.length, flags := flags0 }
    let out := execBlock prog 8 m0 fr fn.body
    ⟨addrs.map out.mem.get, (List.range fn.nlocals).map fun i => out.mem.get (base + args.length + i), out.fr.flags⟩

theorem runFn_eq_runFnFull (prog : Array Fn) (consts : FV × FV × FV) (f : Nat) (args : List FV) (alias : List Nat) :
    runFn prog consts f args alias = (runFnFull prog consts f args alias (fun _ => false)).params := by
  unfold runFn runFnFull
  cases prog[f]? <;> rfl

end GoBk.IR
