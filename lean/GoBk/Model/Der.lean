import GoBk.Base.Bytes
import GoBk.Spec.Secp
import GoBk.Gen.Consts
/-
  Model of `Signature.Serialise`, `parseSig` (ParseSignature / ParseDERSignature),
  `canonicalizeInt`, `canonicalPadding` in /repo/bec/signature.go.
  Index arithmetic is transcribed literally; `siglen+2` is byte arithmetic (wraps at 256) as in Go.
-/
namespace GoBk.Der
open GoBk Bytes

def N : Nat := Gen.c_N
def halfOrder : Nat := N / 2      -- `new(big.Int).Rsh(N, 1)`

/-- `canonicalizeInt` -/
def canonicalizeInt (v : Nat) : Bytes :=
  let b := natBE v
  let b := if b.isEmpty then [0] else b
  if b.headD 0 &&& 0x80 != 0 then 0 :: b else b

/-- `Serialise` on (R,S); `S` above half order is replaced by `|N - S|` (big.Int.Bytes drops the sign). -/
def serialise (r s : Nat) : Bytes :=
  let sigS := if s > halfOrder then (Int.natAbs ((N : Int) - (s : Int))) else s
  let rb := canonicalizeInt r
  let sb := canonicalizeInt sigS
  let length := 6 + rb.length + sb.length
  [0x30, UInt8.ofNat (length - 2), 0x02, UInt8.ofNat rb.length] ++ rb ++ [0x02, UInt8.ofNat sb.length] ++ sb

inductive PadErr | ok | negative | excessive
deriving DecidableEq

/-- `canonicalPadding` (argument is non-empty at both call sites) -/
def canonicalPadding (b : Bytes) : PadErr :=
  if b.headD 0 &&& 0x80 == 0x80 then .negative
  else if b.length > 1 && b.headD 0 == 0x00 && (b.getD 1 0) &&& 0x80 != 0x80 then .excessive
  else .ok

/-- `parseSig(sigStr, curve, der)`; `none` = error. -/
def parseSig (sig : Bytes) (der : Bool) : Option (Nat × Nat) :=
  if sig.length < Gen.k_minSigLen then none else
  if sig.getD 0 0 != 0x30 then none else
  let siglen : UInt8 := sig.getD 1 0
  let tot : Nat := (siglen + 2).toNat          -- byte addition, wraps
  if tot > sig.length || tot < Gen.k_minSigLen then none else
  let s := sig.take tot
  if s.getD 2 0 != 0x02 then none else
  let rLen := (s.getD 3 0).toNat
  let index := 4
  if rLen = 0 || rLen > s.length - index - 3 then none else
  let rBytes := (s.drop index).take rLen
  if der && canonicalPadding rBytes != .ok then none else
  let r := beNat rBytes
  let index := index + rLen
  if s.getD index 0 != 0x02 then none else
  let index := index + 1
  let sLen := (s.getD index 0).toNat
  let index := index + 1
  if sLen = 0 || sLen > s.length - index then none else
  let sBytes := (s.drop index).take sLen
  if der && canonicalPadding sBytes != .ok then none else
  let sv := beNat sBytes
  let index := index + sLen
  if index != s.length then none else
  if r = 0 then none else
  if sv = 0 then none else
  if r ≥ N then none else
  if sv ≥ N then none else
  some (r, sv)

def parseDER (b : Bytes) := parseSig b true
def parseLax (b : Bytes) := parseSig b false

end GoBk.Der

namespace GoBk.Spec
open GoBk Bytes
/-- DER INTEGER contents of a non-negative number: minimal big-endian two's complement. -/
def derInt (n : Nat) : Bytes :=
  let b := natBE n
  if b.isEmpty then [0] else if (b.headD 0).toNat ≥ 128 then 0 :: b else b

/-- the unique strict-DER encoding of SEQUENCE { INTEGER r, INTEGER s } (short-form lengths) -/
def der (r s : Nat) : Bytes :=
  let rb := derInt r
  let sb := derInt s
  [0x30, UInt8.ofNat (4 + rb.length + sb.length), 0x02, UInt8.ofNat rb.length] ++ rb ++
    [0x02, UInt8.ofNat sb.length] ++ sb

/-- the lax structure: same tags and lengths, integers are arbitrary non-empty unsigned byte strings -/
def derLaxOf (rb sb : Bytes) : Bytes :=
  [0x30, UInt8.ofNat (4 + rb.length + sb.length), 0x02, UInt8.ofNat rb.length] ++ rb ++
    [0x02, UInt8.ofNat sb.length] ++ sb
end GoBk.Spec
