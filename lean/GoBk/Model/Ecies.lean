import GoBk.Model.Rng
/- Model of /repo/bec/ciphering.go and /repo/crypto/encryption.go. -/
namespace GoBk.Ecies
open GoBk Bytes Spec

/-- `GenerateSharedSecret(priv, pub)`: 32-byte big-endian x of `d·pub`. -/
def sharedSecret (d : Nat) (pub : Pt) : Bytes :=
  natBEpad 32 (Curve.scalarMult pub (natBE d)).1

def addPKCSPadding (src : Bytes) : Bytes :=
  let padding := 16 - src.length % 16
  src ++ List.replicate padding (UInt8.ofNat padding)

/-- `removePKCSPadding` (src is non-empty at the call site) -/
def removePKCSPadding (src : Bytes) : Option Bytes :=
  let length := src.length
  let padLength := (src.getLastD 0).toNat
  if padLength > 16 || length < 16 then none else some (src.take (length - padLength))

/-- `Encrypt(pubkey, in)` given the tape of random reads. -/
def encrypt (pr : Prims) (pub : Pt) (msg : Bytes) (t : Rng.Tape) : Option (Bytes × Rng.Tape) :=
  match Rng.generateKey t with
  | none => none
  | some (d, ephPub, t) =>
    let ecdhKey := sharedSecret d pub
    let derived := pr.sha512 ecdhKey
    let keyE := derived.take 32
    let keyM := derived.drop 32
    let paddedIn := addPKCSPadding msg
    match Rng.readFull 16 t with
    | none => none
    | some (iv, t) =>
      let pb := Ecdsa.serUncompressed ephPub
      let head := iv ++ Gen.ciphCurveBytes ++ Gen.ciphCoordLength ++ (pb.drop 1).take 32 ++
                  Gen.ciphCoordLength ++ pb.drop 33
      let body := head ++ pr.cbcEnc keyE iv paddedIn
      some (body ++ pr.hmac256 keyM body, t)

/-- `Decrypt(priv, in)` -/
def decrypt (pr : Prims) (d : Nat) (inp : Bytes) : Option Bytes :=
  if inp.length < 16 + 70 + 16 + 32 then none else
  let iv := inp.take 16
  if (inp.drop 16).take 2 != Gen.ciphCurveBytes then none else
  if (inp.drop 18).take 2 != Gen.ciphCoordLength then none else
  let xBytes := (inp.drop 20).take 32
  if (inp.drop 52).take 2 != Gen.ciphCoordLength then none else
  let yBytes := (inp.drop 54).take 32
  let offset : Nat := 86
  match Ecdsa.parsePubKey ([0x04] ++ xBytes ++ yBytes) with
  | none => none
  | some pub =>
    -- (len(in) - aes.BlockSize - offset - sha256.Size) % aes.BlockSize, Go's truncated remainder on ints
    let rem : Int := Int.tmod ((inp.length : Int) - 16 - (offset : Int) - 32) 16
    if rem != 0 then none else
    let messageMAC := inp.drop (inp.length - 32)
    let ecdhKey := sharedSecret d pub
    let derived := pr.sha512 ecdhKey
    let keyE := derived.take 32
    let keyM := derived.drop 32
    let expected := pr.hmac256 keyM (inp.take (inp.length - 32))
    if messageMAC != expected then none else
    let plaintext := pr.cbcDec keyE iv ((inp.take (inp.length - 32)).drop offset)
    removePKCSPadding plaintext

/-- `crypto.Encrypt(block, text)` with the AES key standing for the cipher.Block -/
def cfbEncrypt (pr : Prims) (key text : Bytes) (t : Rng.Tape) : Option (Bytes × Rng.Tape) :=
  let b := pr.b64enc text
  match Rng.readFull 16 t with
  | none => none
  | some (iv, t) => some (iv ++ pr.cfbEnc key iv b, t)

/-- `crypto.Decrypt(block, ciphertext)` -/
def cfbDecrypt (pr : Prims) (key ct : Bytes) : Option Bytes :=
  if ct.length < 16 then none else
  pr.b64dec (pr.cfbDec key (ct.take 16) (ct.drop 16))

end GoBk.Ecies
