import GoBk.Base.Bytes
/-
  GoBk.Model.Heap — Go's slice semantics over an explicit heap (C16).  Core Lean only.

  A `Heap` is an array of backing arrays (each a byte string of FIXED length = its capacity);
  a `Slice` is Go's slice header (pointer, len, cap) with the pointer split into (array index, offset):
  `s` denotes the bytes `arrays[s.arr][s.off .. s.off+s.len)` and may grow in place up to
  `arrays[s.arr][s.off .. s.off+s.cap)`.

  What is and is not modelled:
  * `append` writes IN PLACE when `len + n ≤ cap` (this is what makes callee writes into a caller's
    spare capacity visible) and otherwise allocates a NEW array holding old contents ‖ new bytes.
    The capacity of the new array is taken to be exactly the new length: Go's growth policy
    (amortised doubling, size classes) only decides how much spare capacity the NEW array has; it is
    not observable through any pre-existing array, which is all that C16 speaks about.
  * Out-of-range indexing/slicing panics in Go.  The operations here are total: `store` out of range
    is a no-op, `reslice` does not check.  In the modelled functions every index is in range by a
    preceding length test (panic-freedom is C15's subject, not C16's); `Slice.WF` states the
    representation invariant under which the model coincides with Go.
  * The garbage collector is not modelled: arrays are never removed, indices are stable.
-/
namespace GoBk

/-- Go slice header: backing array, offset of element 0 in it, length, capacity (counted from `off`). -/
structure Slice where
  arr : Nat
  off : Nat
  len : Nat
  cap : Nat
deriving DecidableEq, Repr, Inhabited

/-- the heap: all backing arrays allocated so far -/
structure Heap where
  arrays : Array Bytes
deriving DecidableEq, Repr, Inhabited

/-- a heap operation's outcome: the heap afterwards and the returned value -/
structure HRes (α : Type) where
  heap : Heap
  val : α
deriving Repr

/-- Go's nil slice (`var result []byte`): length 0, capacity 0; its array index is never dereferenced
for a write of at least one byte. -/
def Slice.nil : Slice := ⟨0, 0, 0, 0⟩

namespace Heap

def size (h : Heap) : Nat := h.arrays.size

/-- contents of backing array `a` (empty if there is no such array) -/
def get (h : Heap) (a : Nat) : Bytes := h.arrays.getD a []

/-- overwrite `bs.length` bytes of `l` starting at `p` (within bounds: the length is kept) -/
def writeAt (l : Bytes) (p : Nat) (bs : Bytes) : Bytes :=
  l.take p ++ bs ++ l.drop (p + bs.length)

/-- raw write of `bs` into backing array `a` at absolute position `p` -/
def write (h : Heap) (a p : Nat) (bs : Bytes) : Heap :=
  ⟨h.arrays.modify a (fun l => writeAt l p bs)⟩

/-- a new backing array with the given contents -/
def push (h : Heap) (l : Bytes) : Heap := ⟨h.arrays.push l⟩

/-- `make([]byte, len, cap)`: a NEW zero-filled array of `cap` bytes. -/
def alloc (h : Heap) (len cap : Nat) : HRes Slice :=
  ⟨h.push (List.replicate cap 0), ⟨h.size, 0, len, cap⟩⟩

/-- a function result that Go returns in a fresh slice (`big.Int.Bytes()`, `hash.Sum(nil)`,
`base58.Decode`, `[]byte(string)` …): a NEW array holding exactly `bs`. -/
def allocBytes (h : Heap) (bs : Bytes) : HRes Slice :=
  ⟨h.push bs, ⟨h.size, 0, bs.length, bs.length⟩⟩

/-- the bytes denoted by a slice: `s[0:len(s)]` -/
def read (h : Heap) (s : Slice) : Bytes := ((h.get s.arr).drop s.off).take s.len

/-- `s[i]` -/
def readAt (h : Heap) (s : Slice) (i : Nat) : UInt8 := (h.read s).getD i 0

/-- the whole window a slice may legally reach by re-slicing: `s[0:cap(s)]` -/
def readCap (h : Heap) (s : Slice) : Bytes := ((h.get s.arr).drop s.off).take s.cap

/-- `s[i:j]` (Go requires `i ≤ j ≤ cap(s)`). -/
def reslice (s : Slice) (i j : Nat) : Slice := ⟨s.arr, s.off + i, j - i, s.cap - i⟩

/-- `append(s, bs...)`. -/
def append (h : Heap) (s : Slice) (bs : Bytes) : HRes Slice :=
  if s.len + bs.length ≤ s.cap then
    ⟨h.write s.arr (s.off + s.len) bs, { s with len := s.len + bs.length }⟩
  else
    ⟨h.push (h.read s ++ bs), ⟨h.size, 0, s.len + bs.length, s.len + bs.length⟩⟩

/-- `copy(dst, src)`: copies `min(len(dst), len(src))` bytes and returns that number. -/
def copyInto (h : Heap) (dst : Slice) (src : Bytes) : HRes Nat :=
  ⟨h.write dst.arr dst.off (src.take (min dst.len src.length)), min dst.len src.length⟩

/-- `s[i] = v` (Go panics when `i ≥ len(s)`; here: no-op). -/
def store (h : Heap) (s : Slice) (i : Nat) (v : UInt8) : Heap :=
  if i < s.len then h.write s.arr (s.off + i) [v] else h

/-- bytewise xor of two byte strings (length of the shorter) -/
def xorBytes (a b : Bytes) : Bytes := List.zipWith (· ^^^ ·) a b

/-- `cipher.Stream.XORKeyStream(dst, src)` with key stream `ks`: `dst[i] = src[i] ^ ks[i]`
(Go panics when `len(dst) < len(src)`). -/
def xorInto (h : Heap) (dst : Slice) (src ks : Bytes) : Heap :=
  h.write dst.arr dst.off (xorBytes src ks)

/-- `cipher.BlockMode.CryptBlocks(dst, src)` where `out` is the block mode's output for `src`. -/
def cryptBlocks (h : Heap) (dst : Slice) (out : Bytes) : Heap :=
  h.write dst.arr dst.off out

end Heap

/-- representation invariant of a slice in a heap: its array exists and the capacity window lies
inside it. -/
def Slice.WF (h : Heap) (s : Slice) : Prop :=
  s.arr < h.size ∧ s.len ≤ s.cap ∧ s.off + s.cap ≤ (h.get s.arr).length

instance (h : Heap) (s : Slice) : Decidable (s.WF h) := by unfold Slice.WF; exact inferInstance

/-- spare capacity behind the slice -/
def Slice.spare (s : Slice) : Nat := s.cap - s.len

end GoBk
