/-
  GoBk.Model.Conc — an abstract shared-memory model with `sync.Once` (property C17).

  What is modelled
  ----------------
  * Shared memory: locations `Loc`, values `Val`.  The pre-spawn phase (package initialisation,
    construction of the shared keys) is the list `Prog.init` of writes that is executed
    sequentially before any thread exists; it yields `Prog.mem0`.  Everything in it happens-before
    everything a thread does, so it cannot take part in a race and is not put on the trace.
  * A thread is a list of events `read ℓ | write ℓ f | doOnce o`.  `write ℓ f` stores `f regs`
    where `regs` are the values the current *frame* has read so far: the value written may depend
    on what was read.  `doOnce o` is a call `o.Do(body o)`.
  * `sync.Once`: each once is `notStarted | running t | done`.  A thread calling `Do(o)`
      - on `notStarted`: becomes the runner, pushes a fresh frame executing `body o`
        (label `onceBegin o`); when that frame is exhausted the once becomes `done`
        (label `onceEnd o`) and the caller continues;
      - on `running _`: is BLOCKED — it has no step until the runner finishes
        (a runner calling `Do` on its own once is blocked for ever, as in Go);
      - on `done`: returns immediately (label `oncePass o`).
    Bodies may call `Do` of other onces (`k.o.Do(func(){ … bec.S256() … })` does).
    A body starts with an empty register file: it is a closed computation over what it reads,
    i.e. deterministic given the memory.
  * Interleaving semantics: a schedule is a list of thread ids; `stepCfg` lets the chosen thread
    take its next atomic step, or leaves the configuration unchanged if that thread is blocked or
    finished.  Every interleaving of every number of threads is `run P sched` for some `sched`.
  * The trace records one `Step` per atomic action, with a sequence number (= its position).
  * happens-before `HB` = program order ∪ (the `onceEnd o` of the winning `Do(o)` → every later
    `oncePass o`) closed under transitivity — exactly the guarantee documented for `sync.Once`
    ("the return from f synchronizes-before the return of any call of once.Do(f)").
  * `DataRace`: two accesses to one location by different threads, at least one a write, not
    ordered by `HB` in either direction.

  Core Lean only.
-/
namespace GoBk.Model.Conc

abbrev Loc := Nat
abbrev Val := Nat
abbrev OnceId := Nat
abbrev Tid := Nat

/-- thread events -/
inductive Ev where
  | read (l : Loc)
  | write (l : Loc) (f : List Val → Val)
  | doOnce (o : OnceId)

/-- point update of a function on `Nat` -/
def upd {β : Type} (f : Nat → β) (a : Nat) (b : β) : Nat → β :=
  fun x => if x = a then b else f x

theorem upd_same {β : Type} (f : Nat → β) (a : Nat) (b : β) : upd f a b a = b := by
  simp [upd]

theorem upd_other {β : Type} (f : Nat → β) {a x : Nat} (b : β) (h : x ≠ a) : upd f a b x = f x := by
  simp [upd, h]

/-- a program: which once guards which location, the body of every once, the sequential
pre-spawn writes, and the threads -/
structure Prog where
  guard : Loc → Option OnceId
  body : OnceId → List Ev
  init : List (Loc × Val)
  threads : List (List Ev)

/-- memory after the sequential pre-spawn phase -/
def Prog.mem0 (P : Prog) : Loc → Val :=
  P.init.foldl (fun m lv => upd m lv.1 lv.2) (fun _ => 0)

inductive OnceSt where
  | notStarted
  | running (t : Tid)
  | done
  deriving DecidableEq, Repr

/-- an activation: the top-level code of a thread (`own = none`) or the body of a once -/
structure Frame where
  own : Option OnceId
  rest : List Ev
  regs : List Val

structure State where
  mem : Loc → Val
  once : OnceId → OnceSt
  thr : Tid → List Frame

/-- labels of atomic steps.  `rd` records the frame owner for the statement of the theorems. -/
inductive Act where
  | rd (l : Loc) (v : Val) (own : Option OnceId)
  | wr (l : Loc) (v : Val)
  | onceBegin (o : OnceId)
  | onceEnd (o : OnceId)
  | oncePass (o : OnceId)
  deriving DecidableEq, Repr

structure Step where
  seq : Nat
  tid : Tid
  act : Act
  deriving DecidableEq, Repr

def Act.loc : Act → Option Loc
  | .rd l _ _ => some l
  | .wr l _ => some l
  | _ => none

def Act.isWrite : Act → Bool
  | .wr _ _ => true
  | _ => false

def initState (P : Prog) : State where
  mem := P.mem0
  once := fun _ => .notStarted
  thr := fun t =>
    match P.threads[t]? with
    | some es => [{ own := none, rest := es, regs := [] }]
    | none => []

/-- the next atomic step of thread `t`, if it has one (`none`: finished or blocked) -/
def stepThread (P : Prog) (s : State) (t : Tid) : Option (Act × State) :=
  match s.thr t with
  | [] => none
  | f :: stk =>
    match f.rest with
    | [] =>
      match f.own with
      | none => none
      | some o => some (.onceEnd o, { s with once := upd s.once o .done, thr := upd s.thr t stk })
    | .read l :: es =>
      some (.rd l (s.mem l) f.own,
        { s with thr := upd s.thr t ({ f with rest := es, regs := s.mem l :: f.regs } :: stk) })
    | .write l g :: es =>
      some (.wr l (g f.regs),
        { s with mem := upd s.mem l (g f.regs), thr := upd s.thr t ({ f with rest := es } :: stk) })
    | .doOnce o :: es =>
      match s.once o with
      | .done => some (.oncePass o, { s with thr := upd s.thr t ({ f with rest := es } :: stk) })
      | .running _ => none
      | .notStarted =>
        some (.onceBegin o,
          { s with once := upd s.once o (.running t),
                   thr := upd s.thr t ({ own := some o, rest := P.body o, regs := [] } ::
                            { f with rest := es } :: stk) })

/-- a configuration: global state and the trace so far (newest step first) -/
structure Cfg where
  st : State
  tr : List Step

def stepCfg (P : Prog) (c : Cfg) (t : Tid) : Cfg :=
  match stepThread P c.st t with
  | none => c
  | some (a, s') => { st := s', tr := { seq := c.tr.length, tid := t, act := a } :: c.tr }

def exec (P : Prog) : Cfg → List Tid → Cfg
  | c, [] => c
  | c, t :: ts => exec P (stepCfg P c t) ts

def initCfg (P : Prog) : Cfg := { st := initState P, tr := [] }

/-- run the program under a schedule -/
def run (P : Prog) (sched : List Tid) : Cfg := exec P (initCfg P) sched

/-- the trace in execution order -/
def trace (P : Prog) (sched : List Tid) : List Step := (run P sched).tr.reverse

/-- happens-before on the steps of a trace -/
inductive HB (tr : List Step) : Step → Step → Prop where
  | po {a b : Step} : a ∈ tr → b ∈ tr → a.seq < b.seq → a.tid = b.tid → HB tr a b
  | sync {a b : Step} {o : OnceId} : a ∈ tr → b ∈ tr → a.seq < b.seq →
      a.act = .onceEnd o → b.act = .oncePass o → HB tr a b
  | trans {a b c : Step} : HB tr a b → HB tr b c → HB tr a c

/-- two actions conflict: same location, at least one write -/
def Conflict (a b : Act) : Prop :=
  ∃ l, a.loc = some l ∧ b.loc = some l ∧ (a.isWrite = true ∨ b.isWrite = true)

def DataRace (tr : List Step) : Prop :=
  ∃ a b, a ∈ tr ∧ b ∈ tr ∧ a.tid ≠ b.tid ∧ Conflict a.act b.act ∧ ¬ HB tr a b ∧ ¬ HB tr b a

/-- how often the body of once `o` was started -/
def beginCount (o : OnceId) (tr : List Step) : Nat :=
  tr.countP (fun s => s.act == Act.onceBegin o)

/-! ### The once discipline (hypotheses (a)–(c) of `once_discipline_race_free`) -/

/-- `okEvs P own Q es`: in the event list `es` of a frame owned by `own`, where `Q o` says that this
thread's `Do(o)` has already returned,
 (a) every write is to a location guarded by the once whose body this frame is,
 (b) every read of a location guarded by `o` is inside the body of `o` or program-ordered after a
     `Do(o)`,
 (c) there is nothing else (top-level code, `own = none`, can only read). -/
def okEvs (P : Prog) (own : Option OnceId) : (OnceId → Prop) → List Ev → Prop
  | _, [] => True
  | Q, .read l :: es => (∀ o, P.guard l = some o → own = some o ∨ Q o) ∧ okEvs P own Q es
  | Q, .write l _ :: es => (∃ o, own = some o ∧ P.guard l = some o) ∧ okEvs P own Q es
  | Q, .doOnce o :: es => okEvs P own (fun o' => o' = o ∨ Q o') es

/-- decidable version, with the list of onces already passed -/
def okEvsB (P : Prog) (own : Option OnceId) : List OnceId → List Ev → Bool
  | _, [] => true
  | ps, .read l :: es =>
      (match P.guard l with
       | none => true
       | some o => own == some o || ps.contains o) && okEvsB P own ps es
  | ps, .write l _ :: es =>
      (match P.guard l, own with
       | some o, some o' => o == o'
       | _, _ => false) && okEvsB P own ps es
  | ps, .doOnce o :: es => okEvsB P own (o :: ps) es

/-- the program follows the once discipline: hypotheses (a)–(c) hold for the code of every thread
(with no `Do` returned yet) and for the body of every once -/
structure WellFormed (P : Prog) : Prop where
  threads : ∀ es ∈ P.threads, okEvs P none (fun _ => False) es
  bodies : ∀ o, okEvs P (some o) (fun _ => False) (P.body o)

/-! ### The sequential reference: what initialisation produces when nothing interferes -/

/-- run the remaining events `es` of the body of once `o` sequentially on memory `m`;
locations guarded by `o` are read from `m`, every other location has its final value `fin`
(unguarded: never written; guarded by another once: read only after that once's `Do`). -/
def seqEvs (P : Prog) (fin : Loc → Val) (o : OnceId) : (Loc → Val) → List Val → List Ev → (Loc → Val)
  | m, _, [] => m
  | m, rs, .read l :: es => seqEvs P fin o m ((if P.guard l = some o then m l else fin l) :: rs) es
  | m, rs, .write l g :: es => seqEvs P fin o (upd m l (g rs)) rs es
  | m, rs, .doOnce _ :: es => seqEvs P fin o m rs es

/-- `fin` is the sequentially initialised memory: unguarded locations keep their pre-spawn value,
and the locations guarded by `o` hold what the body of `o`, run alone on the pre-spawn memory,
leaves there.  This is a statement about *sequential* executions of the bodies only. -/
structure Consistent (P : Prog) (fin : Loc → Val) : Prop where
  unguarded : ∀ l, P.guard l = none → fin l = P.mem0 l
  guarded : ∀ o l, P.guard l = some o → seqEvs P fin o P.mem0 [] (P.body o) l = fin l

/-- the read was made by the body of the once guarding the location (it may see the
intermediate state of its own initialisation) -/
def InOwnBody (own g : Option OnceId) : Prop := ∃ o, own = some o ∧ g = some o

end GoBk.Model.Conc
