import GoBk.Model.Base58
import GoBk.Model.Ecdsa
/- Model of /repo/wif/wif.go and `ExtendedKey.Address` layout. -/
namespace GoBk.Wif
open GoBk Bytes

/-- `WIF.String()` for key value `d`, compression flag and network byte. -/
def wifString (pr : Prims) (d : Nat) (compress : Bool) (netID : UInt8) : Bytes :=
  let a := [netID] ++ natBEpad Gen.k_privKeyBytesLen d
  let a := if compress then a ++ [UInt8.ofNat Gen.k_compressMagic] else a
  Base58.encode (a ++ (pr.sha256d a).take 4)

/-- `DecodeWIF`: (D, compress, netID) -/
def decodeWIF (pr : Prims) (s : Bytes) : Option (Nat × Bool × UInt8) :=
  let decoded := Base58.decode s
  let n := decoded.length
  let kl := Gen.k_privKeyBytesLen
  let comp : Option Bool :=
    if n == 1 + kl + 1 + 4 then
      (if decoded.getD 33 0 != UInt8.ofNat Gen.k_compressMagic then none else some true)
    else if n == 1 + kl + 4 then some false
    else none
  match comp with
  | none => none
  | some compress =>
    let tosum := if compress then decoded.take (1 + kl + 1) else decoded.take (1 + kl)
    let cksum := (pr.sha256d tosum).take 4
    if cksum != decoded.drop (n - 4) then none else
    some (beNat ((decoded.drop 1).take kl), compress, decoded.headD 0)

/-- P2PKH address layout: Base58(version ‖ hash160(pubkey) ‖ checksum). -/
def address (pr : Prims) (pubKeyBytes : Bytes) (addrID : UInt8) : Bytes :=
  let b := [addrID] ++ pr.hash160 pubKeyBytes
  Base58.encode (b ++ (pr.sha256d b).take 4)

end GoBk.Wif
