import GoBk.Model.Ecies
import GoBk.Model.Der
/- Model of /repo/envelope/jsonenvelope.go. -/
namespace GoBk.Envelope
open GoBk Bytes Spec

def mimeJSON : Bytes := "application/json".toUTF8.toList
def mimeB64 : Bytes := "base64".toUTF8.toList

/-- Go `hex.DecodeString` on the bytes of a string -/
def hexDecode (s : Bytes) : Option Bytes := Bytes.ofHexChars (s.map fun c => Char.ofNat c.toNat)

def stripBackslashes (s : Bytes) : Bytes := s.filter (· != 92)

inductive Res | valid | invalid | error
deriving DecidableEq, Repr

/-- `IsValid()`; optional fields as `Option`. -/
def isValid (pr : Prims) (payload : Bytes) (sig pk : Option Bytes) (mime : Bytes) : Res :=
  match sig, pk with
  | none, none => .valid
  | none, some _ => .error
  | some _, none => .error
  | some sg, some pkh =>
    match hexDecode pkh with
    | none => .error
    | some pub =>
    match Ecdsa.parsePubKey pub with
    | none => .error
    | some q =>
    match hexDecode sg with
    | none => .error
    | some sigBytes =>
    match Der.parseLax sigBytes with
    | none => .error
    | some (r, s) =>
      let hash : Option Bytes :=
        if mime == mimeJSON then some (pr.sha256 (stripBackslashes payload))
        else if mime == mimeB64 then (pr.b64dec payload).map pr.sha256
        else some (pr.sha256 payload)
      match hash with
      | none => .error
      | some h => if Ecdsa.verify q h r s then .valid else .invalid

def hexEncode (b : Bytes) : Bytes := (Bytes.toHex b).toUTF8.toList

/-! ### UTF-8 sanitisation (fix D14)

`NewJSONEnvelope` replaces the marshalled payload by `string([]rune(payload))` when it is not valid UTF-8: every
byte that does not start a well-formed sequence becomes U+FFFD (`EF BF BD`) — what `encoding/json` does to the
payload string when the envelope itself is serialised.  Well-formedness is Go's `unicode/utf8` table: no overlong
forms, no surrogates, nothing above U+10FFFF. -/

/-- length (1..4) of the well-formed UTF-8 sequence at the head of `b`, or 0 -/
def utf8SeqLen : Bytes → Nat
  | [] => 0
  | b0 :: rest =>
    let cont (c : UInt8) : Bool := 0x80 ≤ c && c ≤ 0xBF
    if b0 < 0x80 then 1
    else if 0xC2 ≤ b0 && b0 ≤ 0xDF then
      match rest with
      | b1 :: _ => if cont b1 then 2 else 0
      | _ => 0
    else if 0xE0 ≤ b0 && b0 ≤ 0xEF then
      match rest with
      | b1 :: b2 :: _ =>
        let lo : UInt8 := if b0 == 0xE0 then 0xA0 else 0x80
        let hi : UInt8 := if b0 == 0xED then 0x9F else 0xBF
        if lo ≤ b1 && b1 ≤ hi && cont b2 then 3 else 0
      | _ => 0
    else if 0xF0 ≤ b0 && b0 ≤ 0xF4 then
      match rest with
      | b1 :: b2 :: b3 :: _ =>
        let lo : UInt8 := if b0 == 0xF0 then 0x90 else 0x80
        let hi : UInt8 := if b0 == 0xF4 then 0x8F else 0xBF
        if lo ≤ b1 && b1 ≤ hi && cont b2 && cont b3 then 4 else 0
      | _ => 0
    else 0

def sanitizeAux : Nat → Bytes → Bytes
  | 0, _ => []
  | fuel + 1, b =>
    match b with
    | [] => []
    | _ :: rest =>
      let n := utf8SeqLen b
      if n == 0 then 0xEF :: 0xBF :: 0xBD :: sanitizeAux fuel rest
      else b.take n ++ sanitizeAux fuel (b.drop n)

/-- `string([]rune(s))` on bytes -/
def sanitizeUtf8 (b : Bytes) : Bytes := sanitizeAux b.length b

def validUtf8 (b : Bytes) : Bool := sanitizeUtf8 b == b

/-- `NewJSONEnvelope(payload)` given the marshalled payload AS STORED IN THE ENVELOPE (i.e. after `sanitizeUtf8`,
see `newEnvelopeRaw`) and the tape: (signature hex, public key hex) -/
def newEnvelope (pr : Prims) (fuel : Nat) (pl : Bytes) (t : Rng.Tape) : Option (Bytes × Bytes) :=
  match Rng.generateKey t with
  | none => none
  | some (d, pub, _) =>
    let hash := pr.sha256 (stripBackslashes pl)
    match Ecdsa.sign pr fuel d hash with
    | none => none
    | some (r, s) => some (hexEncode (Der.serialise r s), hexEncode (Ecdsa.serCompressed pub))

/-- `NewJSONEnvelope` from what `json.Marshal(payload)` returned: (payload stored in the envelope, signature hex,
public key hex) -/
def newEnvelopeRaw (pr : Prims) (fuel : Nat) (raw : Bytes) (t : Rng.Tape) : Option (Bytes × Bytes × Bytes) :=
  let pl := sanitizeUtf8 raw
  (newEnvelope pr fuel pl t).map fun (sg, pk) => (pl, sg, pk)

end GoBk.Envelope
