import GoBk.Model.Ecies
import GoBk.Model.Der
/- Model of /repo/envelope/jsonenvelope.go. -/
namespace GoBk.Envelope
open GoBk Bytes Spec

def mimeJSON : Bytes := "application/json".toUTF8.toList
def mimeB64 : Bytes := "base64".toUTF8.toList

/-- Go `hex.DecodeString` on the bytes of a string -/
def hexDecode (s : Bytes) : Option Bytes := Bytes.ofHexChars (s.map fun c => Char.ofNat c.toNat)

def stripBackslashes (s : Bytes) : Bytes := s.filter (· != 92)

inductive Res | valid | invalid | error
deriving DecidableEq, Repr

/-- `IsValid()`; optional fields as `Option`. -/
def isValid (pr : Prims) (payload : Bytes) (sig pk : Option Bytes) (mime : Bytes) : Res :=
  match sig, pk with
  | none, none => .valid
  | none, some _ => .error
  | some _, none => .error
  | some sg, some pkh =>
    match hexDecode pkh with
    | none => .error
    | some pub =>
    match Ecdsa.parsePubKey pub with
    | none => .error
    | some q =>
    match hexDecode sg with
    | none => .error
    | some sigBytes =>
    match Der.parseLax sigBytes with
    | none => .error
    | some (r, s) =>
      let hash : Option Bytes :=
        if mime == mimeJSON then some (pr.sha256 (stripBackslashes payload))
        else if mime == mimeB64 then (pr.b64dec payload).map pr.sha256
        else some (pr.sha256 payload)
      match hash with
      | none => .error
      | some h => if Ecdsa.verify q h r s then .valid else .invalid

def hexEncode (b : Bytes) : Bytes := (Bytes.toHex b).toUTF8.toList

/-- `NewJSONEnvelope(payload)` given the marshalled payload and the tape: (signature hex, public key hex) -/
def newEnvelope (pr : Prims) (fuel : Nat) (pl : Bytes) (t : Rng.Tape) : Option (Bytes × Bytes) :=
  match Rng.generateKey t with
  | none => none
  | some (d, pub, _) =>
    let hash := pr.sha256 (stripBackslashes pl)
    match Ecdsa.sign pr fuel d hash with
    | none => none
    | some (r, s) => some (hexEncode (Der.serialise r s), hexEncode (Ecdsa.serCompressed pub))

end GoBk.Envelope
