import GoBk.Model.Envelope
import GoBk.Model.Bip32
import GoBk.Model.Bip39
/-
  GoBk.Model.Checked — a small Go-semantics layer in which run-time panics are VISIBLE, and
  checked transcriptions (statement by statement from the Go source in /repo) of the
  index-bearing parts of the decoders named in property C15.

  The models in Model/*.lean are total functions built from `getD`/`take`/`drop`; they cannot
  panic, so "the model is total" says nothing about index errors in the Go code.  Here every Go
    * index expression        `b[i]`            goes through `idx` / `idxI`,
    * slice expression        `b[i:j]`          goes through `slice` / `sliceI` (`sliceFrom`, `sliceTo`),
    * pointer dereference     `*p`              goes through `deref`,
    * `make([]byte, n)`                         goes through `makeLen`,
    * `binary.BigEndian.Uint32(b)`              goes through `beUint32`   (needs `len(b) ≥ 4`),
    * `cipher.BlockMode.CryptBlocks(dst, src)`  goes through `cryptBlocks`
                                                (panics unless `len(src) % 16 = 0` and `len(dst) ≥ len(src)`),
    * `cipher.Stream.XORKeyStream(dst, src)`    goes through `xorKeyStream` (panics if `len(dst) < len(src)`),
    * `cipher.NewCBCDecrypter/NewCFBDecrypter(block, iv)` goes through `ivCheck`
                                                (panics unless `len(iv) = block.BlockSize()`)
  and yields `Res.panic` exactly when the Go run time would panic.

  `GoBk.Proofs.CheckedLemmas` proves, for each transcription `fC`, that `fC x ≠ .panic` for all
  inputs and that `fC` computes exactly what the total model `f` computes.

  NOT modelled: slice capacity (`b[i:j]` with `len(b) < j ≤ cap(b)` is legal Go; we treat it as a
  panic, which is conservative and never arises in the transcribed code), integer overflow of
  `int` (64-bit; all lengths involved are < 2^63), aliasing (`InexactOverlap` in `CryptBlocks`:
  the destination is a fresh `make`), the internals of the standard library and of big.Int.
  Indexing of fixed-size ARRAYS by constants (`sha256.Sum256(x)[0]`, `derivedKey[:32]` on a
  `[64]byte`) is checked by the Go compiler and is transcribed with the total operations; so is
  `crypto.Sha256d(x)[:4]` (wif.go, extendedkey.go): `Sha256d` returns `data[:]` of a `[32]byte`,
  its length is 32 on every call.
  Indices that Go computes with `int` subtraction are `Int` here (`idxI`, `sliceI`), so that a
  negative index is a panic and not a truncated `Nat`.

  Loops: every loop of the transcribed functions is a `for` over a slice/string or a counted loop;
  they are transcribed as structural or fuel recursions whose fuel is the loop bound
  (`decodeLoopC`, `numZerosC`: `len(b)+1`; `wordsLoopC`: structural over the fields;
  `mnemonicLoopC`: `ms/11+1`; `tableRowsC`: structural over `range newK`; `derivePathAuxC`:
  structural over the path components).  The only unbounded
  loop in the package is the RFC 6979 nonce loop (`Ecdsa.nonceLoop`, fuel parameter); it is not
  reachable from any of the decoders below.
-/
namespace GoBk.Checked
open GoBk Bytes Spec

/-- result of a Go call: a value, an `error` return, or a run-time panic -/
inductive Res (α : Type) where
  | ok (a : α)
  | err
  | panic
deriving DecidableEq, Repr

def Res.bind {α β : Type} : Res α → (α → Res β) → Res β
  | .ok a, f => f a
  | .err, _ => .err
  | .panic, _ => .panic

instance : Monad Res where
  pure := .ok
  bind := Res.bind

/-- a total model result seen as a `Res`: `none` is the error return -/
def ofOption {α : Type} : Option α → Res α
  | some a => .ok a
  | none => .err

def ofExcept {ε α : Type} : Except ε α → Res α
  | .ok a => .ok a
  | .error _ => .err

/-! ### the primitives -/

/-- `l[i]` for an index that Go computes without subtraction -/
def idx {α : Type} (l : List α) (i : Nat) : Res α :=
  match l[i]? with
  | some a => .ok a
  | none => .panic

/-- `l[i]` for an `int` index: negative or `≥ len(l)` panics -/
def idxI {α : Type} (l : List α) (i : Int) : Res α :=
  if 0 ≤ i then idx l i.toNat else .panic

/-- `l[i:j]`: panics unless `0 ≤ i ≤ j ≤ len(l)` (capacity is not modelled) -/
def slice {α : Type} (l : List α) (i j : Nat) : Res (List α) :=
  if i ≤ j ∧ j ≤ l.length then .ok ((l.drop i).take (j - i)) else .panic

def sliceI {α : Type} (l : List α) (i j : Int) : Res (List α) :=
  if 0 ≤ i ∧ 0 ≤ j then slice l i.toNat j.toNat else .panic

/-- `l[i:]` -/
def sliceFrom {α : Type} (l : List α) (i : Nat) : Res (List α) := slice l i l.length
def sliceFromI {α : Type} (l : List α) (i : Int) : Res (List α) := sliceI l i l.length
/-- `l[:j]` -/
def sliceTo {α : Type} (l : List α) (j : Nat) : Res (List α) := slice l 0 j
def sliceToI {α : Type} (l : List α) (j : Int) : Res (List α) := sliceI l 0 j

/-- `*p`: nil dereference panics -/
def deref {α : Type} : Option α → Res α
  | some a => .ok a
  | none => .panic

/-- `English[i]` -/
def listIdx {α : Type} (l : List α) (i : Nat) : Res α := idx l i

/-- index into a fixed-size array of `n` rows -/
def arrIdx (n : Nat) (i : Int) : Res Unit := if 0 ≤ i ∧ i < n then .ok () else .panic

/-- `make([]byte, n)`: a negative length panics -/
def makeLen (n : Int) : Res Nat := if 0 ≤ n then .ok n.toNat else .panic

/-- `binary.BigEndian.Uint32(b)` (`_ = b[3]` bounds check) -/
def beUint32 (b : Bytes) : Res Nat := if 4 ≤ b.length then .ok (beNat (b.take 4)) else .panic

/-- what a destination buffer of `n` (zeroed) bytes holds after `out` was written at its start -/
def fit (n : Nat) (out : Bytes) : Bytes := (out ++ List.replicate n 0).take n

/-- `mode.CryptBlocks(dst, src)` with `dst = make([]byte, dstLen)`; `f` is the block transformation -/
def cryptBlocks (f : Bytes → Bytes) (dstLen : Nat) (src : Bytes) : Res Bytes :=
  if src.length % 16 ≠ 0 then .panic        -- "crypto/cipher: input not full blocks"
  else if dstLen < src.length then .panic   -- "crypto/cipher: output smaller than input"
  else .ok (fit dstLen (f src))

/-- `stream.XORKeyStream(dst, src)` with `dst = make([]byte, dstLen)`; the key stream leaves
`f src` in `dst[:len(src)]` -/
def xorKeyStream (f : Bytes → Bytes) (dstLen : Nat) (src : Bytes) : Res Bytes :=
  if dstLen < src.length then .panic        -- "crypto/cipher: output smaller than input"
  else .ok (f src)

/-- `cipher.NewCBCDecrypter(block, iv)` / `cipher.NewCFBDecrypter(block, iv)`: panics unless
`len(iv) == block.BlockSize()`.  The block is an AES block (`BlockSize() = 16`) in every model. -/
def ivCheck (blockSize : Nat) (iv : Bytes) : Res Unit :=
  if iv.length ≠ blockSize then .panic else .ok ()

/-- Go `copy(dst, src)`: the new contents of `dst` -/
def copyInto (dst src : Bytes) : Bytes := src.take dst.length ++ dst.drop src.length

/-! ### bec/signature.go: `canonicalPadding`, `parseSig` -/

/-- `canonicalPadding(b)`: `b[0]`, and `b[1]` under the short-circuit guard `len(b) > 1 && b[0] == 0` -/
def canonicalPaddingC (b : Bytes) : Res Der.PadErr := do
  let b0 ← idx b 0
  if b0 &&& 0x80 == 0x80 then pure .negative
  else if b.length > 1 && b0 == 0x00 then do
    let b1 ← idx b 1
    if b1 &&& 0x80 != 0x80 then pure .excessive else pure .ok
  else pure .ok

/-- the final range checks of `parseSig` (no indexing) -/
def rangeCheckC (r sv : Nat) : Res (Nat × Nat) :=
  if r = 0 then .err else
  if sv = 0 then .err else
  if r ≥ Der.N then .err else
  if sv ≥ Der.N then .err else
  .ok (r, sv)

/-- `parseSig` from "0x02. length already checked in previous if." to the end -/
def parseSC (der : Bool) (sigStr : Bytes) (r : Nat) (index : Nat) : Res (Nat × Nat) := do
  let t ← idx sigStr index                              -- sigStr[index] != 0x02
  if t != 0x02 then .err else do
  let index := index + 1
  let sl ← idx sigStr index                             -- sLen := int(sigStr[index])
  let sLen := sl.toNat
  let index := index + 1
  -- sLen <= 0 || sLen > len(sigStr)-index   (int arithmetic)
  if sLen = 0 || (sLen : Int) > (sigStr.length : Int) - (index : Int) then .err else do
  let sBytes ← slice sigStr index (index + sLen)        -- sigStr[index : index+sLen]
  let pe ← canonicalPaddingC sBytes                     -- evaluated before `if der`
  if der && pe != .ok then .err else do
  let sv := beNat sBytes
  let index := index + sLen
  if index != sigStr.length then .err else
  rangeCheckC r sv

/-- `parseSig` after the slice `sigStr = sigStr[:siglen+2]` (`index = 2`) -/
def parseRC (der : Bool) (sigStr : Bytes) : Res (Nat × Nat) := do
  let index := 2
  let t ← idx sigStr index                              -- sigStr[index] != 0x02
  if t != 0x02 then .err else do
  let index := index + 1
  let rl ← idx sigStr index                             -- rLen := int(sigStr[index])
  let rLen := rl.toNat
  let index := index + 1
  -- rLen <= 0 || rLen > len(sigStr)-index-3   (int arithmetic)
  if rLen = 0 || (rLen : Int) > (sigStr.length : Int) - (index : Int) - 3 then .err else do
  let rBytes ← slice sigStr index (index + rLen)        -- sigStr[index : index+rLen]
  let pe ← canonicalPaddingC rBytes
  if der && pe != .ok then .err else do
  let r := beNat rBytes
  let index := index + rLen
  parseSC der sigStr r index

/-- `parseSig(sigStr, curve, der)` -/
def parseSigC (sigStr : Bytes) (der : Bool) : Res (Nat × Nat) := do
  if sigStr.length < Gen.k_minSigLen then .err else do
  let m ← idx sigStr 0                                  -- sigStr[index] != 0x30
  if m != 0x30 then .err else do
  let siglen ← idx sigStr 1                             -- siglen := sigStr[index]
  let tot : Nat := (siglen + 2).toNat                   -- byte arithmetic, wraps
  if tot > sigStr.length || tot < Gen.k_minSigLen then .err else do
  let sigStr ← sliceTo sigStr tot                       -- sigStr = sigStr[:siglen+2]
  parseRC der sigStr

/-! ### bec/pubkey.go: `ParsePubKey` -/

def parsePubKeyC (b : Bytes) : Res Pt :=
  if b.length == 0 then .err else do
  let fmt0 ← idx b 0                                    -- format := pubKeyStr[0]
  let ybit := (fmt0 &&& 0x1) == 0x1
  let fmt := fmt0 &&& (~~~ (0x1 : UInt8))
  if b.length == Gen.k_pubKeyBytesLenUncompressed then
    if fmt.toNat != Gen.k_pubkeyUncompressed && fmt.toNat != Gen.k_pubkeyHybrid then .err else
    if fmt.toNat == Gen.k_pubkeyUncompressed && ybit then .err else do
    let xb ← slice b 1 33                               -- pubKeyStr[1:33]
    let yb ← sliceFrom b 33                             -- pubKeyStr[33:]
    let x := beNat xb
    let y := beNat yb
    if fmt.toNat == Gen.k_pubkeyHybrid && ybit != (y % 2 == 1) then .err else
    if x ≥ Ecdsa.Pp then .err else
    if y ≥ Ecdsa.Pp then .err else
    if !Curve.isOnCurve (x, y) then .err else .ok (x, y)
  else if b.length == Gen.k_pubKeyBytesLenCompressed then
    if fmt.toNat != Gen.k_pubkeyCompressed then .err else do
    let xb ← slice b 1 33                               -- pubKeyStr[1:33]
    let x := beNat xb
    if x ≥ Ecdsa.Pp then .err else
    match Ecdsa.decompressPoint x ybit with
    | none => .err
    | some y => .ok (x, y)
  else .err

/-! ### bec/signature.go: `hashToInt`, `recoverKeyFromSignature`, `RecoverCompact` -/

/-- `hashToInt`: `hash[:orderBytes]` under the guard `len(hash) > orderBytes` -/
def hashToIntC (hash : Bytes) : Res Nat := do
  let hash ← if hash.length > 32 then sliceTo hash 32 else pure hash
  let ret := beNat hash
  let excess : Int := (hash.length : Int) * 8 - 256
  if excess > 0 then pure (ret >>> excess.toNat) else pure ret

/-- `recoverKeyFromSignature` (big.Int arithmetic; the only slice expression is inside `hashToInt`) -/
def recoverKeyC (r s : Nat) (msg : Bytes) (iter : Nat) (doChecks : Bool) : Res Pt :=
  if r ≥ Ecdsa.N then .err else
  if r = 0 then .err else
  if s ≥ Ecdsa.N then .err else
  if s = 0 then .err else
  let rx := Ecdsa.N * (iter / 2) + r
  if rx ≥ Ecdsa.Pp then .err else
  match Ecdsa.decompressPoint rx (iter % 2 == 1) with
  | none => .err
  | some ry =>
    let R : Pt := (rx, ry)
    if doChecks && !(isInf (Curve.scalarMult R (natBE Ecdsa.N))) then .err else do
    let e ← hashToIntC msg
    let invr := invMod r Ecdsa.N
    let invrS := (invr * s) % Ecdsa.N
    let sR := Curve.scalarMult R (natBE invrS)
    let e := ((Ecdsa.N - e % Ecdsa.N) % Ecdsa.N * invr) % Ecdsa.N
    let minuseG := Curve.scalarBaseMult (natBE e)
    let q := Curve.add sR minuseG
    if q.1 = 0 && q.2 = 0 then .err else .ok q

def recoverCompactC (sig h : Bytes) : Res (Pt × Bool) :=
  let bitlen := (Gen.c_BitSize + 7) / 8
  if sig.length != 1 + bitlen * 2 then .err else do
  let b0 ← idx sig 0                                    -- signature[0]
  let iteration := ((b0 - 27) &&& (~~~ (4 : UInt8))).toNat
  let rb ← slice sig 1 (bitlen + 1)                     -- signature[1 : bitlen+1]
  let sb ← sliceFrom sig (bitlen + 1)                   -- signature[bitlen+1:]
  let q ← recoverKeyC (beNat rb) (beNat sb) h iteration false
  let b0' ← idx sig 0                                   -- signature[0] in the return statement
  pure (q, ((b0' - 27) &&& 4) == 4)

/-! ### bec/btcec.go `ScalarBaseMult` (table rows), bec/privkey.go `PrivKeyFromBytes` -/

/-- `for i, byteVal := range newK { p := curve.bytePoints[diff+i][byteVal] … }`:
`bytePoints` is a `[32][256][3]fieldVal`; the column index is a byte (always in range), the row
index `diff+i` is the one that could go wrong. -/
def tableRowsC (diff : Int) : List Nat → Res Unit
  | [] => .ok ()
  | i :: is => do
    arrIdx 32 (diff + i)
    tableRowsC diff is

def scalarBaseMultIdxC (k : Bytes) : Res Unit :=
  let newK := Curve.moduloReduce k
  let diff : Int := 32 - (newK.length : Int)             -- len(curve.bytePoints) - len(newK)
  tableRowsC diff (List.range newK.length)

/-- `PrivKeyFromBytes(curve, pk)`: no error return -/
def privKeyFromBytesC (pk : Bytes) : Res (Nat × Pt) := do
  scalarBaseMultIdxC pk
  pure (beNat pk, Curve.scalarBaseMult pk)

/-! ### bec/ciphering.go: `removePKCSPadding`, `Decrypt` -/

def removePKCSPaddingC (src : Bytes) : Res Bytes := do
  let length : Int := src.length
  let last ← idxI src (length - 1)                      -- src[length-1]
  let padLength : Int := last.toNat
  if padLength > 16 || length < 16 then .err else
  sliceToI src (length - padLength)                     -- src[:length-padLength]

def eciesDecryptC (pr : Prims) (d : Nat) (inp : Bytes) : Res Bytes :=
  if inp.length < 16 + 70 + 16 + 32 then .err else do
  let iv ← sliceTo inp 16                               -- in[:aes.BlockSize]
  let offset := 16
  let cb ← slice inp offset (offset + 2)                -- in[offset:offset+2]
  if cb != Gen.ciphCurveBytes then .err else do
  let offset := offset + 2
  let xl ← slice inp offset (offset + 2)
  if xl != Gen.ciphCoordLength then .err else do
  let offset := offset + 2
  let xBytes ← slice inp offset (offset + 32)           -- in[offset : offset+32]
  let offset := offset + 32
  let yl ← slice inp offset (offset + 2)
  if yl != Gen.ciphCoordLength then .err else do
  let offset := offset + 2
  let yBytes ← slice inp offset (offset + 32)
  let offset := offset + 32
  -- pb := make([]byte, 65); pb[0] = 0x04; copy(pb[1:33], xBytes); copy(pb[33:], yBytes)
  let pb : Bytes := List.replicate 65 0
  let pb := (0x04 : UInt8) :: pb.drop 1                 -- pb[0] on a 65-byte buffer
  let d1 ← slice pb 1 33
  let pb := pb.take 1 ++ copyInto d1 xBytes ++ pb.drop 33
  let d2 ← sliceFrom pb 33
  let pb := pb.take 33 ++ copyInto d2 yBytes
  let pub ← parsePubKeyC pb
  let rem : Int := Int.tmod ((inp.length : Int) - 16 - (offset : Int) - 32) 16
  if rem != 0 then .err else do
  let messageMAC ← sliceFromI inp ((inp.length : Int) - 32)   -- in[len(in)-sha256.Size:]
  let ecdhKey := Ecies.sharedSecret d pub
  let derived := pr.sha512 ecdhKey                      -- [64]byte
  let keyE := derived.take 32
  let keyM := derived.drop 32
  let hashed ← sliceToI inp ((inp.length : Int) - 32)   -- in[:len(in)-sha256.Size]
  let expected := pr.hmac256 keyM hashed
  if messageMAC != expected then .err else do
  ivCheck 16 iv                                         -- cipher.NewCBCDecrypter(block, iv)
  let n ← makeLen ((inp.length : Int) - (offset : Int) - 32)  -- make([]byte, len(in)-offset-sha256.Size)
  let src ← sliceI inp offset ((inp.length : Int) - 32)       -- in[offset : len(in)-sha256.Size]
  let plaintext ← cryptBlocks (pr.cbcDec keyE iv) n src
  removePKCSPaddingC plaintext

/-! ### base58/base58.go, base58check.go -/

/-- `for i := len(b) - 1; i >= 0; i-- { tmp := b58[b[i]]; if tmp == 255 { return "" } … }`;
`none` = the early `return []byte("")` -/
def decodeLoopC (b : Bytes) : Nat → Int → Nat → Nat → Res (Option Nat)
  | 0, _, answer, _ => .ok (some answer)
  | fuel+1, i, answer, j =>
    if i ≥ 0 then do
      let c ← idxI b i                                  -- b[i]
      let tmp ← idx Gen.b58 c.toNat                     -- b58[…]: [256]byte indexed by a byte
      if tmp == 255 then pure none
      else decodeLoopC b fuel (i - 1) (answer + j * tmp.toNat) (j * 58)
    else .ok (some answer)

/-- `for numZeros = 0; numZeros < len(b); numZeros++ { if b[numZeros] != alphabetIdx0 { break } }` -/
def numZerosC (b : Bytes) : Nat → Nat → Res Nat
  | 0, nz => .ok nz
  | fuel+1, nz =>
    if nz < b.length then do
      let c ← idx b nz                                  -- b[numZeros]
      if c != Gen.alphabetIdx0 then pure nz else numZerosC b fuel (nz + 1)
    else .ok nz

def base58DecodeC (b : Bytes) : Res Bytes := do
  let r ← decodeLoopC b (b.length + 1) ((b.length : Int) - 1) 0 1
  match r with
  | none => pure []
  | some answer =>
    let tmpval := natBE answer
    let numZeros ← numZerosC b (b.length + 1) 0
    let flen := numZeros + tmpval.length
    let val : Bytes := List.replicate flen 0            -- make([]byte, flen)
    let dst ← sliceFrom val numZeros                    -- val[numZeros:]
    pure (val.take numZeros ++ copyInto dst tmpval)

def checkDecodeC (pr : Prims) (input : Bytes) : Res (Bytes × UInt8) := do
  let decoded ← base58DecodeC input
  if decoded.length < 5 then .err else do
  let version ← idx decoded 0                           -- decoded[0]
  let ck ← sliceFromI decoded ((decoded.length : Int) - 4)    -- decoded[len(decoded)-4:]
  let body ← sliceToI decoded ((decoded.length : Int) - 4)    -- decoded[:len(decoded)-4]
  if Base58.checksum pr body != ck then .err else do
  let payload ← sliceI decoded 1 ((decoded.length : Int) - 4) -- decoded[1 : len(decoded)-4]
  pure (payload, version)

/-! ### wif/wif.go: `DecodeWIF` -/

def decodeWIFC (pr : Prims) (wif : Bytes) : Res (Nat × Bool × UInt8) := do
  let decoded ← base58DecodeC wif
  let decodedLen := decoded.length
  let kl := Gen.k_privKeyBytesLen
  let comp : Res Bool :=
    if decodedLen == 1 + kl + 1 + 4 then do
      let m ← idx decoded 33                            -- decoded[33]
      if m != UInt8.ofNat Gen.k_compressMagic then .err else pure true
    else if decodedLen == 1 + kl + 4 then pure false
    else .err
  let compress ← comp
  let tosum ← if compress then sliceTo decoded (1 + kl + 1) else sliceTo decoded (1 + kl)
  let cksum := (pr.sha256d tosum).take 4                -- crypto.Sha256d(tosum)[:4] (32-byte hash)
  let tail ← sliceFromI decoded ((decodedLen : Int) - 4)      -- decoded[decodedLen-4:]
  if cksum != tail then .err else do
  let netID ← idx decoded 0                             -- decoded[0]
  let privKeyBytes ← slice decoded 1 (1 + kl)           -- decoded[1 : 1+bec.PrivKeyBytesLen]
  let (dnum, _) ← privKeyFromBytesC privKeyBytes
  pure (dnum, compress, netID)

/-! ### bip32/extendedkey.go: `NewKeyFromString` -/

def fromStringC (pr : Prims) (key : Bytes) : Res Bip32.XKey := do
  let decoded ← base58DecodeC key
  if decoded.length != Gen.k_serializedKeyLen + 4 then .err else do
  let payload ← sliceToI decoded ((decoded.length : Int) - 4)     -- decoded[:len(decoded)-4]
  let checkSum ← sliceFromI decoded ((decoded.length : Int) - 4)  -- decoded[len(decoded)-4:]
  let expected := (pr.sha256d payload).take 4           -- crypto.Sha256d(payload)[:4] (32-byte hash)
  if checkSum != expected then .err else do
  let version ← sliceTo payload 4                       -- payload[:4]
  let d ← slice payload 4 5                             -- payload[4:5][0]
  let depth ← idx d 0
  let parentFP ← slice payload 5 9                      -- payload[5:9]
  let cn ← slice payload 9 13                           -- binary.BigEndian.Uint32(payload[9:13])
  let childNum ← beUint32 cn
  let chainCode ← slice payload 13 45                   -- payload[13:45]
  let keyData ← slice payload 45 78                     -- payload[45:78]
  let k0 ← idx keyData 0                                -- keyData[0] == 0x00
  let isPrivate := k0 == 0x00
  if isPrivate then do
    let keyData ← sliceFrom keyData 1                   -- keyData[1:]
    let n := beNat keyData
    if n ≥ Bip32.N || n = 0 then .err else
    pure { key := keyData, chainCode, parentFP, version, childNum, depth := depth.toNat, isPrivate := true }
  else do
    let _ ← parsePubKeyC keyData
    pure { key := keyData, chainCode, parentFP, version, childNum, depth := depth.toNat, isPrivate := false }

/-! ### bip32/derivationpaths.go -/

/-- `childInt` after the regexp test: `strings.HasSuffix`, `TrimRight`, `ParseUint` — no index
expression; the total model is the transcription -/
def childIndexC (c : Bytes) : Res Nat := ofOption (Bip32.childIndex c)

/-- `binary.BigEndian.PutUint32(b, v)` (`_ = b[3]` bounds check): the new contents of `b` -/
def putUint32 (b : Bytes) (v : Nat) : Res Bytes :=
  if 4 ≤ b.length then .ok (Bip32.be32 v ++ b.drop 4) else .panic

/-- `ExtendedKey.Child(i)` (bip32/extendedkey.go), first half: building `data`
(`data[offset:]`, `data[keyLen:]`, `PutUint32`) -/
def childDataC (k : Bip32.XKey) (i : Nat) (hardened : Bool) : Res Bytes := do
  let keyLen : Nat := 33
  let data : Bytes := List.replicate (keyLen + 4) 0     -- make([]byte, keyLen+4)
  let data ← (if hardened then do
      let offset : Int := (keyLen : Int) - (k.key.length : Int)
      let offset : Int := if offset < 1 then 1 else offset
      let dst ← sliceFromI data offset                  -- copy(data[offset:], k.key)
      pure (data.take offset.toNat ++ copyInto dst k.key)
    else pure (copyInto data k.pubKeyBytes) : Res Bytes) -- copy(data, k.pubKeyBytes())
  let dst ← sliceFrom data keyLen                       -- PutUint32(data[keyLen:], i)
  let dst ← putUint32 dst i
  pure (data.take keyLen ++ dst)

/-- `Child(i)`, second half: `ilr[:len(ilr)/2]`, `ilr[len(ilr)/2:]`, `ParsePubKey(k.key)`.
(`crypto.Hash160(x)[:4]` slices a 20-byte RIPEMD-160 digest: transcribed with `take`.) -/
def childFinishC (pr : Prims) (k : Bip32.XKey) (i : Nat) (data : Bytes) : Res Bip32.XKey := do
  let ilr := pr.hmac512 k.chainCode data
  let il ← sliceTo ilr (ilr.length / 2)                 -- ilr[:len(ilr)/2]
  let childChainCode ← sliceFrom ilr (ilr.length / 2)   -- ilr[len(ilr)/2:]
  let ilNum := beNat il
  if ilNum ≥ Bip32.N || ilNum = 0 then .err else
  let parentFP := (pr.hash160 k.pubKeyBytes).take 4
  if k.isPrivate then
    let keyNum := beNat k.key
    let childKey := natBE ((ilNum + keyNum) % Bip32.N)
    pure { key := childKey, chainCode := childChainCode, parentFP := parentFP, version := k.version,
           childNum := i, depth := k.depth + 1, isPrivate := true }
  else
    let ilp := Curve.scalarBaseMult il
    if ilp.1 = 0 || ilp.2 = 0 then .err else do
    let pub ← parsePubKeyC k.key
    let c := Curve.add ilp pub
    pure { key := Ecdsa.serCompressed c, chainCode := childChainCode, parentFP := parentFP,
           version := k.version, childNum := i, depth := k.depth + 1, isPrivate := false }

def childC (pr : Prims) (k : Bip32.XKey) (i : Nat) : Res Bip32.XKey :=
  if k.depth == Gen.k_maxUint8 then .err else
  let hardened := i ≥ Gen.k_hardenedKeyStart
  if !k.isPrivate && hardened then .err else do
  let data ← childDataC k i hardened
  childFinishC pr k i data

/-- the `for _, child := range children` loop of `DeriveChildFromPath` -/
def derivePathAuxC (pr : Prims) : Bip32.XKey → List Bytes → Res Bip32.XKey
  | k, [] => .ok k
  | k, c :: cs => do
    let i ← childIndexC c
    let k' ← childC pr k i
    derivePathAuxC pr k' cs

/-- `DeriveChildFromPath`: `strings.Split` and a `range` loop over the components — no index
expression in the function itself; the index expressions are those of `Child` (`childC`). -/
def derivePathC (pr : Prims) (k : Bip32.XKey) (p : Bytes) : Res Bip32.XKey :=
  if p.isEmpty then .ok k else derivePathAuxC pr k (Bip32.splitOn 47 p)

/-- `DeriveNumber`: `ss[0]`, `ss[1]`, `ss[2]` after the `len(ss) != 3` test -/
def deriveNumberC (p : Bytes) : Res UInt64 :=
  let ss := Bip32.splitOn 47 p
  if ss.length != 3 then .err else do
  let s0 ← idx ss 0
  match Bip32.parseUint32 s0 with
  | none => .err
  | some d1 => do
  let d1 := UInt64.ofNat d1
  let seed := (d1 - ((1 : UInt64) <<< 31)) <<< 33
  let s1 ← idx ss 1
  match Bip32.parseUint32 s1 with
  | none => .err
  | some d2 => do
  let d2 := UInt64.ofNat d2
  let seed := seed + ((d2 - ((1 : UInt64) <<< 31)) <<< 2)
  let s2 ← idx ss 2
  match Bip32.parseUint32 s2 with
  | none => .err
  | some d3 =>
  let d3 := UInt64.ofNat d3
  pure (seed + (d3 - ((1 : UInt64) <<< 31)))

/-! ### bip39/bip39.go -/

/-- `idx < len(English) && English[idx] == w` (short-circuit) -/
def wordOkC (w : Bytes) : Res Bool :=
  let i := Bip39.searchStrings w
  if i < Gen.english.length then do
    let e ← listIdx Gen.english i                       -- English[idx]
    pure (e == w)
  else pure false

/-- `for _, w := range wl { … continue / return nil, ErrInvalidWordlist }` -/
def wordsLoopC : List Bytes → Res Bool
  | [] => .ok true
  | w :: ws => do
    let b ← wordOkC w
    if b then wordsLoopC ws else pure false

def mnemonicToSeedC (pr : Prims) (words pass : Bytes) : Res Bytes :=
  let wl := Bip39.fields words
  let wlen := wl.length
  if wlen % 3 != 0 || wlen < 12 || wlen > 24 then .err else do
  let allOk ← wordsLoopC wl
  if allOk then pure (pr.pbkdf2_512 words (Bip39.mnemonicSalt pass) 2048 64) else .err

/-- `for i := 11; i <= ms; i += 11 { output := ParseInt(bitString[i-11:i], 2, 32);
words = append(words, English[output]) }` -/
def mnemonicLoopC (bitString : List Bool) (ms : Nat) : Nat → Nat → Res (List Bytes)
  | 0, _ => .ok []
  | fuel+1, i =>
    if i ≤ ms then do
      let g ← sliceI bitString ((i : Int) - 11) i       -- bitString[i-11:i]
      let output := Bip39.bitsToNat g
      let w ← listIdx Gen.english output                -- English[output]
      let rest ← mnemonicLoopC bitString ms fuel (i + 11)
      pure (w :: rest)
    else .ok []

def mnemonicC (pr : Prims) (entropy pass : Bytes) : Res (Bytes × Bytes) :=
  let ent := entropy.length * 8
  if ent % 32 != 0 || ent < 128 || ent > 256 then .err else do
  let cs := ent / 32
  let ms := ent + cs
  let e' := entropy ++ [(pr.sha256 entropy).headD 0]    -- sha256.Sum256(entropy)[0] on a [32]byte
  let bitString := e'.flatMap Bip39.bitsOfByte
  let words ← mnemonicLoopC bitString ms (ms / 11 + 1) 11
  let m := List.intercalate [32] words
  pure (m, pr.pbkdf2_512 m (Bip39.mnemonicSalt pass) 2048 64)

/-! ### crypto/encryption.go: `Decrypt` -/

def cfbDecryptC (pr : Prims) (key ct : Bytes) : Res Bytes :=
  if ct.length < 16 then .err else do
  let iv ← sliceTo ct 16                                -- ciphertext[:aes.BlockSize]
  ivCheck 16 iv                                         -- cipher.NewCFBDecrypter(cipherBlock, iv)
  let n ← makeLen ((ct.length : Int) - 16)              -- make([]byte, len(ciphertext)-aes.BlockSize)
  let src ← sliceFrom ct 16                             -- ciphertext[aes.BlockSize:]
  let text ← xorKeyStream (pr.cfbDec key iv) n src
  ofOption (pr.b64dec text)

/-! ### envelope/jsonenvelope.go: `IsValid` -/

/-- `IsValid()`: `sig`, `pk` are the `*string` fields (`none` = nil) -/
def isValidC (pr : Prims) (payload : Bytes) (sig pk : Option Bytes) (mime : Bytes) : Res Bool :=
  if sig.isNone && pk.isNone then .ok true else
  if sig.isNone || pk.isNone then .err else do
  let pkh ← deref pk                                    -- *j.PublicKey
  match Envelope.hexDecode pkh with
  | none => .err
  | some pub => do
  let q ← parsePubKeyC pub
  let sg ← deref sig                                    -- *j.Signature
  match Envelope.hexDecode sg with
  | none => .err
  | some sigBytes => do
  let (r, s) ← parseSigC sigBytes false
  let hash : Option Bytes :=
    if mime == Envelope.mimeJSON then some (pr.sha256 (Envelope.stripBackslashes payload))
    else if mime == Envelope.mimeB64 then (pr.b64dec payload).map pr.sha256
    else some (pr.sha256 payload)
  match hash with
  | none => .err
  | some h => pure (Ecdsa.verify q h r s)

end GoBk.Checked
