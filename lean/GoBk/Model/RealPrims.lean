import GoBk.Model.Prims
import GoBk.Hash.All
/- the executable instantiation of `Prims` used by the driver -/
namespace GoBk
open GoBk.Hash

def realPrims : Prims where
  sha256 := sha256
  sha512 := sha512
  ripemd160 := ripemd160
  hmac256 := hmacSha256
  hmac512 := hmacSha512
  pbkdf2_512 := pbkdf2HmacSha512
  cbcEnc := cbcEncrypt
  cbcDec := cbcDecrypt
  cfbEnc := cfbEncrypt
  cfbDec := cfbDecrypt
  b64enc := base64Encode
  b64dec := base64Decode

end GoBk
