import GoBk.Model.XKeyStore
/-
  Heap-level model of `*bip32.ExtendedKey` histories (C18): byte ARRAYS, SLICES `(array, offset,
  length)` into them, and key records whose `key, pubKey, chainCode, parentFP, version` are slices —
  with the allocation and sharing pattern of /repo/bip32/extendedkey.go (after the `Neuter` fix):

    NewMaster          key = lr[:32], chainCode = lr[32:] of ONE fresh 64-byte array `lr`;
                       parentFP a fresh 4-byte array; version = net.HDPrivateKeyID[:] (the network's
                       global array)
    Child              version = the PARENT's version slice (shared); chainCode = ilr[32:] of the
                       fresh HMAC output; key = fresh (`big.Int.Bytes()` / `SerialiseCompressed()`);
                       parentFP = Hash160(...)[:4] of a fresh 20-byte array
    Neuter (private)   key = copy of pubKeyBytes(), chainCode and parentFP copies (three fresh
                       arrays); version = the registered network's HDPublicKeyID[:] array
    Neuter (public), DeriveChildFromPath("")   the receiver itself
    NewKeyFromString   version = decoded[0:4], parentFP = decoded[5:9], chainCode = decoded[13:45],
                       key = decoded[46:78] (private) / decoded[45:78] (public): ranges of ONE fresh
                       82-byte array `decoded`
    pubKeyBytes()      for a private key with empty `pubKey`: a fresh 33-byte array is cached there
                       (called by Child — normal index or successful — by Neuter, by a path's first
                       Child)
    Zero               writes zeros THROUGH key, pubKey, chainCode, parentFP, then key = version = nil
    SetNet             repoints version at the network's array

  Values (what the hash/curve computations return) are taken from the value-level model
  `GoBk.Bip32` applied to the bytes the slices currently denote (`Heap.absKey`); the invariant
  `Inv` (`GoBk.Proofs.Bip32Lemmas`, property theorems in Props/C18) includes that a non-empty `pubKey` cache holds exactly `pubKeyBytes` of those
  bytes, which is what makes reading the cache equivalent to recomputing.  Intermediate keys of a
  multi-component path are unreachable garbage and are not recorded as objects.  Core Lean only.
-/
namespace GoBk.XKeyHeap
open GoBk Bytes Bip32 XKeyStore

structure Slice where
  arr : Nat
  off : Nat
  len : Nat
deriving DecidableEq, Repr, Inhabited

/-- the nil slice -/
def Slice.nil : Slice := ⟨0, 0, 0⟩

structure HKey where
  key : Slice
  pubKey : Slice
  chainCode : Slice
  parentFP : Slice
  version : Slice
  childNum : Nat
  depth : Nat
  isPrivate : Bool
deriving Repr, Inhabited

/-- the slices `Zero` writes through -/
def HKey.writable (k : HKey) : List Slice := [k.key, k.pubKey, k.chainCode, k.parentFP]

structure Heap where
  mem : Array Bytes := #[]
  objs : Array HKey := #[]
  regs : Array (Option Nat) := #[]

/-- the bytes a slice denotes -/
def Heap.read (h : Heap) (s : Slice) : Bytes := ((h.mem.getD s.arr []).drop s.off).take s.len

/-- the BIP32 value a key record denotes -/
def Heap.absKey (h : Heap) (k : HKey) : XKey :=
  { key := h.read k.key, chainCode := h.read k.chainCode, parentFP := h.read k.parentFP,
    version := h.read k.version, childNum := k.childNum, depth := k.depth, isPrivate := k.isPrivate }

/-- abstraction to the object store of `GoBk.XKeyStore` -/
def Heap.abs (h : Heap) : State := { objs := h.objs.map h.absKey, regs := h.regs }

def Heap.get (h : Heap) (reg : Nat) : Option (Nat × HKey) :=
  match h.regs[reg]? with
  | some (some id) => (h.objs[id]?).map fun k => (id, k)
  | _ => none

def Heap.fail (h : Heap) : Heap := { h with regs := h.regs.push none }
def Heap.alias (h : Heap) (id : Nat) : Heap := { h with regs := h.regs.push (some id) }
def Heap.pushKey (h : Heap) (k : HKey) : Heap :=
  { h with objs := h.objs.push k, regs := h.regs.push (some h.objs.size) }

/-- the network arrays: array `2n` is `nets[n].HDPrivateKeyID`, array `2n+1` is `nets[n].HDPublicKeyID` -/
def netMem (nets : List Net) : Array Bytes := (nets.flatMap fun n => [n.hdPriv, n.hdPub]).toArray

def privSlice (nets : List Net) (n : Nat) : Slice := ⟨2 * n, 0, ((nets[n]?).map (·.hdPriv.length)).getD 0⟩
def pubSlice (nets : List Net) (n : Nat) : Slice := ⟨2 * n + 1, 0, ((nets[n]?).map (·.hdPub.length)).getD 0⟩

/-- `pubKeyBytes()` on object `id`: fill the cache of a private key whose cache is empty -/
def Heap.cachePub (h : Heap) (id : Nat) : Heap :=
  match h.objs[id]? with
  | none => h
  | some k =>
    if k.isPrivate && k.pubKey.len == 0 then
      let b := (h.absKey k).pubKeyBytes
      { h with mem := h.mem.push b, objs := h.objs.set! id { k with pubKey := ⟨h.mem.size, 0, b.length⟩ } }
    else h

/-- does `Child(i)` on the value `kv` reach a call of `pubKeyBytes()`? -/
def cacheCond (pr : Prims) (kv : XKey) (i : Nat) : Bool :=
  kv.isPrivate && kv.depth != 255 && (decide (i < 2 ^ 31) || (Bip32.child pr kv i).toOption.isSome)

/-- a successful `Child` returning the value `c`: three fresh arrays, the parent's version slice -/
def Heap.newChild (h : Heap) (parentVersion : Slice) (c : XKey) : Heap :=
  let a := h.mem.size
  let h1 : Heap := { h with mem := ((h.mem.push (List.replicate 32 0 ++ c.chainCode)).push c.key).push
                                    (c.parentFP ++ List.replicate 16 0) }
  h1.pushKey { key := ⟨a + 1, 0, c.key.length⟩, pubKey := Slice.nil, chainCode := ⟨a, 32, c.chainCode.length⟩,
               parentFP := ⟨a + 2, 0, c.parentFP.length⟩, version := parentVersion,
               childNum := c.childNum, depth := c.depth, isPrivate := c.isPrivate }

/-- `Neuter` of a private key returning the value `c`: three fresh copies, a network array as version -/
def Heap.newNeutered (h : Heap) (version : Slice) (c : XKey) : Heap :=
  let a := h.mem.size
  let h1 : Heap := { h with mem := ((h.mem.push c.key).push c.chainCode).push c.parentFP }
  h1.pushKey { key := ⟨a, 0, c.key.length⟩, pubKey := Slice.nil, chainCode := ⟨a + 1, 0, c.chainCode.length⟩,
               parentFP := ⟨a + 2, 0, c.parentFP.length⟩, version := version,
               childNum := c.childNum, depth := c.depth, isPrivate := c.isPrivate }

/-- `NewKeyFromString` returning the value `c`: all fields are ranges of the one array `decoded` -/
def Heap.newParsed (h : Heap) (decoded : Bytes) (c : XKey) : Heap :=
  let a := h.mem.size
  let h1 : Heap := { h with mem := h.mem.push decoded }
  h1.pushKey { key := if c.isPrivate then ⟨a, 46, 32⟩ else ⟨a, 45, 33⟩, pubKey := Slice.nil,
               chainCode := ⟨a, 13, 32⟩, parentFP := ⟨a, 5, 4⟩, version := ⟨a, 0, 4⟩,
               childNum := c.childNum, depth := c.depth, isPrivate := c.isPrivate }

/-- `NewMaster` returning the value `m` for network `n`: key and chain code are the two halves of `lr` -/
def Heap.newMaster (h : Heap) (nets : List Net) (n : Nat) (m : XKey) : Heap :=
  let a := h.mem.size
  let h1 : Heap := { h with mem := (h.mem.push (m.key ++ m.chainCode)).push m.parentFP }
  h1.pushKey { key := ⟨a, 0, m.key.length⟩, pubKey := Slice.nil, chainCode := ⟨a, m.key.length, m.chainCode.length⟩,
               parentFP := ⟨a + 1, 0, m.parentFP.length⟩, version := privSlice nets n,
               childNum := m.childNum, depth := m.depth, isPrivate := m.isPrivate }

/-- `zero(b)`: write zeros through a slice -/
def Heap.writeZeros (h : Heap) (s : Slice) : Heap :=
  { h with mem := h.mem.modify s.arr fun b => b.take s.off ++ List.replicate s.len 0 ++ b.drop (s.off + s.len) }

/-- the registered public-id array for a private id (first registered network with that id) -/
def lookupPubSlice (nets : List Net) (v : Bytes) : Slice :=
  match nets.findIdx? (fun n => n.hdPriv == v) with
  | some n => pubSlice nets n
  | none => Slice.nil

def hstep (pr : Prims) (nets : List Net) (h : Heap) : Op → Option Heap
  | .child r i =>
    if r ≥ h.regs.size then none else
    match h.get r with
    | none => some h.fail
    | some (id, k) =>
      let kv := h.absKey k
      let h1 := if cacheCond pr kv i then h.cachePub id else h
      match Bip32.child pr kv i with
      | .error _ => some h1.fail
      | .ok c => some (h1.newChild k.version c)
  | .neuter r =>
    if r ≥ h.regs.size then none else
    match h.get r with
    | none => some h.fail
    | some (id, k) =>
      if !k.isPrivate then some (h.alias id) else
      let kv := h.absKey k
      match Bip32.neuter (nets.map fun n => (n.hdPriv, n.hdPub)) kv with
      | .error _ => some h.fail
      | .ok c => some ((h.cachePub id).newNeutered (lookupPubSlice nets kv.version) c)
  | .path r p =>
    if r ≥ h.regs.size then none else
    match h.get r with
    | none => some h.fail
    | some (id, k) =>
      if p.isEmpty then some (h.alias id) else
      let kv := h.absKey k
      let h1 := match (Bip32.splitOn 47 p).head? >>= Bip32.childIndex with
        | some i => if cacheCond pr kv i then h.cachePub id else h
        | none => h
      match Bip32.deriveChildFromPath pr kv p with
      | .error _ => some h1.fail
      | .ok c => some (h1.newChild k.version c)
  | .reparse r =>
    if r ≥ h.regs.size then none else
    match h.get r with
    | none => some h.fail
    | some (_, k) =>
      let s := Bip32.toString pr (h.absKey k)
      match Bip32.fromString pr s with
      | .error _ => some h.fail
      | .ok c => some (h.newParsed (Base58.decode s) c)
  | .setNet r n =>
    if r ≥ h.regs.size then none else
    match nets[n]? with
    | none => none
    | some _ =>
      match h.get r with
      | none => some h
      | some (id, k) =>
        let k' : HKey := { k with version := if k.isPrivate then privSlice nets n else pubSlice nets n }
        some { h with objs := h.objs.set! id k' }
  | .zero r =>
    if r ≥ h.regs.size then none else
    match h.get r with
    | none => some h
    | some (id, k) =>
      let h1 := (((h.writeZeros k.key).writeZeros k.pubKey).writeZeros k.chainCode).writeZeros k.parentFP
      let k' : HKey := { k with key := Slice.nil, version := Slice.nil, depth := 0, childNum := 0, isPrivate := false }
      some { h1 with objs := h1.objs.set! id k' }

def hrun (pr : Prims) (nets : List Net) : Heap → List Op → Option Heap
  | h, [] => some h
  | h, op :: ops => match hstep pr nets h op with
    | none => none
    | some h' => hrun pr nets h' ops

/-- the heap before the first key exists: only the network arrays -/
def hempty (nets : List Net) : Heap := { mem := netMem nets }

/-- initial heap with the root `NewMaster(seed, nets[n])` -/
def hinitSeed (pr : Prims) (nets : List Net) (seed : Bytes) (n : Nat) : Option Heap :=
  match nets[n]? with
  | none => none
  | some net =>
    match Bip32.newMaster pr seed net.hdPriv with
    | .error _ => some (hempty nets).fail
    | .ok m => some ((hempty nets).newMaster nets n m)

/-- initial heap with the root `NewKeyFromString(s)` -/
def hinitStr (pr : Prims) (nets : List Net) (s : Bytes) : Heap :=
  match Bip32.fromString pr s with
  | .error _ => (hempty nets).fail
  | .ok c => (hempty nets).newParsed (Base58.decode s) c

end GoBk.XKeyHeap
