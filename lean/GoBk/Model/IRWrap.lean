import GoBk.Model.IR
/-
  Wrap detection for the regenerated formulas: the IR semantics of `GoBk.IR` run in lock-step with the
  unbounded `_exact` twins of the field operations; the first operation whose machine result differs from
  its exact twin (an overflow, underflow or truncation of some 32/64-bit word) is reported together with
  its operands, as a `field.*` op line that re-runs that single operation on the real code.
  Core Lean only (linked into the driver).  `Proofs/IRSound.magCheck_sound` proves that under the magnitude
  contracts this never fires; this executable check is what searches for a concrete witness when a changed
  formula breaks that proof (C09).
-/
namespace GoBk.IRW
open GoBk.IR GoBk.Gen.Field

def fvWords (f : FV) : List UInt32 := [f.n0, f.n1, f.n2, f.n3, f.n4, f.n5, f.n6, f.n7, f.n8, f.n9]
def fvStr (f : FV) : String :=
  ",".intercalate ((fvWords f).map fun w => String.ofList (Nat.toDigits 16 w.toNat))

/-- the exact twin of `applyOp` on the word vectors of the operands -/
def applyOpExact (m : Mem) (fr : Frame) (dst : Cell) : Op → FN
  | .set src => setVal_exact (m.get (fr.addr src)).toN
  | .setInt k => setInt_exact k
  | .add src => add_exact (m.get (fr.addr dst)).toN (m.get (fr.addr src)).toN
  | .add2 a b => add2_exact (m.get (fr.addr a)).toN (m.get (fr.addr b)).toN
  | .addInt k => addInt_exact (m.get (fr.addr dst)).toN k
  | .negate k => negate_exact (m.get (fr.addr dst)).toN k
  | .negateVal src k => negateVal_exact (m.get (fr.addr src)).toN k
  | .mulInt k => mulInt_exact (m.get (fr.addr dst)).toN k
  | .mul src => mul_exact (m.get (fr.addr dst)).toN (m.get (fr.addr src)).toN
  | .mul2 a b => mul2_exact (m.get (fr.addr a)).toN (m.get (fr.addr b)).toN
  | .square => square_exact (m.get (fr.addr dst)).toN
  | .squareVal src => squareVal_exact (m.get (fr.addr src)).toN
  | .normalise => normalise_exact (m.get (fr.addr dst)).toN
  | .inverse => inverse_exact (m.get (fr.addr dst)).toN
  | .sqrtVal src => sqrtVal_exact (m.get (fr.addr src)).toN

/-- the single operation as a `field.*` op line of the harness -/
def opLine (m : Mem) (fr : Frame) (dst : Cell) : Op → String
  | .set src => "field.set " ++ fvStr (m.get (fr.addr src))
  | .setInt k => "field.setint " ++ toString k
  | .add src => "field.add " ++ fvStr (m.get (fr.addr dst)) ++ " " ++ fvStr (m.get (fr.addr src))
  | .add2 a b => "field.add2 " ++ fvStr (m.get (fr.addr a)) ++ " " ++ fvStr (m.get (fr.addr b))
  | .addInt k => "field.addint " ++ fvStr (m.get (fr.addr dst)) ++ " " ++ toString k
  | .negate k => "field.neg " ++ fvStr (m.get (fr.addr dst)) ++ " " ++ toString k
  | .negateVal src k => "field.negval " ++ fvStr (m.get (fr.addr src)) ++ " " ++ toString k
  | .mulInt k => "field.mulint " ++ fvStr (m.get (fr.addr dst)) ++ " " ++ toString k
  | .mul src => "field.mul " ++ fvStr (m.get (fr.addr dst)) ++ " " ++ fvStr (m.get (fr.addr src))
  | .mul2 a b => "field.mul2 " ++ fvStr (m.get (fr.addr a)) ++ " " ++ fvStr (m.get (fr.addr b))
  | .square => "field.sq " ++ fvStr (m.get (fr.addr dst))
  | .squareVal src => "field.sqval " ++ fvStr (m.get (fr.addr src))
  | .normalise => "field.normalise " ++ fvStr (m.get (fr.addr dst))
  | .inverse => "field.inv " ++ fvStr (m.get (fr.addr dst))
  | .sqrtVal src => "field.sqrt " ++ fvStr (m.get (fr.addr src))

/-- magnitude in the sense of the field contracts: words 0..8 ≤ m·(2^26+2^20), word 9 ≤ m·2^22 -/
def magLeW (m : Nat) (f : FV) : Bool :=
  let w := (fvWords f).map (·.toNat)
  (w.take 9).all (· ≤ 68157440 * m) && w.getD 9 0 ≤ 4194304 * m

/-- least magnitude of a representation (1000 if above 64) -/
def minMag (f : FV) : Nat := ((List.range 65).find? fun m => magLeW m f).getD 1000

/-- is this operation invoked within its documented magnitude contract, on the ACTUAL operand values? -/
def opContractOk (m : Mem) (fr : Frame) (dst : Cell) : Op → Bool
  | .set _ | .setInt _ => true
  | .add src => minMag (m.get (fr.addr dst)) + minMag (m.get (fr.addr src)) ≤ 63
  | .add2 a b => minMag (m.get (fr.addr a)) + minMag (m.get (fr.addr b)) ≤ 63
  | .addInt k => minMag (m.get (fr.addr dst)) + 1 ≤ 63 && k ≤ 68157440
  | .negate k => minMag (m.get (fr.addr dst)) ≤ k && k ≤ 63
  | .negateVal src k => minMag (m.get (fr.addr src)) ≤ k && k ≤ 63
  | .mulInt k => k * minMag (m.get (fr.addr dst)) ≤ 63
  | .mul src => minMag (m.get (fr.addr dst)) ≤ 8 && minMag (m.get (fr.addr src)) ≤ 8
  | .mul2 a b => minMag (m.get (fr.addr a)) ≤ 8 && minMag (m.get (fr.addr b)) ≤ 8
  | .square => minMag (m.get (fr.addr dst)) ≤ 8
  | .squareVal src => minMag (m.get (fr.addr src)) ≤ 8
  | .normalise => (fvWords (m.get (fr.addr dst))).all fun w => w.toNat ≤ 4292870144
  | .inverse => minMag (m.get (fr.addr dst)) ≤ 8
  | .sqrtVal src => minMag (m.get (fr.addr src)) ≤ 8

structure WOut where
  mem : Mem
  fr : Frame
  returned : Bool
  wrap : Option String      -- the first operation that wraps ("wrap <field.* op line>") or is invoked outside its
                            -- magnitude contract ("contract <field.* op line>")
  nops : Nat                -- operations executed

mutual
def execStmtW (prog : Array Fn) (fuel : Nat) (m : Mem) (fr : Frame) (w : Option String) (n : Nat) : Stmt → WOut
  | .op dst o =>
    let r := applyOp m fr dst o
    let w' := match w with
      | some s => some s
      | none =>
        if r.toN != applyOpExact m fr dst o then some ("wrap " ++ opLine m fr dst o)
        else if !opContractOk m fr dst o then some ("contract " ++ opLine m fr dst o)
        else none
    ⟨m.set (fr.addr dst) r, fr, false, w', n + 1⟩
  | .setFlag i c =>
    let v := evalCond m fr c
    ⟨m, { fr with flags := fun j => if j = i then v else fr.flags j }, false, w, n⟩
  | .ite c t e => if evalCond m fr c then execBlockW prog fuel m fr w n t else execBlockW prog fuel m fr w n e
  | .ret => ⟨m, fr, true, w, n⟩
  | .call f args =>
    match fuel with
    | 0 => ⟨m, fr, false, w, n⟩
    | fuel' + 1 =>
      match prog[f]? with
      | none => ⟨m, fr, false, w, n⟩
      | some fn =>
        let callee : Frame := { params := args.map fr.addr, locBase := m.next }
        let m0 : Mem := { vals := fun a => if m.next ≤ a ∧ a < m.next + fn.nlocals then zero else m.vals a,
                          next := m.next + fn.nlocals }
        let out := execBlockW prog fuel' m0 callee w n fn.body
        ⟨out.mem, fr, false, out.wrap, out.nops⟩
def execBlockW (prog : Array Fn) (fuel : Nat) (m : Mem) (fr : Frame) (w : Option String) (n : Nat) : Block → WOut
  | .nil => ⟨m, fr, false, w, n⟩
  | .cons s rest =>
    let o := execStmtW prog fuel m fr w n s
    if o.returned then o else execBlockW prog fuel o.mem o.fr o.wrap o.nops rest
end

/-- `runFn` with wrap detection: (final parameter values, first wrapping op, number of ops executed) -/
def runFnW (prog : Array Fn) (consts : FV × FV × FV) (f : Nat) (args : List FV) (alias : List Nat)
    (flags0 : Nat → Bool := fun _ => false) : List FV × Option String × Nat :=
  match prog[f]? with
  | none => ([], none, 0)
  | some fn =>
    let base := 3
    let addrs := (List.range args.length).map fun i => base + alias.getD i i
    let vals0 : Nat → FV := fun a =>
      if a = 0 then consts.1 else if a = 1 then consts.2.1 else if a = 2 then consts.2.2
      else if a < base + args.length then args.getD (a - base) zero
      else zero
    let m0 : Mem := { vals := vals0, next := base + args.length + fn.nlocals }
    let fr : Frame := { params := addrs, locBase := base + args.length, flags := flags0 }
    let out := execBlockW prog 8 m0 fr none 0 fn.body
    (addrs.map out.mem.get, out.wrap, out.nops)

end GoBk.IRW
