import GoBk.Model.IR
/-
  Wrap detection for the regenerated formulas: the IR semantics of `GoBk.IR` run in lock-step with the
  unbounded `_exact` twins of the field operations; the first operation whose machine result differs from
  its exact twin (an overflow, underflow or truncation of some 32/64-bit word) is reported together with
  its operands, as a `field.*` op line that re-runs that single operation on the real code.
  Core Lean only (linked into the driver).  `Proofs/IRSound.magCheck_sound` proves that under the magnitude
  contracts this never fires; this executable check is what searches for a concrete witness when a changed
  formula breaks that proof (C09).
-/
namespace GoBk.IRW
open GoBk.IR GoBk.Gen.Field

def fvWords (f : FV) : List UInt32 := [f.n0, f.n1, f.n2, f.n3, f.n4, f.n5, f.n6, f.n7, f.n8, f.n9]
def fvStr (f : FV) : String :=
  ",".intercalate ((fvWords f).map fun w => String.ofList (Nat.toDigits 16 w.toNat))

/-- the exact twin of `applyOp` on the word vectors of the operands -/
def applyOpExact (m : Mem) (fr : Frame) (dst : Cell) : Op → FN
  | .set src => setVal_exact (m.get (fr.addr src)).toN
  | .setInt k => setInt_exact k
  | .add src => add_exact (m.get (fr.addr dst)).toN (m.get (fr.addr src)).toN
  | .add2 a b => add2_exact (m.get (fr.addr a)).toN (m.get (fr.addr b)).toN
  | .addInt k => addInt_exact (m.get (fr.addr dst)).toN k
  | .negate k => negate_exact (m.get (fr.addr dst)).toN k
  | .negateVal src k => negateVal_exact (m.get (fr.addr src)).toN k
  | .mulInt k => mulInt_exact (m.get (fr.addr dst)).toN k
  | .mul src => mul_exact (m.get (fr.addr dst)).toN (m.get (fr.addr src)).toN
  | .mul2 a b => mul2_exact (m.get (fr.addr a)).toN (m.get (fr.addr b)).toN
  | .square => square_exact (m.get (fr.addr dst)).toN
  | .squareVal src => squareVal_exact (m.get (fr.addr src)).toN
  | .normalise => normalise_exact (m.get (fr.addr dst)).toN
  | .inverse => inverse_exact (m.get (fr.addr dst)).toN
  | .sqrtVal src => sqrtVal_exact (m.get (fr.addr src)).toN

/-- the single operation as a `field.*` op line of the harness -/
def opLine (m : Mem) (fr : Frame) (dst : Cell) : Op → String
  | .set src => "field.set " ++ fvStr (m.get (fr.addr src))
  | .setInt k => "field.setint " ++ toString k
  | .add src => "field.add " ++ fvStr (m.get (fr.addr dst)) ++ " " ++ fvStr (m.get (fr.addr src))
  | .add2 a b => "field.add2 " ++ fvStr (m.get (fr.addr a)) ++ " " ++ fvStr (m.get (fr.addr b))
  | .addInt k => "field.addint " ++ fvStr (m.get (fr.addr dst)) ++ " " ++ toString k
  | .negate k => "field.neg " ++ fvStr (m.get (fr.addr dst)) ++ " " ++ toString k
  | .negateVal src k => "field.negval " ++ fvStr (m.get (fr.addr src)) ++ " " ++ toString k
  | .mulInt k => "field.mulint " ++ fvStr (m.get (fr.addr dst)) ++ " " ++ toString k
  | .mul src => "field.mul " ++ fvStr (m.get (fr.addr dst)) ++ " " ++ fvStr (m.get (fr.addr src))
  | .mul2 a b => "field.mul2 " ++ fvStr (m.get (fr.addr a)) ++ " " ++ fvStr (m.get (fr.addr b))
  | .square => "field.sq " ++ fvStr (m.get (fr.addr dst))
  | .squareVal src => "field.sqval " ++ fvStr (m.get (fr.addr src))
  | .normalise => "field.normalise " ++ fvStr (m.get (fr.addr dst))
  | .inverse => "field.inv " ++ fvStr (m.get (fr.addr dst))
  | .sqrtVal src => "field.sqrt " ++ fvStr (m.get (fr.addr src))

structure WOut where
  mem : Mem
  fr : Frame
  returned : Bool
  wrap : Option String      -- the first wrapping operation, as a field.* op line
  nops : Nat                -- operations executed

mutual
def execStmtW (prog : Array Fn) (fuel : Nat) (m : Mem) (fr : Frame) (w : Option String) (n : Nat) : Stmt → WOut
  | .op dst o =>
    let r := applyOp m fr dst o
    let w' := match w with
      | some s => some s
      | none => if r.toN != applyOpExact m fr dst o then some (opLine m fr dst o) else none
    ⟨m.set (fr.addr dst) r, fr, false, w', n + 1⟩
  | .setFlag i c =>
    let v := evalCond m fr c
    ⟨m, { fr with flags := fun j => if j = i then v else fr.flags j }, false, w, n⟩
  | .ite c t e => if evalCond m fr c then execBlockW prog fuel m fr w n t else execBlockW prog fuel m fr w n e
  | .ret => ⟨m, fr, true, w, n⟩
  | .call f args =>
    match fuel with
    | 0 => ⟨m, fr, false, w, n⟩
    | fuel' + 1 =>
      match prog[f]? with
      | none => ⟨m, fr, false, w, n⟩
      | some fn =>
        let callee : Frame := { params := args.map fr.addr, locBase := m.next }
        let m0 : Mem := { vals := fun a => if m.next ≤ a ∧ a < m.next + fn.nlocals then zero else m.vals a,
                          next := m.next + fn.nlocals }
        let out := execBlockW prog fuel' m0 callee w n fn.body
        ⟨out.mem, fr, false, out.wrap, out.nops⟩
def execBlockW (prog : Array Fn) (fuel : Nat) (m : Mem) (fr : Frame) (w : Option String) (n : Nat) : Block → WOut
  | .nil => ⟨m, fr, false, w, n⟩
  | .cons s rest =>
    let o := execStmtW prog fuel m fr w n s
    if o.returned then o else execBlockW prog fuel o.mem o.fr o.wrap o.nops rest
end

/-- `runFn` with wrap detection: (final parameter values, first wrapping op, number of ops executed) -/
def runFnW (prog : Array Fn) (consts : FV × FV × FV) (f : Nat) (args : List FV) (alias : List Nat)
    (flags0 : Nat → Bool := fun _ => false) : List FV × Option String × Nat :=
  match prog[f]? with
  | none => ([], none, 0)
  | some fn =>
    let base := 3
    let addrs := (List.range args.length).map fun i => base + alias.getD i i
    let vals0 : Nat → FV := fun a =>
      if a = 0 then consts.1 else if a = 1 then consts.2.1 else if a = 2 then consts.2.2
      else if a < base + args.length then args.getD (a - base) zero
      else zero
    let m0 : Mem := { vals := vals0, next := base + args.length + fn.nlocals }
    let fr : Frame := { params := addrs, locBase := base + args.length, flags := flags0 }
    let out := execBlockW prog 8 m0 fr none 0 fn.body
    (addrs.map out.mem.get, out.wrap, out.nops)

end GoBk.IRW
